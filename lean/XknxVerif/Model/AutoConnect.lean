/-
Model of automatic connection (xknx/io/knxip_interface.py `_start_automatic`),
gateway self-description parsing (`GatewayDescriptor.parse_dibs`) and the scan
filter (`GatewayScanFilter.match`) in xknx/io/gateway_scanner.py.
Core Lean only.
-/
import XknxVerif.Py.Basic
import XknxVerif.Generated.ServiceFamily

namespace XknxVerif.AutoConnect
open XknxVerif.Generated

/-- What a gateway descriptor knows after `parse_dibs`. `none` = attribute is `None`. -/
structure GW where
  tun : Bool                 -- supports_tunnelling
  tcp : Bool                 -- supports_tunnelling_tcp
  rout : Bool                -- supports_routing
  tunSec : Option Bool       -- tunnelling_requires_secure
  routSec : Option Bool      -- routing_requires_secure
  core : Nat                 -- core_version
  sec : Bool                 -- supports_secure
  deriving DecidableEq, Repr

def GW.init : GW := ⟨false, false, false, none, none, 0, false⟩

/-- The DIBs that matter: supported / secured service families as (family, version) lists. -/
inductive Dib where
  | supp (fams : List (Nat × Nat))
  | secured (fams : List (Nat × Nat))
  | other
  deriving DecidableEq, Repr

/-- `_DIBServiceFamilies.version(name)`: first matching family's version. -/
def version (fams : List (Nat × Nat)) (name : Nat) : Option Nat :=
  (fams.find? (fun f => f.1 == name)).map (·.2)

/-- `_DIBServiceFamilies.supports(name, version)` -/
def supports (fams : List (Nat × Nat)) (name : Nat) (minVer : Option Nat) : Bool :=
  fams.any (fun f => f.1 == name && (match minVer with | none => true | some v => f.2 ≥ v))

/-- one iteration of the `for dib in dibs` loop of `parse_dibs` -/
def parseDib (g : GW) : Dib → GW
  | .supp fams =>
    let g := { g with core := (version fams ServiceFamily.core).getD 0,
                      rout := supports fams ServiceFamily.routing none }
    -- `if _tunnelling_version := dib.version(TUNNELING)`: absent or version 0 leaves the flags alone
    let g := match version fams ServiceFamily.tunneling with
      | some v => if v != 0 then { g with tun := true, tcp := decide (v ≥ 2) } else g
      | none => g
    { g with sec := supports fams ServiceFamily.security (some 1) }
  | .secured fams =>
    { g with tunSec := some (supports fams ServiceFamily.tunneling none),
             routSec := some (supports fams ServiceFamily.routing none) }
  | .other => g

def parseDibs (dibs : List Dib) : GW := dibs.foldl parseDib GW.init

/-- Python truthiness of an `Optional[bool]` attribute. -/
def truthy : Option Bool → Bool
  | some true => true
  | _ => false

inductive Method where
  | secureTunnelTcp | tunnelTcp | tunnelUdp | routing
  deriving DecidableEq, Repr

/-- The `if/elif` chain of `_start_automatic`: which `_start_*` is invoked (none = no branch taken). -/
def choose (g : GW) : Option Method :=
  if g.tcp then
    (if truthy g.tunSec then some .secureTunnelTcp else some .tunnelTcp)
  else if g.tun && !truthy g.tunSec then some .tunnelUdp
  else if g.rout && !truthy g.routSec then some .routing
  else none

/-- Scan filter flags after Python truthiness (`None`/`False` → false). -/
structure Filter where
  tunnelling : Bool
  tunnellingTcp : Bool
  routing : Bool
  secureTunnelling : Bool
  secureRouting : Bool
  deriving DecidableEq, Repr

/-- `GatewayScanFilter.match`, `nameOk` = "`self.name is None or self.name == gateway.name`". -/
def filterMatch (f : Filter) (nameOk : Bool) (g : GW) : Bool :=
  if !nameOk then false else
  (f.tunnelling && g.tun && !truthy g.tunSec)
  || (f.tunnellingTcp && g.tcp && !truthy g.tunSec)
  || (f.routing && g.rout && !truthy g.routSec)
  || (f.secureTunnelling && g.tcp && truthy g.tunSec)
  || (f.secureRouting && g.rout && truthy g.routSec)

/-- Outcome of the `_start_*` call on a gateway. -/
inductive Outcome where
  | ok | commErr | invalidSecure
  deriving DecidableEq, Repr

/-- A gateway yielded by the scanner: descriptor, individual address, and how a connection attempt ends. -/
structure Cand where
  gw : GW
  ia : Nat
  outcome : Outcome
  deriving Repr

/-- `_start_automatic` loop. Returns the attempts `(index, method)` in order and the index of the
gateway recorded as `_gateway_info` (none ⇒ CommunicationError "No usable KNX/IP device found"). -/
def auto (hostFilter : List Nat) : Nat → List Cand → List (Nat × Method) × Option Nat
  | _, [] => ([], none)
  | i, c :: cs =>
    if !hostFilter.isEmpty && !hostFilter.contains c.ia then auto hostFilter (i + 1) cs
    else match choose c.gw with
      | none => ([], some i)            -- no branch taken: `else:` of the try still records the gateway
      | some m =>
        match c.outcome with
        | .ok => ([(i, m)], some i)
        | _ => let (as, r) := auto hostFilter (i + 1) cs; ((i, m) :: as, r)

/-! ### the scanner's response callback -/

/-- One received search response: extended or not, the control endpoint it names, its DIBs. -/
structure Resp where
  ext : Bool
  ep : Nat
  dibs : List Dib
  deriving Repr

def firstSupp : List Dib → Option (List (Nat × Nat))
  | [] => none
  | .supp f :: _ => some f
  | _ :: ds => firstSupp ds

/-- "skip non-extended SearchResponse for Core-V2 devices": a plain SearchResponse cannot carry the secured-families DIB;
a device that lists CORE in version 2 **or later** answers the extended request too, and only that answer is used. -/
def skipPlain (r : Resp) : Bool :=
  !r.ext && (match firstSupp r.dibs with
             | some fams => supports fams ServiceFamily.core (some 2)
             | none => false)

/-- `found_gateways[control_endpoint] = gateway`: an existing key keeps its place -/
def upsert (found : List (Nat × GW)) (ep : Nat) (g : GW) : List (Nat × GW) :=
  if found.any (·.1 == ep) then found.map (fun e => if e.1 == ep then (ep, g) else e) else found ++ [(ep, g)]

/-- `GatewayScanner._response_rec_callback`: returns the table and the descriptor put on the queue (if any). -/
def scanStep (f : Filter) (found : List (Nat × GW)) (r : Resp) : List (Nat × GW) × Option (Nat × GW) :=
  if skipPlain r then (found, none) else
  let g := parseDibs r.dibs
  if filterMatch f true g then (upsert found r.ep g, some (r.ep, g)) else (found, none)

def scanAll (f : Filter) : List (Nat × GW) → List Resp → List (Nat × GW) × List (Nat × GW)
  | found, [] => (found, [])
  | found, r :: rs =>
    let (found', y) := scanStep f found r
    let (fin, ys) := scanAll f found' rs
    (fin, (match y with | some e => [e] | none => []) ++ ys)

/-! ### line protocol -/

def optB (s : Char) : Option (Option Bool) :=
  match s with
  | 'N' => some none | 'T' => some (some true) | 'F' => some (some false) | _ => none

def showOptB : Option Bool → String
  | none => "N" | some true => "T" | some false => "F"

def b01 (b : Bool) : String := if b then "1" else "0"

def GW.render (g : GW) : String :=
  s!"{b01 g.tun}{b01 g.tcp}{b01 g.rout}{showOptB g.tunSec}{showOptB g.routSec}"

/-- "110TN" -/
def parseGW (s : String) : Option GW :=
  match s.toList with
  | [a, b, c, d, e] => do
    let d ← optB d
    let e ← optB e
    if (a == '0' || a == '1') && (b == '0' || b == '1') && (c == '0' || c == '1') then
      some ⟨a == '1', b == '1', c == '1', d, e, 0, false⟩
    else none
  | _ => none

def parseFams (s : String) : Option (List (Nat × Nat)) :=
  if s.isEmpty then some [] else
  (s.splitOn ",").mapM fun t => match t.splitOn "." with
    | [a, b] => do pure ((← a.toNat?), (← b.toNat?))
    | _ => none

def parseDibTok (s : String) : Option Dib :=
  if s == "O" then some .other
  else if s.startsWith "S:" then (parseFams (s.drop 2).toString).map .supp
  else if s.startsWith "X:" then (parseFams (s.drop 2).toString).map .secured
  else none

def parseFilter (s : String) : Option Filter :=
  match s.toList with
  | [a, b, c, d, e] => some ⟨a == '1', b == '1', c == '1', d == '1', e == '1'⟩
  | _ => none

def parseCand (s : String) : Option Cand :=
  match s.splitOn ":" with
  | [g, ia, o] => do
    let g ← parseGW g
    let ia ← ia.toNat?
    let o ← match o with
      | "ok" => some Outcome.ok | "comm" => some .commErr | "sec" => some .invalidSecure | _ => none
    pure ⟨g, ia, o⟩
  | _ => none

def Method.render : Method → String
  | .secureTunnelTcp => "secure_tunnelling_tcp" | .tunnelTcp => "tunnelling_tcp"
  | .tunnelUdp => "tunnelling_udp" | .routing => "routing"

-- DRIVER: c46 => XknxVerif.AutoConnect.handle
/-- `parse <dib>;<dib>…` → `<flags> <core> <sec>`;  `match <filter5> <nameOk> <gw>` → `0|1`;
`choose <gw>` → method | `none`;  `auto <ia,ia|-> <cand>;<cand>…` → `<i>:<method>,… -> <i>|fail` -/
def handle : List String → String
  | ["parse", ds] =>
    match ((if ds == "-" then [] else ds.splitOn ";").mapM parseDibTok) with
    | some dibs => let g := parseDibs dibs; s!"{g.render} {g.core} {b01 g.sec}"
    | none => "bad-op"
  | ["match", f, n, g] =>
    match parseFilter f, parseGW g with
    | some f, some g => b01 (filterMatch f (n == "1") g)
    | _, _ => "bad-op"
  | ["choose", g] =>
    match parseGW g with
    | some g => match choose g with | some m => m.render | none => "none"
    | none => "bad-op"
  | ["scan", f, rs] =>
    let parseResp (t : String) : Option Resp :=
      match t.splitOn "@" with
      | [k, rest] =>
        match rest.splitOn "=" with
        | [ep, ds] => do
          let ep ← ep.toNat?
          let dibs ← (if ds == "-" then [] else ds.splitOn ";").mapM parseDibTok
          if k == "P" then some ⟨false, ep, dibs⟩ else if k == "E" then some ⟨true, ep, dibs⟩ else none
        | _ => none
      | _ => none
    match parseFilter f, (if rs == "-" then [] else rs.splitOn "|").mapM parseResp with
    | some f, some rs =>
      let (fin, ys) := scanAll f [] rs
      let show1 (e : Nat × GW) := s!"{e.1}:{e.2.render}"
      let a := ",".intercalate (ys.map show1)
      let b := ",".intercalate (fin.map show1)
      s!"{if a.isEmpty then "-" else a} => {if b.isEmpty then "-" else b}"
    | _, _ => "bad-op"
  | ["auto", hf, cs] =>
    let hf? := if hf == "-" then some [] else (hf.splitOn ",").mapM String.toNat?
    let cs? := (if cs == "-" then [] else cs.splitOn ";").mapM parseCand
    match hf?, cs? with
    | some hf, some cs =>
      let (as, r) := auto hf 0 cs
      let a := ",".intercalate (as.map fun (i, m) => s!"{i}:{m.render}")
      let r := match r with | some i => toString i | none => "fail"
      s!"{if a.isEmpty then "-" else a} -> {r}"
    | _, _ => "bad-op"
  | _ => "bad-op"

end XknxVerif.AutoConnect
