/-
Model (mode-R monitor) of xknx/core/task_registry.py: `Task` (`_start`, `_start_internal`,
`cancel`, `restart`, `connection_lost`, `reconnected`) and `TaskRegistry` (`start_task`,
`remove_task`, `start`, `stop`, `connection_state_changed_cb`).

Observable alphabet (what the harness records on the virtual-time loop):
  inputs   start i | remove i | stop | begin (= TaskRegistry.start) | inject c (a call of
           ConnectionManager.connection_state_changed; ignored, the *delivery* is what counts)
           conn c   connection state `c` delivered to the connection-state callbacks
                    (0 disconnected, 1 connecting, 2 connected)
           adv t    virtual time is now `t` µs
  outputs  spawn i g   an asyncio task for registry task `i` was created (generation `g`,
                       numbered in creation order by the harness)
           enter i g / exit i g   the target of task `i` was entered / left inside generation `g`
           done i g    the asyncio task of generation `g` finished (returned or cancelled)
           snap l      the asyncio tasks alive at a quiescent point, as (task, generation) pairs

Orders deliberately left open: nothing is said about *when* a target runs apart from a lower
bound (`wait_before_start` after spawn, `repeat_after + wait_before_start` after the previous
return) and the connection guard of `wait_for_connection`; the order in which different tasks
are restarted on reconnection (the registry iterates a `set`); the moment a cancelled
generation's asyncio task actually finishes (any time before the next quiescent snapshot).
Strict: which generation may enter a target (only the one the registry currently holds), that
no two executions of one task's target overlap, one spawn per start / per reconnection of a
restart task, and that the alive asyncio tasks at a snapshot are exactly the held generations.

Core Lean only.
-/
import XknxVerif.Py.Basic
import XknxVerif.MonitorQ

namespace XknxVerif.TaskRegistry

/-- Task options (constructor arguments of `Task`). Times in µs. -/
structure Opts where
  restart : Bool        -- restart_after_reconnect
  wbs : Nat             -- wait_before_start (0 = falsy: no sleep)
  wfc : Bool            -- wait_for_connection
  rep : Option Nat      -- repeat_after (`None` = run once)
  deriving Repr, DecidableEq, Inhabited

/-- A cancelled generation whose asyncio task has not finished yet. -/
structure Zombie where
  gen : Nat
  inTarget : Bool
  deriving Repr, DecidableEq

/-- The generation the registry holds in `Task._task`. -/
structure Cur where
  gen : Nat
  inTarget : Bool       -- currently inside the target
  ran : Bool            -- target invoked at least once
  sawDisc : Bool        -- the connection was not `connected` at spawn or at some later point
  connOk : Bool         -- `connected` at some moment since spawn / since the target last returned
                        -- (`Event.wait()` releases a waiter even if the event is cleared again before it runs)
  ready : Nat           -- earliest time the target may be invoked next
  deriving Repr, DecidableEq

structure TaskSt where
  opts : Opts
  registered : Bool     -- `task in registry.tasks` (and `task.xknx is not None`)
  nextGen : Nat         -- generations spawned so far
  expectSpawn : Bool    -- `_start()` was called; the `spawn` observation is still to come
  cur : Option Cur
  zombies : List Zombie
  deriving Repr

def TaskSt.init (o : Opts) : TaskSt := ⟨o, false, 0, false, none, []⟩

structure State where
  n : Nat                   -- number of tasks in the scenario
  now : Nat
  connected : Bool          -- `connection_manager.connected.is_set()`
  listening : Bool          -- registry callback registered with the connection manager
  tasks : Nat → TaskSt

inductive Obs where
  | start (i : Nat) | remove (i : Nat) | stop | begin
  | inject (c : Nat) | conn (c : Nat) | adv (t : Nat)
  | spawn (i g : Nat) | enter (i g : Nat) | exit (i g : Nat) | done (i g : Nat)
  | snap (l : List (Nat × Nat))
  deriving Repr, DecidableEq

/-- `Task.cancel()`: the held generation (if any) is cancelled and forgotten. -/
def cancelCur (t : TaskSt) : TaskSt :=
  match t.cur with
  | none => t
  | some c => { t with cur := none, zombies := ⟨c.gen, c.inTarget⟩ :: t.zombies }

def upd (s : State) (i : Nat) (f : TaskSt → TaskSt) : State :=
  { s with tasks := fun j => if j = i then f (s.tasks j) else s.tasks j }

/-- No `_start()` is waiting for its `spawn` observation. -/
def quiet (s : State) : Bool := (List.range s.n).all fun i => !(s.tasks i).expectSpawn

def liveList (s : State) : List (Nat × Nat) :=
  (List.range s.n).filterMap fun i => (s.tasks i).cur.map fun c => (i, c.gen)

def noZombies (s : State) : Bool := (List.range s.n).all fun i => (s.tasks i).zombies.isEmpty

/-- `connection_state_changed_cb` for one task (`reconnected` / `connection_lost`), plus the
bookkeeping of "has seen a non-connected state". -/
def connTask (listening : Bool) (c : Nat) (t : TaskSt) : TaskSt :=
  let t := if c != 2 then { t with cur := t.cur.map fun k => { k with sawDisc := true } }
           else { t with cur := t.cur.map fun k => { k with connOk := true } }
  if listening && t.registered && t.opts.restart then
    if c == 2 then { cancelCur t with expectSpawn := true }   -- restart(): cancel(); _start()
    else cancelCur t                                            -- connection_lost()
  else t

/-- natural end of the held generation: the loop of `_start_internal` left by `break`
(ran, no repeat) or by the early `return` (restart ∧ wait_for_connection ∧ not connected). -/
def mayFinish (o : Opts) (c : Cur) : Bool :=
  !c.inTarget && ((c.ran && o.rep.isNone) || (o.restart && o.wfc && c.sawDisc))

def step? (s : State) : Obs → Option State
  | .start i =>
    if i < s.n ∧ quiet s then
      -- start_task: remove_task (cancels only when registered), register, _start()
      some (upd s i fun t =>
        let t := if t.registered then cancelCur t else t
        { t with registered := true, expectSpawn := true })
    else none
  | .remove i =>
    if i < s.n ∧ quiet s then
      some (upd s i fun t => if t.registered then { cancelCur t with registered := false } else t)
    else none
  | .stop =>
    if quiet s then
      some { s with listening := false,
                    tasks := fun j => let t := s.tasks j
                      if t.registered then { cancelCur t with registered := false } else t }
    else none
  | .begin => if s.listening then none else some { s with listening := true }
  | .inject c => if c < 3 then some s else none
  | .conn c =>
    if c < 3 ∧ quiet s then
      some { s with connected := c == 2, tasks := fun j => connTask s.listening c (s.tasks j) }
    else none
  | .adv t => if s.now ≤ t then some { s with now := t } else none
  | .spawn i g =>
    let t := s.tasks i
    if i < s.n ∧ t.expectSpawn ∧ g = t.nextGen then
      some (upd s i fun t => { t with expectSpawn := false, nextGen := t.nextGen + 1,
                                      cur := some ⟨g, false, false, !s.connected, s.connected, s.now + t.opts.wbs⟩ })
    else none
  | .enter i g =>
    let t := s.tasks i
    match t.cur with
    | some c =>
      if c.gen = g ∧ c.inTarget = false ∧ t.zombies.all (fun z => !z.inTarget)
          ∧ (t.opts.wfc = true → c.connOk = true) ∧ c.ready ≤ s.now then
        some (upd s i fun t => { t with cur := some { c with inTarget := true, ran := true } })
      else none
    | none => none
  | .exit i g =>
    let t := s.tasks i
    match t.cur with
    | some c =>
      if c.gen = g ∧ c.inTarget = true then
        some (upd s i fun t =>
          { t with cur := some { c with inTarget := false, connOk := s.connected, ready := s.now + t.opts.rep.getD 0 + t.opts.wbs } })
      else if ⟨g, true⟩ ∈ t.zombies then
        some (upd s i fun t => { t with zombies := t.zombies.map fun z => if z = ⟨g, true⟩ then ⟨g, false⟩ else z })
      else none
    | none =>
      if ⟨g, true⟩ ∈ t.zombies then
        some (upd s i fun t => { t with zombies := t.zombies.map fun z => if z = ⟨g, true⟩ then ⟨g, false⟩ else z })
      else none
  | .done i g =>
    let t := s.tasks i
    match t.cur with
    | some c =>
      if c.gen = g then
        if mayFinish t.opts c then some (upd s i fun t => { t with cur := none }) else none
      else if ⟨g, false⟩ ∈ t.zombies then
        some (upd s i fun t => { t with zombies := t.zombies.erase ⟨g, false⟩ })
      else none
    | none =>
      if ⟨g, false⟩ ∈ t.zombies then
        some (upd s i fun t => { t with zombies := t.zombies.erase ⟨g, false⟩ })
      else none
  | .snap l => if quiet s ∧ noZombies s ∧ l = liveList s then some s else none

def init (opts : List Opts) : State :=
  { n := opts.length, now := 0, connected := false, listening := false,
    tasks := fun i => TaskSt.init (opts.getD i default) }

def accepts (opts : List Opts) (tr : List Obs) : Bool :=
  (Monitor.run? step? (init opts) tr).isSome

/-! ### line protocol -/

def parseB (s : String) : Option Bool :=
  if s == "1" then some true else if s == "0" then some false else none

/-- `<restart><wfc>:<wbs>:<rep|->` -/
def parseOpts (s : String) : Option Opts :=
  match s.splitOn ":" with
  | [f, w, r] =>
    match f.toList with
    | [a, b] => do
      let a ← parseB a.toString
      let b ← parseB b.toString
      let w ← w.toNat?
      let r ← if r == "-" then some none else r.toNat?.map some
      pure ⟨a, w, b, r⟩
    | _ => none
  | _ => none

def parsePairs (s : String) : Option (List (Nat × Nat)) :=
  if s.isEmpty then some [] else
  (s.splitOn "/").mapM fun p => match p.splitOn "." with
    | [a, b] => do pure ((← a.toNat?), (← b.toNat?))
    | _ => none

def parseObs (s : String) : Option Obs :=
  match s.splitOn "," with
  | ["S", i] => i.toNat?.map .start
  | ["R", i] => i.toNat?.map .remove
  | ["X"] => some .stop
  | ["B"] => some .begin
  | ["I", c] => c.toNat?.map .inject
  | ["C", c] => c.toNat?.map .conn
  | ["A", t] => t.toNat?.map .adv
  | ["P", i, g] => do pure (.spawn (← i.toNat?) (← g.toNat?))
  | ["E", i, g] => do pure (.enter (← i.toNat?) (← g.toNat?))
  | ["L", i, g] => do pure (.exit (← i.toNat?) (← g.toNat?))
  | ["D", i, g] => do pure (.done (← i.toNat?) (← g.toNat?))
  | ["N", l] => (parsePairs l).map .snap
  | _ => none

-- DRIVER: c36 => XknxVerif.TaskRegistry.handle
/-- `monitor <opts,…> <obs;…>` → `accept` | `reject@<index>` | `bad-op` -/
def handle : List String → String
  | ["monitor", os, tr] =>
    match (os.splitOn ";").mapM parseOpts, (if tr == "-" then some [] else (tr.splitOn ";").mapM parseObs) with
    | some opts, some obs =>
      match Monitor.runIdx step? (init opts) obs 0 with
      | .ok _ => "accept"
      | .error k => s!"reject@{k}"
    | _, _ => "bad-op"
  | _ => "bad-op"

end XknxVerif.TaskRegistry
