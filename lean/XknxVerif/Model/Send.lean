/-
Model of the "value accepted for sending" path (C11), after the `fix:` commits:
  xknx/dpt/payload.py                      DPTArray / DPTBinary construction
  xknx/tools/group_communication.py        _parse_payload, group_value_write / group_value_response (MCP write calls these)
  xknx/remote_value/remote_value.py        RemoteValue.set / to_knx (delegation to a DPT transcoder) / send_raw
  xknx/remote_value/remote_value_raw.py, remote_value_scaling.py, remote_value_switch.py, _step.py, _updown.py
  xknx/telegram/apci.py                    GroupValueWrite/Response.to_knx (APDU octets)
DPT transcoders are a parameter: the model is told what `DPT.to_knx(value)` returned or raised.
Core Lean only.
-/
import XknxVerif.Py.Bytes
import XknxVerif.Generated.Send

namespace XknxVerif.Send

/-- Python exception classes that occur on this path -/
inductive Err where
  | conversion | typeError | indexError | other
  deriving DecidableEq, Repr

/-- an element of a list / tuple: an `int` (a `bool` counts as its int value) or anything else -/
inductive Item where
  | int (n : Int)
  | other
  deriving DecidableEq, Repr

/-- a Python float: nan, ±inf or an exact rational `num/den` (`den > 0`) -/
inductive Flt where
  | nan | inf | ninf
  | fin (num : Int) (den : Nat)
  deriving DecidableEq, Repr

inductive PyVal where
  | none
  | bool (b : Bool)
  | int (n : Int)
  | float (f : Flt)
  | str
  | bytes (b : List Nat)
  | list (xs : List Item)
  | tuple (xs : List Item)
  | arr (xs : List Item)       -- an existing DPTArray object (its items are NOT validated by the constructor)
  | bin (n : Int)              -- an existing DPTBinary object
  | stepDir (increase : Bool)  -- RemoteValueStep.Direction
  | upDownDir (up : Bool)      -- RemoteValueUpDown.Direction
  | other
  deriving DecidableEq, Repr

inductive Payload where
  | arr (xs : List Item)      -- DPTArray: whatever items it was built from
  | bin (n : Int)             -- DPTBinary: the constructor guarantees an int (range checked)
  deriving DecidableEq, Repr

def octet (n : Int) : Bool := decide (0 ≤ n) && decide (n ≤ 255)

/-- `isinstance(item, int) and 0 <= item <= 255` -/
def itemOctet : Item → Bool
  | .int n => octet n
  | .other => false

/-- the telegram can be put on the wire: a DPTArray is not empty (`GroupValueWrite.to_knx` refuses it: it would read
back as DPTBinary(0)) and holds octets, the 6-bit value fits, the NPDU length fits -/
def wireValid : Payload → Bool
  | .arr xs => !xs.isEmpty && xs.all itemOctet && decide (xs.length + 1 ≤ Generated.Send.maxNpduLength)
  | .bin n => decide (0 ≤ n) && decide (n ≤ (Generated.Send.apciBitmask : Int))

/-- `DPTArray.__init__` : int → 1-tuple; list/bytes/tuple → tuple; else TypeError.  Items are not looked at. -/
def mkArray : PyVal → Except Err Payload
  | .int n => .ok (.arr [.int n])
  | .bool b => .ok (.arr [.int (if b then 1 else 0)])
  | .bytes bs => .ok (.arr (bs.map fun b => .int (Int.ofNat b)))
  | .list xs | .tuple xs => .ok (.arr xs)
  | _ => .error .typeError

def binRange (n : Int) : Except Err Payload :=
  if 0 ≤ n ∧ n ≤ (Generated.Send.apciBitmask : Int) then .ok (.bin n) else .error .conversion

/-- `DPTBinary.__init__` : tuple → first item (IndexError when empty); non-int → TypeError; range → ConversionError -/
def mkBinary : PyVal → Except Err Payload
  | .tuple [] => .error .indexError
  | .tuple (.int n :: _) => binRange n
  | .tuple (.other :: _) => .error .typeError
  | .int n => binRange n
  | .bool b => .ok (.bin (if b then 1 else 0))
  | _ => .error .typeError

/-- what a DPT transcoder's `to_knx(value)` did -/
inductive TransRes where
  | arr (items : List Item)   -- returned DPTArray(items)
  | bin (v : Item)            -- returned DPTBinary(v)
  | conv                      -- raised ConversionError
  | other                     -- raised something else
  deriving DecidableEq, Repr

def transcoded : TransRes → Except Err Payload
  | .arr items => .ok (.arr items)
  | .bin (.int n) => binRange n
  | .bin .other => .error .typeError
  | .conv => .error .conversion
  | .other => .error .other

/-- `try … except TypeError → ConversionError` -/
def catchType (r : Except Err Payload) : Except Err Payload :=
  match r with
  | .error .typeError => .error .conversion
  | r => r

def catchTypeIndex (r : Except Err Payload) : Except Err Payload :=
  match r with
  | .error .typeError => .error .conversion
  | .error .indexError => .error .conversion
  | r => r

/-- the final guards of `_parse_payload`: not empty, items are octets, the NPDU length fits -/
def finalGuards : Payload → Except Err Payload
  | .arr xs =>
    if xs.isEmpty then .error .conversion
    else if !xs.all itemOctet then .error .conversion
    else if xs.length ≥ Generated.Send.maxNpduLength then .error .conversion
    else .ok (.arr xs)
  | p => .ok p

/-- `_parse_payload` up to the final guards: payload objects pass through; a value_type delegates to the
transcoder (`tr` = its result); otherwise an `int` becomes a DPTBinary and anything else a DPTArray,
with `TypeError` turned into `ConversionError`. -/
def parseCore (tr : Option TransRes) : PyVal → Except Err Payload
  | .arr xs => .ok (.arr xs)
  | .bin n => .ok (.bin n)
  | v =>
    match tr with
    | some t => transcoded t
    | none =>
      match v with
      | .int n => mkBinary (.int n)
      | .bool b => mkBinary (.bool b)
      | v => catchType (mkArray v)

/-- `_parse_payload(value, value_type)` -/
def parsePayload (tr : Option TransRes) (v : PyVal) : Except Err Payload :=
  match parseCore tr v with
  | .ok p => finalGuards p
  | .error e => .error e

/-- `n.to_bytes(length, "big")` -/
def toBytesBE (len : Nat) (n : Int) : Option (List Item) :=
  if 0 ≤ n ∧ n.toNat < 256 ^ len then some ((Bytes.ofNatBE len n.toNat).map fun b => .int (Int.ofNat b)) else none

/-- the integer whose `to_bytes` is called; `none` = no such method (AttributeError → ConversionError) -/
def rawArg : PyVal → Option Int
  | .int n => some n
  | .bool b => some (if b then 1 else 0)
  | _ => none

/-- `RemoteValueRaw(payload_length).to_knx(value)` -/
def rawToKnx (len : Nat) (v : PyVal) : Except Err Payload :=
  if len = 0 then catchTypeIndex (mkBinary v)
  else match rawArg v with
    | none => .error .conversion
    | some n => match toBytesBE len n with
      | some bs => .ok (.arr bs)
      | none => .error .conversion                  -- OverflowError → ConversionError

/-- Python `round()` of the rational `num/den` (`den > 0`): half to even -/
def roundHalfEven (num : Int) (den : Nat) : Int :=
  let fl := num / (den : Int)
  let rem := num % (den : Int)
  if 2 * rem < den then fl
  else if 2 * rem > den then fl + 1
  else if fl % 2 = 0 then fl else fl + 1

/-- the numeric reading of a value in `(value - range_from) / delta * 255`; `none` = TypeError (None, str,
list …), ValueError (`round(nan)`) or OverflowError (`round(inf)`), all turned into ConversionError -/
def scalingArg : PyVal → Option (Int × Nat)
  | .int n => some (n, 1)
  | .bool b => some (if b then 1 else 0, 1)
  | .float (.fin num den) => some (num, den)
  | _ => none

/-- `round((num/den - rf) / delta * 255)` over exact rationals, then the 0..255 check -/
def scaleQ (rf rt : Int) (num : Int) (den : Nat) : Except Err Payload :=
  if rt - rf = 0 ∨ den = 0 then .error .conversion           -- ZeroDivisionError → ConversionError
  else if octet (roundHalfEven ((num - rf * den) * 255 * (if rt - rf < 0 then -1 else 1)) (den * (rt - rf).natAbs))
  then .ok (.arr [.int (roundHalfEven ((num - rf * den) * 255 * (if rt - rf < 0 then -1 else 1)) (den * (rt - rf).natAbs))])
  else .error .conversion

/-- `RemoteValueScaling.to_knx` : `_calc_to_knx` + `DPTArray(knx_value)` -/
def scalingToKnx (rf rt : Int) (v : PyVal) : Except Err Payload :=
  match scalingArg v with
  | none => .error .conversion
  | some (num, den) => scaleQ rf rt num den

def switchToKnx (invert : Bool) : PyVal → Except Err Payload
  | .bool b => .ok (.bin (if b != invert then 1 else 0))
  | _ => .error .conversion

def stepToKnx (invert : Bool) : PyVal → Except Err Payload
  | .stepDir inc => .ok (.bin (if inc != invert then 1 else 0))
  | _ => .error .conversion

def upDownToKnx (invert : Bool) : PyVal → Except Err Payload
  | .upDownDir up => .ok (.bin (if up != invert then 0 else 1))
  | _ => .error .conversion

/-- the entry points the property names -/
inductive Setter where
  | raw (len : Nat)                 -- RemoteValueRaw(payload_length).set
  | scaling (rf rt : Int)           -- RemoteValueScaling(range_from, range_to).set
  | switch (invert : Bool)
  | step (invert : Bool)
  | upDown (invert : Bool)
  | viaDpt (tr : TransRes)          -- any RemoteValue whose to_knx is `dpt_class.to_knx(value)`
  | parse (tr : Option TransRes)    -- group_value_write / group_value_response / MCP send_group_value_write
  deriving DecidableEq, Repr

def accept : Setter → PyVal → Except Err Payload
  | .raw len, v => rawToKnx len v
  | .scaling rf rt, v => scalingToKnx rf rt v
  | .switch i, v => switchToKnx i v
  | .step i, v => stepToKnx i v
  | .upDown i, v => upDownToKnx i v
  | .viaDpt tr, _ => transcoded tr
  | .parse tr, v => parsePayload tr v

/-- the telegram queue (payloads only) and one call: queue grows by exactly the accepted payload, or is unchanged -/
def send (q : List Payload) (call : Setter × PyVal) : List Payload × List (Option Err) :=
  match accept call.1 call.2 with
  | .ok p => (q ++ [p], [none])
  | .error e => (q, [some e])

/-! ### APDU octets of GroupValueWrite / GroupValueResponse -/

def itemNat : Item → Nat
  | .int n => n.toNat
  | .other => 0

/-- `GroupValueWrite/Response.to_knx`: `encode_cmd_and_payload` + `bytes(value)`; `none` = it raises (empty array:
ConversionError; `bytes()` of a non-octet item) -/
def apdu (code : Nat) : Payload → Option (List Nat)
  | .bin n => some [(code / 256) % 4, (code % 256) ||| (n.toNat &&& Generated.Send.apciBitmask)]
  | .arr xs => if !xs.isEmpty && xs.all itemOctet then some ([(code / 256) % 4, code % 256] ++ xs.map itemNat) else none

/-- `GroupValueWrite.from_knx` -/
def apduDecode : List Nat → Option Payload
  | [_, b] => some (.bin (Int.ofNat (b &&& Generated.Send.apciBitmask)))
  | _ :: _ :: rest => some (.arr (rest.map fun b => .int (Int.ofNat b)))
  | _ => none

/-! ### line protocol -/

def parseInt? (s : String) : Option Int := s.toInt?

def parseItems (s : String) : Option (List Item) :=
  if s == "" then some [] else
  (s.splitOn ",").mapM fun t => if t == "x" then some Item.other else (parseInt? t).map Item.int

def parseVal (s : String) : Option PyVal :=
  if s == "N" then some .none
  else if s == "T" then some (.bool true)
  else if s == "F" then some (.bool false)
  else if s == "O" then some .other
  else if s == "Xnan" then some (.float .nan)
  else if s == "Xinf" then some (.float .inf)
  else if s == "Xninf" then some (.float .ninf)
  else if s == "EStep.INCREASE" then some (.stepDir true)
  else if s == "EStep.DECREASE" then some (.stepDir false)
  else if s == "EUpDown.UP" then some (.upDownDir true)
  else if s == "EUpDown.DOWN" then some (.upDownDir false)
  else if s.startsWith "I" then (parseInt? (s.drop 1).toString).map .int
  else if s.startsWith "Q" then
    match ((s.drop 1).toString).splitOn "/" with
    | [a, b] => do
      let a ← parseInt? a
      let b ← b.toNat?
      pure (.float (.fin a b))
    | _ => none
  else if s.startsWith "S" then some .str
  else if s.startsWith "Y:" then do
    let xs ← parseItems (s.drop 2).toString
    let ns ← xs.mapM fun | .int n => some n.toNat | .other => none
    pure (.bytes ns)
  else if s.startsWith "L:" then (parseItems (s.drop 2).toString).map .list
  else if s.startsWith "U:" then (parseItems (s.drop 2).toString).map .tuple
  else if s.startsWith "PA:" then do
    let xs ← parseItems (s.drop 3).toString
    pure (.arr xs)
  else if s.startsWith "PB:" then (parseInt? (s.drop 3).toString).map .bin
  else none

def parseTrans (s : String) : Option TransRes :=
  if s == "conv" then some .conv
  else if s == "other" then some .other
  else if s.startsWith "A:" then (parseItems (s.drop 2).toString).map .arr
  else if s.startsWith "B:" then
    let t := (s.drop 2).toString
    if t == "x" then some (.bin .other) else (parseInt? t).map fun n => .bin (.int n)
  else none

def renderErr : Err → String
  | .conversion => "conv"
  | .typeError => "exc:TypeError"
  | .indexError => "exc:IndexError"
  | .other => "exc:other"

def renderItems (xs : List Item) : String :=
  if xs.all itemOctet then hexOfBytes (xs.map itemNat) else "invalid"

def render (code : Nat) : Except Err Payload → String
  | .error e => renderErr e
  | .ok p =>
    let a := match apdu code p with
      | some bs => hexOfBytes bs
      | none => "unser"
    match p with
    | .arr xs => s!"ok A:{renderItems xs} {a}"
    | .bin n => s!"ok B:{n} {a}"

def parseSetter : List String → Option (Setter × String)
  | ["raw", n, v] => n.toNat?.map fun n => (.raw n, v)
  | ["scaling", a, b, v] => do
    let a ← parseInt? a
    let b ← parseInt? b
    pure (.scaling a b, v)
  | ["switch", i, v] => some (.switch (i == "1"), v)
  | ["step", i, v] => some (.step (i == "1"), v)
  | ["updown", i, v] => some (.upDown (i == "1"), v)
  | ["dpt", t] => (parseTrans t).map fun t => (.viaDpt t, "N")
  | ["parse", t, v] =>
    if t == "none" then some (.parse none, v)
    else if t.startsWith "dpt:" then (parseTrans (t.drop 4).toString).map fun t => (.parse (some t), v)
    else none
  | _ => none

-- DRIVER: c11 => XknxVerif.Send.handle
/-- `<w|r> <setter …> <value>` → `ok A:<hex> <apdu hex>` | `ok B:<n> <apdu hex>` | `conv` | `exc:<Class>` -/
def handle : List String → String
  | k :: rest =>
    let code := if k == "r" then Generated.Send.groupResponse else Generated.Send.groupWrite
    match parseSetter rest with
    | some (s, v) => match parseVal v with
      | some v => render code (accept s v)
      | none => "bad-op"
    | none => "bad-op"
  | _ => "bad-op"

end XknxVerif.Send
