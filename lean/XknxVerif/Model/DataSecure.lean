/-
Model of KNX Data Secure in xknx (after the `fix:` commits of branch b-dsec):

  xknx/secure/data_secure_asdu.py   block_0, counter_0, SecurityControlField,
                                    SecureData.init_from_plain_apdu / to_knx / from_knx / get_plain_apdu
  xknx/secure/security_primitives.py calculate_message_authentication_code_cbc, encrypt_data_ctr, decrypt_ctr
  xknx/telegram/apci.py             SecureAPDU.to_knx / from_knx
  xknx/secure/data_secure.py        DataSecure.received_cemi / outgoing_cemi / get_sequence_number /
                                    check_sequence_number
  xknx/cemi/cemi_handler.py         CEMIHandler.handle_cemi_frame (Data Secure routing part)

Everything cryptographic is generic in a block function `E : key → block → block`
(`Crypto.BlockFn`); the driver instantiates it with `Crypto.AES128.encrypt`.
Core Lean only.  Octet strings are `Bytes = List Nat`.

Uninterpreted inputs (fed by the harness, quantified over in the theorems):
  * `innerOk` – whether `APCI.from_knx` accepts a (verified) plaintext APDU; the
    APCI codec is the business of C04/C05.
-/
import XknxVerif.Crypto.CTR
import XknxVerif.Generated.DataSecure

namespace XknxVerif.DataSecure
open XknxVerif.Crypto
open XknxVerif.Generated.DataSecure (algAuth algEnc svcData apciSecHigh apciSecLow sequenceNumberMax)

/-! ## ASDU layer (`data_secure_asdu.py`, `security_primitives.py`) -/

/-- Python exceptions the ASDU functions can end in. -/
inductive Err where
  | mac          -- DataSecureError("Data Secure MAC verification failed")
  | unknownAlg   -- DataSecureError("Unknown secure algorithm")
  | value        -- ValueError from `bytes((…))` with an element outside 0..255
  | overflow     -- OverflowError from `int.to_bytes`
  deriving DecidableEq, Repr

/-- `SecurityControlField`. `algorithm`/`service` are the enum *values*. -/
structure Scf where
  toolAccess : Bool
  algorithm : Nat
  systemBroadcast : Bool
  service : Nat
  deriving DecidableEq, Repr

/-- `SecurityControlField.to_knx()` (one octet). -/
def Scf.toKnx (s : Scf) : Nat :=
  (s.toolAccess.toNat <<< 7) ||| (s.algorithm <<< 4) ||| (s.systemBroadcast.toNat <<< 3) ||| s.service

/-- `SecurityControlField.from_knx(raw)`; `none` = `ValueError` (enum lookup failed). -/
def Scf.fromKnx (raw : Nat) : Option Scf :=
  let alg := (raw >>> 4) &&& 7
  let svc := raw &&& 7
  if (Generated.DataSecure.algorithms.map Prod.fst).contains alg
      && (Generated.DataSecure.services.map Prod.fst).contains svc then
    some ⟨raw &&& 0x80 != 0, alg, raw &&& 8 != 0, svc⟩
  else none

/-- Members of the two enums (what a Python `SecurityControlField` can hold). -/
def Scf.Valid (s : Scf) : Prop :=
  (Generated.DataSecure.algorithms.map Prod.fst).contains s.algorithm = true ∧
  (Generated.DataSecure.services.map Prod.fst).contains s.service = true

instance (s : Scf) : Decidable s.Valid := by unfold Scf.Valid; infer_instance

/-- The frame fields, other than SCF / sequence number / APDU, that enter `block_0`. -/
structure Ctx where
  addr : Bytes   -- `src_addr.to_knx() + dst_addr.to_knx()`
  atype : Nat    -- `address_type.to_knx()` : 0x80 group, 0 individual
  eff : Nat      -- `int(frame_format)` : Extended Frame Format, low nibble of Ctrl2
  tpci : Nat     -- `tpci.to_knx()`
  deriving DecidableEq, Repr

/-- Python `bytes((…))`: every element must be in `range(256)`. -/
def bytesOf (xs : List Nat) : Except Err Bytes :=
  if xs.all (· < 256) then .ok xs else .error .value

/-- `block_0(sequence_number, address_fields_raw, address_type, frame_format, tpci_int, payload_length)`. -/
def block0 (seq : Bytes) (c : Ctx) (payloadLen : Nat) : Except Err Bytes :=
  match bytesOf [0, c.atype ||| c.eff, c.tpci ||| apciSecHigh, apciSecLow, 0, payloadLen] with
  | .error e => .error e
  | .ok t => .ok (seq ++ c.addr ++ t)

/-- `counter_0(sequence_number, address_fields_raw)`. -/
def counter0 (seq addr : Bytes) : Bytes := seq ++ addr ++ [0, 0, 0, 0, 1, 0]

/-- The octet string the CBC-MAC runs over, before zero padding. -/
def macInput (b0 ad payload : Bytes) : Bytes :=
  b0 ++ Bytes.ofNatBE 2 ad.length ++ ad ++ payload

/-- `calculate_message_authentication_code_cbc(key, additional_data, payload, block_0)` (16 octets). -/
def macCbc (E : BlockFn) (key ad payload b0 : Bytes) : Except Err Bytes :=
  if ad.length < 65536 then .ok (cbcLast E key (pad16 (macInput b0 ad payload)))
  else .error .overflow

/-- `SecureData`. -/
structure SecureData where
  seq : Bytes
  sapdu : Bytes
  mac : Bytes
  deriving DecidableEq, Repr

/-- `SecureData.to_knx()`. -/
def SecureData.toKnx (d : SecureData) : Bytes := d.seq ++ d.sapdu ++ d.mac

/-- `SecureData.from_knx(raw)`: `raw[:6]`, `raw[6:-4]`, `raw[-4:]`. -/
def SecureData.fromKnx (raw : Bytes) : SecureData :=
  ⟨raw.take 6, (raw.take (raw.length - 4)).drop 6, raw.drop (raw.length - 4)⟩

/-- `init_from_plain_apdu`, branch `CCM_AUTHENTICATION`. -/
def secureAuth (E : BlockFn) (key : Bytes) (scf : Scf) (sb : Bytes) (c : Ctx) (apdu : Bytes) :
    Except Err SecureData :=
  match block0 sb c 0 with
  | .error e => .error e
  | .ok b0 =>
    match macCbc E key (scf.toKnx :: apdu) [] b0 with
    | .error e => .error e
    | .ok m => .ok ⟨sb, apdu, m.take 4⟩

/-- `init_from_plain_apdu`, branch `CCM_ENCRYPTION`. -/
def secureEnc (E : BlockFn) (key : Bytes) (scf : Scf) (sb : Bytes) (c : Ctx) (apdu : Bytes) :
    Except Err SecureData :=
  match block0 sb c apdu.length with
  | .error e => .error e
  | .ok b0 =>
    match macCbc E key [scf.toKnx] apdu b0 with
    | .error e => .error e
    | .ok m =>
      let r := ctrXor2 E key (counter0 sb c.addr) (m.take 4) apdu   -- encrypt_data_ctr
      .ok ⟨sb, r.1, r.2⟩

/-- `SecureData.init_from_plain_apdu` with the sequence number already serialised. -/
def secureWith (E : BlockFn) (key : Bytes) (scf : Scf) (sb : Bytes) (c : Ctx) (apdu : Bytes) :
    Except Err SecureData :=
  if scf.algorithm = algAuth then secureAuth E key scf sb c apdu
  else if scf.algorithm = algEnc then secureEnc E key scf sb c apdu
  else .error .unknownAlg

/-- `SecureData.init_from_plain_apdu(key, apdu, scf, sequence_number, …)`. -/
def secure (E : BlockFn) (key : Bytes) (scf : Scf) (seq : Nat) (c : Ctx) (apdu : Bytes) :
    Except Err SecureData :=
  if seq < 2 ^ 48 then secureWith E key scf (Bytes.ofNatBE 6 seq) c apdu
  else .error .overflow   -- `sequence_number.to_bytes(6, "big")`

/-- `get_plain_apdu`, branch `CCM_ENCRYPTION`. -/
def plainEnc (E : BlockFn) (key : Bytes) (scf : Scf) (c : Ctx) (d : SecureData) : Except Err Bytes :=
  let r := ctrXor2 E key (counter0 d.seq c.addr) d.mac d.sapdu   -- decrypt_ctr: (dec_payload, mac_tr)
  match block0 d.seq c r.1.length with
  | .error e => .error e
  | .ok b0 =>
    match macCbc E key [scf.toKnx] r.1 b0 with
    | .error e => .error e
    | .ok m => if m.take 4 ≠ r.2 then .error .mac else .ok r.1

/-- `get_plain_apdu`, branch `CCM_AUTHENTICATION`. -/
def plainAuth (E : BlockFn) (key : Bytes) (scf : Scf) (c : Ctx) (d : SecureData) : Except Err Bytes :=
  match block0 d.seq c 0 with
  | .error e => .error e
  | .ok b0 =>
    match macCbc E key (scf.toKnx :: d.sapdu) [] b0 with
    | .error e => .error e
    | .ok m => if m.take 4 ≠ d.mac then .error .mac else .ok d.sapdu

/-- `SecureData.get_plain_apdu(key, scf, address_fields_raw, address_type, frame_format, tpci)`. -/
def getPlain (E : BlockFn) (key : Bytes) (scf : Scf) (c : Ctx) (d : SecureData) : Except Err Bytes :=
  if scf.algorithm = algEnc then plainEnc E key scf c d
  else if scf.algorithm = algAuth then plainAuth E key scf c d
  else .error .unknownAlg

/-- `SecureAPDU.to_knx()`: APCI 0x3F1, SCF, ASDU. -/
def secureApduToKnx (scf : Scf) (d : SecureData) : Bytes :=
  [apciSecHigh, apciSecLow, scf.toKnx] ++ d.toKnx

/-- `SecureAPDU.from_knx(raw)`; `none` = `ConversionError` (too short / SCF enum lookup failed). -/
def secureApduFromKnx (raw : Bytes) : Option (Scf × SecureData) :=
  if raw.length < 13 then none else
  match raw[2]? with
  | some s => (Scf.fromKnx s).map fun scf => (scf, SecureData.fromKnx (raw.drop 3))
  | none => none

/-! ## Frame level (`CEMILData` as far as Data Secure looks at it) -/

inductive Payload where
  | none                                   -- control TPDU
  | plain (apdu : Bytes)                   -- any APCI other than SecureAPDU, as its `to_knx()` octets
  | secure (scf : Scf) (d : SecureData)    -- `SecureAPDU`
  deriving DecidableEq, Repr

/-- `CEMILData`.  `other` holds every control-field bit that is neither the
Address Type nor the Extended Frame Format: frame type, repeat, system
broadcast, priority, ack request, confirm, hop count. -/
structure Frame where
  other : Nat
  group : Bool     -- `isinstance(dst_addr, GroupAddress)`  (Address Type bit)
  eff : Nat        -- `flags.frame_format`
  src : Nat
  dst : Nat
  tpci : Nat
  payload : Payload
  deriving DecidableEq, Repr

/-- Split the two control octets (`Ctrl1 <<< 8 ||| Ctrl2`) of a received frame. -/
def Frame.ofCtrl (ctrl src dst tpci : Nat) (p : Payload) : Frame :=
  ⟨ctrl &&& 0xFF70, ctrl &&& 0x80 != 0, ctrl &&& 0xF, src, dst, tpci, p⟩

def Frame.ctx (f : Frame) : Ctx :=
  ⟨Bytes.ofNatBE 2 f.src ++ Bytes.ofNatBE 2 f.dst, if f.group then 0x80 else 0, f.eff, f.tpci⟩

/-- `cemi_data.payload.to_knx()` / `b""`. -/
def Payload.bytes : Payload → Bytes
  | .none => []
  | .plain a => a
  | .secure scf d => secureApduToKnx scf d

/-- `isinstance(payload, SecureAPDU)` (`is_data_secure`). -/
def Payload.isSecure : Payload → Bool
  | .secure _ _ => true
  | _ => false

/-- `DataSecure` object state. -/
structure DS where
  keys : List (Nat × Bytes)     -- `_group_key_table` (group address raw ↦ key)
  senders : List (Nat × Nat)    -- `_individual_address_table` (individual address raw ↦ last valid sequence number)
  sendSeq : Nat                 -- `_sequence_number_sending`
  deriving DecidableEq, Repr

/-- `if key := self._group_key_table.get(dst)`: present *and truthy* (non-empty). -/
def keyFor (keys : List (Nat × Bytes)) (dst : Nat) : Option Bytes :=
  match keys.lookup dst with
  | some k => if k = [] then none else some k
  | none => none

/-- `table[k] = v` for a key that is present. -/
def setVal (t : List (Nat × Nat)) (k v : Nat) : List (Nat × Nat) :=
  t.map fun e => if e.1 = k then (e.1, v) else e

/-- Why a `DataSecureError` was raised (branch tag). -/
inductive Why where
  | plainToSecure | notSData | toolOrBroadcast | noKey | pointToPoint
  | unknownSender | seqTooLow | mac | unknownAlg | inner | exhausted
  deriving DecidableEq, Repr

/-- Exceptions other than `DataSecureError` that propagate. -/
inductive Exc where
  | value | overflow | conversion
  deriving DecidableEq, Repr

/-- What `received_cemi` does, seen from `handle_cemi_frame`. -/
inductive RecvOut where
  | pass                          -- plain frame returned unchanged
  | deliver (apdu : Bytes)        -- decrypted / verified APDU replaces the payload
  | dsError (w : Why)             -- DataSecureError (caught by the handler)
  | escape (e : Exc)              -- any other exception (NOT caught by the handler)
  deriving DecidableEq, Repr

/-- Abstract view of one received frame: every test `received_cemi` makes, with
the result of the cryptographic verification as an *uninterpreted* input. -/
structure RecvEv where
  secure : Bool            -- payload is a SecureAPDU
  group : Bool             -- destination is a group address
  keyed : Bool             -- secured frame: a truthy key for dst; plain frame: dst is in the key table
  svcOk : Bool             -- scf.service is S_A_DATA
  toolSb : Bool            -- scf.system_broadcast or scf.tool_access
  src : Nat
  seq : Nat
  verify : Except Err Bytes  -- outcome of `get_plain_apdu` (uninterpreted in C17)
  innerOk : Bool           -- `APCI.from_knx(plain)` succeeds (uninterpreted)
  deriving DecidableEq, Repr

/-- `DataSecure.received_cemi` on the sender table (branch for branch). -/
def recvStep (t : List (Nat × Nat)) (ev : RecvEv) : List (Nat × Nat) × RecvOut :=
  if !ev.secure then
    if ev.group && ev.keyed then (t, .dsError .plainToSecure) else (t, .pass)
  else if !ev.svcOk then (t, .dsError .notSData)
  else if ev.toolSb then (t, .dsError .toolOrBroadcast)
  else if !ev.group then (t, .dsError .pointToPoint)
  else if !ev.keyed then (t, .dsError .noKey)
  else match t.lookup ev.src with
    | none => (t, .dsError .unknownSender)
    | some last =>
      if !(ev.seq > last) then (t, .dsError .seqTooLow)
      else match ev.verify with
        | .error .mac => (t, .dsError .mac)
        | .error .unknownAlg => (t, .dsError .unknownAlg)
        | .error .value => (t, .escape .value)
        | .error .overflow => (t, .escape .overflow)
        | .ok p =>
          -- the counter is stored when the `with` block is left, before the inner APDU is parsed
          let t' := setVal t ev.src ev.seq
          if ev.innerOk then (t', .deliver p) else (t', .dsError .inner)

/-- `APCI.from_knx` is only ever applied to a verified plaintext. -/
def innerOf (innerOk : Bytes → Bool) : Except Err Bytes → Bool
  | .ok p => innerOk p
  | .error _ => false

/-- The abstract event of a concrete frame. -/
def evOf (E : BlockFn) (ds : DS) (f : Frame) (innerOk : Bytes → Bool) : RecvEv :=
  let key := keyFor ds.keys f.dst
  match f.payload with
  | .secure scf d =>
    let v : Except Err Bytes := match key with
      | some k => getPlain E k scf f.ctx d
      | none => .error .mac          -- never looked at: `keyed = false` is tested first
    { secure := true, group := f.group, keyed := key.isSome, svcOk := scf.service = svcData,
      toolSb := scf.systemBroadcast || scf.toolAccess, src := f.src, seq := Bytes.toNatBE d.seq,
      verify := v, innerOk := innerOf innerOk v }
  | _ =>
    -- the plain branch tests membership (`dst_addr in self._group_key_table`), not truthiness
    { secure := false, group := f.group, keyed := (ds.keys.lookup f.dst).isSome, svcOk := false, toolSb := false,
      src := f.src, seq := 0, verify := .error .mac, innerOk := false }

/-- `DataSecure.received_cemi(cemi_data)`. -/
def received (E : BlockFn) (ds : DS) (f : Frame) (innerOk : Bytes → Bool) : DS × RecvOut :=
  let r := recvStep ds.senders (evOf E ds f innerOk)
  ({ ds with senders := r.1 }, r.2)

/-- `DataSecure.get_sequence_number()`: `(returned, new counter)` or DataSecureError. -/
def getSeq (s : Nat) : Option (Nat × Nat) :=
  if s > sequenceNumberMax then none else some (s, s + 1)

/-- The SCF xknx sends with: authenticated encryption, S-A_Data. -/
def scfOut : Scf := ⟨false, algEnc, false, svcData⟩

inductive SendOut where
  | plain (f : Frame)             -- passed through unsecured
  | secured (f : Frame)           -- wrapped in a SecureAPDU
  | dsError (w : Why)             -- DataSecureError (sequence numbers exhausted)
  | escape (e : Exc)
  deriving DecidableEq, Repr

/-- `DataSecure.outgoing_cemi(cemi_data)`. -/
def outgoing (E : BlockFn) (ds : DS) (f : Frame) : DS × SendOut :=
  if f.group then
    match keyFor ds.keys f.dst with
    | some key =>
      match getSeq ds.sendSeq with
      | none => (ds, .dsError .exhausted)
      | some (q, s') =>
        -- the sequence number is consumed while the arguments are evaluated
        let ds' := { ds with sendSeq := s' }
        match secure E key scfOut q f.ctx f.payload.bytes with
        | .ok d => (ds', .secured { f with payload := .secure scfOut d })
        | .error .value => (ds', .escape .value)
        | .error .overflow => (ds', .escape .overflow)
        | .error _ => (ds', .dsError .unknownAlg)
    | none => (ds, .plain f)
  else (ds, .plain f)

/-! ## `CEMIHandler.handle_cemi_frame` (L_DATA_IND, Data Secure part) -/

/-- Where a received frame ends up. -/
inductive Route where
  | telegram (apdu : Bytes) (dataSecure : Bool)   -- `telegram_received(telegram)`: devices / callbacks / management
  | keyIssue (callbacks : Bool)                   -- `handle_data_secure_key_issue`; callbacks run iff TDataGroup
  | raised (e : Exc)                              -- exception leaves `handle_cemi_frame`
  deriving DecidableEq, Repr

/-- `isinstance(tpci, TDataGroup)`: group destination ≠ 0 with TPCI octet 0. -/
def isTDataGroup (f : Frame) : Bool := f.group && f.dst != 0 && f.tpci == 0

/-- `handle_cemi_frame` for an L_DATA_IND carrying `f`; `ds = none` ⇔ no keyring. -/
def handle (E : BlockFn) (ds : Option DS) (f : Frame) (innerOk : Bytes → Bool) : Option DS × Route :=
  let isSec := f.payload.isSecure
  match ds with
  | none =>
    if isSec then (none, .keyIssue (isTDataGroup f))
    else (none, .telegram f.payload.bytes false)
  | some s =>
    match received E s f innerOk with
    | (s', .pass) => (some s', .telegram f.payload.bytes isSec)
    | (s', .deliver p) => (some s', .telegram p isSec)
    | (s', .dsError _) => (some s', .keyIssue (isTDataGroup f))
    | (s', .escape e) => (some s', .raised e)

/-! ## Event-history automaton for C17 -/

inductive Ev where
  | recv (ev : RecvEv)
  | send (group keyed : Bool)
  deriving DecidableEq, Repr

inductive Obs where
  | delivered (src seq : Nat)     -- a Data Secure frame was accepted and delivered
  | passed                        -- plain frame passed through
  | rejected (w : Why)
  | raised (e : Exc)
  | sent (seq : Nat)              -- outgoing SecureAPDU with this sequence number
  | sentPlain
  | sendError                     -- DataSecureError: sequence numbers exhausted
  deriving DecidableEq, Repr

structure St where
  senders : List (Nat × Nat)
  sendSeq : Nat
  deriving DecidableEq, Repr

def step (s : St) : Ev → St × List Obs
  | .recv ev =>
    match recvStep s.senders ev with
    | (t, .pass) => ({ s with senders := t }, [.passed])
    | (t, .deliver _) => ({ s with senders := t }, [.delivered ev.src ev.seq])
    | (t, .dsError w) => ({ s with senders := t }, [.rejected w])
    | (t, .escape e) => ({ s with senders := t }, [.raised e])
  | .send group keyed =>
    if group && keyed then
      match getSeq s.sendSeq with
      | none => (s, [.sendError])
      | some (q, s') => ({ s with sendSeq := s' }, [.sent q])
    else (s, [.sentPlain])

/-- `DataSecure.__init__` accepts `last_sequence_number_sending` only in `1 ..= 2^48-1`
(0 / None fall back to the clock, which the harness pins). -/
def initOk (sendSeq : Nat) : Bool := 0 < sendSeq && sendSeq ≤ sequenceNumberMax

/-! ## `CEMIHandler.send_telegram`: the interface's verdict on a handed-over frame

`send_telegram` first lets `outgoing_cemi` secure the frame (drawing a sequence
number), then hands it to `knxip_interface.send_cemi`.  Whatever happens there –
success, `CommunicationError` (raised by a UDP tunnel only *after* it transmitted
the request twice without an ACK), `ConversionError`, a missing L_Data.con – the
frame may already be on the bus, so the Data Secure state must not depend on it. -/

/-- What `send_cemi` / the confirmation wait did with a handed-over frame. -/
inductive IfRes where
  | ok        -- sent and confirmed
  | comm      -- `CommunicationError` raised by `send_cemi`
  | conv      -- `ConversionError` raised by `send_cemi`
  | noconf    -- no L_Data.con within the timeout: `ConfirmationError`
  deriving DecidableEq, Repr

inductive TEv where
  | base (e : Ev)                                   -- received frame / direct `outgoing_cemi`
  | transmit (group keyed : Bool) (res : IfRes)     -- `send_telegram` with the interface's verdict
  deriving DecidableEq, Repr

inductive TObs where
  | base (o : Obs)
  | outcome (res : IfRes)     -- how `send_telegram` ended for the frame just handed over
  deriving DecidableEq, Repr

/-- The `DataSecure`-level event behind a `send_telegram` call. -/
def TEv.proj : TEv → Ev
  | .base e => e
  | .transmit g k _ => .send g k

/-- `send_telegram` layer: the verdict is observed, the state ignores it.  When
`outgoing_cemi` itself raises (numbers exhausted) nothing is handed over. -/
def tstep (s : St) : TEv → St × List TObs
  | .base e => ((step s e).1, (step s e).2.map .base)
  | .transmit g k res =>
    let r := step s (.send g k)
    (r.1, r.2.map .base ++ (if r.2 = [.sendError] then [] else [.outcome res]))

/-- Forget the verdicts. -/
def TObs.erase : List TObs → List Obs
  | [] => []
  | .base o :: t => o :: TObs.erase t
  | .outcome _ :: t => TObs.erase t

/-! ## Re-initialisation: `CEMIHandler.data_secure_init(keyring)` on every interface start

`KNXIPInterface._start()` calls `data_secure_init` each time.  On this tree it
*replaces* the `DataSecure` object: key table and sender table are those of the
keyring just given, the sending counter is re-derived from the clock
(`_initial_sequence_number()`), `None` / a keyring without group keys switch Data
Secure off.  (That the sender table falls back to the keyring's values is what
the code does; C18 does not speak about it.) -/

/-- The Data Secure content of a keyring: `get_data_secure_group_keys()`, `get_data_secure_senders()`. -/
abbrev KeyringDS := List (Nat × Bytes) × List (Nat × Nat)

/-- `data_secure_init(keyring)` with the clock reading already turned into a sequence number.
`none` = `DataSecureError` ("Initial sequence number out of range"): nothing is assigned. -/
def dsInit (kr : Option KeyringDS) (clockSeq : Nat) : Option (Option DS) :=
  match kr with
  | none => some none
  | some (keys, senders) =>
    if keys = [] then some none                       -- `if not ga_key_table: return None`
    else if initOk clockSeq then some (some ⟨keys, senders, clockSeq⟩)
    else none

inductive HEv where
  | init (kr : Option KeyringDS) (clockSeq : Nat)
  | recv (f : Frame) (innerOk : Bool)      -- L_Data.ind through `handle_cemi_frame`
  | send (f : Frame)                       -- `send_telegram` up to the hand-over
  deriving DecidableEq, Repr

inductive HObs where
  | inited (on : Bool)
  | initError
  | route (r : Route)
  | sendRes (o : SendOut)
  deriving DecidableEq, Repr

/-- One `CEMIHandler` over its lifetime. -/
def hstep (E : BlockFn) (s : Option DS) : HEv → Option DS × List HObs
  | .init kr c =>
    match dsInit kr c with
    | some s' => (s', [.inited s'.isSome])
    | none => (s, [.initError])
  | .recv f io => ((handle E s f (fun _ => io)).1, [.route (handle E s f (fun _ => io)).2])
  | .send f =>
    match s with
    | none => (none, [.sendRes (.plain f)])
    | some ds => (some (outgoing E ds f).1, [.sendRes (outgoing E ds f).2])

/-- The key table in force. -/
def keysOf : Option DS → List (Nat × Bytes)
  | none => []
  | some ds => ds.keys

def HEv.isInit : HEv → Bool
  | .init _ _ => true
  | _ => false

end XknxVerif.DataSecure
