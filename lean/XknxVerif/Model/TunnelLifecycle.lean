/-
Model (trace monitor, mode R) of the connection lifecycle of xknx/io/tunnel.py
(`_Tunnel`, `UDPTunnel`, `TCPTunnel`, `SecureTunnel`) together with
xknx/core/connection_manager.py (`ConnectionManager._connection_state_changed`),
AFTER the two `fix:` commits of branch b-life
  * `_disconnecting` flag: `_tunnel_lost` is a no-op once `disconnect()` was called,
  * `_tunnel_lost` starts a reconnect when the stored reconnect task is already done; the
    done callback only clears its own task.

Observation alphabet: one token per observable step, `<tag>:<label>[:args]`, tag = the asyncio
task the step ran in (c user connect, d user disconnect, s sender, r reconnect task, h heartbeat
task, i invalid-sequence timer task, k secure keep-alive task, x loop callback).

Shape of the monitor.  The tunnel code consists of synchronous segments between awaits.  The
first token of a segment is accepted under a guard on the model state (which coroutine may be at
that point); the rest of the segment is *predicted* from the state at that moment and has to
follow token by token (`pend`), state-change callbacks of the ConnectionManager first (`cbq`).
Deliberately left open (asyncio's business, not the property's):
  * the order in which different tasks get their turn, and how long anything takes (no times);
  * where a cancelled reconnect task stops: after the cancel request it may emit nothing but its
    final `rfin`, i.e. any prefix of its frames is accepted;
  * whether SecureSession.stop() sends SESSION_STATUS close (optional token right after `tstop`);
  * heartbeat / sender internals (only: their frames need a channel and an open transport).
Core Lean only.
-/
namespace XknxVerif.TunnelLifecycle

inductive Kind where | udp | tcp | secure
  deriving DecidableEq, Repr

/-- XknxConnectionState: D disconnected, G connecting, C connected. -/
inductive CS where | D | G | C
  deriving DecidableEq, Repr

inductive Tag where | c | d | s | r | h | i | k | x
  deriving DecidableEq, Repr

inductive Fr where
  | creq | csreq | dreq | dresp | treq | tack | sreq | sauth | sclose | skeep | other
  deriving DecidableEq, Repr

inductive TaskKind where | reconnect | heartbeat | invseq
  deriving DecidableEq, Repr

inductive Ret where | connectOk | connectErr | disconnect | send
  deriving DecidableEq, Repr

inductive Lab where
  | cstart
  | notify (st : CS)
  | cb (i : Nat) (st : CS)
  | tconnect | tconnected | tconnfail
  | tstop (up : Bool)
  | frame (f : Fr) (ch : Nat)
  | estab (ch : Nat)
  | newTask (k : TaskKind) (id : Nat) (live : Nat)
  | endTask (k : TaskKind) (id : Nat)
  | rfin (id : Nat)
  | lost | prep | dstart | hbfailed
  | ret (w : Ret)
  | rxCresp (ch : Option Nat)
  | rxDreq (ch : Nat)
  | rxTreq (good : Bool)
  | rxOther
  | tl
  | probe (conn : Bool) (st : CS) (est : Bool)
  | nop
  deriving DecidableEq, Repr

structure Obs where
  tag : Tag
  lab : Lab
  deriving DecidableEq, Repr

/-- The reconnect-task slot `_reconnect_task`. -/
structure RT where
  id : Nat
  cancelReq : Bool := false   -- `_stop_reconnect()` was called on it
  fin : Bool := false         -- the coroutine returned (task.done()), cleanup callback still to come
  pc : Nat := 0               -- 0 created; 1 `_prepare_disconnect` done, before the first connect(); 2 in the connect loop
  discWait : Bool := false    -- waits for the DisconnectResponse
  deriving DecidableEq, Repr

structure St where
  kind : Kind
  auto : Bool                 -- auto_reconnect
  ncb : Nat                   -- registered state-change callbacks
  closing : Bool := false     -- `_disconnecting`
  tup : Bool := false         -- transport.transport is not None
  sinit : Bool := false       -- secure session: `initialized` (only then may frames other than SessionRequest be sent)
  chan : Option Nat := none   -- communication_channel
  hb : Option Nat := none     -- generation of the running heartbeat task
  cm : CS := .D               -- ConnectionManager._state
  conn : Bool := false        -- ConnectionManager.connected.is_set()
  rt : Option RT := none
  invseq : Option Nat := none -- `_invalid_sequence_number_reconnect_task`
  cRun : Bool := false        -- a user connect() is running
  dRun : Bool := false        -- the user disconnect() is running
  dWait : Bool := false       -- ... and waits for the DisconnectResponse
  udone : Bool := false       -- disconnect() returned and connect() was not called since
  resps : List Nat := []      -- channels of the ok ConnectResponses delivered so far
  nextR : Nat := 0
  nextHb : Nat := 0
  nextI : Nat := 0
  cbq : List (Tag × Nat × CS) := []  -- callbacks owed by the ConnectionManager: (task, callback index, state), strictly next
  pend : List Obs := []       -- rest of the running synchronous segment (strictly next)
  mayClose : Bool := false    -- a SESSION_STATUS close may follow the `tstop` just seen
  closeTag : Tag := .x
  wloss : Bool := false       -- ghost: a connect() completed (CONNECTED reported) although the transport was already gone
  deriving Repr

def init (kind : Kind) (auto : Bool) (ncb : Nat) : St := { kind, auto, ncb }

/-- "a tunnel is established" as the client knows it. -/
def est (s : St) : Bool := s.chan.isSome && s.tup && s.hb.isSome

/-- `transport.send` of a tunnelling-level frame succeeds. -/
def canSend (s : St) : Bool := s.tup && (s.kind != .secure || s.sinit)

def rOK (s : St) : Bool :=
  match s.rt with
  | some r => !r.cancelReq && !r.fin
  | none => false

/-- tag `t` is inside `connect()` (user connect or the reconnect loop). -/
def inConn (s : St) : Tag → Bool
  | .c => s.cRun
  | .r => match s.rt with
    | some r => !r.cancelReq && !r.fin && r.pc == 2
    | none => false
  | _ => false

/-- pattern match of a predicted token: `tstop`'s flag and a new task's live count are checked by the guards. -/
def labMatch : Lab → Lab → Bool
  | .tstop _, .tstop _ => true
  | .newTask k i _, .newTask k' i' _ => k == k' && i == i'
  | a, b => a == b

def matchObs (p o : Obs) : Bool := p.tag == o.tag && labMatch p.lab o.lab

/-- `ConnectionManager._connection_state_changed` called from task `t`. -/
def notifyEff (s : St) (t : Tag) (st : CS) : St :=
  if s.cm == st then s
  else { s with cm := st, conn := st == .C, cbq := (List.range s.ncb).map fun i => (t, i, st) }

/-- What `_tunnel_lost()` does, as the token sequence that has to follow. -/
def lostSeq (s : St) (t : Tag) : List Obs :=
  if s.closing then []
  else if s.auto then
    match s.rt with
    | none => [⟨t, .newTask .reconnect s.nextR 0⟩]
    | some r => if r.fin then [⟨t, .newTask .reconnect s.nextR 0⟩] else []
  else
    [⟨t, .prep⟩, ⟨t, .notify .D⟩] ++
      (if s.tup then
        (match s.chan with
         | some ch => [⟨t, .frame .dreq ch⟩]
         | none => []) ++ [⟨t, .tstop true⟩]
       else [])

def connectFrame (s : St) : Fr := if s.kind == .secure then .sreq else .creq

/-- tail of the failure path of `connect()` after the DISCONNECTED notification. -/
def failTail (t : Tag) : List Obs :=
  ⟨t, .tstop false⟩ :: (if t == .c then [⟨.c, .ret .connectErr⟩] else [])

/-- One token. `fp` = the token was predicted (`pend`), otherwise it starts a new segment. -/
def act (s : St) (o : Obs) (fp : Bool) : Option St :=
  let t := o.tag
  match o.lab with
  | .cstart =>
    if fp then none
    else if t == .c then
      if !s.cRun && !s.dRun then
        some { s with cRun := true, closing := false, udone := false,
                      pend := [⟨.c, .notify .G⟩, ⟨.c, .tconnect⟩] }
      else none
    else if t == .r then
      match s.rt with
      | some r =>
        if !r.cancelReq && !r.fin && (r.pc == 1 || r.pc == 2) && !r.discWait then
          some { s with rt := some { r with pc := 2 }, pend := [⟨.r, .notify .G⟩, ⟨.r, .tconnect⟩] }
        else none
      | none => none
    else none
  | .notify st =>
    if fp then
      -- CONNECTED is reported only from `connect()` right after `_tunnel_established()`
      if st == .C && !(s.chan.isSome && s.hb.isSome) then none
      else some (notifyEff { s with wloss := s.wloss || (st == .C && !s.tup) } t st)
    else if st == .D && inConn s t then
      -- connect() failed: DISCONNECTED, transport.stop(), raise
      some { notifyEff s t .D with pend := failTail t }
    else none
  | .cb _ _ => none
  | .tconnect => if fp && inConn s t then some s else none
  | .tconnected =>
    if !fp && inConn s t then some { s with tup := true, pend := [⟨t, .frame (connectFrame s) 0⟩] } else none
  | .tconnfail =>
    if !fp && inConn s t then some { s with pend := ⟨t, .notify .D⟩ :: failTail t } else none
  | .tstop b =>
    if b != s.tup then none
    else
      let s1 := { s with tup := false, sinit := false, mayClose := b && s.kind == .secure, closeTag := t }
      if fp then
        some (if t == .d || (t == .r && (match s.rt with | some r => r.pc == 1 | none => false))
              then { s1 with chan := none } else s1)
      else if t == .d then
        if s.dWait then some { s1 with dWait := false, chan := none, pend := [⟨.d, .ret .disconnect⟩] } else none
      else if t == .r then
        match s.rt with
        | some r =>
          if !r.cancelReq && !r.fin && r.pc == 1 && r.discWait then
            some { s1 with rt := some { r with discWait := false }, chan := none }
          else none
        | none => none
      else none
  | .frame f ch =>
    if !s.tup then none
    else match f with
      | .creq => if fp || (inConn s t && s.kind == .secure) then some s else none
      | .sreq => if fp then some s else none
      | .sauth => if !fp && inConn s t && s.kind == .secure then some { s with sinit := true } else none
      | .csreq => if !fp && t == .h && s.chan == some ch then some s else none
      | .treq => if !fp && t == .s && s.chan == some ch then some s else none
      | .tack => if fp then some s else none
      | .dresp => if fp then some s else none
      | .dreq =>
        if !fp then none
        else if t == .d then some { s with dWait := true }
        else if t == .r then
          match s.rt with
          | some r => some { s with rt := some { r with discWait := true } }
          | none => none
        else some s
      | .skeep => if !fp && t == .k then some s else none
      | .sclose => none
      | .other => none
  | .estab n =>
    if !fp && inConn s t && s.resps.contains n then
      some { s with chan := some n,
                    pend := [⟨t, .newTask .heartbeat s.nextHb 0⟩, ⟨t, .notify .C⟩] ++
                      (if t == .c then [⟨.c, .ret .connectOk⟩]
                       else match s.rt with
                         | some r => [⟨.r, .rfin r.id⟩]
                         | none => []) }
    else none
  | .newTask k id live =>
    if !fp then none
    else match k with
      | .heartbeat => if id == s.nextHb then some { s with hb := some id, nextHb := id + 1 } else none
      | .invseq => if id == s.nextI then some { s with invseq := some id, nextI := id + 1 } else none
      | .reconnect =>
        if id == s.nextR && live == 0 && s.auto && !s.closing &&
            (match s.rt with | none => true | some r => r.fin) then
          some { s with rt := some { id := id }, nextR := id + 1 }
        else none
  | .endTask k id =>
    if fp || t != .x then none
    else match k with
      | .heartbeat => some (if s.hb == some id then { s with hb := none } else s)
      | .invseq => some (if s.invseq == some id then { s with invseq := none } else s)
      | .reconnect =>
        match s.rt with
        | some r => some (if r.id == id then { s with rt := none } else s)
        | none => some s
  | .rfin id =>
    match s.rt with
    | some r => if t == .r && r.id == id && !r.fin then some { s with rt := some { r with fin := true } } else none
    | none => none
  | .lost =>
    if t == .x || t == .h || t == .s || t == .i then
      let s1 := if t == .i then { s with invseq := none } else s
      some { s1 with pend := lostSeq s1 t }
    else none
  | .prep =>
    let s1 := { s with hb := none, invseq := none }
    if fp then some s1
    else if t == .r then
      match s.rt with
      | some r =>
        if !r.cancelReq && !r.fin && r.pc == 0 then
          some { s1 with rt := some { r with pc := 1 },
                         pend := ⟨.r, .notify .D⟩ ::
                           (if s.tup then
                              match s.chan with
                              | some ch => if canSend s then [⟨.r, .frame .dreq ch⟩] else [⟨.r, .tstop true⟩]
                              | none => [⟨.r, .tstop true⟩]
                            else []) }
        else none
      | none => none
    else none
  | .dstart =>
    if !fp && t == .d && !s.dRun && !s.cRun then
      some { s with closing := true, dRun := true,
                    rt := s.rt.map fun r => { r with cancelReq := true },
                    pend := [⟨.d, .prep⟩, ⟨.d, .notify .D⟩] ++
                      (match s.chan with
                       | some ch => if canSend s then [⟨.d, .frame .dreq ch⟩]
                                    else [⟨.d, .tstop false⟩, ⟨.d, .ret .disconnect⟩]
                       | none => [⟨.d, .tstop false⟩, ⟨.d, .ret .disconnect⟩]) }
    else none
  | .hbfailed => if !fp && t == .h then some { s with pend := [⟨.h, .lost⟩] } else none
  | .ret w =>
    match w with
    | .connectOk => if fp then some { s with cRun := false } else none
    | .connectErr => if fp then some { s with cRun := false } else none
    | .disconnect =>
      -- (transport closed and no DisconnectResponse awaited any more: re-checked here, it is what `finally: transport.stop()` gives)
      if fp && s.dRun && !s.tup && !s.dWait then some { s with dRun := false, udone := true, pend := [] } else none
    | .send => if !fp && t == .s then some s else none
  | .rxCresp o =>
    if fp || t != .x || !s.tup then none
    else match o with
      | some n => some { s with resps := n :: s.resps }
      | none => some s
  | .rxDreq ch =>
    if fp || t != .x || !s.tup then none
    else if s.chan == some ch then
      some { s with chan := none, pend := [⟨.x, .frame .dresp ch⟩, ⟨.x, .lost⟩] }
    else some { s with pend := [⟨.x, .lost⟩] }
  | .rxTreq good =>
    if fp || t != .x || !s.tup || s.kind != .udp then none
    else match s.chan with
      | none => none
      | some ch =>
        if good then some { s with invseq := none, pend := [⟨.x, .frame .tack ch⟩] }
        else if s.invseq.isNone && s.rt.isNone then
          some { s with pend := [⟨.x, .newTask .invseq s.nextI 0⟩] }
        else some s
  | .rxOther => if !fp && t == .x && s.tup then some s else none
  | .tl =>
    if !fp && t == .x && s.tup && s.kind != .udp then
      some { s with pend := [⟨.x, .tstop true⟩, ⟨.x, .lost⟩] }
    else none
  | .probe c st e =>
    if !fp && t == .x && c == s.conn && st == s.cm && e == est s then some s else none
  | .nop => if fp then none else some s

/-- The monitor. -/
def step? (s : St) (o : Obs) : Option St :=
  match s.cbq with
  | q :: qs => if o == ⟨q.1, .cb q.2.1 q.2.2⟩ then some { s with cbq := qs } else none
  | [] =>
    if s.mayClose && o.tag == s.closeTag && o.lab == .frame .sclose 0 then
      some { s with mayClose := false }
    else
      let s0 := { s with mayClose := false }
      match s.pend with
      | p :: ps => if matchObs p o then act { s0 with pend := ps } o true else none
      | [] => act s0 o false

def run? : St → List Obs → Option St
  | s, [] => some s
  | s, o :: os => match step? s o with
    | some s' => run? s' os
    | none => none

/-- Index of the first rejected token (for diagnostics). -/
def firstReject : St → List Obs → Nat → Option Nat
  | _, [], _ => none
  | s, o :: os, n => match step? s o with
    | some s' => firstReject s' os (n + 1)
    | none => some n

/-! ### Line protocol -/

def parseCS : String → Option CS
  | "D" => some .D | "G" => some .G | "C" => some .C | _ => none

def parseFr : String → Fr
  | "creq" => .creq | "csreq" => .csreq | "dreq" => .dreq | "dresp" => .dresp | "treq" => .treq
  | "tack" => .tack | "sreq" => .sreq | "sauth" => .sauth | "sclose" => .sclose | "skeep" => .skeep
  | _ => .other

def parseTag : String → Option Tag
  | "c" => some .c | "d" => some .d | "s" => some .s | "r" => some .r | "h" => some .h
  | "i" => some .i | "k" => some .k | "x" => some .x | _ => none

def parseKind : String → Option TaskKind
  | "reconnect" => some .reconnect | "heartbeat" => some .heartbeat | "invseq" => some .invseq | _ => none

def parseBool : String → Option Bool
  | "1" => some true | "0" => some false | _ => none

def parseLab : List String → Option Lab
  | ["cstart"] => some .cstart
  | ["notify", st] => (parseCS st).map .notify
  | ["cb", i, st] => do some (.cb (← i.toNat?) (← parseCS st))
  | ["tconnect"] => some .tconnect
  | ["tconnected"] => some .tconnected
  | ["tconnfail"] => some .tconnfail
  | ["tstop", b] => (parseBool b).map .tstop
  | ["frame", f] => some (.frame (parseFr f) 0)
  | ["frame", f, ch] => do some (.frame (parseFr f) (← ch.toNat?))
  | ["estab", ch] => ch.toNat?.map .estab
  | ["new", k, id, live] => do some (.newTask (← parseKind k) (← id.toNat?) (← live.toNat?))
  | ["end", k, id, _] => do some (.endTask (← parseKind k) (← id.toNat?))
  | ["rfin", id] => id.toNat?.map .rfin
  | ["lost"] => some .lost
  | ["prep"] => some .prep
  | ["dstart"] => some .dstart
  | ["hbfailed"] => some .hbfailed
  | ["ret", "connect", "ok"] => some (.ret .connectOk)
  | ["ret", "connect", "err"] => some (.ret .connectErr)
  | ["ret", "disconnect"] => some (.ret .disconnect)
  | ["ret", _, _] => some (.ret .send)
  | ["rx", "cresp", "err"] => some (.rxCresp none)
  | ["rx", "cresp", ch] => ch.toNat?.map fun n => .rxCresp (some n)
  | ["rx", "dreq", ch] => ch.toNat?.map .rxDreq
  | ["rx", "treq", "good"] => some (.rxTreq true)
  | ["rx", "treq", "bad"] => some (.rxTreq false)
  | "rx" :: _ => some .rxOther
  | ["tl"] => some .tl
  | ["probe", c, st, e] => do some (.probe (← parseBool c) (← parseCS st) (← parseBool e))
  | ["closed"] => some .nop
  | ["live", _] => some .nop
  | _ => none

def parseObs (tok : String) : Option Obs :=
  match tok.splitOn ":" with
  | t :: rest => do some ⟨← parseTag t, ← parseLab rest⟩
  | [] => none


/-! ### ConnectionManager on its own (mode F): register / unregister / one-shot callbacks / state changes -/
namespace CM

inductive Op where
  | reg (k : Nat) (oneshot : Bool)
  | unreg (k : Nat)
  | change (st : CS)
  deriving DecidableEq, Repr

structure S where
  cur : CS := .D
  regs : List (Nat × Bool) := []   -- in registration order; (key, unregisters itself when called)
  deriving Repr

/-- One operation; the output of a `change` is the list of callbacks invoked, in order
(`_connection_state_changed` iterates over a snapshot of the list). -/
def step (s : S) : Op → S × Option (CS × Bool × List Nat)
  | .reg k o => ({ s with regs := s.regs ++ [(k, o)] }, none)
  | .unreg k => ({ s with regs := s.regs.eraseP (fun e => e.1 == k) }, none)
  | .change st =>
    if s.cur == st then (s, some (st, st == .C, []))
    else ({ cur := st, regs := s.regs.filter (fun e => !e.2) }, some (st, st == .C, s.regs.map (·.1)))

def run : S → List Op → List (CS × Bool × List Nat)
  | _, [] => []
  | s, o :: os =>
    match step s o with
    | (s', some out) => out :: run s' os
    | (s', none) => run s' os

def csName : CS → String
  | .D => "D" | .G => "G" | .C => "C"

def parseOp (t : String) : Option Op :=
  match t.toList with
  | 'r' :: ds => (String.ofList ds).toNat?.map (.reg · false)
  | 'o' :: ds => (String.ofList ds).toNat?.map (.reg · true)
  | 'u' :: ds => (String.ofList ds).toNat?.map .unreg
  | ['D'] => some (.change .D)
  | ['G'] => some (.change .G)
  | ['C'] => some (.change .C)
  | _ => none

def render (o : CS × Bool × List Nat) : String :=
  csName o.1 ++ (if o.2.1 then "1" else "0") ++ ":" ++
    (if o.2.2.isEmpty then "-" else ".".intercalate (o.2.2.map toString))

def handle (ops : String) : String :=
  match (ops.splitOn ",").mapM parseOp with
  | some l =>
    let outs := run {} l
    if outs.isEmpty then "-" else " ".intercalate (outs.map render)
  | none => "bad-op"

end CM

def parseKindK : String → Option Kind
  | "udp" => some .udp | "tcp" => some .tcp | "secure" => some .secure | _ => none

-- DRIVER: c25 => XknxVerif.TunnelLifecycle.handle
/-- `monitor <kind> <auto:0|1> <ncb> <token>…` → `accept` | `reject <index> <token>` | `bad-token <token>` -/
def handle : List String → String
  | "monitor" :: k :: a :: n :: toks =>
    match parseKindK k, parseBool a, n.toNat? with
    | some kind, some auto, some ncb =>
      match toks.mapM parseObs with
      | some obs =>
        match firstReject (init kind auto ncb) obs 0 with
        | none => "accept"
        | some i => s!"reject {i} {toks.getD i "?"}"
      | none => "bad-token " ++ ((toks.find? fun t => (parseObs t).isNone).getD "?")
    | _, _, _ => "bad-op"
  | ["cm", ops] => CM.handle ops
  | _ => "bad-op"

end XknxVerif.TunnelLifecycle
