/-
Types shared by the DPT codec models (xknx/dpt/*): table rows (filled in by
Generated/DPTTable.lean from the imported classes), payloads, decoded values,
the JSON form, outcomes.  Core Lean only.
-/
import XknxVerif.Py.SoftFloat

namespace XknxVerif.DPT
open XknxVerif.SF

/-- codec family = the class in the MRO that defines `from_knx` -/
inductive Family where
  | enum | binctl | structint | u16 | s16 | f16 | f32 | u8 | scaling | s8 | string
  | scenenum | scenectl | ctldim | ctlblinds | time | date | datetime | hvacstatus
  | rgb | rgbw | xyy | xyytrans | cttrans | ctctl | relrgb | relrgbw | relxyy | tariffenergy
  | unmodelled
  deriving DecidableEq, Repr, Inhabited

inductive Kind where | binary | array
  deriving DecidableEq, Repr, Inhabited

/-- a Python number: `int` or `float` -/
inductive PyNum where
  | int (i : Int)
  | flt (f : F)
  deriving DecidableEq, Repr, Inhabited

/-- an `Enum` class: member names with their (integer) values, in definition order -/
abbrev EnumTable := List (String × Nat)

structure Row where
  name : String
  family : Family
  kind : Kind
  /-- `payload_length`: octets for DPTArray, bits for DPTBinary -/
  length : Nat
  vmin : PyNum := .int 0
  vmax : PyNum := .int 0
  res : PyNum := .int 1
  /-- struct format character (`I i q h`), or the codec name of text types (`ascii`, `latin_1`) -/
  fmt : String := ""
  /-- enum classes the codec uses, by role (`data`, `control`, `day`, `mode`, `heatcool`) -/
  enums : List (String × EnumTable) := []
  /-- `get_dict_schema()`: field name, type -/
  schema : List (String × String) := []
  deriving Repr, Inhabited

/-- payload of a group telegram -/
inductive Payload where
  | binary (v : Nat)
  | array (bs : List Nat)
  deriving DecidableEq, Repr

inductive Err where
  /-- CouldNotParseTelegram -/
  | parse
  /-- ConversionError -/
  | conv
  /-- anything else (never produced by the modelled code; kept so that theorems can say so) -/
  | other (cls : String)
  deriving DecidableEq, Repr

abbrev M := Except Err

/-- leaf values -/
inductive Atom where
  | none
  | bool (b : Bool)
  | int (i : Int)
  | flt (f : F)
  /-- text as code points -/
  | str (cps : List Nat)
  /-- enum member by name -/
  | enum (name : String)
  /-- `tuple[float, float]` -/
  | pair (a b : F)
  /-- a nested `ControlDimming(control, step_code)` -/
  | dim (control : String) (step : Int)
  deriving DecidableEq, Repr

/-- decoded value: a leaf or a (flat) dataclass -/
inductive Val where
  | atom (a : Atom)
  | obj (fields : List (String × Atom))
  deriving DecidableEq, Repr

/-- JSON-native leaf -/
inductive J where
  | null
  | bool (b : Bool)
  | int (i : Int)
  | flt (f : F)
  | str (cps : List Nat)
  deriving DecidableEq, Repr

/-- the JSON form of a value: a name (enum) or a flat dict -/
inductive JForm where
  | name (cps : List Nat)
  | dict (fields : List (String × J))
  deriving DecidableEq, Repr

/-! ### rendering (must agree with `harness/dptlib.canon`) -/

def hex2 (b : Nat) : String := String.ofList [hexDigit (b / 16 % 16), hexDigit (b % 16)]

/-- UTF-8 encoding of a code point -/
def utf8 (c : Nat) : List Nat :=
  if c < 0x80 then [c]
  else if c < 0x800 then [0xC0 + c / 64, 0x80 + c % 64]
  else if c < 0x10000 then [0xE0 + c / 4096, 0x80 + c / 64 % 64, 0x80 + c % 64]
  else [0xF0 + c / 262144, 0x80 + c / 4096 % 64, 0x80 + c / 64 % 64, 0x80 + c % 64]

def renderStr (cps : List Nat) : String :=
  if cps.isEmpty then "s-" else "s" ++ String.join ((cps.flatMap utf8).map hex2)

def Atom.render : Atom → String
  | .none => "n"
  | .bool b => if b then "b1" else "b0"
  | .int i => s!"i{i}"
  | .flt f => f.render
  | .str s => renderStr s
  | .enum n => "e" ++ n
  | .pair a b => "[" ++ a.render ++ "," ++ b.render ++ "]"
  | .dim c s => "{control=e" ++ c ++ ",step_code=i" ++ toString s ++ "}"

def Val.render : Val → String
  | .atom a => a.render
  | .obj fs => "{" ++ ",".intercalate (fs.map fun (k, a) => k ++ "=" ++ a.render) ++ "}"

def J.render : J → String
  | .null => "n"
  | .bool b => if b then "b1" else "b0"
  | .int i => s!"i{i}"
  | .flt f => f.render
  | .str s => renderStr s

def JForm.render : JForm → String
  | .name s => renderStr s
  | .dict fs => "{" ++ ",".intercalate (fs.map fun (k, a) => k ++ "=" ++ a.render) ++ "}"

def Payload.render : Payload → String
  | .binary v => s!"b{v}"
  | .array bs =>
    if bs.isEmpty then "a-"
    else if bs.any (· ≥ 256) then "a!" ++ ".".intercalate (bs.map toString)
    else "a" ++ String.join (bs.map hex2)

def Err.render : Err → String
  | .parse => "parse"
  | .conv => "conv"
  | .other c => "other:" ++ c

/-! ### enum tables -/

def EnumTable.byValue (t : EnumTable) (v : Nat) : Option String :=
  (t.find? fun (_, x) => x == v).map (·.1)

def EnumTable.byName (t : EnumTable) (n : String) : Option Nat :=
  (t.find? fun (k, _) => k == n).map (·.2)

def Row.enumTable (r : Row) (role : String) : EnumTable :=
  ((r.enums.find? fun (k, _) => k == role).map (·.2)).getD []

/-! ### Python number helpers -/

def PyNum.toF? : PyNum → Option F
  | .int i => F.ofInt? i
  | .flt f => some f

/-- `a <= b` for Python numbers (exact int/float comparison; False when unordered) -/
def PyNum.le (a b : PyNum) : Bool :=
  match a, b with
  | .int x, .int y => x ≤ y
  | .flt x, .flt y => F.le x y
  | .int x, .flt y => match F.cmpInt x y with | some .lt | some .eq => true | _ => false
  | .flt x, .int y => match F.cmpInt y x with | some .gt | some .eq => true | _ => false

def PyNum.render : PyNum → String
  | .int i => s!"i{i}"
  | .flt f => f.render

end XknxVerif.DPT
