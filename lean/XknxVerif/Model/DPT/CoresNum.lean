/-
Numeric cores of the binary64-dependent DPT codecs and the chunk predicates of their kernel sweeps.  Imports only
the codec model and the generated parameter list (NOT the class table), so that the expensive shards under
XknxVerif/Sweep/S16* are invalidated only when a DPT 8 declaration or the model changes.  Core Lean only.
-/
import XknxVerif.Model.DPT.Codec
import XknxVerif.Generated.DPTParams

namespace XknxVerif.DPT
open XknxVerif.SF

/-- the declared parameters every sweep ranges over -/
def s16Params (r : Row) : PyNum × PyNum × PyNum := (r.vmin, r.vmax, r.res)

/-- numeric core of the DPT 8 round trip: raw → value → raw -/
def s16Core (P : PyNum × PyNum × PyNum) (i : Int) : Bool :=
  s16Raw P.1 P.2.1 P.2.2 (s16Value P.2.2 i) == .ok i

/-- value of a 16 bit word -/
def f16Word (data : Nat) : F := f16Value (f16Parts data).1 (f16Parts data).2

/-- numeric core of the DPT 9 round trip for a decoded value `v`: the encoder's candidate mantissa reproduces
`v` exactly (so the range guard of fix a5afb5f never fires on decoded values) and the octets decode to `v` -/
def f16CoreV (v : F) : Bool :=
  match f16Pre v with
  | .fail => false
  | .zero => f16Word 0 == v
  | .cand k' e m0 _ =>
    f16Value m0 e == v &&
      (match f16Finish m0 e k' with
       | [x, y] => decide (x < 256) && decide (y < 256) && f16Word (x * 256 + y) == v
       | _ => false)

def f16Core (data : Nat) : Bool := f16CoreV (f16Word data)

/-- two's complement reading of a 16 bit word -/
def toS16 (n : Nat) : Int := if n ≥ 32768 then (n : Int) - 65536 else (n : Int)

/-- DPT 8 parameter tuples whose resolution is a float (DPTPercentV16): their round trip goes through inexact
binary64 arithmetic and is established by the kernel sweep below -/
def s16FloatParams : List (PyNum × PyNum × PyNum) :=
  Generated.s16ParamList.filter fun P => match P.2.2 with | .flt _ => true | .int _ => false

/-- chunk `k` (64 raw words) of the DPT 8 sweep, over every float-resolution parameter tuple -/
def s16Chunk (k : Nat) : Bool :=
  s16FloatParams.all fun P => (List.range 64).all fun j => s16Core P (toS16 (64 * k + j))

/-- chunk `k` (256 words) of the DPT 9 numeric core -/
def f16Chunk (k : Nat) : Bool := (List.range 256).all fun j => f16Core (256 * k + j)


/-- DPT 8 parameter tuples with an integer resolution -/
def s16IntParams : List (PyNum × PyNum × PyNum) :=
  Generated.s16ParamList.filter fun P => match P.2.2 with | .flt _ => false | .int _ => true

/-- chunk `k` (64 raw words) of the DPT 8 sweep over the integer-resolution parameter tuples -/
def s16IntChunk (k : Nat) : Bool :=
  s16IntParams.all fun P => (List.range 64).all fun j => s16Core P (toS16 (64 * k + j))

end XknxVerif.DPT
