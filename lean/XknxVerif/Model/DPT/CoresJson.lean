/-
Executable predicates of the C10 sweeps (JSON form round trip), imported by XknxVerif/Sweep/Json* only.
-/
import XknxVerif.Model.DPT.Cores

namespace XknxVerif.DPT

/-- executable form of the JSON round trip for one payload: if it decodes to `v`, the dict / name form exists,
is accepted by the encoder and the new payload decodes to `v` -/
def jrtB (ctx : Ctx) (r : Row) (p : Payload) : Bool :=
  match decode ctx r p with
  | .ok v =>
    (match asForm r v with
     | some f =>
       (match encodeJson ctx r f with
        | .ok p' => decode ctx r p' == .ok v
        | .error _ => false)
     | none => false)
  | .error _ => true

def isJsonFamily (f : Family) : Bool :=
  f ∈ [.enum, .binctl, .ctldim, .ctlblinds, .scenectl, .time, .date, .datetime, .hvacstatus, .rgb, .rgbw, .xyy,
       .xyytrans, .cttrans, .ctctl, .relrgb, .relrgbw, .relxyy, .tariffenergy]

/-- DPTEnum / DPTComplex classes whose decoder sees a single item -/
def jsonOneItemRows : List Row := Generated.table.filter fun r => rawLen r == 1 && isJsonFamily r.family

def jrt1ChunkA (ctx : Ctx) (r : Row) (k : Nat) : Bool := (List.range 16).all fun j => jrtB ctx r (.array [16 * k + j])
def jrt1ChunkB (ctx : Ctx) (r : Row) (k : Nat) : Bool := (List.range 16).all fun j => jrtB ctx r (.binary (16 * k + j))

def jsonChunkA (k : Nat) : Bool := jsonOneItemRows.all fun r => jrt1ChunkA tableCtx r k
def jsonChunkB (k : Nat) : Bool := jsonOneItemRows.all fun r => jrt1ChunkB tableCtx r k

end XknxVerif.DPT
