/-
Line protocol of the DPT models for the correspondence runs of C07–C10.
One line = one DPT class × one block of payloads / values; the answer is the
run-length encoded list of per-item tokens, identical in format to what
harness/cases/C07..C10.py compute from the implementation.
-/
import XknxVerif.Model.DPT.Cores

namespace XknxVerif.DPT
open XknxVerif.SF

def theTable : List Row := Generated.table
def theCtx : Ctx := Ctx.ofTable theTable

/-- `harness.dptlib.rle` -/
def rle (items : List String) : String :=
  let rec go (prev : String) (n : Nat) (rest : List String) (acc : List String) : List String :=
    match rest with
    | [] => (s!"{prev}*{n}" :: acc).reverse
    | x :: xs => if x == prev then go prev (n + 1) xs acc else go x 1 xs (s!"{prev}*{n}" :: acc)
  match items with
  | [] => "-"
  | x :: xs => ",".intercalate (go x 1 xs [])

def parseRange (s : String) : Option (Nat × Nat) :=
  match s.splitOn "-" with
  | [a, b] => do let x ← a.toNat?; let y ← b.toNat?; pure (x, y)
  | _ => none

/-- payload spec: `b<lo>-<hi>` | `a<len>:<lo>-<hi>` | `x<hex>,<hex>,…` -/
def expandSpec (spec : String) : Option (List Payload) :=
  let body := (spec.drop 1).toString
  match spec.front with
  | 'b' => (parseRange body).map fun (lo, hi) => (List.range' lo (hi + 1 - lo)).map Payload.binary
  | 'a' =>
    match body.splitOn ":" with
    | [l, rg] => do
      let len ← l.toNat?
      let (lo, hi) ← parseRange rg
      pure ((List.range' lo (hi + 1 - lo)).map fun v => Payload.array (Bytes.ofNatBE len v))
    | _ => none
  | 'x' => (body.splitOn ",").mapM fun h => (bytesOfHex? h).map Payload.array
  | _ => none

def parseNumTok (t : String) : Option PyNum :=
  if t.front == 'i' then ((t.drop 1).toString.toInt?).map PyNum.int
  else (F.parse? t).map PyNum.flt

/-- value spec: `I<lo>:<hi>` | `V<tok>,<tok>,…` -/
def expandValues (spec : String) : Option (List PyNum) :=
  let body := (spec.drop 1).toString
  match spec.front with
  | 'I' =>
    match body.splitOn ":" with
    | [a, b] => do
      let lo ← a.toInt?; let hi ← b.toInt?
      pure ((List.range (hi - lo + 1).toNat).map fun (k : Nat) => PyNum.int (lo + (k : Int)))
    | _ => none
  | 'V' => (body.splitOn ",").mapM parseNumTok
  | _ => none

def errTok (e : Err) : String := e.render

/-- payload rendering; for the binary32 codec every NaN bit pattern is rendered as the canonical quiet NaN
(NaN payload bits are not modelled) -/
def prender (r : Row) (p : Payload) : String :=
  match r.family, p with
  | .f32, .array [a, b, c, d] =>
    if a % 128 == 127 && b ≥ 128 && (b % 128 != 0 || c != 0 || d != 0) then "a7fc00000" else p.render
  | _, _ => p.render

def decTok (r : Row) (p : Payload) : String :=
  match decode theCtx r p with
  | .ok _ => "ok"
  | .error e => errTok e

def sddTok (r : Row) (p : Payload) : String :=
  match setDecodedData theCtx false true (some r) p with
  | .ok (.set _) => "set"
  | .ok _ => "unset"
  | .error e => "other:escaped-" ++ errTok e

/-- documented replacement of text types: undecodable bytes come back as '?' -/
def rtTok (r : Row) (p : Payload) : String :=
  match decode theCtx r p with
  | .error .parse | .error .conv => "r"
  | .error e => errTok e
  | .ok v =>
    let cv := v.render
    match encodeVal theCtx r v with
    | .error e => cv ++ ">" ++ errTok e
    | .ok p2 =>
      let cp2 := prender r p2
      match decode theCtx r p2 with
      | .error e => cv ++ ">" ++ cp2 ++ ">" ++ errTok e
      | .ok v2 =>
        let cv2 := v2.render
        if cp2 == prender r p && cv2 == cv then cv else cv ++ ">" ++ cp2 ++ ">" ++ cv2

def jsonTok (r : Row) (p : Payload) : String :=
  match decode theCtx r p with
  | .error .parse | .error .conv => "r"
  | .error e => errTok e
  | .ok v =>
    let cv := v.render
    match asForm r v with
    | none => cv ++ ">form-model"
    | some f =>
      let cf := f.render
      match encodeJson theCtx r f with
      | .error e => cv ++ ">" ++ cf ++ ">" ++ errTok e
      | .ok p2 =>
        let cp2 := p2.render
        match decode theCtx r p2 with
        | .error e => cv ++ ">" ++ cf ++ ">" ++ cp2 ++ ">" ++ errTok e
        | .ok v2 =>
          let cv2 := v2.render
          if cp2 == p.render && cv2 == cv then cv ++ ">" ++ cf else cv ++ ">" ++ cf ++ ">" ++ cp2 ++ ">" ++ cv2

def encTok (r : Row) (v : PyNum) : String :=
  match encodeNum r v with
  | .error e => errTok e
  | .ok p =>
    match decode theCtx r p with
    | .ok v2 => prender r p ++ ">" ++ v2.render
    | .error e => prender r p ++ ">" ++ errTok e

-- DRIVER: dpt => XknxVerif.DPT.handle
/-- `dec|sdd|rt|json <Class> <payload spec>` and `enc <Class> <value spec>` → RLE of tokens -/
def handle : List String → String
  | ["core", which, k] =>
    -- the hypotheses of the `_partial` theorems of Props/C08, evaluated by the compiled model (256 words per line)
    match k.toNat? with
    | none => "bad-op"
    | some k =>
      if which == "f16" then toString (f16Chunk k)
      else if which == "s16" then
        toString (Generated.s16ParamList.all fun P => (List.range 256).all fun j => s16Core P (toS16 (256 * k + j)))
      else "bad-op"
  | [op, cls, spec] =>
    match lookup theTable cls with
    | none => "unknown-class"
    | some r =>
      if op == "enc" then
        match expandValues spec with
        | some vs => rle (vs.map (encTok r))
        | none => "bad-op"
      else
        match expandSpec spec with
        | none => "bad-op"
        | some ps =>
          match op with
          | "dec" => rle (ps.map (decTok r))
          | "sdd" => rle (ps.map (sddTok r))
          | "rt" => rle (ps.map (rtTok r))
          | "json" => rle (ps.map (jsonTok r))
          | _ => "bad-op"
  | _ => "bad-op"

end XknxVerif.DPT
