/-
Executable model of the DPT transcoders (xknx/dpt/dpt.py, dpt_*.py), one codec
per *family* (the class in the MRO that defines from_knx/to_knx), parameterised
by a table row (Generated/DPTTable.lean).  Mirrors the code after the `fix:`
commits of branch b-dpt.  Core Lean only.

Conventions
* `decode r p`   = `T.from_knx(p)`            : `.ok v | .error .parse | .error .conv | .error (.other _)`
* `encodeNum`    = `T.to_knx(v)` for a Python int/float
* `encodeVal`    = `T.to_knx(v)` for a value `from_knx` returned
* `asDict`/`fromJson`/`encodeJson` = the JSON form and `T.to_knx(<dict | name>)`
* `.other c` marks the places where the Python code would let an undeclared
  exception `c` escape (enum lookup on a missing member, index past the end);
  the well-formedness predicate on rows (Props) excludes them.
-/
import XknxVerif.Model.DPT.Types
import XknxVerif.Py.Bytes

namespace XknxVerif.DPT
open XknxVerif.SF

/-! ## shared pieces -/

/-- `DPTBase.validate_payload` -/
def validate (r : Row) (p : Payload) : M (List Nat) :=
  match r.kind, p with
  | .array, .array bs => if r.length == bs.length then .ok bs else .error .parse
  | .binary, .binary v => if v ≥ 2 ^ r.length then .error .parse else .ok [v]
  | _, _ => .error .parse

/-- `DPTBinary(value)`: ConversionError outside 0..63 -/
def mkBinary (v : Int) : M Payload :=
  if 0 ≤ v ∧ v ≤ 63 then .ok (.binary v.toNat) else .error .conv

/-- `lo <= v <= hi` -/
def inRange' (lo hi v : PyNum) : Bool := lo.le v && v.le hi

/-- `cls.value_min <= v <= cls.value_max` -/
def inRange (r : Row) (v : PyNum) : Bool := inRange' r.vmin r.vmax v

/-- `int(value)` for a Python number; OverflowError / ValueError are both caught as ConversionError (after fix 91797be) -/
def pyInt (v : PyNum) : M Int :=
  match v with
  | .int i => .ok i
  | .flt f => match f.toIntTrunc with | .ok i => .ok i | .error _ => .error .conv

/-- `float(value)`; OverflowError caught as ConversionError -/
def pyFloat (v : PyNum) : M F :=
  match v.toF? with | some f => .ok f | none => .error .conv

def toBE (len : Nat) (n : Nat) : List Nat := Bytes.ofNatBE len n
def fromBE (bs : List Nat) : Nat := Bytes.toNatBE bs

/-- size in octets and signedness of the struct formats used -/
def fmtInfo (fmt : String) : Option (Nat × Bool) :=
  match fmt with
  | ">I" => some (4, false) | ">i" => some (4, true) | ">q" => some (8, true) | ">h" => some (2, true)
  | ">H" => some (2, false) | ">B" => some (1, false) | ">b" => some (1, true) | ">Q" => some (8, false)
  | _ => none

/-- `struct.unpack(fmt, bytes(raw))[0]`; `none` = struct.error -/
def structUnpack (fmt : String) (raw : List Nat) : Option Int :=
  match fmtInfo fmt with
  | none => none
  | some (sz, signed) =>
    if raw.length != sz then none
    else
      let u := fromBE raw
      if signed && u ≥ 2 ^ (8 * sz - 1) then some ((u : Int) - (2 ^ (8 * sz) : Nat)) else some (u : Int)

/-- `struct.pack(fmt, i)`; `none` = struct.error -/
def structPack (fmt : String) (i : Int) : Option (List Nat) :=
  match fmtInfo fmt with
  | none => none
  | some (sz, signed) =>
    if signed then
      if -((2 ^ (8 * sz - 1) : Nat) : Int) ≤ i ∧ i < ((2 ^ (8 * sz - 1) : Nat) : Int) then
        some (toBE sz (if i < 0 then (i + ((2 ^ (8 * sz) : Nat) : Int)).toNat else i.toNat))
      else none
    else
      if 0 ≤ i ∧ i < ((2 ^ (8 * sz) : Nat) : Int) then some (toBE sz i.toNat) else none

/-- `Enum(value)` by value; missing ⇒ ValueError -/
def enumOfValue (t : EnumTable) (v : Nat) : Option String := t.byValue v

def upperAscii (c : Nat) : Nat := if 97 ≤ c ∧ c ≤ 122 then c - 32 else c
def lowerAscii (c : Nat) : Nat := if 65 ≤ c ∧ c ≤ 90 then c + 32 else c
def strCps (s : String) : List Nat := s.toList.map Char.toNat
def cpsStr (cps : List Nat) : String := String.ofList (cps.map Char.ofNat)

/-- `member.name.lower()` -/
def lowerName (n : String) : List Nat := (strCps n).map lowerAscii

/-- `DPTEnumData.parse(value)` for a str (`cls[value.upper()]`) -/
def enumParseName (t : EnumTable) (cps : List Nat) : Option (String × Nat) :=
  let up := cpsStr (cps.map upperAscii)
  (t.byName up).map fun v => (up, v)

/-- `DPTEnumData.parse(value)` for JSON input: str by name, int by value -/
def enumParseJ (t : EnumTable) : J → Option (String × Nat)
  | .str s => enumParseName t s
  | .int i => if i < 0 then none else (t.byValue i.toNat).map fun n => (n, i.toNat)
  | .bool b => (t.byValue (if b then 1 else 0)).map fun n => (n, if b then 1 else 0)
  | _ => none

def bit (raw k : Nat) : Bool := raw >>> k % 2 == 1

def b2n (b : Bool) : Nat := if b then 1 else 0

/-- field lookup in a dataclass value -/
def fld (fs : List (String × Atom)) (k : String) : Option Atom := (fs.find? fun (n, _) => n == k).map (·.2)

/-- key lookup in a JSON dict -/
def jget (fs : List (String × J)) (k : String) : Option J := (fs.find? fun (n, _) => n == k).map (·.2)

/-- the double nearest to the decimal literal p/q (Python float literals are correctly rounded) -/
def lit (p q : Nat) : F := (F.ofRat? false p q).getD (.inf false)

/-- `round(k / 0xFFFF, 5)` -/
def axisDecode (k : Nat) : F :=
  match F.ofRat? false k 0xFFFF with
  | some q => (q.roundN 5).getD q
  | none => .nan

/-- `0 <= axis <= 1` then `round(axis * 0xFFFF)` -/
def axisEncode (a : F) : M Nat :=
  if F.cmpInt 0 a == some .gt || F.cmpInt 1 a == some .lt || a.isNaN then .error .conv
  else match (F.mul a (F.ofInt 0xFFFF)).roundInt with
    | .ok i => .ok i.toNat
    | .error _ => .error .conv

/-- `round(k * 0.1, 1)` -/
def fadeDecode (k : Nat) : F :=
  let x := F.mul (F.ofInt k) (lit 1 10)
  (x.roundN 1).getD x

/-- `0 <= fade_time <= 6553.5` then `round(fade_time * 10)` -/
def fadeEncode (t : F) : M Nat :=
  if F.cmpInt 0 t == some .gt || !(F.le t (lit 65535 10)) then .error .conv
  else match (F.mul t (F.ofInt 10)).roundInt with
    | .ok i => .ok i.toNat
    | .error _ => .error .conv

/-- `unpack_control_dimming(raw)` -/
def unpackDim (t : EnumTable) (raw : Nat) : M Atom :=
  match enumOfValue t (raw >>> 3 % 2) with
  | some n => .ok (.dim n (raw % 8))
  | none => .error (.other "ValueError")

/-- `pack_control_dimming(step)` (no range check in the code) -/
def packDim (t : EnumTable) : Atom → M Nat
  | .none => .ok 0
  | .dim c s =>
    match t.byName c with
    | some v => if 0 ≤ s then .ok (v <<< 3 ||| s.toNat) else .error (.other "negative")
    | none => .error (.other "KeyError")
  | _ => .error .conv

/-! ## context: rows other codecs delegate to -/

structure Ctx where
  sceneNumber : Row
  activeEnergy : Row
  tariff : Row
  deriving Inhabited

def lookup (tbl : List Row) (name : String) : Option Row := tbl.find? fun r => r.name == name

def Ctx.ofTable (tbl : List Row) : Ctx :=
  { sceneNumber := (lookup tbl "DPTSceneNumber").getD default
    activeEnergy := (lookup tbl "DPTActiveEnergy").getD default
    tariff := (lookup tbl "DPTTariff").getD default }

/-! ## decode -/

def decU8 (r : Row) (raw : List Nat) : M Val :=
  match raw with
  | [b] => if inRange r (.int b) then .ok (.atom (.int b)) else .error .conv
  | _ => .error (.other "IndexError")

def decSceneNum (r : Row) (raw : List Nat) : M Val :=
  match raw with
  | [b] => if inRange r (.int (b + 1)) then .ok (.atom (.int (b + 1))) else .error .conv
  | _ => .error (.other "IndexError")

def decScaling (r : Row) (raw : List Nat) : M Val :=
  match raw, r.vmin, r.vmax with
  | [b], .int lo, .int hi =>
    match F.ofRat? false b 255 with
    | none => .error (.other "OverflowError")
    | some q =>
      match (F.mul q (F.ofInt (hi - lo))).roundInt with
      | .error _ => .error (.other "OverflowError")
      | .ok k => let v := k + lo; if inRange r (.int v) then .ok (.atom (.int v)) else .error .conv
  | _, _, _ => .error (.other "model")

def decS8 (r : Row) (raw : List Nat) : M Val :=
  match raw with
  | [b] => if !(PyNum.le (.int b) r.vmax) then .ok (.atom (.int ((b : Int) - 256))) else .ok (.atom (.int b))
  | _ => .error (.other "IndexError")

def decU16 (r : Row) (raw : List Nat) : M Val :=
  match raw, r.res with
  | [a, b], .int k => .ok (.atom (.int ((a * 256 + b : Nat) * k)))
  | [a, b], .flt f => .ok (.atom (.flt (F.mul (F.ofInt (a * 256 + b : Nat)) f)))
  | _, _ => .error (.other "IndexError")

def numVal : PyNum → Val
  | .int i => .atom (.int i)
  | .flt f => .atom (.flt f)

/-- `struct.unpack(...)[0] * cls.resolution` -/
def s16Value (res : PyNum) (i : Int) : PyNum :=
  match res with
  | .int k => .int (i * k)
  | .flt f => .flt (F.mul (F.ofInt i) f)

def decS16 (r : Row) (raw : List Nat) : M Val :=
  match structUnpack r.fmt raw with
  | none => .error .conv
  | some i => .ok (numVal (s16Value r.res i))

def decStructInt (r : Row) (raw : List Nat) : M Val :=
  match structUnpack r.fmt raw with
  | none => .error .conv
  | some i => .ok (.atom (.int i))

/-- DPT 9 significand·2^exponent of the 16 bit word -/
def f16Parts (data : Nat) : Int × Nat :=
  let e := data >>> 11 % 16
  let m := data % 2048
  let sg := data >>> 15
  ((if sg == 1 then (m : Int) - 2048 else (m : Int)), e)

/-- `float(significand << exponent) / 100` -/
def f16Value (m : Int) (e : Nat) : F :=
  let n := m * (2 ^ e : Nat)
  (F.ofRat? (n < 0) n.natAbs 100).getD .nan

def decF16 (r : Row) (raw : List Nat) : M Val :=
  match raw with
  | [a, b] =>
    let (m, e) := f16Parts (a * 256 + b)
    let v := f16Value m e
    if inRange r (.flt v) then .ok (.atom (.flt v)) else .error .conv
  | _ => .error (.other "IndexError")

/-- `round(raw_float, 7 - ceil(log10(abs(raw_float))))`, falling back to raw_float on ValueError/OverflowError -/
def round7 (x : F) : F :=
  match x with
  | .fin _ n => if n == 0 then x else (x.roundN (7 - F.ceilLog10 n)).getD x
  | _ => x

def decF32 (_r : Row) (raw : List Nat) : M Val :=
  if raw.length != 4 then .error .conv  -- struct.error
  else .ok (.atom (.flt (round7 (F.ofBits32 (fromBE raw)))))

/-- `bytes(b for b in raw if b != 0).decode(encoding, errors="replace")` -/
def decString (r : Row) (raw : List Nat) : M Val :=
  let bs := raw.filter (· != 0)
  if r.fmt == "ascii" then .ok (.atom (.str (bs.map fun b => if b < 0x80 then b else 0xFFFD)))
  else if r.fmt == "latin_1" then .ok (.atom (.str bs))
  else .error (.other "LookupError")

def decEnum (r : Row) (raw : List Nat) : M Val :=
  match raw with
  | b :: _ => match enumOfValue (r.enumTable "data") b with
    | some n => .ok (.atom (.enum n))
    | none => .error .conv
  | [] => .error (.other "IndexError")

def decBinCtl (r : Row) (raw : List Nat) : M Val :=
  match raw with
  | [b] => match enumOfValue (r.enumTable "data") (b % 2) with
    | some n => .ok (.obj [("control", .bool (bit b 1)), ("value", .enum n)])
    | none => .error (.other "ValueError")
  | _ => .error (.other "IndexError")

def decCtl4 (r : Row) (raw : List Nat) : M Val :=
  match raw with
  | [b] => match enumOfValue (r.enumTable "control") (b >>> 3 % 2) with
    | some n => .ok (.obj [("control", .enum n), ("step_code", .int (b % 8 : Nat))])
    | none => .error (.other "ValueError")
  | _ => .error (.other "IndexError")

def decSceneCtl (_r : Row) (raw : List Nat) : M Val :=
  match raw with
  | [b] => .ok (.obj [("scene_number", .int ((b % 64 + 1 : Nat))), ("learn", .bool (bit b 7))])
  | _ => .error (.other "IndexError")

def timeRangeOk (h m s : Int) : Bool := 0 ≤ h && h ≤ 23 && 0 ≤ m && m ≤ 59 && 0 ≤ s && s ≤ 59

def decTime (r : Row) (raw : List Nat) : M Val :=
  match raw with
  | [a, b, c] =>
    let wd := a / 32
    let h := a % 32; let m := b % 64; let s := c % 64
    if !timeRangeOk h m s then .error .conv
    else match enumOfValue (r.enumTable "day") wd with
      | some n => .ok (.obj [("hour", .int h), ("minutes", .int m), ("seconds", .int s), ("day", .enum n)])
      | none => .error (.other "ValueError")
  | _ => .error (.other "IndexError")

def dateRangeOk (d m y : Int) : Bool := 1 ≤ d && d ≤ 31 && 1 ≤ m && m ≤ 12 && 0 ≤ y && y ≤ 99

def decDate (_r : Row) (raw : List Nat) : M Val :=
  match raw with
  | [a, b, c] =>
    let d := a % 32; let m := b % 16; let y := c % 128
    if !dateRangeOk d m y then .error .conv
    else .ok (.obj [("year", .int ((if y ≥ 90 then y + 1900 else y + 2000 : Nat))), ("month", .int m), ("day", .int d)])
  | _ => .error (.other "IndexError")

/-- `DPTDateTime._test_range` on optional ints -/
def dtRangeOk (year month day hour minutes seconds : Option Int) : Bool :=
  let chk (o : Option Int) (lo hi : Int) : Bool := match o with | none => true | some v => lo ≤ v && v ≤ hi
  chk year 1900 2155 && chk month 1 12 && chk day 1 31 && chk hour 0 24 && chk minutes 0 59 && chk seconds 0 59
  && !(hour == some 24 && (minutes != some 0 || seconds != some 0))

def optInt (o : Option Int) : Atom := match o with | some i => .int i | none => .none

def decDateTime (r : Row) (raw : List Nat) : M Val :=
  match raw with
  | [r0, r1, r2, r3, r4, r5, r6, r7] =>
    let year : Int := r0 + 1900
    let month : Int := (r1 % 16 : Nat); let day : Int := (r2 % 32 : Nat)
    let wd := r3 / 32
    let hour : Int := (r3 % 32 : Nat); let minutes : Int := (r4 % 64 : Nat); let seconds : Int := (r5 % 64 : Nat)
    let yearInv := bit r6 4; let dateInv := bit r6 3; let wdInv := bit r6 2; let timeInv := bit r6 1
    let wdInval := bit r6 5
    -- KNXDayOfWeek(weekday) is only evaluated when the weekday is valid
    match (if wdInv then some Atom.none else (enumOfValue (r.enumTable "day_of_week") wd).map Atom.enum) with
    | none => .error (.other "ValueError")
    | some dow =>
      let oy := if yearInv then none else some year
      let om := if dateInv then none else some month
      let od := if dateInv then none else some day
      let oh := if timeInv then none else some hour
      let omi := if timeInv then none else some minutes
      let os := if timeInv then none else some seconds
      if !dtRangeOk oy om od oh omi os then .error .conv
      else .ok (.obj [("year", optInt oy), ("month", optInt om), ("day", optInt od), ("hour", optInt oh),
                      ("minutes", optInt omi), ("seconds", optInt os), ("day_of_week", dow),
                      ("fault", .bool (bit r6 7)),
                      ("working_day", if wdInval then .none else .bool (bit r6 6)),
                      ("dst", .bool (bit r6 0)), ("external_sync", .bool (bit r7 7)), ("source_reliable", .bool (bit r7 6))])
  | _ => .error (.other "IndexError")

def decHVACStatus (_r : Row) (raw : List Nat) : M Val :=
  match raw with
  | [b] =>
    let mode := if bit b 0 then "COMFORT" else if bit b 1 then "STANDBY" else if bit b 2 then "ECONOMY"
      else if bit b 3 then "BUILDING_PROTECTION" else "AUTO"
    .ok (.obj [("mode", .enum mode), ("dew_point", .bool (bit b 4)), ("heat_cool", .enum (if bit b 5 then "HEAT" else "COOL")),
               ("inactive", .bool (bit b 6)), ("frost_alarm", .bool (bit b 7))])
  | _ => .error (.other "IndexError")

def decRGB (_r : Row) (raw : List Nat) : M Val :=
  match raw with
  | [a, b, c] => .ok (.obj [("red", .int a), ("green", .int b), ("blue", .int c)])
  | _ => .error (.other "IndexError")

def optNat (valid : Bool) (v : Nat) : Atom := if valid then .int v else .none

def decRGBW (_r : Row) (raw : List Nat) : M Val :=
  match raw with
  | [a, b, c, d, _, f] =>
    .ok (.obj [("red", optNat (bit f 3) a), ("green", optNat (bit f 2) b), ("blue", optNat (bit f 1) c), ("white", optNat (bit f 0) d)])
  | _ => .error (.other "IndexError")

def decXYY (_r : Row) (raw : List Nat) : M Val :=
  match raw with
  | [x0, x1, y0, y1, br, f] =>
    .ok (.obj [("color", if bit f 1 then .pair (axisDecode (x0 * 256 + x1)) (axisDecode (y0 * 256 + y1)) else .none),
               ("brightness", optNat (bit f 0) br)])
  | _ => .error (.other "IndexError")

def decXYYTrans (_r : Row) (raw : List Nat) : M Val :=
  match raw with
  | [t0, t1, x0, x1, y0, y1, br, f] =>
    .ok (.obj [("fade_time", .flt (fadeDecode (t0 * 256 + t1))),
               ("color", if bit f 1 then .pair (axisDecode (x0 * 256 + x1)) (axisDecode (y0 * 256 + y1)) else .none),
               ("brightness", optNat (bit f 0) br)])
  | _ => .error (.other "IndexError")

def decCTTrans (_r : Row) (raw : List Nat) : M Val :=
  match raw with
  | [t0, t1, c0, c1, br, f] =>
    .ok (.obj [("fade_time", if bit f 2 then .flt (fadeDecode (t0 * 256 + t1)) else .none),
               ("color_temperature", optNat (bit f 1) (c0 * 256 + c1)),
               ("brightness", optNat (bit f 0) br)])
  | _ => .error (.other "IndexError")

/-- fields `(name, raw octet, valid)` of the relative-control DPTs -/
def decRel (r : Row) (fs : List (String × Nat × Bool)) : M Val := do
  let t := r.enumTable "control"
  let out ← fs.mapM fun (n, raw, valid) => do
    if valid then let d ← unpackDim t raw; pure (n, d) else pure (n, Atom.none)
  pure (.obj out)

def decCTCtl (r : Row) (raw : List Nat) : M Val :=
  match raw with
  | [a, b, f] => decRel r [("color_temperature", a, bit f 1), ("brightness", b, bit f 0)]
  | _ => .error (.other "IndexError")

def decRelRGBW (r : Row) (raw : List Nat) : M Val :=
  match raw with
  | [a, b, c, d, f] => decRel r [("red", a, bit f 3), ("green", b, bit f 2), ("blue", c, bit f 1), ("white", d, bit f 0)]
  | _ => .error (.other "IndexError")

def decRelXYY (r : Row) (raw : List Nat) : M Val :=
  match raw with
  | [a, b, c, f] => decRel r [("saturation", a, bit f 2), ("colour", b, bit f 1), ("brightness", c, bit f 0)]
  | _ => .error (.other "IndexError")

def decRelRGB (r : Row) (raw : List Nat) : M Val :=
  match raw with
  | [a, b, c] => decRel r [("red", a, true), ("green", b, true), ("blue", c, true)]
  | _ => .error (.other "IndexError")

def atomOf : M Val → M Atom
  | .ok (.atom a) => .ok a
  | .ok _ => .error (.other "model")
  | .error e => .error e

def decTariffEnergy (ctx : Ctx) (_r : Row) (raw : List Nat) : M Val :=
  match raw with
  | [e0, e1, e2, e3, t, f] => do
    -- DPTActiveEnergy.from_knx(DPTArray(raw[:4])) / DPTTariff.from_knx(DPTArray([raw[4]]))
    let energy ← if !bit f 1 then atomOf ((validate ctx.activeEnergy (.array [e0, e1, e2, e3])).bind (decStructInt ctx.activeEnergy)) else pure Atom.none
    let tariff ← if !bit f 0 then atomOf ((validate ctx.tariff (.array [t])).bind (decU8 ctx.tariff)) else pure Atom.none
    pure (.obj [("energy", energy), ("tariff", tariff)])
  | _ => .error (.other "IndexError")

def decodeRaw (ctx : Ctx) (r : Row) (raw : List Nat) : M Val :=
  match r.family with
  | .enum => decEnum r raw
  | .binctl => decBinCtl r raw
  | .structint => decStructInt r raw
  | .u16 => decU16 r raw
  | .s16 => decS16 r raw
  | .f16 => decF16 r raw
  | .f32 => decF32 r raw
  | .u8 => decU8 r raw
  | .scaling => decScaling r raw
  | .s8 => decS8 r raw
  | .string => decString r raw
  | .scenenum => decSceneNum r raw
  | .scenectl => decSceneCtl r raw
  | .ctldim | .ctlblinds => decCtl4 r raw
  | .time => decTime r raw
  | .date => decDate r raw
  | .datetime => decDateTime r raw
  | .hvacstatus => decHVACStatus r raw
  | .rgb => decRGB r raw
  | .rgbw => decRGBW r raw
  | .xyy => decXYY r raw
  | .xyytrans => decXYYTrans r raw
  | .cttrans => decCTTrans r raw
  | .ctctl => decCTCtl r raw
  | .relrgb => decRelRGB r raw
  | .relrgbw => decRelRGBW r raw
  | .relxyy => decRelXYY r raw
  | .tariffenergy => decTariffEnergy ctx r raw
  | .unmodelled => .error (.other "unmodelled")

/-- `T.from_knx(payload)` -/
def decode (ctx : Ctx) (r : Row) (p : Payload) : M Val := (validate r p).bind (decodeRaw ctx r)

/-! ## `GroupAddressDPT.set_decoded_data` -/

inductive SDD where
  /-- returned before decoding: already decoded, not a GroupValueWrite/Response, or no transcoder for the address -/
  | untouched
  /-- `telegram.decoded_data = TelegramDecodedData(transcoder, value)` -/
  | set (v : Val)
  /-- `except (CouldNotParseTelegram, ConversionError)`: logged, address remembered, decoded_data stays None -/
  | logged
  deriving DecidableEq, Repr

/-- the body of `set_decoded_data`; `.error e` = exception `e` escapes into `_telegram_consumer`, outside its try block -/
def setDecodedData (ctx : Ctx) (alreadyDecoded isValuePayload : Bool) (transcoder : Option Row) (p : Payload) : M SDD :=
  if alreadyDecoded then .ok .untouched
  else if !isValuePayload then .ok .untouched
  else match transcoder with
    | none => .ok .untouched
    | some r =>
      match decode ctx r p with
      | .ok v => .ok (.set v)
      | .error .parse => .ok .logged
      | .error .conv => .ok .logged
      | .error e => .error e

/-! ## encode -/

def encU8 (r : Row) (v : PyNum) : M Payload := do
  let k ← pyInt v
  if inRange r (.int k) then pure (.array [k.toNat]) else .error .conv

def encSceneNum (r : Row) (v : PyNum) : M Payload := do
  let k ← pyInt v
  if inRange r (.int k) then (if k - 1 < 0 then .error (.other "negative") else pure (.array [(k - 1).toNat])) else .error .conv

def encScaling (r : Row) (v : PyNum) : M Payload := do
  let x ← pyFloat v
  match r.vmin, r.vmax with
  | .int lo, .int hi =>
    if !inRange r (.flt x) then .error .conv
    else
      match F.div? (F.sub x (F.ofInt lo)) (F.ofInt (hi - lo)) with
      | none => .error (.other "ZeroDivisionError")
      | some q =>
        match (F.mul q (F.ofInt 255)).roundInt with
        | .ok k => if k < 0 then .error (.other "negative") else pure (.array [k.toNat])
        | .error _ => .error .conv
  | _, _ => .error (.other "model")

def encS8 (r : Row) (v : PyNum) : M Payload := do
  let k ← pyInt v
  if !inRange r (.int k) then .error .conv
  else
    let k' := if k < 0 then k + 256 else k
    pure (.array [(k' % 256).toNat])

def encU16 (r : Row) (v : PyNum) : M Payload := do
  let k ← pyInt v
  if !inRange r (.int k) then .error .conv
  else match r.res with
    | .int d =>
      if d == 0 then .error (.other "ZeroDivisionError")
      else
        let q := k.fdiv d
        if q < 0 then .error (.other "negative") else pure (.array [q.toNat >>> 8, q.toNat % 256])
    | .flt _ => .error (.other "TypeError")

/-- DPT 8 `to_knx` up to `knx_value = round(value / resolution)` (before struct.pack) -/
def s16Raw (lo hi res : PyNum) (v : PyNum) : M Int := do
  let x ← pyFloat v
  if !inRange' lo hi (.flt x) then .error .conv
  else
    let q ← match res with
      | .int d => (match F.div? x (F.ofInt d) with | some q => pure q | none => .error (.other "ZeroDivisionError"))
      | .flt d => (match F.div? x d with | some q => pure q | none => .error (.other "ZeroDivisionError"))
    match q.roundInt with
    | .error _ => .error .conv
    | .ok k => pure k

def encS16 (r : Row) (v : PyNum) : M Payload := do
  let k ← s16Raw r.vmin r.vmax r.res v
  match structPack r.fmt k with
  | some bs => pure (.array bs)
  | none => .error .conv

def encStructInt (r : Row) (v : PyNum) : M Payload := do
  let k ← pyInt v
  if !inRange r (.int k) then .error .conv
  else match structPack r.fmt k with
    | some bs => pure (.array bs)
    | none => .error .conv

/-- `while not -2048 <= round(knx_value) <= 2047: exponent += 1; knx_value /= 2`
(the rounded mantissa is tested since fix 155c128: 2047.25 still fits as 2047) -/
def f16Loop : Nat → F → Nat → F × Nat
  | 0, x, e => (x, e)
  | fuel + 1, x, e =>
    if (match x.roundInt with
        | .ok m => decide (m < -2048) || decide (m > 2047)
        | .error _ => false) then
      f16Loop fuel ((F.div? x (F.ofInt 2)).getD x) (e + 1)
    else (x, e)

/-- the range-independent part of DPT 9 `to_knx`: `zero` (payload 00 00) or the scaled value `k'`, the exponent,
and the two mantissa candidates `round(k')` / `int(k')` -/
inductive F16Pre where
  | fail
  | zero
  | cand (k' : F) (e : Nat) (m0 mt : Int)
  deriving DecidableEq, Repr

def f16Pre (x : F) : F16Pre :=
  let k := F.mul x (F.ofInt 100)
  match k.roundInt with
  | .error _ => .fail
  | .ok 0 => .zero
  | .ok _ =>
    let (k', e) := f16Loop 1100 k 0
    match k'.roundInt, k'.toIntTrunc with
    | .ok m0, .ok mt => .cand k' e m0 mt
    | _, _ => .fail

/-- mantissa, exponent, sign of the scaled value → the two octets -/
def f16Finish (m : Int) (e : Nat) (k' : F) : List Nat :=
  let m11 := (m % 2048).toNat
  let msb := (e <<< 3) ||| (m11 >>> 8)
  let msb := if F.cmpInt 0 k' == some .gt then msb ||| 0x80 else msb
  [msb, m11 % 256]

/-- DPT 9 `to_knx` after the range check; `ok` is `_test_boundaries` -/
def f16Enc (ok : F → Bool) (x : F) : M Payload :=
  match f16Pre x with
  | .fail => .error .conv
  | .zero => .ok (.array [0, 0])
  | .cand k' e m0 mt =>
    -- never round out of the declared range (fix a5afb5f)
    .ok (.array (f16Finish (if ok (f16Value m0 e) then m0 else mt) e k'))

def encF16 (r : Row) (v : PyNum) : M Payload := do
  let x ← pyFloat v
  if !inRange r (.flt x) then .error .conv
  else f16Enc (fun y => inRange r (.flt y)) x

def encF32 (_r : Row) (v : PyNum) : M Payload := do
  let x ← pyFloat v
  match x.toF32? with
  | some y => pure (.array (toBE 4 (F.bits32 y)))
  | none => .error .conv

/-- `str.encode(encoding, errors="replace")` + zero padding -/
def encString (r : Row) (cps : List Nat) : M Payload :=
  if cps.length > r.length then .error .conv
  else
    let lim := if r.fmt == "ascii" then 0x80 else 0x100
    let bs := cps.map fun c => if c < lim then c else 0x3F
    .ok (.array (bs ++ List.replicate (r.length - bs.length) 0))

/-- per-class `_to_knx`: `DPTBinary(value.value)` / `DPTArray(value.value)` -/
def encEnumValue (r : Row) (v : Nat) : M Payload :=
  match r.kind with
  | .binary => mkBinary v
  | .array => .ok (.array [v])

def encEnumMember (r : Row) (n : String) : M Payload :=
  match (r.enumTable "data").byName n with
  | some v => encEnumValue r v
  | none => .error (.other "model")

def getInt (fs : List (String × Atom)) (k : String) : M Int :=
  match fld fs k with | some (.int i) => .ok i | _ => .error .conv
def getOptInt (fs : List (String × Atom)) (k : String) : M (Option Int) :=
  match fld fs k with | some (.int i) => .ok (some i) | some .none => .ok none | _ => .error .conv
def getBool (fs : List (String × Atom)) (k : String) : M Bool :=
  match fld fs k with | some (.bool b) => .ok b | _ => .error .conv
def getEnum (fs : List (String × Atom)) (k : String) : M String :=
  match fld fs k with | some (.enum n) => .ok n | _ => .error .conv
def getAtom (fs : List (String × Atom)) (k : String) : M Atom :=
  match fld fs k with | some a => .ok a | none => .error .conv

def byteOk (i : Int) : Bool := 0 ≤ i && i ≤ 255

def encBinCtl (r : Row) (fs : List (String × Atom)) : M Payload := do
  let c ← getBool fs "control"
  let n ← getEnum fs "value"
  match (r.enumTable "data").byName n with
  | some v => mkBinary ((b2n c <<< 1 ||| v : Nat))
  | none => .error (.other "model")

def encCtl4 (r : Row) (fs : List (String × Atom)) : M Payload := do
  let n ← getEnum fs "control"
  let s ← getInt fs "step_code"
  if !(0 ≤ s && s ≤ 7) then .error .conv
  else match (r.enumTable "control").byName n with
    | some v => mkBinary ((v <<< 3 ||| s.toNat : Nat))
    | none => .error (.other "model")

def encSceneCtl (ctx : Ctx) (_r : Row) (fs : List (String × Atom)) : M Payload := do
  let n ← getInt fs "scene_number"
  let learn ← getBool fs "learn"
  match ← encSceneNum ctx.sceneNumber (.int n) with
  | .array [b] => pure (.array [if learn then b ||| 0x80 else b])
  | _ => .error (.other "model")

def encTime (r : Row) (fs : List (String × Atom)) : M Payload := do
  let h ← getInt fs "hour"; let m ← getInt fs "minutes"; let s ← getInt fs "seconds"
  let d ← getEnum fs "day"
  if !timeRangeOk h m s then .error .conv
  else match (r.enumTable "day").byName d with
    | some v => pure (.array [v <<< 5 ||| h.toNat, m.toNat, s.toNat])
    | none => .error (.other "model")

def encDate (_r : Row) (fs : List (String × Atom)) : M Payload := do
  let y ← getInt fs "year"; let m ← getInt fs "month"; let d ← getInt fs "day"
  let ky ← if 2000 ≤ y && y < 2090 then pure (y - 2000) else if 1990 ≤ y && y < 2000 then pure (y - 1900) else .error .conv
  if !dateRangeOk d m ky then .error .conv
  else pure (.array [d.toNat, m.toNat, ky.toNat])

def encDateTime (r : Row) (fs : List (String × Atom)) : M Payload := do
  let year ← getOptInt fs "year"; let month ← getOptInt fs "month"; let day ← getOptInt fs "day"
  let hour ← getOptInt fs "hour"; let minutes ← getOptInt fs "minutes"; let seconds ← getOptInt fs "seconds"
  let dow ← getAtom fs "day_of_week"
  let fault ← getBool fs "fault"
  let wd ← getAtom fs "working_day"
  let dst ← getBool fs "dst"; let ext ← getBool fs "external_sync"; let rel ← getBool fs "source_reliable"
  if !dtRangeOk year month day hour minutes seconds then .error .conv
  else
    let dowV ← match dow with
      | .none => pure 0
      | .enum n => (match (r.enumTable "day_of_week").byName n with | some v => pure v | none => .error (.other "model"))
      | _ => .error .conv
    let (wdBit, wdNone) ← match wd with
      | .none => pure (false, true)
      | .bool b => pure (b, false)
      | _ => .error .conv
    let ky := match year with | some y => ((y - 1900) % 256).toNat | none => 0
    let mdInv := month.isNone || day.isNone
    let tInv := hour.isNone || minutes.isNone || seconds.isNone
    let g (o : Option Int) : Nat := match o with | some v => v.toNat | none => 0
    pure (.array [ky, g month, g day, dowV <<< 5 ||| g hour, g minutes, g seconds,
      b2n fault <<< 7 ||| b2n wdBit <<< 6 ||| b2n wdNone <<< 5 ||| b2n year.isNone <<< 4 ||| b2n mdInv <<< 3
        ||| b2n (dow == .none) <<< 2 ||| b2n tInv <<< 1 ||| b2n dst,
      b2n ext <<< 7 ||| b2n rel <<< 6])

def encHVACStatus (_r : Row) (fs : List (String × Atom)) : M Payload := do
  let mode ← getEnum fs "mode"; let dew ← getBool fs "dew_point"; let hc ← getEnum fs "heat_cool"
  let inact ← getBool fs "inactive"; let frost ← getBool fs "frost_alarm"
  let m := if mode == "COMFORT" then 1 else if mode == "STANDBY" then 2 else if mode == "ECONOMY" then 4
    else if mode == "BUILDING_PROTECTION" then 8 else 0
  pure (.array [m ||| b2n dew <<< 4 ||| b2n (hc == "HEAT") <<< 5 ||| b2n inact <<< 6 ||| b2n frost <<< 7])

def encRGB (_r : Row) (fs : List (String × Atom)) : M Payload := do
  let a ← getInt fs "red"; let b ← getInt fs "green"; let c ← getInt fs "blue"
  if byteOk a && byteOk b && byteOk c then pure (.array [a.toNat, b.toNat, c.toNat]) else .error .conv

def encRGBW (_r : Row) (fs : List (String × Atom)) : M Payload := do
  let a ← getOptInt fs "red"; let b ← getOptInt fs "green"; let c ← getOptInt fs "blue"; let d ← getOptInt fs "white"
  let ok (o : Option Int) : Bool := match o with | some v => byteOk v | none => true
  let g (o : Option Int) : Nat := match o with | some v => v.toNat | none => 0
  if ok a && ok b && ok c && ok d then
    pure (.array [g a, g b, g c, g d, 0, b2n a.isSome <<< 3 ||| b2n b.isSome <<< 2 ||| b2n c.isSome <<< 1 ||| b2n d.isSome])
  else .error .conv

/-- colour + brightness part shared by DPT 242/243 -/
def encColorBright (fs : List (String × Atom)) : M (List Nat × Nat) := do
  let (xa, ya, cv) ← match ← getAtom fs "color" with
    | .none => pure (0, 0, false)
    | .pair a b => do let x ← axisEncode a; let y ← axisEncode b; pure (x, y, true)
    | _ => .error .conv
  let (br, bv) ← match ← getOptInt fs "brightness" with
    | none => pure (0, false)
    | some v => if byteOk v then pure (v.toNat, true) else .error .conv
  pure ([xa >>> 8, xa % 256, ya >>> 8, ya % 256, br], b2n cv <<< 1 ||| b2n bv)

def encXYY (_r : Row) (fs : List (String × Atom)) : M Payload := do
  let (bs, fl) ← encColorBright fs
  pure (.array (bs ++ [fl]))

def encXYYTrans (_r : Row) (fs : List (String × Atom)) : M Payload := do
  let ft ← match ← getAtom fs "fade_time" with | .flt t => fadeEncode t | .int i => fadeEncode (F.ofInt i) | _ => .error .conv
  let (bs, fl) ← encColorBright fs
  pure (.array ([ft >>> 8, ft % 256] ++ bs ++ [fl]))

def encCTTrans (_r : Row) (fs : List (String × Atom)) : M Payload := do
  let (ft, fv) ← match ← getAtom fs "fade_time" with
    | .none => pure (0, false)
    | .flt t => do let k ← fadeEncode t; pure (k, true)
    | .int i => do let k ← fadeEncode (F.ofInt i); pure (k, true)
    | _ => .error .conv
  let (ct, cv) ← match ← getOptInt fs "color_temperature" with
    | none => pure (0, false)
    | some v => if 0 ≤ v && v ≤ 65535 then pure (v.toNat, true) else .error .conv
  let (br, bv) ← match ← getOptInt fs "brightness" with
    | none => pure (0, false)
    | some v => if byteOk v then pure (v.toNat, true) else .error .conv
  pure (.array [ft >>> 8, ft % 256, ct >>> 8, ct % 256, br, b2n fv <<< 2 ||| b2n cv <<< 1 ||| b2n bv])

/-- octets of the fields + validity flags (most significant = first field) -/
def encRel (r : Row) (fs : List (String × Atom)) (names : List String) (withFlags : Bool) : M Payload := do
  let t := r.enumTable "control"
  let atoms ← names.mapM (getAtom fs)
  let bytes ← atoms.mapM (packDim t)
  let flags := atoms.foldl (fun acc a => acc * 2 + b2n (a != .none)) 0
  pure (.array (if withFlags then bytes ++ [flags] else bytes))

def encTariffEnergy (ctx : Ctx) (_r : Row) (fs : List (String × Atom)) : M Payload := do
  let e ← getOptInt fs "energy"; let t ← getOptInt fs "tariff"
  let eb ← match e with
    | some v => (match ← encStructInt ctx.activeEnergy (.int v) with | .array bs => pure bs | _ => .error (.other "model"))
    | none => pure [0, 0, 0, 0]
  let tb ← match t with
    | some v => (match ← encU8 ctx.tariff (.int v) with | .array bs => pure bs | _ => .error (.other "model"))
    | none => pure [0]
  pure (.array (eb ++ tb ++ [b2n e.isNone <<< 1 ||| b2n t.isNone]))

/-- `T.to_knx(v)` for a Python number (numeric families) -/
def encodeNum (r : Row) (v : PyNum) : M Payload :=
  match r.family with
  | .structint => encStructInt r v
  | .u16 => encU16 r v
  | .s16 => encS16 r v
  | .f16 => encF16 r v
  | .f32 => encF32 r v
  | .u8 => encU8 r v
  | .scaling => encScaling r v
  | .s8 => encS8 r v
  | .scenenum => encSceneNum r v
  | _ => .error (.other "model")

/-- `T._to_knx(v)` for a dataclass value of the complex families -/
def encodeObj (ctx : Ctx) (r : Row) (fs : List (String × Atom)) : M Payload :=
  match r.family with
  | .binctl => encBinCtl r fs
  | .ctldim | .ctlblinds => encCtl4 r fs
  | .scenectl => encSceneCtl ctx r fs
  | .time => encTime r fs
  | .date => encDate r fs
  | .datetime => encDateTime r fs
  | .hvacstatus => encHVACStatus r fs
  | .rgb => encRGB r fs
  | .rgbw => encRGBW r fs
  | .xyy => encXYY r fs
  | .xyytrans => encXYYTrans r fs
  | .cttrans => encCTTrans r fs
  | .ctctl => encRel r fs ["color_temperature", "brightness"] true
  | .relrgb => encRel r fs ["red", "green", "blue"] false
  | .relrgbw => encRel r fs ["red", "green", "blue", "white"] true
  | .relxyy => encRel r fs ["saturation", "colour", "brightness"] true
  | .tariffenergy => encTariffEnergy ctx r fs
  | _ => .error (.other "model")

/-- `T.to_knx(v)` for a value that `from_knx` returned -/
def encodeVal (ctx : Ctx) (r : Row) (v : Val) : M Payload :=
  match v with
  | .atom (.int i) => encodeNum r (.int i)
  | .atom (.flt f) => encodeNum r (.flt f)
  | .atom (.str s) => if r.family == .string then encString r s else .error (.other "model")
  | .atom (.enum n) => if r.family == .enum then encEnumMember r n else .error (.other "model")
  | .atom _ => .error (.other "model")
  | .obj fs => encodeObj ctx r fs

/-! ## JSON form -/

def atomToJ : Atom → Option J
  | .none => some .null
  | .bool b => some (.bool b)
  | .int i => some (.int i)
  | .flt f => some (.flt f)
  | .str s => some (.str s)
  | .enum n => some (.str (lowerName n))
  | _ => none

/-- as_dict of DPT 242/243 values: the colour tuple is flattened into x_axis / y_axis -/
def dictXYY (fs : List (String × Atom)) : Option (List (String × J)) :=
  (fs.mapM fun ((k, a) : String × Atom) =>
    (match k, a with
     | "color", .pair x y => some [("x_axis", J.flt x), ("y_axis", J.flt y)]
     | "color", .none => some [("x_axis", J.null), ("y_axis", J.null)]
     | _, a => (atomToJ a).map fun j => [(k, j)] : Option (List (String × J)))).map List.flatten

/-- `_RelativeControlDimming.as_dict`: `<name>_control` / `<name>_step_code` per field -/
def dictRel (fs : List (String × Atom)) : Option (List (String × J)) :=
  (fs.mapM fun ((k, a) : String × Atom) =>
    (match a with
     | .dim c s => some [(k ++ "_control", J.str (lowerName c)), (k ++ "_step_code", J.int s)]
     | .none => some [(k ++ "_control", J.null), (k ++ "_step_code", J.null)]
     | _ => none : Option (List (String × J)))).map List.flatten

/-- `v.as_dict()` for dataclass values, `v.name.lower()` for enum members -/
def asForm (r : Row) (v : Val) : Option JForm :=
  match r.family, v with
  | .enum, .atom (.enum n) => some (.name (lowerName n))
  | .xyy, .obj fs | .xyytrans, .obj fs => (dictXYY fs).map .dict
  | .ctctl, .obj fs | .relrgb, .obj fs | .relrgbw, .obj fs | .relxyy, .obj fs => (dictRel fs).map .dict
  | _, .obj fs => (fs.mapM fun ((k, a) : String × Atom) => (atomToJ a).map fun j => (k, j)).map .dict
  | _, _ => none

/-- `int(x)` on a JSON leaf inside `from_dict` (ValueError/TypeError ⇒ conversion error) -/
def jInt : J → M Int
  | .int i => .ok i
  | .bool b => .ok (if b then 1 else 0)
  | .flt f => (match f.toIntTrunc with | .ok i => .ok i | .error _ => .error .conv)
  | _ => .error .conv

def jFloat : J → M F
  | .int i => (match F.ofInt? i with | some f => .ok f | none => .error .conv)
  | .bool b => .ok (F.ofInt (if b then 1 else 0))
  | .flt f => .ok f
  | _ => .error .conv

def jOptInt (o : Option J) : M Atom :=
  match o with
  | none | some .null => .ok .none
  | some j => do let i ← jInt j; pure (.int i)

def jReq (d : List (String × J)) (k : String) : M J :=
  match jget d k with | some j => .ok j | none => .error .conv

def jBoolStrict : J → M Bool
  | .bool b => .ok b
  | _ => .error .conv

/-- `x in (True, False)`: bools and the ints 0/1 -/
def jBoolLoose : J → M Atom
  | .bool b => .ok (.bool b)
  | .int 0 => .ok (.int 0)
  | .int 1 => .ok (.int 1)
  | _ => .error .conv

def jEnum (t : EnumTable) (j : J) : M Atom :=
  match enumParseJ t j with | some (n, _) => .ok (.enum n) | none => .error .conv

/-- x/y axes + brightness of DPT 242/243 `from_dict` -/
def jColorBright (d : List (String × J)) : M (Atom × Atom) := do
  let nn (o : Option J) : Option J := match o with | some .null => none | o => o
  let color ← match nn (jget d "x_axis"), nn (jget d "y_axis") with
    | some x, some y => do let a ← jFloat x; let b ← jFloat y; pure (Atom.pair a b)
    | none, none => pure Atom.none
    | _, _ => .error .conv
  let br ← jOptInt (jget d "brightness")
  pure (color, br)

def jRel (t : EnumTable) (d : List (String × J)) (names : List String) (required : Bool) : M (List (String × Atom)) :=
  names.mapM fun k => do
    let nn (o : Option J) : Option J := match o with | some .null => none | o => o
    match nn (jget d (k ++ "_control")), nn (jget d (k ++ "_step_code")) with
    | some c, some s => do
      let ce ← jEnum t c
      let si ← jInt s
      match ce with | .enum n => pure (k, Atom.dim n si) | _ => .error .conv
    | none, none => if required then .error .conv else pure (k, Atom.none)
    | _, _ => .error .conv

/-- `data_type.from_dict(d)` -/
def fromDict (r : Row) (d : List (String × J)) : M (List (String × Atom)) :=
  match r.family with
  | .binctl => do
    let c ← jReq d "control"; let v ← jReq d "value"
    let ve ← jEnum (r.enumTable "data") v
    let cb ← jBoolLoose c
    pure [("control", cb), ("value", ve)]
  | .ctldim | .ctlblinds => do
    let c ← jReq d "control"; let s ← jReq d "step_code"
    let ce ← jEnum (r.enumTable "control") c
    let si ← jInt s
    pure [("control", ce), ("step_code", .int si)]
  | .scenectl => do
    let n ← jReq d "scene_number"
    let ni ← jInt n
    let learn ← match jget d "learn" with | none => pure (Atom.bool false) | some j => jBoolLoose j
    let lb := match learn with | .int 1 => Atom.bool true | .int 0 => Atom.bool false | a => a
    pure [("scene_number", .int ni), ("learn", lb)]
  | .time => do
    let h ← (jReq d "hour").bind jInt; let m ← (jReq d "minutes").bind jInt; let s ← (jReq d "seconds").bind jInt
    let day ← match jget d "day" with
      | none => (match enumOfValue (r.enumTable "day") 0 with | some n => pure (Atom.enum n) | none => .error (.other "model"))
      | some j => jEnum (r.enumTable "day") j
    pure [("hour", .int h), ("minutes", .int m), ("seconds", .int s), ("day", day)]
  | .date => do
    let y ← (jReq d "year").bind jInt; let m ← (jReq d "month").bind jInt; let dd ← (jReq d "day").bind jInt
    pure [("year", .int y), ("month", .int m), ("day", .int dd)]
  | .datetime => do
    -- cls(**_data): unknown keys are a TypeError; values are taken as they are
    let names := ["year", "month", "day", "hour", "minutes", "seconds", "day_of_week", "fault", "working_day", "dst",
                  "external_sync", "source_reliable"]
    if d.any fun (k, _) => !names.contains k then .error .conv
    else
      let dow ← match jget d "day_of_week" with
        | none | some .null => pure Atom.none
        | some j => jEnum (r.enumTable "day_of_week") j
      let plain (k : String) (dflt : Atom) : Atom :=
        match jget d k with
        | none => dflt
        | some .null => .none
        | some (.bool b) => .bool b
        | some (.int i) => .int i
        | some (.flt f) => .flt f
        | some (.str s) => .str s
      pure [("year", plain "year" .none), ("month", plain "month" .none), ("day", plain "day" .none),
            ("hour", plain "hour" .none), ("minutes", plain "minutes" .none), ("seconds", plain "seconds" .none),
            ("day_of_week", dow), ("fault", plain "fault" (.bool false)), ("working_day", plain "working_day" .none),
            ("dst", plain "dst" (.bool false)), ("external_sync", plain "external_sync" (.bool false)),
            ("source_reliable", plain "source_reliable" (.bool false))]
  | .hvacstatus => do
    let m ← jReq d "mode"; let hc ← jReq d "heat_cool"
    let me ← match m with | .str s => (match enumParseName (r.enumTable "mode") s with | some (n, _) => pure (Atom.enum n) | none => .error .conv) | _ => .error .conv
    let he ← match hc with | .str s => (match enumParseName (r.enumTable "heat_cool") s with | some (n, _) => pure (Atom.enum n) | none => .error .conv) | _ => .error .conv
    let dew ← (jReq d "dew_point").bind jBoolStrict
    let ina ← (jReq d "inactive").bind jBoolStrict
    let fr ← (jReq d "frost_alarm").bind jBoolStrict
    pure [("mode", me), ("dew_point", .bool dew), ("heat_cool", he), ("inactive", .bool ina), ("frost_alarm", .bool fr)]
  | .rgb => do
    let a ← (jReq d "red").bind jInt; let b ← (jReq d "green").bind jInt; let c ← (jReq d "blue").bind jInt
    pure [("red", .int a), ("green", .int b), ("blue", .int c)]
  | .rgbw => do
    let a ← jOptInt (jget d "red"); let b ← jOptInt (jget d "green"); let c ← jOptInt (jget d "blue"); let w ← jOptInt (jget d "white")
    pure [("red", a), ("green", b), ("blue", c), ("white", w)]
  | .xyy => do
    let (color, br) ← jColorBright d
    pure [("color", color), ("brightness", br)]
  | .xyytrans => do
    let (color, br) ← jColorBright d
    let ft ← (jReq d "fade_time").bind jFloat
    pure [("fade_time", .flt ft), ("color", color), ("brightness", br)]
  | .cttrans => do
    let ct ← jOptInt (jget d "color_temperature"); let br ← jOptInt (jget d "brightness")
    let ft ← match jget d "fade_time" with
      | none | some .null => pure Atom.none
      | some j => do let f ← jFloat j; pure (Atom.flt f)
    pure [("fade_time", ft), ("color_temperature", ct), ("brightness", br)]
  | .ctctl => jRel (r.enumTable "control") d ["color_temperature", "brightness"] false
  | .relrgb => jRel (r.enumTable "control") d ["red", "green", "blue"] true
  | .relrgbw => jRel (r.enumTable "control") d ["red", "green", "blue", "white"] false
  | .relxyy => jRel (r.enumTable "control") d ["saturation", "colour", "brightness"] false
  | .tariffenergy => do
    let e ← jOptInt (jget d "energy"); let t ← jOptInt (jget d "tariff")
    pure [("energy", e), ("tariff", t)]
  | _ => .error (.other "model")

/-- errors inside `DPTComplex.to_knx` are all re-raised as ConversionError -/
def complexErr {α} : M α → M α
  | .error (.other "model") => .error (.other "model")
  | .error (.other "unmodelled") => .error (.other "unmodelled")
  | .error _ => .error .conv
  | .ok a => .ok a

/-- `T.to_knx(form)` for the JSON form (dict for complex types, name for enums) -/
def encodeJson (ctx : Ctx) (r : Row) (j : JForm) : M Payload :=
  match r.family, j with
  | .enum, .name s =>
    match enumParseName (r.enumTable "data") s with
    | some (_, v) => encEnumValue r v
    | none => .error .conv
  | .enum, .dict _ => .error .conv
  | _, .dict d => complexErr ((fromDict r d).bind (encodeObj ctx r))
  | _, .name _ => .error .conv

end XknxVerif.DPT
