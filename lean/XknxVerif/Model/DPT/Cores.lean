/-
Executable predicates ("cores") that the chunked `decide +kernel` sweeps (XknxVerif/Sweep/*) evaluate, and
nothing else: the sweep shards import only this file, so that editing lemma files does not invalidate them.
Core Lean only.
-/
import XknxVerif.Model.DPT.CoresNum
import XknxVerif.Generated.DPTTable

namespace XknxVerif.DPT
open XknxVerif.SF

/-- number of raw items `validate_payload` hands to the decoder -/
def rawLen (r : Row) : Nat := match r.kind with | .array => r.length | .binary => 1

/-- the documented exception of the text types: bytes that cannot be decoded (U+FFFD) come back as '?' -/
def expected (r : Row) (v : Val) : Val :=
  match r.family, v with
  | .string, .atom (.str s) => .atom (.str (s.map fun c => if c == 0xFFFD then 0x3F else c))
  | _, v => v

/-- executable form of `RT` -/
def rtB (ctx : Ctx) (r : Row) (p : Payload) : Bool :=
  match decode ctx r p with
  | .ok v =>
    (match encodeVal ctx r v with
     | .ok p' => decode ctx r p' == .ok (expected r v)
     | .error _ => false)
  | .error _ => true

/-- 16 of the 256 one-octet payloads / 16 of the 64 six-bit payloads (small chunks: kernel evaluation of one big
conjunction is super-linear) -/
def rt1ChunkA (ctx : Ctx) (r : Row) (k : Nat) : Bool := (List.range 16).all fun j => rtB ctx r (.array [16 * k + j])
def rt1ChunkB (ctx : Ctx) (r : Row) (k : Nat) : Bool := (List.range 16).all fun j => rtB ctx r (.binary (16 * k + j))

/-- the rows other codecs delegate to, taken from the generated table -/
def tableCtx : Ctx := Ctx.ofTable Generated.table

/-- classes whose decoder sees a single item (a 6 bit value or one octet) -/
def oneItemRows : List Row := Generated.table.filter fun r => rawLen r == 1

/-- chunk `k` of the complete enumeration of the one-item classes: 16 one-octet payloads × every such class -/
def oneItemChunkA (k : Nat) : Bool := oneItemRows.all fun r => rt1ChunkA tableCtx r k
/-- … 16 six-bit payloads × every such class -/
def oneItemChunkB (k : Nat) : Bool := oneItemRows.all fun r => rt1ChunkB tableCtx r k

end XknxVerif.DPT
