/-
Executable predicates ("cores") that the chunked `decide +kernel` sweeps (XknxVerif/Sweep/*) evaluate, and
nothing else: the sweep shards import only this file, so that editing lemma files does not invalidate them.
Core Lean only.
-/
import XknxVerif.Model.DPT.Codec
import XknxVerif.Generated.DPTParams
import XknxVerif.Generated.DPTTable

namespace XknxVerif.DPT
open XknxVerif.SF

/-- number of raw items `validate_payload` hands to the decoder -/
def rawLen (r : Row) : Nat := match r.kind with | .array => r.length | .binary => 1

/-- the documented exception of the text types: bytes that cannot be decoded (U+FFFD) come back as '?' -/
def expected (r : Row) (v : Val) : Val :=
  match r.family, v with
  | .string, .atom (.str s) => .atom (.str (s.map fun c => if c == 0xFFFD then 0x3F else c))
  | _, v => v

/-- executable form of `RT` -/
def rtB (ctx : Ctx) (r : Row) (p : Payload) : Bool :=
  match decode ctx r p with
  | .ok v =>
    (match encodeVal ctx r v with
     | .ok p' => decode ctx r p' == .ok (expected r v)
     | .error _ => false)
  | .error _ => true

/-- 16 of the 256 one-octet payloads / 16 of the 64 six-bit payloads (small chunks: kernel evaluation of one big
conjunction is super-linear) -/
def rt1ChunkA (ctx : Ctx) (r : Row) (k : Nat) : Bool := (List.range 16).all fun j => rtB ctx r (.array [16 * k + j])
def rt1ChunkB (ctx : Ctx) (r : Row) (k : Nat) : Bool := (List.range 16).all fun j => rtB ctx r (.binary (16 * k + j))

/-- the declared parameters every sweep ranges over -/
def s16Params (r : Row) : PyNum × PyNum × PyNum := (r.vmin, r.vmax, r.res)

/-- numeric core of the DPT 8 round trip: raw → value → raw -/
def s16Core (P : PyNum × PyNum × PyNum) (i : Int) : Bool :=
  s16Raw P.1 P.2.1 P.2.2 (s16Value P.2.2 i) == .ok i

/-- value of a 16 bit word -/
def f16Word (data : Nat) : F := f16Value (f16Parts data).1 (f16Parts data).2

/-- numeric core of the DPT 9 round trip for a decoded value `v`: the encoder's candidate mantissa reproduces
`v` exactly (so the range guard of fix a5afb5f never fires on decoded values) and the octets decode to `v` -/
def f16CoreV (v : F) : Bool :=
  match f16Pre v with
  | .fail => false
  | .zero => f16Word 0 == v
  | .cand k' e m0 _ =>
    f16Value m0 e == v &&
      (match f16Finish m0 e k' with
       | [x, y] => decide (x < 256) && decide (y < 256) && f16Word (x * 256 + y) == v
       | _ => false)

def f16Core (data : Nat) : Bool := f16CoreV (f16Word data)

/-- the rows other codecs delegate to, taken from the generated table -/
def tableCtx : Ctx := Ctx.ofTable Generated.table

/-- classes whose decoder sees a single item (a 6 bit value or one octet) -/
def oneItemRows : List Row := Generated.table.filter fun r => rawLen r == 1

/-- chunk `k` of the complete enumeration of the one-item classes: 16 one-octet payloads × every such class -/
def oneItemChunkA (k : Nat) : Bool := oneItemRows.all fun r => rt1ChunkA tableCtx r k
/-- … 16 six-bit payloads × every such class -/
def oneItemChunkB (k : Nat) : Bool := oneItemRows.all fun r => rt1ChunkB tableCtx r k

/-- two's complement reading of a 16 bit word -/
def toS16 (n : Nat) : Int := if n ≥ 32768 then (n : Int) - 65536 else (n : Int)

/-- DPT 8 parameter tuples whose resolution is a float (DPTPercentV16): their round trip goes through inexact
binary64 arithmetic and is established by the kernel sweep below -/
def s16FloatParams : List (PyNum × PyNum × PyNum) :=
  Generated.s16ParamList.filter fun P => match P.2.2 with | .flt _ => true | .int _ => false

/-- chunk `k` (64 raw words) of the DPT 8 sweep, over every float-resolution parameter tuple -/
def s16Chunk (k : Nat) : Bool :=
  s16FloatParams.all fun P => (List.range 64).all fun j => s16Core P (toS16 (64 * k + j))

/-- chunk `k` (256 words) of the DPT 9 numeric core -/
def f16Chunk (k : Nat) : Bool := (List.range 256).all fun j => f16Core (256 * k + j)

end XknxVerif.DPT
