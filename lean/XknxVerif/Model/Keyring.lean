/-
Model of xknx/secure/keyring.py (C31): the signature-input builder
(`KeyringSAXContentHandler`), `verify_keyring_signature`'s decision,
`extract_password`, `decrypt_aes128cbc` (CBC chaining over an abstract block
decryption), and the Data Secure tables (`get_data_secure_group_keys`,
`get_data_secure_senders`).

Strings are the UTF-8 octets of the Python `str` (`Bytes = List Nat`).
Outside the model (parameters supplied by the harness): XML/SAX parsing (the
model starts from the SAX event stream the real handler receives),
PBKDF2-HMAC-SHA256 (`hashed` = its 16-octet output), SHA-256 (`H`), AES-128
block decryption (`D`).
Core Lean only.
-/
import XknxVerif.Py.Bytes
import XknxVerif.Generated.Keyring

namespace XknxVerif.Keyring

inductive Err where
  | value    -- ValueError (bytearray.append(n ≥ 256); cryptography: data not a multiple of the block length)
  | decode   -- UnicodeDecodeError
  deriving DecidableEq, Repr

abbrev Attrs := List (Bytes × Bytes)

/-! ### Python ordering of `str` (= code-point order = UTF-8 octet order) and of `(str, str)` tuples -/

/-- `a <= b` on octet strings, lexicographic. -/
def bytesLe : Bytes → Bytes → Bool
  | [], _ => true
  | _ :: _, [] => false
  | a :: as, b :: bs => if a < b then true else if b < a then false else bytesLe as bs

/-- `(k1, v1) <= (k2, v2)` as Python compares tuples. -/
def pairLe (a b : Bytes × Bytes) : Bool :=
  if a.1 = b.1 then bytesLe a.2 b.2 else bytesLe a.1 b.1

def insertAttr (a : Bytes × Bytes) : Attrs → Attrs
  | [] => [a]
  | b :: r => if pairLe a b then a :: b :: r else b :: insertAttr a r

/-- `sorted(attrs.items())` (the order is total and XML attribute names are unique, so every sorting
algorithm gives the same list; insertion sort is used because the kernel can evaluate it) -/
def sortAttrs (as : Attrs) : Attrs := as.foldr insertAttr []

def blacklist : List Bytes := Generated.Keyring.blacklist

/-- the attributes that are hashed, in hashing order: sorted, blacklist removed -/
def normAttrs (as : Attrs) : Attrs := (sortAttrs as).filter fun kv => !blacklist.contains kv.1

/-! ### The pure encoding -/

/-- `append_string` : one length octet, then the octets -/
def encStr (s : Bytes) : Bytes := s.length :: s

def encAttrs : Attrs → Bytes
  | [] => []
  | (k, v) :: r => encStr k ++ (encStr v ++ encAttrs r)

mutual
  /-- element: name, attributes in document order, child elements -/
  inductive Tree where
    | node (name : Bytes) (attrs : Attrs) (kids : Forest)
  inductive Forest where
    | nil
    | cons (t : Tree) (ts : Forest)
end

deriving instance DecidableEq for Tree, Forest

mutual
  /-- hashed octets of an element: `01 len name (len k len v)* children 02` -/
  def encT : Tree → Bytes
    | .node n as ks => 1 :: (encStr n ++ (encAttrs (normAttrs as) ++ (encF ks ++ [2])))
  def encF : Forest → Bytes
    | .nil => []
    | .cons t ts => encT t ++ encF ts
end

mutual
  /-- what the hash can see of a tree: attributes sorted, blacklisted ones dropped -/
  def normT : Tree → Tree
    | .node n as ks => .node n (normAttrs as) (normF ks)
  def normF : Forest → Forest
    | .nil => .nil
    | .cons t ts => .cons (normT t) (normF ts)
end

/-! ### base64 (standard alphabet, padded) -/

def b64Alphabet : List Nat :=
  [65,66,67,68,69,70,71,72,73,74,75,76,77,78,79,80,81,82,83,84,85,86,87,88,89,90,
   97,98,99,100,101,102,103,104,105,106,107,108,109,110,111,112,113,114,115,116,117,118,119,120,121,122,
   48,49,50,51,52,53,54,55,56,57,43,47]

def b64Char (i : Nat) : Nat := b64Alphabet.getD i 0

/-- `base64.b64encode` -/
def b64encode : Bytes → Bytes
  | [] => []
  | [a] => [b64Char (a / 4), b64Char (a % 4 * 16), 61, 61]
  | [a, b] => [b64Char (a / 4), b64Char (a % 4 * 16 + b / 16), b64Char (b % 16 * 4), 61]
  | a :: b :: c :: rest =>
    b64Char (a / 4) :: b64Char (a % 4 * 16 + b / 16) :: b64Char (b % 16 * 4 + c / 64) :: b64Char (c % 64)
      :: b64encode rest

/-! ### The SAX content handler, event by event (mirrors the code) -/

inductive Event where
  | start (name : Bytes) (attrs : Attrs)   -- startElement(name, attrs); attrs in document order
  | stop                                   -- endElement
  deriving DecidableEq, Repr

/-- `append_string(value)`: `output.append(len(value))` raises ValueError for len ≥ 256 -/
def appendString (out s : Bytes) : Except Err Bytes :=
  if s.length < 256 then .ok (out ++ encStr s) else .error .value

def appendAttrs (out : Bytes) : Attrs → Except Err Bytes
  | [] => .ok out
  | (k, v) :: r =>
    if blacklist.contains k then appendAttrs out r
    else match appendString out k with
      | .error e => .error e
      | .ok o1 => match appendString o1 v with
        | .error e => .error e
        | .ok o2 => appendAttrs o2 r

def step (out : Bytes) : Event → Except Err Bytes
  | .start name attrs =>
    match appendString (out ++ [1]) name with
    | .error e => .error e
    | .ok o => appendAttrs o (sortAttrs attrs)
  | .stop => .ok (out ++ [2])

def runEvents (out : Bytes) : List Event → Except Err Bytes
  | [] => .ok out
  | e :: es => match step out e with
    | .error err => .error err
    | .ok o => runEvents o es

/-- `handler.output` after `parser.parse(file)`: all events, then `endDocument` appends
`base64(hashed_password)`. -/
def handlerOutput (evs : List Event) (hashed : Bytes) : Except Err Bytes :=
  match runEvents [] evs with
  | .error e => .error e
  | .ok o => appendString o (b64encode hashed)

mutual
  /-- the SAX events of an element -/
  def eventsT : Tree → List Event
    | .node n as ks => .start n as :: (eventsF ks ++ [.stop])
  def eventsF : Forest → List Event
    | .nil => []
    | .cons t ts => eventsT t ++ eventsF ts
end

/-- the signature input for a tree and a hashed password -/
def sigInput (t : Tree) (hashed : Bytes) : Bytes := encT t ++ encStr (b64encode hashed)

/-- `verify_keyring_signature`: `sha256_hash(handler.output)[:16] == signature` with the hash a parameter. -/
def verify (H : Bytes → Bytes) (evs : List Event) (hashed sig : Bytes) : Except Err Bool :=
  match handlerOutput evs hashed with
  | .error e => .error e
  | .ok o => .ok ((H o).take 16 == sig)

/-! ### A parser for the hashed octets (used to prove injectivity) -/

def takeStr : Bytes → Option (Bytes × Bytes)
  | [] => none
  | n :: bs => if n ≤ bs.length then some (bs.take n, bs.drop n) else none

/-- attributes up to the next `01` (child) / `02` (end) octet -/
def decAttrs : Nat → Bytes → Option (Attrs × Bytes)
  | 0, _ => none
  | _ + 1, [] => some ([], [])
  | f + 1, b :: bs =>
    if b = 1 ∨ b = 2 then some ([], b :: bs) else
    match takeStr (b :: bs) with
    | none => none
    | some (k, r1) => match takeStr r1 with
      | none => none
      | some (v, r2) => match decAttrs f r2 with
        | none => none
        | some (as, r3) => some ((k, v) :: as, r3)

mutual
  def decT : Nat → Bytes → Option (Tree × Bytes)
    | 0, _ => none
    | f + 1, bs => match bs with
      | 1 :: r0 => match takeStr r0 with
        | none => none
        | some (name, r1) => match decAttrs (r1.length + 1) r1 with
          | none => none
          | some (attrs, r2) => match decF f r2 with
            | none => none
            | some (kids, r3) => match r3 with
              | 2 :: r4 => some (.node name attrs kids, r4)
              | _ => none
      | _ => none
  def decF : Nat → Bytes → Option (Forest × Bytes)
    | 0, _ => none
    | f + 1, bs => match bs with
      | 1 :: r0 => match decT f (1 :: r0) with
        | none => none
        | some (t, r1) => match decF f r1 with
          | none => none
          | some (ts, r2) => some (.cons t ts, r2)
      | _ => some (.nil, bs)
end

/-- parse one element off the front of the hashed octets -/
def decodeTree (bs : Bytes) : Option (Tree × Bytes) := decT bs.length bs

/-! ### `extract_password` -/

/-- strict UTF-8 validity as CPython's decoder checks it (no overlongs, no surrogates, ≤ U+10FFFF) -/
def utf8Valid : Bytes → Bool
  | [] => true
  | a :: rest =>
    if a < 0x80 then utf8Valid rest
    else if 0xC2 ≤ a ∧ a ≤ 0xDF then
      match rest with
      | b :: r => (0x80 ≤ b && b ≤ 0xBF) && utf8Valid r
      | _ => false
    else if 0xE0 ≤ a ∧ a ≤ 0xEF then
      match rest with
      | b :: c :: r =>
        let lo := if a = 0xE0 then 0xA0 else 0x80
        let hi := if a = 0xED then 0x9F else 0xBF
        (lo ≤ b && b ≤ hi) && (0x80 ≤ c && c ≤ 0xBF) && utf8Valid r
      | _ => false
    else if 0xF0 ≤ a ∧ a ≤ 0xF4 then
      match rest with
      | b :: c :: d :: r =>
        let lo := if a = 0xF0 then 0x90 else 0x80
        let hi := if a = 0xF4 then 0x8F else 0xBF
        (lo ≤ b && b ≤ hi) && (0x80 ≤ c && c ≤ 0xBF) && (0x80 ≤ d && d ≤ 0xBF) && utf8Valid r
      | _ => false
    else false

/-- `data[8:-length]` with `length = data[-1]` (Python: `-0` is `0`, so the slice is empty then;
a `length` beyond the data clamps to 0). -/
def extractRaw (data : Bytes) : Bytes :=
  match data.getLast? with
  | none => []
  | some l =>
    let hi := if l = 0 then 0 else data.length - l
    Bytes.slice data 8 hi

/-- `extract_password(data)`; the result is the UTF-8 octets of the returned `str`. -/
def extractPassword (data : Bytes) : Except Err Bytes :=
  let r := extractRaw data
  if utf8Valid r then .ok r else .error .decode

/-- the plaintext layout ETS uses: 8 octets of salt, the password, `n` octets of value `n` -/
def padPassword (salt pw : Bytes) (n : Nat) : Bytes := salt ++ (pw ++ List.replicate n n)

/-! ### AES-128-CBC decryption over an abstract block decryption `D` -/

def xorBytes (a b : Bytes) : Bytes := List.zipWith (· ^^^ ·) a b

def cbcDecBlocks (D : Bytes → Bytes) : Bytes → List Bytes → List Bytes
  | _, [] => []
  | iv, c :: cs => xorBytes (D c) iv :: cbcDecBlocks D c cs

def cbcEncBlocks (E : Bytes → Bytes) : Bytes → List Bytes → List Bytes
  | _, [] => []
  | iv, p :: ps => let c := E (xorBytes p iv); c :: cbcEncBlocks E c ps

/-- split into 16-octet blocks (fuel = length suffices) -/
def chunks16 : Nat → Bytes → List Bytes
  | 0, _ => []
  | _ + 1, [] => []
  | f + 1, b :: bs => (b :: bs).take 16 :: chunks16 f ((b :: bs).drop 16)

def blocks (bs : Bytes) : List Bytes := chunks16 bs.length bs

/-- `decrypt_aes128cbc(data, key, iv)` with `D = AES-128⁻¹_key`; the decryptor's `finalize()` raises
ValueError when the data is not a whole number of blocks. -/
def cbcDecrypt (D : Bytes → Bytes) (iv data : Bytes) : Except Err Bytes :=
  if data.length % 16 = 0 then .ok (cbcDecBlocks D iv (blocks data)).flatten else .error .value

def cbcEncrypt (E : Bytes → Bytes) (iv data : Bytes) : Bytes :=
  (cbcEncBlocks E iv (blocks data)).flatten

/-! ### Data Secure tables (Python dict semantics: last assignment wins) -/

abbrev Dict (ν : Type) := List (Nat × ν)

def Dict.get? {ν} (d : Dict ν) (k : Nat) : Option ν := (d.find? (·.1 == k)).map (·.2)

/-- `d[k] = v` : replace in place, else append -/
def Dict.set {ν} : Dict ν → Nat → ν → Dict ν
  | [], k, v => [(k, v)]
  | (k', v') :: r, k, v => if k' == k then (k', v) :: r else (k', v') :: Dict.set r k v

structure Iface where
  ia : Nat
  groups : List (Nat × List Nat)     -- `<Group Address= Senders=>` children in document order
  deriving Repr

structure Grp where
  addr : Nat
  key : Option Bytes                 -- decrypted key (None when the Key attribute is absent/empty)
  deriving Repr

structure Dev where
  ia : Nat
  seq : Nat
  deriving Repr

/-- `XMLInterface.group_addresses` (a dict built by successive assignment) -/
def ifaceGroups (i : Iface) : Dict (List Nat) :=
  i.groups.foldl (fun d g => d.set g.1 g.2) []

/-- `{ga.address: ga.decrypted_key for ga in group_addresses if ga.decrypted_key is not None}` -/
def gaKeyStep (d : Dict Bytes) (g : Grp) : Dict Bytes :=
  match g.key with
  | some k => d.set g.addr k
  | none => d

def gaKeyTable (gs : List Grp) : Dict Bytes := gs.foldl gaKeyStep []

/-- `get_data_secure_group_keys(receiver)` -/
def groupKeys (ifs : List Iface) (gs : List Grp) (receiver : Option Nat) : Dict Bytes :=
  let tbl := gaKeyTable gs
  match receiver with
  | none => tbl
  | some r =>
    match ifs.find? (·.ia == r) with
    | none => []
    | some i => tbl.filter fun kv => ((ifaceGroups i).get? kv.1).isSome

/-- `get_data_secure_senders()` -/
def senders (ifs : List Iface) (ds : List Dev) : Dict Nat :=
  let t0 : Dict Nat := ifs.foldl (fun d i =>
      (ifaceGroups i).foldl (fun d g => g.2.foldl (fun d s => d.set s 0) d) d) []
  ds.foldl (fun d dev => d.set dev.ia dev.seq) t0

/-! ### Line protocol -/

def errName : Err → String
  | .value => "value"
  | .decode => "decode"

def parseAttr (s : String) : Option (Bytes × Bytes) :=
  match s.splitOn "=" with
  | [k, v] => do
    let k ← bytesOfHex? k
    let v ← bytesOfHex? v
    pure (k, v)
  | _ => none

/-- event token: `S:<namehex>[:<khex>=<vhex>[,<khex>=<vhex>]*]` or `E` -/
def parseEvent (s : String) : Option Event :=
  if s == "E" then some .stop else
  match s.splitOn ":" with
  | ["S", n] => do
    let n ← bytesOfHex? n
    pure (.start n [])
  | ["S", n, as] => do
    let n ← bytesOfHex? n
    let as ← (as.splitOn ",").mapM parseAttr
    pure (.start n as)
  | _ => none

def natList? (s : String) : Option (List Nat) :=
  if s == "-" then some [] else (s.splitOn ",").mapM String.toNat?

/-- `<ia>/<ga>.<s>.<s>/<ga>` : interface with its groups and their senders; `-` for no groups -/
def parseIface (s : String) : Option Iface :=
  match s.splitOn "/" with
  | ia :: gs => do
    let ia ← ia.toNat?
    let gs ← (gs.filter (· ≠ "")).mapM fun g =>
      match g.splitOn "." with
      | a :: ss => do
        let a ← a.toNat?
        let ss ← ss.mapM String.toNat?
        pure (a, ss)
      | [] => none
    pure ⟨ia, gs⟩
  | [] => none

def parseGrp (s : String) : Option Grp :=
  match s.splitOn ":" with
  | [a, k] => do
    let a ← a.toNat?
    if k == "none" then pure ⟨a, none⟩ else do
      let k ← bytesOfHex? k
      pure ⟨a, some k⟩
  | _ => none

def parseDev (s : String) : Option Dev :=
  match s.splitOn ":" with
  | [a, q] => do
    let a ← a.toNat?
    let q ← q.toNat?
    pure ⟨a, q⟩
  | _ => none

def listTok {α} (f : String → Option α) (s : String) : Option (List α) :=
  if s == "-" then some [] else (s.splitOn ";").mapM f

def sortKeys {ν} (d : Dict ν) : Dict ν := d.mergeSort fun a b => a.1 ≤ b.1

def renderDict {ν} (f : ν → String) (d : Dict ν) : String :=
  if d.isEmpty then "-" else ",".intercalate ((sortKeys d).map fun kv => s!"{kv.1}:{f kv.2}")

-- DRIVER: c31 => XknxVerif.Keyring.handle
/-- Line protocol
  `sigin <hashed> <event>*`                 → `<hex of handler.output>` | `err value`
  `verify <hashed> <sig> <digest> <event>*` → `accept` | `reject` | `err value`   (digest = H(handler.output), supplied)
  `extract <hex>`                           → `ok <hex>` | `err decode`
  `cbc <iv> <ct> <D-of-each-ct-block>`      → `ok <hex>` | `err value`
  `b64 <hex>`                               → `<hex>`
  `gkeys <receiver|none> <ifaces> <groups>` → sorted `ga:keyhex,…`
  `senders <ifaces> <devices>`              → sorted `ia:seq,…` -/
def handle : List String → String
  | "sigin" :: h :: evs =>
    match bytesOfHex? h, evs.mapM parseEvent with
    | some h, some evs =>
      match handlerOutput evs h with
      | .ok o => hexOfBytes o
      | .error e => s!"err {errName e}"
    | _, _ => "bad-op"
  | "verify" :: h :: sig :: dig :: evs =>
    match bytesOfHex? h, bytesOfHex? sig, bytesOfHex? dig, evs.mapM parseEvent with
    | some h, some sig, some dig, some evs =>
      match verify (fun _ => dig) evs h sig with
      | .ok true => "accept"
      | .ok false => "reject"
      | .error e => s!"err {errName e}"
    | _, _, _, _ => "bad-op"
  | ["extract", d] =>
    match bytesOfHex? d with
    | some d => match extractPassword d with
      | .ok r => s!"ok {hexOfBytes r}"
      | .error e => s!"err {errName e}"
    | none => "bad-op"
  | ["cbc", iv, ct, dec] =>
    match bytesOfHex? iv, bytesOfHex? ct, bytesOfHex? dec with
    | some iv, some ct, some dec =>
      let tbl := (blocks ct).zip (blocks dec)
      let D := fun c => ((tbl.find? (·.1 == c)).map (·.2)).getD []
      match cbcDecrypt D iv ct with
      | .ok r => s!"ok {hexOfBytes r}"
      | .error e => s!"err {errName e}"
    | _, _, _ => "bad-op"
  | ["b64", d] =>
    match bytesOfHex? d with
    | some d => hexOfBytes (b64encode d)
    | none => "bad-op"
  | ["gkeys", r, ifs, gs] =>
    let recv : Option (Option Nat) := if r == "none" then some none else r.toNat?.map some
    match recv, listTok parseIface ifs, listTok parseGrp gs with
    | some recv, some ifs, some gs => renderDict hexOfBytes (groupKeys ifs gs recv)
    | _, _, _ => "bad-op"
  | ["senders", ifs, ds] =>
    match listTok parseIface ifs, listTok parseDev ds with
    | some ifs, some ds => renderDict toString (senders ifs ds)
    | _, _ => "bad-op"
  | _ => "bad-op"

end XknxVerif.Keyring
