/-
Model of telegram callback dispatch: `TelegramQueue.Callback.is_within_filter`,
`_run_telegram_received_cbs`, `process_telegram_incoming/outgoing`
(xknx/core/telegram_queue.py), on top of the address-filter model of C02.
Core Lean only.
-/
import XknxVerif.Model.AddressFilter

namespace XknxVerif.Callbacks
open XknxVerif.Py XknxVerif.Address XknxVerif.AddressFilter

/-- destination of a telegram -/
inductive Dst where
  | dev (a : DevAddr)          -- GroupAddress / InternalGroupAddress
  | individual (raw : Nat)
  deriving DecidableEq, Repr

structure Telegram where
  outgoing : Bool
  dst : Dst
  deriving DecidableEq, Repr

/-- what a callback does when called (scripted by the harness) -/
structure Behaviour where
  raises : Bool
  /-- registration ids it unregisters while running (itself included or not) -/
  unregisters : List Nat
  deriving DecidableEq, Repr

/-- one registration (`TelegramQueue.Callback`) -/
structure Reg where
  id : Nat
  /-- `address_filters is None and group_addresses is None` -/
  matchAll : Bool
  matchOutgoing : Bool
  filters : List Filter
  addrs : List DevAddr
  beh : Behaviour
  deriving DecidableEq, Repr

/-- `address_filter.match(telegram.destination_address)` for filters of the configured notation;
a filter whose depth does not fit the notation raises in the real code - outside the documented
grammar "in the matching notation", mapped to `false` here and never generated. -/
def filterHit (fmt : Fmt) (f : Filter) (a : DevAddr) : Bool :=
  match matchDev f fmt (some a) with
  | .ok b => b
  | .error _ => false

/-- `Callback.is_within_filter(telegram)` -/
def called (fmt : Fmt) (r : Reg) (t : Telegram) : Bool :=
  if !r.matchOutgoing && t.outgoing then false
  else if r.matchAll then true
  else match t.dst with
    | .dev a => r.filters.any (fun f => filterHit fmt f a) || r.addrs.any (fun g => a == g)
    | .individual _ => false

/-- observable events of processing one telegram -/
inductive Ev where
  | call (id : Nat)
  | devices            -- `xknx.devices.process(telegram)` ran
  deriving DecidableEq, Repr

/-- `_run_telegram_received_cbs`: iterate over a snapshot of the registrations; a raising callback is
caught; returns the calls made and the registration list afterwards. -/
def runCbs (fmt : Fmt) (t : Telegram) : List Reg → List Reg → List Ev × List Reg
  | [], regs => ([], regs)
  | r :: snapshot, regs =>
    if called fmt r t then
      let regs' := regs.filter (fun x => !r.beh.unregisters.contains x.id)
      let (evs, regs'') := runCbs fmt t snapshot regs'
      (.call r.id :: evs, regs'')
    else runCbs fmt t snapshot regs

/-- `process_telegram_incoming` (callbacks, then devices) / `process_telegram_outgoing`
(interface send elided, devices, then callbacks). -/
def process (fmt : Fmt) (regs : List Reg) (t : Telegram) : List Reg × List Ev :=
  let (evs, regs') := runCbs fmt t regs regs
  (regs', if t.outgoing then .devices :: evs else evs ++ [.devices])

/-! ### line protocol -/

def parseDotted (s : String) : Option Str :=
  if s == "" || s == "-" then some [] else (s.splitOn ".").mapM String.toNat?

def parseAddr (s : String) : Option DevAddr :=
  if s.startsWith "g" then (s.drop 1).toString.toNat?.map .ga
  else if s.startsWith "i" then (parseDotted (s.drop 1).toString).map .iga
  else none

def parseFmt : String → Option Fmt
  | "LONG" => some .long | "SHORT" => some .short | "FREE" => some .free | _ => none

def splitNE (s : String) (sep : String) : List String := if s == "-" || s == "" then [] else s.splitOn sep

/-- `id:AO:filters(|-sep dotted texts):addrs(,):beh` with A∈{A,-}, O∈{O,-}, beh = `n` | `r` | `u<id>+<id>` | `ru…` -/
def parseReg (s : String) : Option Reg :=
  match s.splitOn ":" with
  | [id, ao, fs, as, b] => do
    let id ← id.toNat?
    let fl ← (splitNE fs "|").mapM (fun p => do
      let txt ← parseDotted p
      match parseFilter txt with
      | .ok f => some f
      | .error _ => none)
    let al ← (splitNE as ",").mapM parseAddr
    let raises := b.startsWith "r"
    let rest := if raises then (b.drop 1).toString else b
    let un ← if rest.startsWith "u" then (splitNE (rest.drop 1).toString "+").mapM String.toNat? else some []
    pure ⟨id, ao.toList.contains 'A', ao.toList.contains 'O', fl, al, ⟨raises, un⟩⟩
  | _ => none

def parseTelegram (s : String) : Option Telegram :=
  match s.splitOn ":" with
  | [d, a] =>
    if a.startsWith "p" then (a.drop 1).toString.toNat?.map fun n => ⟨d == "O", .individual n⟩
    else (parseAddr a).map fun x => ⟨d == "O", .dev x⟩
  | _ => none

def renderEvs (evs : List Ev) : String :=
  ",".intercalate (evs.map fun | .call i => toString i | .devices => "D")

def runAll (fmt : Fmt) : List Reg → List Telegram → List String
  | _, [] => []
  | regs, t :: ts => let (regs', evs) := process fmt regs t; renderEvs evs :: runAll fmt regs' ts

/-- a step of a history: a telegram, or the owner of a registration replacing the contents of its filter and address
lists in place (`cb.address_filters[:] = …`; the lists are public attributes of the returned `Callback`) -/
inductive Item where
  | tg (t : Telegram)
  | edit (id : Nat) (filters : List Filter) (addrs : List DevAddr)

def editReg (id : Nat) (fs : List Filter) (as : List DevAddr) (r : Reg) : Reg :=
  if r.id == id then { r with filters := fs, addrs := as } else r

def runItems (fmt : Fmt) : List Reg → List Item → List String
  | _, [] => []
  | regs, .tg t :: is => let (regs', evs) := process fmt regs t; renderEvs evs :: runItems fmt regs' is
  | regs, .edit id fs as :: is => "E" :: runItems fmt (regs.map (editReg id fs as)) is

def parseItem (s : String) : Option Item :=
  match s.splitOn ":" with
  | ["E", id, fs, as] => do
    let id ← id.toNat?
    let fl ← (splitNE fs "|").mapM (fun p => do
      let txt ← parseDotted p
      match parseFilter txt with
      | .ok f => some f
      | .error _ => none)
    let al ← (splitNE as ",").mapM parseAddr
    pure (.edit id fl al)
  | _ => (parseTelegram s).map .tg

-- DRIVER: c34 => XknxVerif.Callbacks.handle
/-- `run <fmt> <reg;reg;…|-> <item;item;…>` (item = telegram `I|O:addr` or edit `E:id:filters:addrs`) → per telegram the ordered events (`ids…`, `D` = device processing), `;`-joined -/
def handle : List String → String
  | ["run", f, rs, ts] =>
    match parseFmt f, (splitNE rs ";").mapM parseReg, (splitNE ts ";").mapM parseItem with
    | some fmt, some regs, some items => ";".intercalate (runItems fmt regs items)
    | _, _, _ => "bad-op"
  | _ => "bad-op"

end XknxVerif.Callbacks
