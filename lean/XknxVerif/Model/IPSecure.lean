/-
Model of the KNX IP Secure wrapper cryptography in xknx:

  xknx/secure/security_primitives.py   calculate_message_authentication_code_cbc, encrypt_data_ctr, decrypt_ctr
  xknx/io/ip_secure.py                 _IPSecureTransportLayer.encrypt_frame / decrypt_frame (up to the MAC check),
                                       SecureSession.handshake (SessionResponse / SessionAuthenticate MACs, from
                                       *given* derived keys), SecureSequenceTimer.send_timer_notify /
                                       verify_timer_notify_mac
  xknx/knxip/secure_wrapper.py         SecureWrapper.from_knx / to_knx framing

Everything is generic in a block function `E : key → block → block` (`Crypto.BlockFn`); the driver instantiates
it with `Crypto.AES128.encrypt`.  `Crypto/*.lean` are shared with the Data Secure models (branch b-dsec) and
copied unchanged.  PBKDF2, X25519 and SHA-256 (session key derivation) are parameters: their outputs are inputs here.
Core Lean only.
-/
import XknxVerif.Crypto.CTR
import XknxVerif.Crypto.AES128

namespace XknxVerif.IPSecure
open XknxVerif.Crypto
open XknxVerif.Bytes (ofNatBE toNatBE)

/-- `calculate_message_authentication_code_cbc(key, additional_data, payload, block_0)`:
CBC over `block_0 | len(A) (2 octets) | A | payload`, zero padded, zero IV, last block. -/
def macCbc (E : BlockFn) (key additional payload block0 : Bytes) : Bytes :=
  cbcLast E key (pad16 (block0 ++ ofNatBE 2 additional.length ++ additional ++ payload))

/-- `encrypt_data_ctr(key, counter_0, mac_cbc, payload)` → (encrypted payload, encrypted MAC) -/
def encryptDataCtr (E : BlockFn) (key ctr0 mac payload : Bytes) : Bytes × Bytes := ctrXor2 E key ctr0 mac payload

/-- `decrypt_ctr(key, counter_0, mac, payload)` → (decrypted payload, MAC_TR) -/
def decryptCtr (E : BlockFn) (key ctr0 mac payload : Bytes) : Bytes × Bytes := ctrXor2 E key ctr0 mac payload

/-- The authenticated, unencrypted fields of a SecureWrapper. -/
structure Fields where
  header : Bytes   -- 6 octets KNXnet/IP header of the wrapper
  sid : Bytes      -- 2 octets secure session id
  seq : Bytes      -- 6 octets sequence information
  serial : Bytes   -- 6 octets KNX serial number
  tag : Bytes      -- 2 octets message tag
  deriving DecidableEq, Repr

def Fields.WF (f : Fields) : Prop :=
  f.header.length = 6 ∧ f.sid.length = 2 ∧ f.seq.length = 6 ∧ f.serial.length = 6 ∧ f.tag.length = 2

instance (f : Fields) : Decidable f.WF := by unfold Fields.WF; infer_instance

/-- `B_0 = sequence | serial | tag | len(payload)` -/
def block0 (f : Fields) (q : Nat) : Bytes := f.seq ++ f.serial ++ f.tag ++ ofNatBE 2 q

/-- `Ctr_0 = sequence | serial | tag | ff 00` -/
def ctr0 (f : Fields) : Bytes := f.seq ++ f.serial ++ f.tag ++ [0xff, 0x00]

/-- what goes through the CBC-MAC: `B_0 | len(A) | A | payload` with `A = header | session id` -/
def macInput (f : Fields) (payload : Bytes) : Bytes :=
  block0 f payload.length ++ ofNatBE 2 (f.header ++ f.sid).length ++ (f.header ++ f.sid) ++ payload

def macOf (E : BlockFn) (key : Bytes) (f : Fields) (payload : Bytes) : Bytes :=
  macCbc E key (f.header ++ f.sid) payload (block0 f payload.length)

/-- header of a wrapper around a `q`-octet frame: `06 10 09 50` + total length 38 + q -/
def wrapHeader (q : Nat) : Bytes := [0x06, 0x10, 0x09, 0x50] ++ ofNatBE 2 (38 + q)

/-- `encrypt_frame`: (fields, encrypted payload, encrypted MAC). -/
def encryptFrame (E : BlockFn) (key : Bytes) (sid : Nat) (seq serial tag payload : Bytes) : Fields × Bytes × Bytes :=
  let f : Fields := ⟨wrapHeader payload.length, ofNatBE 2 sid, seq, serial, tag⟩
  let r := encryptDataCtr E key (ctr0 f) (macOf E key f payload) payload
  (f, r.1, r.2)

inductive Err where
  | sid       -- KNXSecureValidationError("Invalid secure session id")
  | mac       -- KNXSecureValidationError("Verification of message authentication code failed")
  | parse     -- not a well-formed SecureWrapper frame (rejected before `decrypt_frame`)
  deriving DecidableEq, Repr

/-- `decrypt_frame` up to and including the MAC comparison: the decrypted inner frame or the error. -/
def decryptFrame (E : BlockFn) (key : Bytes) (sidExpected : Nat) (f : Fields) (enc mac : Bytes) : Except Err Bytes :=
  if toNatBE f.sid ≠ sidExpected then .error .sid
  else
    let r := decryptCtr E key (ctr0 f) mac enc
    if macOf E key f r.1 = r.2 then .ok r.1 else .error .mac

/-- `KNXIPFrame.to_knx()` of the wrapper -/
def frameBytes (f : Fields) (enc mac : Bytes) : Bytes :=
  f.header ++ f.sid ++ f.seq ++ f.serial ++ f.tag ++ enc ++ mac

/-- `KNXIPFrame.from_knx` for a SecureWrapper frame: header checks, total length, `SecureWrapper.from_knx` split. -/
def parseFrame (raw : Bytes) : Option (Fields × Bytes × Bytes) :=
  if raw.length < 6 + 16 + 2 + 16 then none
  else if raw.take 4 ≠ [0x06, 0x10, 0x09, 0x50] then none
  else if toNatBE ((raw.drop 4).take 2) ≠ raw.length then none
  else
    -- `SecureWrapper.from_knx`: raw[:2], raw[2:8], raw[8:14], raw[14:16], raw[16:-16], raw[-16:]
    let body := raw.drop 6
    let r1 := body.drop 2
    let r2 := r1.drop 6
    let r3 := r2.drop 6
    let r4 := r3.drop 2
    some (⟨raw.take 6, body.take 2, r1.take 6, r2.take 6, r3.take 2⟩,
          r4.take (r4.length - 16), r4.drop (r4.length - 16))

/-- `decrypt_frame` on a KNXIPFrame OBJECT: the header octets are whatever `frame.header.to_knx()` yields (they need not
be what `from_knx` would have produced for the body), the body is split as `SecureWrapper.from_knx` does. -/
def decryptObject (E : BlockFn) (key : Bytes) (sidExpected : Nat) (header body : Bytes) : Except Err Bytes :=
  if body.length < 16 + 2 + 16 then .error .parse
  else
    let r1 := body.drop 2
    let r2 := r1.drop 6
    let r3 := r2.drop 6
    let r4 := r3.drop 2
    decryptFrame E key sidExpected ⟨header, body.take 2, r1.take 6, r2.take 6, r3.take 2⟩
      (r4.take (r4.length - 16)) (r4.drop (r4.length - 16))

/-- wrap to wire octets -/
def wrap (E : BlockFn) (key : Bytes) (sid : Nat) (seq serial tag payload : Bytes) : Bytes :=
  let w := encryptFrame E key sid seq serial tag payload
  frameBytes w.1 w.2.1 w.2.2

/-- unwrap wire octets -/
def unwrap (E : BlockFn) (key : Bytes) (sidExpected : Nat) (raw : Bytes) : Except Err Bytes :=
  match parseFrame raw with
  | none => .error .parse
  | some (f, enc, mac) => decryptFrame E key sidExpected f enc mac

/-! ### specification-shaped wrapper (KNX 03.08.09 / AN159: CCM with one-octet block index) -/

/-- `MAC = Y_n ⊕ S_0`, `Y` = textbook CBC-MAC recurrence over the blocks, `S_0 = E(Ctr_0)` -/
def specMac (E : BlockFn) (key : Bytes) (f : Fields) (payload : Bytes) : Bytes :=
  xorBytes (cbcMac E key (blocks16 (pad16 (macInput f payload)))) (E key (ctrBlock (ctr0 f) 0))

/-- payload block `i` (1-based) is XORed with `S_i = E(Ctr_i)`, `Ctr_i` = `Ctr_0` with last octet `i` -/
def specEnc (E : BlockFn) (key : Bytes) (f : Fields) (payload : Bytes) : Bytes :=
  xorBytes payload ((List.range (nblocks payload.length)).flatMap fun i => E key (ctrBlock (ctr0 f) (i + 1)))

/-! ### handshake and timer MACs (keys are given) -/

/-- `COUNTER_0_HANDSHAKE` -/
def ctr0Handshake : Bytes := List.replicate 14 0 ++ [0xff, 0x00]

/-- MAC of a SessionResponse as the server makes it and `handshake` verifies it:
CBC-MAC over `0^16 | len | 06 10 09 52 00 38 | session id | client_pk ⊕ server_pk`, encrypted with `Ctr_0`. -/
def sessionResponseMacCbc (E : BlockFn) (devAuth sid pkXor : Bytes) : Bytes :=
  macCbc E devAuth ([0x06, 0x10, 0x09, 0x52, 0x00, 0x38] ++ sid ++ pkXor) [] zero16

def sessionResponseMac (E : BlockFn) (devAuth sid pkXor : Bytes) : Bytes :=
  (encryptDataCtr E devAuth ctr0Handshake (sessionResponseMacCbc E devAuth sid pkXor) []).2

/-- `handshake`'s verification of the SessionResponse MAC -/
def sessionResponseVerify (E : BlockFn) (devAuth sid pkXor mac : Bytes) : Bool :=
  (decryptCtr E devAuth ctr0Handshake mac []).2 == sessionResponseMacCbc E devAuth sid pkXor

/-- MAC of the SessionAuthenticate `handshake` returns:
CBC-MAC over `0^16 | len | 06 10 09 53 00 18 | 00 | user id | client_pk ⊕ server_pk` -/
def sessionAuthenticateMac (E : BlockFn) (userKey : Bytes) (userId : Nat) (pkXor : Bytes) : Bytes :=
  (encryptDataCtr E userKey ctr0Handshake
    (macCbc E userKey ([0x06, 0x10, 0x09, 0x53, 0x00, 0x18] ++ [0x00, userId] ++ pkXor) [] zero16) []).2

/-- TimerNotify: `B_0 = timer | serial | tag | 00 00`, `A = 06 10 09 55 00 24`, `Ctr_0 = timer | serial | tag | ff 00` -/
def timerNotifyMacCbc (E : BlockFn) (key timer serial tag : Bytes) : Bytes :=
  macCbc E key [0x06, 0x10, 0x09, 0x55, 0x00, 0x24] [] (timer ++ serial ++ tag ++ [0x00, 0x00])

def timerNotifyMac (E : BlockFn) (key timer serial tag : Bytes) : Bytes :=
  (encryptDataCtr E key (timer ++ serial ++ tag ++ [0xff, 0x00]) (timerNotifyMacCbc E key timer serial tag) []).2

/-- `verify_timer_notify_mac` -/
def timerNotifyVerify (E : BlockFn) (key timer serial tag mac : Bytes) : Bool :=
  (decryptCtr E key (timer ++ serial ++ tag ++ [0xff, 0x00]) mac []).2 == timerNotifyMacCbc E key timer serial tag

-- ---------------------------------------------------------------------------------------------
-- line protocol (instantiated with AES-128)

def AES : BlockFn := AES128.encrypt

def showR : Except Err Bytes → String
  | .ok p => s!"ok {hexOfBytes p}"
  | .error .sid => "err sid"
  | .error .mac => "err mac"
  | .error .parse => "err parse"

-- DRIVER: c28 => XknxVerif.IPSecure.handle
/-- `wrap key sid seq serial tag payload` → frame hex;  `unwrap key sid frame` → `ok payload` | `err …`;
`respmac key sid xor`, `respverify key sid xor mac`, `authmac key uid xor`, `ntfmac key timer serial tag`,
`ntfverify key timer serial tag mac` -/
def handle : List String → String
  | ["wrap", k, sid, seq, ser, tag, p] =>
    match bytesOfHex? k, sid.toNat?, bytesOfHex? seq, bytesOfHex? ser, bytesOfHex? tag, bytesOfHex? p with
    | some k, some sid, some seq, some ser, some tag, some p => hexOfBytes (wrap AES k sid seq ser tag p)
    | _, _, _, _, _, _ => "bad-op"
  | ["unwrap", k, sid, raw] =>
    match bytesOfHex? k, sid.toNat?, bytesOfHex? raw with
    | some k, some sid, some raw => showR (unwrap AES k sid raw)
    | _, _, _ => "bad-op"
  | ["unwrapc", k, sid, raw] =>
    match bytesOfHex? k, sid.toNat?, bytesOfHex? raw with
    | some k, some sid, some raw =>
      (match unwrap AES k sid raw with
       | .ok p => s!"ok {hexOfBytes p}"
       | .error _ => "reject")
    | _, _, _ => "bad-op"
  | ["decf", k, sid, hdr, body] =>
    -- decrypt_frame on a frame object whose header serialises to `hdr`
    match bytesOfHex? k, sid.toNat?, bytesOfHex? hdr, bytesOfHex? body with
    | some k, some sid, some hdr, some body =>
      (match decryptObject AES k sid hdr body with
       | .ok p => s!"ok {hexOfBytes p}"
       | .error _ => "reject")
    | _, _, _, _ => "bad-op"
  | ["handshake", dk, uk, uid, sid, x, m] =>
    -- `SecureSession.handshake`: verify the SessionResponse MAC (if a device authentication code is set: dk ≠ "-"),
    -- then return the SessionAuthenticate MAC
    match bytesOfHex? dk, bytesOfHex? uk, uid.toNat?, bytesOfHex? sid, bytesOfHex? x, bytesOfHex? m with
    | some dk, some uk, some uid, some sid, some x, some m =>
      if dk.isEmpty || sessionResponseVerify AES dk sid x m then s!"ok {hexOfBytes (sessionAuthenticateMac AES uk uid x)}"
      else "err mac"
    | _, _, _, _, _, _ => "bad-op"
  | ["respmac", k, sid, x] =>
    match bytesOfHex? k, bytesOfHex? sid, bytesOfHex? x with
    | some k, some sid, some x => hexOfBytes (sessionResponseMac AES k sid x)
    | _, _, _ => "bad-op"
  | ["respverify", k, sid, x, m] =>
    match bytesOfHex? k, bytesOfHex? sid, bytesOfHex? x, bytesOfHex? m with
    | some k, some sid, some x, some m => if sessionResponseVerify AES k sid x m then "ok" else "err mac"
    | _, _, _, _ => "bad-op"
  | ["authmac", k, uid, x] =>
    match bytesOfHex? k, uid.toNat?, bytesOfHex? x with
    | some k, some uid, some x => hexOfBytes (sessionAuthenticateMac AES k uid x)
    | _, _, _ => "bad-op"
  | ["ntfmac", k, t, ser, tag] =>
    match bytesOfHex? k, bytesOfHex? t, bytesOfHex? ser, bytesOfHex? tag with
    | some k, some t, some ser, some tag => hexOfBytes (timerNotifyMac AES k t ser tag)
    | _, _, _, _ => "bad-op"
  | ["ntfverify", k, t, ser, tag, m] =>
    match bytesOfHex? k, bytesOfHex? t, bytesOfHex? ser, bytesOfHex? tag, bytesOfHex? m with
    | some k, some t, some ser, some tag, some m => if timerNotifyVerify AES k t ser tag m then "ok" else "err mac"
    | _, _, _, _, _ => "bad-op"
  | _ => "bad-op"

end XknxVerif.IPSecure
