/-
"Field values the specification allows on the wire" as decidable predicates
(C21).  Each conjunct is needed: `Props/C21.lean` has, per conjunct, a body
outside it that does not round-trip.  Core Lean only (the driver prints
`wf=…` so that the harness's generator and this predicate are compared on
every generated body).
-/
import XknxVerif.Model.KNXIP.Frame

namespace XknxVerif.KNXIP
open XknxVerif.Generated.KNXIP

def octets (b : Bytes) : Bool := b.all (· < 256)

def HPAI.wf (h : HPAI) : Bool :=
  decide (h.proto ∈ HostProtocol.codes) && h.ip.length == 4 && octets h.ip && decide (h.port < 65536)

def optAddr : Option Nat → Bool
  | some a => decide (a < 65536)
  | none => true

def CRI.wf (c : CRI) : Bool :=
  decide (c.connType ∈ ConnectRequestType.codes) &&
  (if c.isTunnel then decide (c.layer ∈ TunnellingLayer.codes) && optAddr c.ia
   else c.layer == CRI.default.layer && c.ia.isNone)

def CRD.wf (c : CRD) : Bool :=
  decide (c.reqType ∈ ConnectRequestType.codes) &&
  (if c.isTunnel then c.ia.isSome && optAddr c.ia else c.ia.isNone)

/-- description type codes that `DIB.determine_dib` maps to a dedicated class -/
def dedicatedDibCodes : List Nat :=
  [DIBTypeCode.device_info, DIBTypeCode.supp_svc_families, DIBTypeCode.secured_service_families,
   DIBTypeCode.tunneling_info]

def DIB.wf : DIB → Bool
  | .generic dtc data =>
    decide (dtc ∈ DIBTypeCode.codes) && decide (dtc ∉ dedicatedDibCodes) && octets data &&
      data.length % 2 == 0 && decide (data.length + 2 ≤ 255)
  | .deviceInfo medium _ ia project inst serial mcast mac name =>
    decide (medium ∈ KNXMedium.codes) && decide (ia < 65536) && decide (project < 4096) && decide (inst < 16) &&
      serial.length == 6 && octets serial && mcast.length == 4 && octets mcast && mac.length == 6 && octets mac &&
      decide (name.length ≤ 30) && octets name && name.getLast? != some 0
  | .families _ fams =>
    fams.all (fun f => decide (f.1 ∈ DIBServiceFamily.codes) && decide (f.2 < 256)) &&
      decide (fams.length * 2 + 2 ≤ 255)
  | .tunnelingInfo maxApdu slots =>
    decide (maxApdu < 65536) && slots.all (fun s => decide (s.1 < 65536)) &&
      decide ((slots.map (·.1)).Nodup) && decide (slots.length * 4 + 4 ≤ 255)

def SRP.wf (s : SRP) : Bool :=
  decide (s.ty ∈ SRPType.codes) && decide (s.ty < 8) && octets s.data &&
    decide (s.payloadSize ≤ 255) && decide (s.payloadSize = Const.srpHeaderSize + s.data.length) &&
    decide (SRP.init s.ty s.mandatory s.data = .ok s)

def Body.fieldsWf : Body → Bool
  | .searchRequest ep => ep.wf
  | .searchRequestExtended ep srps => ep.wf && srps.all SRP.wf
  | .searchResponse _ ep dibs => ep.wf && dibs.all DIB.wf
  | .descriptionRequest ep => ep.wf
  | .descriptionResponse dibs => dibs.all DIB.wf
  | .connectRequest c d cri => c.wf && d.wf && cri.wf
  | .connectResponse ch st ep crd =>
    decide (ch < 256) && decide (st ∈ ErrorCode.codes) && ep.wf && crd.wf
  | .connRequest _ ch ep => decide (ch < 256) && ep.wf
  | .connResponse _ ch st => decide (ch < 256) && decide (st ∈ ErrorCode.codes)
  | .cemiRequest _ ch seq cemi => decide (ch < 256) && decide (seq < 256) && octets cemi
  | .cemiAck _ ch seq st => decide (ch < 256) && decide (seq < 256) && decide (st ∈ ErrorCode.codes)
  | .feature k ch seq st ft data =>
    decide (ch < 256) && decide (seq < 256) && decide (st ∈ ErrorCode.codes) &&
      decide (ft ∈ TunnellingFeatureType.codes) && octets data &&
      (if k.hasData then !data.isEmpty && data.length % 2 == 0 else data.isEmpty)
  | .featureResponse ch seq st ft rc data =>
    decide (ch < 256) && decide (seq < 256) && decide (st ∈ ErrorCode.codes) &&
      decide (ft ∈ TunnellingFeatureType.codes) && decide (rc ∈ ReturnCode.codes) && octets data &&
      data.length % 2 == 0 && (rc != ReturnCode.e_success || !data.isEmpty)
  | .routingIndication cemi => octets cemi
  | .routingLostMessage st lost => decide (st < 256) && decide (lost < 65536)
  | .routingBusy st w c => decide (st < 256) && decide (w < 65536) && decide (c < 65536)
  | .secureWrapper sid si ser tag enc mac =>
    decide (sid < 65536) && si.length == 6 && ser.length == 6 && tag.length == 2 && decide (2 ≤ enc.length) &&
      mac.length == 16 && octets si && octets ser && octets tag && octets enc && octets mac
  | .sessionRequest ep key => ep.wf && key.length == 32 && octets key
  | .sessionResponse sid key mac =>
    decide (sid < 65536) && key.length == 32 && mac.length == 16 && octets key && octets mac
  | .sessionAuthenticate uid mac => decide (uid < 256) && mac.length == 16 && octets mac
  | .sessionStatus st => decide (st ∈ SecureSessionStatusCode.codes)
  | .timerNotify t ser tag mac =>
    decide (t < 256 ^ 6) && ser.length == 6 && tag.length == 2 && mac.length == 16 &&
      octets ser && octets tag && octets mac

/-- `WFBody`: every field holds a value the wire format can carry, and the frame fits the 16-bit total length. -/
def Body.wf (b : Body) : Bool :=
  b.fieldsWf && decide (Const.headerLength + b.calcLength < 65536)

end XknxVerif.KNXIP
