/-
Line-protocol handlers for the KNX/IP models (C20, C21, C22).  Core Lean only.
-/
import XknxVerif.Model.KNXIP.WF
import XknxVerif.Model.Stream

namespace XknxVerif.KNXIP

def chunksOfHex? (s : String) : Option (List Bytes) :=
  (s.splitOn ",").mapM bytesOfHex?

def renderEvents (evs : List Stream.Ev) : String :=
  if evs.isEmpty then "-" else ";".intercalate (evs.map Stream.Ev.render)

-- DRIVER: c20 => XknxVerif.KNXIP.handleC20
/-- `parse <hex>` → `ok <service> <total> <body> rest=<n>` | `err <class>`;
`hdr <hex>` → `ok <service> <total> after=<n>` | `err <class> after=<n>` -/
def handleC20 : List String → String
  | ["parse", h] =>
    match bytesOfHex? h with
    | some d => renderResult (parseFrame d) fun r => s!"{r.1.render} rest={r.2.length}"
    | none => "bad-op"
  | ["hdr", h] =>
    match bytesOfHex? h with
    | some d =>
      renderResult (Header.parse d) (fun hd => s!"{hd.serviceType} {hd.totalLength}")
        ++ s!" after={Header.lengthAfter d}"
    | none => "bad-op"
  | _ => "bad-op"

-- DRIVER: c21 => XknxVerif.KNXIP.handleC21
/-- `rt <hex>`: parse the frame the implementation serialised, re-serialise the parsed body:
`ok <body> rest=<n> calc=<calculated_length> wf=<0|1> ser=<hex|err>` | `err <class>` -/
def handleC21 : List String → String
  | ["rt", h] =>
    match bytesOfHex? h with
    | some d =>
      renderResult (parseFrame d) fun r =>
        let b := r.1.body
        let ser := match (Frame.ofBody b).serialize with
          | .ok bs => hex bs
          | .error e => "err:" ++ e.render
        s!"{b.render} rest={r.2.length} calc={b.calcLength} wf={natOfBool b.wf} ser={ser}"
    | none => "bad-op"
  | _ => "bad-op"

-- DRIVER: c22 => XknxVerif.KNXIP.handleC22
/-- `tcp <hex>,<hex>,…` → `<events> buf=<hex>`; `udp <hex>,<hex>,…` → `<events>` -/
def handleC22 : List String → String
  | ["tcp", cs] =>
    match chunksOfHex? cs with
    | some chunks =>
      let r := Stream.run chunks
      s!"{renderEvents r.2} buf={hex r.1}"
    | none => "bad-op"
  | ["udp", cs] =>
    match chunksOfHex? cs with
    | some dgrams => renderEvents (dgrams.flatMap Stream.udp)
    | none => "bad-op"
  | _ => "bad-op"

end XknxVerif.KNXIP
