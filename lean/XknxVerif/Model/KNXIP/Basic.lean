/-
Python-exception semantics for the KNX/IP frame models (C20, C21, C22).
Core Lean only.

The models are written against *Python's* semantics: `raw[i]` raises
`IndexError` when `i` is out of range, an enum constructor raises
`ValueError` for a code that is no member, `to_bytes` raises `OverflowError`
and so on.  `Exc` therefore contains the classes the property forbids next
to the two it allows; that the forbidden ones are unreachable is a theorem
(`Props/C20.lean`), not a consequence of the type.
-/
import XknxVerif.Py.Bytes

namespace XknxVerif.KNXIP

/-- Exception classes that can leave the modelled code. -/
inductive Exc where
  /-- `CouldNotParseKNXIP` (declared) -/
  | parse
  /-- `IncompleteKNXIPFrame` (declared; subclass of `CouldNotParseKNXIP`) -/
  | incomplete
  | indexError
  | valueError
  /-- `xknx.exceptions.ConversionError` -/
  | conversion
  | assertion
  | overflow
  /-- `OSError` (socket.inet_ntoa / inet_aton on a wrong-sized value) -/
  | osError
  deriving DecidableEq, Repr

/-- The error classes the property allows `KNXIPFrame.from_knx` to raise. -/
def Exc.declared : Exc → Bool
  | .parse | .incomplete => true
  | _ => false

def Exc.render : Exc → String
  | .parse => "parse" | .incomplete => "incomplete"
  | .indexError => "other:IndexError" | .valueError => "other:ValueError"
  | .conversion => "other:ConversionError" | .assertion => "other:AssertionError"
  | .overflow => "other:OverflowError" | .osError => "other:OSError"

abbrev PyM := Except Exc

/-- `raw[i]` for `i ≥ 0`. -/
def idx (raw : Bytes) (i : Nat) : PyM Nat :=
  match raw[i]? with
  | some x => .ok x
  | none => .error .indexError

/-- `EnumClass(x)`: `ValueError` unless `x` is the value of a member. -/
def enumOf (codes : List Nat) (x : Nat) : PyM Nat :=
  if x ∈ codes then .ok x else .error .valueError

/-- `try: m  except ValueError: h` -/
def exceptValue {α} (m : PyM α) (h : PyM α) : PyM α :=
  match m with
  | .error .valueError => h
  | r => r

/-- `try: m  except (ValueError, ConversionError): h` -/
def exceptValueConversion {α} (m : PyM α) (h : PyM α) : PyM α :=
  match m with
  | .error .valueError => h
  | .error .conversion => h
  | r => r

/-- `try: m  except CouldNotParseKNXIP: h` (catches the subclass too) -/
def exceptParse {α} (m : PyM α) (h : PyM α) : PyM α :=
  match m with
  | .error .parse => h
  | .error .incomplete => h
  | r => r

/-- `socket.inet_ntoa(b)`: exactly four octets. The model keeps the address as its four octets. -/
def inetNtoa (b : Bytes) : PyM Bytes :=
  if b.length = 4 then .ok b else .error .osError

/-- `socket.inet_aton(s)` for a canonical dotted quad kept as four octets. -/
def inetAton (b : Bytes) : PyM Bytes :=
  if b.length = 4 ∧ b.all (· < 256) then .ok b else .error .osError

/-- `n.to_bytes(len, "big")` for `n ≥ 0`. -/
def toBytes (n len : Nat) : PyM Bytes :=
  if n < 256 ^ len then .ok (Bytes.ofNatBE len n) else .error .overflow

/-- `bytes((a, b, ...))`: `ValueError` unless every item is in `range(256)`. -/
def bytesOf (xs : List Nat) : PyM Bytes :=
  if xs.all (· < 256) then .ok xs else .error .valueError

/-- `b.rstrip(b"\0")` / `s.rstrip("\0")` -/
def rstripZeros (b : Bytes) : Bytes :=
  (b.reverse.dropWhile (· == 0)).reverse

/-- `b.ljust(n, b"\0")` -/
def ljustZeros (b : Bytes) (n : Nat) : Bytes :=
  b ++ List.replicate (n - b.length) 0

def natOfBool (b : Bool) : Nat := if b then 1 else 0

/-! ### rendering helpers (canonical outcome strings for the correspondence) -/

def hex (b : Bytes) : String := hexOfBytes b

def renderList (xs : List String) : String := "[" ++ ",".intercalate xs ++ "]"

end XknxVerif.KNXIP
