/-
Model of xknx/knxip/header.py and xknx/knxip/knxip.py:
`KNXIPHeader.from_knx`, `KNXIPFrame.from_knx`, `KNXIPFrame.init_from_body(b).to_knx()`.
Core Lean only.
-/
import XknxVerif.Model.KNXIP.Body

namespace XknxVerif.KNXIP
open XknxVerif.Generated.KNXIP

structure Header where
  serviceType : Nat
  totalLength : Nat
  deriving DecidableEq, Repr

/-- `KNXIPHeader.from_knx` (the returned position is always `HEADERLENGTH`). -/
def Header.parse (data : Bytes) : PyM Header :=
  if data.length < Const.headerLength then .error .incomplete else
  idx data 0 >>= fun b0 =>
  if b0 ≠ Const.headerLength then .error .parse else
  idx data 4 >>= fun b4 =>
  idx data 5 >>= fun b5 =>
  let total := b4 * 256 + b5
  if total < Const.headerLength then .error .parse else
  idx data 1 >>= fun b1 =>
  if b1 ≠ Const.protocolVersion then .error .parse else
  idx data 2 >>= fun b2 =>
  idx data 3 >>= fun b3 =>
  exceptValue (enumOf ServiceType.codes (b2 * 256 + b3)) (.error .parse) >>= fun st =>
  .ok ⟨st, total⟩

/-- The attribute `header.total_length` after `header = KNXIPHeader(); header.from_knx(data)` returned or
raised: it is assigned as soon as the header length octet is right ("set immediately, as we need it
for tcp stream parsing before raising exception"), and stays `0` otherwise. -/
def Header.lengthAfter (data : Bytes) : Nat :=
  if data.length < Const.headerLength then 0 else
  match data[0]?, data[4]?, data[5]? with
  | some b0, some b4, some b5 => if b0 ≠ Const.headerLength then 0 else b4 * 256 + b5
  | _, _, _ => 0

structure Frame where
  header : Header
  body : Body
  deriving DecidableEq, Repr

/-- `KNXIPFrame.from_knx(data)`: the frame and the rest of the data. -/
def parseFrame (data : Bytes) : PyM (Frame × Bytes) :=
  Header.parse data >>= fun h =>
  if data.length < h.totalLength then .error .incomplete else
  parseBody h.serviceType (data.slice Const.headerLength h.totalLength) >>= fun body =>
  .ok (⟨h, body⟩, data.drop h.totalLength)

/-- `KNXIPHeader.to_knx` -/
def Header.serialize (h : Header) : PyM Bytes :=
  bytesOf [Const.headerLength, Const.protocolVersion] >>= fun hd =>
  toBytes h.serviceType 2 >>= fun st =>
  toBytes h.totalLength 2 >>= fun tl =>
  .ok (hd ++ st ++ tl)

/-- `KNXIPFrame.init_from_body(body)`: `header.set_length(body)` -/
def Frame.ofBody (b : Body) : Frame := ⟨⟨b.serviceType, Const.headerLength + b.calcLength⟩, b⟩

/-- `KNXIPFrame.to_knx` -/
def Frame.serialize (f : Frame) : PyM Bytes :=
  f.header.serialize >>= fun h => f.body.serialize >>= fun b => .ok (h ++ b)

/-! ### consumed length (needed for the termination of the stream loop, restated in `Props/C20.lean`) -/

theorem idx_eq_ok {raw : Bytes} {i a : Nat} (h : idx raw i = .ok a) : raw[i]? = some a := by
  unfold idx at h
  split at h
  · simp only [Except.ok.injEq] at h; subst h; assumption
  · simp at h

theorem Header.parse_ok {d : Bytes} {h : Header} (e : Header.parse d = .ok h) :
    Const.headerLength ≤ h.totalLength ∧ Const.headerLength ≤ d.length ∧ h.totalLength = Header.lengthAfter d := by
  unfold Header.parse at e
  split at e
  · simp at e
  · rename_i hlen
    simp only [bind_eq_ok] at e
    obtain ⟨b0, h0, e⟩ := e
    split at e
    · simp at e
    · rename_i hb0
      simp only [bind_eq_ok] at e
      obtain ⟨b4, h4, b5, h5, e⟩ := e
      split at e
      · simp at e
      · rename_i htot
        simp only [bind_eq_ok] at e
        obtain ⟨b1, _, e⟩ := e
        split at e
        · simp at e
        · simp only [bind_eq_ok] at e
          obtain ⟨b2, _, b3, _, st, _, e⟩ := e
          simp only [Except.ok.injEq] at e
          subst e
          refine ⟨by simpa using htot, by omega, ?_⟩
          unfold Header.lengthAfter
          rw [if_neg hlen, idx_eq_ok h0, idx_eq_ok h4, idx_eq_ok h5]
          simp only
          rw [if_neg hb0]

theorem parseFrame_ok {d : Bytes} {f : Frame} {rest : Bytes} (e : parseFrame d = .ok (f, rest)) :
    Const.headerLength ≤ f.header.totalLength ∧ f.header.totalLength ≤ d.length ∧
      rest = d.drop f.header.totalLength ∧ Header.parse d = .ok f.header := by
  unfold parseFrame at e
  simp only [bind_eq_ok] at e
  obtain ⟨h, hh, e⟩ := e
  split at e
  · simp at e
  · simp only [bind_eq_ok] at e
    obtain ⟨body, _, e⟩ := e
    simp only [Except.ok.injEq, Prod.mk.injEq] at e
    obtain ⟨rfl, rfl⟩ := e
    exact ⟨(Header.parse_ok hh).1, by simp only; omega, rfl, hh⟩

def Frame.render (f : Frame) : String := s!"{f.header.serviceType} {f.header.totalLength} {f.body.render}"

def renderResult {α} (r : PyM α) (f : α → String) : String :=
  match r with
  | .ok a => "ok " ++ f a
  | .error e => "err " ++ e.render

end XknxVerif.KNXIP
