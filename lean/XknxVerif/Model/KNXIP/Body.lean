/-
Models of the 29 KNX/IP body classes (xknx/knxip/*.py): `parseBody` mirrors
`body.from_knx(raw_body)` on the fresh object `KNXIPFrame.from_knx` creates,
`Body.serialize` mirrors `to_knx`, `Body.calcLength` mirrors
`calculated_length`.  The DIB and SRP loops are defined by well-founded
recursion on the number of remaining octets: Lean accepts the definitions only
because every iteration provably consumes at least two octets
(`DIB.parse_pos`, `SRP.parse_pos`) — that acceptance is the termination proof.
Core Lean only.
-/
import XknxVerif.Model.KNXIP.Struct

namespace XknxVerif.KNXIP
open XknxVerif.Generated.KNXIP

/-! ## small facts about `Except` needed for the termination proofs -/

theorem bind_eq_ok {α β} {m : PyM α} {f : α → PyM β} {b : β} :
    (m >>= f) = .ok b ↔ ∃ a, m = .ok a ∧ f a = .ok b := by
  cases m with
  | error e => simp [bind, Except.bind]
  | ok a => simp [bind, Except.bind]

theorem DIB.parseGeneric_pos {raw d n} (h : DIB.parseGeneric raw = .ok (d, n)) : 2 ≤ n := by
  unfold DIB.parseGeneric at h
  split at h
  · simp at h
  · simp only [bind_eq_ok] at h
    obtain ⟨len, _, h⟩ := h
    split at h
    · simp at h
    · simp only [bind_eq_ok] at h
      obtain ⟨_, _, h⟩ := h
      simp only [Except.ok.injEq, Prod.mk.injEq] at h
      simp only [Const.dibHeaderLength] at *
      omega

theorem DIB.parseDeviceInfo_pos {raw d n} (h : DIB.parseDeviceInfo raw = .ok (d, n)) : 2 ≤ n := by
  unfold DIB.parseDeviceInfo at h
  split at h
  · simp at h
  · simp only [bind_eq_ok] at h
    obtain ⟨_, _, h⟩ := h
    split at h
    · simp at h
    · simp only [bind_eq_ok] at h
      obtain ⟨_, _, h⟩ := h
      split at h
      · simp at h
      · simp only [bind_eq_ok] at h
        obtain ⟨_, _, _, _, _, _, _, _, _, _, h⟩ := h
        simp only [Except.ok.injEq, Prod.mk.injEq] at h
        simp only [Const.dibDeviceInfoLength] at *
        omega

theorem DIB.parseFamilies_pos {s raw d n} (h : DIB.parseFamilies s raw = .ok (d, n)) : 2 ≤ n := by
  unfold DIB.parseFamilies at h
  split at h
  · simp at h
  · simp only [bind_eq_ok] at h
    obtain ⟨len, _, h⟩ := h
    split at h
    · simp at h
    · simp only [bind_eq_ok] at h
      obtain ⟨_, _, h⟩ := h
      split at h
      · simp at h
      · simp only [bind_eq_ok] at h
        obtain ⟨_, _, h⟩ := h
        simp only [Except.ok.injEq, Prod.mk.injEq] at h
        simp only [Const.dibHeaderLength] at *
        omega

theorem DIB.parseTunnelingInfo_pos {raw d n} (h : DIB.parseTunnelingInfo raw = .ok (d, n)) : 2 ≤ n := by
  unfold DIB.parseTunnelingInfo at h
  split at h
  · simp at h
  · simp only [bind_eq_ok] at h
    obtain ⟨len, _, h⟩ := h
    split at h
    · simp at h
    · simp only [bind_eq_ok] at h
      obtain ⟨_, _, h⟩ := h
      split at h
      · simp at h
      · simp only [bind_eq_ok] at h
        obtain ⟨_, _, h⟩ := h
        simp only [Except.ok.injEq, Prod.mk.injEq] at h
        omega

/-- Every DIB the parser accepts reports a consumed length of at least its two header octets:
the loop below always advances.  (On the pinned tree a DIB of announced length 0 was accepted
and this statement was false — the loop did not terminate.) -/
theorem DIB.parse_pos {raw d n} (h : DIB.parse raw = .ok (d, n)) : 2 ≤ n := by
  unfold DIB.parse at h
  split at h
  · simp at h
  · simp only [bind_eq_ok] at h
    obtain ⟨t, _, h⟩ := h
    repeat' split at h
    all_goals first
      | exact DIB.parseGeneric_pos h
      | exact DIB.parseDeviceInfo_pos h
      | exact DIB.parseFamilies_pos h
      | exact DIB.parseTunnelingInfo_pos h

theorem SRP.init_pos {ty m data s} (h : SRP.init ty m data = .ok s) : 2 ≤ s.payloadSize := by
  unfold SRP.init at h
  repeat' split at h
  all_goals first
    | (simp at h; done)
    | (simp only [Except.ok.injEq] at h; subst h; simp only [Const.srpHeaderSize]; omega)

theorem exceptValueConversion_eq_ok {α} {m h : PyM α} {a : α}
    (hh : ∀ a, h ≠ .ok a) (e : exceptValueConversion m h = .ok a) : m = .ok a := by
  unfold exceptValueConversion at e
  split at e
  · exact absurd e (hh a)
  · exact absurd e (hh a)
  · exact e

theorem SRP.parse_pos {raw s} (h : SRP.parse raw = .ok s) : 2 ≤ s.payloadSize := by
  unfold SRP.parse at h
  split at h
  · simp at h
  · simp only [bind_eq_ok] at h
    obtain ⟨_, _, h⟩ := h
    split at h
    · simp at h
    · have h' := exceptValueConversion_eq_ok (by intro a; simp) h
      simp only [bind_eq_ok] at h'
      obtain ⟨_, _, _, _, h'⟩ := h'
      exact SRP.init_pos h'

/-! ## the two loops -/

/-- `while raw[pos:]: dib = DIB.determine_dib(raw[pos:]); pos += dib.from_knx(raw[pos:]); dibs.append(dib)` -/
def parseDibs (raw : Bytes) : PyM (List DIB) :=
  if raw.isEmpty then .ok [] else
  match h : DIB.parse raw with
  | .error e => .error e
  | .ok (d, n) => parseDibs (raw.drop n) >>= fun rest => .ok (d :: rest)
termination_by raw.length
decreasing_by
  have := DIB.parse_pos h
  cases raw with
  | nil => simp at *
  | cons x xs => simp only [List.length_drop, List.length_cons]; omega

/-- `while raw[pos:]: srp = SRP.from_knx(raw[pos:]); pos += len(srp); srps.append(srp)` -/
def parseSrps (raw : Bytes) : PyM (List SRP) :=
  if raw.isEmpty then .ok [] else
  match h : SRP.parse raw with
  | .error e => .error e
  | .ok s => parseSrps (raw.drop s.payloadSize) >>= fun rest => .ok (s :: rest)
termination_by raw.length
decreasing_by
  have := SRP.parse_pos h
  cases raw with
  | nil => simp at *
  | cons x xs => simp only [List.length_drop, List.length_cons]; omega

/-! ## bodies -/

inductive ReqKind where | tunnelling | deviceConfiguration
  deriving DecidableEq, Repr
inductive ConnKind where | connectionState | disconnect
  deriving DecidableEq, Repr
inductive FeatKind where | get | set | info
  deriving DecidableEq, Repr

inductive Body where
  | searchRequest (ep : HPAI)
  | searchRequestExtended (ep : HPAI) (srps : List SRP)
  /-- `SearchResponse` / `SearchResponseExtended` -/
  | searchResponse (extended : Bool) (ep : HPAI) (dibs : List DIB)
  | descriptionRequest (ep : HPAI)
  | descriptionResponse (dibs : List DIB)
  | connectRequest (ctrl data : HPAI) (cri : CRI)
  | connectResponse (channel status : Nat) (ep : HPAI) (crd : CRD)
  /-- `ConnectionStateRequest` / `DisconnectRequest` -/
  | connRequest (k : ConnKind) (channel : Nat) (ep : HPAI)
  /-- `ConnectionStateResponse` / `DisconnectResponse` -/
  | connResponse (k : ConnKind) (channel status : Nat)
  /-- `TunnellingRequest` / `DeviceConfigurationRequest` -/
  | cemiRequest (k : ReqKind) (channel seq : Nat) (cemi : Bytes)
  /-- `TunnellingAck` / `DeviceConfigurationAck` -/
  | cemiAck (k : ReqKind) (channel seq status : Nat)
  /-- `TunnellingFeatureGet` / `…Set` / `…Info` -/
  | feature (k : FeatKind) (channel seq status featureType : Nat) (data : Bytes)
  | featureResponse (channel seq status featureType returnCode : Nat) (data : Bytes)
  | routingIndication (cemi : Bytes)
  | routingLostMessage (deviceState lost : Nat)
  | routingBusy (deviceState waitTime control : Nat)
  | secureWrapper (sessionId : Nat) (seqInfo serial tag encrypted mac : Bytes)
  | sessionRequest (ep : HPAI) (key : Bytes)
  | sessionResponse (sessionId : Nat) (key mac : Bytes)
  | sessionAuthenticate (userId : Nat) (mac : Bytes)
  | sessionStatus (status : Nat)
  | timerNotify (timer : Nat) (serial tag mac : Bytes)
  deriving DecidableEq, Repr

def FeatKind.hasData : FeatKind → Bool
  | .get => false
  | _ => true

/-- `SERVICE_TYPE` of the body class -/
def Body.serviceType : Body → Nat
  | .searchRequest .. => ServiceType.search_request
  | .searchRequestExtended .. => ServiceType.search_request_extended
  | .searchResponse false .. => ServiceType.search_response
  | .searchResponse true .. => ServiceType.search_response_extended
  | .descriptionRequest .. => ServiceType.description_request
  | .descriptionResponse .. => ServiceType.description_response
  | .connectRequest .. => ServiceType.connect_request
  | .connectResponse .. => ServiceType.connect_response
  | .connRequest .connectionState .. => ServiceType.connectionstate_request
  | .connRequest .disconnect .. => ServiceType.disconnect_request
  | .connResponse .connectionState .. => ServiceType.connectionstate_response
  | .connResponse .disconnect .. => ServiceType.disconnect_response
  | .cemiRequest .tunnelling .. => ServiceType.tunnelling_request
  | .cemiRequest .deviceConfiguration .. => ServiceType.device_configuration_request
  | .cemiAck .tunnelling .. => ServiceType.tunnelling_ack
  | .cemiAck .deviceConfiguration .. => ServiceType.device_configuration_ack
  | .feature .get .. => ServiceType.tunnelling_feature_get
  | .feature .set .. => ServiceType.tunnelling_feature_set
  | .feature .info .. => ServiceType.tunnelling_feature_info
  | .featureResponse .. => ServiceType.tunnelling_feature_response
  | .routingIndication .. => ServiceType.routing_indication
  | .routingLostMessage .. => ServiceType.routing_lost_message
  | .routingBusy .. => ServiceType.routing_busy
  | .secureWrapper .. => ServiceType.secure_wrapper
  | .sessionRequest .. => ServiceType.session_request
  | .sessionResponse .. => ServiceType.session_response
  | .sessionAuthenticate .. => ServiceType.session_authenticate
  | .sessionStatus .. => ServiceType.session_status
  | .timerNotify .. => ServiceType.timer_notify

/-! ### `from_knx` per class -/

def parseHpaiThen {α} (raw : Bytes) (k : HPAI → Nat → PyM α) : PyM α :=
  HPAI.parse raw >>= fun r => k r.1 r.2

def parseSearchRequest (raw : Bytes) : PyM Body :=
  HPAI.parse raw >>= fun r => .ok (.searchRequest r.1)

def parseSearchRequestExtended (raw : Bytes) : PyM Body :=
  HPAI.parse raw >>= fun r =>
  parseSrps (raw.drop r.2) >>= fun srps =>
  .ok (.searchRequestExtended r.1 srps)

def parseSearchResponse (extended : Bool) (raw : Bytes) : PyM Body :=
  HPAI.parse raw >>= fun r =>
  parseDibs (raw.drop r.2) >>= fun dibs =>
  .ok (.searchResponse extended r.1 dibs)

def parseDescriptionRequest (raw : Bytes) : PyM Body :=
  HPAI.parse raw >>= fun r => .ok (.descriptionRequest r.1)

def parseDescriptionResponse (raw : Bytes) : PyM Body :=
  parseDibs raw >>= fun dibs => .ok (.descriptionResponse dibs)

def parseConnectRequest (raw : Bytes) : PyM Body :=
  HPAI.parse raw >>= fun c =>
  HPAI.parse (raw.drop c.2) >>= fun d =>
  CRI.parse (raw.drop (c.2 + d.2)) >>= fun cri =>
  .ok (.connectRequest c.1 d.1 cri.1)

def parseConnectResponse (raw : Bytes) : PyM Body :=
  if raw.length < 2 then .error .parse else
  idx raw 0 >>= fun ch =>
  exceptValue (idx raw 1 >>= enumOf ErrorCode.codes) (.error .parse) >>= fun status =>
  let epCrd : PyM (HPAI × CRD) :=
    HPAI.parse (raw.drop 2) >>= fun h =>
    CRD.parse (raw.drop (2 + h.2)) >>= fun c =>
    .ok (h.1, c.1)
  if status = ErrorCode.e_no_error then
    epCrd >>= fun r => .ok (.connectResponse ch status r.1 r.2)
  else
    -- HPAI and CRD of an error response are kept only if both are well-formed
    exceptParse epCrd (.ok (HPAI.default, CRD.default)) >>= fun r =>
    .ok (.connectResponse ch status r.1 r.2)

def parseConnRequest (k : ConnKind) (raw : Bytes) : PyM Body :=
  if raw.length < 2 then .error .parse else
  idx raw 0 >>= fun ch =>
  HPAI.parse (raw.drop 2) >>= fun h =>
  .ok (.connRequest k ch h.1)

def connResponseLength : ConnKind → Nat
  | .connectionState => Const.connectionStateResponseLength
  | .disconnect => Const.disconnectResponseLength

def parseConnResponse (k : ConnKind) (raw : Bytes) : PyM Body :=
  if raw.length < connResponseLength k then .error .parse else
  idx raw 0 >>= fun ch =>
  exceptValue (idx raw 1 >>= enumOf ErrorCode.codes) (.error .parse) >>= fun status =>
  .ok (.connResponse k ch status)

def reqHeaderLength : ReqKind → Nat
  | .tunnelling => Const.tunnellingRequestHeaderLength
  | .deviceConfiguration => Const.deviceConfigurationRequestHeaderLength

def parseCemiRequest (k : ReqKind) (raw : Bytes) : PyM Body :=
  if raw.length < reqHeaderLength k then .error .parse else
  idx raw 0 >>= fun b0 =>
  if b0 ≠ reqHeaderLength k then .error .parse else
  idx raw 1 >>= fun ch =>
  idx raw 2 >>= fun seq =>
  .ok (.cemiRequest k ch seq (raw.drop (reqHeaderLength k)))

def ackLength : ReqKind → Nat
  | .tunnelling => Const.tunnellingAckLength
  | .deviceConfiguration => Const.deviceConfigurationAckLength

def parseCemiAck (k : ReqKind) (raw : Bytes) : PyM Body :=
  if raw.length ≠ ackLength k then .error .parse else
  idx raw 0 >>= fun b0 =>
  if b0 ≠ ackLength k then .error .parse else
  idx raw 1 >>= fun ch =>
  idx raw 2 >>= fun seq =>
  exceptValue (idx raw 3 >>= enumOf ErrorCode.codes) (.error .parse) >>= fun status =>
  .ok (.cemiAck k ch seq status)

def parseFeature (k : FeatKind) (raw : Bytes) : PyM Body :=
  if raw.length < Const.tunnellingFeatureHeaderLength + Const.tunnellingFeatureIdLength then .error .parse else
  idx raw 0 >>= fun b0 =>
  if b0 ≠ Const.tunnellingFeatureHeaderLength then .error .parse else
  idx raw 1 >>= fun ch =>
  idx raw 2 >>= fun seq =>
  exceptValue (idx raw 3 >>= enumOf ErrorCode.codes) (.error .parse) >>= fun status =>
  exceptValue (idx raw 4 >>= enumOf TunnellingFeatureType.codes) (.error .parse) >>= fun ft =>
  let data := raw.drop 6
  if k.hasData ∧ data.length = 0 then .error .parse
  else if ¬ k.hasData ∧ data.length > 0 then .error .parse
  else .ok (.feature k ch seq status ft data)

def parseFeatureResponse (raw : Bytes) : PyM Body :=
  if raw.length < Const.tunnellingFeatureHeaderLength + Const.tunnellingFeatureIdLength then .error .parse else
  idx raw 0 >>= fun b0 =>
  if b0 ≠ Const.tunnellingFeatureHeaderLength then .error .parse else
  idx raw 1 >>= fun ch =>
  idx raw 2 >>= fun seq =>
  exceptValue (idx raw 3 >>= enumOf ErrorCode.codes) (.error .parse) >>= fun status =>
  exceptValue (idx raw 4 >>= enumOf TunnellingFeatureType.codes) (.error .parse) >>= fun ft =>
  exceptValue (idx raw 5 >>= enumOf ReturnCode.codes) (.error .parse) >>= fun rc =>
  let data := raw.drop 6
  if rc = ReturnCode.e_success ∧ data.length = 0 then .error .parse
  else .ok (.featureResponse ch seq status ft rc data)

def parseRoutingIndication (raw : Bytes) : PyM Body := .ok (.routingIndication raw)

def parseRoutingLostMessage (raw : Bytes) : PyM Body :=
  if raw.length ≠ Const.routingLostMessageLength then .error .parse else
  idx raw 0 >>= fun b0 =>
  if b0 ≠ Const.routingLostMessageLength then .error .parse else
  idx raw 1 >>= fun st =>
  idx raw 2 >>= fun a =>
  idx raw 3 >>= fun b =>
  .ok (.routingLostMessage st (a * 256 + b))

def parseRoutingBusy (raw : Bytes) : PyM Body :=
  if raw.length ≠ Const.routingBusyLength then .error .parse else
  idx raw 0 >>= fun b0 =>
  if b0 ≠ Const.routingBusyLength then .error .parse else
  idx raw 1 >>= fun st =>
  idx raw 2 >>= fun a =>
  idx raw 3 >>= fun b =>
  idx raw 4 >>= fun c =>
  idx raw 5 >>= fun d =>
  .ok (.routingBusy st (a * 256 + b) (c * 256 + d))

def parseSecureWrapper (raw : Bytes) : PyM Body :=
  if raw.length < Const.secureWrapperMinimumLength then .error .parse else
  .ok (.secureWrapper (Bytes.toNatBE (raw.slice 0 2)) (raw.slice 2 8) (raw.slice 8 14) (raw.slice 14 16)
        (raw.slice 16 (raw.length - Const.macLength)) (raw.drop (raw.length - Const.macLength)))

def parseSessionRequest (raw : Bytes) : PyM Body :=
  if raw.length ≠ Const.sessionRequestLength then .error .parse else
  HPAI.parse raw >>= fun h =>
  .ok (.sessionRequest h.1 (raw.drop h.2))

def parseSessionResponse (raw : Bytes) : PyM Body :=
  if raw.length ≠ Const.sessionResponseLength then .error .parse else
  .ok (.sessionResponse (Bytes.toNatBE (raw.slice 0 2)) (raw.slice 2 34) (raw.drop 34))

def parseSessionAuthenticate (raw : Bytes) : PyM Body :=
  if raw.length ≠ Const.sessionAuthenticateLength then .error .parse else
  idx raw 1 >>= fun uid =>
  .ok (.sessionAuthenticate uid (raw.drop 2))

def parseSessionStatus (raw : Bytes) : PyM Body :=
  if raw.length ≠ Const.sessionStatusLength then .error .parse else
  exceptValue (idx raw 0 >>= enumOf SecureSessionStatusCode.codes) (.error .parse) >>= fun st =>
  .ok (.sessionStatus st)

def parseTimerNotify (raw : Bytes) : PyM Body :=
  if raw.length ≠ Const.timerNotifyLength then .error .parse else
  .ok (.timerNotify (Bytes.toNatBE (raw.slice 0 6)) (raw.slice 6 12) (raw.slice 12 14) (raw.drop 14))

/-- The `if/elif` dispatch of `KNXIPFrame.from_knx` followed by `body.from_knx(raw_body)`;
service types without a body class raise `CouldNotParseKNXIP`. -/
def parseBody (st : Nat) (raw : Bytes) : PyM Body :=
  if st = ServiceType.search_request then parseSearchRequest raw
  else if st = ServiceType.search_request_extended then parseSearchRequestExtended raw
  else if st = ServiceType.search_response then parseSearchResponse false raw
  else if st = ServiceType.search_response_extended then parseSearchResponse true raw
  else if st = ServiceType.description_request then parseDescriptionRequest raw
  else if st = ServiceType.description_response then parseDescriptionResponse raw
  else if st = ServiceType.connect_request then parseConnectRequest raw
  else if st = ServiceType.connect_response then parseConnectResponse raw
  else if st = ServiceType.connectionstate_request then parseConnRequest .connectionState raw
  else if st = ServiceType.connectionstate_response then parseConnResponse .connectionState raw
  else if st = ServiceType.disconnect_request then parseConnRequest .disconnect raw
  else if st = ServiceType.disconnect_response then parseConnResponse .disconnect raw
  else if st = ServiceType.device_configuration_request then parseCemiRequest .deviceConfiguration raw
  else if st = ServiceType.device_configuration_ack then parseCemiAck .deviceConfiguration raw
  else if st = ServiceType.tunnelling_request then parseCemiRequest .tunnelling raw
  else if st = ServiceType.tunnelling_ack then parseCemiAck .tunnelling raw
  else if st = ServiceType.tunnelling_feature_get then parseFeature .get raw
  else if st = ServiceType.tunnelling_feature_info then parseFeature .info raw
  else if st = ServiceType.tunnelling_feature_response then parseFeatureResponse raw
  else if st = ServiceType.tunnelling_feature_set then parseFeature .set raw
  else if st = ServiceType.routing_indication then parseRoutingIndication raw
  else if st = ServiceType.routing_busy then parseRoutingBusy raw
  else if st = ServiceType.routing_lost_message then parseRoutingLostMessage raw
  else if st = ServiceType.secure_wrapper then parseSecureWrapper raw
  else if st = ServiceType.session_authenticate then parseSessionAuthenticate raw
  else if st = ServiceType.session_request then parseSessionRequest raw
  else if st = ServiceType.session_response then parseSessionResponse raw
  else if st = ServiceType.session_status then parseSessionStatus raw
  else if st = ServiceType.timer_notify then parseTimerNotify raw
  else .error .parse

/-! ### `calculated_length` and `to_knx` per class -/

def Body.calcLength : Body → Nat
  | .searchRequest _ => Const.hpaiLength
  | .searchRequestExtended _ srps => Const.hpaiLength + (srps.map (·.payloadSize)).sum
  | .searchResponse _ _ dibs => Const.hpaiLength + (dibs.map DIB.calcLength).sum
  | .descriptionRequest _ => Const.hpaiLength
  | .descriptionResponse dibs => (dibs.map DIB.calcLength).sum
  | .connectRequest _ _ cri => Const.hpaiLength + Const.hpaiLength + cri.calcLength
  | .connectResponse _ _ _ crd => 2 + Const.hpaiLength + crd.calcLength
  | .connRequest .. => 2 + Const.hpaiLength
  | .connResponse k .. => connResponseLength k
  | .cemiRequest k _ _ cemi => reqHeaderLength k + cemi.length
  | .cemiAck k .. => ackLength k
  | .feature k _ _ _ _ data =>
    Const.tunnellingFeatureHeaderLength + Const.tunnellingFeatureIdLength
      + (if k.hasData then data.length + data.length % 2 else 0)
  | .featureResponse _ _ _ _ _ data =>
    Const.tunnellingFeatureHeaderLength + Const.tunnellingFeatureIdLength + (data.length + data.length % 2)
  | .routingIndication cemi => cemi.length
  | .routingLostMessage .. => Const.routingLostMessageLength
  | .routingBusy .. => Const.routingBusyLength
  | .secureWrapper _ _ _ _ enc _ => Const.securityInformationLength + enc.length + Const.macLength
  | .sessionRequest .. => Const.sessionRequestLength
  | .sessionResponse .. => Const.sessionResponseLength
  | .sessionAuthenticate .. => Const.sessionAuthenticateLength
  | .sessionStatus .. => Const.sessionStatusLength
  | .timerNotify .. => Const.timerNotifyLength

/-- `struct.pack("{n}s", data)`: truncate or NUL-pad to `n` octets -/
def packS (n : Nat) (data : Bytes) : Bytes := data.take n ++ List.replicate (n - data.length) 0

def Body.serialize : Body → PyM Bytes
  | .searchRequest ep => ep.serialize
  | .searchRequestExtended ep srps =>
    ep.serialize >>= fun e => srps.mapM SRP.serialize >>= fun ss => .ok (e ++ ss.flatten)
  | .searchResponse _ ep dibs =>
    ep.serialize >>= fun e => dibs.mapM DIB.serialize >>= fun ds => .ok (e ++ ds.flatten)
  | .descriptionRequest ep => ep.serialize
  | .descriptionResponse dibs => dibs.mapM DIB.serialize >>= fun ds => .ok ds.flatten
  | .connectRequest ctrl data cri =>
    ctrl.serialize >>= fun c => data.serialize >>= fun d => cri.serialize >>= fun r => .ok (c ++ d ++ r)
  | .connectResponse ch status ep crd =>
    bytesOf [ch, status] >>= fun hd => ep.serialize >>= fun e => crd.serialize >>= fun c => .ok (hd ++ e ++ c)
  | .connRequest _ ch ep =>
    bytesOf [ch, 0] >>= fun hd => ep.serialize >>= fun e => .ok (hd ++ e)
  | .connResponse _ ch status => bytesOf [ch, status]
  | .cemiRequest k ch seq cemi =>
    bytesOf [reqHeaderLength k, ch, seq, 0] >>= fun hd => .ok (hd ++ cemi)
  | .cemiAck k ch seq status => bytesOf [ackLength k, ch, seq, status]
  | .feature k ch seq status ft data =>
    -- struct.pack("!BBBBBx{n}s", …): struct.error (modelled as ValueError) for an item outside range(256)
    bytesOf [Const.tunnellingFeatureHeaderLength, ch, seq, status, ft, 0] >>= fun hd =>
    .ok (hd ++ packS (if k.hasData then data.length + data.length % 2 else 0) data)
  | .featureResponse ch seq status ft rc data =>
    bytesOf [Const.tunnellingFeatureHeaderLength, ch, seq, status, ft, rc] >>= fun hd =>
    .ok (hd ++ packS (data.length + data.length % 2) data)
  | .routingIndication cemi => .ok cemi
  | .routingLostMessage st lost =>
    bytesOf [Const.routingLostMessageLength, st] >>= fun hd => toBytes lost 2 >>= fun l => .ok (hd ++ l)
  | .routingBusy st wait ctrl =>
    bytesOf [Const.routingBusyLength, st] >>= fun hd =>
    toBytes wait 2 >>= fun w => toBytes ctrl 2 >>= fun c => .ok (hd ++ w ++ c)
  | .secureWrapper sid seqInfo serial tag enc mac =>
    toBytes sid 2 >>= fun s => .ok (s ++ seqInfo ++ serial ++ tag ++ enc ++ mac)
  | .sessionRequest ep key => ep.serialize >>= fun e => .ok (e ++ key)
  | .sessionResponse sid key mac => toBytes sid 2 >>= fun s => .ok (s ++ key ++ mac)
  | .sessionAuthenticate uid mac => bytesOf [0, uid] >>= fun hd => .ok (hd ++ mac)
  | .sessionStatus st => bytesOf [st, 0]
  | .timerNotify timer serial tag mac => toBytes timer 6 >>= fun t => .ok (t ++ serial ++ tag ++ mac)

/-! ### canonical rendering (compared with the harness's rendering of the Python objects) -/

def ConnKind.name : ConnKind → String
  | .connectionState => "ConnectionState" | .disconnect => "Disconnect"
def ReqKind.name : ReqKind → String
  | .tunnelling => "Tunnelling" | .deviceConfiguration => "DeviceConfiguration"
def FeatKind.name : FeatKind → String
  | .get => "Get" | .set => "Set" | .info => "Info"

def Body.render : Body → String
  | .searchRequest ep => s!"SearchRequest:{ep.render}"
  | .searchRequestExtended ep srps => s!"SearchRequestExtended:{ep.render}:{renderList (srps.map SRP.render)}"
  | .searchResponse ext ep dibs =>
    (if ext then "SearchResponseExtended:" else "SearchResponse:") ++ s!"{ep.render}:{renderList (dibs.map DIB.render)}"
  | .descriptionRequest ep => s!"DescriptionRequest:{ep.render}"
  | .descriptionResponse dibs => s!"DescriptionResponse:{renderList (dibs.map DIB.render)}"
  | .connectRequest c d cri => s!"ConnectRequest:{c.render}:{d.render}:{cri.render}"
  | .connectResponse ch st ep crd => s!"ConnectResponse:{ch}:{st}:{ep.render}:{crd.render}"
  | .connRequest k ch ep => s!"{k.name}Request:{ch}:{ep.render}"
  | .connResponse k ch st => s!"{k.name}Response:{ch}:{st}"
  | .cemiRequest k ch seq cemi => s!"{k.name}Request:{ch}:{seq}:{hex cemi}"
  | .cemiAck k ch seq st => s!"{k.name}Ack:{ch}:{seq}:{st}"
  | .feature k ch seq st ft data => s!"TunnellingFeature{k.name}:{ch}:{seq}:{st}:{ft}:{hex data}"
  | .featureResponse ch seq st ft rc data => s!"TunnellingFeatureResponse:{ch}:{seq}:{st}:{ft}:{rc}:{hex data}"
  | .routingIndication cemi => s!"RoutingIndication:{hex cemi}"
  | .routingLostMessage st lost => s!"RoutingLostMessage:{st}:{lost}"
  | .routingBusy st w c => s!"RoutingBusy:{st}:{w}:{c}"
  | .secureWrapper sid si ser tag enc mac => s!"SecureWrapper:{sid}:{hex si}:{hex ser}:{hex tag}:{hex enc}:{hex mac}"
  | .sessionRequest ep key => s!"SessionRequest:{ep.render}:{hex key}"
  | .sessionResponse sid key mac => s!"SessionResponse:{sid}:{hex key}:{hex mac}"
  | .sessionAuthenticate uid mac => s!"SessionAuthenticate:{uid}:{hex mac}"
  | .sessionStatus st => s!"SessionStatus:{st}"
  | .timerNotify t ser tag mac => s!"TimerNotify:{t}:{hex ser}:{hex tag}:{hex mac}"

end XknxVerif.KNXIP
