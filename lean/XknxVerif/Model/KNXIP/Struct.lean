/-
Models of the KNX/IP sub-structures: HPAI (hpai.py), CRI (connect_request.py),
CRD (connect_response.py), DIB variants (dib.py), SRP (srp.py).
`parse` mirrors `from_knx` (returns the value and the number of octets the
Python method returns), `serialize` mirrors `to_knx` / `__bytes__`,
`calcLength` mirrors `calculated_length` / `__len__`.
Core Lean only.  Branch for branch after the `fix:` commits of branch b-knxip.
-/
import XknxVerif.Model.KNXIP.Basic
import XknxVerif.Generated.KNXIPEnums
import XknxVerif.Generated.KNXIPConst

namespace XknxVerif.KNXIP
open XknxVerif.Generated.KNXIP

/-! ## HPAI -/

structure HPAI where
  proto : Nat
  /-- the four octets of the dotted quad -/
  ip : Bytes
  port : Nat
  deriving DecidableEq, Repr

/-- `HPAI()` -/
def HPAI.default : HPAI := ⟨HostProtocol.ipv4_udp, [0, 0, 0, 0], 0⟩

/-- `HPAI.from_knx` -/
def HPAI.parse (raw : Bytes) : PyM (HPAI × Nat) :=
  if raw.length < Const.hpaiLength then .error .parse else
  idx raw 0 >>= fun b0 =>
  if b0 ≠ Const.hpaiLength then .error .parse else
  exceptValue (idx raw 1 >>= enumOf HostProtocol.codes) (.error .parse) >>= fun proto =>
  inetNtoa (raw.slice 2 6) >>= fun ip =>
  idx raw 6 >>= fun p6 =>
  idx raw 7 >>= fun p7 =>
  .ok (⟨proto, ip, p6 * 256 + p7⟩, Const.hpaiLength)

/-- `HPAI.to_knx` -/
def HPAI.serialize (h : HPAI) : PyM Bytes :=
  match (bytesOf [Const.hpaiLength, h.proto] >>= fun hd =>
         inetAton h.ip >>= fun ip =>
         toBytes h.port 2 >>= fun p =>
         (.ok (hd ++ ip ++ p) : PyM Bytes)) with
  | .error .osError => .error .conversion
  | .error .overflow => .error .conversion
  | r => r

def HPAI.render (h : HPAI) : String := s!"H{h.proto}.{hex h.ip}.{h.port}"

/-! ## CRI -/

structure CRI where
  connType : Nat
  layer : Nat
  ia : Option Nat
  deriving DecidableEq, Repr

/-- `ConnectRequestInformation()` -/
def CRI.default : CRI := ⟨ConnectRequestType.tunnel_connection, TunnellingLayer.data_link_layer, none⟩

def CRI.isTunnel (c : CRI) : Bool := c.connType == ConnectRequestType.tunnel_connection

/-- `ConnectRequestInformation.calculated_length` -/
def CRI.calcLength (c : CRI) : Nat :=
  if c.isTunnel then (if c.ia.isSome then Const.criTunnelExtLength else Const.criTunnelLength)
  else Const.criLength

/-- `ConnectRequestInformation.from_knx` on a fresh object -/
def CRI.parse (raw : Bytes) : PyM (CRI × Nat) :=
  if raw.length < Const.criLength then .error .parse else
  idx raw 0 >>= fun len =>
  if raw.length < len then .error .parse else
  if len < Const.criLength then .error .parse else
  exceptValue (idx raw 1 >>= enumOf ConnectRequestType.codes) (.error .parse) >>= fun ct =>
  if ct = ConnectRequestType.tunnel_connection then
    (if len = Const.criTunnelLength then .ok false
     else if len = Const.criTunnelExtLength then .ok true
     else .error .parse : PyM Bool) >>= fun extended =>
    exceptValue (idx raw 2 >>= enumOf TunnellingLayer.codes) (.error .parse) >>= fun layer =>
    .ok (⟨ct, layer, if extended then some (Bytes.toNatBE (raw.slice 4 6)) else none⟩, len)
  else if len ≠ Const.criLength then .error .parse
  else .ok (⟨ct, CRI.default.layer, none⟩, len)

/-- `ConnectRequestInformation.to_knx` -/
def CRI.serialize (c : CRI) : PyM Bytes :=
  bytesOf [c.calcLength, c.connType] >>= fun hd =>
  if c.isTunnel then
    bytesOf [c.layer, 0] >>= fun l =>
    match c.ia with
    | some a => toBytes a 2 >>= fun ab => .ok (hd ++ l ++ ab)
    | none => .ok (hd ++ l)
  else .ok hd

def renderOpt : Option Nat → String
  | some a => toString a
  | none => "-"

def CRI.render (c : CRI) : String := s!"C{c.connType}.{c.layer}.{renderOpt c.ia}"

/-! ## CRD -/

structure CRD where
  reqType : Nat
  ia : Option Nat
  deriving DecidableEq, Repr

/-- `ConnectResponseData()` -/
def CRD.default : CRD := ⟨ConnectRequestType.tunnel_connection, none⟩

def CRD.isTunnel (c : CRD) : Bool := c.reqType == ConnectRequestType.tunnel_connection

def CRD.calcLength (c : CRD) : Nat :=
  if c.isTunnel then Const.crdTunnelLength else Const.crdLength

/-- `ConnectResponseData.from_knx` on a fresh object -/
def CRD.parse (raw : Bytes) : PyM (CRD × Nat) :=
  if raw.length < Const.crdLength then .error .parse else
  idx raw 0 >>= fun len =>
  if raw.length < len then .error .parse else
  if len < Const.crdLength then .error .parse else
  exceptValue (idx raw 1 >>= enumOf ConnectRequestType.codes) (.error .parse) >>= fun rt =>
  if rt = ConnectRequestType.tunnel_connection then
    if len ≠ Const.crdTunnelLength then .error .parse
    else .ok (⟨rt, some (Bytes.toNatBE (raw.slice 2 4))⟩, len)
  else if len ≠ Const.crdLength then .error .parse
  else .ok (⟨rt, none⟩, len)

/-- `ConnectResponseData.to_knx` -/
def CRD.serialize (c : CRD) : PyM Bytes :=
  bytesOf [c.calcLength, c.reqType] >>= fun hd =>
  if c.isTunnel then
    match c.ia with
    | none => .error .assertion
    | some a => toBytes a 2 >>= fun ab => .ok (hd ++ ab)
  else .ok hd

def CRD.render (c : CRD) : String := s!"D{c.reqType}.{renderOpt c.ia}"

/-! ## DIB -/

/-- `TunnelingSlotStatus` -/
structure SlotStatus where
  usable : Bool
  authorized : Bool
  free : Bool
  deriving DecidableEq, Repr

def SlotStatus.ofOctet (x : Nat) : SlotStatus :=
  ⟨(x >>> 2) &&& 1 != 0, (x >>> 1) &&& 1 != 0, x &&& 1 != 0⟩

def SlotStatus.toOctet (s : SlotStatus) : Nat :=
  (natOfBool s.usable <<< 2) ||| (natOfBool s.authorized <<< 1) ||| natOfBool s.free

inductive DIB where
  /-- `DIBGeneric`: `dtc` is the raw description type code (the Python attribute is the enum member when one exists) -/
  | generic (dtc : Nat) (data : Bytes)
  /-- `DIBDeviceInformation`; serial, mac: the six octets behind the colon-hex strings; mcast: four octets;
  name: latin-1 code points -/
  | deviceInfo (medium : Nat) (progMode : Bool) (ia : Nat) (project installation : Nat)
      (serial : Bytes) (mcast : Bytes) (mac : Bytes) (name : Bytes)
  /-- `DIBSuppSVCFamilies` (`secured = false`) / `DIBSecuredServiceFamilies` (`secured = true`) -/
  | families (secured : Bool) (fams : List (Nat × Nat))
  /-- `DIBTunnelingInfo`; `slots` is the dict in insertion order -/
  | tunnelingInfo (maxApdu : Nat) (slots : List (Nat × SlotStatus))
  deriving DecidableEq, Repr

def familiesCode (secured : Bool) : Nat :=
  if secured then DIBTypeCode.secured_service_families else DIBTypeCode.supp_svc_families

/-- `dict[key] = value` on an insertion-ordered dict -/
def dictSet {α β} [DecidableEq α] : List (α × β) → α → β → List (α × β)
  | [], k, v => [(k, v)]
  | (k', v') :: rest, k, v => if k' = k then (k', v) :: rest else (k', v') :: dictSet rest k v

/-- `DIBGeneric.from_knx` -/
def DIB.parseGeneric (raw : Bytes) : PyM (DIB × Nat) :=
  if raw.length < 2 then .error .parse else
  idx raw 0 >>= fun len =>
  if len < Const.dibHeaderLength ∨ raw.length < len then .error .parse else
  idx raw 1 >>= fun dtc =>
  .ok (.generic dtc (raw.slice 2 len), len)

/-- `DIBDeviceInformation.from_knx` -/
def DIB.parseDeviceInfo (raw : Bytes) : PyM (DIB × Nat) :=
  if raw.length < Const.dibDeviceInfoLength then .error .parse else
  idx raw 0 >>= fun b0 =>
  if b0 ≠ Const.dibDeviceInfoLength then .error .parse else
  idx raw 1 >>= fun b1 =>
  if b1 ≠ DIBTypeCode.device_info then .error .parse else
  exceptValue (idx raw 2 >>= enumOf KNXMedium.codes) (.error .parse) >>= fun medium =>
  idx raw 3 >>= fun b3 =>
  idx raw 6 >>= fun b6 =>
  idx raw 7 >>= fun b7 =>
  inetNtoa (raw.slice 14 18) >>= fun mcast =>
  let ipi := b6 * 256 + b7
  .ok (.deviceInfo medium (b3 != 0) (Bytes.toNatBE (raw.slice 4 6)) (ipi >>> 4) (ipi &&& 15)
        (raw.slice 8 14) mcast (raw.slice 18 24) (rstripZeros (raw.slice 24 54)),
       Const.dibDeviceInfoLength)

/-- the `for pos in range(pos, …, 2)` loop of `_DIBServiceFamilies.from_knx`, `n` iterations left -/
def DIB.familyLoop (raw : Bytes) : (pos n : Nat) → PyM (List (Nat × Nat))
  | _, 0 => .ok []
  | pos, n + 1 =>
    exceptValue (idx raw pos >>= enumOf DIBServiceFamily.codes) (.error .parse) >>= fun name =>
    idx raw (pos + 1) >>= fun version =>
    DIB.familyLoop raw (pos + 2) n >>= fun rest =>
    .ok ((name, version) :: rest)

/-- `_DIBServiceFamilies.from_knx` (`range(2, length, 2)` has `(length - 2 + 1) / 2` elements) -/
def DIB.parseFamilies (secured : Bool) (raw : Bytes) : PyM (DIB × Nat) :=
  if raw.length < 2 then .error .parse else
  idx raw 0 >>= fun len =>
  if len < Const.dibHeaderLength ∨ raw.length < len ∨ len % 2 ≠ 0 then .error .parse else
  idx raw 1 >>= fun b1 =>
  if b1 ≠ familiesCode secured then .error .parse else
  DIB.familyLoop raw 2 ((len - 2 + 1) / 2) >>= fun fams =>
  .ok (.families secured fams, len)

/-- the `for pos in range(pos, …, 4)` loop of `DIBTunnelingInfo.from_knx`; `acc` is `self.slots` -/
def DIB.slotLoop (raw : Bytes) : (pos n : Nat) → List (Nat × SlotStatus) → PyM (List (Nat × SlotStatus))
  | _, 0, acc => .ok acc
  | pos, n + 1, acc =>
    idx raw (pos + 3) >>= fun st =>
    DIB.slotLoop raw (pos + 4) n (dictSet acc (Bytes.toNatBE (raw.slice pos (pos + 2))) (SlotStatus.ofOctet st))

/-- `DIBTunnelingInfo.from_knx` -/
def DIB.parseTunnelingInfo (raw : Bytes) : PyM (DIB × Nat) :=
  if raw.length < 4 then .error .parse else
  idx raw 0 >>= fun len =>
  if len < 4 ∨ raw.length < len ∨ len % 4 ≠ 0 then .error .parse else
  idx raw 1 >>= fun b1 =>
  if b1 ≠ DIBTypeCode.tunneling_info then .error .parse else
  DIB.slotLoop raw 4 ((len - 4 + 3) / 4) [] >>= fun slots =>
  .ok (.tunnelingInfo (Bytes.toNatBE (raw.slice 2 4)) slots, len)

/-- `DIB.determine_dib(raw)` followed by `dib.from_knx(raw)` -/
def DIB.parse (raw : Bytes) : PyM (DIB × Nat) :=
  if raw.length < 2 then .error .parse else
  idx raw 1 >>= fun t =>
  if t ∉ DIBTypeCode.codes then DIB.parseGeneric raw
  else if t = DIBTypeCode.device_info then DIB.parseDeviceInfo raw
  else if t = DIBTypeCode.supp_svc_families then DIB.parseFamilies false raw
  else if t = DIBTypeCode.secured_service_families then DIB.parseFamilies true raw
  else if t = DIBTypeCode.tunneling_info then DIB.parseTunnelingInfo raw
  else DIB.parseGeneric raw

/-- `calculated_length` -/
def DIB.calcLength : DIB → Nat
  | .generic _ data => Const.dibHeaderLength + data.length + data.length % 2
  | .deviceInfo .. => Const.dibDeviceInfoLength
  | .families _ fams => fams.length * 2 + Const.dibHeaderLength
  | .tunnelingInfo _ slots => 2 + 2 + slots.length * 4

/-- `to_knx` -/
def DIB.serialize : DIB → PyM Bytes
  | d@(.generic dtc data) =>
    -- `DIBTypeCode(self.dtc)`; ValueError → CouldNotParseKNXIP("DTC invalid")
    exceptValue (enumOf DIBTypeCode.codes dtc) (.error .parse) >>= fun dtc =>
    bytesOf [d.calcLength, dtc] >>= fun hd =>
    .ok (hd ++ data ++ List.replicate (data.length % 2) 0)
  | .deviceInfo medium prog ia project inst serial mcast mac name =>
    toBytes (project * 16 + inst) 2 >>= fun ipi =>
    bytesOf [Const.dibDeviceInfoLength, DIBTypeCode.device_info, medium, natOfBool prog] >>= fun hd =>
    toBytes ia 2 >>= fun iab =>
    inetAton mcast >>= fun mc =>
    -- `bytes(string[:30], "latin_1")`: UnicodeEncodeError is a ValueError
    (if (name.take 30).all (· < 256) then .ok (ljustZeros (name.take 30) 30) else .error .valueError) >>= fun nm =>
    .ok (hd ++ iab ++ ipi ++ serial ++ mc ++ mac ++ nm)
  | d@(.families secured fams) =>
    bytesOf [d.calcLength, familiesCode secured] >>= fun hd =>
    fams.mapM (fun f => bytesOf [f.1, f.2]) >>= fun fs =>
    .ok (hd ++ fs.flatten)
  | d@(.tunnelingInfo maxApdu slots) =>
    bytesOf [d.calcLength, DIBTypeCode.tunneling_info] >>= fun hd =>
    toBytes maxApdu 2 >>= fun ma =>
    slots.mapM (fun s => toBytes s.1 2 >>= fun a => .ok (a ++ [0, s.2.toOctet])) >>= fun ss =>
    .ok (hd ++ ma ++ ss.flatten)

def SlotStatus.render (s : SlotStatus) : String := toString s.toOctet

def DIB.render : DIB → String
  | .generic dtc data => s!"G{dtc}.{hex data}"
  | .deviceInfo medium prog ia project inst serial mcast mac name =>
    s!"I{medium}.{natOfBool prog}.{ia}.{project}.{inst}.{hex serial}.{hex mcast}.{hex mac}.{hex name}"
  | .families secured fams =>
    (if secured then "X" else "S") ++ renderList (fams.map fun f => s!"{f.1}.{f.2}")
  | .tunnelingInfo maxApdu slots =>
    s!"T{maxApdu}" ++ renderList (slots.map fun s => s!"{s.1}.{s.2.render}")

/-! ## SRP -/

structure SRP where
  ty : Nat
  mandatory : Bool
  data : Bytes
  payloadSize : Nat
  deriving DecidableEq, Repr

/-- `SRP.__init__` (raises `ConversionError`) -/
def SRP.init (ty : Nat) (mandatory : Bool) (data : Bytes) : PyM SRP :=
  if ty = SRPType.select_by_service then
    if data.isEmpty ∨ data.length ≠ Const.srpServicePayloadLength then .error .conversion
    else .ok ⟨ty, mandatory, data, Const.srpHeaderSize + Const.srpServicePayloadLength⟩
  else if ty = SRPType.select_by_mac_address then
    if data.isEmpty ∨ data.length ≠ Const.srpMacPayloadLength then .error .conversion
    else .ok ⟨ty, mandatory, data, Const.srpHeaderSize + Const.srpMacPayloadLength⟩
  else if ty = SRPType.request_dibs then
    if data.isEmpty then .error .conversion
    else
      let data' := if data.length % 2 ≠ 0 then data ++ [0] else data
      .ok ⟨ty, mandatory, data', Const.srpHeaderSize + data'.length⟩
  else .ok ⟨ty, mandatory, data, Const.srpHeaderSize⟩

/-- `SRP.from_knx` -/
def SRP.parse (data : Bytes) : PyM SRP :=
  if data.length < Const.srpHeaderSize then .error .parse else
  idx data 0 >>= fun size =>
  if size > data.length then .error .parse else
  exceptValueConversion
    (idx data 1 >>= fun b1 =>
     enumOf SRPType.codes (b1 &&& 0x7F) >>= fun ty =>
     SRP.init ty (b1 >>> 7 != 0) (data.slice 2 size))
    (.error .parse)

/-- `SRP.__bytes__` -/
def SRP.serialize (s : SRP) : PyM Bytes :=
  bytesOf [s.payloadSize, (natOfBool s.mandatory <<< 7) ||| (s.ty &&& 7)] >>= fun hd =>
  .ok (hd ++ s.data)

def SRP.render (s : SRP) : String := s!"P{s.ty}.{natOfBool s.mandatory}.{hex s.data}.{s.payloadSize}"

end XknxVerif.KNXIP
