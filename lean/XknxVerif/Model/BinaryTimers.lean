/-
C42 — timed reset (`reset_after`) of Switch / BinarySensor and the BinarySensor press
counter (`context_timeout`).  Mode-R monitor over the observable alphabet.

Mirrors xknx/devices/switch.py, xknx/devices/binary_sensor.py, the parts of
xknx/remote_value/remote_value.py (`process`: when the callback runs) and
xknx/core/task_registry.py (`start_task` = cancel + restart, `wait_before_start`) they use.
Times are integer microseconds.

Orders the monitor leaves open (documented, DESIGN §1.1a):
* the outputs of ONE atomic reaction (a telegram, a timer firing) may appear in any order
  (e.g. Switch: bus write and device callback; BinarySensor: the two context callbacks);
* a timer due at exactly the time of an output may or may not have fired before another timer
  due at the same instant — the observed outputs decide.
Strict (timer-first discipline of the harness, which yields until the loop is quiescent before it
injects anything): a timer due at `t` has fired before an input / sample taken at `t`.
Core Lean only.
-/
import XknxVerif.Model.TraceRun

namespace XknxVerif.BinaryTimers

structure Cfg where
  /-- `true`: `Switch`, `false`: `BinarySensor`. -/
  switch : Bool
  /-- `reset_after` in µs (`none`: no reset task). -/
  reset : Option Nat
  /-- `context_timeout` in µs; `0` = not configured (`if context_timeout:`). -/
  ctx : Nat
  /-- `ignore_internal_state` as passed to the constructor. -/
  ign : Bool
  /-- `always_callback`. -/
  always : Bool
  deriving DecidableEq, Repr

/-- `self.ignore_internal_state = ignore_internal_state or bool(context_timeout)`. -/
def Cfg.ignEff (c : Cfg) : Bool := c.ign || c.ctx != 0

/-- Observable outputs of the device. -/
inductive Out where
  /-- `device_updated_cb` ran at `t`, reading `state` (`none` = Python `None`) and `counter` (0 for `None`). -/
  | cb (st : Option Bool) (n : Nat) (t : Nat)
  /-- Switch only: a GroupValueWrite with this value left through the interface at `t` (and was processed). -/
  | bw (b : Bool) (t : Nat)
  deriving DecidableEq, Repr

def Out.time : Out → Nat
  | .cb _ _ t => t
  | .bw _ t => t

inductive Obs where
  /-- incoming GroupValueWrite -/
  | tw (b : Bool) (t : Nat)
  /-- incoming GroupValueResponse -/
  | tr (b : Bool) (t : Nat)
  /-- Switch only: `set_on()` / `set_off()` -/
  | api (b : Bool) (t : Nat)
  /-- a telegram on the device's group address that the device must ignore: a payload its DPT cannot decode
  (`RemoteValue.process` returns `False`) or a GroupValueRead -/
  | ig (t : Nat)
  | out (o : Out)
  /-- state sample at a quiescent instant: `state`, `counter` -/
  | q (st : Option Bool) (n : Nat) (t : Nat)
  /-- end of the observation (quiescent) -/
  | fin (t : Nat)
  deriving DecidableEq, Repr

def Obs.time : Obs → Nat
  | .tw _ t | .tr _ t | .api _ t | .ig t | .q _ _ t | .fin t => t
  | .out o => o.time

structure St where
  now : Nat := 0
  /-- `BinarySensor.state` / `Switch.state` (= `switch.value`). -/
  st : Option Bool := none
  /-- sensor: `remote_value._value`. -/
  rv : Option Bool := none
  /-- sensor: `remote_value.telegram` is a GroupValueWrite. -/
  lastWrite : Bool := false
  resetAt : Option Nat := none
  ctxAt : Option Nat := none
  /-- `_last_set` -/
  lastSet : Option Nat := none
  cOn : Nat := 0
  cOff : Nat := 0
  /-- outputs of the current atomic reaction not yet observed -/
  expect : List Out := []
  -- ghost (never read by the monitor's decisions)
  /-- time of the telegram that armed the reset timer last -/
  lastOn : Option Nat := none
  /-- counted events (time, state), most recent first -/
  hist : List (Nat × Bool) := []
  /-- all outputs observed so far, most recent first -/
  log : List Out := []
  deriving DecidableEq, Repr

def init : St := {}

/-- `BinarySensor.counter` (0 stands for `None`). -/
def counter (c : Cfg) (s : St) : Nat :=
  if c.ctx != 0 then (if s.st == some true then s.cOn else s.cOff) else 0

/-- `bump_and_get_counter(state)` at time `t`. -/
def bump (c : Cfg) (s : St) (v : Bool) (t : Nat) : St :=
  let within := match s.lastSet with
    | none => false
    | some l => decide (t - l < c.ctx)
  let s := { s with lastSet := some t, hist := (t, v) :: s.hist }
  if within then
    (if v then { s with cOn := s.cOn + 1 } else { s with cOff := s.cOff + 1 })
  else
    (if v then { s with cOn := 1, cOff := 0 } else { s with cOn := 0, cOff := 1 })

/-- `BinarySensor._set_internal_state(v)` at time `t`. -/
def setInternal (c : Cfg) (s : St) (v : Bool) (t : Nat) : St × List Out :=
  if s.st != some v || (c.ignEff && s.lastWrite) then
    let s := { s with st := some v }
    if c.ignEff && c.ctx != 0 then
      let s := bump c s v t
      ({ s with ctxAt := some (t + c.ctx) }, [])
    else (s, [.cb (some v) (counter c s) t])
  else if c.always then (s, [.cb s.st (counter c s) t])
  else (s, [])

/-- `_process_reset_after` / the Switch's `if self._reset_task is not None and self.switch.value`. -/
def armReset (c : Cfg) (s : St) (t : Nat) : St :=
  match c.reset with
  | some r => if s.st == some true then { s with resetAt := some (t + r), lastOn := some t } else s
  | none => s

/-- Switch: a GroupValueWrite/Response for the switch address is processed (incoming, or its own outgoing one). -/
def switchProcess (c : Cfg) (s : St) (v : Bool) (t : Nat) : St × List Out :=
  let outs := if s.st != some v then [Out.cb (some v) 0 t] else []
  (armReset c { s with st := some v } t, outs)

/-- BinarySensor: incoming GroupValueWrite (`process(..., always_callback=True)`). -/
def sensorWrite (c : Cfg) (s : St) (v : Bool) (t : Nat) : St × List Out :=
  let (s, outs) := setInternal c { s with rv := some v, lastWrite := true } v t
  (armReset c s t, outs)

/-- BinarySensor: incoming GroupValueResponse (`process(..., always_callback=self.always_callback)`). -/
def sensorResponse (c : Cfg) (s : St) (v : Bool) (t : Nat) : St × List Out :=
  if s.rv == none || c.always || s.rv != some v then
    let (s, outs) := setInternal c { s with rv := some v, lastWrite := false } v t
    (armReset c s t, outs)
  else (armReset c s t, [])

/-- The reset task's target runs at `t` (`set_off()` for the Switch, `_set_internal_state(False)` for the sensor). -/
def fireReset (c : Cfg) (s : St) (t : Nat) : St × List Out :=
  let s := { s with resetAt := none }
  if c.switch then
    let (s, outs) := switchProcess c s false t
    (s, .bw false t :: outs)
  else setInternal c s false t

/-- `_counter_task` runs at `t`: one callback with the counters, reset, one more callback. -/
def fireCtx (c : Cfg) (s : St) (t : Nat) : St × List Out :=
  let s1 := { s with ctxAt := none, cOn := 0, cOff := 0 }
  (s1, [.cb s.st (counter c s) t, .cb s.st 0 t])

def due (t : Nat) (incl : Bool) (d : Nat) : Bool := if incl then d ≤ t else d < t

def dueOpt (t : Nat) (incl : Bool) : Option Nat → Bool
  | some d => due t incl d
  | none => false

/-- At equal deadlines the (silent) reset firing is taken first: had the context task fired first its
callbacks would have been observed. -/
def resetFirst (s : St) (r : Nat) : Bool :=
  match s.ctxAt with
  | some x => decide (r ≤ x)
  | none => true

/-- A reset firing without observable output that is due is applied. -/
def advance1 (c : Cfg) (s : St) (t : Nat) (incl : Bool) : Option St :=
  match s.resetAt with
  | some r =>
    if due t incl r && resetFirst s r then
      (if (fireReset c s r).2.isEmpty then some (fireReset c s r).1 else none)
    else some s
  | none => some s

/-- Let time pass up to `t` (`incl`: timers due at exactly `t` must have fired as well).
A reset firing without observable output is applied; any other armed timer that is due means
an output was missed → reject. -/
def advance (c : Cfg) (s : St) (t : Nat) (incl : Bool) : Option St :=
  (advance1 c s t incl).bind fun s1 =>
    if dueOpt t incl s1.resetAt || dueOpt t incl s1.ctxAt then none else some s1

/-- An input reaction: outputs become expectations. -/
def react (t : Nat) (r : St × List Out) : St :=
  { r.1 with now := t, expect := r.2 }

/-- An output observed while nothing is expected: a timer due at exactly `t` fires. -/
def fireAt (c : Cfg) (s : St) (o : Out) (t : Nat) : Option St :=
  let viaReset : Option St :=
    if s.resetAt == some t then
      let (s', outs) := fireReset c s t
      if outs.contains o then some { s' with now := t, expect := outs.erase o, log := o :: s'.log } else none
    else none
  match viaReset with
  | some s' => some s'
  | none =>
    if s.ctxAt == some t then
      let (s', outs) := fireCtx c s t
      if outs.contains o then some { s' with now := t, expect := outs.erase o, log := o :: s'.log } else none
    else none

/-- The atomic reaction of the device to an input at its time stamp (`none`: not an input, or an
API call on a device that has none). -/
def inputReaction (c : Cfg) (s : St) : Obs → Option (St × List Out)
  | .tw v t => some (if c.switch then switchProcess c s v t else sensorWrite c s v t)
  | .tr v t => some (if c.switch then switchProcess c s v t else sensorResponse c s v t)
  | .api v t =>
    if c.switch then some ((switchProcess c s v t).1, .bw v t :: (switchProcess c s v t).2) else none
  | .ig _ => some (s, [])
  | _ => none

/-- Samples and the end marker: taken at quiescent instants; a sample must agree with the model. -/
def sampleOk (c : Cfg) (s : St) : Obs → Option Bool
  | .q st n _ => some (s.st == st && counter c s == n)
  | .fin _ => some true
  | _ => none

def step? (c : Cfg) (s : St) (o : Obs) : Option St :=
  if o.time < s.now then none else
  match o with
  | .out x =>
    if s.expect.isEmpty then
      (advance c s x.time false).bind fun s1 => fireAt c s1 x x.time
    else if x.time == s.now && s.expect.contains x then
      some { s with expect := s.expect.erase x, log := x :: s.log }
    else none
  | o =>
    if !s.expect.isEmpty then none else
    (advance c s o.time true).bind fun s1 =>
      match sampleOk c s1 o with
      | some ok => if ok then some { s1 with now := o.time } else none
      | none => (inputReaction c s1 o).map (react o.time)

def accepts (c : Cfg) (tr : List Obs) : Bool := (TraceRun.run? (step? c) init tr).isSome

/-! ### Reference definition for the counter (what the property text calls "counts … telegrams
that arrive within the timeout of each other") -/

/-- Number of events with state `v` in the current burst; `hist` is most-recent-first; a burst is a
maximal run of events whose successive gaps are `< ctx`. -/
def burstCount (ctx : Nat) (v : Bool) : List (Nat × Bool) → Nat
  | [] => 0
  | [(_, b)] => if b == v then 1 else 0
  | (t, b) :: (t', b') :: rest =>
    (if b == v then 1 else 0) + (if t - t' < ctx then burstCount ctx v ((t', b') :: rest) else 0)

/-! ### Vocabulary of the property statements (functions of the observed trace) -/

/-- Time stamp of an 'on' telegram / `set_on()` call. -/
def onInputTime : Obs → Option Nat
  | .tw true t | .tr true t | .api true t => some t
  | _ => none

/-- An 'off' telegram / `set_off()` call. -/
def isOffInput : Obs → Bool
  | .tw false _ | .tr false _ | .api false _ => true
  | _ => false

/-- Time of the last 'on' telegram in the trace. -/
def lastOnTime (tr : List Obs) : Option Nat :=
  tr.foldl (fun acc o => match onInputTime o with | some t => some t | none => acc) none

/-- The outputs observed in the trace, in order. -/
def outsOf (tr : List Obs) : List Out :=
  tr.filterMap fun o => match o with | .out x => some x | _ => none

/-- The GroupValueWrite telegrams of the trace as (time, state), most recent first. -/
def writesOf (tr : List Obs) : List (Nat × Bool) :=
  (tr.filterMap fun o => match o with | .tw v t => some (t, v) | _ => none).reverse

/-! ### Line protocol -/

def parseBool (s : String) : Option Bool :=
  if s == "1" then some true else if s == "0" then some false else none

def parseOptNat (s : String) : Option (Option Nat) :=
  if s == "-" then some none else s.toNat?.map some

/-- state token: 0 / 1 / 2 (= None) -/
def parseSt (s : String) : Option (Option Bool) :=
  if s == "2" then some none else (parseBool s).map some

def parseCfg (s : String) : Option Cfg :=
  match s.splitOn ":" with
  | [k, r, x, i, a] => do
    let sw ← if k == "s" then some true else if k == "b" then some false else none
    let r ← parseOptNat r
    let x ← x.toNat?
    let i ← parseBool i
    let a ← parseBool a
    pure ⟨sw, r, x, i, a⟩
  | _ => none

def parseObs (s : String) : Option Obs :=
  match s.splitOn "," with
  | ["tw", b, t] => do pure (.tw (← parseBool b) (← t.toNat?))
  | ["tr", b, t] => do pure (.tr (← parseBool b) (← t.toNat?))
  | ["api", b, t] => do pure (.api (← parseBool b) (← t.toNat?))
  | ["ig", t] => do pure (.ig (← t.toNat?))
  | ["cb", st, n, t] => do pure (.out (.cb (← parseSt st) (← n.toNat?) (← t.toNat?)))
  | ["bw", b, t] => do pure (.out (.bw (← parseBool b) (← t.toNat?)))
  | ["q", st, n, t] => do pure (.q (← parseSt st) (← n.toNat?) (← t.toNat?))
  | ["fin", t] => do pure (.fin (← t.toNat?))
  | _ => none

def parseTrace (s : String) : Option (List Obs) :=
  if s == "-" then some [] else (s.splitOn ";").mapM parseObs

-- DRIVER: c42 => XknxVerif.BinaryTimers.handle
/-- `monitor <kind:reset:ctx:ign:always> <obs;obs;…>` → `accept` | `reject@<index>` -/
def handle : List String → String
  | ["monitor", cfg, tr] =>
    match parseCfg cfg, parseTrace tr with
    | some c, some t =>
      match TraceRun.firstReject (step? c) init t 0 with
      | none => "accept"
      | some k => s!"reject@{k}"
    | _, _ => "bad-op"
  | _ => "bad-op"

end XknxVerif.BinaryTimers
