/-
Model of xknx/io/ip_secure.py : `SecureSession` (connect / handshake bookkeeping, handle_knxipframe,
send, stop, keepalive) as a monitor over the observable trace (mode R).  Times are integer milliseconds.
Core Lean only.

Received-frame abstraction:  Plain(service) | SessionResponse(sid, macOk) |
Wrapped(sid, seq, macOk, inner ∈ {service v, unparsable}) — `macOk` is the verdict of the harness-side
server that built the frame (independent crypto) and is an UNINTERPRETED input here.
A nested wrapper is `inner = service SECURE_WRAPPER`.

Key epochs (multi-session histories on ONE object): every `connect()` makes a fresh ECDH key pair; the harness
numbers the distinct client public keys it sees in SessionRequests (`kp`) and its own server keys (`es`).  A session
key is identified by its epoch `(kp, es)`.  Frames carry the epoch they were wrapped under; `macOk` means "the MAC
verifies under the session key the client CURRENTLY holds", and the monitor assumes `macOk → epoch = current epoch`.

Observations (`t` first):
  conn dap                       `connect()` started; device authentication configured or not
  rxr sid macOk es out           plain SessionResponse (server key es) received; out ∈ fwd | drop
  rxp svc out                    any other plain frame received
  rxw sid seq macOk inner ek es out   SecureWrapper (made under epoch (ek, es)) received; out ∈ fwd | drop | exc
  ap svc kp                      plain frame written by the session itself: the SessionRequest of connect() with key pair kp
  aw seq svc aux ok sid ek es    wrapper written by the session itself (SessionAuthenticate, keepalive); opened by the server
  snd svc aux out                `send(frame)` called; out ∈ plain | wrapped seq ek es | errIpsec | errComm
  stop out                       `stop()` / connection lost; out ∈ nothing | wrapped seq ek es (SessionStatus CLOSE)
  poke v                         harness sets `_sequence_number := v`
  cres kind                      `connect()` finished
  st init seqRecv seqSend        probe of `initialized`, `_sequence_number_received`, `_sequence_number`

Left open: when `cres` arrives; which status a forwarded SessionStatus carries; time stamps of everything but keepalives.
-/
import XknxVerif.Py.Basic
import XknxVerif.Generated.IPSecure

namespace XknxVerif.SecureSession
open XknxVerif.Generated.IPSecure

/-- 48-bit sequence counter: `to_bytes(6)` overflows from here on. -/
def seqLimit : Nat := 281474976710656

inductive Inner where
  | svc (v : Nat)
  | unparsable
  deriving DecidableEq, Repr

inductive RxOut where
  | fwd | drop | exc
  deriving DecidableEq, Repr

inductive TxOut where
  | plain | wrapped (seq ek es : Nat) | errIpsec | errComm | nothing
  deriving DecidableEq, Repr

inductive Obs where
  | conn (t : Nat) (dap : Bool)
  | rxr (t sid : Nat) (macOk : Bool) (es : Nat) (out : RxOut)
  | rxp (t svc : Nat) (out : RxOut)
  | rxw (t sid seq : Nat) (macOk : Bool) (inner : Inner) (ek es : Nat) (out : RxOut)
  | ap (t svc kp : Nat)
  | aw (t seq svc aux : Nat) (ok : Bool) (sid ek es : Nat)
  | snd (t svc aux : Nat) (out : TxOut)
  | stop (t : Nat) (out : TxOut)
  | poke (t v : Nat)
  | cres (t : Nat) (ok : Bool)
  | st (t : Nat) (init : Bool) (seqRecv : Int) (seqSend : Nat)
  deriving DecidableEq, Repr

def Obs.time : Obs → Nat
  | .conn t _ | .rxr t _ _ _ _ | .rxp t _ _ | .rxw t _ _ _ _ _ _ _ | .ap t _ _ | .aw t _ _ _ _ _ _ _ | .snd t _ _ _
  | .stop t _ | .poke t _ | .cres t _ | .st t _ _ _ => t

structure State where
  now : Nat := 0
  /-- TCP transport present -/
  isOpen : Bool := false
  /-- `connect()` is waiting for / working on the SessionResponse -/
  connecting : Bool := false
  /-- the SessionResponse the pending `Session` request holds: (session id, MAC verifies) -/
  resp : Option (Nat × Bool × Nat) := none
  /-- the SessionRequest of the pending `connect()` has been written -/
  requested : Bool := false
  /-- id of the client's current ECDH key pair, number of key pairs seen so far -/
  kp : Nat := 0
  nKeys : Nat := 0
  /-- key epoch of the session key: (client key pair id, server key id) adopted at the handshake -/
  keyEp : Nat × Nat := (0, 0)
  /-- ghost: a `connect()` restarted the counters while the old session key was still in use -/
  keyReuse : Bool := false
  /-- device authentication code configured (SessionResponse MAC is checked) -/
  dap : Bool := false
  initialized : Bool := false
  sessionId : Nat := 0
  /-- `_sequence_number_received` -/
  seqRecv : Int := -1
  /-- `_sequence_number` -/
  seqSend : Nat := 0
  /-- when the running keepalive task fires -/
  keepaliveAt : Option Nat := none
  deriving DecidableEq, Repr

def init : State := {}

/-- `SecureSession.handle_knxipframe` for a SecureWrapper (incl. `decrypt_frame`). -/
def rxWrapped (s : State) (sid seq : Nat) (macOk : Bool) (inner : Inner) : RxOut × State :=
  if !s.initialized then (.exc, s)                                   -- CouldNotParseKNXIP raised
  else if !(decide (s.seqRecv < (seq : Int))) then (.drop, s)        -- not newer than the last accepted
  else if sid != s.sessionId then (.drop, s)                         -- "Invalid secure session id"
  else if !macOk then (.drop, s)                                     -- MAC verification failed
  else match inner with
    | .unparsable => (.drop, s)                                      -- CouldNotParseKNXIP from the inner frame
    | .svc v =>
      if forbiddenWrapped.contains v then (.drop, s)                 -- nested wrapper, remote diagnosis
      else (.fwd, { s with seqRecv := seq })

/-- a plain SessionResponse -/
def rxResponse (s : State) (sid : Nat) (macOk : Bool) (es : Nat) : RxOut × State :=
  if s.initialized then (.drop, s)
  else (.fwd, if s.connecting then { s with resp := some (sid, macOk, es) } else s)

/-- any other plain frame -/
def rxPlain (s : State) (_svc : Nat) : RxOut × State := (.drop, s)

/-- `SecureSession.send` -/
def send (s : State) (svc : Nat) : TxOut × State :=
  if s.initialized then
    if s.seqSend < seqLimit then
      (.wrapped s.seqSend s.keyEp.1 s.keyEp.2, { s with seqSend := s.seqSend + 1, keepaliveAt := some (s.now + keepaliveMs) })
    else (.errIpsec, s)                                              -- counter exhausted: IPSecureError, nothing written
  else if svc = sessionRequest then
    if s.isOpen then (.plain, s) else (.errComm, s)
  else (.errIpsec, s)                                                -- only SessionRequest may be sent unencrypted

/-- `SecureSession.stop` (also reached through `_connection_lost`).  If the CLOSE frame cannot be wrapped
(counter exhausted) the session is torn down all the same. -/
def stop (s : State) : TxOut × State :=
  if s.isOpen && s.initialized && decide (s.seqSend < seqLimit) then
    (.wrapped s.seqSend s.keyEp.1 s.keyEp.2,
      { s with seqSend := s.seqSend + 1, initialized := false, keepaliveAt := none, isOpen := false, requested := false })
  else (.nothing, { s with initialized := false, keepaliveAt := none, isOpen := false, requested := false })

/-- Let time pass; a due keepalive must have been written (unless the counter is exhausted: the task died). -/
def advance (s : State) (t : Nat) : Option State :=
  if t < s.now then none
  else match s.keepaliveAt with
    | some k =>
      if k < t then
        if s.seqSend < seqLimit then none else some { s with now := t, keepaliveAt := none }
      else some { s with now := t }
    | none => some { s with now := t }

/-- A wrapper the session writes by itself: the SessionAuthenticate that completes the handshake
(`initialized := True` happens right before it), the periodic keepalive, or - on a `connect()` over a session
that is still initialized - the SessionRequest. -/
def autoWrite (s : State) (t seq svc aux : Nat) (ok : Bool) (sid ek es : Nat) : Option State :=
  if svc = sessionAuthenticate then
    match s.resp with
    | some (rsid, rmac, res) =>
      -- the session key comes from the key pair of THIS connect's SessionRequest and the server key of the response
      if s.connecting = true ∧ s.requested = true ∧ s.initialized = false ∧ (s.dap = true → rmac = true) ∧ ok = true ∧
          seq = s.seqSend ∧ sid = rsid ∧ s.seqSend < seqLimit ∧ (ek, es) = (s.kp, res) then
        some { s with initialized := true, sessionId := rsid, connecting := false, resp := none, requested := false,
                      keyEp := (s.kp, res),
                      seqSend := s.seqSend + 1, keepaliveAt := some (t + keepaliveMs) }
      else none
    | none => none
  else if (svc = sessionStatus ∧ aux = statusKeepalive ∧ s.keepaliveAt = some t) ∨ (svc = sessionRequest ∧ s.connecting = true) then
    if s.initialized = true ∧ ok = true ∧ seq = s.seqSend ∧ sid = s.sessionId ∧ s.seqSend < seqLimit ∧ (ek, es) = s.keyEp then
      some { s with seqSend := s.seqSend + 1, keepaliveAt := some (t + keepaliveMs) }
    else none
  else none

def step? (s0 : State) (o : Obs) : Option State :=
  match advance s0 o.time with
  | none => none
  | some s =>
  match o with
  | .conn _ dap =>
    -- (a `connect()` on a still initialized session - `stop()` failed on an exhausted counter - is modelled too:
    --  its SessionRequest then goes out wrapped, see `aw`)
    if s.connecting = true then none
    else some { s with isOpen := true, connecting := true, resp := none, requested := false, dap := dap, seqSend := 0,
                       seqRecv := -1, keyReuse := s.keyReuse || s.initialized }
  | .rxr _ sid macOk es out =>
    if out = (rxResponse s sid macOk es).1 then some (rxResponse s sid macOk es).2 else none
  | .rxp _ svc out =>
    if svc ≠ sessionResponse ∧ svc ≠ secureWrapper ∧ out = (rxPlain s svc).1 then some (rxPlain s svc).2 else none
  | .rxw _ sid seq macOk inner ek es out =>
    -- `macOk` = the MAC verifies under the CURRENT session key; a frame wrapped under another key epoch does not
    -- (assumption on the inputs, the analogue of C28's no-collision hypothesis)
    if (macOk = true → (ek, es) = s.keyEp) ∧ out = (rxWrapped s sid seq macOk inner).1 then
      some (rxWrapped s sid seq macOk inner).2
    else none
  | .ap _ svc kp =>
    -- the SessionRequest written by `connect()`: it carries the public key of a key pair never used before
    if s.initialized = false ∧ s.connecting = true ∧ s.isOpen = true ∧ svc = sessionRequest ∧ kp = s.nKeys then
      some { s with requested := true, kp := kp, nKeys := s.nKeys + 1 }
    else none
  | .aw t seq svc aux ok sid ek es => autoWrite s t seq svc aux ok sid ek es
  | .snd _ svc _ out =>
    if out = (send s svc).1 then some (send s svc).2 else none
  | .stop _ out =>
    if out = (stop s).1 then some (stop s).2 else none
  | .poke t v =>
    -- a keepalive that came due while the counter was exhausted has raised in its task and is gone
    let dead := match s.keepaliveAt with
      | some k => decide (k ≤ t) && decide (seqLimit ≤ s.seqSend)
      | none => false
    some { s with seqSend := v, keepaliveAt := if dead then none else s.keepaliveAt }
  | .cres _ _ => some { s with connecting := false, resp := none, requested := false }
  | .st _ i r q =>
    if i = s.initialized ∧ r = s.seqRecv ∧ q = s.seqSend then some s else none

def runFrom (s : State) : List Obs → Option State
  | [] => some s
  | o :: os => match step? s o with
    | none => none
    | some s' => runFrom s' os

def accepts (tr : List Obs) : Prop := (runFrom init tr).isSome

instance (tr : List Obs) : Decidable (accepts tr) := by unfold accepts; infer_instance

def firstReject (s : State) (i : Nat) : List Obs → Option Nat
  | [] => none
  | o :: os => match step? s o with
    | none => some i
    | some s' => firstReject s' (i + 1) os

-- ---------------------------------------------------------------------------------------------
-- line protocol

def parseBool (s : String) : Option Bool :=
  if s == "1" then some true else if s == "0" then some false else none

def parseRxOut (s : String) : Option RxOut :=
  if s == "f" then some .fwd else if s == "d" then some .drop else if s == "x:parse" then some .exc else none

def parseTxOut (s : String) : Option TxOut :=
  if s == "p" then some .plain
  else if s == "n" then some .nothing
  else if s == "e:ipsec" then some .errIpsec
  else if s == "e:comm" then some .errComm
  else if s.startsWith "w" then
    match (s.drop 1).toString.splitOn ":" with
    | [a, b, c] => do some (.wrapped (← a.toNat?) (← b.toNat?) (← c.toNat?))
    | _ => none
  else none

def parseInner (s : String) : Option Inner :=
  if s == "u" then some .unparsable
  else if s.startsWith "s" then (s.drop 1).toNat?.map .svc
  else none

def parseInt (s : String) : Option Int :=
  if s.startsWith "-" then (s.drop 1).toNat?.map (fun n => -(n : Int)) else s.toNat?.map (fun n => (n : Int))

def parseObs (tok : String) : Option Obs :=
  match tok.splitOn "," with
  | ["conn", t, d] => do some (.conn (← t.toNat?) (← parseBool d))
  | ["rxr", t, sid, m, es, out] => do
    some (.rxr (← t.toNat?) (← sid.toNat?) (← parseBool m) (← es.toNat?) (← parseRxOut out))
  | ["rxp", t, svc, out] => do some (.rxp (← t.toNat?) (← svc.toNat?) (← parseRxOut out))
  | ["rxw", t, sid, seq, m, inner, ek, es, out] => do
    some (.rxw (← t.toNat?) (← sid.toNat?) (← seq.toNat?) (← parseBool m) (← parseInner inner) (← ek.toNat?) (← es.toNat?)
      (← parseRxOut out))
  | ["ap", t, svc, kp] => do some (.ap (← t.toNat?) (← svc.toNat?) (← kp.toNat?))
  | ["aw", t, seq, svc, aux, ok, sid, ek, es] => do
    some (.aw (← t.toNat?) (← seq.toNat?) (← svc.toNat?) (← aux.toNat?) (← parseBool ok) (← sid.toNat?) (← ek.toNat?)
      (← es.toNat?))
  | ["snd", t, svc, aux, out] => do some (.snd (← t.toNat?) (← svc.toNat?) (← aux.toNat?) (← parseTxOut out))
  | ["stop", t, out] => do some (.stop (← t.toNat?) (← parseTxOut out))
  | ["poke", t, v] => do some (.poke (← t.toNat?) (← v.toNat?))
  | ["cres", t, k] => do some (.cres (← t.toNat?) (k == "ok"))
  | ["st", t, i, r, q] => do some (.st (← t.toNat?) (← parseBool i) (← parseInt r) (← q.toNat?))
  | _ => none

-- DRIVER: c29 => XknxVerif.SecureSession.handle
/-- `monitor <obs>;<obs>;…` → `accept` | `reject <index>` -/
def handle : List String → String
  | ["monitor", tr] =>
    match (tr.splitOn ";").mapM parseObs with
    | none => "bad-op"
    | some obs =>
      match firstReject init 0 obs with
      | none => "accept"
      | some i => s!"reject {i}"
  | _ => "bad-op"

end XknxVerif.SecureSession
