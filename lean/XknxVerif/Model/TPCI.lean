/-
Model of xknx/telegram/tpci.py : TPCI.resolve / TPCI.to_knx.
Import-free (core Lean only) so that it links into the driver executable.
-/
import XknxVerif.Py.Basic

namespace XknxVerif.TPCI

inductive T where
  | dataGroup | dataBroadcast | dataTagGroup | dataIndividual
  | dataConnected (seq : Nat)
  | connect | disconnect
  | ack (seq : Nat) | nak (seq : Nat)
  deriving DecidableEq, Repr

inductive Err where
  | conversion
  deriving DecidableEq, Repr

/-- `TPCI.resolve(raw_tpci, dst_is_group_address, dst_is_zero)` for `raw < 256`. -/
def resolve (raw : Nat) (grp zero : Bool) : Except Err T :=
  let control := raw &&& 0x80 != 0
  let numbered := raw &&& 0x40 != 0
  let seq := (raw >>> 2) &&& 0xF
  let flags := raw &&& 0b11
  -- group addressed frames
  if grp && (control || numbered) then .error .conversion
  else if grp && seq == 0 then (if zero then .ok .dataBroadcast else .ok .dataGroup)
  else if grp && seq == 1 then .ok .dataTagGroup
  else if !numbered && seq != 0 then .error .conversion
  else if !control then
    (if numbered then .ok (.dataConnected seq) else .ok .dataIndividual)
  else if !numbered then
    (if flags == 0 then .ok .connect
     else if flags == 1 then .ok .disconnect
     else .error .conversion)
  else
    (if flags == 2 then .ok (.ack seq)
     else if flags == 3 then .ok (.nak seq)
     else .error .conversion)

/-- `TPCI.to_knx()`. -/
def encode : T → Nat
  | .dataGroup | .dataBroadcast | .dataIndividual => 0
  | .dataTagGroup => 0x04
  | .dataConnected s => 0x40 ||| ((s &&& 0xF) <<< 2)
  | .connect => 0x80
  | .disconnect => 0x81
  | .ack s => 0xC0 ||| ((s &&& 0xF) <<< 2) ||| 2
  | .nak s => 0xC0 ||| ((s &&& 0xF) <<< 2) ||| 3

/-- The transport bits of the octet: data PDUs share the low two bits with the
APCI, control PDUs own all eight. -/
def mask : T → Nat
  | .connect | .disconnect | .ack _ | .nak _ => 0xFF
  | _ => 0xFC

/-- `tpci.control` class attribute -/
def T.isControl : T → Bool
  | .connect | .disconnect | .ack _ | .nak _ => true
  | _ => false

/-- PDUs the library can build: sequence numbers are 4 bit. -/
def Constructible : T → Prop
  | .dataConnected s | .ack s | .nak s => s < 16
  | _ => True

instance : DecidablePred Constructible := fun t => by
  cases t <;> unfold Constructible <;> infer_instance

/-- Destination kinds for which the library builds a given PDU. -/
def kindOk : T → Bool → Bool → Bool
  | .dataGroup, g, z => g && !z
  | .dataBroadcast, g, z => g && z
  | .dataTagGroup, g, _ => g
  | _, g, _ => !g

def T.render : T → String
  | .dataGroup => "TDataGroup"
  | .dataBroadcast => "TDataBroadcast"
  | .dataTagGroup => "TDataTagGroup"
  | .dataIndividual => "TDataIndividual"
  | .dataConnected s => s!"TDataConnected:{s}"
  | .connect => "TConnect"
  | .disconnect => "TDisconnect"
  | .ack s => s!"TAck:{s}"
  | .nak s => s!"TNak:{s}"

def parseT (name : String) (seq : Nat) : Option T :=
  match name with
  | "TDataGroup" => some .dataGroup
  | "TDataBroadcast" => some .dataBroadcast
  | "TDataTagGroup" => some .dataTagGroup
  | "TDataIndividual" => some .dataIndividual
  | "TDataConnected" => some (.dataConnected seq)
  | "TConnect" => some .connect
  | "TDisconnect" => some .disconnect
  | "TAck" => some (.ack seq)
  | "TNak" => some (.nak seq)
  | _ => none

-- DRIVER: tpci => XknxVerif.TPCI.handle
/-- Line protocol:
  `resolve <raw> <grp:0|1> <zero:0|1>` → `ok <PDU> <re-encoded>` | `err conversion`
  `encode <Class> <seq>` → `<octet>` -/
def handle : List String → String
  | ["resolve", r, g, z] =>
    match r.toNat? with
    | some raw =>
      if raw < 256 then
        match resolve raw (g == "1") (z == "1") with
        | .ok t => s!"ok {t.render} {encode t}"
        | .error _ => "err conversion"
      else "bad-op"
    | none => "bad-op"
  | ["encode", c, s] =>
    match s.toNat? with
    | some seq => match parseT c seq with
      | some t => s!"{encode t}"
      | none => "bad-op"
    | none => "bad-op"
  | _ => "bad-op"

end XknxVerif.TPCI
