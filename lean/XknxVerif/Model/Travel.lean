/-
Model of xknx/devices/travelcalculator.py : TravelCalculator (after the two
`fix:` commits: guard for "no travel time remains", single clock read with `>=`).
Import-free (core Lean only).

Exact arithmetic: clock readings are integers (ticks of an arbitrary unit; the
harness uses 2^-42 s and readings ≥ 1024 s, so that every binary64 reading is a whole number of ticks), travel times
are fractions `num/den` of ticks with `den > 0` (the harness passes the exact
value of the Python float).  Positions are integers.  `int()` is truncation
toward zero = `Int.tdiv`.  The only place where Python differs is binary64
rounding inside the interpolation (see notes/C40.md: float gap).
-/
import XknxVerif.Py.Basic
import XknxVerif.Automata
import XknxVerif.Generated.Travel

namespace XknxVerif.Travel
open XknxVerif.Generated.Travel

/-- `TravelStatus` -/
inductive Dir where
  | up | down | stopped
  deriving DecidableEq, Repr

inductive Err where
  | zeroDivision    -- float division by 0.0
  | typeError       -- `int > None`
  deriving DecidableEq, Repr

/-- A rational `num/den` (not normalised); all uses assume `den > 0`. -/
structure Frac where
  num : Int
  den : Int
  deriving DecidableEq, Repr

/-- `travel_time_down`, `travel_time_up` in clock ticks. -/
structure Cfg where
  down : Frac
  up : Frac
  deriving Repr

structure St where
  last : Option Int := none        -- `_last_known_position`
  ts : Int := 0                    -- `_last_known_position_timestamp`
  confirmed : Bool := false        -- `_position_confirmed`
  target : Option Int := none      -- `_travel_to_position`
  dir : Dir := .stopped            -- `travel_direction`
  deriving DecidableEq, Repr

def init : St := {}

/-- `calculate_travel_time(from_position, to_position)`:
`travel_time_full * abs(travel_range) / self.position_closed` -/
def travelTime (cfg : Cfg) (frm to : Int) : Except Err Frac :=
  let range := to - frm
  let full := if range > 0 then cfg.down else cfg.up
  if positionClosed = 0 then .error .zeroDivision
  else .ok ⟨full.num * (range.natAbs : Int), full.den * positionClosed⟩

/-- `position_reached_or_exceeded(relative_position)` -/
def reached (rel : Int) (d : Dir) : Bool :=
  (decide (rel ≤ 0) && d == .down) || (decide (rel ≥ 0) && d == .up)

/-- `_calculate_position()` at clock reading `now` (read once). -/
def estimate (cfg : Cfg) (s : St) (now : Int) : Except Err (Option Int) :=
  match s.target, s.last with
  | some g, some l =>
    let rel := g - l
    if reached rel s.dir then .ok (some g)
    else
      match travelTime cfg l g with
      | .error e => .error e
      | .ok rem =>
        -- `remaining_travel_time <= 0 or now >= timestamp + remaining_travel_time`
        if rem.num ≤ 0 ∨ rem.num ≤ (now - s.ts) * rem.den then .ok (some g)
        -- `progress = (now - timestamp) / remaining_travel_time`   (ZeroDivisionError if 0.0)
        else if rem.num = 0 then .error .zeroDivision
        -- `int(last + relative_position * progress)`
        else .ok (some (Int.tdiv (l * rem.num + rel * ((now - s.ts) * rem.den)) rem.num))
  | _, _ => .ok s.last

/-- The pinned tree (before the fixes), for the negation witnesses only:
no guard, strict `>` (and the clock read twice: `now₁` for the test, `now₂` for the progress). -/
def estimatePinned (cfg : Cfg) (s : St) (now₁ now₂ : Int) : Except Err (Option Int) :=
  match s.target, s.last with
  | some g, some l =>
    let rel := g - l
    if reached rel s.dir then .ok (some g)
    else
      match travelTime cfg l g with
      | .error e => .error e
      | .ok rem =>
        if rem.num < (now₁ - s.ts) * rem.den then .ok (some g)
        else if rem.num = 0 then .error .zeroDivision
        else .ok (some (Int.tdiv (l * rem.num + rel * ((now₂ - s.ts) * rem.den)) rem.num))
  | _, _ => .ok s.last

/-- `current_position()` -/
def current (cfg : Cfg) (s : St) (now : Int) : Except Err (Option Int) :=
  if s.confirmed then .ok s.last else estimate cfg s now

/-- `update_position(position)` -/
def updatePosition (s : St) (now : Int) (p : Int) : St :=
  { s with last := some p, ts := now, confirmed := s.confirmed || (s.target == some p) }

/-- `set_position(position)` -/
def setPosition (s : St) (now : Int) (p : Int) : St :=
  updatePosition { s with target := some p } now p

/-- the assignments of `stop()` once `stop_position` is known -/
def stopAt (s : St) (sp : Option Int) : St :=
  match sp with
  | none => s
  | some p => { s with last := some p, target := some p, confirmed := false, dir := .stopped }

/-- `stop()` -/
def stop (cfg : Cfg) (s : St) (now : Int) : Except Err St :=
  match current cfg s now with
  | .error e => .error e
  | .ok sp => .ok (stopAt s sp)

/-- `start_travel(target)` given the position its inner `stop()` computed -/
def startTravelAt (s : St) (now : Int) (g : Int) (sp : Option Int) : Except Err St :=
  match s.last with
  | none => .ok (setPosition s now g)
  | some _ =>
    let s1 := stopAt s sp
    match s1.last with
    | none => .error .typeError
    | some l => .ok { s1 with ts := now, target := some g, confirmed := false,
                              dir := if g > l then .down else .up }

/-- `start_travel(target)` -/
def startTravel (cfg : Cfg) (s : St) (now : Int) (g : Int) : Except Err St :=
  match s.last with
  | none => .ok (setPosition s now g)
  | some _ =>
    match current cfg s now with
    | .error e => .error e
    | .ok sp => startTravelAt s now g sp

inductive Op where
  | setPosition (p : Int)
  | updatePosition (p : Int)
  | stop
  | startTravel (g : Int)
  | startUp          -- start_travel(position_open)
  | startDown        -- start_travel(position_closed)
  | query
  deriving DecidableEq, Repr

/-- An operation performed at clock reading `t`. -/
structure Ev where
  t : Int
  op : Op
  deriving Repr

def applyOp (cfg : Cfg) (s : St) (now : Int) : Op → Except Err St
  | .setPosition p => .ok (setPosition s now p)
  | .updatePosition p => .ok (updatePosition s now p)
  | .stop => stop cfg s now
  | .startTravel g => startTravel cfg s now g
  | .startUp => startTravel cfg s now positionOpen
  | .startDown => startTravel cfg s now positionClosed
  | .query => .ok s

/-- What is observed after each operation, at the same clock reading: whether the
operation raised, and `current_position()`; `last`/`target` are the state the
estimate refers to (ghost fields, used to state the bounds). -/
structure Obs where
  raised : Option Err
  pos : Except Err (Option Int)
  last : Option Int
  target : Option Int
  deriving Repr

def step (cfg : Cfg) (s : St) (ev : Ev) : St × List Obs :=
  match applyOp cfg s ev.t ev.op with
  | .error e => (s, [⟨some e, current cfg s ev.t, s.last, s.target⟩])
  | .ok s' => (s', [⟨none, current cfg s' ev.t, s'.last, s'.target⟩])

/-! ### Monitor for the correspondence run (float tolerance lives here, not in the theorems)

The harness reports, per operation: clock reading, `current_position()` just
before the operation (same reading: this is the value an inner `stop()` sees),
the operation, `current_position()` just after, and the six boolean queries.
The monitor checks every reported estimate against the exact one — accepting
the neighbouring integer when the exact pre-truncation value is within 10⁻⁹ of
an integer, or becomes so when the reading moves by a few ticks (binary64 rounding of
`timestamp + remaining`) — adopts the reported stop position, and replays. -/

def tolE : Int := 1000000000

def optEq (a b : Option Int) : Bool := a == b

/-- Is the reported estimate `q` acceptable for state `s` at reading `t`?
Exact estimate, or — binary64 slack — the estimate the exact model gives at a reading within
`δ = 2 + (remaining + |t|)/2^50` ticks of `t` and within 10⁻⁹ position units, never outside `[last, target]`. -/
def acceptable (cfg : Cfg) (s : St) (t : Int) (q : Option Int) : Bool :=
  if s.confirmed then optEq q s.last else
  match s.target, s.last with
  | some g, some l =>
    let rel := g - l
    if reached rel s.dir then optEq q (some g) else
    match travelTime cfg l g with
    | .error _ => false
    | .ok rem =>
      if rem.num ≤ 0 then optEq q (some g) else
      match q with
      | none => false
      | some q =>
        let D := rem.num
        let δ : Int := 2 + (D / rem.den + (t.natAbs : Int)) / 1125899906842624
        let N := fun (t' : Int) => l * D + rel * ((t' - s.ts) * rem.den)
        let elapsed := fun (t' : Int) => decide (rem.num ≤ (t' - s.ts) * rem.den)
        let n1 := N (t - δ)
        let n2 := N (t + δ)
        let lo := Int.tdiv (min n1 n2 * tolE - D) (D * tolE)
        let hi := Int.tdiv (max n1 n2 * tolE + D) (D * tolE)
        (elapsed (t + δ) && q == g) ||
        (!elapsed (t - δ) && decide (lo ≤ q) && decide (q ≤ hi) && decide (min l g ≤ q) && decide (q ≤ max l g))
  | _, _ => optEq q s.last

def parseInt? (s : String) : Option Int :=
  match s.toList with
  | '-' :: r => (String.ofList r).toNat?.map fun n => -(n : Int)
  | _ => s.toNat?.map fun n => (n : Int)

def parseOptInt? (s : String) : Option (Option Int) :=
  if s == "n" then some none else (parseInt? s).map some

def parseFrac? (s : String) : Option Frac :=
  match s.splitOn "/" with
  | [a, b] => do
    let n ← parseInt? a
    let d ← parseInt? b
    if d > 0 then pure ⟨n, d⟩ else none
  | _ => none

def parseOp? (s : String) : Option Op :=
  match s.toList with
  | ['X'] => some .stop
  | ['Q'] => some .query
  | ['T', 'U'] => some .startUp
  | ['T', 'D'] => some .startDown
  | 'S' :: r => (parseInt? (String.ofList r)).map .setPosition
  | 'U' :: r => (parseInt? (String.ofList r)).map .updatePosition
  | 'T' :: r => (parseInt? (String.ofList r)).map .startTravel
  | _ => none

def b01 (b : Bool) : Char := if b then '1' else '0'

/-- is_traveling, position_reached, is_opening, is_closing, is_open, is_closed — from the reported estimate -/
def flags (s : St) (q : Option Int) : String :=
  let trav := !(q == s.target)
  String.ofList [b01 trav, b01 (q == s.target), b01 (trav && s.dir == .up), b01 (trav && s.dir == .down),
    b01 (q == some positionOpen), b01 (q == some positionClosed)]

/-- apply an operation, using the reported pre-estimate where the code calls `current_position()` itself -/
def applyObserved (s : St) (now : Int) (pre : Option Int) : Op → Except Err St
  | .setPosition p => .ok (setPosition s now p)
  | .updatePosition p => .ok (updatePosition s now p)
  | .stop => .ok (stopAt s pre)
  | .startTravel g => startTravelAt s now g pre
  | .startUp => startTravelAt s now positionOpen pre
  | .startDown => startTravelAt s now positionClosed pre
  | .query => .ok s

def showEst : Except Err (Option Int) → String
  | .ok (some p) => toString p
  | .ok none => "n"
  | .error _ => "raise"

def monitor (cfg : Cfg) : St → Int → Nat → List String → String
  | _, _, _, [] => "accept"
  | s, clock, i, e :: es =>
    match e.splitOn ";" with
    | [t, op, pre, post, fl] =>
      match parseInt? t, parseOp? op, parseOptInt? pre, parseOptInt? post with
      | some t, some op, some pre, some post =>
        if t < clock then s!"reject {i} clock-decreased"
        else if !acceptable cfg s t pre then
          s!"reject {i} pre-estimate exact={showEst (current cfg s t)}"
        else match applyObserved s t pre op with
          | .error _ => s!"reject {i} op-raises-in-model"
          | .ok s' =>
            if !acceptable cfg s' t post then s!"reject {i} post-estimate exact={showEst (current cfg s' t)}"
            else if flags s' post != fl then s!"reject {i} flags model={flags s' post}"
            else monitor cfg s' t (i + 1) es
      | _, _, _, _ => "bad-op"
    | _ => "bad-op"

-- DRIVER: travel => XknxVerif.Travel.handle
/-- `mon <down n/d> <up n/d> <t;op;pre;post;flags>,...` → `accept` | `reject <i> <why>` -/
def handle : List String → String
  | ["mon", dn, up, evs] =>
    match parseFrac? dn, parseFrac? up with
    | some d, some u => monitor ⟨d, u⟩ init 0 0 (evs.splitOn ",")
    | _, _ => "bad-op"
  | _ => "bad-op"

end XknxVerif.Travel
