/-
Model of the MCP codec tools `decode_dpt_payload` / `encode_dpt_payload` / `_jsonify`
(xknx/mcp/tools.py) on top of the DPT codec models of C07–C10.  Core Lean only.
-/
import XknxVerif.Model.DPT.Driver

namespace XknxVerif.MCPCodec
open XknxVerif XknxVerif.DPT

/-- a JSON-native tool value: the dict / lower-case-name form of complex / enum values, or a plain leaf -/
inductive MJ where
  | form (f : JForm)
  | plain (a : Atom)
  deriving DecidableEq, Repr

/-- leaves `_jsonify` passes through unchanged (None, bool, int, float, str) -/
def nativeAtom : Atom → Bool
  | .none | .bool _ | .int _ | .flt _ | .str _ => true
  | _ => false

/-- `_jsonify(transcoder.from_knx(raw))`; `none` = not JSON-native in the model (never for a table row, see
`Props.C45.jsonify_total_on_table`) -/
def jsonify (r : Row) (v : Val) : Option MJ :=
  match asForm r v with
  | some f => some (.form f)
  | none => match v with
    | .atom a => if nativeAtom a then some (.plain a) else none
    | .obj _ => none

/-- `decode_dpt_payload` -/
def mcpDecode (ctx : Ctx) (r : Row) (p : Payload) : M (Option MJ) := (decode ctx r p).map (jsonify r)

/-- `encode_dpt_payload`: `transcoder.to_knx(value)` on the JSON-native value -/
def mcpEncode (ctx : Ctx) (r : Row) : MJ → M Payload
  | .form f => encodeJson ctx r f
  | .plain a => encodeVal ctx r (.atom a)

def MJ.render : MJ → String
  | .form f => f.render
  | .plain a => a.render

/-- how `decode_dpt_payload` builds the raw payload object from its JSON input (an int, or a list of ints):
a 6-bit DPT takes the first list item (empty list: ValueError), any other DPT wraps an int into a 1-item array -/
def toolPayload (r : Row) : Payload → M Payload
  | .binary v =>
    if r.kind == .binary then (if v > 63 then .error .conv else .ok (.binary v)) else .ok (.array [v])
  | .array bs =>
    if r.kind == .binary then
      match bs with
      | [] => .error (.other "ValueError")
      | b :: _ => if b > 63 then .error .conv else .ok (.binary b)
    else .ok (.array bs)

/-- decode → JSON value → encode → decode → JSON value, as one token -/
def mcpTok (r : Row) (p0 : Payload) : String :=
  match toolPayload r p0 with
  | .error .conv => "r"
  | .error e => errTok e
  | .ok p =>
  match mcpDecode theCtx r p with
  | .error .parse | .error .conv => "r"
  | .error e => errTok e
  | .ok none => "not-native"
  | .ok (some j) =>
    let cj := j.render
    match mcpEncode theCtx r j with
    | .error e => cj ++ ">" ++ errTok e
    | .ok p2 =>
      let cp2 := prender r p2
      match mcpDecode theCtx r p2 with
      | .error e => cj ++ ">" ++ cp2 ++ ">" ++ errTok e
      | .ok none => cj ++ ">" ++ cp2 ++ ">not-native"
      | .ok (some j2) => if j2 == j then cj else cj ++ ">" ++ cp2 ++ ">" ++ j2.render

-- DRIVER: mcp => XknxVerif.MCPCodec.handle
/-- `rt <Class> <payload spec>` → RLE of tokens -/
def handle : List String → String
  | ["rt", cls, spec] =>
    match lookup theTable cls with
    | none => "unknown-class"
    | some r =>
      match expandSpec spec with
      | none => "bad-op"
      | some ps => rle (ps.map (mcpTok r))
  | _ => "bad-op"

end XknxVerif.MCPCodec
