/-
Model of xknx/telegram/address_filter.py: `AddressFilter(pattern)` (parser) and
`AddressFilter.match(address)` (matcher), including the `fnmatch` part used for
internal group addresses, plus the SPECIFICATION side: the pattern grammar as an
AST, its rendering, and `denotes` ("each level value lies in one of the ranges
given for that level; open ends extend to the maximum; reversed ranges are
normalised").  `denotes` is what other properties (C34) import.

The group-address notation (`GroupAddress.address_format`, a process global in
the code) is a parameter.  Core Lean only.
-/
import XknxVerif.Model.Address

namespace XknxVerif.AddressFilter
open XknxVerif.Py XknxVerif.Py.Str XknxVerif.Address XknxVerif.Generated.AddressConst

/-! ## Specification: grammar and meaning -/

/-- one comma-separated value of a level -/
inductive RangeP where
  /-- `*` -/
  | star
  /-- `7` -/
  | single (n : Nat)
  /-- `a-b` (either order) -/
  | between (a b : Nat)
  /-- `-b` -/
  | upTo (b : Nat)
  /-- `a-` -/
  | from_ (a : Nat)
  deriving DecidableEq, Repr

/-- a level: comma-separated values (non-empty) -/
abbrev LevelP := List RangeP
/-- a pattern: 1..3 '/'-separated levels -/
abbrev PatternP := List LevelP

/-- the largest value a level can take in any notation (`GroupAddress.MAX_FREE`) -/
def maxValue : Nat := gaMaxFree

/-- the inclusive interval a value denotes: open ends extend to the maximum, reversed ends are swapped -/
def RangeP.bounds : RangeP → Nat × Nat
  | .star => (0, maxValue)
  | .single n => (n, n)
  | .between a b => (min a b, max a b)
  | .upTo b => (0, b)
  | .from_ a => (a, maxValue)

def RangeP.contains (r : RangeP) (v : Nat) : Bool := r.bounds.1 ≤ v && v ≤ r.bounds.2

/-- a level value is admitted by a level when it lies in one of its ranges -/
def LevelP.contains (l : LevelP) (v : Nat) : Bool := l.any (·.contains v)

/-- the level values of a group address in a notation: LONG main/middle/sub, SHORT main/sub, FREE the raw value -/
def levelValues (fmt : Fmt) (raw : Nat) : List Nat :=
  match fmt with
  | .long => [gaMain raw, gaMiddle raw, gaSub .long raw]
  | .short => [gaMain raw, gaSub .short raw]
  | .free => [gaSub .free raw]

/-- number of levels of a notation -/
def _root_.XknxVerif.Address.Fmt.levels : Fmt → Nat
  | .long => 3 | .short => 2 | .free => 1

/-- all level values admitted, level by level -/
def allContain : List LevelP → List Nat → Bool
  | [], [] => true
  | l :: ls, v :: vs => l.contains v && allContain ls vs
  | _, _ => false

/-- SPEC: the addresses a pattern denotes in the notation with as many levels as the pattern:
every level value lies in one of the ranges given for that level. -/
def denotes (p : PatternP) (fmt : Fmt) (raw : Nat) : Bool := allContain p (levelValues fmt raw)

/-- text of the grammar -/
def RangeP.render : RangeP → Str
  | .star => [42]
  | .single n => dec n
  | .between a b => dec a ++ 45 :: dec b
  | .upTo b => 45 :: dec b
  | .from_ a => dec a ++ [45]

def LevelP.render (l : LevelP) : Str := joinSep 44 (l.map RangeP.render)
def PatternP.render (p : PatternP) : Str := joinSep 47 (p.map LevelP.render)

/-- numbers are level values (≤ MAX_FREE) -/
def RangeP.WF : RangeP → Prop
  | .star => True
  | .single n => n ≤ maxValue
  | .between a b => a ≤ maxValue ∧ b ≤ maxValue
  | .upTo b => b ≤ maxValue
  | .from_ a => a ≤ maxValue

instance : DecidablePred RangeP.WF := fun r => by cases r <;> unfold RangeP.WF <;> infer_instance

/-- the documented grammar: 1..3 levels, each a non-empty list of well-formed values -/
def PatternP.WF (p : PatternP) : Prop :=
  1 ≤ p.length ∧ p.length ≤ 3 ∧ ∀ l ∈ p, l ≠ [] ∧ ∀ r ∈ l, r.WF

instance (p : PatternP) : Decidable p.WF := by unfold PatternP.WF; infer_instance

/-! ## The code -/

/-- exceptions leaving `AddressFilter(...)` / `.match(...)` -/
inductive FErr where
  /-- `ValueError` from `int()` or from unpacking `split("-")` -/
  | value
  /-- `ConversionError("Too many parts within pattern.")` -/
  | conversion
  /-- `CouldNotParseAddress` -/
  | parse
  /-- builtin `ConnectionError` (pattern depth incompatible with the notation) -/
  | connection
  deriving DecidableEq, Repr

/-- map over a list, stopping at the first exception (a Python `for` loop that builds a list) -/
def mapE {α β ε : Type} (f : α → Except ε β) : List α → Except ε (List β)
  | [] => .ok []
  | a :: as =>
    match f a with
    | .error e => .error e
    | .ok b =>
      match mapE f as with
      | .error e => .error e
      | .ok bs => .ok (b :: bs)

def intOrValue (s : Str) : Except FErr Int :=
  match pyInt s with
  | some n => .ok n
  | none => .error .value

/-- `Range._adjust_range` -/
def adjust (d : Int) : Int :=
  if d > (gaMaxFree : Int) then (gaMaxFree : Int) else if d < 0 then 0 else d

/-- the branch taken by `Range._parse_pattern`: `(range_from, range_to)` before adjusting -/
def rawRange (p : Str) : Except FErr (Int × Int) :=
  if p == [42] then .ok (0, (gaMaxFree : Int))                         -- _init_wildcard
  else if isdigit p then                                               -- _init_digit
    match intOrValue p with
    | .ok d => .ok (d, d)
    | .error e => .error e
  else if p.contains 45 then                                           -- _init_range
    match splitOn 45 p with
    | [a, b] =>
      match (if a.isEmpty then .ok 0 else intOrValue a) with
      | .error e => .error e
      | .ok f =>
        match (if b.isEmpty then .ok (gaMaxFree : Int) else intOrValue b) with
        | .error e => .error e
        | .ok t => .ok (f, t)
    | _ => .error .value                                               -- too many values to unpack
  else .ok (0, 0)                                                      -- no branch taken: stays 0, 0

/-- `_adjust_range` on both ends, then `_flip_range_if_necessary` -/
def normalize (ft : Int × Int) : Int × Int :=
  let t := adjust ft.2
  let f := adjust ft.1
  if f > t then (t, f) else (f, t)

/-- `AddressFilter.Range(pattern)` → `(range_from, range_to)` -/
def parseRange (p : Str) : Except FErr (Int × Int) :=
  match rawRange p with
  | .ok ft => .ok (normalize ft)
  | .error e => .error e

/-- `AddressFilter.LevelFilter(pattern)` → its ranges -/
def parseLevel (p : Str) : Except FErr (List (Int × Int)) := mapE parseRange (splitOn 44 p)

/-- a constructed `AddressFilter` -/
inductive Filter where
  | levels (ls : List (List (Int × Int)))
  | internal (pat : Str)
  deriving DecidableEq, Repr

/-- `AddressFilter(pattern)` -/
def parseFilter (p : Str) : Except FErr Filter :=
  if p.head? == some 105 then                                          -- pattern.startswith("i")
    match igaParse (.str p) with
    | .ok r => .ok (.internal r)
    | .error _ => .error .parse
  else
    match mapE parseLevel (splitOn 47 p) with
    | .error e => .error e
    | .ok ls => if ls.length > 3 then .error .conversion else .ok (.levels ls)

/-- `Range.match` -/
def rangeMatch (r : Int × Int) (d : Nat) : Bool := r.1 ≤ (d : Int) && (d : Int) ≤ r.2
/-- `LevelFilter.match` -/
def levelMatch (l : List (Int × Int)) (d : Nat) : Bool := l.any (rangeMatch · d)

/-! ### fnmatch -/

/-- a translated glob item -/
inductive Tok where
  | star
  | any
  | lit (c : Nat)
  /-- `[...]`: negated?, single characters, inclusive ranges -/
  | cls (neg : Bool) (singles : List Nat) (ranges : List (Nat × Nat))
  deriving DecidableEq, Repr

def Tok.matches : Tok → Nat → Bool
  | .star, _ => false
  | .any, _ => true
  | .lit c, x => c == x
  | .cls neg singles ranges, x => neg != (singles.contains x || ranges.any fun r => r.1 ≤ x && x ≤ r.2)

/-- `pat.find('-', k)` -/
def findDash (s : Str) (k : Nat) : Option Nat :=
  match (s.drop k).idxOf? 45 with
  | some i => some (k + i)
  | none => none

/-- the `while True: k = pat.find('-', k, j) …` loop of `fnmatch.translate` over the bracket content -/
def chunkLoop (stuff : Str) : Nat → Nat → Nat → List Str → List Str
  | 0, _, _, acc => acc
  | fuel + 1, i, k, acc =>
    match findDash stuff k with
    | some k' => chunkLoop stuff fuel (k' + 1) (k' + 3) (acc ++ [(stuff.take k').drop i])
    | none =>
      let chunk := stuff.drop i
      if !chunk.isEmpty then acc ++ [chunk]
      else match acc.reverse with
        | last :: front => (front.reverse) ++ [last ++ [45]]
        | [] => acc

/-- "Remove empty ranges": `for k in range(len(chunks)-1, 0, -1): if chunks[k-1][-1] > chunks[k][0]: merge` -/
def mergeChunks : List Str → List Str
  | [] => []
  | c0 :: rest =>
    match mergeChunks rest with
    | [] => [c0]
    | c1 :: rest' =>
      match c0.getLast?, c1.head? with
      | some a, some b => if a > b then (c0.dropLast ++ c1.tail) :: rest' else c0 :: c1 :: rest'
      | _, _ => c0 :: c1 :: rest'

/-- ranges created by joining the chunks with '-': last character of one chunk to the first of the next -/
def chunkRanges : List Str → List (Nat × Nat)
  | c0 :: c1 :: rest =>
    match c0.getLast?, c1.head? with
    | some a, some b => (a, b) :: chunkRanges (c1 :: rest)
    | _, _ => chunkRanges (c1 :: rest)
  | _ => []

/-- the content between `[` and the closing `]` → character class -/
def classOf (stuff : Str) : Tok :=
  let chunks :=
    if stuff.contains 45 then
      mergeChunks (chunkLoop stuff (stuff.length + 1) 0 (if stuff.head? == some 33 then 2 else 1) [])
    else [stuff]
  let flat := chunks.flatten
  -- `stuff[0] == '!'` is tested on the text AFTER the chunks were merged
  if flat.head? == some 33 then .cls true flat.tail (chunkRanges chunks)
  else .cls false flat (chunkRanges chunks)

/-- index of the `]` closing a bracket expression whose content starts at `rest` (after `[`) -/
def closing (rest : Str) : Option Nat :=
  let j0 := if rest.head? == some 33 then 1 else 0
  let j1 := if (rest.drop j0).head? == some 93 then j0 + 1 else j0
  match (rest.drop j1).idxOf? 93 with
  | some i => some (j1 + i)
  | none => none

/-- `fnmatch.translate`, as tokens (consecutive `*` compressed) -/
def translate : Nat → Str → List Tok
  | 0, _ => []
  | _ + 1, [] => []
  | fuel + 1, c :: rest =>
    if c == 42 then
      match translate fuel rest with
      | .star :: ts => .star :: ts
      | ts => .star :: ts
    else if c == 63 then .any :: translate fuel rest
    else if c == 91 then
      match closing rest with
      | none => .lit 91 :: translate fuel rest
      | some j => classOf (rest.take j) :: translate fuel (rest.drop (j + 1))
    else .lit c :: translate fuel rest

/-- textbook backtracking glob matcher over tokens (whole-string match; `?` and classes match any one
code point, newline included: the regex is compiled with `(?s:…)\Z`) -/
def globMatch : List Tok → Str → Bool
  | [], [] => true
  | [], _ :: _ => false
  | .star :: ts, [] => globMatch ts []
  | .star :: ts, c :: s => globMatch ts (c :: s) || globMatch (.star :: ts) s
  | _ :: _, [] => false
  | t :: ts, c :: s => t.matches c && globMatch ts s
termination_by ts s => (ts.length + s.length, ts.length)

/-- `fnmatch(name, pat)` on POSIX (`normcase` is the identity) -/
def fnmatch (name pat : Str) : Bool := globMatch (translate (pat.length + 1) pat) name

/-! ### match -/

/-- `if isinstance(address, str | int): address = parse_device_group_address(address)`; `none` = neither a
`GroupAddress` nor an `InternalGroupAddress` afterwards -/
def toDev (address : Val) : Except FErr (Option DevAddr) :=
  match address with
  | .str _ | .int _ =>
    match parseDevice address with
    | .ok d => .ok (some d)
    | .error .parse => .error .parse
    | .error .value => .error .value
  | .ga r => .ok (some (.ga r))
  | .iga s => .ok (some (.iga s))
  | _ => .ok none

/-- the dispatch of `AddressFilter.match` once the address is an object -/
def matchDev (f : Filter) (fmt : Fmt) (a : Option DevAddr) : Except FErr Bool :=
  match a, f with
  | some (.ga raw), .levels (l0 :: ls) =>
    match ls with
    | [l1, l2] =>                                                       -- _match_level3
      if fmt != .long then .error .connection
      else .ok (levelMatch l0 (gaMain raw) && levelMatch l1 (gaMiddle raw) && levelMatch l2 (gaSub fmt raw))
    | [l1] =>                                                           -- _match_level2
      if fmt == .free then .error .connection
      else .ok (levelMatch l0 (gaMain raw) && levelMatch l1 (gaSub fmt raw))
    | _ => .ok (levelMatch l0 (gaSub fmt raw))                          -- _match_free
  | some (.iga s), .internal pat => if pat.isEmpty then .ok false else .ok (fnmatch s pat)
  | _, _ => .ok false

/-- `AddressFilter.match(address)` under notation `fmt` -/
def matchFilter (f : Filter) (fmt : Fmt) (address : Val) : Except FErr Bool :=
  match toDev address with
  | .error e => .error e
  | .ok a => matchDev f fmt a

/-! ### line protocol -/

def showFErr : FErr → String
  | .value => "err other:ValueError"
  | .conversion => "err conversion"
  | .parse => "err parse"
  | .connection => "err other:ConnectionError"

def showRes : Except FErr Bool → String
  | .ok true => "1"
  | .ok false => "0"
  | .error .value => "V"
  | .error .conversion => "C"
  | .error .parse => "P"
  | .error .connection => "X"

-- DRIVER: af => XknxVerif.AddressFilter.handle
/-- Line protocol
  `sweep <FMT> <pattern> <raw,raw,…>`   → `err …` (constructor) | one character per address: 1 0 or V C P X
  `one <FMT> <pattern> <val>`           → `err …` (constructor) | same, one character
  `ranges <pattern>`                    → `err …` | `levels a:b,a:b/…` | `internal <codepoints>`
  `glob <pattern> <name>|<name>|…`      → one character per name (plain `fnmatch(name, pattern)`)
-/
def handle : List String → String
  | ["sweep", f, p, raws] =>
    match Fmt.ofString? f, Str.ofToken p, (raws.splitOn ",").mapM String.toNat? with
    | some fmt, some pat, some rs =>
      match parseFilter pat with
      | .error e => showFErr e
      | .ok flt => String.join (rs.map fun r => showRes (matchFilter flt fmt (.ga r)))
    | _, _, _ => "bad-op"
  | ["one", f, p, v] =>
    match Fmt.ofString? f, Str.ofToken p, Val.ofToken? v with
    | some fmt, some pat, some val =>
      match parseFilter pat with
      | .error e => showFErr e
      | .ok flt => showRes (matchFilter flt fmt val)
    | _, _, _ => "bad-op"
  | ["ranges", p] =>
    match Str.ofToken p with
    | some pat =>
      match parseFilter pat with
      | .error e => showFErr e
      | .ok (.levels ls) =>
        "levels " ++ "/".intercalate (ls.map fun l => ",".intercalate (l.map fun r => s!"{r.1}:{r.2}"))
      | .ok (.internal r) => s!"internal {toToken r}"
    | none => "bad-op"
  | ["glob", p, names] =>
    match Str.ofToken p, (names.splitOn "|").mapM Str.ofToken with
    | some pat, some ns => String.join (ns.map fun n => if fnmatch n pat then "1" else "0")
    | _, _ => "bad-op"
  | _ => "bad-op"

end XknxVerif.AddressFilter
