/-
Receiver side of a KNXnet/IP data connection (C23):
  xknx/io/data_connection.py : IncomingSequenceCounter.evaluate / reset
  xknx/io/tunnel.py          : UDPTunnel._tunnelling_request_received, setup_tunnel (reset)
  xknx/io/device_management.py : DeviceManagement._device_configuration_request_received, start (reset)
Core Lean only (linked into the driver).
-/
import XknxVerif.Automata
import XknxVerif.Py.Basic

namespace XknxVerif.SeqRecv

inductive Verdict where
  | expected | repeated | outOfOrder
  deriving DecidableEq, Repr

/-- `IncomingSequenceCounter.evaluate(sequence_counter)` for `expected < 256`:
the verdict and the new value of `self.expected`.
`self.expected + 1 & 0xFF` is `(expected + 1) % 256`;
`self.expected - 1 & 0xFF` is `(expected - 1) mod 256 = (expected + 255) % 256`. -/
def evaluate (expected seq : Nat) : Verdict × Nat :=
  if seq = expected then (.expected, (expected + 1) % 256)
  else if seq = (expected + 255) % 256 then (.repeated, expected)
  else (.outOfOrder, expected)

/-- Which handler: the UDP tunnel (no channel filter, ACK echoes the request's
channel id) or the device-management handler (drops frames for another
channel, ACKs with its own channel id). -/
inductive Kind where
  | tunnel | mgmt
  deriving DecidableEq, Repr

structure St where
  expected : Nat
  channel : Nat
  deriving DecidableEq, Repr

inductive Ev where
  /-- a connection was (re-)established on channel `ch`
  (`UDPTunnel.setup_tunnel` + ConnectResponse / `DeviceManagement.stop(); start()`) -/
  | connect (ch : Nat)
  /-- TunnellingRequest / DeviceConfigurationRequest from the server;
  `id` names the cEMI payload -/
  | req (ch seq id : Nat)
  deriving DecidableEq, Repr

inductive Out where
  /-- TunnellingAck / DeviceConfigurationAck sent -/
  | ack (ch seq : Nat)
  /-- `cemi_received_callback(raw_cemi)` of the request that carried `seq` -/
  | deliver (seq id : Nat)
  deriving DecidableEq, Repr

def init (ch : Nat) : St := { expected := 0, channel := ch }

def step (k : Kind) (s : St) : Ev → St × List Out
  | .connect ch => (init ch, [])
  | .req ch seq id =>
    -- DeviceManagement: `if request.communication_channel_id != self.communication_channel: return`
    if k = .mgmt ∧ ch ≠ s.channel then (s, [])
    else
      let ackCh := match k with | .tunnel => ch | .mgmt => s.channel
      match evaluate s.expected seq with
      | (.expected, e') => ({ s with expected := e' }, [.ack ackCh seq, .deliver seq id])
      | (.repeated, _) => (s, [.ack ackCh seq])
      | (.outOfOrder, _) => (s, [])

/-! ### line protocol -/

def parseNats (s : String) : Option (List Nat) :=
  (s.splitOn ":").mapM String.toNat?

def parseEv (t : String) : Option Ev :=
  match t.toList with
  | 'c' :: rest => (String.ofList rest).toNat?.map .connect
  | 'r' :: rest =>
    match parseNats (String.ofList rest) with
    | some [ch, seq, id] => some (.req ch seq id)
    | _ => none
  | _ => none

def renderOut : Out → String
  | .ack ch seq => s!"a{ch}:{seq}"
  | .deliver seq id => s!"d{seq}:{id}"

def renderOuts (os : List Out) : String :=
  if os.isEmpty then "-" else "+".intercalate (os.map renderOut)

/-- outputs event by event -/
def runPer (k : Kind) : St → List Ev → List (List Out) × St
  | s, [] => ([], s)
  | s, e :: es =>
    let (s', o) := step k s e
    let (os, s'') := runPer k s' es
    (o :: os, s'')

-- DRIVER: seqrecv => XknxVerif.SeqRecv.handle
/-- `run <tunnel|mgmt> <ch0> <ev,ev,…>` → `<outs>,<outs>,… e=<expected>`;
events `c<ch>` (connect) and `r<ch>:<seq>:<id>` (request). -/
def handle : List String → String
  | ["run", kind, ch0, evs] =>
    let k? : Option Kind := match kind with
      | "tunnel" => some .tunnel | "mgmt" => some .mgmt | _ => none
    match k?, ch0.toNat?, (evs.splitOn ",").mapM parseEv with
    | some k, some c, some es =>
      let (os, s) := runPer k (init c) es
      ",".intercalate (os.map renderOuts) ++ s!" e={s.expected}"
    | _, _, _ => "bad-op"
  | _ => "bad-op"

end XknxVerif.SeqRecv
