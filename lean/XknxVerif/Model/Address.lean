/-
Model of xknx/telegram/address.py (after the two `fix:` commits of branch b-addr):
`GroupAddress(...)`, `IndividualAddress(...)`, `InternalGroupAddress(...)`,
`parse_device_group_address`, `__str__` in the three notations, `to_knx` /
`from_knx`.  The group-address notation is a process-global class attribute in
the code (`GroupAddress.address_format`); here it is a parameter.

Strings are code-point lists (`Py.Str`); every Python string predicate the
code relies on is taken from `Generated/Unicode.lean`; the field maxima from
`Generated/AddressConst.lean`.  Core Lean only.
-/
import XknxVerif.Py.Str
import XknxVerif.Py.Bytes
import XknxVerif.Generated.AddressConst

namespace XknxVerif.Address
open XknxVerif.Py XknxVerif.Py.Str XknxVerif.Generated.AddressConst

/-- `GroupAddressType` -/
inductive Fmt where
  | long | short | free
  deriving DecidableEq, Repr

/-- Exceptions that can leave the modelled functions. `parse` is
`CouldNotParseAddress`; `value` is a bare `ValueError` out of `int()`. -/
inductive Err where
  | parse | value
  deriving DecidableEq, Repr

/-- The argument handed to a constructor. -/
inductive Val where
  /-- `isinstance(address, int)`: int, bool (`True` is 1), IntEnum -/
  | int (n : Int)
  | str (s : Str)
  /-- a `GroupAddress` object with this raw value -/
  | ga (raw : Nat)
  /-- an `IndividualAddress` object -/
  | ia (raw : Nat)
  /-- an `InternalGroupAddress` object -/
  | iga (raw : Str)
  /-- anything else: None, float, bytes, list, … -/
  | other
  deriving DecidableEq, Repr

/-- `int(x)` where a `ValueError` is NOT caught by the caller -/
def intOrValueError (s : Str) : Except Err Int :=
  match pyInt s with
  | some n => .ok n
  | none => .error .value

/-- a regex group `\d{lo,hi}` matched exactly this text -/
def grp (lo hi : Nat) (x : Str) : Bool :=
  lo ≤ x.length && x.length ≤ hi && x.all (fun c => (reDigit? c).isSome)

/-- `$` matches at the end and also just before one trailing "\n"; nothing in
the patterns can consume a "\n", so the matched body is the text without it. -/
def dollarBody (s : Str) : Str :=
  match s.getLast? with
  | some 10 => s.dropLast
  | _ => s

/-- `^(?P<main>\d{1,2})(/(?P<middle>\d{1,2}))?/(?P<sub>\d{1,4})$` — `\d` never
matches '/', so a match exists iff the body splits at '/' into 2 or 3 such groups
(and then the groups are unique). -/
def gaRegexMatch (s : Str) : Option (Str × Option Str × Str) :=
  match splitOn 47 (dollarBody s) with
  | [a, c] => if grp 1 2 a && grp 1 4 c then some (a, none, c) else none
  | [a, b, c] => if grp 1 2 a && grp 1 2 b && grp 1 4 c then some (a, some b, c) else none
  | _ => none

/-- `^(?P<area>\d{1,2})\.(?P<main>\d{1,2})\.(?P<line>\d{1,3})$` -/
def iaRegexMatch (s : Str) : Option (Str × Str × Str) :=
  match splitOn 46 (dollarBody s) with
  | [a, b, c] => if grp 1 2 a && grp 1 2 b && grp 1 3 c then some (a, b, c) else none
  | _ => none

/-- `GroupAddress.__string_to_int` -/
def gaStringToInt (s : Str) : Except Err Int :=
  match gaRegexMatch s with
  | none => .error .parse
  | some (a, mid, c) => do
    let main ← intOrValueError a
    let middle ← match mid with
      | some b => (intOrValueError b).map some
      | none => pure none
    let sub ← intOrValueError c
    if main > gaMaxMain then .error .parse
    else match middle with
      | some m =>
        if m > gaMaxMiddle then .error .parse
        else if sub > gaMaxSubLong then .error .parse
        else pure (main * 2048 + m * 256 + sub)        -- (main << 11) + (middle << 8) + sub
      | none =>
        if sub > gaMaxSubShort then .error .parse
        else pure (main * 2048 + sub)

/-- `IndividualAddress.__string_to_int` -/
def iaStringToInt (s : Str) : Except Err Int :=
  match iaRegexMatch s with
  | none => .error .parse
  | some (a, b, c) => do
    let area ← intOrValueError a
    let main ← intOrValueError b
    let line ← intOrValueError c
    if area > iaMaxArea then .error .parse
    else if main > iaMaxMain then .error .parse
    else if line > iaMaxLine then .error .parse
    else pure (area * 4096 + main * 256 + line)        -- (area << 12) + (main << 8) + line

/-- the final `if not 0 <= self.raw <= 65535` -/
def rangeCheck (raw : Int) : Except Err Nat :=
  if 0 ≤ raw ∧ raw ≤ 65535 then .ok raw.toNat else .error .parse

/-- `address.isdigit()` branch: `int(address)`, a `ValueError` (non-decimal
digit such as "²", or more digits than the int-string limit) is turned into
`CouldNotParseAddress` (fix commit). -/
def digitString (s : Str) : Except Err Int :=
  match pyInt s with
  | some n => .ok n
  | none => .error .parse

/-- the type dispatch of `GroupAddress.__init__`: the value assigned to `self.raw` -/
def gaRaw (v : Val) : Except Err Int :=
  match v with
  | .int n => .ok n                    -- `int(address)` (fix commit: bool / IntEnum become plain int)
  | .ga r => .ok (r : Int)
  | .str s => if isdigit s then digitString s else gaStringToInt s
  | _ => .error .parse                 -- "Invalid type"

/-- `GroupAddress(address)` → raw -/
def gaParse (v : Val) : Except Err Nat := gaRaw v >>= rangeCheck

/-- the type dispatch of `IndividualAddress.__init__` -/
def iaRaw (v : Val) : Except Err Int :=
  match v with
  | .int n => .ok n
  | .ia r => .ok (r : Int)
  | .str s => if isdigit s then digitString s else iaStringToInt s
  | _ => .error .parse

/-- `IndividualAddress(address)` → raw -/
def iaParse (v : Val) : Except Err Nat := iaRaw v >>= rangeCheck

/-- `GroupAddress.main/middle/sub` and `__str__` under notation `fmt` -/
def gaMain (raw : Nat) : Nat := (raw >>> 11) &&& gaMaxMain
def gaMiddle (raw : Nat) : Nat := (raw >>> 8) &&& gaMaxMiddle
def gaSub (fmt : Fmt) (raw : Nat) : Nat :=
  match fmt with
  | .short => raw &&& gaMaxSubShort
  | .long => raw &&& gaMaxSubLong
  | .free => raw

def gaRender (fmt : Fmt) (raw : Nat) : Str :=
  match fmt with
  | .long => dec (gaMain raw) ++ [47] ++ dec (gaMiddle raw) ++ [47] ++ dec (gaSub .long raw)
  | .short => dec (gaMain raw) ++ [47] ++ dec (gaSub .short raw)
  | .free => dec (gaSub .free raw)

def iaArea (raw : Nat) : Nat := (raw >>> 12) &&& iaMaxArea
def iaMain (raw : Nat) : Nat := (raw >>> 8) &&& iaMaxMain
def iaLine (raw : Nat) : Nat := raw &&& iaMaxLine

/-- `IndividualAddress.__str__` -/
def iaRender (raw : Nat) : Str :=
  dec (iaArea raw) ++ [46] ++ dec (iaMain raw) ++ [46] ++ dec (iaLine raw)

/-- `BaseAddress.to_knx` (raw is in range by construction) -/
def toKnx (raw : Nat) : Bytes := Bytes.ofNatBE 2 raw

/-- `GroupAddress.from_knx(raw)` = `cls(int.from_bytes(raw, "big"))` -/
def gaFromKnx (b : Bytes) : Except Err Nat := gaParse (.int (Bytes.toNatBE b))
def iaFromKnx (b : Bytes) : Except Err Nat := iaParse (.int (Bytes.toNatBE b))

/-- the message of a `CouldNotParseAddress` raised by `InternalGroupAddress` -/
inductive IgaErr where
  | invalidType | invalidPrefix | noChars
  deriving DecidableEq, Repr

/-- `InternalGroupAddress(address)` → `.raw` -/
def igaParse (v : Val) : Except IgaErr Str :=
  match v with
  | .iga r => .ok r
  | .str s =>
    match s with
    | c0 :: c1 :: _ =>
      if !(Generated.Unicode.lowerIsI.contains c0) then .error .invalidPrefix
      else
        let prefixLength := if c1 == 45 || c1 == 95 then 2 else 1
        let r := strip (s.drop prefixLength)
        if r.isEmpty then .error .noChars else .ok (105 :: 45 :: r)
    | _ => .error .invalidPrefix
  | _ => .error .invalidType

/-- result of `parse_device_group_address` -/
inductive DevAddr where
  | ga (raw : Nat)
  | iga (raw : Str)
  deriving DecidableEq, Repr

/-- `isinstance(address, str | InternalGroupAddress)` -/
def isStrOrIga : Val → Bool
  | .str _ | .iga _ => true
  | _ => false

/-- `parse_device_group_address(address)` -/
def parseDevice (v : Val) : Except Err DevAddr :=
  match gaParse v with
  | .ok raw => if raw == 0 then .error .parse else .ok (.ga raw)
  | .error .value => .error .value          -- only CouldNotParseAddress is caught
  | .error .parse =>
    if isStrOrIga v then
      match igaParse v with
      | .ok r => .ok (.iga r)
      | .error e => if e != .invalidPrefix then .error .parse /- internal_ex -/ else .error .parse /- ex -/
    else .error .parse

/-! ### line protocol -/

def Fmt.ofString? : String → Option Fmt
  | "LONG" => some .long | "SHORT" => some .short | "FREE" => some .free | _ => none

/-- value tokens: `i:<int>` `s:<codepoints>` `ga:<raw>` `ia:<raw>` `iga:<codepoints>` `other` -/
def Val.ofToken? (t : String) : Option Val :=
  match t.splitOn ":" with
  | ["i", n] => n.toInt?.map .int
  | ["s", s] => (Str.ofToken s).map .str
  | ["ga", n] => n.toNat?.map .ga
  | ["ia", n] => n.toNat?.map .ia
  | ["iga", s] => (Str.ofToken s).map .iga
  | ["other"] => some .other
  | _ => none

def showErr : Err → String
  | .parse => "err parse"
  | .value => "err other:ValueError"

def b2s (b : Bool) : String := if b then "1" else "0"

/-- everything the property talks about for a successfully built address:
raw value, the three renderings, the wire form, and whether each re-parses to the same raw -/
def describeGa (raw : Nat) : String :=
  let rt := [Fmt.long, .short, .free].map fun f => b2s (gaParse (.str (gaRender f raw)) == .ok raw)
  let k := toKnx raw
  s!"ok {raw} {toAscii (gaRender .long raw)} {toAscii (gaRender .short raw)} {toAscii (gaRender .free raw)} {hexOfBytes k} rt={String.join rt} knx={b2s (gaFromKnx k == .ok raw)}"

def describeIa (raw : Nat) : String :=
  let k := toKnx raw
  s!"ok {raw} {toAscii (iaRender raw)} {hexOfBytes k} rt={b2s (iaParse (.str (iaRender raw)) == .ok raw)} knx={b2s (iaFromKnx k == .ok raw)}"

-- DRIVER: addr => XknxVerif.Address.handle
/-- Line protocol
  `ga <val>` / `ia <val>`       → `ok <raw> <renderings…> <hex> rt=… knx=…` | `err parse` | `err other:ValueError`
  `gaknx <hex>` / `iaknx <hex>` → same, for `from_knx`
  `iga <val>`                   → `ok <codepoints>` | `err parse`
  `dev <val>`                   → `ok ga <raw>` | `ok iga <codepoints>` | `err …`
  `int <codepoints>`            → `ok <n>` | `err value`            (the `int()` model by itself)
  `cls <cp>`                    → `<isdigit><re \d><int digit><int space><isspace><lower is i>` flags + digit value
-/
def handle : List String → String
  | ["ga", v] =>
    match Val.ofToken? v with
    | some x => match gaParse x with
      | .ok raw => describeGa raw
      | .error e => showErr e
    | none => "bad-op"
  | ["ia", v] =>
    match Val.ofToken? v with
    | some x => match iaParse x with
      | .ok raw => describeIa raw
      | .error e => showErr e
    | none => "bad-op"
  | ["gaknx", h] =>
    match bytesOfHex? h with
    | some b => match gaFromKnx b with
      | .ok raw => describeGa raw
      | .error e => showErr e
    | none => "bad-op"
  | ["iaknx", h] =>
    match bytesOfHex? h with
    | some b => match iaFromKnx b with
      | .ok raw => describeIa raw
      | .error e => showErr e
    | none => "bad-op"
  | ["iga", v] =>
    match Val.ofToken? v with
    | some x => match igaParse x with
      | .ok r => s!"ok {toToken r} rt={b2s (igaParse (.str r) == .ok r)}"
      | .error _ => "err parse"
    | none => "bad-op"
  | ["dev", v] =>
    match Val.ofToken? v with
    | some x => match parseDevice x with
      | .ok (.ga raw) => s!"ok ga {raw}"
      | .ok (.iga r) => s!"ok iga {toToken r}"
      | .error e => showErr e
    | none => "bad-op"
  | ["int", s] =>
    match Str.ofToken s with
    | some x => match pyInt x with
      | some n => s!"ok {n}"
      | none => "err value"
    | none => "bad-op"
  | ["cls", c] =>
    match c.toNat? with
    | some cp =>
      let v := match intDigit? cp with | some d => toString d | none => "-"
      s!"{b2s (isdigitChar cp)}{b2s (reDigit? cp).isSome}{b2s (intDigit? cp).isSome}{b2s (isIntSpace cp)}{b2s (isSpace cp)}{b2s (Generated.Unicode.lowerIsI.contains cp)} {v}"
    | none => "bad-op"
  | _ => "bad-op"

end XknxVerif.Address
