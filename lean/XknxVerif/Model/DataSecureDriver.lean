/-
Line-protocol handlers for the Data Secure model and the crypto primitives,
instantiated with the real AES-128 (`Crypto.AES128`).  Core Lean only.
-/
import XknxVerif.Crypto.AES128
import XknxVerif.Model.DataSecure
import XknxVerif.Model.DataSecureSpec

namespace XknxVerif.DataSecure.Driver
open XknxVerif.Crypto XknxVerif.DataSecure

/-- AES-128 as a `BlockFn`. -/
def aes : BlockFn := AES128.encrypt

/-- The same function (`AES128.encrypt k b = AES128.encryptWith (AES128.expandKey k) b` by
definition) with the key schedule of `key` computed once per op line. -/
def aesWith (rks : List Bytes) (key : Bytes) : BlockFn :=
  fun k b => if k == key then AES128.encryptWith rks b else AES128.encrypt k b

/-- Call sites bind `aesFor key` with `let`, so the schedule is expanded once. -/
@[inline] def aesFor (key : Bytes) : BlockFn := aesWith (AES128.expandKey key) key

theorem aesFor_eq (key : Bytes) : aesFor key = aes := by
  funext k b
  simp only [aesFor, aesWith, aes, AES128.encrypt]
  split
  · rename_i h; rw [eq_of_beq h]
  · rfl

def hex (b : Bytes) : String := hexOfBytes b

def errName : Err → String
  | .mac => "mac" | .unknownAlg => "unknownAlg" | .value => "value" | .overflow => "overflow"

def excName : Exc → String
  | .value => "value" | .overflow => "overflow" | .conversion => "conversion"

def bit (s : String) : Bool := s == "1"

/-- `a:b,c:d` → list of pairs of tokens. -/
def pairs (s : String) : List (String × String) :=
  if s == "-" then [] else
  (s.splitOn ",").filterMap fun e => match e.splitOn ":" with
    | [a, b] => some (a, b)
    | _ => none

def parseKeys (s : String) : Option (List (Nat × Bytes)) :=
  (pairs s).mapM fun (a, b) => do
    let k ← a.toNat?
    let v ← bytesOfHex? b
    pure (k, v)

def parseTable (s : String) : Option (List (Nat × Nat)) :=
  (pairs s).mapM fun (a, b) => do
    let k ← a.toNat?
    let v ← b.toNat?
    pure (k, v)

/-- Table rendered sorted by key (insertion sort; tables are tiny). -/
def showTable (t : List (Nat × Nat)) : String :=
  let sorted := t.foldl (fun acc e =>
    let (lo, hi) := acc.partition (fun x => x.1 ≤ e.1)
    lo ++ [e] ++ hi) ([] : List (Nat × Nat))
  if sorted.isEmpty then "-" else
  ",".intercalate (sorted.map fun e => s!"{e.1}:{e.2}")

/-- Total decode of an SCF octet (Python objects only hold enum members; the harness sends only those). -/
def scfOfOctet (raw : Nat) : Scf := ⟨raw &&& 0x80 != 0, (raw >>> 4) &&& 7, raw &&& 8 != 0, raw &&& 7⟩

def mkCtx (src dst : Nat) (group : Bool) (eff tpci : Nat) : Ctx :=
  ⟨Bytes.ofNatBE 2 src ++ Bytes.ofNatBE 2 dst, if group then 0x80 else 0, eff, tpci⟩

def parsePayload (kind body : String) : Option Payload :=
  match kind with
  | "N" => some .none
  | "P" => (bytesOfHex? body).map .plain
  | "S" => do
    let raw ← bytesOfHex? body
    let (scf, d) ← secureApduFromKnx raw
    pure (.secure scf d)
  | _ => none

def showRoute : Route → String
  | .telegram a s => s!"telegram {hex a} {if s then 1 else 0}"
  | .keyIssue cb => s!"keyissue {if cb then 1 else 0}"
  | .raised e => s!"raised {excName e}"

def verifyOf : String → Option (Except Err Bytes)
  | "ok" => some (.ok [])
  | "mac" => some (.error .mac)
  | "alg" => some (.error .unknownAlg)
  | "value" => some (.error .value)
  | "overflow" => some (.error .overflow)
  | _ => none

def parseEv (s : String) : Option Ev :=
  match s.splitOn "," with
  | ["r", sec, grp, keyed, svc, tsb, src, seq, v, inner] => do
    let src ← src.toNat?
    let seq ← seq.toNat?
    let v ← verifyOf v
    pure (.recv ⟨bit sec, bit grp, bit keyed, bit svc, bit tsb, src, seq, v, bit inner⟩)
  | ["s", grp, keyed] => some (.send (bit grp) (bit keyed))
  | _ => none

def whyName : Why → String
  | .plainToSecure => "plainToSecure" | .notSData => "notSData" | .toolOrBroadcast => "toolOrBroadcast"
  | .noKey => "noKey" | .pointToPoint => "pointToPoint" | .unknownSender => "unknownSender"
  | .seqTooLow => "seqTooLow" | .mac => "mac" | .unknownAlg => "unknownAlg" | .inner => "inner"
  | .exhausted => "exhausted"

/-- Observation rendering.  The reason of a rejection is a branch tag for the
evidence only (`rejected`), not part of what is compared. -/
def showObs : Obs → String
  | .delivered s q => s!"delivered:{s}:{q}"
  | .passed => "passed"
  | .rejected _ => "rejected"
  | .raised e => s!"raised:{excName e}"
  | .sent q => s!"sent:{q}"
  | .sentPlain => "sentplain"
  | .sendError => "senderror"

def ifResOf : String → Option IfRes
  | "ok" => some .ok | "comm" => some .comm | "conv" => some .conv | "noconf" => some .noconf | _ => none

def ifResName : IfRes → String
  | .ok => "ok" | .comm => "comm" | .conv => "conv" | .noconf => "noconf"

/-- `t,<group>,<keyed>,<ok|comm|conv|noconf>` or any `parseEv` event. -/
def parseTEv (s : String) : Option TEv :=
  match s.splitOn "," with
  | ["t", grp, keyed, res] => (ifResOf res).map fun r => .transmit (bit grp) (bit keyed) r
  | _ => (parseEv s).map .base

def showTObs : TObs → String
  | .base o => showObs o
  | .outcome r => s!"if:{ifResName r}"

def runTHist (s : St) : List TEv → List String
  | [] => []
  | e :: es =>
    let (s', o) := tstep s e
    s!"{"+".intercalate (o.map showTObs)}/{showTable s'.senders}/{s'.sendSeq}" :: runTHist s' es

def showSendOut (ds : Option DS) : SendOut → String
  | .plain _ => "plain"
  | .secured f' => s!"secured {hex f'.payload.bytes} {match ds with | some d => d.sendSeq | none => 0}"
  | .dsError _ => "dserror"
  | .escape e => s!"raised {excName e}"

/-- `i;<keys|none>;<senders>;<clockSeq>` · `r;<ctrl>;<src>;<dst>;<tpci>;<N|P|S>;<payload>;<inner>` ·
`s;<ctrl>;<src>;<dst>;<tpci>;<N|P|S>;<payload>` -/
def parseHEv (s : String) : Option HEv :=
  match s.splitOn ";" with
  | ["i", keys, senders, clock] => do
    let c ← clock.toNat?
    if keys == "none" then pure (.init none c) else
    let k ← parseKeys keys
    let t ← parseTable senders
    pure (.init (some (k, t)) c)
  | ["r", ctrl, src, dst, tpci, kind, body, inner] => do
    let p ← parsePayload kind body
    pure (.recv (Frame.ofCtrl (← ctrl.toNat?) (← src.toNat?) (← dst.toNat?) (← tpci.toNat?) p) (bit inner))
  | ["s", ctrl, src, dst, tpci, kind, body] => do
    let p ← parsePayload kind body
    pure (.send (Frame.ofCtrl (← ctrl.toNat?) (← src.toNat?) (← dst.toNat?) (← tpci.toNat?) p))
  | _ => none

def showHObs (ds : Option DS) : HObs → String
  | .inited on => s!"init {if on then "on" else "off"}"
  | .initError => "init error"
  | .route r => s!"{showRoute r} {match ds with | some d => showTable d.senders | none => "-"}"
  | .sendRes o => showSendOut ds o

def runKHist (s : Option DS) : List HEv → List String
  | [] => []
  | e :: es =>
    let E := aesFor ((keysOf s).head?.map Prod.snd |>.getD [])
    let (s', o) := hstep E s e
    ", ".intercalate (o.map (showHObs s')) :: runKHist s' es

def runHist (s : St) : List Ev → List String
  | [] => []
  | e :: es =>
    let (s', o) := step s e
    s!"{" ".intercalate (o.map showObs)}/{showTable s'.senders}/{s'.sendSeq}" :: runHist s' es

-- DRIVER: dsec => XknxVerif.DataSecure.Driver.handle
/-- Line protocol (bytes as hex, `-` = empty):
  `secure <key> <scf> <seq> <src> <dst> <group> <eff> <tpci> <apdu>` → `ok <asdu>` | `err <class>`   (code-shaped model)
  `spec   <key> <scf> <seq> <src> <dst> <group> <eff> <tpci> <apdu>` → `ok <asdu>`                     (specification)
  `plain  <key> <scf> <src> <dst> <group> <eff> <tpci> <asdu>`       → `ok <apdu>` | `err <class>`
  `recv   <keys|none> <senders> <sendSeq> <ctrl> <src> <dst> <tpci> <N|P|S> <payload> <inner>` → `<route> <senders'>`
  `out    <keys> <sendSeq> <ctrl> <src> <dst> <tpci> <N|P|S> <payload>` → `secured <apdu> <sendSeq'>` | `plain <sendSeq'>` | …
  `hist   <senders> <sendSeq> <ev>…` → `<obs>/<senders>/<sendSeq>` per event
  `khist  <hev>…` → one record per event, joined by ` ; ` (one CEMIHandler across data_secure_init calls)
  `thist  <senders> <sendSeq> <tev>…` → `<obs>+<if:verdict>/<senders>/<sendSeq>` per event (send_telegram layer) -/
def handle : List String → String
  | "khist" :: evs =>
    match evs.mapM parseHEv with
    | some evs => " ; ".intercalate (runKHist none evs)
    | none => "bad-op"
  | "thist" :: senders :: sendSeq :: evs =>
    match parseTable senders, sendSeq.toNat?, evs.mapM parseTEv with
    | some senders, some sendSeq, some evs => " ".intercalate (runTHist ⟨senders, sendSeq⟩ evs)
    | _, _, _ => "bad-op"
  | "hist" :: senders :: sendSeq :: evs =>
    match parseTable senders, sendSeq.toNat?, evs.mapM parseEv with
    | some senders, some sendSeq, some evs => " ".intercalate (runHist ⟨senders, sendSeq⟩ evs) |>.replace "  " " "
    | _, _, _ => "bad-op"
  | [op, key, scf, seq, src, dst, group, eff, tpci, apdu] =>
    if op == "secure" || op == "spec" then
      match bytesOfHex? key, scf.toNat?, seq.toNat?, src.toNat?, dst.toNat?, eff.toNat?, tpci.toNat?,
          bytesOfHex? apdu with
      | some key, some scf, some seq, some src, some dst, some eff, some tpci, some apdu =>
        let E := aesFor key
        if op == "secure" then
          match secure E key (scfOfOctet scf) seq (mkCtx src dst (bit group) eff tpci) apdu with
          | .ok d => s!"ok {hex d.toKnx}"
          | .error e => s!"err {errName e}"
        else
          s!"ok {hex (Spec.specSecure E key scf seq src dst (bit group) eff tpci apdu)}"
      | _, _, _, _, _, _, _, _ => "bad-op"
    else "bad-op"
  | ["plain", key, scf, src, dst, group, eff, tpci, asdu] =>
    match bytesOfHex? key, scf.toNat?, src.toNat?, dst.toNat?, eff.toNat?, tpci.toNat?, bytesOfHex? asdu with
    | some key, some scf, some src, some dst, some eff, some tpci, some asdu =>
      let E := aesFor key
      match getPlain E key (scfOfOctet scf) (mkCtx src dst (bit group) eff tpci) (SecureData.fromKnx asdu) with
      | .ok p => s!"ok {hex p}"
      | .error e => s!"err {errName e}"
    | _, _, _, _, _, _, _ => "bad-op"
  | ["recv", keys, senders, sendSeq, ctrl, src, dst, tpci, kind, body, inner] =>
    match parseTable senders, sendSeq.toNat?, ctrl.toNat?, src.toNat?, dst.toNat?, tpci.toNat?,
        parsePayload kind body with
    | some senders, some sendSeq, some ctrl, some src, some dst, some tpci, some p =>
      let f := Frame.ofCtrl ctrl src dst tpci p
      let ds : Option (Option DS) :=
        if keys == "none" then some none else (parseKeys keys).map fun k => some ⟨k, senders, sendSeq⟩
      match ds with
      | some ds =>
        let k0 := match ds with | some d => (d.keys.head?.map Prod.snd).getD [] | none => []
        let E := aesFor k0
        let (ds', r) := DataSecure.handle E ds f (fun _ => bit inner)
        let t := match ds' with | some d => showTable d.senders | none => "-"
        s!"{showRoute r} {t}"
      | none => "bad-op"
    | _, _, _, _, _, _, _ => "bad-op"
  | ["out", keys, sendSeq, ctrl, src, dst, tpci, kind, body] =>
    match parseKeys keys, sendSeq.toNat?, ctrl.toNat?, src.toNat?, dst.toNat?, tpci.toNat?,
        parsePayload kind body with
    | some keys, some sendSeq, some ctrl, some src, some dst, some tpci, some p =>
      let f := Frame.ofCtrl ctrl src dst tpci p
      let E := aesFor ((keys.head?.map Prod.snd).getD [])
      match outgoing E ⟨keys, [], sendSeq⟩ f with
      | (ds', .plain _) => s!"plain {ds'.sendSeq}"
      | (ds', .secured f') => s!"secured {hex f'.payload.bytes} {ds'.sendSeq}"
      | (ds', .dsError _) => s!"dserror {ds'.sendSeq}"
      | (ds', .escape e) => s!"raised {excName e} {ds'.sendSeq}"
    | _, _, _, _, _, _, _ => "bad-op"
  | _ => "bad-op"

-- DRIVER: aes => XknxVerif.DataSecure.Driver.handleAes
/-- `enc <key> <block>` · `cbcmac <key> <data>` (zero-pad, CBC, last block) · `ctr <key> <counter> <data>` -/
def handleAes : List String → String
  | ["enc", key, blk] =>
    match bytesOfHex? key, bytesOfHex? blk with
    | some k, some b => hex (aes k b)
    | _, _ => "bad-op"
  | ["cbcmac", key, data] =>
    match bytesOfHex? key, bytesOfHex? data with
    | some k, some d => hex (cbcLast aes k (pad16 d))
    | _, _ => "bad-op"
  | ["ctr", key, ctr, data] =>
    match bytesOfHex? key, bytesOfHex? ctr, bytesOfHex? data with
    | some k, some c, some d => hex (ctrXor aes k c d)
    | _, _, _ => "bad-op"
  | _ => "bad-op"

end XknxVerif.DataSecure.Driver
