/-
Model of xknx/cemi/cemi_frame.py + xknx/cemi/flags.py: CEMIFrame.from_knx / to_knx,
CEMILData, CEMIFlags, the M_Prop* data classes.  The application layer codec
(`APCI.from_knx`, `payload.to_knx()`, `payload.calculated_length()`) is a parameter
(`Codec α`): properties C04–C06 are about it; C12/C13 are proved for every codec
(C13 under the codec laws C05/C06 establish).  Core Lean only.
-/
import XknxVerif.Py.Bytes
import XknxVerif.Model.TPCI
import XknxVerif.Generated.Cemi

namespace XknxVerif.CEMI
open XknxVerif.Generated
open XknxVerif (Bytes)

/-- `CouldNotParseCEMI` | `UnsupportedCEMIMessage` | `ConversionError` (serialisation only). -/
inductive Err where
  | parse | unsupported | conv
  deriving DecidableEq, Repr

/-- Outcome classes of `APCI.from_knx` other than success. -/
inductive ApciErr where
  | conv | unsup
  deriving DecidableEq, Repr

/-- The application-layer codec as used by the link layer. -/
structure Codec (α : Type) where
  decode : Bytes → Except ApciErr α      -- `APCI.from_knx(apdu)`
  encode : α → Option Bytes              -- `payload.to_knx()` (none = refuses with ConversionError)
  len : α → Nat                          -- `payload.calculated_length()`

structure Flags where
  priority : Nat
  repeatOnError : Bool
  systemBroadcast : Bool
  ackRequest : Bool
  confirmError : Bool
  hop : Nat
  frameType : Nat      -- as received; ignored when serialising
  frameFormat : Nat
  deriving DecidableEq, Repr

/-- `CEMIFlags.from_knx(raw)`; `.conv` for a reserved Extended Frame Format. -/
def Flags.fromKnx (raw : Nat) : Except Err Flags :=
  match Cemi.effTable[raw &&& Cemi.extendedFrameFormatMask]? with
  | some (some ff) =>
    .ok { priority := (raw &&& Cemi.priorityMask) >>> Cemi.priorityOffset
          repeatOnError := raw &&& Cemi.doNotRepeat == 0
          systemBroadcast := raw &&& Cemi.broadcast == 0
          ackRequest := raw &&& Cemi.ackRequested != 0
          confirmError := raw &&& Cemi.confirmError != 0
          hop := (raw &&& Cemi.hopCountMask) >>> Cemi.hopCountOffset
          frameType := (raw >>> 15) &&& 1
          frameFormat := ff }
  | _ => .error .conv

/-- `CEMIFlags.to_knx()` -/
def Flags.toKnx (f : Flags) : Except Err Nat :=
  if f.hop > Cemi.maxHopCount then .error .conv else
  .ok ((if f.repeatOnError then 0 else Cemi.doNotRepeat)
    ||| (if f.systemBroadcast then 0 else Cemi.broadcast)
    ||| (f.priority <<< Cemi.priorityOffset)
    ||| (if f.ackRequest then Cemi.ackRequested else 0)
    ||| (if f.confirmError then Cemi.confirmError else 0)
    ||| (f.hop <<< Cemi.hopCountOffset)
    ||| f.frameFormat)

structure LData (α : Type) where
  flags : Flags
  src : Nat
  dstGroup : Bool
  dst : Nat
  tpci : TPCI.T
  payload : Option α
  deriving DecidableEq, Repr

/-- the APDU handed to the application layer: first TPDU octet with the TPCI bits cleared, then the rest -/
def apduOf (raw : Bytes) : Bytes := ((raw.drop 7).headD 0 &&& 3) :: (raw.drop 7).drop 1

/-- Everything `CEMILData.from_knx` decides before it consults the application layer:
header fields, transport PDU, and — for data PDUs — the APDU to decode. -/
structure Pre where
  flags : Flags
  src : Nat
  dstGroup : Bool
  dst : Nat
  tpci : TPCI.T
  apdu : Option Bytes      -- none for control PDUs
  deriving DecidableEq, Repr

/-- `CEMILData.from_knx(raw)` up to (excluding) the `APCI.from_knx(_apdu)` call -/
def pre (raw : Bytes) : Except Err Pre :=
  if raw.length < 8 then .error .parse else
  let src := Bytes.toNatBE (Bytes.slice raw 2 4)
  let control := Bytes.toNatBE (Bytes.slice raw 0 2)
  match Flags.fromKnx control with
  | .error _ => .error .unsupported
  | .ok flags =>
    if flags.frameFormat != Cemi.frameFormatStandard then .error .unsupported else
    let grp := (control >>> 7) &&& 1 == 1
    let dst := Bytes.toNatBE (Bytes.slice raw 4 6)
    let npduLen := raw.getD 6 0
    let tpdu0 := (raw.drop 7).headD 0
    if (apduOf raw).length != npduLen + 1 then .error .parse else
    match TPCI.resolve tpdu0 grp (dst == 0) with
    | .error _ => .error .unsupported
    | .ok tpci =>
      if tpci.isControl then
        (if npduLen != 0 then .error .parse
         else .ok ⟨flags, src, grp, dst, tpci, none⟩)
      else .ok ⟨flags, src, grp, dst, tpci, some (apduOf raw)⟩

/-- the rest of `CEMILData.from_knx`: the application layer's verdict, mapped to cEMI errors -/
def stage {α} (C : Codec α) : Except Err Pre → Except Err (LData α)
  | .error e => .error e
  | .ok p => match p.apdu with
    | none => .ok ⟨p.flags, p.src, p.dstGroup, p.dst, p.tpci, none⟩
    | some apdu => match C.decode apdu with
      | .error .unsup => .error .unsupported
      | .error .conv => .error .parse
      | .ok a => .ok ⟨p.flags, p.src, p.dstGroup, p.dst, p.tpci, some a⟩

/-- `CEMILData.from_knx(raw)` -/
def LData.fromKnx {α} (C : Codec α) (raw : Bytes) : Except Err (LData α) := stage C (pre raw)

/-- `CEMILData.to_knx()` for frames whose TPDU kind agrees with the payload
(data ⇒ payload, control ⇒ none); other combinations raise TypeError in Python and are
outside the model (`.error .parse` is never produced here; we use `none` payload ⇒ control). -/
def LData.toKnx {α} (C : Codec α) (d : LData α) : Except Err Bytes :=
  let body : Except Err (Bytes × Nat) :=
    if d.tpci.isControl then .ok ([TPCI.encode d.tpci], 0)
    else match d.payload with
      | none => .error .conv
      | some a => match C.encode a with
        | none => .error .conv
        | some bs => .ok ((bs.headD 0 ||| TPCI.encode d.tpci) :: bs.drop 1, C.len a)
  match body with
  | .error e => .error e
  | .ok (tpdu, npduLen) =>
    if npduLen > Cemi.maxNpduLength then .error .conv else
    let frameType := if npduLen ≤ Cemi.standardFrameMaxNpduLength then Cemi.frameTypeStandard else 0
    match d.flags.toKnx with
    | .error e => .error e
    | .ok fl =>
      let control := fl ||| (frameType <<< 15) ||| ((if d.dstGroup then 1 else 0) <<< 7)
      .ok (Bytes.ofNatBE 2 control ++ Bytes.ofNatBE 2 d.src ++ Bytes.ofNatBE 2 d.dst ++ [npduLen] ++ tpdu)

structure PropInfo where
  objectType : Nat
  objectInstance : Nat
  propertyId : Nat
  numberOfElements : Nat
  startIndex : Nat
  deriving DecidableEq, Repr

/-- `CEMIMPropInfo.from_knx(raw)` -/
def PropInfo.fromKnx (raw : Bytes) : Except Err PropInfo :=
  if raw.length != Cemi.mpropInfoLength then .error .parse else
  let ot := Bytes.toNatBE (Bytes.slice raw 0 2)
  if !Cemi.objectTypes.contains ot then .error .unsupported else
  .ok ⟨ot, raw.getD 2 0, raw.getD 3 0, raw.getD 4 0 >>> 4, Bytes.toNatBE (Bytes.slice raw 4 6) % 0x1000⟩

def PropInfo.toKnx (p : PropInfo) : Bytes :=
  Bytes.ofNatBE 2 p.objectType ++ [p.objectInstance, p.propertyId]
    ++ Bytes.ofNatBE 2 ((p.numberOfElements <<< 12) + p.startIndex)

inductive Data (α : Type) where
  | ldata (d : LData α)
  | propRead (i : PropInfo)                         -- M_PropRead.req
  | propReadCon (i : PropInfo) (data : Bytes)       -- M_PropRead.con / M_PropInfo.ind
  | propWrite (i : PropInfo) (data : Bytes)         -- M_PropWrite.req
  | propWriteCon (i : PropInfo) (err : Option Nat)  -- M_PropWrite.con
  deriving DecidableEq, Repr

structure Frame (α : Type) where
  code : Nat
  info : Bytes
  data : Data α
  deriving DecidableEq, Repr

def propReadConFromKnx (raw : Bytes) : Except Err (PropInfo × Bytes) :=
  if raw.length ≤ Cemi.mpropInfoLength then .error .parse else
  match PropInfo.fromKnx (raw.take Cemi.mpropInfoLength) with
  | .error e => .error e
  | .ok i =>
    if i.numberOfElements == 0 && raw.length != 7 then .error .parse
    else .ok (i, raw.drop Cemi.mpropInfoLength)

def propWriteFromKnx (raw : Bytes) : Except Err (PropInfo × Bytes) :=
  if raw.length ≤ Cemi.mpropInfoLength then .error .parse else
  match PropInfo.fromKnx (raw.take Cemi.mpropInfoLength) with
  | .error e => .error e
  | .ok i => .ok (i, raw.drop Cemi.mpropInfoLength)

def propWriteConFromKnx (raw : Bytes) : Except Err (PropInfo × Option Nat) :=
  if raw.length < Cemi.mpropInfoLength then .error .parse else
  match PropInfo.fromKnx (raw.take Cemi.mpropInfoLength) with
  | .error e => .error e
  | .ok i =>
    if i.numberOfElements == 0 then
      (if raw.length != 7 then .error .parse else .ok (i, some (raw.getD Cemi.mpropInfoLength 0)))
    else if raw.length != Cemi.mpropInfoLength then .error .parse
    else .ok (i, none)

/-- `CEMIFrame.from_knx(raw)` (after the fix: empty input and a missing additional-info
length octet are `CouldNotParseCEMI`). -/
def Frame.fromKnx {α} (C : Codec α) (raw : Bytes) : Except Err (Frame α) :=
  match raw with
  | [] => .error .parse
  | code :: rest =>
    if !(Cemi.messageCodes.map (·.2)).contains code then .error .unsupported
    else if code == Cemi.l_data_ind || code == Cemi.l_data_req || code == Cemi.l_data_con then
      match rest with
      | [] => .error .parse
      | ilen :: r =>
        let info := r.take ilen
        let remainder := r.drop ilen
        match LData.fromKnx C remainder with
        | .error e => .error e
        | .ok d => .ok ⟨code, info, .ldata d⟩
    else if code == Cemi.m_prop_read_req then
      match PropInfo.fromKnx rest with
      | .error e => .error e
      | .ok i => .ok ⟨code, [], .propRead i⟩
    else if code == Cemi.m_prop_read_con || code == Cemi.m_prop_info_ind then
      match propReadConFromKnx rest with
      | .error e => .error e
      | .ok (i, d) => .ok ⟨code, [], .propReadCon i d⟩
    else if code == Cemi.m_prop_write_req then
      match propWriteFromKnx rest with
      | .error e => .error e
      | .ok (i, d) => .ok ⟨code, [], .propWrite i d⟩
    else if code == Cemi.m_prop_write_con then
      match propWriteConFromKnx rest with
      | .error e => .error e
      | .ok (i, e) => .ok ⟨code, [], .propWriteCon i e⟩
    else .error .unsupported

/-- `CEMIFrame.to_knx()` -/
def Frame.toKnx {α} (C : Codec α) (f : Frame α) : Except Err Bytes :=
  let head := f.code :: (if Cemi.hasInfoCodes.contains f.code then f.info.length :: f.info else [])
  match f.data with
  | .ldata d => match LData.toKnx C d with
    | .error e => .error e
    | .ok bs => .ok (head ++ bs)
  | .propRead i => .ok (head ++ i.toKnx)
  | .propReadCon i d => .ok (head ++ i.toKnx ++ d)
  | .propWrite i d => .ok (head ++ i.toKnx ++ d)
  | .propWriteCon i e => .ok (head ++ i.toKnx ++ (match e with | some c => [c] | none => []))

/-! ### Driver instance: the APCI object is represented by its canonical encoding; the outcome
class of the real `APCI.from_knx` on the APDU is an input of the op line. -/

def tagCodec (tag : String) : Codec Bytes :=
  { decode := fun apdu => match tag with
      | "conv" => .error .conv
      | "unsup" => .error .unsup
      | _ => .ok apdu
    encode := fun bs => some bs
    len := fun bs => bs.length - 1 }

def b01 (b : Bool) : String := if b then "1" else "0"

def Flags.render (f : Flags) : String :=
  s!"p{f.priority} r{b01 f.repeatOnError} s{b01 f.systemBroadcast} a{b01 f.ackRequest} c{b01 f.confirmError} h{f.hop} t{f.frameType} e{f.frameFormat}"

def PropInfo.render (i : PropInfo) : String :=
  s!"{i.objectType} {i.objectInstance} {i.propertyId} {i.numberOfElements} {i.startIndex}"

def Err.render : Err → String
  | .parse => "parse" | .unsupported => "unsupported" | .conv => "conv"

def Frame.render (f : Frame Bytes) : String :=
  match f.data with
  | .ldata d =>
    s!"ok {f.code} {hexOfBytes f.info} L {d.flags.render} {d.src} {if d.dstGroup then "g" else "i"} {d.dst} {d.tpci.render} {match d.payload with | some a => hexOfBytes a | none => "none"}"
  | .propRead i => s!"ok {f.code} {hexOfBytes f.info} R {i.render}"
  | .propReadCon i d => s!"ok {f.code} {hexOfBytes f.info} RC {i.render} {hexOfBytes d}"
  | .propWrite i d => s!"ok {f.code} {hexOfBytes f.info} W {i.render} {hexOfBytes d}"
  | .propWriteCon i e => s!"ok {f.code} {hexOfBytes f.info} WC {i.render} {match e with | some c => toString c | none => "none"}"

def parseBool (s : String) : Bool := s == "1"

-- DRIVER: cemi => XknxVerif.CEMI.handle
/-- `parse <rawhex> <apci-tag ok|conv|unsup|na>` → rendered frame | `parse` | `unsupported`
`reser <rawhex> <apduhex|none> <apdulen>` → `ok <hex>` : parse raw (tag ok), replace the payload by the
implementation's canonical APDU encoding/length, serialise.
`build <code> <infohex> <prio> <rep> <sb> <ack> <cerr> <hop> <eff> <src> <g|i> <dst> <tpciClass> <seq> <apduhex|none> <apdulen>`
→ `ok <hex>` | `conv` -/
def handle : List String → String
  | ["parse", h, tag] =>
    match bytesOfHex? h with
    | some raw => match Frame.fromKnx (tagCodec tag) raw with
      | .ok f => f.render
      | .error e => e.render
    | none => "bad-op"
  | ["build", code, info, p, r, s, a, c, hop, eff, src, g, dst, cls, seq, apdu, alen] =>
    match code.toNat?, bytesOfHex? info, p.toNat?, hop.toNat?, eff.toNat?, src.toNat?, dst.toNat?, seq.toNat?, alen.toNat? with
    | some code, some info, some p, some hop, some eff, some src, some dst, some seq, some alen =>
      match TPCI.parseT cls seq with
      | none => "bad-op"
      | some t =>
        let payload? : Option (Option Bytes) :=
          if apdu == "none" then some none else if apdu == "refuse" then some (some []) else (bytesOfHex? apdu).map some
        match payload? with
        | none => "bad-op"
        | some payload =>
          -- "refuse": the payload's own to_knx() raises ConversionError
          let C : Codec Bytes := { decode := fun b => .ok b, encode := fun b => if apdu == "refuse" then none else some b,
                                   len := fun _ => alen }
          let d : LData Bytes := ⟨⟨p, parseBool r, parseBool s, parseBool a, parseBool c, hop, 1, eff⟩, src, g == "g", dst, t, payload⟩
          match Frame.toKnx C ⟨code, info, .ldata d⟩ with
          | .ok bs => s!"ok {hexOfBytes bs}"
          | .error e => e.render
    | _, _, _, _, _, _, _, _, _ => "bad-op"
  | ["reser", h, apdu, alen] =>
    match bytesOfHex? h, alen.toNat? with
    | some raw, some alen =>
      match Frame.fromKnx (tagCodec "ok") raw with
      | .error e => e.render
      | .ok f =>
        let payload? : Option (Option Bytes) := if apdu == "none" then some none else (bytesOfHex? apdu).map some
        match payload? with
        | none => "bad-op"
        | some payload =>
          let C : Codec Bytes := { decode := fun b => .ok b, encode := fun b => some b, len := fun _ => alen }
          let f' : Frame Bytes := match f.data with
            | .ldata d => { f with data := .ldata { d with payload := payload } }
            | _ => f
          match Frame.toKnx C f' with
          | .ok bs => s!"ok {hexOfBytes bs}"
          | .error e => e.render
    | _, _ => "bad-op"
  | _ => "bad-op"

end XknxVerif.CEMI
