/-
Model of xknx/management/management.py : `Management.process`, `P2PConnection.process`,
and the request task (`request` → `send_data` → `_receive`) as a trace monitor (mode R).

One connection peer (source/destination `0`) is modelled; every other source has no
connection object.  All instants are ticks of 2^-20 s.  Core Lean only.

What the monitor leaves open (deliberately): the order in which the background T_ACK /
T_Disconnect senders and the request task run within one virtual instant, and at which point
of an instant the request task is resumed — only what it *does* (telegram sent, result) is
observed, and it must be observed before virtual time moves on.
-/
import XknxVerif.Py.Basic
import XknxVerif.Generated.Management

namespace XknxVerif.P2P
open XknxVerif.Generated

/-- `MANAGAMENT_ACK_TIMEOUT`, `MANAGAMENT_CONNECTION_TIMEOUT` (regenerated). -/
def ACK : Nat := Management.ackTimeout
def CONN : Nat := Management.connectionTimeout

/-- `seq_num + 1 & 0xF` -/
def nextSeq (n : Nat) : Nat := (n + 1) % 16

inductive Frame where
  | connect | disconnect
  | ack (n : Nat) | nak (n : Nat)
  | data (n : Nat) (apdu : Nat)
  | broadcast | individual
  deriving DecidableEq, Repr

inductive Exc where
  | invalidState
  deriving DecidableEq, Repr

/-- `_ack_waiter`: `None` or an asyncio future. -/
inductive AckW where
  | none
  | pending
  | acked (nak : Bool) (n : Nat)   -- set_result(TAck n / TNak n)
  | refused                        -- set_exception(ManagementConnectionRefused)
  | expired                        -- cancelled by the ACK timeout; the sender has not resumed yet
  deriving DecidableEq, Repr

/-- `_response_waiter`: always a future. -/
inductive RespW where
  | pending
  | got (fid n apdu : Nat)         -- set_result(telegram); fid identifies the received telegram
  | refused
  | expired                        -- cancelled by the connection timeout; `_receive` has not resumed yet
  deriving DecidableEq, Repr

/-- `fut.set_result(..)` / `fut.set_exception(..)` raise InvalidStateError on a done future. -/
def AckW.setResult (w : AckW) (nak : Bool) (n : Nat) : Except Exc AckW :=
  match w with
  | .pending => .ok (.acked nak n)
  | _ => .error .invalidState

def AckW.setException (w : AckW) : Except Exc AckW :=
  match w with
  | .pending => .ok .refused
  | _ => .error .invalidState

def RespW.setResult (w : RespW) (fid n apdu : Nat) : Except Exc RespW :=
  match w with
  | .pending => .ok (.got fid n apdu)
  | _ => .error .invalidState

def RespW.setException (w : RespW) : Except Exc RespW :=
  match w with
  | .pending => .ok .refused
  | _ => .error .invalidState

/-- Where the request task stands. `t0` = instant `request()` was entered. -/
inductive Stage where
  | idle
  | rateWait (t0 tSend apdu expect : Nat)             -- rate-limit sleep until tSend (tSend = t0: no sleep)
  | ackWait (t0 k n apdu expect dl : Nat)             -- k-th transmission (1|2) of number n done, ACK awaited until dl
  | respWait (t0 expect dl : Nat)                     -- `_receive` awaits the response until dl
  deriving DecidableEq, Repr

structure Conn where
  connected : Bool          -- `_connected`
  sendSeq : Nat             -- next value of the `sequence_number` generator
  exp : Nat                 -- `_expected_sequence_number`
  ackW : AckW
  respW : RespW
  stage : Stage
  lastResp : Option Nat     -- `_last_response_time` (none = initial 0)
  deriving DecidableEq, Repr

def Conn.fresh : Conn :=
  { connected := true, sendSeq := 0, exp := 0, ackW := .none, respW := .pending, stage := .idle, lastResp := none }

/-- `P2PConnection.shall_acknowledge(n)`: `_connected and (expected - n) & 0xF in (0, 1)`. -/
def Conn.shallAck (c : Conn) (n : Nat) : Bool :=
  c.connected && ((c.exp + 16 - n % 16) % 16 == 0 || (c.exp + 16 - n % 16) % 16 == 1)

/-- `P2PConnection.process(telegram)`. -/
def Conn.process (c : Conn) (fid : Nat) : Frame → Except Exc Conn
  | .disconnect =>
    let c := { c with connected := false }
    -- `if self._ack_waiter and not self._ack_waiter.done(): self._ack_waiter.set_exception(..)`
    (if c.ackW = .pending then c.ackW.setException.map (fun w => { c with ackW := w }) else .ok c) >>= fun c =>
    -- `if not self._response_waiter.done(): self._response_waiter.set_exception(..)`
    if c.respW = .pending then c.respW.setException.map (fun w => { c with respW := w }) else .ok c
  | .ack n =>
    -- `if not self._ack_waiter or self._ack_waiter.done(): return`
    if c.ackW = .pending then (c.ackW.setResult false n).map (fun w => { c with ackW := w }) else .ok c
  | .nak n =>
    if c.ackW = .pending then (c.ackW.setResult true n).map (fun w => { c with ackW := w }) else .ok c
  | .data n apdu =>
    if c.respW ≠ .pending then .ok c               -- `_response_waiter.done()`: unexpected telegram
    else if n ≠ c.exp then .ok c                    -- unexpected sequence number
    else (c.respW.setResult fid n apdu).map (fun w => { c with respW := w, exp := nextSeq c.exp })
  | _ => .ok c                                      -- not T_Data_Connected: ignored

/-- Telegrams `Management.process` hands to background senders. -/
inductive Out where
  | ack (dst n : Nat)
  | disc (dst : Nat)
  deriving DecidableEq, Repr

/-- `Management.process(telegram)` for a telegram from `src` (0 = the connection peer). -/
def mgmtProcess (conn : Option Conn) (src fid : Nat) (f : Frame) : Except Exc (Option Conn × List Out) :=
  let c? := if src = 0 then conn else none
  let acks : List Out :=
    match f with
    | .data n _ =>
      (match c? with
       | none => [Out.ack src n]          -- no connection object: acknowledged (known finding, pinned by the repo's tests)
       | some c => if c.shallAck n then [Out.ack src n] else [])
    | _ => []
  match c? with
  | some c => (c.process fid f).map (fun c' => (some c', acks))
  | none =>
    match f with
    | .connect => .ok (conn, acks ++ [Out.disc src])   -- refuse incoming connections
    | _ => .ok (conn, acks)                             -- numbered: warning; broadcast: contexts; else ignored

/-! ## Trace monitor -/

inductive Outcome where
  | ok (fid n apdu : Nat)
  | refused | timeout | error      -- ManagementConnectionRefused / …Timeout / …Error
  deriving DecidableEq, Repr

inductive Obs where
  | opened (t : Nat) (ok : Bool)                -- `management.connect(peer)` returned / raised ManagementConnectionError
  | closed (t : Nat) (r : Nat)                  -- `management.disconnect(peer)`: 0 ok, 1 refused (peer had disconnected), 2 no connection
  | req (t apdu expect : Nat)                   -- `conn.request(payload)` entered; expect = response type code, 0 = none
  | res (t : Nat) (o : Outcome)                 -- it returned / raised
  | txData (t n apdu : Nat)                     -- T_Data_Connected(n) sent to the peer
  | txAck (t dst n : Nat)                       -- T_ACK(n) sent to dst
  | txDisc (t dst : Nat)                        -- T_Disconnect sent to dst by `Management.process`
  | rx (t src fid : Nat) (f : Frame) (hasConn connected : Bool) (exp : Nat)
                                                -- `management.process` returned normally; anchored pre-state as read from the objects
  | fin (t : Nat)                               -- end of the run: everything settled
  deriving DecidableEq, Repr

def Obs.time : Obs → Nat
  | .opened t _ | .closed t _ | .req t _ _ | .res t _ | .txData t _ _ | .txAck t _ _ | .txDisc t _
  | .rx t _ _ _ _ _ _ | .fin t => t

structure St where
  now : Nat
  rate : Nat                -- 1 / rate_limit in ticks, 0 = no rate limit
  conn : Option Conn
  owed : List Out           -- background sends not observed yet
  deriving DecidableEq, Repr

def St.init (rate : Nat) : St := { now := 0, rate := rate, conn := none, owed := [] }

/-- The request task resumed without anything observable: right ACK, no response yet → `_receive` starts. -/
def Conn.silent (c : Conn) (now : Nat) : Conn :=
  match c.stage, c.ackW, c.respW with
  | .ackWait t0 _ n _ expect _, .acked false m, .pending =>
    if m = n then { c with stage := .respWait t0 expect (now + CONN), ackW := .none } else c
  | _, _, _ => c

/-- Nothing is due at instant `now` any more (so virtual time may move on). -/
def Conn.quiet (c : Conn) (now : Nat) : Bool :=
  match c.stage with
  | .idle => true
  | .rateWait _ tSend _ _ => now < tSend
  | .ackWait _ _ _ _ _ dl => c.ackW = .pending && now < dl
  | .respWait _ _ dl => c.respW = .pending && now < dl

/-- The next instant may not skip a timer of the request task. -/
def Conn.within (c : Conn) (t : Nat) : Bool :=
  match c.stage with
  | .idle => true
  | .rateWait _ tSend _ _ => t ≤ tSend
  | .ackWait _ _ _ _ _ dl => t ≤ dl
  | .respWait _ _ dl => t ≤ dl

/-- A timeout that is due has fired before anything else happens at that instant (it cancels the future). -/
def Conn.expire (c : Conn) (t : Nat) : Conn :=
  match c.stage with
  | .ackWait _ _ _ _ _ dl => if dl ≤ t ∧ c.ackW = .pending then { c with ackW := .expired } else c
  | .respWait _ _ dl => if dl ≤ t ∧ c.respW = .pending then { c with respW := .expired } else c
  | _ => c

/-- Move to the instant of the next observation. -/
def tick (s : St) (t : Nat) : Option St :=
  if t < s.now then none
  else if t = s.now then some s
  else if !s.owed.isEmpty then none
  else
    match s.conn with
    | none => some { s with now := t }
    | some c =>
      let c := c.silent s.now
      if c.quiet s.now && c.within t then some { s with now := t, conn := some (c.expire t) } else none

/-- The type check of `_receive`. -/
def typeOk (expect apdu : Nat) : Bool := expect = 0 || apdu = expect

/-- `_receive` returning at once because `_response_waiter` is done. Result: outcome and the new connection state. -/
def Conn.receiveNow (c : Conn) (t expect : Nat) : Option (Outcome × Conn) :=
  match c.respW with
  | .got fid n apdu =>
    if typeOk expect apdu
    then some (.ok fid n apdu, { c with respW := .pending, ackW := .none, stage := .idle, lastResp := some t })
    else some (.error, { c with respW := .pending, ackW := .none, stage := .idle })
  | .refused => some (.refused, { c with respW := .pending, ackW := .none, stage := .idle })
  | .expired => some (.timeout, { c with respW := .pending, ackW := .none, stage := .idle })
  | .pending => none

/-- What the request task returns when it finishes at instant `t` in the current state. -/
def Conn.result (c : Conn) (t : Nat) : Option (Outcome × Conn) :=
  match c.stage with
  | .idle => none
  | .rateWait _ tSend _ _ =>
    if t = tSend ∧ c.connected = false then some (.refused, { c with stage := .idle }) else none
  | .ackWait _ k n _ expect _ =>
    match c.ackW with
    | .refused => some (.refused, { c with ackW := .none, stage := .idle })
    | .acked true _ => some (.error, { c with ackW := .none, stage := .idle })
    | .acked false m =>
      if m = n then
        c.receiveNow t expect
      else some (.error, { c with ackW := .none, stage := .idle })
    | .expired => if k = 2 then some (.timeout, { c with ackW := .none, stage := .idle }) else none
    | _ => none
  | .respWait _ expect _ => c.receiveNow t expect

/-- Instant at which `send_data` transmits for a request entered at `t`. -/
def Conn.sendTime (c : Conn) (rate t : Nat) : Nat :=
  if c.connected = false then t
  else match c.lastResp with
    | some l => if 0 < rate ∧ t < l + rate then l + rate else t
    | none => t

def onOpened (s : St) (ok : Bool) : Option St :=
  match s.conn, ok with
  | none, true => some { s with conn := some Conn.fresh }
  | some _, false => some s
  | _, _ => none

def onClosed (s : St) (r : Nat) : Option St :=
  match s.conn with
  | none => if r = 2 then some s else none
  | some c =>
    if c.stage = .idle ∧ ((r = 0 ∧ c.connected = true) ∨ (r = 1 ∧ c.connected = false))
    then some { s with conn := none } else none

def onReq (s : St) (apdu expect : Nat) : Option St :=
  match s.conn with
  | none => none
  | some c =>
    if c.stage = .idle then
      some { s with conn := some { c with stage := .rateWait s.now (c.sendTime s.rate s.now) apdu expect } }
    else none

def onTxData (s : St) (n apdu : Nat) : Option St :=
  match s.conn with
  | none => none
  | some c =>
    match c.stage with
    | .rateWait t0 tSend apdu' expect =>
      if s.now = tSend ∧ c.connected = true ∧ n = c.sendSeq ∧ apdu = apdu' then
        some { s with conn := some { c with sendSeq := nextSeq c.sendSeq, ackW := .pending,
                                            stage := .ackWait t0 1 n apdu expect (s.now + ACK) } }
      else none
    | .ackWait t0 k n' apdu' expect dl =>
      if k = 1 ∧ c.ackW = .expired ∧ s.now = dl ∧ n = n' ∧ apdu = apdu' then
        some { s with conn := some { c with ackW := .pending, stage := .ackWait t0 2 n apdu expect (s.now + ACK) } }
      else none
    | _ => none

def onRes (s : St) (o : Outcome) : Option St :=
  match s.conn with
  | none => none
  | some c =>
    match c.result s.now with
    | some (o', c') => if o = o' then some { s with conn := some c' } else none
    | none => none

def onTx (s : St) (o : Out) : Option St :=
  if o ∈ s.owed then some { s with owed := s.owed.erase o } else none

/-- The pre-state recorded with a received frame agrees with the model. -/
def preOk (s : St) (src : Nat) (hasConn connected : Bool) (exp : Nat) : Bool :=
  match (if src = 0 then s.conn else none) with
  | none => !hasConn && !connected && exp == 0
  | some c => hasConn && connected == c.connected && exp == c.exp

def onRx (s : St) (src fid : Nat) (f : Frame) (hasConn connected : Bool) (exp : Nat) : Option St :=
  if preOk s src hasConn connected exp then
    match mgmtProcess s.conn src fid f with
    | .ok (conn', outs) => some { s with conn := conn', owed := s.owed ++ outs }
    | .error _ => none
  else none

/-- No request in flight. -/
def St.idle (s : St) : Bool :=
  match s.conn with
  | none => true
  | some c => c.stage = .idle

def onFin (s : St) : Option St :=
  if s.owed.isEmpty ∧ s.idle then some s else none

def core (s : St) : Obs → Option St
  | .opened _ ok => onOpened s ok
  | .closed _ r => onClosed s r
  | .req _ apdu expect => onReq s apdu expect
  | .res _ o => onRes s o
  | .txData _ n apdu => onTxData s n apdu
  | .txAck _ dst n => onTx s (.ack dst n)
  | .txDisc _ dst => onTx s (.disc dst)
  | .rx _ src fid f hc cn exp => onRx s src fid f hc cn exp
  | .fin _ => onFin s

def step? (s : St) (o : Obs) : Option St :=
  match tick s o.time with
  | some s' => core s' o
  | none => none

def run? : St → List Obs → Option St
  | s, [] => some s
  | s, o :: os => match step? s o with
    | some s' => run? s' os
    | none => none

/-! ## Line protocol -/

def parseFrame (s : String) : Option Frame :=
  match s.toList with
  | ['C'] => some .connect
  | ['X'] => some .disconnect
  | ['B'] => some .broadcast
  | ['I'] => some .individual
  | 'A' :: r => (String.ofList r).toNat?.map .ack
  | 'N' :: r => (String.ofList r).toNat?.map .nak
  | 'D' :: r =>
    match (String.ofList r).splitOn "." with
    | [a, b] => match a.toNat?, b.toNat? with
      | some n, some p => some (.data n p)
      | _, _ => none
    | _ => none
  | _ => none

def parseObs (tok : String) : Option Obs :=
  match tok.splitOn ":" with
  | ["o", t, _, r] => do some (.opened (← t.toNat?) ((← r.toNat?) == 1))
  | ["c", t, _, r] => do some (.closed (← t.toNat?) (← r.toNat?))
  | ["q", t, _, a, e] => do some (.req (← t.toNat?) (← a.toNat?) (← e.toNat?))
  | ["r", t, _, "ok", fid, n, a] => do some (.res (← t.toNat?) (.ok (← fid.toNat?) (← n.toNat?) (← a.toNat?)))
  | ["r", t, _, "ref"] => do some (.res (← t.toNat?) .refused)
  | ["r", t, _, "to"] => do some (.res (← t.toNat?) .timeout)
  | ["r", t, _, "err"] => do some (.res (← t.toNat?) .error)
  | ["d", t, _, n, a] => do some (.txData (← t.toNat?) (← n.toNat?) (← a.toNat?))
  | ["a", t, d, n] => do some (.txAck (← t.toNat?) (← d.toNat?) (← n.toNat?))
  | ["x", t, d] => do some (.txDisc (← t.toNat?) (← d.toNat?))
  | ["i", t, src, fid, f, hc, cn, e] =>
    do some (.rx (← t.toNat?) (← src.toNat?) (← fid.toNat?) (← parseFrame f) ((← hc.toNat?) == 1) ((← cn.toNat?) == 1) (← e.toNat?))
  | ["f", t] => do some (.fin (← t.toNat?))
  | _ => none

/-- Replay one segment; `none` = accepted, `some (index, token)` = first rejected observation. -/
def replay (s : St) (idx : Nat) : List String → Option (Nat × String)
  | [] => none
  | tok :: rest =>
    match parseObs tok with
    | none => some (idx, tok)
    | some o =>
      match step? s o with
      | none => some (idx, tok)
      | some s' => replay s' (idx + 1) rest

def splitSegs (toks : List String) : List (List String) :=
  toks.foldr (fun t acc => if t == "|" then [] :: acc else match acc with
    | [] => [[t]]
    | a :: as => (t :: a) :: as) [[]]

-- DRIVER: p2p => XknxVerif.P2P.handle
/-- `monitor <rateTicks> <obs…> [| <obs…>]*` → `accept` | `reject <segment> <index> <token>` -/
def handle : List String → String
  | "monitor" :: rate :: toks =>
    match rate.toNat? with
    | none => "bad-op"
    | some r =>
      let segs := splitSegs toks
      let rec go (i : Nat) : List (List String) → String
        | [] => "accept"
        | seg :: rest =>
          match replay (St.init r) 0 seg with
          | none => go (i + 1) rest
          | some (k, tok) => s!"reject {i} {k} {tok}"
      go 0 segs
  | _ => "bad-op"

end XknxVerif.P2P
