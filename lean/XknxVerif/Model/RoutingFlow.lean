/-
Model of xknx/io/routing.py : `_RoutingFlowControl` (throttle / handle_routing_busy /
_resume_sending) and `Routing.send_cemi`, as a *monitor* over the observable trace (mode R).
Times are integer microseconds on the virtual clock.  Core Lean only.

Observations (in the order the implementation produced them):
  busy t w k n a   RoutingBusy(wait_time = w ms) handled at t; `random.random()` is scripted to k/1000;
                   n = busy counter right after the handler, a = the pause timer was (re)started.
                   n and a are probes: the monitor *predicts* both and only accepts a different value
                   where the code's float comparison sits exactly on its boundary (gap = cooldown,
                   remaining = wait) or where a decrement of the counter is due at the very same instant.
  ready t          `_ready` set by `_resume_sending` (end of the pause)
  req t id         `send_cemi` called for telegram `id`
  send t id        its RoutingIndication handed to the socket
  con t id         its L_Data.con handed to `cemi_received_callback`
  rx t             a received RoutingIndication passed up (not constrained)
  fin t u          end of the run: u sender tasks still unfinished

Orders deliberately left open: which of several waiting senders goes next (the code: FIFO through an
asyncio.Lock); `con` need not follow its `send` immediately; same-instant events are taken in the order observed.
-/
import XknxVerif.Py.Basic
import XknxVerif.Generated.RoutingConsts

namespace XknxVerif.RoutingFlow
open XknxVerif.Generated.RoutingConsts

inductive Obs where
  | busy (t w k n : Nat) (applied : Bool)
  | ready (t : Nat)
  | req (t id : Nat)
  | send (t id : Nat)
  | con (t id : Nat)
  | rx (t : Nat)
  | fin (t u : Nat)
  deriving DecidableEq, Repr

def Obs.time : Obs → Nat
  | .busy t _ _ _ _ | .ready t | .req t _ | .send t _ | .con t _ | .rx t | .fin t _ => t

structure State where
  now : Nat := 0
  /-- `_ready.is_set()` -/
  ready : Bool := true
  /-- `_wait_start_time` -/
  waitStart : Option Nat := none
  /-- `_wait_time_ms`, in µs -/
  waitUs : Nat := 0
  /-- the instant the running `_resume_sending` task sets `_ready` -/
  resumeAt : Option Nat := none
  /-- `_received_busy_frames` -/
  n : Nat := 0
  /-- `slowduration` captured when the running timer task started -/
  slow : Nat := 0
  /-- next decrement of the counter by the fade-out loop -/
  decNext : Option Nat := none
  /-- `_last_busy_frame_time` -/
  lastBusy : Nat := 0
  /-- `_last_sent_routing_indication_time` (the code starts from 0.0 on a clock that is far from 0) -/
  lastSent : Option Nat := none
  /-- callers inside `throttle()`: (id, time of the call), oldest first -/
  queue : List (Nat × Nat) := []
  /-- sent, L_Data.con outstanding -/
  unconf : List Nat := []
  /-- confirmed -/
  conf : List Nat := []
  /-- ghost: when `_ready` was last set -/
  readySince : Nat := 0
  deriving DecidableEq, Repr

def init : State := {}

/-- earliest instant the spacing rule allows the next RoutingIndication of a caller that asked at `rt` -/
def due (s : State) (rt : Nat) : Nat :=
  match s.lastSent with
  | none => rt
  | some l => max rt (l + indWaitUs)

/-- the fade-out loop: every decrement strictly before `t` has happened -/
def applyDec : Nat → Option Nat → Nat → Nat × Option Nat
  | 0, _, _ => (0, none)
  | n + 1, none, _ => (n + 1, none)
  | n + 1, some d, t => if d < t then applyDec n (some (d + decUs)) t else (n + 1, some d)

/-- end of the pause set by a busy frame handled at `t`: wait time plus random extension r·N·50 ms -/
def pauseEnd (t w k n : Nat) : Nat := t + w * 1000 + k * n * randUs / 1000

/-- `_ready` was not set on time -/
def resumeOverdue (s : State) (t : Nat) : Bool :=
  match s.resumeAt with
  | some e => decide (e < t)
  | none => false

/-- a caller was free to send (flag set, spacing over) and did not -/
def sendOverdue (s : State) (t : Nat) : Bool :=
  match s.queue with
  | (_, rt) :: _ => s.ready && decide (max (due s rt) s.now < t)
  | [] => false

/-- Let virtual time pass to `t`; `none` if something the code does by itself is overdue. -/
def advance (s : State) (t : Nat) : Option State :=
  if t < s.now ∨ resumeOverdue s t = true ∨ sendOverdue s t = true then none
  else some { s with now := t, n := (applyDec s.n s.decNext t).1, decNext := (applyDec s.n s.decNext t).2 }

def startPause (s : State) (t w k n : Nat) : State :=
  { s with ready := false, lastBusy := t, n := n, waitUs := w * 1000, waitStart := some t,
           resumeAt := some (pauseEnd t w k n), slow := n * slowUs, decNext := none }

/-- First busy frame of a pause: counter untouched (a decrement due at this very instant may or may not have run). -/
def freshBusyOk (s : State) (t nObs : Nat) : Bool :=
  decide ((if s.decNext = some t then s.n - 1 else s.n) ≤ nObs) && decide (nObs ≤ s.n)

/-- A busy frame while a pause runs: the counter goes up iff the previous busy frame is more than the cooldown
ago; the frame is discarded iff the remaining wait time covers its own.  On the exact boundaries of the two
float comparisons either outcome is accepted. -/
def pausedBusyOk (s : State) (ws t w nObs : Nat) (applied : Bool) : Bool :=
  let gap := t - s.lastBusy
  let nOk : Bool := if gap > coolUs then nObs == s.n + 1 else if gap < coolUs then nObs == s.n
             else (nObs == s.n || nObs == s.n + 1)
  -- discard iff remaining = waitUs − (t − ws) ≥ w·1000 (remaining may be negative while the random extension runs)
  let lhs := s.waitUs
  let rhs := w * 1000 + (t - ws)
  let aOk : Bool := if lhs > rhs then !applied else if lhs < rhs then applied else true
  nOk && aOk

def step? (s0 : State) (o : Obs) : Option State :=
  match advance s0 o.time with
  | none => none
  | some s =>
  match o with
  | .busy t w k nObs applied =>
    match s.waitStart with
    | none =>
      -- first busy frame of a pause: counter untouched (a decrement due right now may or may not have run)
      if freshBusyOk s t nObs ∧ applied = true then some (startPause s t w k nObs) else none
    | some ws =>
      if pausedBusyOk s ws t w nObs applied then
        if applied then some (startPause s t w k nObs)
        else some { s with ready := false, lastBusy := t, n := nObs }
      else none
  | .ready t =>
    if s.resumeAt = some t ∧ s.ready = false then
      some { s with ready := true, waitStart := none, resumeAt := none, readySince := t,
                    decNext := if s.n > 0 then some (t + s.slow + decUs) else none }
    else none
  | .req t id =>
    if id ∈ s.queue.map (·.1) ∨ id ∈ s.unconf ∨ id ∈ s.conf then none
    else some { s with queue := s.queue ++ [(id, t)] }
  | .send t id =>
    match s.queue.lookup id with
    | none => none
    | some rt =>
      if s.ready ∧ due s rt ≤ t then
        some { s with lastSent := some t, queue := s.queue.filter (·.1 != id), unconf := id :: s.unconf }
      else none
  | .con _ id =>
    if id ∈ s.unconf then some { s with unconf := s.unconf.erase id, conf := id :: s.conf } else none
  | .rx _ => some s
  | .fin _ u =>
    if u = 0 ∧ s.queue = [] ∧ s.unconf = [] ∧ s.resumeAt = none then some s else none

/-- Replay a trace; `none` = the monitor rejects it. -/
def runFrom (s : State) : List Obs → Option State
  | [] => some s
  | o :: os => match step? s o with
    | none => none
    | some s' => runFrom s' os

def accepts (tr : List Obs) : Prop := (runFrom init tr).isSome

instance (tr : List Obs) : Decidable (accepts tr) := by unfold accepts; infer_instance

/-- index of the first rejected observation -/
def firstReject (s : State) (i : Nat) : List Obs → Option Nat
  | [] => none
  | o :: os => match step? s o with
    | none => some i
    | some s' => firstReject s' (i + 1) os

-- ---------------------------------------------------------------------------------------------
-- line protocol

def parseObs (tok : String) : Option Obs :=
  match tok.splitOn "," with
  | ["b", t, w, k, n, a] => do
    let t ← t.toNat?; let w ← w.toNat?; let k ← k.toNat?; let n ← n.toNat?
    some (.busy t w k n (a == "1"))
  | ["y", t] => do some (.ready (← t.toNat?))
  | ["q", t, i] => do some (.req (← t.toNat?) (← i.toNat?))
  | ["s", t, i] => do some (.send (← t.toNat?) (← i.toNat?))
  | ["c", t, i] => do some (.con (← t.toNat?) (← i.toNat?))
  | ["x", t] => do some (.rx (← t.toNat?))
  | ["f", t, u] => do some (.fin (← t.toNat?) (← u.toNat?))
  | _ => none

-- DRIVER: rfc => XknxVerif.RoutingFlow.handle
/-- `monitor <obs>;<obs>;…` → `accept` | `reject <index>` -/
def handle : List String → String
  | ["monitor", tr] =>
    match (tr.splitOn ";").mapM parseObs with
    | none => "bad-op"
    | some obs =>
      match firstReject init 0 obs with
      | none => "accept"
      | some i => s!"reject {i}"
  | _ => "bad-op"

end XknxVerif.RoutingFlow
