/-
Model of xknx/mcp/tools.py: `_paginate`, `list_dpts` (filter, sort, window, next_offset).
Core Lean only.
-/
import XknxVerif.Py.Basic
import XknxVerif.Generated.McpDpts

namespace XknxVerif.MCP
open XknxVerif.Generated.McpDpts

/-- Python slice index normalisation for a sequence of length `len`. -/
def sliceIdx (len : Nat) (i : Int) : Nat :=
  if i < 0 then (if i + len < 0 then 0 else (i + len).toNat) else min i.toNat len

/-- `items[lo:hi]` -/
def pySlice {α} (l : List α) (lo hi : Int) : List α :=
  (l.take (sliceIdx l.length hi)).drop (sliceIdx l.length lo)

/-- `items[lo:]` -/
def pySliceFrom {α} (l : List α) (lo : Int) : List α := l.drop (sliceIdx l.length lo)

/-- `_paginate(items, limit, offset)` → (window, limit_reached) -/
def paginate {α} (items : List α) (limit offset : Int) : List α × Bool :=
  let window := if limit ≥ 0 then pySlice items offset (offset + limit) else pySliceFrom items offset
  (window, decide (0 ≤ limit ∧ limit < (items.length : Int) - offset))

/-- `next_offset` of the result: `offset + len(window) if limit_reached else None`. -/
def nextOffset {α} (items : List α) (limit offset : Int) : Option Int :=
  let (w, r) := paginate items limit offset
  if r then some (offset + w.length) else none

/-- A client paging from `offset` by following `next_offset` (at most `fuel` requests). -/
def walk {α} (items : List α) (limit : Int) : Nat → Int → List (List α)
  | 0, _ => []
  | fuel + 1, off =>
    let (w, r) := paginate items limit off
    if r then w :: walk items limit fuel (off + w.length) else [w]

/-- sort key `(dpt_main_number or 0, dpt_sub_number or -1)` -/
def key (r : Row) : Int × Int :=
  ((match r.main with | some m => (m : Int) | none => 0),
   (match r.sub with | some 0 => -1 | some s => (s : Int) | none => -1))

def le (a b : Row) : Bool :=
  let ka := key a; let kb := key b
  decide (ka.1 < kb.1) || (decide (ka.1 = kb.1) && decide (ka.2 ≤ kb.2))

def isPrefix : List Char → List Char → Bool
  | [], _ => true
  | _ :: _, [] => false
  | a :: as, b :: bs => a == b && isPrefix as bs

/-- `needle in haystack` -/
def isInfix (needle : List Char) : List Char → Bool
  | [] => needle.isEmpty
  | h :: t => isPrefix needle (h :: t) || isInfix needle t

/-- ASCII `str.lower()` (the harness only sends needles on which it agrees with Python's). -/
def lowerAscii (s : String) : String := s.map fun c => if 'A' ≤ c ∧ c ≤ 'Z' then Char.ofNat (c.toNat + 32) else c

def rowMatches (main : Option Nat) (needle : Option String) (r : Row) : Bool :=
  (match main with | none => true | some m => r.main == some m)
  && (match needle with | none => true | some n => isInfix (lowerAscii n).toList r.haystack.toList)

/-- the sorted match list of `list_dpts` -/
def listMatches (tbl : List Row) (main : Option Nat) (needle : Option String) : List Row :=
  (tbl.filter (rowMatches main needle)).mergeSort le

structure ListResult where
  dpts : List String
  total : Nat
  next : Option Int
  reached : Bool

def listDpts (tbl : List Row) (main : Option Nat) (needle : Option String) (limit offset : Int) : ListResult :=
  let m := listMatches tbl main needle
  let (w, r) := paginate m limit offset
  ⟨w.map (·.numberStr), m.length, if r then some (offset + w.length) else none, r⟩

/-! line protocol -/

def parseInt? (s : String) : Option Int := s.toInt?

def hexDecodeStr (s : String) : Option String := do
  let bs ← bytesOfHex? s
  pure (String.ofList (bs.map Char.ofNat))   -- needles are sent as hex of ASCII/Latin-1 code points

-- DRIVER: c45 => XknxVerif.MCP.handle
/-- `paginate <n> <limit> <offset>` over items 0..n-1 → `<window as a-b|-> <reached> <next|none>`
`list <main|-> <needlehex|none> <limit> <offset>` → `<numbers comma|-> <total> <next|none> <reached>`
`walk <main|-> <needlehex|none> <limit>` → `<all numbers over the pages|-> <pages>` (client following next_offset from 0) -/
def handle : List String → String
  | ["paginate", n, l, o] =>
    match n.toNat?, parseInt? l, parseInt? o with
    | some n, some l, some o =>
      let items := List.range n
      let (w, r) := paginate items l o
      let ws := if w.isEmpty then "-" else ",".intercalate (w.map toString)
      let nx := match nextOffset items l o with | some x => toString x | none => "none"
      s!"{ws} {if r then 1 else 0} {nx}"
    | _, _, _ => "bad-op"
  | ["list", m, nd, l, o] =>
    let m? : Option (Option Nat) := if m == "-" then some none else m.toNat?.map some
    let nd? : Option (Option String) := if nd == "none" then some none else (hexDecodeStr nd).map some
    match m?, nd?, parseInt? l, parseInt? o with
    | some m, some nd, some l, some o =>
      let r := listDpts table m nd l o
      let ds := if r.dpts.isEmpty then "-" else ",".intercalate r.dpts
      let nx := match r.next with | some x => toString x | none => "none"
      s!"{ds} {r.total} {nx} {if r.reached then 1 else 0}"
    | _, _, _, _ => "bad-op"
  | ["walk", m, nd, l] =>
    let m? : Option (Option Nat) := if m == "-" then some none else m.toNat?.map some
    let nd? : Option (Option String) := if nd == "none" then some none else (hexDecodeStr nd).map some
    match m?, nd?, parseInt? l with
    | some m, some nd, some l =>
      let ms := listMatches table m nd
      let pages := walk ms l (2 * ms.length + 5) 0
      let ds := pages.flatten.map (·.numberStr)
      s!"{if ds.isEmpty then "-" else ",".intercalate ds} {pages.length}"
    | _, _, _ => "bad-op"
  | _ => "bad-op"

end XknxVerif.MCP
