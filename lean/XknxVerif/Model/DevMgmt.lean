/-
Model of xknx/io/device_management_connection.py (`_DeviceManagementConnection.request`, `_cemi_received`,
`_stop`, UDP `_send_request` repetition, TCP `_send_request`) together with xknx/io/device_management.py
(acknowledging the server's frames) and the ACK wait of xknx/io/request_response/device_configuration.py,
as a deterministic discrete-event simulation: `step : St → In → St × List Out`.
Every input is followed by the event loop running until nothing is runnable (the harness does the same), and
timers that are due fire before an input of the same instant.  Instants are ticks of 2^-20 s.

The ACK filter is modelled as REPAIRED by branch b-tunnel (property C24): a DeviceConfigurationAck confirms the
transmission only if it carries this channel and this sequence counter.  Core Lean only.
-/
import XknxVerif.Py.Basic
import XknxVerif.Generated.DeviceConfig

namespace XknxVerif.DevMgmt
open XknxVerif.Generated

def TMO : Nat := DeviceConfig.requestTimeout        -- DEVICE_CONFIGURATION_REQUEST_TIMEOUT
def REPS : Nat := DeviceConfig.requestRepetitions   -- DEVICE_CONFIGURATION_REQUEST_REPETITIONS
def DTMO : Nat := DeviceConfig.disconnectTimeout    -- timeout of the Disconnect exchange

/-- (object type, object instance, property id) -/
structure P3 where
  obj : Nat
  inst : Nat
  pid : Nat
  deriving DecidableEq, Repr

/-- What a received cEMI frame is, as far as `_cemi_received` and `matches` can tell. -/
inductive Code where
  | rc    -- M_PropRead.con
  | wc    -- M_PropWrite.con
  | ind   -- M_PropInfo.ind
  | rq    -- any other parsable message code
  | gb    -- not parsable
  deriving DecidableEq, Repr

structure Frame where
  code : Code
  p : P3
  err : Bool      -- carries an error code
  data : Nat
  deriving DecidableEq, Repr

inductive Kind where
  | read | write
  deriving DecidableEq, Repr

structure Req where
  k : Nat         -- caller
  kind : Kind
  p : P3
  deriving DecidableEq, Repr

/-- `_pending` while a request holds the lock. -/
inductive Pend where
  | empty | filled (f : Frame) | cancelled
  deriving DecidableEq, Repr

inductive Stage where
  | ackWait (attempt dl : Nat)   -- UDP: transmission number `attempt` is out, ACK awaited until dl
  | ansWait (dl : Nat)           -- answer awaited until dl
  | giveUp (dl : Nat)            -- UDP: repetitions exhausted, `disconnect()` awaits the DisconnectResponse until dl
  deriving DecidableEq, Repr

structure Active where
  r : Req
  stage : Stage
  pend : Pend
  deriving DecidableEq, Repr

inductive Result where
  | okData (d : Nat) | okWrite | comm
  deriving DecidableEq, Repr

inductive Ev where
  | tx (k seq : Nat) (kind : Kind) (p : P3)   -- DeviceConfigurationRequest sent (k: whose request; not on the wire)
  | ack (sseq : Nat)                          -- DeviceConfigurationAck sent for a frame of the server
  | ind (p : P3)                              -- indication_callback invoked
  | res (k : Nat) (r : Result)                -- read_property / write_property returned or raised CommunicationError
  | dreq | dresp                              -- DisconnectRequest / DisconnectResponse sent
  deriving DecidableEq, Repr

abbrev Out := Nat × Ev    -- (instant, event)

inductive CloseKind where
  | server    -- DisconnectRequest of the server
  | lost      -- TCP connection lost
  | user      -- `await connection.disconnect()` (also what the heartbeat does on failure)
  deriving DecidableEq, Repr

inductive In where
  | call (t : Nat) (r : Req)
  | ackIn (t seq : Nat) (err chanOk : Bool)
  | cemi (t sseq : Nat) (f : Frame)
  | close (t : Nat) (c : CloseKind)
  | discResp (t : Nat)
  | fin (t : Nat)
  deriving DecidableEq, Repr

def In.time : In → Nat
  | .call t _ | .ackIn t _ _ _ | .cemi t _ _ | .close t _ | .discResp t | .fin t => t

structure St where
  now : Nat
  udp : Bool
  chan : Bool               -- communication_channel is not None
  up : Bool                 -- transport is connected
  seq : Nat                 -- sequence_number
  sexp : Nat                -- expected sequence counter of the server's frames (UDP)
  act : Option Active       -- holder of `_request_lock`
  queue : List Req          -- callers waiting for the lock, FIFO
  userDisc : Option Nat     -- user `disconnect()` awaiting the DisconnectResponse until this instant
  cb : Bool := true         -- an `indication_callback` is registered (the constructor default is None)
  deriving DecidableEq, Repr

def St.init (udp : Bool) (cb : Bool := true) : St :=
  { now := 0, udp := udp, chan := true, up := true, seq := 0, sexp := 0, act := none, queue := [], userDisc := none,
    cb := cb }

/-- The `matches` of read_property / write_property. -/
def Req.matches (r : Req) (f : Frame) : Bool :=
  (match r.kind, f.code with
   | .read, .rc => true
   | .write, .wc => true
   | _, _ => false) && decide (f.p = r.p)

def Req.resultOf (r : Req) (f : Frame) : Result :=
  if f.err then .comm else match r.kind with
    | .read => .okData f.data
    | .write => .okWrite

/-- A caller that got the lock on an open connection sends its request. -/
def begin (s : St) (r : Req) (rest : List Req) : St × List Out :=
  if s.udp then
    ({ s with act := some ⟨r, .ackWait 1 (s.now + TMO), .empty⟩, queue := rest }, [(s.now, .tx r.k s.seq r.kind r.p)])
  else
    ({ s with act := some ⟨r, .ansWait (s.now + TMO), .empty⟩, queue := rest, seq := (s.seq + 1) % 256 },
     [(s.now, .tx r.k s.seq r.kind r.p)])

/-- The lock is free: hand it to the waiting callers in turn. On a closed connection each fails at once. -/
def grantQ (s : St) : List Req → St × List Out
  | [] => ({ s with act := none, queue := [] }, [])
  | r :: rest =>
    if s.chan then begin s r rest
    else
      let (s', o) := grantQ s rest
      (s', (s.now, .res r.k .comm) :: o)

/-- The active request ends with `res`; the lock goes on. -/
def finish (s : St) (a : Active) (res : Result) : St × List Out :=
  let (s', o) := grantQ { s with act := none } s.queue
  (s', (s.now, .res a.r.k res) :: o)

/-- The request task looks at `_pending` while it waits for the answer. -/
def consume (s : St) (a : Active) : St × List Out :=
  match a.pend with
  | .filled f =>
    if a.r.matches f then finish s a (a.r.resultOf f)
    else ({ s with act := some { a with pend := .empty } }, [])      -- discarded, a new future is awaited
  | .cancelled => finish s a .comm                                     -- `_stop()` failed the request
  | .empty => ({ s with act := some a }, [])

/-- The transmission counts as acknowledged: the counter advances and the answer is awaited. -/
def acknowledged (s : St) (a : Active) : St × List Out :=
  consume { s with seq := (s.seq + 1) % 256 } { a with stage := .ansWait (s.now + TMO) }

/-- `_stop()`: a request waiting for its answer is failed (a future that is done stays as it is). -/
def Pend.stop : Pend → Pend
  | .empty => .cancelled
  | p => p

/-- Repetitions exhausted: `await self.disconnect()` inside `_send_request`, then CommunicationError. -/
def giveUp (s : St) (a : Active) : St × List Out :=
  let a := { a with pend := a.pend.stop }
  if s.chan ∧ s.up then
    ({ s with chan := false, act := some { a with stage := .giveUp (s.now + DTMO) } }, [(s.now, .dreq)])
  else
    finish { s with chan := false, up := false } a .comm

/-- Next transmission after a failed one (`fuel` = transmissions still allowed). A send on a stopped
transport fails at once and counts as a failed transmission. -/
def retry (s : St) (a : Active) (attempt : Nat) : Nat → St × List Out
  | 0 => giveUp s a
  | fuel + 1 =>
    if s.up then
      ({ s with act := some { a with stage := .ackWait (attempt + 1) (s.now + TMO) } },
       [(s.now, .tx a.r.k s.seq a.r.kind a.r.p)])
    else retry s a (attempt + 1) fuel

def nextAttempt (s : St) (a : Active) (attempt : Nat) : St × List Out :=
  retry s a attempt (REPS + 1 - attempt)

/-- The ACK wait ended without a usable acknowledgement: the request still counts as accepted if its answer is
already there. -/
def ackFailed (s : St) (a : Active) (attempt : Nat) : St × List Out :=
  match a.pend with
  | .filled _ => acknowledged s a
  | _ => nextAttempt s a attempt

/-- `_stop()` as the active request sees it: a request waiting for its answer fails now; one that still waits for
its acknowledgement only has its future cancelled. -/
def stopActive (s : St) : St × List Out :=
  match s.act with
  | none => (s, [])
  | some a =>
    match a.stage with
    | .ansWait _ => consume s { a with pend := a.pend.stop }
    | _ => ({ s with act := some { a with pend := a.pend.stop } }, [])

/-- `communication_channel = None` + `_stop()` + `transport.stop()`. -/
def connLost (s : St) : St × List Out := stopActive { s with chan := false, up := false }

/-- User `disconnect()`: `_stop()`, channel cleared, Disconnect exchange if there was a channel. -/
def userClose (s : St) : St × List Out :=
  if s.chan ∧ s.up then
    let (s', o) := stopActive { s with chan := false, userDisc := some (s.now + DTMO) }
    (s', (s.now, .dreq) :: o)
  else stopActive { s with chan := false, up := false }

/-- The DisconnectResponse ends a user `disconnect()` … -/
def userDiscDone (s : St) : St :=
  match s.userDisc with
  | some _ => { s with userDisc := none, up := false }
  | none => s

/-- … and the `disconnect()` of a request that gave up. -/
def giveUpDone (s : St) : St × List Out :=
  match s.act with
  | some a =>
    (match a.stage with
     | .giveUp _ => finish { s with up := false } a .comm
     | _ => (s, []))
  | none => (s, [])

/-- `_cemi_received`. -/
def deliver (s : St) (f : Frame) : St × List Out :=
  match f.code with
  | .gb => (s, [])
  | .ind => (s, if s.cb then [(s.now, .ind f.p)] else [])    -- to the callback if there is one; never to a request
  | _ =>
    match s.act with
    | some a =>
      (match a.pend with
       | .empty =>
         let a := { a with pend := .filled f }
         (match a.stage with
          | .ansWait _ => consume s a
          | _ => ({ s with act := some a }, []))
       | _ => (s, []))
    | none => (s, [])

def inject (s : St) : In → St × List Out
  | .call _ r =>
    (match s.act with
     | none => grantQ s (s.queue ++ [r])
     | some _ => ({ s with queue := s.queue ++ [r] }, []))
  | .ackIn _ seq err chanOk =>
    (match s.act with
     | some a =>
       (match a.stage with
        | .ackWait n _ =>
          if s.udp ∧ chanOk ∧ seq = s.seq then
            (if err then ackFailed s a n else acknowledged s a)
          else (s, [])
        | _ => (s, []))
     | none => (s, []))
  | .cemi _ sseq f =>
    if !s.chan then (s, [])
    else if s.udp then
      if sseq = s.sexp then
        let (s', o) := deliver { s with sexp := (s.sexp + 1) % 256 } f
        (s', (s.now, .ack sseq) :: o)
      else if sseq = (s.sexp + 255) % 256 then (s, [(s.now, .ack sseq)])
      else (s, [])
    else deliver s f
  | .close _ .server =>
    if s.chan then
      let (s', o) := connLost s
      (s', (s.now, .dresp) :: o)
    else (s, [])
  | .close _ .lost => if s.up then connLost s else (s, [])
  | .close _ .user => userClose s
  | .discResp _ => giveUpDone (userDiscDone s)
  | .fin _ => (s, [])

/-- The earliest timer of the state. -/
def actDeadline (s : St) : Option Nat :=
  match s.act with
  | some a => (match a.stage with | .ackWait _ dl => some dl | .ansWait dl => some dl | .giveUp dl => some dl)
  | none => none

/-- The timer of the active request fires. -/
def fireAct (s : St) : St × List Out :=
  match s.act with
  | some a =>
    (match a.stage with
     | .ackWait n _ => ackFailed s a n
     | .ansWait _ => finish s a .comm
     | .giveUp _ => finish { s with up := false } a .comm)
  | none => (s, [])

def fireUser (s : St) : St × List Out := ({ s with userDisc := none, up := false }, [])

/-- Run the timers that are due up to instant `t` (in order), then be at `t`. -/
def advance (s : St) (t : Nat) : Nat → St × List Out
  | 0 => ({ s with now := max s.now t }, [])
  | fuel + 1 =>
    let da := actDeadline s
    let du := s.userDisc
    let next : Option (Nat × Bool) :=
      match da, du with
      | some a, some u => if a ≤ u then some (a, true) else some (u, false)
      | some a, none => some (a, true)
      | none, some u => some (u, false)
      | none, none => none
    match next with
    | some (d, isAct) =>
      if d ≤ t then
        let s1 := { s with now := max s.now d }
        let (s2, o) := if isAct then fireAct s1 else fireUser s1
        let (s3, o') := advance s2 t fuel
        (s3, o ++ o')
      else ({ s with now := max s.now t }, [])
    | none => ({ s with now := max s.now t }, [])

def fuelFor (s : St) : Nat := (s.queue.length + 3) * (REPS + 6)

/-- One harness event: timers due up to its instant, then the event, then the loop settles. Returns the outputs of
the timers (they belong to the time before the event) and those of the event. -/
def step2 (s : St) (i : In) : St × List Out × List Out :=
  let (s1, o1) := advance s i.time (fuelFor s)
  let (s2, o2) := inject s1 i
  (s2, o1, o2)

def step (s : St) (i : In) : St × List Out :=
  let (s', o1, o2) := step2 s i
  (s', o1 ++ o2)

/-! ## Line protocol -/

def hex2 (n : Nat) : String := String.ofList [hexDigit ((n / 16) % 16), hexDigit (n % 16)]

def P3.render (p : P3) : String := s!"{p.obj}:{p.inst}:{p.pid}"

def Ev.render : Ev → String
  | .tx _ seq kind p => s!"tx:{seq}:{match kind with | .read => "rq" | .write => "wq"}:{p.render}"
  | .ack n => s!"ack:{n}"
  | .ind p => s!"ind:in:{p.render}"
  | .res k (.okData d) => s!"res:{k}:ok:{hex2 d}"
  | .res k .okWrite => s!"res:{k}:ok:-"
  | .res k .comm => s!"res:{k}:comm"
  | .dreq => "dreq"
  | .dresp => "dresp"

def outLe (a b : Nat × String) : Bool := a.1 < b.1 || (a.1 == b.1 && !(b.2 < a.2))

def renderBucket (o : List Out) : String :=
  if o.isEmpty then "-" else
  ",".intercalate (((o.map fun x => (x.1, x.2.render)).mergeSort outLe).map fun x => s!"{x.1}:{x.2}")

def parseCode (s : String) : Option Code :=
  match s with
  | "rc" => some .rc | "wc" => some .wc | "in" => some .ind | "rq" => some .rq | "wq" => some .rq
  | "ot" => some .rq | "gb" => some .gb | _ => none

def parseIn (tok : String) : Option In :=
  match tok.splitOn ":" with
  | ["c", t, k, kind, o, i, p] => do
    let kd ← if kind = "r" then some Kind.read else if kind = "w" then some Kind.write else none
    some (.call (← t.toNat?) ⟨← k.toNat?, kd, ⟨← o.toNat?, ← i.toNat?, ← p.toNat?⟩⟩)
  | ["a", t, s, e, c] => do some (.ackIn (← t.toNat?) (← s.toNat?) ((← e.toNat?) == 1) ((← c.toNat?) == 1))
  | ["m", t, s, code, o, i, p, e, d] => do
    some (.cemi (← t.toNat?) (← s.toNat?) ⟨← parseCode code, ⟨← o.toNat?, ← i.toNat?, ← p.toNat?⟩, (← e.toNat?) == 1, ← d.toNat?⟩)
  | ["x", t, "d"] => do some (.close (← t.toNat?) .server)
  | ["x", t, "l"] => do some (.close (← t.toNat?) .lost)
  | ["x", t, "u"] => do some (.close (← t.toNat?) .user)
  | ["d", t] => do some (.discResp (← t.toNat?))
  | ["z", t] => do some (.fin (← t.toNat?))
  | _ => none

/-- Buckets of outputs: bucket 0 before the first input, bucket i after input i. -/
def runBuckets (s : St) (cur : List Out) : List In → List (List Out)
  | [] => [cur]
  | i :: is =>
    let (s', o1, o2) := step2 s i
    (cur ++ o1) :: runBuckets s' o2 is

-- DRIVER: dm => XknxVerif.DevMgmt.handle
def handle : List String → String
  | "run" :: proto :: cb :: toks =>
    match toks.mapM parseIn with
    | some ins => ";".intercalate ((runBuckets (St.init (proto == "udp") (cb != "nocb")) [] ins).map renderBucket)
    | none => "bad-op"
  | _ => "bad-op"

end XknxVerif.DevMgmt
