/-
Model (mode-R monitor) of xknx/core/telegram_queue.py: `_telegram_consumer`,
`_outgoing_rate_limiter`, `process_telegram_incoming/outgoing`, the `asyncio.Queue`
unfinished-task accounting of `xknx.telegrams` and `outgoing_queue`, and `XKNX.join/stop`.

Observable alphabet (recorded by the harness on the virtual-time loop; telegrams are numbered
`k = 0,1,…` in put order):
  inputs   put k kind dev   telegram `k` queued on `xknx.telegrams` (kind: incoming / outgoing to a
                            group address / outgoing to an internal address; `dev` = a device listens
                            on the destination)
           stop             `None` queued (TelegramQueue.stop)
           adv t            virtual time is now `t` µs
  outputs  gm x / go x      the consumer took `x` from `xknx.telegrams` / the rate limiter took `x`
                            from `outgoing_queue` (`x` = telegram number or the stop sentinel)
           mv x             the consumer put `x` on `outgoing_queue`
           tx k             `knxip_interface.send_cemi` invoked for telegram `k`   (= ToInterface)
           se k o           `cemi_handler.send_telegram` for `k` finished with outcome `o`
                            (ok / CommunicationError / other XKNXException / other Exception)
           cb k j           telegram-received callback `j` invoked with telegram `k`
           proc k e         `devices.process` reached the device with telegram `k` (`e`: it raised)
           dmc / dml        `xknx.telegrams.task_done()` called from the consumer / the limiter
           dol              `outgoing_queue.task_done()` (always from the limiter)
           join             `xknx.join()` returned
           stopped          `TelegramQueue.stop()` returned (both loops left)

Orders deliberately left open: callbacks and device processing of one telegram in any order
(a raising device ends the processing of that telegram: the code runs devices before callbacks
for outgoing telegrams, callbacks first for incoming ones); `outgoing_queue.task_done()` and
`telegrams.task_done()` of one outgoing telegram in either order; how consumer and limiter
interleave; when exactly after its release time a rate-limited send starts.  Strict: FIFO hand-over
through both queues, one telegram in the limiter at a time, no `tx` for internal addresses, `tx`
spacing ≥ 1/rate, exactly one `task_done` per queue per telegram on every path, `join`/`stopped`
only when the counters / loops allow it.

Core Lean only.
-/
import XknxVerif.Py.Basic
import XknxVerif.MonitorQ

namespace XknxVerif.TelegramQueue

inductive Kind where
  | inc | out | int
  deriving Repr, DecidableEq

structure Tg where
  k : Nat
  kind : Kind
  dev : Bool
  deriving Repr, DecidableEq

inductive Item where
  | tg (t : Tg) | stop
  deriving Repr, DecidableEq

inductive Outcome where
  | ok | comm | xknx | exc
  deriving Repr, DecidableEq

/-- `_telegram_consumer` -/
inductive Cons where
  | idle                                       -- awaiting `xknx.telegrams.get()`
  | inc (t : Tg) (cbs : List Nat) (proc : Bool) -- process_telegram_incoming: callbacks / device still to come
  | hold (t : Tg)                              -- outgoing telegram taken, `outgoing_queue.put_nowait` next
  | stopping (moved : Bool)                    -- got `None`; (moved ⇒ awaiting outgoing_queue.join())
  | finished
  deriving Repr, DecidableEq

/-- `_outgoing_rate_limiter` -/
inductive Lim where
  | idle                                         -- awaiting `outgoing_queue.get()`
  | sending (t : Tg) (tx : Bool)                 -- (rate limiter wait,) send_telegram in progress
  | post (t : Tg) (proc : Bool) (cbs : List Nat) -- devices.process / callbacks still to come
  | closing (t : Tg) (doP dmP : Bool)            -- `finally:` the two task_done() calls still pending
  | stopClosing                                  -- got `None`: task_done() pending
  | finished
  deriving Repr, DecidableEq

structure State where
  rate : Nat                -- xknx.rate_limit (0 = unlimited)
  ncb : Nat                 -- number of registered match-all callbacks
  now : Nat
  nextK : Nat
  mainQ : List Item
  mainUnf : Nat             -- xknx.telegrams._unfinished_tasks
  outQ : List Tg            -- outgoing_queue (telegrams; FIFO)
  outStop : Bool            -- the `None` sentinel is queued behind everything in `outQ`
  outUnf : Nat              -- outgoing_queue._unfinished_tasks
  cons : Cons
  lim : Lim
  lastTx : Option Nat
  -- ghost logs (do not influence acceptance)
  puts : List Tg            -- telegrams queued so far
  handled : List Nat        -- non-internal outgoing telegrams the limiter has started to send
  txLog : List (Nat × Nat)  -- (telegram, time) of every `tx`
  deriving Repr

inductive Obs where
  | put (k : Nat) (kind : Kind) (dev : Bool) | stop | adv (t : Nat)
  | gm (x : Option Nat) | go (x : Option Nat) | mv (x : Option Nat)
  | tx (k : Nat) | se (k : Nat) (o : Outcome)
  | cb (k j : Nat) | proc (k : Nat) (e : Bool)
  | dmc | dml | dol | join | stopped
  deriving Repr, DecidableEq

def usPerSec : Nat := 1000000

/-- rate-limit guard for a send reaching the interface at `now` -/
def spaced (rate : Nat) (last : Option Nat) (now : Nat) : Bool :=
  match last with
  | none => true
  | some l => rate == 0 || (l ≤ now && usPerSec ≤ (now - l) * rate)

def cbList (n : Nat) : List Nat := List.range n

/-- state of the limiter once send_telegram has ended / for an internal telegram -/
def afterSend (ncb : Nat) (t : Tg) : Lim := .post t t.dev (cbList ncb)

/-- leave `post` when nothing is pending any more -/
def settlePost (t : Tg) (proc : Bool) (cbs : List Nat) : Lim :=
  if !proc && cbs.isEmpty then .closing t true true else .post t proc cbs

def settleClosing (t : Tg) (doP dmP : Bool) : Lim :=
  if !doP && !dmP then .idle else .closing t doP dmP

def step? (s : State) : Obs → Option State
  | .put k kind dev =>
    if k = s.nextK then
      some { s with nextK := k + 1, mainQ := s.mainQ ++ [.tg ⟨k, kind, dev⟩], mainUnf := s.mainUnf + 1,
                    puts := s.puts ++ [⟨k, kind, dev⟩] }
    else none
  | .stop => some { s with mainQ := s.mainQ ++ [.stop], mainUnf := s.mainUnf + 1 }
  | .adv t => if s.now ≤ t then some { s with now := t } else none
  | .gm x =>
    match s.cons, s.mainQ with
    | .idle, .tg t :: rest =>
      if x = some t.k then
        match t.kind with
        | .inc => some { s with mainQ := rest, cons := .inc t (cbList s.ncb) t.dev }
        | _ => some { s with mainQ := rest, cons := .hold t }
      else none
    | .idle, .stop :: rest => if x = none then some { s with mainQ := rest, cons := .stopping false } else none
    | _, _ => none
  | .mv x =>
    match s.cons with
    | .hold t => if x = some t.k then some { s with outQ := s.outQ ++ [t], outUnf := s.outUnf + 1, cons := .idle } else none
    | .stopping false => if x = none then some { s with outStop := true, outUnf := s.outUnf + 1, cons := .stopping true } else none
    | _ => none
  | .go x =>
    match s.lim, s.outQ with
    | .idle, t :: rest =>
      if x = some t.k then
        match t.kind with
        | .int => some { s with outQ := rest, lim := settlePost t t.dev (cbList s.ncb) }
        | _ => some { s with outQ := rest, lim := .sending t false, handled := s.handled ++ [t.k] }
      else none
    | .idle, [] => if x = none ∧ s.outStop = true then some { s with outStop := false, lim := .stopClosing } else none
    | _, _ => none
  | .tx k =>
    match s.lim with
    | .sending t false =>
      if k = t.k ∧ spaced s.rate s.lastTx s.now then
        some { s with lim := .sending t true, lastTx := some s.now, txLog := s.txLog ++ [(k, s.now)] }
      else none
    | _ => none
  | .se k o =>
    match s.lim with
    | .sending t tx =>
      if k = t.k ∧ (o = .ok → tx = true) then
        some { s with lim := if o = .ok then settlePost t t.dev (cbList s.ncb) else .closing t true true }
      else none
    | _ => none
  | .cb k j =>
    match s.cons, s.lim with
    | .inc t cbs p, l =>
      if k = t.k then
        (if j ∈ cbs then some { s with cons := .inc t (cbs.erase j) p } else none)
      else match l with
        | .post t' p' cbs' =>
          if k = t'.k ∧ j ∈ cbs' then some { s with lim := settlePost t' p' (cbs'.erase j) } else none
        | _ => none
    | _, .post t' p' cbs' =>
      if k = t'.k ∧ j ∈ cbs' then some { s with lim := settlePost t' p' (cbs'.erase j) } else none
    | _, _ => none
  | .proc k e =>
    match s.cons, s.lim with
    | .inc t cbs p, l =>
      if k = t.k then
        (if p then some { s with cons := .inc t (if e then [] else cbs) false } else none)
      else match l with
        | .post t' p' cbs' =>
          if k = t'.k ∧ p' = true then some { s with lim := settlePost t' false (if e then [] else cbs') } else none
        | _ => none
    | _, .post t' p' cbs' =>
      if k = t'.k ∧ p' = true then some { s with lim := settlePost t' false (if e then [] else cbs') } else none
    | _, _ => none
  | .dmc =>
    match s.cons with
    | .inc _ [] false => if 0 < s.mainUnf then some { s with mainUnf := s.mainUnf - 1, cons := .idle } else none
    | .stopping true =>
      if s.outUnf = 0 ∧ 0 < s.mainUnf then some { s with mainUnf := s.mainUnf - 1, cons := .finished } else none
    | _ => none
  | .dml =>
    match s.lim with
    | .closing t doP true =>
      if 0 < s.mainUnf then some { s with mainUnf := s.mainUnf - 1, lim := settleClosing t doP false } else none
    | _ => none
  | .dol =>
    match s.lim with
    | .closing t true dmP =>
      if 0 < s.outUnf then some { s with outUnf := s.outUnf - 1, lim := settleClosing t false dmP } else none
    | .stopClosing => if 0 < s.outUnf then some { s with outUnf := s.outUnf - 1, lim := .finished } else none
    | _ => none
  | .join => if s.mainUnf = 0 then some s else none
  | .stopped => if s.cons = .finished ∧ s.lim = .finished then some s else none

def init (rate ncb : Nat) : State :=
  { rate, ncb, now := 0, nextK := 0, mainQ := [], mainUnf := 0, outQ := [], outStop := false, outUnf := 0,
    cons := .idle, lim := .idle, lastTx := none, puts := [], handled := [], txLog := [] }

def accepts (rate ncb : Nat) (tr : List Obs) : Bool :=
  (Monitor.run? step? (init rate ncb) tr).isSome

/-! ### line protocol -/

def parseX (s : String) : Option (Option Nat) :=
  if s == "S" then some none else s.toNat?.map some

def parseKind (s : String) : Option Kind :=
  if s == "I" then some .inc else if s == "O" then some .out else if s == "N" then some .int else none

def parseOutcome (s : String) : Option Outcome :=
  if s == "ok" then some .ok else if s == "comm" then some .comm
  else if s == "xknx" then some .xknx else if s == "exc" then some .exc else none

def parseObs (s : String) : Option Obs :=
  match s.splitOn "," with
  | ["P", k, kd, d] => do pure (.put (← k.toNat?) (← parseKind kd) (d == "1"))
  | ["ST"] => some .stop
  | ["A", t] => t.toNat?.map .adv
  | ["GM", x] => (parseX x).map .gm
  | ["GO", x] => (parseX x).map .go
  | ["MV", x] => (parseX x).map .mv
  | ["TX", k] => k.toNat?.map .tx
  | ["SE", k, o] => do pure (.se (← k.toNat?) (← parseOutcome o))
  | ["CB", k, j] => do pure (.cb (← k.toNat?) (← j.toNat?))
  | ["PR", k, e] => do pure (.proc (← k.toNat?) (e == "1"))
  | ["DMC"] => some .dmc
  | ["DML"] => some .dml
  | ["DOL"] => some .dol
  | ["J"] => some .join
  | ["SD"] => some .stopped
  | _ => none

-- DRIVER: c33 => XknxVerif.TelegramQueue.handle
/-- `monitor <rate> <ncb> <obs;…>` → `accept` | `reject@<index>` | `bad-op` -/
def handle : List String → String
  | ["monitor", r, n, tr] =>
    match r.toNat?, n.toNat?, (if tr == "-" then some [] else (tr.splitOn ";").mapM parseObs) with
    | some rate, some ncb, some obs =>
      match Monitor.runIdx step? (init rate ncb) obs 0 with
      | .ok _ => "accept"
      | .error k => s!"reject@{k}"
    | _, _, _ => "bad-op"
  | _ => "bad-op"

end XknxVerif.TelegramQueue
