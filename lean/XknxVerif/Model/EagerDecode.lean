/-
Model of xknx/core/group_address_dpt.py : GroupAddressDPT.set / get /
set_decoded_data, and of xknx/remote_value/remote_value.py : RemoteValue.process
(its use of `telegram.decoded_data`).  Import-free (core Lean only).

The datapoint decoders are PARAMETERS of the model: `decode : DPT → Pay → DRes Val`
is an uninterpreted function (`DPTBase.from_knx` of the transcoder class `c` on
the payload), so everything proved holds for all datapoint types.  A remote
value carries its own `fromKnx` (the bound method, possibly overridden) and its
`dptClass` (class attribute or instance slot, `None` for the classes that bring
their own codec).
-/
import XknxVerif.Py.Basic

namespace XknxVerif.EagerDecode

/-- Result of a decoder call. -/
inductive DRes (Val : Type) where
  | ok (v : Val)
  | declared          -- ConversionError / CouldNotParseTelegram
  | other             -- any other exception class
  deriving DecidableEq, Repr

/-- APCI kind of the telegram payload. -/
inductive Kind where
  | write | response | read | other
  deriving DecidableEq, Repr

def Kind.isValue : Kind → Bool
  | .write | .response => true
  | _ => false

structure Decoded (DPT Val : Type) where
  transcoder : DPT
  value : Val
  deriving DecidableEq, Repr

/-- `dst = none`: the destination is not a (internal) group address. -/
structure Telegram (GA DPT Pay Val : Type) where
  dst : Option GA
  kind : Kind
  payload : Pay
  decoded : Option (Decoded DPT Val) := none
  deriving DecidableEq, Repr

/-- Exceptions that leave the modelled functions. -/
inductive Exc where
  | assertion        -- `assert isinstance(destination_address, GroupAddress | InternalGroupAddress)`
  | declared         -- CouldNotParseTelegram raised by RemoteValue.process for a non-value payload
  | other            -- an undeclared exception of a decoder, propagated
  deriving DecidableEq, Repr

section
variable {GA DPT Pay Val : Type} [DecidableEq GA] [DecidableEq DPT] [DecidableEq Val]

/-! ### The table -/

/-- `self._ga_dpts` : dict keyed by `address.raw`. -/
abbrev Table (GA DPT : Type) := List (GA × DPT)

def Table.get (tbl : Table GA DPT) (ga : GA) : Option DPT := tbl.lookup ga

def Table.put : Table GA DPT → GA → DPT → Table GA DPT
  | [], ga, c => [(ga, c)]
  | (k, w) :: r, ga, c => if k = ga then (k, c) :: r else (k, w) :: Table.put r ga c

/-- `GroupAddressDPT.set(mapping)`: entries whose address does not parse (`none`) or whose DPT is
unknown (`none`) are skipped; later entries for the same address overwrite earlier ones. -/
def Table.setAll (tbl : Table GA DPT) : List (Option GA × Option DPT) → Table GA DPT
  | [] => tbl
  | (some ga, some c) :: r => Table.setAll (tbl.put ga c) r
  | _ :: r => Table.setAll tbl r

/-! ### set_decoded_data -/

/-- `telegram.decoded_data = TelegramDecodedData(transcoder, value)` -/
def Telegram.withDecoded (t : Telegram GA DPT Pay Val) (c : DPT) (v : Val) : Telegram GA DPT Pay Val :=
  { t with decoded := some ⟨c, v⟩ }

/-- the `try: value = transcoder.from_knx(payload) except (CouldNotParseTelegram, ConversionError): … return` part -/
def applyDecoder (decode : DPT → Pay → DRes Val) (c : DPT)
    (t : Telegram GA DPT Pay Val) : Except Exc (Telegram GA DPT Pay Val) :=
  match decode c t.payload with
  | .ok v => .ok (t.withDecoded c v)
  | .declared => .ok t          -- logged, telegram unchanged
  | .other => .error .other     -- not caught

/-- `if (transcoder := self.get(destination)) is None: return` … -/
def lookupAndDecode (decode : DPT → Pay → DRes Val) (tbl : Table GA DPT) (ga : GA)
    (t : Telegram GA DPT Pay Val) : Except Exc (Telegram GA DPT Pay Val) :=
  match tbl.get ga with
  | none => .ok t
  | some c => applyDecoder decode c t

/-- `GroupAddressDPT.set_decoded_data(telegram)` (the telegram is updated in place; here: returned). -/
def setDecodedData (decode : DPT → Pay → DRes Val) (tbl : Table GA DPT)
    (t : Telegram GA DPT Pay Val) : Except Exc (Telegram GA DPT Pay Val) :=
  if t.decoded.isSome then .ok t
  else if !t.kind.isValue then .ok t
  else match t.dst with
    | none => .ok t               -- not a group / internal destination: nothing to decode (was an assert before fix d5f8117)
    | some ga => lookupAndDecode decode tbl ga t

/-! ### RemoteValue.process -/

structure RV (GA DPT Pay Val : Type) where
  gas : List GA                      -- group_addresses()
  dptClass : Option DPT              -- `dpt_class`
  fromKnx : Pay → DRes Val           -- the bound `from_knx`
  /-- the decoded value is Python's `None` (RemoteValueBinaryOperationMode decodes a foreign mode to `None`),
  which `_value` cannot tell from "no value yet" -/
  isNone : Val → Bool := fun _ => false

/-- `_value`, `_payload`, and the destination/kind/payload of the stored `telegram`
(the stored telegram object itself also carries `decoded_data`; `Telegram.__eq__` ignores it). -/
structure RVState (GA Pay Val : Type) where
  value : Option Val := none
  payload : Option Pay := none
  telegram : Option (Option GA × Kind × Pay) := none
  deriving DecidableEq, Repr

/-- What one `process` call does besides changing the state: its return value and the value passed to
`after_update_cb` (if called). `state_updater.update_received` is called iff `result`. -/
structure ProcOut (Val : Type) where
  result : Bool
  callback : Option Val
  deriving DecidableEq, Repr

def RV.process (rv : RV GA DPT Pay Val) (st : RVState GA Pay Val) (t : Telegram GA DPT Pay Val)
    (alwaysCallback : Bool) : Except Exc (RVState GA Pay Val × ProcOut Val) :=
  match t.dst with
  | none => .ok (st, ⟨false, none⟩)
  | some ga =>
    if ga ∉ rv.gas then .ok (st, ⟨false, none⟩)
    else if !t.kind.isValue then .error .declared
    else
      -- `telegram.decoded_data is not None and telegram.decoded_data.transcoder is self.dpt_class`
      let dres : DRes Val :=
        match t.decoded with
        | some d => if rv.dptClass = some d.transcoder then .ok d.value else rv.fromKnx t.payload
        | none => rv.fromKnx t.payload
      match dres with
      | .declared => .ok (st, ⟨false, none⟩)
      | .other => .error .other
      | .ok v =>
        if st.value.isNone || alwaysCallback || st.value != some v then
          .ok ({ value := if rv.isNone v then none else some v, payload := some t.payload,
                 telegram := some (t.dst, t.kind, t.payload) },
               ⟨true, some v⟩)
        else .ok ({ st with payload := some t.payload }, ⟨true, none⟩)

/-- A device feeds the telegram to its remote values in turn (`for rv in …: rv.process(telegram)`). -/
def processAll (always : Bool) (t : Telegram GA DPT Pay Val) :
    List (RV GA DPT Pay Val × RVState GA Pay Val) → Except Exc (List (RVState GA Pay Val × ProcOut Val))
  | [] => .ok []
  | (rv, st) :: r =>
    match rv.process st t always with
    | .error e => .error e
    | .ok x => match processAll always t r with
      | .error e => .error e
      | .ok xs => .ok (x :: xs)

end

/-! ### Line protocol

`eager proc <tbl> <rvc> <inrv> <kind> <grp> <dtbl> <drv> <prior> <always>`
  tbl    DPT id the table holds for the destination, `-` none
  rvc    the remote value's dpt_class id, `-` none
  inrv   1 if the destination is one of the remote value's addresses
  kind   w | r(esponse) | q (read) | o(ther)
  grp    1 if the destination is a (internal) group address
  dtbl   what the table's decoder does with the payload: `v<k>` | `e` | `x` ; `-` if no table entry
  drv    what the remote value's own from_knx does: `v<k>` | `e` | `x`
  prior  the remote value's current value `v<k>` | `-`
  always 0 | 1
→ `<decoded> <result> <value> <payloadset> <callback>`
  decoded `-` | `<c>:v<k>` | `!assert` | `!other`     (set_decoded_data)
  result  `T` | `F` | `!declared` | `!other`           (RemoteValue.process on the resulting telegram)
`eager table <n> <entries>`  entries `ga:dpt,…` in mapping order with `x` for an unparsable address / unknown DPT (`-` = empty mapping);
  → `GroupAddressDPT.get` of the addresses `0..n-1` (`-` = none), joined by `,`
-/

def parseDRes (s : String) : Option (DRes Nat) :=
  match s.toList with
  | ['e'] => some .declared
  | ['x'] => some .other
  | 'v' :: r => (String.ofList r).toNat?.map .ok
  | _ => none

def parseOptNat (s : String) : Option (Option Nat) :=
  if s == "-" then some none else s.toNat?.map some

def parseOptVal (s : String) : Option (Option Nat) :=
  match s.toList with
  | ['-'] => some none
  | 'v' :: r => (String.ofList r).toNat?.map some
  | _ => none

def parseKind : String → Option Kind
  | "w" => some .write | "r" => some .response | "q" => some .read | "o" => some .other | _ => none

def showVal : Option Nat → String
  | none => "-"
  | some k => s!"v{k}"

-- DRIVER: eager => XknxVerif.EagerDecode.handle
def handle : List String → String
  | ["proc", tbl, rvc, inrv, kind, grp, dtbl, drv, prior, always] =>
    match parseOptNat tbl, parseOptNat rvc, parseKind kind, parseDRes drv, parseOptVal prior with
    | some tblc, some rvc, some kind, some drv, some prior =>
      let dtbl? : Option (DRes Nat) := if dtbl == "-" then some .declared else parseDRes dtbl
      match dtbl? with
      | none => "bad-op"
      | some dtblR =>
        -- destination address 0; payload is the unit token; the table's decoder is the only one consulted
        let decode : Nat → Unit → DRes Nat := fun _ _ => dtblR
        let table : Table Nat Nat := match tblc with | some c => [(0, c)] | none => []
        let t : Telegram Nat Nat Unit Nat := { dst := if grp == "1" then some 0 else none, kind := kind, payload := () }
        -- value id 0 is Python's None
        let rv : RV Nat Nat Unit Nat :=
          { gas := if inrv == "1" then [0] else [], dptClass := rvc, fromKnx := fun _ => drv, isNone := fun v => v == 0 }
        let st : RVState Nat Unit Nat := { value := prior, payload := none, telegram := none }
        match setDecodedData decode table t with
        | .error .assertion => "!assert"
        | .error _ => "!other"
        | .ok t' =>
          let dec := match t'.decoded with | none => "-" | some d => s!"{d.transcoder}:v{d.value}"
          match rv.process st t' (always == "1") with
          | .error .declared => s!"{dec} !declared"
          | .error _ => s!"{dec} !other"
          | .ok (st', o) =>
            s!"{dec} {if o.result then "T" else "F"} {showVal st'.value} {if st'.payload.isSome then "1" else "0"} {showVal o.callback}"
    | _, _, _, _, _ => "bad-op"
  | ["table", n, entries] =>
    let parseE (s : String) : Option (Option Nat × Option Nat) :=
      match s.splitOn ":" with
      | [a, b] => some (a.toNat?, b.toNat?)
      | _ => none
    match n.toNat?, (if entries == "-" then some [] else (entries.splitOn ",").mapM parseE) with
    | some n, some es =>
      let tbl : Table Nat Nat := Table.setAll [] es
      ",".intercalate ((List.range n).map fun ga => match tbl.get ga with | some c => toString c | none => "-")
    | _, _ => "bad-op"
  | _ => "bad-op"

end XknxVerif.EagerDecode
