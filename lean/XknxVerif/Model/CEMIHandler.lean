/-
Model of xknx/cemi/cemi_handler.py:
  * `route`  – the decision table of `handle_raw_cemi` / `handle_cemi_frame` / `telegram_received`
               (what a received raw cEMI frame reaches), on the finite classification
               message code × destination kind × first TPDU octet × payload kind; no keyring loaded.
  * `step?`  – trace monitor (mode R) of `send_telegram`: the `asyncio.Event` clear / set / wait with
               `asyncio.timeout(REQUEST_TO_CONFIRMATION_TIMEOUT)`, any number of concurrent senders
               sharing the one event, interleaved with received frames.
Core Lean only.
-/
import XknxVerif.Model.TPCI
import XknxVerif.Generated.CemiCodes

namespace XknxVerif.CEMIHandler
open XknxVerif.Generated

/-! ### Routing of one received frame -/

inductive CodeClass where | ind | req | con | nonLink | unsupported
  deriving DecidableEq, Repr

/-- `CEMIFrame.from_knx`: which message codes are parsed, and as what. -/
def codeClass (c : Nat) : CodeClass :=
  if c == CemiCodes.l_data_ind then .ind
  else if c == CemiCodes.l_data_req then .req
  else if c == CemiCodes.l_data_con then .con
  else if c == CemiCodes.m_prop_read_req || c == CemiCodes.m_prop_read_con || c == CemiCodes.m_prop_write_req
      || c == CemiCodes.m_prop_write_con || c == CemiCodes.m_prop_info_ind then .nonLink
  else .unsupported

/-- payload of the generated frame: a plain APDU (GroupValueWrite), a Data Secure APDU, or none. -/
inductive Pay where | plain | secure | none
  deriving DecidableEq, Repr

inductive Route where
  | queue            -- telegram queue (`xknx.telegrams.put_nowait`), once
  | mgmt             -- `Management.process`, once
  | keyIssueGroup    -- Data Secure group frame without keys: key-issue hook, once
  | keyIssueOther    -- Data Secure point-to-point frame without keys: counted, dropped
  | drop             -- point-to-point frame for another device
  | con              -- L_Data.con: releases the confirmation event
  | reqErr           -- L_Data.req received: counted as error
  | nonLink          -- (well-formed) M_Prop* frame: ignored
  | unsupported      -- message code / TPCI not supported
  | parseErr         -- frame does not parse
  deriving DecidableEq, Repr

def isControl : TPCI.T → Bool
  | .connect | .disconnect | .ack _ | .nak _ => true
  | _ => false

/-- `grp`: destination is a group address, `zero`: its raw value is 0, `own`: it equals `xknx.current_address`;
`tpdu0`: first TPDU octet. -/
def route (code : Nat) (grp zero own : Bool) (tpdu0 : Nat) (pay : Pay) : Route :=
  match codeClass code with
  | .unsupported => .unsupported
  | .nonLink => .nonLink
  | cls =>
    match TPCI.resolve tpdu0 grp zero with
    | .error _ => .unsupported
    | .ok t =>
      if isControl t && pay != .none then .parseErr        -- control TPDU with NPDU length ≠ 0
      else if !isControl t && pay == .none then .parseErr  -- data TPDU without APCI octet
      else match cls with
        | .con => .con
        | .req => .reqErr
        | _ =>
          if pay == .secure then (if t == .dataGroup then .keyIssueGroup else .keyIssueOther)
          else if t == .dataGroup then .queue
          else if !grp && !own then .drop
          else .mgmt

/-- canonical outcome: queue size, Management.process calls, key-issue calls, event set, incoming, incoming_error, undecoded -/
def Route.render : Route → String
  | .queue => "q1 m0 k0 e0 i1 x0 u0"
  | .mgmt => "q0 m1 k0 e0 i1 x0 u0"
  | .keyIssueGroup => "q0 m0 k1 e0 i1 x0 u1"
  | .keyIssueOther => "q0 m0 k0 e0 i1 x0 u1"
  | .drop => "q0 m0 k0 e0 i1 x0 u0"
  | .con => "q0 m0 k0 e1 i0 x0 u0"
  | .reqErr => "q0 m0 k0 e0 i0 x1 u0"
  | .nonLink => "q0 m0 k0 e0 i0 x0 u0"
  | .unsupported => "q0 m0 k0 e0 i0 x1 u0"
  | .parseErr => "q0 m0 k0 e0 i0 x1 u0"

/-! ### send / confirm monitor -/

inductive Res where | ok | conf | comm
  deriving DecidableEq, Repr

inductive Out where | q | m | k
  deriving DecidableEq, Repr

inductive Tok where
  | hand (n : Nat)                         -- `_l_data_confirmation_event.clear()` + `knxip_interface.send_cemi()` called
  | sent (n : Nat) (ok : Bool) (t : Nat)   -- send_cemi returned / raised
  | res (n : Nat) (r : Res) (t : Nat)      -- send_telegram returned ok / ConfirmationError / other CommunicationError
  | rx (code : Nat) (grp zero own : Bool) (tpdu0 : Nat) (pay : Pay) (t : Nat)
  | out (o : Out)
  | fin (pending : Nat)
  deriving DecidableEq, Repr

inductive Phase where
  | inSend
  | ready (tm : Nat)                        -- event was set when send_cemi returned (at that time): completes at once
  | failed                                  -- send_cemi raised
  | waiting (since : Nat) (woken : Option Nat)
  | done
  deriving DecidableEq, Repr

structure S where
  timeout : Nat                 -- REQUEST_TO_CONFIRMATION_TIMEOUT in µs
  flag : Bool := false          -- `_l_data_confirmation_event.is_set()`
  next : Nat := 0               -- senders are numbered in the order they reach the hand-over
  senders : List (Nat × Phase) := []
  pend : List Tok := []         -- tokens that have to follow immediately (same synchronous segment)
  deriving Repr

def phaseOf (s : S) (n : Nat) : Option Phase := (s.senders.find? (·.1 == n)).map (·.2)

def setPhase (s : S) (n : Nat) (p : Phase) : S :=
  { s with senders := s.senders.map fun e => if e.1 == n then (n, p) else e }

/-- `Event.set()`: the flag, and every task blocked in `wait()` is released (and stays released). -/
def wake (t : Nat) (e : Nat × Phase) : Nat × Phase :=
  match e.2 with
  | .waiting since none => (e.1, .waiting since (some t))
  | _ => e

def routeOuts : Route → List Tok
  | .queue => [.out .q]
  | .mgmt => [.out .m]
  | .keyIssueGroup => [.out .k]
  | _ => []

def isCon (code : Nat) (grp zero own : Bool) (tpdu0 : Nat) (pay : Pay) : Bool :=
  route code grp zero own tpdu0 pay == .con

def act (s : S) : Tok → Option S
  | .hand n =>
    if n == s.next then
      some { s with flag := false, next := n + 1, senders := s.senders ++ [(n, .inSend)] }
    else none
  | .sent n ok t =>
    match phaseOf s n with
    | some .inSend =>
      if !ok then some { setPhase s n .failed with pend := [.res n .comm t] }
      else if s.flag then some { setPhase s n (.ready t) with pend := [.res n .ok t] }
      else some (setPhase s n (.waiting t none))
    | _ => none
  | .res n r t =>
    match phaseOf s n, r with
    | some (.ready tm), .ok => if t == tm then some (setPhase s n .done) else none
    | some .failed, .comm => some (setPhase s n .done)
    | some (.waiting since (some w)), .ok =>
      if w ≤ t && t ≤ since + s.timeout then some (setPhase s n .done) else none
    | some (.waiting since w), .conf =>
      -- the timeout fires exactly `timeout` after the wait began; a confirmation arriving in that very
      -- instant may lose against the timer (asyncio.timeout cancels the already released task)
      if t == since + s.timeout && (w == none || w == some t) then some (setPhase s n .done) else none
    | _, _ => none
  | .rx code grp zero own tpdu0 pay t =>
    let r := route code grp zero own tpdu0 pay
    if r == .con then some { s with flag := true, senders := s.senders.map (wake t) }
    else some { s with pend := routeOuts r }
  | .out _ => none
  | .fin p => if p == 0 then some s else none

def step? (s : S) (o : Tok) : Option S :=
  match s.pend with
  | p :: ps => if p == o then (match o with
      | .out _ => some { s with pend := ps }
      | _ => act { s with pend := ps } o) else none
  | [] => act s o

def run? : S → List Tok → Option S
  | s, [] => some s
  | s, o :: os => match step? s o with
    | some s' => run? s' os
    | none => none

def firstReject : S → List Tok → Nat → Option Nat
  | _, [], _ => none
  | s, o :: os, n => match step? s o with
    | some s' => firstReject s' os (n + 1)
    | none => some n

/-! ### Line protocol -/

def parsePay : String → Option Pay
  | "p" => some .plain | "s" => some .secure | "n" => some .none | _ => none

/-- destination kind letter → (group, zero, own) -/
def parseDst : String → Option (Bool × Bool × Bool)
  | "g" => some (true, false, false)
  | "b" => some (true, true, false)
  | "o" => some (false, false, true)
  | "f" => some (false, false, false)
  | "z" => some (false, true, false)    -- individual 0.0.0, interface elsewhere
  | "G" => some (true, false, false)    -- group address with the raw value of the own address
  | "Z" => some (false, true, true)     -- individual 0.0.0, interface at its default 0.0.0
  | "Y" => some (false, false, false)   -- foreign individual, interface at 0.0.0
  | _ => none

def parseTok (tok : String) : Option Tok :=
  match tok.splitOn ":" with
  | ["hand", n] => n.toNat?.map .hand
  | ["sent", n, "ok", t] => do some (.sent (← n.toNat?) true (← t.toNat?))
  | ["sent", n, "err", t] => do some (.sent (← n.toNat?) false (← t.toNat?))
  | ["res", n, "ok", t] => do some (.res (← n.toNat?) .ok (← t.toNat?))
  | ["res", n, "conf", t] => do some (.res (← n.toNat?) .conf (← t.toNat?))
  | ["res", n, "comm", t] => do some (.res (← n.toNat?) .comm (← t.toNat?))
  | ["rx", c, d, tp, p, t] => do
    let (g, z, o) ← parseDst d
    some (.rx (← c.toNat?) g z o (← tp.toNat?) (← parsePay p) (← t.toNat?))
  | ["out", "q"] => some (.out .q)
  | ["out", "m"] => some (.out .m)
  | ["out", "k"] => some (.out .k)
  | ["end", n] => n.toNat?.map .fin
  | _ => none

-- DRIVER: c14 => XknxVerif.CEMIHandler.handle
/-- `route <code> <g|b|o|f|z|G|Z|Y> <tpdu0> <p|s|n>` → outcome string;
`monitor <token>…` → `accept` | `reject <index> <token>` -/
def handle : List String → String
  | ["route", c, d, tp, p] =>
    match c.toNat?, parseDst d, tp.toNat?, parsePay p with
    | some code, some (g, z, o), some tpdu0, some pay =>
      if code < 256 && tpdu0 < 256 && (pay != .plain || tpdu0 % 4 == 0) && (pay != .secure || tpdu0 % 4 == 3) then
        (route code g z o tpdu0 pay).render
      else "bad-op"
    | _, _, _, _ => "bad-op"
  | "monitor" :: toks =>
    match toks.mapM parseTok with
    | some l =>
      -- the timeout is the declared REQUEST_TO_CONFIRMATION_TIMEOUT (regenerated table), in µs
      match firstReject { timeout := CemiCodes.requestToConfirmationTimeout * 1000000 } l 0 with
      | none => "accept"
      | some i => s!"reject {i} {toks.getD i "?"}"
    | none => "bad-token " ++ ((toks.find? fun t => (parseTok t).isNone).getD "?")
  | _ => "bad-op"

end XknxVerif.CEMIHandler
