/-
Model of the ClimateMode command loop (C39): xknx/devices/climate_mode.py `set_operation_mode` / `set_controller_mode`
over the remote values of xknx/remote_value/remote_value_climate_mode.py, followed by the processing of the queued
telegrams as outgoing.  Modes are their wire values (Generated.DeviceLoop.opModes / ctModes).

Only writable mode objects matter for the setters, so a configuration is: which of the operation-mode object, the
controller-mode object, the (Eberle) status object and the heat/cool bit are writable, the own modes of the writable
binary operation-mode objects in iteration order, and the optional `operation_modes` / `controller_modes` filters.

A processed telegram runs the object's callback only when the object's stored value changes; that is modelled for the
operation-mode, controller-mode and status objects (where it decides the outcome).  For the heat/cool bit and the
binary objects the callback is idempotent in every state a setter can produce, so it is modelled as always run.
Core Lean only.
-/
import XknxVerif.Py.Basic
import XknxVerif.Generated.DeviceLoop

namespace XknxVerif.ClimateModeLoop
open XknxVerif.Generated.DeviceLoop

structure Cfg where
  opRv : Bool
  ctRv : Bool
  statusRv : Bool
  heatCool : Bool
  bins : List Nat
  opFilter : Option (List Nat)
  ctFilter : Option (List Nat)
  deriving DecidableEq, Repr

/-- HVACStatus: operation mode, heat (else cool), the other three flags as their bits (0x10 | 0x40 | 0x80) -/
structure Status where
  mode : Nat
  isHeat : Bool
  rest : Nat
  deriving DecidableEq, Repr

structure St where
  op : Nat
  ct : Nat
  opVal : Option Nat        -- stored value of the operation-mode object
  ctVal : Option Nat        -- stored value of the controller-mode object
  status : Option Status    -- stored value of the status object
  deriving DecidableEq, Repr

def St.init : St := { op := initialOp, ct := initialCt, opVal := none, ctVal := none, status := none }

inductive Tg where
  | op (m : Nat)
  | ct (c : Nat)
  | st (s : Status)
  | hc (bit : Bool)
  | bin (own : Nat) (bit : Bool)
  deriving DecidableEq, Repr

inductive Outcome where
  | ok | illegal | conv
  deriving DecidableEq, Repr

/-- `dedup` is not needed: membership is all that is asked of the gathered lists -/
def binSupported (own : Nat) : List Nat := if own = standby then [standby] else [own, standby]

/-- `gather_operation_modes(only_writable=True)` followed by the optional filter -/
def opSupported (cfg : Cfg) : List Nat :=
  let all := (if cfg.opRv then opRvModes else []) ++ (if cfg.statusRv then statusOpModes else []) ++ cfg.bins.flatMap binSupported
  match cfg.opFilter with
  | none => all
  | some f => f.filter fun m => all.contains m

def ctSupported (cfg : Cfg) : List Nat :=
  let all := (if cfg.ctRv then ctRvModes else []) ++ (if cfg.statusRv then statusCtModes else []) ++ (if cfg.heatCool then heatCoolCtModes else [])
  match cfg.ctFilter with
  | none => all
  | some f => f.filter fun m => all.contains m

def ctOfHeat (h : Bool) : Nat := if h then heat else cool

/-- `Device.process` of one own telegram -/
def process (s : St) : Tg → St
  | .op m => if s.opVal = some m then s else { s with opVal := some m, op := m }
  | .ct c => if s.ctVal = some c then s else { s with ctVal := some c, ct := c }
  | .st v => if s.status = some v then s else { s with status := some v, op := v.mode, ct := ctOfHeat v.isHeat }
  | .hc bit => { s with ct := if bit then heatCoolOwn else (if heatCoolOwn = heat then cool else heat) }
  | .bin own bit => if bit then { s with op := own } else s

def processAll (s : St) (ts : List Tg) : St := ts.foldl process s

/-- the operation-mode object's part of `set_operation_mode(m)` -/
def opPart (cfg : Cfg) (m : Nat) : List Tg := if cfg.opRv && opRvModes.contains m then [Tg.op m] else []

/-- the status object's part: `none` = ConversionError (its current value is unknown) -/
def statusPartOp (cfg : Cfg) (s : St) (m : Nat) : Option (List Tg) :=
  if cfg.statusRv && statusOpModes.contains m then s.status.map fun v => [Tg.st { v with mode := m }] else some []

/-- `set_operation_mode(m)`: outcome, telegrams queued (object by object in iteration order), state after the
queued telegrams were processed as outgoing -/
def setOperationMode (cfg : Cfg) (s : St) (m : Nat) : Outcome × List Tg × St :=
  if !(opSupported cfg).contains m then (.illegal, [], s)
  else
    match statusPartOp cfg s m with
    | none => (.conv, opPart cfg m, processAll s (opPart cfg m))
    | some st =>
      let ts := opPart cfg m ++ st ++ cfg.bins.map fun own => Tg.bin own (m == own)
      -- `_set_internal_operation_mode(m)` runs before the queued telegrams are processed
      (.ok, ts, processAll { s with op := m } ts)

def ctPart (cfg : Cfg) (c : Nat) : List Tg := if cfg.ctRv && ctRvModes.contains c then [Tg.ct c] else []

def statusPartCt (cfg : Cfg) (s : St) (c : Nat) : Option (List Tg) :=
  if cfg.statusRv && statusCtModes.contains c then s.status.map fun v => [Tg.st { v with isHeat := c == heat }] else some []

def hcPart (cfg : Cfg) (c : Nat) : List Tg := if cfg.heatCool && heatCoolCtModes.contains c then [Tg.hc (c == heatCoolOwn)] else []

def setControllerMode (cfg : Cfg) (s : St) (c : Nat) : Outcome × List Tg × St :=
  if !(ctSupported cfg).contains c then (.illegal, [], s)
  else
    match statusPartCt cfg s c with
    | none => (.conv, ctPart cfg c, processAll s (ctPart cfg c))
    | some st =>
      let ts := ctPart cfg c ++ st ++ hcPart cfg c
      (.ok, ts, processAll { s with ct := c } ts)

/-! ### wire form of the status object, line protocol -/

def modeBit (m : Nat) : Nat := if m = 1 then 1 else if m = 2 then 2 else if m = 3 then 4 else if m = 4 then 8 else 0

def Status.encode (v : Status) : Nat := modeBit v.mode ||| (if v.isHeat then 0x20 else 0) ||| v.rest

def Status.decode (raw : Nat) : Status :=
  { mode := if raw &&& 1 ≠ 0 then 1 else if raw &&& 2 ≠ 0 then 2 else if raw &&& 4 ≠ 0 then 3 else if raw &&& 8 ≠ 0 then 4 else 0,
    isHeat := raw &&& 0x20 ≠ 0, rest := raw &&& 0xD0 }

/-- an incoming status telegram (pre-state) -/
def recvStatus (s : St) (raw : Nat) : St := process s (.st (Status.decode raw))

def renderTg : Tg → String
  | .op m => s!"op={m}"
  | .ct c => s!"ct={c}"
  | .st v => s!"st={v.encode}"
  | .hc b => s!"hc={if b then 1 else 0}"
  | .bin own b => s!"b{own}={if b then 1 else 0}"

def renderOutcome : Outcome → String
  | .ok => "ok" | .illegal => "illegal" | .conv => "conv"

def parseList (s : String) : Option (List Nat) :=
  if s == "-" then some [] else (s.splitOn ",").mapM String.toNat?

def parseFilter (s : String) : Option (Option (List Nat)) :=
  if s == "*" then some none else (parseList s).map some

def runCalls (cfg : Cfg) : St → List String → List String
  | _, [] => []
  | s, c :: rest =>
    let kind := c.take 1
    match (c.drop 1).toNat? with
    | none => ["bad-op"]
    | some code =>
      let (o, ts, s') := if kind == "o" then setOperationMode cfg s code else setControllerMode cfg s code
      let tg := if ts.isEmpty then "-" else ",".intercalate (ts.map renderTg)
      s!"{renderOutcome o}|{tg}|{s'.op}|{s'.ct}" :: runCalls cfg s' rest

-- DRIVER: c39m => XknxVerif.ClimateModeLoop.handle
/-- `<opRv><ctRv><statusRv><heatCool> <bins> <opFilter|*> <pre status raw|-> <call;call…>` -/
def handle : List String → String
  | [flags, bins, filt, pre, calls] =>
    match flags.toList, parseList bins, parseFilter filt with
    | [a, b, c, d], some bins, some filt =>
      let cfg : Cfg := { opRv := a == '1', ctRv := b == '1', statusRv := c == '1', heatCool := d == '1', bins := bins,
                         opFilter := filt, ctFilter := none }
      let s0 := if pre == "-" then some St.init else pre.toNat?.map (recvStatus St.init)
      match s0 with
      | some s0 => " ".intercalate (runCalls cfg s0 (calls.splitOn ";"))
      | none => "bad-op"
    | _, _, _ => "bad-op"
  | _ => "bad-op"

end XknxVerif.ClimateModeLoop
