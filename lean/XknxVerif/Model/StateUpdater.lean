/-
Model of xknx/core/state_updater.py (`StateUpdater`, `_StateTracker`), with the parts of
xknx/core/value_reader.py and xknx/remote_value/remote_value.py it drives.

(1) `parse` — `StateUpdater.parse_tracker_options` as a pure function (mode F).
(2) a mode-R monitor `step?` over the observable alphabet
      inputs   begin            StateUpdater.start()   (XKNX.start)
               stop             StateUpdater.stop()    (XKNX.stop)
               conn c           connection state delivered to the connection callbacks (2 = connected)
               reg i / unreg i  the device holding remote value `i` is added / removed
                                (RemoteValue.register_state_updater / unregister_state_updater)
               upd i st         a GroupValueWrite/Response for value `i` is processed; `st` = it was addressed to
                                the state address (then a pending ValueReader of `i` takes it as its answer)
               adv t            virtual time is now `t` µs
               qb / qi          the outgoing telegram queue became busy / has drained (`outgoing_queue.join()` of
                                a tracker holding a read slot returns only then)
      outputs  read i           a GroupValueRead for the state address of `i` is queued
               done i           a read task of `i` (RemoteValue.read_state(wait_for_result=True)) finished
               sa / sr          a read slot (the updater's semaphore) was acquired / released
Per tracker: kind (none = the value does not register: no state address / sync_state off), interval,
`reg`, phase ∈ off | want initial | reading initial | sleeping deadline | done.  In flight reads are kept
apart from the trackers (the read is shielded from the tracker's cancellation): (value, timeout deadline,
answered, owner = the tracker task still awaits it).  The read slot (semaphore, `parallelReads`) is held
until the read itself finishes (behaviour after `fix: StateUpdater keeps its read slot …`).

Slot accounting: `held` slots = reads in flight + trackers that acquired a slot and wait for the outgoing queue
to drain; *which* tracker holds a waiting slot is not observable and not modelled — at rest (when the clock
advances) the number of waiting slots must not exceed the number of trackers that want to read, must be 0 when
the queue is idle, and no slot may stay free while a tracker wants to read (a slot leaked by a cancelled
tracker is rejected there).
Orders left open: which of several waiting trackers reads first; the order of `read`/`done`/`upd`
observations inside one virtual instant.  Strict (urgency): the clock may only advance when no read is due
(a tracker wanting to read while a slot is free), no answered read is still unfinished, and no timer
(sleep, read timeout) lies strictly before the new time — so reads happen exactly when the policy says.
Core Lean only.
-/
import XknxVerif.Py.Basic
import XknxVerif.MonitorQ
import XknxVerif.Generated.StateUpdaterConst

namespace XknxVerif.StateUpdater
open XknxVerif.Generated.StateUpdaterConst

/-! ## (1) option parsing -/

inductive TKind where
  | init | expire | every
  deriving Repr, DecidableEq

/-- a tracker option as the caller passes it; numbers in thousandths of a minute -/
inductive Opt where
  | bool (b : Bool)
  | num (milli : Int)
  | str (words : List String)        -- `tracker_options.split()`
  | topt (k : TKind) (milli : Int)   -- a `TrackerOptions` tuple
  deriving Repr, DecidableEq

inductive PErr where
  | indexError
  deriving Repr, DecidableEq

/-- `check_update_interval` -/
def clampInterval (v : Int) : Int :=
  if v > (maxUpdateIntervalMin : Int) * 1000 then (maxUpdateIntervalMin : Int) * 1000
  else if v < 1000 then 1000 else v

def upperAscii (s : String) : String := s.map Char.toUpper

def kindOfWord (w : String) : Option TKind :=
  let u := upperAscii w
  if u == "INIT" then some .init else if u == "EXPIRE" then some .expire
  else if u == "EVERY" then some .every else none

/-- `str.isdigit()` for ASCII strings -/
def isDigits (s : String) : Bool := !s.isEmpty && s.all Char.isDigit

/-- `parse_tracker_options` given the current default `(kind, interval)` -/
def parse (dflt : TKind × Int) : Opt → Except PErr (TKind × Int)
  | .topt k v => .ok (k, clampInterval v)
  | .bool _ => .ok dflt
  | .num v => .ok (dflt.1, clampInterval v)
  | .str [] => .error .indexError                       -- `_options[0]` on an empty split
  | .str (w :: rest) =>
    match kindOfWord w with
    | none => .ok dflt                                    -- "Could not parse … Using default"
    | some k =>
      match rest with
      | [] => .ok (k, dflt.2)                             -- IndexError on `_options[1]` is caught
      | x :: _ => if isDigits x then .ok (k, clampInterval ((x.toNat!) * 1000)) else .ok (k, dflt.2)

def baseDefault : TKind × Int := (.expire, (defaultUpdateIntervalMin : Int) * 1000)

/-- constructor + call: `StateUpdater(xknx, default_tracker_option=d).parse_tracker_options(o)` -/
def parseWithDefault (d o : Opt) : Except PErr (TKind × Int) := do
  let dflt ← parse baseDefault d
  parse dflt o

/-! ## (2) monitor -/

inductive Kind where
  | none | init | expire | every
  deriving Repr, DecidableEq

inductive Phase where
  | off | want (initial : Bool) | reading (initial : Bool) | sleeping (deadline : Nat) | done
  deriving Repr, DecidableEq

structure Tr where
  kind : Kind
  interval : Nat
  reg : Bool
  phase : Phase
  deriving Repr, DecidableEq

/-- a read in flight -/
structure Fl where
  i : Nat
  deadline : Nat
  answered : Bool
  owner : Bool
  deriving Repr, DecidableEq

structure State where
  n : Nat
  now : Nat
  connected : Bool
  listening : Bool
  started : Bool
  trs : Nat → Tr
  inflight : List Fl
  held : Nat                -- read slots acquired (semaphore: parallelReads - value)
  qbusy : Bool              -- outgoing_queue has unfinished telegrams
  lastIdle : Nat            -- last time the outgoing queue was seen idle

inductive Obs where
  | begin | stop | conn (c : Nat) | reg (i : Nat) | unreg (i : Nat) | upd (i : Nat) (st : Bool) | adv (t : Nat)
  | read (i : Nat) | done (i : Nat) | sa | sr | qb | qi
  deriving Repr, DecidableEq

def disown (i : Nat) (l : List Fl) : List Fl := l.map fun e => if e.i = i then { e with owner := false } else e

def disownAll (l : List Fl) : List Fl := l.map fun e => { e with owner := false }

/-- `StateUpdater._start()` -/
def startAll (s : State) : State :=
  { s with started := true,
           trs := fun j => let t := s.trs j
             if t.reg ∧ t.kind ≠ .none then { t with phase := .want true } else t,
           inflight := disownAll s.inflight }

/-- `StateUpdater._stop()` -/
def stopAll (s : State) : State :=
  { s with started := false, trs := fun j => { s.trs j with phase := .off }, inflight := disownAll s.inflight }

def upd (s : State) (i : Nat) (f : Tr → Tr) : State :=
  { s with trs := fun j => if j = i then f (s.trs j) else s.trs j }

/-- the tracker of value `i` exists and its updater is running -/
def active (s : State) (i : Nat) : Bool :=
  s.started && (s.trs i).reg && (s.trs i).kind != .none

/-- tracker `i` wants to read at time `t` (waiting for a slot, or its sleep is over before `t`) -/
def dueBefore (s : State) (i : Nat) (t : Nat) : Bool :=
  active s i && (match (s.trs i).phase with
    | .want _ => true
    | .sleeping d => decide (d < t)
    | _ => false)

/-- tracker `i` wants to read now -/
def dueNow (s : State) (i : Nat) : Bool :=
  active s i && (match (s.trs i).phase with
    | .want _ => true
    | .sleeping d => decide (d ≤ s.now)
    | _ => false)

def dueCount (s : State) : Nat := ((List.range s.n).filter (dueNow s)).length

/-- first in-flight read of `i` that can finish now -/
def finishable (now i : Nat) (e : Fl) : Bool := e.i == i && (e.answered || decide (e.deadline ≤ now))

def step? (s : State) : Obs → Option State
  | .begin =>
    if s.listening then none
    else
      let s := { s with listening := true }
      some (if s.connected then startAll s else s)
  | .stop => some (stopAll { s with listening := false })
  | .conn c =>
    if c < 3 then
      let s := { s with connected := c == 2 }
      if s.listening then
        if c == 2 then some (if !s.started then startAll s else s)
        else some (if s.started then stopAll s else s)
      else some s
    else none
  | .reg i =>
    if i < s.n ∧ (s.trs i).reg = false then
      some (upd s i fun t =>
        { t with reg := true, phase := if s.started ∧ t.kind ≠ .none then .want true else .off })
    else none
  | .unreg i =>
    if i < s.n ∧ (s.trs i).reg = true then
      some { upd s i (fun t => { t with reg := false, phase := .off }) with inflight := disown i s.inflight }
    else none
  | .upd i st =>
    if i < s.n then
      -- ValueReader.telegram_received of every pending read of `i`
      let fl := if st then s.inflight.map (fun e => if e.i = i then { e with answered := true } else e) else s.inflight
      -- RemoteValue.process → StateUpdater.update_received → _StateTracker.update_received (expire: reset())
      if active s i ∧ (s.trs i).kind = .expire then
        some { upd s i (fun t => { t with phase := .sleeping (s.now + t.interval) }) with inflight := disown i fl }
      else some { s with inflight := fl }
    else none
  | .adv t =>
    if s.now < t
        ∧ s.inflight.all (fun e => !e.answered && decide (t ≤ e.deadline))
        -- slots: every waiting slot belongs to a tracker that wants to read; no free slot while one wants to
        ∧ s.held - s.inflight.length ≤ dueCount s
        ∧ (s.held < parallelReads → dueCount s ≤ s.held - s.inflight.length)
        -- idle outgoing queue: nobody waits for it, and every due read has been issued
        ∧ (s.qbusy = false → s.held = s.inflight.length
            ∧ (s.inflight.length < parallelReads → (List.range s.n).all (fun i => !dueBefore s i t))) then
      some { s with now := t, lastIdle := if s.qbusy then s.lastIdle else t }
    else none
  | .read i =>
    let t := s.trs i
    if i < s.n ∧ active s i ∧ s.inflight.length < parallelReads ∧ s.inflight.length < s.held
        ∧ (s.qbusy = false ∨ s.lastIdle = s.now) then
      match t.phase with
      | .want b =>
        some { upd s i (fun t => { t with phase := .reading b }) with
               inflight := s.inflight ++ [⟨i, s.now + readTimeoutUs, false, true⟩] }
      | .sleeping d =>
        if d ≤ s.now then
          some { upd s i (fun t => { t with phase := .reading false }) with
                 inflight := s.inflight ++ [⟨i, s.now + readTimeoutUs, false, true⟩] }
        else none
      | _ => none
    else none
  | .done i =>
    match s.inflight.find? (finishable s.now i) with
    | none => none
    | some e =>
      let s' := { s with inflight := s.inflight.erase e }
      if e.owner then
        match (s.trs i).phase with
        | .reading b =>
          some (upd s' i fun t =>
            { t with phase := if b ∧ t.kind = .init then .done else .sleeping (s.now + t.interval) })
        | _ => some s'
      else some s'
  | .sa => if s.held < parallelReads then some { s with held := s.held + 1 } else none
  | .sr => if s.inflight.length < s.held then some { s with held := s.held - 1 } else none
  | .qb => some { s with qbusy := true }
  | .qi => some { s with qbusy := false, lastIdle := s.now }

def init (cfg : List (Kind × Nat)) : State :=
  { n := cfg.length, now := 0, connected := false, listening := false, started := false,
    trs := fun i => match cfg[i]? with
      | some (k, iv) => ⟨k, iv, false, .off⟩
      | none => ⟨.none, 0, false, .off⟩,
    inflight := [], held := 0, qbusy := false, lastIdle := 0 }

def accepts (cfg : List (Kind × Nat)) (tr : List Obs) : Bool :=
  (Monitor.run? step? (init cfg) tr).isSome

/-! ### line protocol -/

def parseKindC (s : String) : Option Kind :=
  if s == "n" then some .none else if s == "i" then some .init
  else if s == "x" then some .expire else if s == "e" then some .every else none

def parseCfg (s : String) : Option (Kind × Nat) :=
  match s.splitOn ":" with
  | [k, iv] => do pure ((← parseKindC k), (← iv.toNat?))
  | _ => none

def parseObs (s : String) : Option Obs :=
  match s.splitOn "," with
  | ["B"] => some .begin
  | ["X"] => some .stop
  | ["C", c] => c.toNat?.map .conn
  | ["G", i] => i.toNat?.map .reg
  | ["H", i] => i.toNat?.map .unreg
  | ["U", i, a] => i.toNat?.map (fun i => .upd i (a == "s"))
  | ["A", t] => t.toNat?.map .adv
  | ["R", i] => i.toNat?.map .read
  | ["D", i] => i.toNat?.map .done
  | ["SA"] => some .sa
  | ["SR"] => some .sr
  | ["QB"] => some .qb
  | ["QI"] => some .qi
  | _ => none

def parseInt (s : String) : Option Int :=
  if s.startsWith "-" then (s.drop 1).toNat?.map (fun n => -(n : Int)) else s.toNat?.map (fun n => (n : Int))

def parseTKind (s : String) : Option TKind :=
  if s == "i" then some .init else if s == "x" then some .expire else if s == "e" then some .every else none

/-- `B0|B1`, `N<milli>`, `S<words joined by _>`, `T<kind>:<milli>` -/
def parseOpt (s : String) : Option Opt :=
  match s.toList with
  | 'B' :: r => some (.bool (String.ofList r == "1"))
  | 'N' :: r => (parseInt (String.ofList r)).map .num
  | 'S' :: r => some (.str (((String.ofList r).splitOn "_").filter (fun w => !w.isEmpty)))
  | 'T' :: r =>
    match (String.ofList r).splitOn ":" with
    | [k, v] => do pure (.topt (← parseTKind k) (← parseInt v))
    | _ => none
  | _ => none

def showTKind : TKind → String
  | .init => "i" | .expire => "x" | .every => "e"

-- DRIVER: c35 => XknxVerif.StateUpdater.handle
/-- `monitor <cfg;…> <obs;…>` → accept | reject@k ;  `parse <default> <option>` → `<kind> <milli>` | `err IndexError` -/
def handle : List String → String
  | ["monitor", cs, tr] =>
    match (cs.splitOn ";").mapM parseCfg, (if tr == "-" then some [] else (tr.splitOn ";").mapM parseObs) with
    | some cfg, some obs =>
      match Monitor.runIdx step? (init cfg) obs 0 with
      | .ok _ => "accept"
      | .error k => s!"reject@{k}"
    | _, _ => "bad-op"
  | ["parse", d, o] =>
    match parseOpt d, parseOpt o with
    | some d, some o =>
      match parseWithDefault d o with
      | .ok (k, v) => s!"{showTKind k} {v}"
      | .error .indexError => "err IndexError"
    | _, _ => "bad-op"
  | _ => "bad-op"

end XknxVerif.StateUpdater
