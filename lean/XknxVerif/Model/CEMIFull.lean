/-
The cEMI frame model with the application-layer codec instantiated by the APCI model
(`decodeAPDU`): nothing about the APDU is taken from the implementation any more.
Core Lean only.
-/
import XknxVerif.Model.CEMI
import XknxVerif.Model.APCI.Codec

namespace XknxVerif.CEMIFull
open XknxVerif XknxVerif.CEMI

/-- the received APDU itself stands for the decoded service (rendering compares the APDU handed to
`APCI.from_knx`); the verdict comes from the APCI model -/
def fullCodec : Codec Bytes :=
  { decode := fun b => match APCI.decodeAPDU b with
      | .ok _ => .ok b
      | .error .conv => .error .conv
      | .error .unsupported => .error .unsup
    encode := fun b => some b
    len := fun b => b.length - 1 }

/-- the cEMI model's view of `APCI.from_knx` / `to_knx` / `calculated_length`, with service objects as payload -/
def apciCodec : Codec APCI.Service :=
  { decode := fun b => match APCI.decodeAPDU b with
      | .ok s => .ok s
      | .error .conv => .error .conv
      | .error .unsupported => .error .unsup
    encode := APCI.encodeAPDU
    len := fun s => (APCI.calcLength s).getD 0 }

-- DRIVER: cemifull => XknxVerif.CEMIFull.handle
/-- `parse <rawhex>` → rendered frame | `parse` | `unsupported`
`reser <rawhex>` → `ok <hex>` (parse with the APCI model, serialise the decoded service again) | error class -/
def handle : List String → String
  | ["reser", h] =>
    match bytesOfHex? h with
    | some raw => match Frame.fromKnx apciCodec raw with
      | .error e => e.render
      | .ok f => match Frame.toKnx apciCodec f with
        | .ok bs => s!"ok {hexOfBytes bs}"
        | .error e => e.render
    | none => "bad-op"
  | ["parse", h] =>
    match bytesOfHex? h with
    | some raw => match Frame.fromKnx fullCodec raw with
      | .ok f => f.render
      | .error e => e.render
    | none => "bad-op"
  | _ => "bad-op"

end XknxVerif.CEMIFull
