/-
The cEMI frame model with the application-layer codec instantiated by the APCI model
(`decodeAPDU`): nothing about the APDU is taken from the implementation any more.
Core Lean only.
-/
import XknxVerif.Model.CEMI
import XknxVerif.Model.APCI.Codec

namespace XknxVerif.CEMIFull
open XknxVerif XknxVerif.CEMI

/-- the received APDU itself stands for the decoded service (rendering compares the APDU handed to
`APCI.from_knx`); the verdict comes from the APCI model -/
def fullCodec : Codec Bytes :=
  { decode := fun b => match APCI.decodeAPDU b with
      | .ok _ => .ok b
      | .error .conv => .error .conv
      | .error .unsupported => .error .unsup
    encode := fun b => some b
    len := fun b => b.length - 1 }

/-- the cEMI model's view of `APCI.from_knx` / `to_knx` / `calculated_length`, with service objects as payload -/
def apciCodec : Codec APCI.Service :=
  { decode := fun b => match APCI.decodeAPDU b with
      | .ok s => .ok s
      | .error .conv => .error .conv
      | .error .unsupported => .error .unsup
    encode := APCI.encodeAPDU
    len := fun s => (APCI.calcLength s).getD 0 }

-- DRIVER: cemifull => XknxVerif.CEMIFull.handle
/-- `parse <rawhex>` → rendered frame | `parse` | `unsupported`
`reser <rawhex>` → `ok <hex>` (parse with the APCI model, serialise the decoded service again) | error class -/
def handle : List String → String
  | "build" :: code :: info :: p :: r :: s :: a :: c :: hop :: src :: g :: dst :: tcls :: seq :: cls :: rest =>
    -- a link frame built from telegram parts; the payload is a service object given as `<Class> k=v …` (or `none`)
    match code.toNat?, bytesOfHex? info, p.toNat?, hop.toNat?, src.toNat?, dst.toNat?, seq.toNat? with
    | some code, some info, some p, some hop, some src, some dst, some seq =>
      match TPCI.parseT tcls seq with
      | none => "bad-op"
      | some t =>
        let payload? : Option (Option APCI.Service) :=
          if cls == "none" then some none else
          match APCI.table.findIdx? (·.name == cls), (rest.filter (· != "")).mapM APCI.parsePair with
          | some i, some pairs =>
            match APCI.table[i]? with
            | none => none
            | some row =>
              match APCI.firstFit row.variants 0 pairs with
              | none => some (some ⟨i, 0, []⟩)      -- no variant fits: the encoder refuses
              | some (j, vals) => some (some ⟨i, j, vals⟩)
          | _, _ => none
        match payload? with
        | none => "bad-op"
        | some payload =>
          let d : LData APCI.Service := ⟨⟨p, parseBool r, parseBool s, parseBool a, parseBool c, hop, 1, 0⟩, src, g == "g", dst, t, payload⟩
          match Frame.toKnx apciCodec ⟨code, info, .ldata d⟩ with
          | .ok bs => s!"ok {hexOfBytes bs}"
          | .error e => e.render
    | _, _, _, _, _, _, _ => "bad-op"
  | ["reser", h] =>
    match bytesOfHex? h with
    | some raw => match Frame.fromKnx apciCodec raw with
      | .error e => e.render
      | .ok f => match Frame.toKnx apciCodec f with
        | .ok bs => s!"ok {hexOfBytes bs}"
        | .error e => e.render
    | none => "bad-op"
  | ["parse", h] =>
    match bytesOfHex? h with
    | some raw => match Frame.fromKnx fullCodec raw with
      | .ok f => f.render
      | .error e => e.render
    | none => "bad-op"
  | _ => "bad-op"

end XknxVerif.CEMIFull
