/-
Model of xknx/io/transport/tcp_transport.py `TCPTransport.data_received_callback`
(after the `fix:` commits: loop instead of recursion, a malformed frame is
skipped by the total length of its header, an unreadable length resynchronises
on the next octet) and of `UDPTransport.data_received_callback`.
Core Lean only.
-/
import XknxVerif.Model.KNXIP.Frame
import XknxVerif.Automata

namespace XknxVerif.Stream
open XknxVerif.KNXIP
open XknxVerif.Generated.KNXIP

/-- What one iteration of the `while raw:` loop does with the buffered data. -/
inductive Step where
  /-- `self._buffer = raw; return` -/
  | wait
  /-- malformed frame (or unreadable header): continue with `rest` -/
  | skip (rest : Bytes)
  /-- `handle_knxipframe(frame)`; continue with `rest` -/
  | deliver (f : Frame) (rest : Bytes)
  /-- an exception that is no `CouldNotParseKNXIP` leaves `data_received_callback` -/
  | crash (e : Exc)
  deriving DecidableEq, Repr

def step (buf : Bytes) : Step :=
  match parseFrame buf with
  | .ok (f, rest) => .deliver f rest
  | .error .incomplete => .wait
  | .error .parse =>
    -- `header = KNXIPHeader(); header.from_knx(raw)` (exceptions ignored); `header.total_length`
    if Header.lengthAfter buf < Const.headerLength then .skip (buf.drop 1)
    else if buf.length < Header.lengthAfter buf then .wait
    else .skip (buf.drop (Header.lengthAfter buf))
  | .error e => .crash e

/-- Observable events of the transport. -/
inductive Ev where
  /-- the frame was handed to the callbacks -/
  | frame (f : Frame)
  /-- an exception escaped into the event loop -/
  | escaped (e : Exc)
  deriving DecidableEq, Repr

theorem step_deliver_lt {buf : Bytes} {f rest} (hb : buf.isEmpty = false) (h : step buf = .deliver f rest) :
    rest.length < buf.length := by
  unfold step at h
  split at h
  · rename_i f' rest' hp
    simp only [Step.deliver.injEq] at h
    obtain ⟨rfl, rfl⟩ := h
    obtain ⟨h6, hle, hr, _⟩ := parseFrame_ok hp
    subst hr
    simp only [Const.headerLength] at h6
    simp only [List.length_drop]
    omega
  · simp at h
  · split at h
    · simp at h
    · split at h <;> simp at h
  · simp at h

theorem step_skip_lt {buf : Bytes} {rest} (hb : buf.isEmpty = false) (h : step buf = .skip rest) :
    rest.length < buf.length := by
  have hpos : 0 < buf.length := by
    cases buf with
    | nil => simp at hb
    | cons x xs => simp
  unfold step at h
  split at h
  · simp at h
  · simp at h
  · split at h
    · simp only [Step.skip.injEq] at h
      subst h
      simp only [List.length_drop]
      omega
    · rename_i h6
      split at h
      · simp at h
      · simp only [Step.skip.injEq] at h
        subst h
        simp only [Const.headerLength] at h6
        simp only [List.length_drop]
        omega
  · simp at h

/-- The `while raw:` loop: remaining buffer and the events in order.  Well-founded on the buffer
length — every iteration that continues has consumed at least one octet. -/
def drain (buf : Bytes) : Bytes × List Ev :=
  if hb : buf.isEmpty then ([], []) else
  match hs : step buf with
  | .wait => (buf, [])
  | .crash e => ([], [.escaped e])
  | .skip rest => drain rest
  | .deliver f rest => ((drain rest).1, .frame f :: (drain rest).2)
termination_by buf.length
decreasing_by
  all_goals first
    | exact step_skip_lt (by simpa using hb) hs
    | exact step_deliver_lt (by simpa using hb) hs

/-- `data_received_callback(chunk)` with `self._buffer = buf`: new buffer and events. -/
def feed (buf : Bytes) (chunk : Bytes) : Bytes × List Ev := drain (buf ++ chunk)

/-- A whole connection: the chunks in arrival order, starting with an empty buffer. -/
def run (chunks : List Bytes) : Bytes × List Ev := Automata.run feed [] chunks

/-- `UDPTransport.data_received_callback(raw, source)` (unicast): events for one datagram. -/
def udp (raw : Bytes) : List Ev :=
  if raw.isEmpty then [] else
  match parseFrame raw with
  | .ok (f, _) => [.frame f]
  | .error e => if e.declared then [] else [.escaped e]

def Ev.render : Ev → String
  | .frame f => f.body.render
  | .escaped e => "!" ++ e.render

end XknxVerif.Stream
