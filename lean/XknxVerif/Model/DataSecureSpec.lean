/-
KNX Data Secure authenticated encryption of an S-A_Data PDU, written from the
specification (KNX AN158 "KNX Data Security" / 03_03_07 Application Layer
§5.1.3, a CCM variant) and *not* from the xknx sources.  This is the
"independent implementation" of property C19; `Props/C19.lean` proves that the
xknx-shaped model (`DataSecure.secure`) computes the same octets.

  B₀      = SeqNr(6) ‖ SA(2) ‖ DA(2) ‖ 00 ‖ (AT·80h + EFF) ‖ (TPCI + 03h) ‖ F1h ‖ 00 ‖ Q
            – the octet after AT/EFF is the first TPDU octet: six TPCI bits and
              the two high bits of the A_Sec APCI 3F1h; Q = payload length
              (0 for authentication-only);
  A       = SCF                    (authenticated encryption)
          = SCF ‖ APDU             (authentication only);
  P       = APDU                   (authenticated encryption), empty otherwise;
  B₁…Bₙ   = len(A)(2 octets) ‖ A ‖ P, zero-padded to a multiple of 16 and cut
            into blocks – note: unlike RFC 3610 there is no padding between A
            and P (the AN158 Annex A example confirms this);
  Y₀      = E(K, B₀),  Yᵢ = E(K, Bᵢ ⊕ Yᵢ₋₁),  T = first 4 octets of Yₙ;
  Ctrᵢ    = SeqNr ‖ SA ‖ DA ‖ 00 00 00 00 01 ‖ i      (one-octet block index);
  Sᵢ      = E(K, Ctrᵢ);
  authenticated encryption:  (MAC ‖ ciphertext) = (T ‖ P) ⊕ (S₀ ‖ S₁ ‖ …)
            – the 4-octet MAC takes the first four key-stream octets of S₀, the
              APDU continues in the same key stream (the AN158 Annex A example
              decrypts only this way; see notes/C19.md);
  authentication only:       MAC = T, APDU in clear.
  ASDU    = SeqNr ‖ APDU' ‖ MAC.

Core Lean only, executable, generic in the block function.
-/
import XknxVerif.Crypto.CTR

namespace XknxVerif.DataSecure.Spec
open XknxVerif.Crypto

def B0 (seq sa da : Nat) (group : Bool) (eff tpci q : Nat) : Bytes :=
  Bytes.ofNatBE 6 seq ++ Bytes.ofNatBE 2 sa ++ Bytes.ofNatBE 2 da ++
    [0x00, (if group then 0x80 else 0x00) + eff, tpci + 0x03, 0xF1, 0x00, q]

def Ctr0 (seq sa da : Nat) : Bytes :=
  Bytes.ofNatBE 6 seq ++ Bytes.ofNatBE 2 sa ++ Bytes.ofNatBE 2 da ++ [0x00, 0x00, 0x00, 0x00, 0x01, 0x00]

/-- CBC-MAC tag `T` (4 octets) over `B₀`, associated data `a`, payload `p`. -/
def tag (E : BlockFn) (key b0 a p : Bytes) : Bytes :=
  (cbcMac E key (b0 :: blocks16 (pad16 (Bytes.ofNatBE 2 a.length ++ a ++ p)))).take 4

/-- Bit 4..6 of the SCF: 0 = authentication only, 1 = authenticated encryption. -/
def scfAlgorithm (scf : Nat) : Nat := (scf / 16) % 8

/-- The S-A_Data ASDU for the given frame fields and plain APDU. -/
def specSecure (E : BlockFn) (key : Bytes) (scf seq sa da : Nat) (group : Bool) (eff tpci : Nat)
    (apdu : Bytes) : Bytes :=
  if scfAlgorithm scf = 0 then
    let t := tag E key (B0 seq sa da group eff tpci 0) (scf :: apdu) []
    Bytes.ofNatBE 6 seq ++ apdu ++ t
  else
    let t := tag E key (B0 seq sa da group eff tpci apdu.length) [scf] apdu
    let s := ctrStreamSpec E key (nblocks (4 + apdu.length)) (Ctr0 seq sa da)
    let x := xorBytes (t ++ apdu) s
    Bytes.ofNatBE 6 seq ++ x.drop 4 ++ x.take 4

end XknxVerif.DataSecure.Spec
