/-
xknx/io/data_connection.py : ConnectionHeartbeat._run (C26).

Two views of the same logic:
* `step` — the automaton over the *outcomes* of successive ConnectionState
  requests (what `_run` does with each of them);
* `mstep?` — a monitor over the observable trace of a running heartbeat on the
  virtual-time loop (start, request sent, outcome returned, `on_failure`
  awaited, task ended), with times in microseconds. It drives `step` with the
  outcomes it sees and checks every output against it, and checks the period.
Core Lean only (linked into the driver).
-/
import XknxVerif.Automata
import XknxVerif.Monitor
import XknxVerif.Py.Basic
import XknxVerif.Generated.TunnelConst

namespace XknxVerif.Heartbeat
open XknxVerif.Generated.TunnelConst

/-- What one `await self._send_connectionstate()` yields. -/
inductive Outcome where
  | ok                      -- `(True, _)`
  | fail (status : Nat)     -- `(False, status)`; 0 = no response (`None`), else an error status
  | gone                    -- `None`: the connection is already gone
  | raise                   -- raises CommunicationError
  deriving DecidableEq, Repr

inductive Phase where
  /-- heartbeating; `fails` consecutive failed requests in the current cycle -/
  | run (fails : Nat)
  /-- `on_failure` was awaited, task returned -/
  | lost
  /-- ended quietly -/
  | gone
  deriving DecidableEq, Repr

inductive Out where
  /-- a request is sent: after a full HEARTBEAT_RATE sleep, or at once (a repetition) -/
  | request (afterPeriod : Bool)
  | failure
  | stop
  deriving DecidableEq, Repr

/-- `for _retry in range(3)` -/
def retries : Nat := 3

/-- One consumed outcome. In phase `run k` the request that produced it went out
after a sleep iff `k = 0` (top of the `while True`), otherwise from the retry loop. -/
def step : Phase → Outcome → Phase × List Out
  | .run k, o =>
    let req := Out.request (k == 0)
    match o with
    | .ok => (.run 0, [req])                    -- `continue` / `break; continue`
    | .gone => (.gone, [req, .stop])            -- `return`
    | .raise => (.lost, [req, .failure])        -- `except CommunicationError` → on_failure
    | .fail _ =>
      if k < retries then (.run (k + 1), [req]) -- next retry
      else (.lost, [req, .failure])             -- 1 + 3 failed → on_failure
  | .lost, _ => (.lost, [])                     -- no request is sent any more
  | .gone, _ => (.gone, [])

/-! ### monitor over the observable trace -/

inductive Obs where
  | start (t : Nat)                   -- `ConnectionHeartbeat.start()`
  | req (t : Nat)                     -- `send_connectionstate` called
  | resp (o : Outcome) (t : Nat)      -- … and returned / raised
  | failure (t : Nat)                 -- `on_failure` awaited
  | ended (t : Nat)                   -- the heartbeat task finished by itself
  | crashed (t : Nat)                 -- … finished with the exception `on_failure` raised (it propagates)
  | cut (t : Nat)                     -- the harness stopped a live heartbeat (script exhausted)
  deriving DecidableEq, Repr

structure M where
  ph : Phase := .run 0
  started : Bool := false
  waiting : Bool := false      -- a request is outstanding
  last : Nat := 0              -- time of start / last request / last response
  failed : Bool := false       -- `on_failure` seen
  closed : Bool := false
  deriving DecidableEq, Repr

/-- Deliberately open: the delay of a repetition after a failed request (any
`t ≥` the response), the delay of `on_failure` and of the task end after the
last response. Fixed: a cycle's first request comes exactly HEARTBEAT_RATE
after the start / the previous response. -/
def mstep? (m : M) : Obs → Option M
  | .start t =>
    if !m.started then some { m with started := true, last := t } else none
  | .req t =>
    match m.ph with
    | .run k =>
      if m.started && !m.waiting && !m.closed &&
          (if k = 0 then t == m.last + heartbeatRate else m.last ≤ t)
      then some { m with waiting := true, last := t } else none
    | _ => none
  | .resp o t =>
    if m.waiting && !m.closed && m.last ≤ t
    then some { m with waiting := false, last := t, ph := (step m.ph o).1 } else none
  | .failure t =>
    if m.ph = .lost && !m.failed && !m.closed && m.last ≤ t
    then some { m with failed := true } else none
  | .ended t =>
    if !m.closed && !m.waiting && m.last ≤ t && (m.ph = .gone || (m.ph = .lost && m.failed))
    then some { m with closed := true } else none
  | .crashed t =>
    -- whatever `on_failure` does - return, raise, take time, stop the heartbeat - it was started once, and an
    -- exception it raises ends the task; it never leads to another request or another declaration
    if !m.closed && !m.waiting && m.last ≤ t && m.ph = .lost && m.failed
    then some { m with closed := true } else none
  | .cut t =>
    match m.ph with
    | .run _ => if m.started && !m.closed && m.last ≤ t then some { m with closed := true } else none
    | _ => none

/-! ### line protocol -/

def parseOutcome (s : String) : Option Outcome :=
  match s.toList with
  | ['o', 'k'] => some .ok
  | ['n', 'o', 'n', 'e'] => some .gone
  | ['r', 'a', 'i', 's', 'e'] => some .raise
  | 'f' :: rest => (String.ofList rest).toNat?.map .fail
  | _ => none

def parseObs (s : String) : Option Obs :=
  match s.toList with
  | 'S' :: r => (String.ofList r).toNat?.map .start
  | 'Q' :: r => (String.ofList r).toNat?.map .req
  | 'F' :: r => (String.ofList r).toNat?.map .failure
  | 'E' :: r => (String.ofList r).toNat?.map .ended
  | 'X' :: r => (String.ofList r).toNat?.map .cut
  | 'Z' :: r => (String.ofList r).toNat?.map .crashed
  | 'R' :: r =>
    match (String.ofList r).splitOn "@" with
    | [o, t] => do
      let o ← parseOutcome o
      let t ← t.toNat?
      pure (.resp o t)
    | _ => none
  | _ => none

/-- index of the first refused observation -/
def firstReject (m : M) (i : Nat) : List Obs → Option Nat × M
  | [] => (none, m)
  | o :: os => match mstep? m o with
    | some m' => firstReject m' (i + 1) os
    | none => (some i, m)

def renderPhase : Phase → String
  | .run k => s!"run{k}" | .lost => "lost" | .gone => "gone"

-- DRIVER: hb => XknxVerif.Heartbeat.handle
/-- `monitor <obs,obs,…>` → `accept` | `reject@<i>` | `incomplete` (trace not closed);
`run <o,o,…>` → final phase and outputs of the outcome automaton. -/
def handle : List String → String
  | ["monitor", tr] =>
    match (tr.splitOn ",").mapM parseObs with
    | some os =>
      match firstReject {} 0 os with
      | (some i, _) => s!"reject@{i}"
      | (none, m) => if m.closed then "accept" else "incomplete"
    | none => "bad-op"
  | ["run", os] =>
    match (os.splitOn ",").mapM parseOutcome with
    | some os =>
      let (p, out) := Automata.run step (.run 0) os
      let r := out.map fun
        | .request true => "P" | .request false => "Q" | .failure => "F" | .stop => "-"
      s!"{renderPhase p} {String.join r}"
    | none => "bad-op"
  | _ => "bad-op"

end XknxVerif.Heartbeat
