/-
The layout table: one row per concrete service class of xknx/telegram/apci.py
(after the `fix:` commits of branch b-apci).  A row gives the APCI code, whether
the service is a 4 bit one (the low 6 bits of the code belong to the payload) or
a 10 bit one, and one or more *variants* (length rule + field list after the
APCI header); the variant is chosen by the APDU length on decoding and by the
shape of the object on encoding.

Enum member tables (`ReturnCode`, SCF algorithm / service) come from
`Generated/APCI.lean`; the codes written here are tied to the generated
`classCodes` by theorem `Props.C04.table_codes_generated`.
-/
import XknxVerif.Model.APCI.Layout
import XknxVerif.Generated.APCI

namespace XknxVerif.APCI

/-- Admissible total APDU lengths (octets, including the two APCI octets). -/
inductive LenRule where
  | exact (n : Nat)
  | atLeast (n : Nat)
  | oneOf (l : List Nat)
  deriving DecidableEq, Repr

def LenRule.ok : LenRule → Nat → Bool
  | .exact n, k => k == n
  | .atLeast n, k => decide (n ≤ k)
  | .oneOf l, k => l.contains k

structure Variant where
  len : LenRule
  /-- fields after the APCI header, in wire order -/
  body : List Field
  /-- attribute names of the value-carrying fields, in wire order -/
  names : List String
  deriving Repr

structure Row where
  name : String
  code : Nat
  /-- 4 bit service: only the upper 4 bits of the 10 bit APCI identify it -/
  short : Bool
  /-- `from_knx` raises `UnsupportedAPCIService`, `to_knx` `NotImplementedError` -/
  supported : Bool := true
  variants : List Variant
  deriving Repr

/-- Header + body: bits 0..5 of octet 0 belong to the transport layer (cleared by
the caller, ignored here), then 4 or 10 bits of APCI. -/
def fullFields (r : Row) (v : Variant) : List Field :=
  .reserved 6 :: (if r.short then .const 4 (r.code >>> 6) else .const 10 r.code) :: v.body

/-! ### Field shorthands -/
def u (w : Nat) : Field := .uint w 0 (2 ^ w - 1)
def rc : Field := .enum 8 Generated.APCI.returnCodes

/-- A_FunctionPropertyExt* / A_PropertyExt* header: 16 bit object type, 12 bit instance, 12 bit property id -/
def fpeHdr : List Field := [u 16, u 12, u 12]
def fpeNames : List String := ["interface_object_type", "object_instance", "property_id"]

def v1 (len : LenRule) (body : List Field) (names : List String) : List Variant := [⟨len, body, names⟩]

def noPayloadShort (name : String) (code : Nat) : Row :=
  ⟨name, code, true, true, v1 (.exact 2) [.reserved 6] []⟩
def noPayload (name : String) (code : Nat) : Row :=
  ⟨name, code, false, true, v1 (.exact 2) [] []⟩
def unsupportedRow (name : String) (code : Nat) : Row :=
  ⟨name, code, false, false, []⟩

def groupValue (name : String) (code : Nat) : Row :=
  ⟨name, code, true, true,
    [⟨.exact 2, [u 6], ["value"]⟩, ⟨.atLeast 3, [.reserved 6, .bytesRest], ["value"]⟩]⟩

def memData (name : String) (code : Nat) : Row :=
  ⟨name, code, true, true, v1 (.atLeast 4) [u 6, u 16, .bytesRest] ["count", "address", "data"]⟩

def sysNetParam (name : String) (code : Nat) (rest : String) : Row :=
  ⟨name, code, false, true,
    v1 (.atLeast 6) [u 16, u 12, .reserved 4, .bytesRest] ["object_type", "property_id", rest]⟩

def propExtValueData (name : String) (code : Nat) : Row :=
  ⟨name, code, false, true,
    v1 (.atLeast 10) (fpeHdr ++ [u 8, u 16, .bytesRest]) (fpeNames ++ ["nr_of_elem", "start_index", "data"])⟩

def funcPropExt (name : String) (code : Nat) : Row :=
  ⟨name, code, false, true, v1 (.atLeast 7) (fpeHdr ++ [.bytesRest]) (fpeNames ++ ["data"])⟩

def userMemData (name : String) (code : Nat) : Row :=
  ⟨name, code, false, true, v1 (.atLeast 5) [.addr20count4, .bytesRest] ["address", "count", "data"]⟩

def funcProp (name : String) (code : Nat) : Row :=
  ⟨name, code, false, true, v1 (.atLeast 4) [u 8, u 8, .bytesRest] ["object_index", "property_id", "data"]⟩

def tableRW (name : String) (code : Nat) (addr : String) (minLen lo : Nat) : Row :=
  ⟨name, code, false, true,
    v1 (.atLeast minLen) [.uint 8 lo 254, u 16, .bytesRest] ["number", addr, "data"]⟩
def tableRead (name : String) (code : Nat) (addr : String) : Row :=
  ⟨name, code, false, true, v1 (.exact 5) [.uint 8 1 254, u 16] ["number", addr]⟩

def propValueData (name : String) (code : Nat) : Row :=
  ⟨name, code, false, true,
    v1 (.atLeast 6) [u 8, u 8, u 4, u 12, .bytesRest] ["object_index", "property_id", "count", "start_index", "data"]⟩

def netParam (name : String) (code : Nat) (rest : String) : Row :=
  ⟨name, code, false, true, v1 (.atLeast 5) [u 16, u 8, .bytesRest] ["object_type", "property_id", rest]⟩

def groupPropData (name : String) (code : Nat) : Row :=
  ⟨name, code, false, true,
    v1 (.atLeast 6) [u 16, u 8, u 8, .bytesRest] ["object_type", "object_instance", "property_id", "data"]⟩

/-- The table.  10 bit rows first, then the 4 bit rows (the dispatcher takes
the first match, as `APCI.from_knx` tests the exact codes of a group before its default). -/
def table : List Row := [
  -- 0x1C0 group (carved out of A_ADC_Response)
  sysNetParam "SystemNetworkParameterRead" 0x1C8 "test_info",
  sysNetParam "SystemNetworkParameterResponse" 0x1C9 "test_info_and_result",
  sysNetParam "SystemNetworkParameterWrite" 0x1CA "value",
  ⟨"PropertyExtValueRead", 0x1CC, false, true,
    v1 (.exact 10) (fpeHdr ++ [u 8, u 16]) (fpeNames ++ ["nr_of_elem", "start_index"])⟩,
  propExtValueData "PropertyExtValueResponse" 0x1CD,
  propExtValueData "PropertyExtValueWriteCon" 0x1CE,
  ⟨"PropertyExtValueWriteConRes", 0x1CF, false, true,
    v1 (.exact 11) (fpeHdr ++ [u 8, u 16, rc]) (fpeNames ++ ["nr_of_elem", "start_index", "return_code"])⟩,
  propExtValueData "PropertyExtValueWriteUnCon" 0x1D0,
  propExtValueData "PropertyExtValueInfoReport" 0x1D1,
  ⟨"PropertyExtDescriptionRead", 0x1D2, false, true,
    v1 (.exact 9) (fpeHdr ++ [u 4, u 12]) (fpeNames ++ ["description_type", "property_index"])⟩,
  ⟨"PropertyExtDescriptionResponse", 0x1D3, false, true,
    v1 (.exact 17) (fpeHdr ++ [u 4, u 12, u 16, u 16, .flag, .reserved 1, u 6, u 16, u 4, u 4])
      (fpeNames ++ ["description_type", "property_index", "dpt_main", "dpt_sub", "writable", "pdt",
        "max_nr_of_elem", "read_level", "write_level"])⟩,
  funcPropExt "FunctionPropertyExtCommand" 0x1D4,
  funcPropExt "FunctionPropertyExtStateRead" 0x1D5,
  ⟨"FunctionPropertyExtStateResponse", 0x1D6, false, true,
    v1 (.atLeast 8) (fpeHdr ++ [rc, .bytesRest]) (fpeNames ++ ["return_code", "data"])⟩,
  ⟨"MemoryExtendedWrite", 0x1FB, false, true,
    v1 (.atLeast 6) [.uint 8 0 250, u 24, .bytesRest] ["count", "address", "data"]⟩,
  ⟨"MemoryExtendedWriteResponse", 0x1FC, false, true,
    v1 (.atLeast 6) [u 8, u 24, .bytesRest] ["return_code", "address", "confirmation_data"]⟩,
  ⟨"MemoryExtendedRead", 0x1FD, false, true,
    v1 (.exact 6) [.uint 8 0 250, u 24] ["count", "address"]⟩,
  ⟨"MemoryExtendedReadResponse", 0x1FE, false, true,
    v1 (.atLeast 6) [u 8, u 24, .bytesRest] ["return_code", "address", "data"]⟩,
  -- A_User* (0x2C0 group, no default)
  ⟨"UserMemoryRead", 0x2C0, false, true, v1 (.exact 5) [.addr20count4] ["address", "count"]⟩,
  userMemData "UserMemoryResponse" 0x2C1,
  userMemData "UserMemoryWrite" 0x2C2,
  ⟨"UserMemoryBitWrite", 0x2C4, false, true, v1 (.atLeast 6) [.bitWrite] ["address", "and_data", "xor_data"]⟩,
  noPayload "UserManufacturerInfoRead" 0x2C5,
  ⟨"UserManufacturerInfoResponse", 0x2C6, false, true,
    v1 (.exact 5) [u 8, .bytes 2] ["manufacturer_id", "data"]⟩,
  funcProp "FunctionPropertyCommand" 0x2C7,
  funcProp "FunctionPropertyStateRead" 0x2C8,
  ⟨"FunctionPropertyStateResponse", 0x2C9, false, true,
    v1 (.atLeast 5) [u 8, u 8, u 8, .bytesRest] ["object_index", "property_id", "return_code", "data"]⟩,
  -- A_Restart sub-services
  ⟨"RestartMasterReset", 0x381, false, true, v1 (.exact 4) [u 8, u 8] ["erase_code", "channel_number"]⟩,
  ⟨"RestartMasterResetResponse", 0x3A1, false, true, v1 (.exact 5) [u 8, u 16] ["error_code", "process_time"]⟩,
  -- escape group 0x3C0 (no default)
  noPayload "FilterTableOpen" 0x3C0,
  tableRead "FilterTableRead" 0x3C1 "filter_table_address",
  tableRW "FilterTableResponse" 0x3C2 "filter_table_address" 5 0,
  tableRW "FilterTableWrite" 0x3C3 "filter_table_address" 6 1,
  tableRead "RouterMemoryRead" 0x3C8 "memory_address",
  tableRW "RouterMemoryResponse" 0x3C9 "memory_address" 5 0,
  tableRW "RouterMemoryWrite" 0x3CA "memory_address" 6 1,
  unsupportedRow "RouterStatusRead" 0x3CD,
  unsupportedRow "RouterStatusResponse" 0x3CE,
  unsupportedRow "RouterStatusWrite" 0x3CF,
  ⟨"MemoryBitWrite", 0x3D0, false, true, v1 (.atLeast 6) [.bitWrite] ["memory_address", "and_data", "xor_data"]⟩,
  ⟨"AuthorizeRequest", 0x3D1, false, true, v1 (.exact 7) [.reserved 8, u 32] ["key"]⟩,
  ⟨"AuthorizeResponse", 0x3D2, false, true, v1 (.exact 3) [u 8] ["level"]⟩,
  ⟨"KeyWrite", 0x3D3, false, true, v1 (.exact 7) [u 8, u 32] ["level", "key"]⟩,
  ⟨"KeyResponse", 0x3D4, false, true, v1 (.exact 3) [u 8] ["level"]⟩,
  ⟨"PropertyValueRead", 0x3D5, false, true,
    v1 (.exact 6) [u 8, u 8, u 4, u 12] ["object_index", "property_id", "count", "start_index"]⟩,
  propValueData "PropertyValueResponse" 0x3D6,
  propValueData "PropertyValueWrite" 0x3D7,
  ⟨"PropertyDescriptionRead", 0x3D8, false, true,
    v1 (.exact 5) [u 8, u 8, u 8] ["object_index", "property_id", "property_index"]⟩,
  ⟨"PropertyDescriptionResponse", 0x3D9, false, true,
    v1 (.exact 9) [u 8, u 8, u 8, u 8, .reserved 4, u 12, u 8]
      ["object_index", "property_id", "property_index", "type_", "max_count", "access"]⟩,
  netParam "NetworkParameterRead" 0x3DA "test_info",
  netParam "NetworkParameterResponse" 0x3DB "test_info_and_result",
  ⟨"IndividualAddressSerialRead", 0x3DC, false, true, v1 (.exact 8) [.bytes 6] ["serial"]⟩,
  ⟨"IndividualAddressSerialResponse", 0x3DD, false, true,
    v1 (.exact 12) [.bytes 6, u 16, .reserved 16] ["serial", "address"]⟩,
  ⟨"IndividualAddressSerialWrite", 0x3DE, false, true,
    v1 (.exact 14) [.bytes 6, u 16, .reserved 32] ["serial", "address"]⟩,
  ⟨"DomainAddressWrite", 0x3E0, false, true, v1 (.oneOf [4, 8]) [.bytesRest] ["domain_address"]⟩,
  noPayload "DomainAddressRead" 0x3E1,
  ⟨"DomainAddressResponse", 0x3E2, false, true, v1 (.oneOf [4, 8]) [.bytesRest] ["domain_address"]⟩,
  ⟨"DomainAddressSelectiveRead", 0x3E3, false, true, v1 (.atLeast 3) [.bytesRest] ["asdu"]⟩,
  netParam "NetworkParameterWrite" 0x3E4 "value",
  ⟨"LinkRead", 0x3E5, false, true, v1 (.exact 4) [u 8, .reserved 4, u 4] ["group_object_number", "start_index"]⟩,
  ⟨"LinkResponse", 0x3E6, false, true,
    v1 (.oneOf [4, 6, 8, 10, 12, 14, 16]) [u 8, u 4, u 4, .bytesRest]
      ["group_object_number", "sending_address", "start_index", "group_address_list"]⟩,
  ⟨"LinkWrite", 0x3E7, false, true,
    v1 (.exact 6) [u 8, .reserved 6, .flag, .flag, u 16] ["group_object_number", "delete", "sending", "group_address"]⟩,
  ⟨"GroupPropValueRead", 0x3E8, false, true,
    v1 (.exact 6) [u 16, u 8, u 8] ["object_type", "object_instance", "property_id"]⟩,
  groupPropData "GroupPropValueResponse" 0x3E9,
  groupPropData "GroupPropValueWrite" 0x3EA,
  groupPropData "GroupPropValueInfoReport" 0x3EB,
  ⟨"DomainAddressSerialNumberRead", 0x3EC, false, true, v1 (.exact 8) [.bytes 6] ["serial"]⟩,
  ⟨"DomainAddressSerialNumberResponse", 0x3ED, false, true,
    v1 (.oneOf [10, 14]) [.bytes 6, .bytesRest] ["serial", "domain_address"]⟩,
  ⟨"DomainAddressSerialNumberWrite", 0x3EE, false, true,
    [⟨.oneOf [10, 12, 14], [.bytes 6, .bytesRest], ["serial", "domain_address"]⟩,
     ⟨.exact 29, [.bytes 6, .bytes 4, u 8, .bytes 16],
       ["serial", "domain_address", "routing_security_version", "backbone_key"]⟩]⟩,
  ⟨"FileStreamInfoReport", 0x3F0, false, true,
    v1 (.atLeast 3) [u 4, u 4, .bytesRest] ["file_handle", "file_block_seq_number", "file_block"]⟩,
  ⟨"SecureAPDU", 0x3F1, false, true,
    v1 (.atLeast 13)
      [.flag, .enum 3 Generated.APCI.scfAlgorithms, .flag, .enum 3 Generated.APCI.scfServices,
       .bytes 6, .bytesLeave 4, .bytes 4]
      ["scf.tool_access", "scf.algorithm", "scf.system_broadcast", "scf.service",
       "secured_data.sequence_number_bytes", "secured_data.secured_apdu",
       "secured_data.message_authentication_code"]⟩,
  -- 4 bit services
  noPayloadShort "GroupValueRead" 0x000,
  groupValue "GroupValueResponse" 0x040,
  groupValue "GroupValueWrite" 0x080,
  ⟨"IndividualAddressWrite", 0x0C0, true, true, v1 (.exact 4) [.reserved 6, u 16] ["address"]⟩,
  noPayloadShort "IndividualAddressRead" 0x100,
  noPayloadShort "IndividualAddressResponse" 0x140,
  ⟨"ADCRead", 0x180, true, true, v1 (.exact 3) [u 6, u 8] ["channel", "count"]⟩,
  ⟨"ADCResponse", 0x1C0, true, true, v1 (.exact 5) [u 6, u 8, u 16] ["channel", "count", "value"]⟩,
  ⟨"MemoryRead", 0x200, true, true, v1 (.exact 4) [u 6, u 16] ["count", "address"]⟩,
  memData "MemoryResponse" 0x240,
  memData "MemoryWrite" 0x280,
  ⟨"DeviceDescriptorRead", 0x300, true, true, v1 (.exact 2) [u 6] ["descriptor"]⟩,
  ⟨"DeviceDescriptorResponse", 0x340, true, true, v1 (.exact 4) [u 6, u 16] ["descriptor", "value"]⟩,
  noPayloadShort "Restart" 0x380
]

end XknxVerif.APCI
