/-
Model of `APCI.from_knx` (dispatcher) and of the per-class `from_knx` / `to_knx` /
`calculated_length` of xknx/telegram/apci.py, as an interpreter of the layout
table.  Core Lean only (linked into the driver).
-/
import XknxVerif.Model.APCI.Table

namespace XknxVerif.APCI

inductive Err where
  | conv          -- ConversionError (malformed)
  | unsupported   -- UnsupportedAPCIService
  deriving DecidableEq, Repr

/-- A decoded service object: row of the table (= class), variant, field values in wire order. -/
structure Service where
  row : Nat
  variant : Nat
  vals : List Val
  deriving DecidableEq, Repr

/-- `apci = (raw[0] * 256 + raw[1]) & 0x03FF`, on the bit string. -/
def codeOfBits (bits : Bits) : Nat := Bits.toNat ((bits.drop 6).take 10)

/-- `service = apci & 0x03C0` for the 4 bit services, exact code otherwise. -/
def Row.matches (r : Row) (code : Nat) : Bool :=
  if r.short then code &&& 0x3C0 == r.code else code == r.code

/-- The dispatcher of `APCI.from_knx`: index of the first matching row
(exact codes are listed before the 4 bit default of their group). -/
def findRow (code : Nat) : Option Nat := table.findIdx? (·.matches code)

/-- The variant whose length rule admits `n` (first match) with its index. -/
def pick : List Variant → Nat → Option (Nat × Variant)
  | [], _ => none
  | v :: vs, n =>
    if v.len.ok n then some (0, v) else
    match pick vs n with
    | some (j, x) => some (j + 1, x)
    | none => none

/-- `APCI.from_knx(raw)` -/
def decodeAPDU (raw : Bytes) : Except Err Service :=
  if raw.length < 2 then .error .conv else
  let bits := Bits.ofBytes raw
  match findRow (codeOfBits bits) with
  | none => .error .unsupported
  | some i =>
    match table[i]? with
    | none => .error .unsupported
    | some row =>
      if !row.supported then .error .unsupported else
      match pick row.variants raw.length with
      | none => .error .conv
      | some (j, v) =>
        match decodeFields (fullFields row v) bits with
        | some vals => .ok ⟨i, j, vals⟩
        | none => .error .conv

/-- `obj.to_knx()`; `none` = the encoder refuses.  The two closing guards are
the length checks of the `to_knx` methods and - only ever false for
`ADCResponse`, see `Props.C06.guard_only_adc` - the check that the emitted
APCI is not the code of another service. -/
def encodeAPDU (s : Service) : Option Bytes :=
  match table[s.row]? with
  | none => none
  | some row =>
    if !row.supported then none else
    match row.variants[s.variant]? with
    | none => none
    | some v =>
      match encodeFields (fullFields row v) s.vals with
      | none => none
      | some bits =>
        match Bits.toBytes? bits with
        | none => none
        | some raw =>
          if v.len.ok raw.length && (findRow (codeOfBits bits) == some s.row) then some raw else none

/-- `obj.calculated_length()`: octets after the first, computed from the values alone. -/
def calcLength (s : Service) : Option Nat :=
  match table[s.row]? with
  | none => none
  | some row =>
    match row.variants[s.variant]? with
    | none => none
    | some v =>
      match widthOf (fullFields row v) s.vals with
      | some w => some (w / 8 - 1)
      | none => none

/-- Reserved-bit mask (as bits) of a received APDU that decodes to `s`. -/
def maskBits (s : Service) (raw : Bytes) : Bits :=
  match table[s.row]? with
  | none => []
  | some row =>
    match row.variants[s.variant]? with
    | none => []
    | some v => maskFields (fullFields row v) (Bits.ofBytes raw)

/-! ### Line protocol -/

def hexOf (bs : Bytes) : String :=
  String.ofList (bs.flatMap fun b => [hexDigit ((b / 16) % 16), hexDigit (b % 16)])

def Val.render : Val → String
  | .int i => s!"i{i}"
  | .flag b => if b then "bT" else "bF"
  | .bytes bs => "x" ++ hexOf bs

def parseVal (s : String) : Option Val :=
  match s.toList with
  | 'i' :: rest => (String.ofList rest).toInt?.map .int
  | 'b' :: ['T'] => some (.flag true)
  | 'b' :: ['F'] => some (.flag false)
  | 'x' :: rest => (bytesOfHexChars rest).map .bytes
  | _ => none

def renderPairs (names : List String) (vals : List Val) : String :=
  let pairs := (names.zip vals).mergeSort (fun a b => !(b.1 < a.1))
  " ".intercalate (pairs.map fun p => p.1 ++ "=" ++ p.2.render)

def Service.render (s : Service) : String :=
  match table[s.row]? with
  | none => "?"
  | some row =>
    match row.variants[s.variant]? with
    | none => row.name
    | some v => if v.names.isEmpty then row.name else row.name ++ " " ++ renderPairs v.names s.vals

inductive Kind where | int | flag | bytes deriving DecidableEq

def Val.kind : Val → Kind
  | .int _ => .int | .flag _ => .flag | .bytes _ => .bytes

def kindsOf : List Field → List Kind
  | [] => []
  | f :: fs =>
    (match f with
      | .const _ _ | .reserved _ => []
      | .uint _ _ _ | .enum _ _ => [Kind.int]
      | .flag => [.flag]
      | .bytes _ | .bytesRest | .bytesLeave _ => [.bytes]
      | .addr20count4 => [.int, .int]
      | .bitWrite => [.int, .bytes, .bytes]) ++ kindsOf fs

def parsePair (s : String) : Option (String × Val) :=
  match s.splitOn "=" with
  | [k, v] => (parseVal v).map (k, ·)
  | _ => none

/-- Values of an object given as `name=value` pairs, put into the wire order of a variant;
`none` if the object does not have exactly this variant's attributes and kinds. -/
def arrange (v : Variant) (pairs : List (String × Val)) : Option (List Val) :=
  if pairs.length != v.names.length then none else
  match v.names.mapM (fun n => pairs.lookup n) with
  | some vals => if vals.map Val.kind == kindsOf v.body then some vals else none
  | none => none

def firstFit : List Variant → Nat → List (String × Val) → Option (Nat × List Val)
  | [], _, _ => none
  | v :: vs, j, pairs =>
    match arrange v pairs with
    | some vals => some (j, vals)
    | none => firstFit vs (j + 1) pairs

def adler32 (s : String) : Nat :=
  let (a, b) := s.toUTF8.foldl (fun (ab : Nat × Nat) c => let a := (ab.1 + c.toNat) % 65521; (a, (ab.2 + a) % 65521)) (1, 0)
  b * 65536 + a

/-- Outcome of `dec`: decoded object, its re-encoding and calculated length. -/
def decLine (raw : Bytes) : String :=
  match decodeAPDU raw with
  | .error .conv => "conv"
  | .error .unsupported => "unsupported"
  | .ok s =>
    let enc := match encodeAPDU s with
      | some r => "x" ++ hexOf r
      | none => "refused"
    let cl := match calcLength s with
      | some n => toString n
      | none => "-"
    s!"ok {s.render} => {enc} {cl}"

def maskLine (raw : Bytes) : String :=
  match decodeAPDU raw with
  | .error _ => "-"
  | .ok s =>
    match Bits.toBytes? (maskBits s raw) with
    | some m => "x" ++ hexOf m
    | none => "-"

def sweepLine (pre : Bytes) : String :=
  let lines := (List.range 256).map fun b => decLine (pre ++ [b])
  let nOk := (lines.filter (·.startsWith "ok")).length
  let nConv := (lines.filter (· == "conv")).length
  s!"{adler32 ("\n".intercalate lines)} {nOk} {nConv} {256 - nOk - nConv}"

-- DRIVER: apci => XknxVerif.APCI.handle
/-- Line protocol:
  `dec <hex>`   → `ok <Class> k=v … => x<hex>|refused <calclen>` | `conv` | `unsupported`
  `mask <hex>`  → `x<mask hex>` | `-`
  `enc <Class> k=v …` → `ok x<hex>` | `refused`
  `sweep <hex>` → digest over the 256 one-octet extensions of the prefix -/
def handle : List String → String
  | ["dec", h] =>
    match bytesOfHex? h with
    | some raw => decLine raw
    | none => "bad-op"
  | ["mask", h] =>
    match bytesOfHex? h with
    | some raw => maskLine raw
    | none => "bad-op"
  | ["sweep", h] =>
    match bytesOfHex? h with
    | some raw => sweepLine raw
    | none => "bad-op"
  | "enc" :: cls :: rest =>
    match table.findIdx? (·.name == cls), (rest.filter (· != "")).mapM parsePair with
    | some i, some pairs =>
      match table[i]? with
      | none => "bad-op"
      | some row =>
        match firstFit row.variants 0 pairs with
        | none => "refused"
        | some (j, vals) =>
          match encodeAPDU ⟨i, j, vals⟩ with
          | some raw => "ok x" ++ hexOf raw
          | none => "refused"
    | _, _ => "bad-op"
  | _ => "bad-op"

end XknxVerif.APCI
