/-
Layout library for the application layer (APCI) codec of xknx/telegram/apci.py.

An APDU is read as a bit string (MSB first).  Every service class is described
by a list of bit-level `Field`s which ONE generic decoder / encoder interprets.
The round-trip theorems are proved once, by induction over the field list
(`Lemmas`-free: core Lean only, so the file links into the driver).
-/
import XknxVerif.Py.Bits

namespace XknxVerif.APCI

/-- A decoded field value. Python ints are unbounded and signed. -/
inductive Val where
  | int (i : Int)
  | flag (b : Bool)
  | bytes (bs : Bytes)
  deriving DecidableEq, Repr

/-- Bit-level fields.  `uint w lo hi` is a `w` bit big-endian unsigned integer
which the *encoder* accepts for `lo ≤ v ≤ hi` only (the decoder accepts every
bit pattern, as the Python `from_knx` methods do). -/
inductive Field where
  /-- fixed bits (the APCI code); decoder checks, encoder emits -/
  | const (w v : Nat)
  /-- reserved bits: ignored by the decoder, emitted as zero -/
  | reserved (w : Nat)
  | uint (w lo hi : Nat)
  /-- one bit read as a Python bool -/
  | flag
  /-- `w` bit integer that must be a member of an Enum (`ValueError` → conversion error) -/
  | enum (w : Nat) (tbl : List Nat)
  /-- exactly `k` octets -/
  | bytes (k : Nat)
  /-- all remaining octets (only as last field) -/
  | bytesRest
  /-- all remaining octets but the last `k` (`raw[a:-k]`) -/
  | bytesLeave (k : Nat)
  /-- `[hi:4][count:4][lo:16]` → 20 bit address `hi·2^16+lo` and 4 bit count (A_UserMemory_*) -/
  | addr20count4
  /-- `[n:8][address:16][and_data:n][xor_data:n]` (A_MemoryBit_Write), only as last field -/
  | bitWrite
  deriving DecidableEq, Repr

open Bits in
/-- `some (front, back)` with `front.length = w`. -/
def split (w : Nat) (bits : Bits) : Option (Bits × Bits) :=
  if w ≤ bits.length then some (bits.take w, bits.drop w) else none

/-- Decode one field from the front of `bits`: values produced and remaining bits. -/
def decode1 : Field → Bits → Option (List Val × Bits)
  | .const w v, bits =>
    match split w bits with
    | some (a, r) => if Bits.toNat a = v then some ([], r) else none
    | none => none
  | .reserved w, bits =>
    match split w bits with
    | some (_, r) => some ([], r)
    | none => none
  | .uint w _ _, bits =>
    match split w bits with
    | some (a, r) => some ([.int (Bits.toNat a)], r)
    | none => none
  | .flag, bits =>
    match split 1 bits with
    | some (a, r) => some ([.flag (Bits.toNat a == 1)], r)
    | none => none
  | .enum w tbl, bits =>
    match split w bits with
    | some (a, r) => if tbl.contains (Bits.toNat a) then some ([.int (Bits.toNat a)], r) else none
    | none => none
  | .bytes k, bits =>
    match split (8 * k) bits with
    | some (a, r) => some ([.bytes (Bits.toBytesN k a)], r)
    | none => none
  | .bytesRest, bits =>
    match Bits.toBytes? bits with
    | some bs => some ([.bytes bs], [])
    | none => none
  | .bytesLeave k, bits =>
    if 8 * k ≤ bits.length then
      match split (bits.length - 8 * k) bits with
      | some (a, r) =>
        match Bits.toBytes? a with
        | some bs => some ([.bytes bs], r)
        | none => none
      | none => none
    else none
  | .addr20count4, bits =>
    match split 24 bits with
    | some (a, r) =>
      some ([.int (Bits.toNat (a.take 4) * 65536 + Bits.toNat (a.drop 8)),
             .int (Bits.toNat ((a.drop 4).take 4))], r)
    | none => none
  | .bitWrite, bits =>
    match split 24 bits with
    | some (a, r) =>
      let n := Bits.toNat (a.take 8)
      if r.length = 8 * n + 8 * n then
        some ([.int (Bits.toNat (a.drop 8)), .bytes (Bits.toBytesN n (r.take (8 * n))),
               .bytes (Bits.toBytesN n (r.drop (8 * n)))], [])
      else none
    | none => none

/-- Encode one field from the front of the value list: bits produced and remaining values.
`none` = the encoder refuses (out of range / wrong length / wrong kind of value). -/
def encode1 : Field → List Val → Option (Bits × List Val)
  | .const w v, vs => some (Bits.ofNat w v, vs)
  | .reserved w, vs => some (List.replicate w false, vs)
  | .uint w lo hi, .int i :: vs =>
    if (lo : Int) ≤ i ∧ i ≤ (hi : Int) then some (Bits.ofNat w i.toNat, vs) else none
  | .flag, .flag b :: vs => some ([b], vs)
  | .enum w tbl, .int i :: vs =>
    if 0 ≤ i ∧ tbl.contains i.toNat then some (Bits.ofNat w i.toNat, vs) else none
  | .bytes k, .bytes bs :: vs =>
    if bs.length = k ∧ Bytes.WF bs then some (Bits.ofBytes bs, vs) else none
  | .bytesRest, .bytes bs :: vs =>
    if Bytes.WF bs then some (Bits.ofBytes bs, vs) else none
  | .bytesLeave _, .bytes bs :: vs =>
    if Bytes.WF bs then some (Bits.ofBytes bs, vs) else none
  | .addr20count4, .int a :: .int c :: vs =>
    if 0 ≤ a ∧ a ≤ 1048575 ∧ 0 ≤ c ∧ c ≤ 15 then
      some (Bits.ofNat 4 (a.toNat / 65536) ++ Bits.ofNat 4 c.toNat ++ Bits.ofNat 16 (a.toNat % 65536), vs)
    else none
  | .bitWrite, .int a :: .bytes x :: .bytes y :: vs =>
    if 0 ≤ a ∧ a ≤ 65535 ∧ x.length ≤ 255 ∧ y.length = x.length ∧ Bytes.WF x ∧ Bytes.WF y then
      some (Bits.ofNat 8 x.length ++ Bits.ofNat 16 a.toNat ++ Bits.ofBytes x ++ Bits.ofBytes y, vs)
    else none
  | _, _ => none

/-- Decode a whole field list; every bit must be consumed. -/
def decodeFields : List Field → Bits → Option (List Val)
  | [], bits => if bits.isEmpty then some [] else none
  | f :: fs, bits =>
    match decode1 f bits with
    | some (vs, r) =>
      match decodeFields fs r with
      | some ws => some (vs ++ ws)
      | none => none
    | none => none

/-- Encode a whole field list; every value must be consumed. -/
def encodeFields : List Field → List Val → Option Bits
  | [], vs => if vs.isEmpty then some [] else none
  | f :: fs, vs =>
    match encode1 f vs with
    | some (b, vs') =>
      match encodeFields fs vs' with
      | some bs => some (b ++ bs)
      | none => none
    | none => none

/-- Width in bits of a field list when it is fixed. -/
def fixedWidth : List Field → Option Nat
  | [] => some 0
  | f :: fs =>
    match (match f with
      | .const w _ | .reserved w | .uint w _ _ | .enum w _ => some w
      | .flag => some 1
      | .bytes k => some (8 * k)
      | .addr20count4 => some 24
      | _ => none), fixedWidth fs with
    | some a, some b => some (a + b)
    | _, _ => none

/-- Well-formedness of a layout: constants and ranges fit their width, the
greedy fields are last, `bytesLeave k` is followed by exactly `k` octets. -/
def FieldsWF : List Field → Bool
  | [] => true
  | f :: fs =>
    (match f with
      | .const w v => decide (v < 2 ^ w)
      | .uint w _ hi => decide (hi < 2 ^ w)
      | .enum w tbl => tbl.all (fun x => decide (x < 2 ^ w))
      | .bytesRest | .bitWrite => fs.isEmpty
      | .bytesLeave k => fixedWidth fs == some (8 * k)
      | _ => true) && FieldsWF fs

def isReserved : Field → Bool
  | .reserved _ => true
  | _ => false

/-- The reserved-bit mask of a layout for a given received bit string
(`true` = reserved position), derived from the `reserved` fields. -/
def maskFields : List Field → Bits → Bits
  | [], bits => List.replicate bits.length false
  | f :: fs, bits =>
    match decode1 f bits with
    | some (_, r) => List.replicate (bits.length - r.length) (isReserved f) ++ maskFields fs r
    | none => List.replicate bits.length false

/-- Zero the masked positions. -/
def clear (m bits : Bits) : Bits := List.zipWith (fun m b => !m && b) m bits

/-- Width in bits of the encoding of a value list (independent of ranges):
used for `calculated_length()`. -/
def widthOf : List Field → List Val → Option Nat
  | [], _ => some 0
  | f :: fs, vs =>
    match f, vs with
    | .const w _, vs | .reserved w, vs => (w + ·) <$> widthOf fs vs
    | .uint w _ _, _ :: vs | .enum w _, _ :: vs => (w + ·) <$> widthOf fs vs
    | .flag, _ :: vs => (1 + ·) <$> widthOf fs vs
    | .bytes _, .bytes bs :: vs | .bytesRest, .bytes bs :: vs | .bytesLeave _, .bytes bs :: vs =>
      (8 * bs.length + ·) <$> widthOf fs vs
    | .addr20count4, _ :: _ :: vs => (24 + ·) <$> widthOf fs vs
    | .bitWrite, _ :: .bytes x :: .bytes y :: vs => (24 + 8 * x.length + 8 * y.length + ·) <$> widthOf fs vs
    | _, _ => none

end XknxVerif.APCI
