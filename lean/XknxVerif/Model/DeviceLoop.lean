/-
Model of the device command loop (C39), after the `fix:` commit on RemoteValueSetpointShift:

    setter cfg v  ↦  payload  ↦  process(outgoing telegram)  ↦  reported state

for the arithmetic families
  xknx/remote_value/remote_value_switch.py / _updown.py / _step.py   invert flag
  xknx/remote_value/remote_value_scaling.py                          `_calc_to_knx` / `_calc_from_knx`
  xknx/remote_value/remote_value_setpoint_shift.py                   DPT 6.010 count × step (`round(value / step)`)
  xknx/devices/climate.py                                            validate_value, set_setpoint_shift, set_target_temperature
  xknx/devices/fan.py                                                percent / step mode, turn_on / turn_off
Numbers are exact rationals `num/den` (`den > 0`); binary64 rounding is not modelled (see Props/C39, notes/C39.md).
Core Lean only.
-/
import XknxVerif.Py.Basic
import XknxVerif.Generated.DeviceLoop

namespace XknxVerif.DeviceLoop
open XknxVerif.Generated.DeviceLoop

/-! ### 1-bit values with an invert flag -/

/-- `RemoteValueSwitch.to_knx`: `DPTBinary(value ^ invert)` -/
def switchToKnx (invert value : Bool) : Nat := if value != invert then 1 else 0

/-- `RemoteValueSwitch.from_knx`: 0 ↦ invert, 1 ↦ not invert, anything else is refused -/
def switchFromKnx (invert : Bool) : Nat → Option Bool
  | 0 => some invert
  | 1 => some (!invert)
  | _ => none

/-- `RemoteValueUpDown.to_knx` (`up = true` is Direction.UP = 0 on the wire; inverted: swapped) -/
def upDownToKnx (invert up : Bool) : Nat := if up != invert then 0 else 1

def upDownFromKnx (invert : Bool) : Nat → Option Bool
  | 0 => some (!invert)
  | 1 => some invert
  | _ => none

/-- `RemoteValueStep.to_knx` (`increase = true` is Direction.INCREASE = 1) -/
def stepToKnx (invert increase : Bool) : Nat := if increase != invert then 1 else 0

def stepFromKnx (invert : Bool) : Nat → Option Bool
  | 0 => some invert
  | 1 => some (!invert)
  | _ => none

/-- `RemoteValueBinaryOperationMode`: `to_knx(mode) = (mode == own)`, `from_knx(1) = own`, `from_knx(0) = None` -/
def binModeToKnx (own requested : Nat) : Nat := if requested = own then 1 else 0

def binModeFromKnx (own : Nat) : Nat → Option (Option Nat)
  | 0 => some none
  | 1 => some (some own)
  | _ => none

/-! ### rounding -/

/-- Python `round()` of the rational `num/den` (`den > 0`): half to even -/
def rhe (num : Int) (den : Nat) : Int :=
  let fl := num / (den : Int)
  let rem := num % (den : Int)
  if 2 * rem < den then fl
  else if 2 * rem > den then fl + 1
  else if fl % 2 = 0 then fl else fl + 1

/-- Python `int()` of the rational `num/den`: toward zero -/
def trunc (num : Int) (den : Nat) : Int := Int.tdiv num (den : Int)

/-! ### RemoteValueScaling -/

/-- the exact position `(v - range_from) / delta * 255` as a fraction with positive denominator -/
def scalePos (rf rt : Int) (num : Int) (den : Nat) : Int × Nat :=
  ((num - rf * den) * 255 * (if rt - rf < 0 then -1 else 1), den * (rt - rf).natAbs)

/-- `_calc_to_knx`: `round(position)`, refused (ConversionError) when the range is empty or the result is not an octet -/
def scaleToKnx (rf rt : Int) (num : Int) (den : Nat) : Option Int :=
  if rt - rf = 0 ∨ den = 0 then none
  else
    let p := scalePos rf rt num den
    let raw := rhe p.1 p.2
    if 0 ≤ raw ∧ raw ≤ 255 then some raw else none

/-- `_calc_from_knx`: `round((raw / 255) * delta) + range_from` -/
def scaleFromKnx (rf rt : Int) (raw : Int) : Int := rhe (raw * (rt - rf)) 255 + rf

/-- set ↦ payload ↦ process ↦ reported: `(raw, reported)` -/
def scaleLoop (rf rt : Int) (num : Int) (den : Nat) : Option (Int × Int) :=
  (scaleToKnx rf rt num den).map fun raw => (raw, scaleFromKnx rf rt raw)

/-! ### set-point shift, DPT 6.010: count × step -/

/-- `validate_value(value, min, max)` on rationals -/
def clampQ (v lo hi : Int × Nat) : Int × Nat :=
  if v.1 * lo.2 < lo.1 * v.2 then lo
  else if v.1 * hi.2 > hi.1 * v.2 then hi
  else v

/-- `round(value / step)` for `value = v.1/v.2`, `step = s.1/s.2` with `s.1 > 0` -/
def shiftCount (s v : Int × Nat) : Int := rhe (v.1 * s.2) (v.2 * s.1.toNat)

/-- `RemoteValueSetpointShift.to_knx` in DPT 6.010 mode: the count, refused when the step is not positive
(ZeroDivisionError → ConversionError; a negative step is outside the model) or the count is outside DPT 6.010 -/
def shiftToKnx (s v : Int × Nat) : Option Int :=
  if s.1 ≤ 0 ∨ s.2 = 0 ∨ v.2 = 0 then none
  else
    let k := shiftCount s v
    if countMin ≤ k ∧ k ≤ countMax then some k else none

/-- the code before the fix: `int(value / step)` -/
def shiftToKnxPinned (s v : Int × Nat) : Option Int :=
  if s.1 ≤ 0 ∨ s.2 = 0 ∨ v.2 = 0 then none
  else
    let k := trunc (v.1 * s.2) (v.2 * s.1.toNat)
    if countMin ≤ k ∧ k ≤ countMax then some k else none

/-- `from_knx`: `count * step` -/
def shiftFromKnx (s : Int × Nat) (k : Int) : Int × Nat := (k * s.1, s.2)

/-- `Climate.set_setpoint_shift(offset)`: limit, then send; the reported shift is `count * step` -/
def climateShift (s lo hi v : Int × Nat) : Option Int := shiftToKnx s (clampQ v lo hi)

/-- `Climate.set_target_temperature(t)` with a known base temperature: the shift `t - base` -/
def subQ (a b : Int × Nat) : Int × Nat := (a.1 * b.2 - b.1 * a.2, a.2 * b.2)

def climateTarget (s lo hi base t : Int × Nat) : Option Int := climateShift s lo hi (subQ t base)

/-! ### Fan -/

/-- `DPTValue1Ucount.to_knx`: `int(value)`, range checked; read back unchanged -/
def ucountLoop (num : Int) (den : Nat) : Option Int :=
  if den = 0 then none else
  let k := trunc num den
  if ucountMin ≤ k ∧ k ≤ ucountMax then some k else none

/-- the speed a `turn_on()` without argument and without switch address uses: 50 %, or `ceil(max_step / 2)` -/
def fanDefaultSpeed (maxStep : Nat) : Int := if maxStep = 0 then fanTurnOnSpeed else ((maxStep + 1) / 2 : Nat)

/-- one telegram of a fan command: on the switch address (bit) or on the speed address (octet) -/
inductive FanTg where
  | sw (bit : Nat)
  | speed (raw : Int)
  deriving DecidableEq, Repr

/-- `Fan.set_speed`: step mode (`maxStep ≠ 0`) or percent mode -/
def fanSpeed (maxStep : Nat) (num : Int) (den : Nat) : Option Int :=
  if maxStep = 0 then scaleToKnx 0 100 num den else ucountLoop num den

inductive FanCmd where
  | setSpeed (num : Int) (den : Nat)
  | turnOn (speed : Option (Int × Nat))
  | turnOff
  deriving DecidableEq, Repr

/-- telegrams of a command in the order they are queued; `none` = the call raised ConversionError
(telegrams queued before the failing one are not modelled as sent) -/
def fanCmd (maxStep : Nat) (hasSwitch : Bool) : FanCmd → Option (List FanTg)
  | .setSpeed n d => (fanSpeed maxStep n d).map fun r => [.speed r]
  | .turnOn sp =>
    if hasSwitch then
      match sp with
      | none => some [.sw 1]
      | some (n, d) => (fanSpeed maxStep n d).map fun r => [.sw 1, .speed r]
    else
      match sp with
      | none => (fanSpeed maxStep (fanDefaultSpeed maxStep) 1).map fun r => [.speed r]
      | some (n, d) => (fanSpeed maxStep n d).map fun r => [.speed r]
  | .turnOff => if hasSwitch then some [.sw 0] else (fanSpeed maxStep 0 1).map fun r => [.speed r]

/-! ### line protocol -/

def parseQ (s : String) : Option (Int × Nat) :=
  match s.splitOn "/" with
  | [a, b] => do
    let a ← a.toInt?
    let b ← b.toNat?
    if b = 0 then none else pure (a, b)
  | _ => none

def hex2 (n : Int) : String := hexOfBytes [n.toNat]

def renderFan : Option (List FanTg) → String
  | none => "conv"
  | some ts => "ok" ++ String.join (ts.map fun
      | .sw b => s!",w={b}"
      | .speed r => s!",s={hex2 r}")

def one (tok : String) : String :=
  match tok.splitOn ":" with
  | ["sw", i, w] =>
    let inv := i == "1"
    let bit := switchToKnx inv (w == "1")
    match switchFromKnx inv bit with
    | some r => s!"{bit}:{if r then 1 else 0}"
    | none => "refused"
  | ["sc", rf, rt, v] =>
    match rf.toInt?, rt.toInt? with
    | some rf, some rt =>
      if v == "nan" then "conv" else
      match parseQ v with
      | some (n, d) =>
        match scaleLoop rf rt n d with
        | some (raw, rep) => s!"ok:{raw}:{rep}"
        | none => "conv"
      | none => "bad-op"
    | _, _ => "bad-op"
  | ["sh", s, lo, hi, v] =>
    match parseQ s, parseQ lo, parseQ hi, parseQ v with
    | some s, some lo, some hi, some v =>
      match climateShift s lo hi v with
      | some k => s!"ok:{k}"
      | none => "conv"
    | _, _, _, _ => "bad-op"
  | ["fan", ms, sw, m, a] =>
    match ms.toNat? with
    | some ms =>
      let hasSw := sw == "1"
      let arg := if a == "-" then some none else (parseQ a).map some
      match arg with
      | none => "bad-op"
      | some arg =>
        if m == "set_speed" then
          match arg with
          | some (n, d) => renderFan (fanCmd ms hasSw (.setSpeed n d))
          | none => "bad-op"
        else if m == "turn_on" then renderFan (fanCmd ms hasSw (.turnOn arg))
        else if m == "turn_off" then renderFan (fanCmd ms hasSw .turnOff)
        else "bad-op"
    | none => "bad-op"
  | _ => "bad-op"

-- DRIVER: c39 => XknxVerif.DeviceLoop.handle
/-- one token per setter call, results joined by blanks -/
def handle (ts : List String) : String := " ".intercalate (ts.map one)

end XknxVerif.DeviceLoop
