/-
Model of xknx/devices/devices.py : Devices.async_add / async_remove /
devices_by_group_address / process.  Import-free (core Lean only).

A device is an opaque identity `Dev` (Python: object identity — `Device` defines
no `__eq__`, so `in`, `list.remove` compare by identity) together with the fixed
finite set `gas d` of group addresses `Device.group_addresses()` returns (a
Python `set`: every address once, iteration order unspecified — the model takes
it as a duplicate-free list in *some* order; every theorem holds for any order).

Registry state, exactly the two containers devices.py maintains:
  `devices : List Dev`               `self.__devices`   (list, append / remove)
  `index   : List (GA × List Dev)`   `self.__index`     (dict GA → list; an
                                     association list with dict semantics:
                                     `idxSet` replaces in place or appends a new
                                     key, `idxDel` removes the key)
-/
import XknxVerif.Py.Basic
import XknxVerif.Automata

namespace XknxVerif.Devices

inductive Err where
  | alreadyRegistered   -- ValueError("Device is already registered")
  | notRegistered       -- ValueError("Device is not registered")
  | keyError            -- `self.__index[group_address]` on a missing key
  | valueError          -- `devices.remove(device)` on a list without the device
  deriving DecidableEq, Repr

abbrev Index (Dev GA : Type) := List (GA × List Dev)

section
variable {Dev GA : Type} [DecidableEq Dev] [DecidableEq GA]

/-- `self.__index.get(ga)` -/
def idxGet : Index Dev GA → GA → Option (List Dev)
  | [], _ => none
  | (k, v) :: r, ga => if k = ga then some v else idxGet r ga

/-- `self.__index[ga] = v` (dict: replace the value of an existing key, else new key at the end). -/
def idxSet : Index Dev GA → GA → List Dev → Index Dev GA
  | [], ga, v => [(ga, v)]
  | (k, w) :: r, ga, v => if k = ga then (k, v) :: r else (k, w) :: idxSet r ga v

/-- `del self.__index[ga]` -/
def idxDel (idx : Index Dev GA) (ga : GA) : Index Dev GA :=
  idx.filter (fun e => e.1 ≠ ga)

structure Reg (Dev GA : Type) where
  devices : List Dev
  index : Index Dev GA

def Reg.empty : Reg Dev GA := ⟨[], []⟩

/-- `for ga in device.group_addresses(): self.__index.setdefault(ga, []).append(device)` -/
def indexAdd (idx : Index Dev GA) (d : Dev) : List GA → Index Dev GA
  | [] => idx
  | ga :: gs =>
    let l := match idxGet idx ga with
      | some l => l          -- existing list
      | none => []           -- setdefault inserts a fresh empty list
    indexAdd (idxSet idx ga (l ++ [d])) d gs

/-- ```
for ga in device.group_addresses():
    devices = self.__index[ga]      # KeyError if missing
    devices.remove(device)          # ValueError if missing
    if not devices: del self.__index[ga]
```
Returns the (possibly partially updated) index and the exception that ended the loop, if any. -/
def indexRemove (idx : Index Dev GA) (d : Dev) : List GA → Index Dev GA × Option Err
  | [] => (idx, none)
  | ga :: gs =>
    match idxGet idx ga with
    | none => (idx, some .keyError)
    | some l =>
      if d ∈ l then
        let l' := l.erase d
        indexRemove (if l'.isEmpty then idxDel idx ga else idxSet idx ga l') d gs
      else (idx, some .valueError)

/-- `Devices.async_add(device)`; `none` = returned normally. -/
def add (gas : Dev → List GA) (s : Reg Dev GA) (d : Dev) : Reg Dev GA × Option Err :=
  if d ∈ s.devices then (s, some .alreadyRegistered)
  else (⟨s.devices ++ [d], indexAdd s.index d (gas d)⟩, none)

/-- `Devices.async_remove(device)`. -/
def remove (gas : Dev → List GA) (s : Reg Dev GA) (d : Dev) : Reg Dev GA × Option Err :=
  if d ∈ s.devices then
    let r := indexRemove s.index d (gas d)
    (⟨s.devices.erase d, r.1⟩, r.2)
  else (s, some .notRegistered)

/-- `Devices.devices_by_group_address(ga)` : `yield from self.__index.get(ga, ())` -/
def byAddress (s : Reg Dev GA) (ga : GA) : List Dev :=
  match idxGet s.index ga with
  | some l => l
  | none => []

/-- `Devices.process(telegram)`: the devices whose `process` is called, in call order.
`dst = none` stands for a destination that is not a (internal) group address. -/
def process (s : Reg Dev GA) (dst : Option GA) : List Dev :=
  match dst with
  | some ga => byAddress s ga
  | none => []

/-- The naive scan the property compares with. -/
def scan (gas : Dev → List GA) (s : Reg Dev GA) (ga : GA) : List Dev :=
  s.devices.filter (fun d => ga ∈ gas d)

inductive Op (Dev GA : Type) where
  | add (d : Dev)
  | remove (d : Dev)
  | telegram (dst : Option GA)
  deriving Repr

inductive Out (Dev : Type) where
  | done                      -- add/remove returned
  | raised (e : Err)          -- add/remove raised
  | called (ds : List Dev)    -- Device.process calls made for one telegram
  deriving Repr, DecidableEq

def step (gas : Dev → List GA) (s : Reg Dev GA) : Op Dev GA → Reg Dev GA × List (Out Dev)
  | .add d => let r := add gas s d; (r.1, [match r.2 with | none => .done | some e => .raised e])
  | .remove d => let r := remove gas s d; (r.1, [match r.2 with | none => .done | some e => .raised e])
  | .telegram dst => (s, [.called (process s dst)])

end

/-! ### Line protocol (devices and addresses are small naturals)

`devs run <pool> <nga> <ops>`
  pool  `0:1.2;1:2;2:-`      device id : its addresses
  nga   number of addresses `0..nga-1` observed after every op
  ops   `a0,r1,t2,tx,...`    add / remove device, telegram to address n / to a non-group destination
output: one token per op, joined by `,`:
  add/remove  `ok` | `E<err>`   followed by `/`, the registered devices in iteration order, `/` and
              `devices_by_group_address` of every address `0..nga-1`
              (`.`-joined ids, `-` for none, addresses separated by `;`)
  telegram    `c` + `.`-joined ids of the devices whose process() ran (`c-` for none)
-/

def parseNatList (s : String) (sep : String) : Option (List Nat) :=
  if s == "-" || s == "" then some [] else (s.splitOn sep).mapM String.toNat?

def parsePool (s : String) : Option (List (Nat × List Nat)) :=
  (s.splitOn ";").mapM fun e =>
    match e.splitOn ":" with
    | [d, gs] => do
      let d ← d.toNat?
      let gs ← parseNatList gs "."
      pure (d, gs)
    | _ => none

def poolGas (pool : List (Nat × List Nat)) (d : Nat) : List Nat :=
  match pool.lookup d with
  | some gs => gs
  | none => []

def parseOp (s : String) : Option (Op Nat Nat) :=
  match s.toList with
  | 'a' :: r => (String.ofList r).toNat?.map .add
  | 'r' :: r => (String.ofList r).toNat?.map .remove
  | ['t', 'x'] => some (.telegram none)
  | 't' :: r => (String.ofList r).toNat?.map fun n => .telegram (some n)
  | _ => none

def showIds (l : List Nat) : String :=
  if l.isEmpty then "-" else ".".intercalate (l.map toString)

def Err.render : Err → String
  | .alreadyRegistered => "Eregistered"
  | .notRegistered => "Eunregistered"
  | .keyError => "Ekey"
  | .valueError => "Evalue"

def showState (s : Reg Nat Nat) (nga : Nat) : String :=
  showIds s.devices ++ "/" ++ ";".intercalate ((List.range nga).map fun ga => showIds (byAddress s ga))

def runShow (gas : Nat → List Nat) (nga : Nat) : Reg Nat Nat → List (Op Nat Nat) → List String
  | _, [] => []
  | s, op :: ops =>
    let r := step gas s op
    let o := match r.2 with
      | [.done] => "ok/" ++ showState r.1 nga
      | [.raised e] => e.render ++ "/" ++ showState r.1 nga
      | [.called ds] => "c" ++ showIds ds
      | _ => "?"
    o :: runShow gas nga r.1 ops

-- DRIVER: devs => XknxVerif.Devices.handle
def handle : List String → String
  | ["run", pool, nga, ops] =>
    match parsePool pool, nga.toNat?, (ops.splitOn ",").mapM parseOp with
    | some pool, some nga, some ops =>
      ",".intercalate (runShow (poolGas pool) nga Reg.empty ops)
    | _, _, _ => "bad-op"
  | _ => "bad-op"

end XknxVerif.Devices
