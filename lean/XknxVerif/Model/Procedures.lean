/-
Model of the management procedures in xknx/management/procedures/{network,device}/*.py over a
simulated bus: the bus is a list of devices, the procedures are straight-line decision functions
over bus primitives.  The point-to-point layer (C43) appears only through what a whole
"connect – request – disconnect" session sends and returns for a given population.
Core Lean only.
-/
import XknxVerif.Py.Basic

namespace XknxVerif.Procedures

/-- How a device treats point-to-point (connection-oriented) communication. -/
inductive Beh where
  | answers   -- acknowledges and answers requests
  | silent    -- never reacts (timeouts)
  | refuses   -- answers T_Connect with T_Disconnect
  deriving DecidableEq, Repr

/-- Addresses: 0 = the target address of the procedure, anything else = another address. -/
structure Dev where
  addr : Nat
  prog : Bool       -- programming mode
  beh : Beh
  deriving DecidableEq, Repr

abbrev Bus := List Dev

def target : Nat := 0

inductive Kind where
  | ddr | restart | authFree | authKey
  deriving DecidableEq, Repr

/-- Telegrams sent (T_ACKs are kept apart: they are sent by background tasks). -/
inductive Tel where
  | conn (x : Nat) | disc (x : Nat)
  | data (x n : Nat) (k : Kind)
  | bRead | bWrite (a : Nat)
  | bSRead (s : Nat) | bSWrite (s a : Nat)
  deriving DecidableEq, Repr

inductive Res where
  | ok | okBool (b : Bool) | okAddrs (as : List Nat) | okAddr (a : Option Nat) | okLevel (n : Nat)
  | err | refused | timeout
  deriving DecidableEq, Repr

def countAt (bus : Bus) (x : Nat) (b : Beh) : Nat :=
  (bus.filter fun d => d.addr = x ∧ d.beh = b).length

/-- Outcome of one step of a session. -/
structure Out where
  res : Res
  tels : List Tel
  acks : List (Nat × Nat)     -- T_ACK (address, number)
  bus : Bus
  deriving DecidableEq, Repr

/-- `async with management.connection(x) as c: return await nm_individual_address_check_conn(c)` wrapped in
`nm_individual_address_check` (a refusal, also the one raised by `disconnect()` on leaving, means "occupied"). -/
def refusedTels (sync : Bool) (x : Nat) : List Tel :=
  -- `sync`: the T_Disconnect is processed while the T_Connect send is still awaited, so `request()` already finds the
  -- connection closed and sends nothing; otherwise it arrives while the ACK of the first request is awaited
  if sync then [.conn x] else [.conn x, .data x 0 .ddr]

def checkAddress (sync : Bool) (bus : Bus) (x : Nat) : Bool × List Tel × List (Nat × Nat) :=
  if 0 < countAt bus x .refuses then
    -- ManagementConnectionRefused; nothing more is sent
    (true, refusedTels sync x, [])
  else if 0 < countAt bus x .answers then
    -- every answering device sends T_ACK + response 0; the first is taken, the repetitions are acknowledged again
    (true, [.conn x, .data x 0 .ddr, .disc x], List.replicate (countAt bus x .answers) (x, 0))
  else
    -- ACK timeout, one repetition, second timeout
    (false, [.conn x, .data x 0 .ddr, .data x 0 .ddr, .disc x], [])

/-- `nm_individual_address_read`: addresses of the devices answering the broadcast, in bus order. -/
def progAddrs (bus : Bus) : List Nat := (bus.filter (·.prog)).map (·.addr)

def readProg (bus : Bus) (raiseIfMultiple : Bool) : Res :=
  if raiseIfMultiple ∧ 1 < (progAddrs bus).length then .err else .okAddrs (progAddrs bus)

/-- A_IndividualAddress_Write broadcast: every device in programming mode takes the address. -/
def writeAddr (bus : Bus) (a : Nat) : Bus := bus.map fun d => if d.prog then { d with addr := a } else d

/-- A_Restart on an open connection to `x`: the answering devices there leave programming mode. -/
def restartAt (bus : Bus) (x : Nat) : Bus :=
  bus.map fun d => if d.addr = x ∧ d.beh = .answers then { d with prog := false } else d

/-- Last part of `nm_individual_address_write`: connect, check, restart, disconnect. -/
def restartSession (sync : Bool) (bus : Bus) (x : Nat) : Out :=
  if 0 < countAt bus x .refuses then
    -- check says "occupied"; `send_data` and then `disconnect()` raise ManagementConnectionRefused
    { res := .refused, tels := refusedTels sync x, acks := [], bus := bus }
  else if 0 < countAt bus x .answers then
    { res := .ok, tels := [.conn x, .data x 0 .ddr, .data x 1 .restart, .disc x],
      acks := List.replicate (countAt bus x .answers) (x, 0), bus := restartAt bus x }
  else
    { res := .err, tels := [.conn x, .data x 0 .ddr, .data x 0 .ddr, .disc x], acks := [], bus := bus }

/-- `nm_individual_address_write(xknx, target)`. -/
def addrWrite (sync : Bool) (bus : Bus) : Out :=
  let c := checkAddress sync bus target           -- (address found, telegrams, T_ACKs)
  let fail : Out := { res := .err, tels := c.2.1 ++ [.bRead], acks := c.2.2, bus := bus }
  match progAddrs bus with
  | [] => fail                               -- no device in programming mode
  | _ :: _ :: _ => fail                      -- raise_if_multiple
  | [p] =>
    if c.1 then
      if p ≠ target then fail                -- address occupied by another device
      else
        let r := restartSession sync bus target   -- device already has the address: restart only
        { r with tels := c.2.1 ++ [.bRead] ++ r.tels, acks := c.2.2 ++ r.acks }
    else
      let r := restartSession sync (writeAddr bus target) target
      { r with tels := c.2.1 ++ [.bRead, .bWrite target] ++ r.tels, acks := c.2.2 ++ r.acks }

/-- `dm_restart(xknx, target)`: nothing is awaited, so the outcome does not depend on the population. -/
def restart (bus : Bus) : Out :=
  { res := .ok, tels := [.conn target, .data target 0 .restart, .disc target], acks := [], bus := restartAt bus target }

/-! ### Histories: several procedures, one after the other, on the same XKNX object and bus -/

inductive Op where
  | check (x : Nat)          -- nm_individual_address_check(x)
  | restartDev (x : Nat)     -- dm_restart(x)
  | read (raiseIfMultiple : Bool)
  | write                    -- nm_individual_address_write(target)
  deriving DecidableEq, Repr

/-- `dm_restart(xknx, x)`: nothing is awaited, so normally the outcome does not depend on the population. Only when a
refusing device's T_Disconnect is processed while the T_Connect send is still awaited (`sync`) does `send_data` find the
connection closed: ManagementConnectionRefused, nothing but T_Connect was sent, nothing is restarted. -/
def restartProc (sync : Bool) (bus : Bus) (x : Nat) : Out :=
  if sync ∧ 0 < countAt bus x .refuses then
    { res := .refused, tels := [.conn x], acks := [], bus := bus }
  else
    { res := .ok, tels := [.conn x, .data x 0 .restart, .disc x], acks := [], bus := restartAt bus x }

/-- One procedure. Nothing but the bus is carried from one procedure to the next: every procedure leaves
`Management` without connection objects and broadcast contexts. -/
def runOp (sync : Bool) (bus : Bus) : Op → Out
  | .check x => { res := .okBool (checkAddress sync bus x).1, tels := (checkAddress sync bus x).2.1,
                  acks := (checkAddress sync bus x).2.2, bus := bus }
  | .restartDev x => restartProc sync bus x
  | .read r => { res := readProg bus r, tels := [.bRead], acks := [], bus := bus }
  | .write => addrWrite sync bus

def runHist (sync : Bool) : Bus → List Op → List Out
  | _, [] => []
  | bus, o :: os => runOp sync bus o :: runHist sync (runOp sync bus o).bus os

/-- The bus after a history. -/
def histBus (sync : Bool) : Bus → List Op → Bus
  | bus, [] => bus
  | bus, o :: os => histBus sync (runOp sync bus o).bus os

/-! ### Serial-number procedures -/

structure SDev where
  addr : Nat
  serial : Nat
  chatty : Bool     -- answers every serial read (with its own serial)
  obeys : Bool      -- takes an address written to its serial
  deriving DecidableEq, Repr

/-- Responses to A_IndividualAddressSerialNumber_Read(s): (source address, serial in the response). -/
def serialResponses (bus : List SDev) (s : Nat) : List (Nat × Nat) :=
  (bus.filter fun d => d.serial = s ∨ d.chatty).map fun d => (d.addr, d.serial)

/-- `nm_individual_address_serial_number_read`: the first response carrying the requested serial. -/
def serialRead (bus : List SDev) (s : Nat) : Option Nat :=
  ((serialResponses bus s).find? fun r => r.2 = s).map (·.1)

def serialWriteBus (bus : List SDev) (s a : Nat) : List SDev :=
  bus.map fun d => if d.serial = s ∧ d.obeys then { d with addr := a } else d

/-- `nm_individual_address_serial_number_write`. -/
def serialWrite (bus : List SDev) (s a : Nat) : Res × List SDev :=
  let bus' := serialWriteBus bus s a
  match serialRead bus' s with
  | none => (.err, bus')
  | some a' => if a' ≠ a then (.err, bus') else (.ok, bus')

/-! ### Authorization -/

/-- `dmp_authorize2_r_co` against a device giving the answers l1, l2, l3 to the successive A_Authorize
requests (free key, client key, free key again). Returns level and number of requests made. -/
def authorize2 (l1 l2 l3 : Nat) : Nat × Nat :=
  if l1 = 0 then (l1, 1)
  else if l2 > l1 then (l3, 3)
  else (l2, 2)

/-! ### Line protocol -/

def addrCh (a : Nat) : String := if a = 0 then "t" else "o"

def Kind.render : Kind → String
  | .ddr => "ddr" | .restart => "restart" | .authFree => "auth:free" | .authKey => "auth:key"

def Tel.render : Tel → String
  | .conn x => s!"C:{addrCh x}"
  | .disc x => s!"X:{addrCh x}"
  | .data x n k => s!"D:{addrCh x}:{n}:{k.render}"
  | .bRead => "B:read"
  | .bWrite a => s!"B:write:{addrCh a}"
  | .bSRead s => s!"B:sread:{s}"
  | .bSWrite s a => s!"B:swrite:{s}:{addrCh a}"

def joinOr (l : List String) : String := if l.isEmpty then "-" else ",".intercalate l

def Res.render : Res → String
  | .ok => "ok"
  | .okBool b => s!"ok:{if b then 1 else 0}"
  | .okAddrs as => "ok:" ++ String.join (as.map addrCh)
  | .okAddr none => "ok:none"
  | .okAddr (some a) => "ok:" ++ addrCh a
  | .okLevel n => s!"ok:{n}"
  | .err => "err" | .refused => "refused" | .timeout => "timeout"

def Dev.render (d : Dev) : String :=
  addrCh d.addr ++ (if d.prog then "1" else "0") ++
    (match d.beh with | .answers => "A" | .silent => "S" | .refuses => "R")

def SDev.render (d : SDev) : String :=
  addrCh d.addr ++ toString d.serial ++ (if d.chatty then "c" else "q") ++ (if d.obeys then "w" else "x")

def renderOut (res : Res) (tels : List Tel) (acks : List (Nat × Nat)) (pop : List String) : String :=
  joinOr (tels.map Tel.render) ++ " +" ++ joinOr (acks.map fun a => s!"A:{addrCh a.1}:{a.2}") ++
    " -> " ++ res.render ++ " | " ++ (if pop.isEmpty then "-" else ";".intercalate pop)

def parseDev (s : String) : Option Dev :=
  match s.toList with
  | [a, p, b] =>
    let addr? := if a = 't' then some 0 else if a = 'o' then some 1 else none
    let prog? := if p = '1' then some true else if p = '0' then some false else none
    let beh? := if b = 'A' then some Beh.answers else if b = 'S' then some Beh.silent
      else if b = 'R' then some Beh.refuses else none
    match addr?, prog?, beh? with
    | some a, some p, some b => some ⟨a, p, b⟩
    | _, _, _ => none
  | _ => none

def parseSDev (s : String) : Option SDev :=
  match s.toList with
  | [a, n, c, w] =>
    let addr? := if a = 't' then some 0 else if a = 'o' then some 1 else none
    let ser? := if n = '1' then some 1 else if n = '2' then some 2 else none
    let ch? := if c = 'c' then some true else if c = 'q' then some false else none
    let ob? := if w = 'w' then some true else if w = 'x' then some false else none
    match addr?, ser?, ch?, ob? with
    | some a, some n, some c, some w => some ⟨a, n, c, w⟩
    | _, _, _, _ => none
  | _ => none

def parsePop {α : Type} (f : String → Option α) (s : String) : Option (List α) :=
  if s = "-" then some [] else (s.splitOn ";").mapM f

def parseAddr (s : String) : Option Nat := if s = "t" then some 0 else if s = "o" then some 1 else none

def showOut (o : Out) : String := renderOut o.res o.tels o.acks (o.bus.map Dev.render)

-- DRIVER: proc => XknxVerif.Procedures.handle
def handle : List String → String
  | ["write", pop] =>
    match parsePop parseDev pop with
    | some bus => showOut (addrWrite false bus)
    | none => "bad-op"
  | ["writes", pop] =>
    match parsePop parseDev pop with
    | some bus => showOut (addrWrite true bus)
    | none => "bad-op"
  | ["check", pop] =>
    match parsePop parseDev pop with
    | some bus =>
      let (found, t, a) := checkAddress false bus target
      renderOut (.okBool found) t a (bus.map Dev.render)
    | none => "bad-op"
  | ["checks", pop] =>
    match parsePop parseDev pop with
    | some bus =>
      let (found, t, a) := checkAddress true bus target
      renderOut (.okBool found) t a (bus.map Dev.render)
    | none => "bad-op"
  | ["read", r, pop] =>
    match parsePop parseDev pop with
    | some bus => renderOut (readProg bus (r == "1")) [.bRead] [] (bus.map Dev.render)
    | none => "bad-op"
  | ["restart", pop] =>
    match parsePop parseDev pop with
    | some bus => showOut (restart bus)
    | none => "bad-op"
  | ["seq", ops, pop] => seqShow false ops pop
  | ["seqs", ops, pop] => seqShow true ops pop
  | ["sread", s, pop] =>
    match parsePop parseSDev pop, s.toNat? with
    | some bus, some s => renderOut (.okAddr (serialRead bus s)) [.bSRead s] [] (bus.map SDev.render)
    | _, _ => "bad-op"
  | ["swrite", s, a, pop] =>
    match parsePop parseSDev pop, s.toNat?, parseAddr a with
    | some bus, some s, some a =>
      let (r, bus') := serialWrite bus s a
      renderOut r [.bSWrite s a, .bSRead s] [] (bus'.map SDev.render)
    | _, _, _ => "bad-op"
  | ["auth2", a, b] =>
    match a.toNat?, b.toNat? with
    | some l1, some l2 => authShow l1 l2 l1
    | _, _ => "bad-op"
  | ["auth2seq", a, b, c] =>
    match a.toNat?, b.toNat?, c.toNat? with
    | some l1, some l2, some l3 => authShow l1 l2 l3
    | _, _, _ => "bad-op"
  | _ => "bad-op"
where
  parseOp (tok : String) : Option Op :=
    match tok.splitOn ":" with
    | ["check", a] => (parseAddr a).map .check
    | ["restart", a] => (parseAddr a).map .restartDev
    | ["read0", _] => some (.read false)
    | ["read1", _] => some (.read true)
    | ["write", "t"] => some .write
    | _ => none
  seqShow (sync : Bool) (ops pop : String) : String :=
    match (ops.splitOn ",").mapM parseOp, parsePop parseDev pop with
    | some os, some bus => " // ".intercalate ((runHist sync bus os).map showOut)
    | _, _ => "bad-op"
  authShow (l1 l2 l3 : Nat) : String :=
    let (lvl, n) := authorize2 l1 l2 l3
    let reqs : List Tel := [.data 0 0 .authFree, .data 0 1 .authKey, .data 0 2 .authFree]
    renderOut (.okLevel lvl) ([.conn 0] ++ reqs.take n ++ [.disc 0]) ((List.range n).map fun i => (0, i))
      [Dev.render ⟨0, false, .answers⟩]

end XknxVerif.Procedures
