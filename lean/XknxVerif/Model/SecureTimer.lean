/-
Model of xknx/io/ip_secure.py : `SecureSequenceTimer` + the dispatch of `SecureGroup.handle_knxipframe` /
`SecureGroup.send`, as a timed monitor over the observable trace (mode R).  Core Lean only.

Time `t` is the reading of `_monotonic_ms()` (integer ms); the timer value is `t + clockDiff`.
The MAC verdicts (`macOk`) come from the harness-side peer and are UNINTERPRETED inputs.
The uniform random delays of `reschedule` are inputs too: an observation that makes the code reschedule
carries the draw `(lo, hi, d)` and the monitor checks `(lo, hi)` against the interval the code must use and
`lo ≤ d ≤ hi`.

Observations (`t` first):
  new latency syncTol                 `SecureGroup(...)` constructed
  conn timer                          `connect()`: `synchronize` sent TimerNotify(timer, fresh tag, own serial)
  rxn timer own tagm macOk draw out   TimerNotify received (own = our serial, tagm = tag of the running/last sync)
  rxw sid timer macOk inner draw out  SecureWrapper received; out ∈ fwd | drop | exc
  rxp svc out                         any other frame received
  snd draw out                        `send(frame)`: out = wrapped timer | errIpsec | errComm (no socket)
  ntf timer draw                      notify timer expired: TimerNotify(timer) sent
  sres ok draw                        `synchronize` finished (reply taken / timed out)
  stop                                `stop()`
  st clockDiff timekeeper schedUpdate authenticated     probe

Left open: message tag / serial of the TimerNotify frames the code sends (checked by the harness, not by the model).
-/
import XknxVerif.Py.Basic
import XknxVerif.Generated.IPSecure

namespace XknxVerif.SecureTimer
open XknxVerif.Generated.IPSecure

def timerLimit : Nat := 281474976710656

inductive Inner where
  | svc (v : Nat)
  | unparsable
  deriving DecidableEq, Repr

inductive RxOut where
  | fwd | drop | exc
  deriving DecidableEq, Repr

inductive TxOut where
  | wrapped (timer : Nat) | errIpsec | errComm
  deriving DecidableEq, Repr

/-- which notify the timer is armed for -/
inductive Sched where
  | keeperPeriodic | followerPeriodic | keeperUpdate | followerUpdate
  deriving DecidableEq, Repr

structure Draw where
  lo : Nat
  hi : Nat
  d : Nat
  deriving DecidableEq, Repr

inductive Obs where
  | new (t latency syncTol : Nat)
  | conn (t : Nat) (timer : Int)
  | rxn (t timer : Nat) (own tagm macOk : Bool) (draw : Option Draw) (out : RxOut)
  | rxw (t sid timer : Nat) (macOk : Bool) (inner : Inner) (draw : Option Draw) (out : RxOut)
  | rxp (t svc : Nat) (out : RxOut)
  | snd (t : Nat) (draw : Option Draw) (out : TxOut)
  | ntf (t : Nat) (timer : Int) (draw : Option Draw)
  | sres (t : Nat) (ok : Bool) (draw : Option Draw)
  | stop (t : Nat)
  | st (t : Nat) (clockDiff : Int) (timekeeper schedUpdate authenticated : Bool)
  deriving DecidableEq, Repr

def Obs.time : Obs → Nat
  | .new t _ _ | .conn t _ | .rxn t _ _ _ _ _ _ | .rxw t _ _ _ _ _ _ | .rxp t _ _ | .snd t _ _ | .ntf t _ _ | .sres t _ _
  | .stop t | .st t _ _ _ _ => t

structure State where
  now : Nat := 0
  /-- datagram socket present -/
  isOpen : Bool := false
  /-- `latency_tolerance_ms`, `sync_latency_tolerance_ms` -/
  latency : Nat := 1000
  syncTol : Nat := 100
  /-- `_clock_difference` -/
  clockDiff : Int := 0
  timekeeper : Bool := false
  schedUpdate : Bool := false
  /-- `timer_authenticated` -/
  authenticated : Bool := false
  /-- `_expected_notify_handler`: none | waiting for the reply | reply taken, `synchronize` not yet resumed -/
  expected : Option (Option Nat) := none
  syncDeadline : Nat := 0
  /-- when the notify timer fires -/
  notifyAt : Option Nat := none
  deriving DecidableEq, Repr

def init : State := {}

/-- `current_timer_value()` -/
def local_ (s : State) : Int := (s.now : Int) + s.clockDiff

/-- the `[min, max]` interval of `reschedule`, in ms -/
def interval (s : State) : Sched → Nat × Nat
  | .keeperPeriodic => (minDelayKeeperPeriodicMs, minDelayKeeperPeriodicMs + 3 * s.syncTol)
  | .followerPeriodic => (minDelayKeeperPeriodicMs + 4 * s.syncTol, minDelayKeeperPeriodicMs + 14 * s.syncTol)
  | .keeperUpdate => (minDelayKeeperUpdateMs, minDelayKeeperUpdateMs + s.syncTol)
  | .followerUpdate => (minDelayKeeperUpdateMs + 2 * s.syncTol, minDelayKeeperUpdateMs + 12 * s.syncTol)

/-- `synchronize` gives up after max follower-update delay + 2·latency -/
def syncTimeout (s : State) : Nat := minDelayKeeperUpdateMs + 12 * s.syncTol + 2 * s.latency

/-- `reschedule(update)`: sets `sched_update`, picks the interval by (update, timekeeper) -/
def resched (s : State) (update : Bool) : State × Option Sched :=
  ({ s with schedUpdate := update },
   some (if update then (if s.timekeeper then .keeperUpdate else .followerUpdate)
         else (if s.timekeeper then .keeperPeriodic else .followerPeriodic)))

/-- where a received timer value lies relative to the local one (KNX 03.08.09 §2.2.2.3.2.5, events E1-E8) -/
inductive TimerClass where
  | ahead        -- received > local
  | inSync       -- local − sync tolerance < received ≤ local
  | inLatency    -- local − latency tolerance < received ≤ local − sync tolerance
  | tooOld       -- received ≤ local − latency tolerance
  deriving DecidableEq, Repr

def classify (s : State) (timer : Nat) : TimerClass :=
  if local_ s < (timer : Int) then .ahead
  else if local_ s - (s.syncTol : Int) < (timer : Int) then .inSync
  else if local_ s - (s.latency : Int) < (timer : Int) then .inLatency
  else .tooOld

/-- the clock difference after following a timer value that is ahead -/
def follow (s : State) (timer : Nat) : State :=
  { s with clockDiff := s.clockDiff + ((timer : Int) - local_ s) }

/-- `handle_timer_notify` -/
def rxNotify (s : State) (timer : Nat) (own tagm macOk : Bool) : State × Option Sched :=
  if !macOk then (s, none)                                           -- invalid MAC: discarded
  else if s.expected.isSome && own && tagm then
    -- reply to our synchronisation request; a second reply before `synchronize` resumes is ignored
    (match s.expected with
     | some none => { s with expected := some (some timer) }
     | _ => s, none)
  else match classify s timer with
    | .ahead => resched { follow s timer with timekeeper := false } false          -- E1
    | .inSync => resched { s with timekeeper := false } false                      -- E2
    | .inLatency => (s, none)                                                      -- E3
    | .tooOld => if s.schedUpdate then (s, none) else resched s true               -- E4

/-- `validate_secure_wrapper` -/
def validate (s : State) (timer : Nat) : Bool × State × Option Sched :=
  match classify s timer with
  | .ahead =>                                                                      -- E5
    if s.schedUpdate then (true, follow s timer, none)
    else (true, (resched (follow s timer) false).1, (resched (follow s timer) false).2)
  | .inSync =>                                                                     -- E6
    if s.schedUpdate then (true, s, none) else (true, (resched s false).1, (resched s false).2)
  | .inLatency => (true, s, none)                                                  -- E7
  | .tooOld =>                                                                     -- E8
    if s.schedUpdate then (false, s, none) else (false, (resched s true).1, (resched s true).2)

/-- the frame passes `decrypt_frame` on an authenticated timer -/
def wrapperOk (s : State) (sid : Nat) (macOk : Bool) (inner : Inner) : Bool :=
  s.authenticated && sid == 0 && macOk &&
    (match inner with
     | .unparsable => false
     | .svc v => !forbiddenWrapped.contains v)

/-- `SecureGroup.handle_knxipframe` for a SecureWrapper: `decrypt_frame`, then `validate_secure_wrapper` -/
def rxWrapped (s : State) (sid timer : Nat) (macOk : Bool) (inner : Inner) : RxOut × State × Option Sched :=
  if wrapperOk s sid macOk inner then
    (if (validate s timer).1 then .fwd else .drop, (validate s timer).2.1, (validate s timer).2.2)
  else (.drop, s, none)

/-- plain frames: only discovery and self-description services pass -/
def rxPlain (_s : State) (svc : Nat) : RxOut := if plainMulticast.contains svc then .fwd else .drop

/-- `SecureGroup.send` → `get_for_outgoing_secure_wrapper` -/
def send (s : State) : TxOut × State × Option Sched :=
  let r := if !s.schedUpdate then resched s false else (s, none)
  let out := if 0 ≤ local_ s ∧ local_ s < (timerLimit : Int) then
      (if s.isOpen then TxOut.wrapped (local_ s).toNat else .errComm) else .errIpsec
  (out, r.1, r.2)

/-- take the draw the observation carries for the reschedule the code did (or must not have done) -/
def applyDraw (s : State) (k : Option Sched) (draw : Option Draw) : Option State :=
  match k, draw with
  | none, none => some s
  | some k, some dr =>
    if (dr.lo, dr.hi) = interval s k ∧ dr.lo ≤ dr.d ∧ dr.d ≤ dr.hi then some { s with notifyAt := some (s.now + dr.d) }
    else none
  | _, _ => none

/-- the notify timer should have fired -/
def notifyOverdue (s : State) (t : Nat) : Bool :=
  match s.notifyAt with
  | some k => decide (k < t)
  | none => false

/-- `synchronize` should have timed out / resumed with the reply it holds -/
def syncOverdue (s : State) (t : Nat) : Bool :=
  match s.expected with
  | some none => decide (s.syncDeadline < t)
  | some (some _) => decide (s.now < t)
  | none => false

/-- Let time pass; whatever the code does by itself must not be overdue. -/
def advance (s : State) (t : Nat) : Option State :=
  if t < s.now ∨ notifyOverdue s t = true ∨ syncOverdue s t = true then none
  else some { s with now := t }

def step? (s0 : State) (o : Obs) : Option State :=
  match advance s0 o.time with
  | none => none
  | some s =>
  match o with
  | .new _ latency syncTol =>
    -- the rounding `round(latency / 100 * 10)` is taken from the code; it must be latency/10 rounded
    if s.expected = none ∧ s.notifyAt = none ∧ s.authenticated = false ∧
        syncTol * 10 ≤ latency + 5 ∧ latency ≤ syncTol * 10 + 5 then
      some { s with latency := latency, syncTol := syncTol }
    else none
  | .conn _ timer =>
    if s.expected = none ∧ timer = local_ s then
      some { s with isOpen := true, expected := some none, syncDeadline := s.now + syncTimeout s }
    else none
  | .rxn _ timer own tagm macOk draw out =>
    if out = .drop then applyDraw (rxNotify s timer own tagm macOk).1 (rxNotify s timer own tagm macOk).2 draw else none
  | .rxw _ sid timer macOk inner draw out =>
    if out = (rxWrapped s sid timer macOk inner).1 then
      applyDraw (rxWrapped s sid timer macOk inner).2.1 (rxWrapped s sid timer macOk inner).2.2 draw
    else none
  | .rxp _ svc out =>
    if svc ≠ secureWrapper ∧ svc ≠ timerNotify ∧ out = rxPlain s svc then some s else none
  | .snd _ draw out =>
    if out = (send s).1 then applyDraw (send s).2.1 (send s).2.2 draw else none
  | .ntf t timer draw =>
    -- `_notify_timer_expired`: TimerNotify with the current timer value, become timekeeper, periodic reschedule
    if s.notifyAt = some t ∧ timer = local_ s then
      applyDraw (resched { s with timekeeper := true, notifyAt := none } false).1
                (resched { s with timekeeper := true, notifyAt := none } false).2 draw
    else none
  | .sres t ok draw =>
    match s.expected with
    | some (some v) =>
      -- `update(new_value)`: clock difference := reply − monotonic now
      if ok then
        applyDraw (resched { s with clockDiff := (v : Int) - (t : Int), expected := none, authenticated := true } false).1
                  (resched { s with clockDiff := (v : Int) - (t : Int), expected := none, authenticated := true } false).2 draw
      else none
    | some none =>
      if !ok ∧ s.syncDeadline = t then
        applyDraw (resched { s with timekeeper := true, expected := none, authenticated := true } false).1
                  (resched { s with timekeeper := true, expected := none, authenticated := true } false).2 draw
      else none
    | none => none
  | .stop _ => some { s with notifyAt := none, expected := none, isOpen := false }
  | .st _ cd tk su au =>
    if cd = s.clockDiff ∧ tk = s.timekeeper ∧ su = s.schedUpdate ∧ au = s.authenticated then some s else none

def runFrom (s : State) : List Obs → Option State
  | [] => some s
  | o :: os => match step? s o with
    | none => none
    | some s' => runFrom s' os

def accepts (tr : List Obs) : Prop := (runFrom init tr).isSome

instance (tr : List Obs) : Decidable (accepts tr) := by unfold accepts; infer_instance

def firstReject (s : State) (i : Nat) : List Obs → Option Nat
  | [] => none
  | o :: os => match step? s o with
    | none => some i
    | some s' => firstReject s' (i + 1) os

-- ---------------------------------------------------------------------------------------------
-- line protocol

def parseBool (s : String) : Option Bool :=
  if s == "1" then some true else if s == "0" then some false else none

def parseInt (s : String) : Option Int :=
  if s.startsWith "-" then (s.drop 1).toNat?.map (fun n => -(n : Int)) else s.toNat?.map (fun n => (n : Int))

def parseRxOut (s : String) : Option RxOut :=
  if s == "f" then some .fwd else if s == "d" then some .drop else if s.startsWith "x" then some .exc else none

def parseTxOut (s : String) : Option TxOut :=
  if s == "e:ipsec" then some .errIpsec
  else if s == "e:comm" then some .errComm
  else if s.startsWith "w" then (s.drop 1).toNat?.map .wrapped
  else none

def parseInner (s : String) : Option Inner :=
  if s == "u" then some .unparsable
  else if s.startsWith "s" then (s.drop 1).toNat?.map .svc
  else none

/-- `-` or `lo:hi:d` -/
def parseDraw (s : String) : Option (Option Draw) :=
  if s == "-" then some none
  else match s.splitOn ":" with
    | [a, b, c] => do some (some ⟨← a.toNat?, ← b.toNat?, ← c.toNat?⟩)
    | _ => none

def parseObs (tok : String) : Option Obs :=
  match tok.splitOn "," with
  | ["new", t, l, s] => do some (.new (← t.toNat?) (← l.toNat?) (← s.toNat?))
  | ["conn", t, tm] => do some (.conn (← t.toNat?) (← parseInt tm))
  | ["rxn", t, tm, own, tagm, m, dr, out] => do
    some (.rxn (← t.toNat?) (← tm.toNat?) (← parseBool own) (← parseBool tagm) (← parseBool m) (← parseDraw dr) (← parseRxOut out))
  | ["rxw", t, sid, tm, m, inner, dr, out] => do
    some (.rxw (← t.toNat?) (← sid.toNat?) (← tm.toNat?) (← parseBool m) (← parseInner inner) (← parseDraw dr) (← parseRxOut out))
  | ["rxp", t, svc, out] => do some (.rxp (← t.toNat?) (← svc.toNat?) (← parseRxOut out))
  | ["snd", t, dr, out] => do some (.snd (← t.toNat?) (← parseDraw dr) (← parseTxOut out))
  | ["ntf", t, tm, dr] => do some (.ntf (← t.toNat?) (← parseInt tm) (← parseDraw dr))
  | ["sres", t, ok, dr] => do some (.sres (← t.toNat?) (← parseBool ok) (← parseDraw dr))
  | ["stop", t] => do some (.stop (← t.toNat?))
  | ["st", t, cd, tk, su, au] => do
    some (.st (← t.toNat?) (← parseInt cd) (← parseBool tk) (← parseBool su) (← parseBool au))
  | _ => none

-- DRIVER: c30 => XknxVerif.SecureTimer.handle
/-- `monitor <obs>;<obs>;…` → `accept` | `reject <index>` -/
def handle : List String → String
  | ["monitor", tr] =>
    match (tr.splitOn ";").mapM parseObs with
    | none => "bad-op"
    | some obs =>
      match firstReject init 0 obs with
      | none => "accept"
      | some i => s!"reject {i}"
  | _ => "bad-op"

end XknxVerif.SecureTimer
