/-
C41 — ExposeSensor: cooldown, periodic sending, read requests, skip-unchanged.  Mode-R monitor.

Mirrors xknx/devices/expose_sensor.py (`set`, `initialize_value`, `process_group_read`,
`process_group_write`, `_cooldown_send` (after the fix: a cleared value is never sent),
`_restart_cooldown`, `_periodic_send_impl`) and the parts of xknx/core/task_registry.py they use
(`Task`: `wait_before_start`, `wait_for_connection`, `repeat_after = 0`, `restart_after_reconnect`;
`TaskRegistry.start_task` = cancel + restart).  Payloads are integers, times integer microseconds.

A send that leaves through the interface is one observable output `w`/`r` (GroupValueWrite /
GroupValueResponse) and is processed by the device at once (`last` := payload, periodic task restarted):
the stub interface confirms immediately and no rate limit is configured.  While disconnected a send fails
(CommunicationError) and changes nothing.

Orders left open: the outputs of ONE atomic reaction may appear in any order.
Strict (timer-first discipline of the harness): a timer due at `t` has fired before an input or sample
taken at `t`.  Cooldown and periodic task due at the same instant: both orders are accepted (`tieOpt`).
Core Lean only.
-/
import XknxVerif.Model.TraceRun

namespace XknxVerif.Expose

structure Cfg where
  /-- `cooldown` in µs, 0 = no cooldown task -/
  cool : Nat
  /-- `periodic_send` in µs, 0 = no periodic task -/
  per : Nat
  /-- `respond_to_read` -/
  respond : Bool
  deriving DecidableEq, Repr

inductive Out where
  /-- GroupValueWrite with payload `p` left through the interface at `t` -/
  | w (p : Nat) (t : Nat)
  /-- GroupValueResponse -/
  | r (p : Nat) (t : Nat)
  deriving DecidableEq, Repr

def Out.time : Out → Nat
  | .w _ t | .r _ t => t

def Out.payload : Out → Nat
  | .w p _ | .r p _ => p

inductive Obs where
  /-- `await set(v, skip_unchanged)`, `p = enc v` -/
  | set (p : Nat) (skip : Bool) (t : Nat)
  /-- `initialize_value(v)`; `none` = `None` -/
  | init (p : Option Nat) (t : Nat)
  /-- incoming GroupValueRead -/
  | read (t : Nat)
  /-- incoming GroupValueWrite / GroupValueResponse from another device -/
  | bus (p : Nat) (t : Nat)
  /-- connection state changed -/
  | conn (up : Bool) (t : Nat)
  | out (o : Out)
  /-- sample of the value the device holds (`resolve_state()` re-encoded) at a quiescent instant -/
  | q (p : Option Nat) (t : Nat)
  | fin (t : Nat)
  deriving DecidableEq, Repr

def Obs.time : Obs → Nat
  | .set _ _ t | .init _ t | .read t | .bus _ t | .conn _ t | .q _ t | .fin t => t
  | .out o => o.time

/-- Why the value set last is known to have been on the bus. -/
inductive Why where
  /-- we sent it (the output is in the trace) -/
  | sent
  /-- another device wrote it -/
  | other
  /-- it already was the bus value when it was set -/
  | already
  deriving DecidableEq, Repr

structure St where
  now : Nat := 0
  /-- `_payload_after_cooldown` -/
  pac : Option Nat := none
  /-- `sensor_value.last_payload` -/
  last : Option Nat := none
  /-- cooldown task sleeping (`wait_before_start`) until -/
  cd : Option Nat := none
  /-- cooldown task blocked in `connected.wait()` -/
  cdWait : Bool := false
  /-- periodic task sleeping until -/
  per : Option Nat := none
  conn : Bool := true
  expect : List Out := []
  /-- an output that MAY still be observed at this instant: when cooldown task and periodic task are due at the
  same instant and the cooldown task happens to run first, it writes the deferred value too (second, identical write) -/
  opt : List Out := []
  -- ghost (never read by the monitor's decisions)
  /-- times of the update-caused writes (immediate `set` or cooldown task), most recent first -/
  uw : List Nat := []
  /-- time of the last update that was taken (a `set` that was not skipped) -/
  tSet : Option Nat := none
  /-- connected without interruption since `tSet` -/
  connOk : Bool := false
  /-- first moment since `tSet` at which the bus value equalled the value set, and why -/
  onBus : Option (Nat × Why) := none
  /-- all outputs observed so far, most recent first -/
  log : List Out := []
  deriving DecidableEq, Repr

/-- The device right after `xknx.start()`: the periodic task (if configured) has been started. -/
def init (c : Cfg) (connected : Bool) : St :=
  { conn := connected, per := if c.per != 0 then some c.per else none }

/-- Cooldown task not `done()`. -/
def St.cdRunning (s : St) : Bool := s.cd.isSome || s.cdWait

/-- Ghost bookkeeping after any change of `last`/`pac`: note the first moment the value set is on the bus. -/
def noteOnBus (s : St) (t : Nat) (why : Why) : St :=
  if s.onBus.isNone && s.tSet.isSome && s.last == s.pac then { s with onBus := some (t, why) } else s

/-- `send_raw(p)` at `t` and — when connected — the processing of the outgoing telegram.
`upd`: the write is caused by an update (immediate `set` or cooldown task). -/
def send (c : Cfg) (s : St) (p : Nat) (resp upd : Bool) (t : Nat) : St × List Out :=
  if s.conn then
    let s1 := { s with last := some p,
                       per := if c.per != 0 then some (t + c.per) else s.per,
                       uw := if upd then t :: s.uw else s.uw }
    (noteOnBus s1 t .sent, [if resp then .r p t else .w p t])
  else (s, [])

/-- `_restart_cooldown()` = `start_task(cooldown)`. -/
def restartCd (c : Cfg) (s : St) (t : Nat) : St :=
  if c.cool != 0 then { s with cd := some (t + c.cool), cdWait := false } else s

/-- The update is taken: `_payload_after_cooldown = payload` (ghost: a new obligation starts). -/
def takeUpdate (s : St) (p : Nat) (t : Nat) : St :=
  { s with pac := some p, tSet := some t, connOk := s.conn, onBus := none }

/-- `start_task(cooldown)` for a task that is not running. -/
def startCd (c : Cfg) (s : St) (t : Nat) : St := { s with cd := some (t + c.cool) }

/-- `await set(v, skip_unchanged)`. -/
def doSet (c : Cfg) (s : St) (p : Nat) (skip : Bool) (t : Nat) : St × List Out :=
  if skip && s.pac == some p then (s, [])
  else
    let s := noteOnBus (takeUpdate s p t) t .already
    if c.cool != 0 then
      if s.cdRunning then (s, [])
      else send c (startCd c s t) p false true t
    else send c s p false true t

/-- `initialize_value(v)`. -/
def doInit (s : St) (p : Option Nat) : St :=
  { s with last := p, pac := p, tSet := none, onBus := none, connOk := false }

/-- `process_group_read`. -/
def doRead (c : Cfg) (s : St) (t : Nat) : St × List Out :=
  if !c.respond then (s, [])
  else match s.pac with
    | some p =>
      let r := send c s p true false t
      (restartCd c r.1 t, r.2)
    | none =>
      match s.last with
      | some l => send c s l true false t
      | none => (s, [])

/-- incoming GroupValueWrite/Response of another device. -/
def doBus (s : St) (p : Nat) (t : Nat) : St :=
  noteOnBus { s with last := some p } t .other

/-- `connection_state_changed`; a repeated state is ignored. The periodic task follows the connection
(`restart_after_reconnect`); a cooldown task blocked on the connection runs its target. -/
def clearCd (s : St) : St := { s with cd := none, cdWait := false }

/-- the cooldown task loops: next firing one cooldown later -/
def armCd (c : Cfg) (s : St) (t : Nat) : St := { s with cd := some (t + c.cool), cdWait := false }

def cooldownTarget (c : Cfg) (s : St) (t : Nat) : St × List Out :=
  match s.pac with
  | none => (clearCd s, [])
  | some p =>
    if s.last == some p then (clearCd s, [])
    else send c (armCd c s t) p false true t

/-- connection re-established: the periodic task is restarted -/
def connUp (c : Cfg) (s : St) (t : Nat) : St :=
  { s with conn := true, per := if c.per != 0 then some (t + c.per) else none }

def connDown (s : St) : St := { s with conn := false, per := none, connOk := false }

def doConn (c : Cfg) (s : St) (up : Bool) (t : Nat) : St × List Out :=
  if s.conn == up then (s, [])
  else if up then
    if s.cdWait then cooldownTarget c (connUp c s t) t else (connUp c s t, [])
  else (connDown s, [])

/-- the cooldown task finds the connection down after its sleep and blocks -/
def waitCd (s : St) : St := { s with cd := none, cdWait := true }

/-- the periodic task loops -/
def perLoop (c : Cfg) (s : St) (t : Nat) : St := { s with per := some (t + c.per) }

/-- The cooldown task's sleep ends at `t`. -/
def fireCd (c : Cfg) (s : St) (t : Nat) : St × List Out :=
  if s.conn then cooldownTarget c s t else (waitCd s, [])

/-- The periodic task's sleep ends at `t`. -/
def firePer (c : Cfg) (s : St) (t : Nat) : St × List Out :=
  match s.pac with
  | some p =>
    let r := send c (perLoop c s t) p false false t
    (restartCd c r.1 t, r.2)
  | none => (perLoop c s t, [])

def due (t : Nat) (incl : Bool) (d : Nat) : Bool := if incl then d ≤ t else d < t

/-- The next timer to fire (at equal deadlines the periodic task is taken first, see `tieOpt`). -/
inductive Timer where
  | cd (d : Nat) | per (d : Nat)
  deriving DecidableEq, Repr

def nextTimer (s : St) : Option Timer :=
  match s.cd, s.per with
  | some a, some b => if a < b then some (.cd a) else some (.per b)
  | some a, none => some (.cd a)
  | none, some b => some (.per b)
  | none, none => none

/-- Move the clock. -/
def tick (s : St) (t : Nat) : St := { s with now := t }

/-- A timer fires at its deadline. -/
def fire (c : Cfg) (s : St) : Timer → St × List Out
  | .cd d => fireCd c (tick s d) d
  | .per d => firePer c (tick s d) d

def Timer.at : Timer → Nat
  | .cd d | .per d => d

/-- Let time pass up to `t`: timers that are due and fire without observable output are applied in
deadline order; a due timer with observable output means an output was missed → reject. -/
def advance (c : Cfg) (t : Nat) (incl : Bool) : Nat → St → Option St
  | 0, _ => none
  | fuel + 1, s =>
    match nextTimer s with
    | none => some s
    | some tm =>
      if due t incl tm.at then
        let (s', outs) := fire c s tm
        if outs.isEmpty then advance c t incl fuel s' else none
      else some s

/-- Enough fuel for every silent firing up to `t`: the periodic task fires at most once per period and
each firing can restart the cooldown task, which then fires once. -/
def fuelFor (c : Cfg) (s : St) (t : Nat) : Nat :=
  (if c.per != 0 then 2 * ((t - s.now) / c.per) else 0) + 8

def react (r : St × List Out) : St :=
  { r.1 with expect := r.2, opt := [] }

/-- Cooldown task and periodic task due at the same instant `d`.  Both tasks run before any frame is processed.
Periodic first: it writes the value set and restarts (= cancels) the cooldown task — one write.  Cooldown first:
it writes the deferred value (if it differs from the bus value) and then the periodic task writes it again — two
identical writes.  The state afterwards is the same; so the monitor fires the periodic task and allows ONE more
identical write, which it books as update-caused. -/
def tieOpt (s : St) : Timer → List Out
  | .per d =>
    if s.cd == some d && s.conn then
      match s.pac with
      | some p => if s.last == some p then [] else [.w p d]
      | none => []
    else []
  | .cd _ => []

/-- An output observed while nothing is expected: the next timer, due at exactly `t`, fires. -/
def fireAt (c : Cfg) (s : St) (o : Out) (t : Nat) : Option St :=
  match nextTimer s with
  | none => none
  | some tm =>
    if tm.at == t then
      let (s', outs) := fire c s tm
      if outs.contains o then
        some { s' with expect := outs.erase o, log := o :: s'.log, opt := tieOpt s tm }
      else none
    else none

def inputReaction (c : Cfg) (s : St) : Obs → Option (St × List Out)
  | .set p skip t => some (doSet c s p skip t)
  | .init p _ => some (doInit s p, [])
  | .read t => some (doRead c s t)
  | .bus p t => some (doBus s p t, [])
  | .conn up t => some (doConn c s up t)
  | _ => none

def sampleOk (s : St) : Obs → Option Bool
  | .q p _ => some (s.last == p)
  | .fin _ => some true
  | _ => none

def step? (c : Cfg) (s : St) (o : Obs) : Option St :=
  if o.time < s.now then none else
  match o with
  | .out x =>
    if !s.expect.isEmpty then
      (if x.time == s.now && s.expect.contains x then
        some { s with expect := s.expect.erase x, log := x :: s.log }
      else none)
    else if x.time == s.now && s.opt.contains x then
      -- the optional second write of a cooldown/periodic tie: caused by the cooldown task
      some { s with opt := [], uw := s.now :: s.uw, log := x :: s.log }
    else
      (advance c x.time false (fuelFor c s x.time) s).bind fun s1 => fireAt c s1 x x.time
  | o =>
    if !s.expect.isEmpty then none else
    (advance c o.time true (fuelFor c s o.time) s).bind fun s1 =>
      match sampleOk s1 o with
      | some ok => if ok then some { tick s1 o.time with opt := [] } else none
      | none => (inputReaction c (tick s1 o.time) o).map react

def accepts (c : Cfg) (connected : Bool) (tr : List Obs) : Bool :=
  (TraceRun.run? (step? c) (init c connected) tr).isSome

/-! ### Vocabulary of the property statements (functions of the observed trace) -/

/-- What the trace says about updates and the connection (pure function of the inputs). -/
structure Track where
  /-- payload set most recently (`set` of any kind, or `initialize_value`) -/
  lastSet : Option Nat := none
  /-- time of the last update that had to be taken: a `set` that was not (skip_unchanged ∧ equal to the
  value set last); `initialize_value` clears it (the value counts as sent) -/
  tSet : Option Nat := none
  conn : Bool
  /-- connected without interruption since `tSet` -/
  connOk : Bool := false
  deriving DecidableEq, Repr

def track1 (k : Track) : Obs → Track
  | .set p skip t =>
    if skip && k.lastSet == some p then k else { k with lastSet := some p, tSet := some t, connOk := k.conn }
  | .init p _ => { k with lastSet := p, tSet := none, connOk := false }
  | .conn up _ =>
    if k.conn == up then k else if up then { k with conn := true } else { k with conn := false, connOk := false }
  | _ => k

def track (connected : Bool) (tr : List Obs) : Track := tr.foldl track1 { conn := connected }

def outsOf (tr : List Obs) : List Out :=
  tr.filterMap fun o => match o with | .out x => some x | _ => none

/-! ### Line protocol -/

def parseBool (s : String) : Option Bool :=
  if s == "1" then some true else if s == "0" then some false else none

def parseOptNat (s : String) : Option (Option Nat) :=
  if s == "-" then some none else s.toNat?.map some

def parseCfg (s : String) : Option (Cfg × Bool) :=
  match s.splitOn ":" with
  | [a, b, r, k] => do pure (⟨← a.toNat?, ← b.toNat?, ← parseBool r⟩, ← parseBool k)
  | _ => none

def parseObs (s : String) : Option Obs :=
  match s.splitOn "," with
  | ["set", p, k, t] => do pure (.set (← p.toNat?) (← parseBool k) (← t.toNat?))
  | ["init", p, t] => do pure (.init (← parseOptNat p) (← t.toNat?))
  | ["read", t] => do pure (.read (← t.toNat?))
  | ["bus", p, t] => do pure (.bus (← p.toNat?) (← t.toNat?))
  | ["conn", b, t] => do pure (.conn (← parseBool b) (← t.toNat?))
  | ["W", p, t] => do pure (.out (.w (← p.toNat?) (← t.toNat?)))
  | ["R", p, t] => do pure (.out (.r (← p.toNat?) (← t.toNat?)))
  | ["q", p, t] => do pure (.q (← parseOptNat p) (← t.toNat?))
  | ["fin", t] => do pure (.fin (← t.toNat?))
  | _ => none

def parseTrace (s : String) : Option (List Obs) :=
  if s == "-" then some [] else (s.splitOn ";").mapM parseObs

-- DRIVER: c41 => XknxVerif.Expose.handle
/-- `monitor <cool:per:respond:connected> <obs;obs;…>` → `accept` | `reject@<index>` -/
def handle : List String → String
  | ["monitor", cfg, tr] =>
    match parseCfg cfg, parseTrace tr with
    | some (c, k), some t =>
      match TraceRun.firstReject (step? c) (init c k) t 0 with
      | none => "accept"
      | some i => s!"reject@{i}"
    | _, _ => "bad-op"
  | _ => "bad-op"

end XknxVerif.Expose
