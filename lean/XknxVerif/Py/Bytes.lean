/-
Python `bytes` as `List Nat` (each element < 256 by the `Bytes.WF` predicate)
with the slicing / integer conversions xknx uses.  Core Lean only.
-/
import XknxVerif.Py.Basic

namespace XknxVerif

abbrev Bytes := List Nat

namespace Bytes

/-- every element is an octet -/
def WF (b : Bytes) : Prop := ∀ x ∈ b, x < 256

instance (b : Bytes) : Decidable (WF b) := by unfold WF; infer_instance

/-- `raw[a:b]` for `0 ≤ a`, clamping like Python. -/
def slice (b : Bytes) (lo hi : Nat) : Bytes := (b.take hi).drop lo

/-- `raw[a:]` -/
def from_ (b : Bytes) (lo : Nat) : Bytes := b.drop lo

/-- `raw[i]` (IndexError ⇒ none) for `i ≥ 0`. -/
def get? (b : Bytes) (i : Nat) : Option Nat := b[i]?

/-- `int.from_bytes(b, "big")` -/
def toNatBE : Bytes → Nat := fun b => b.foldl (fun acc x => acc * 256 + x) 0

/-- `n.to_bytes(len, "big")` (caller checks range). -/
def ofNatBE : (len : Nat) → Nat → Bytes
  | 0, _ => []
  | len + 1, n => ofNatBE len (n / 256) ++ [n % 256]

theorem ofNatBE_length (len n : Nat) : (ofNatBE len n).length = len := by
  induction len generalizing n with
  | zero => rfl
  | succ k ih => simp [ofNatBE, ih]

theorem ofNatBE_wf (len n : Nat) : WF (ofNatBE len n) := by
  induction len generalizing n with
  | zero => intro x hx; simp [ofNatBE] at hx
  | succ k ih =>
    intro x hx
    simp only [ofNatBE, List.mem_append, List.mem_singleton] at hx
    rcases hx with h | h
    · exact ih _ x h
    · omega

theorem toNatBE_append_single (b : Bytes) (x : Nat) : toNatBE (b ++ [x]) = toNatBE b * 256 + x := by
  simp [toNatBE, List.foldl_append]

theorem toNatBE_ofNatBE (len n : Nat) (h : n < 256 ^ len) : toNatBE (ofNatBE len n) = n := by
  induction len generalizing n with
  | zero => simp at h; subst h; rfl
  | succ k ih =>
    rw [ofNatBE, toNatBE_append_single, ih]
    · omega
    · rw [Nat.pow_succ] at h; omega

def u16 (hi lo : Nat) : Nat := hi * 256 + lo

end Bytes
end XknxVerif
