/-
Bit strings (`List Bool`, most significant bit first) and their conversions
to naturals and to octet strings.  Core Lean only.
-/
import XknxVerif.Py.Bytes

namespace XknxVerif

abbrev Bits := List Bool

namespace Bits

/-- `w` bits of `n`, most significant first (value taken modulo `2^w`). -/
def ofNat : (w : Nat) → Nat → Bits
  | 0, _ => []
  | w + 1, n => ofNat w (n / 2) ++ [n % 2 == 1]

/-- Big-endian value of a bit string. -/
def toNat (bs : Bits) : Nat := bs.foldl (fun acc b => 2 * acc + b.toNat) 0

theorem rev_ind {α} {p : List α → Prop} (h0 : p []) (h1 : ∀ xs x, p xs → p (xs ++ [x]))
    (l : List α) : p l := by
  have : ∀ r : List α, p r.reverse := by
    intro r
    induction r with
    | nil => exact h0
    | cons x xs ih => rw [List.reverse_cons]; exact h1 _ _ ih
  simpa using this l.reverse

@[simp] theorem ofNat_length (w n : Nat) : (ofNat w n).length = w := by
  induction w generalizing n with
  | zero => rfl
  | succ k ih => simp [ofNat, ih]

theorem toNat_append_single (bs : Bits) (b : Bool) : toNat (bs ++ [b]) = 2 * toNat bs + b.toNat := by
  simp [toNat, List.foldl_append]

theorem toNat_ofNat (w n : Nat) (h : n < 2 ^ w) : toNat (ofNat w n) = n := by
  induction w generalizing n with
  | zero => simp at h; subst h; rfl
  | succ k ih =>
    rw [ofNat, toNat_append_single, ih]
    · rcases Nat.mod_two_eq_zero_or_one n with h0 | h1
      · simp [h0]; omega
      · simp [h1]; omega
    · rw [Nat.pow_succ] at h; omega

theorem toNat_lt (bs : Bits) : toNat bs < 2 ^ bs.length := by
  induction bs using rev_ind with
  | h0 => simp [toNat]
  | h1 xs b ih =>
    rw [toNat_append_single, List.length_append, List.length_singleton, Nat.pow_succ]
    cases b <;> simp <;> omega

theorem ofNat_toNat (bs : Bits) : ofNat bs.length (toNat bs) = bs := by
  induction bs using rev_ind with
  | h0 => rfl
  | h1 xs b ih =>
    rw [toNat_append_single, List.length_append, List.length_singleton, ofNat]
    have h1 : (2 * toNat xs + b.toNat) / 2 = toNat xs := by cases b <;> simp <;> omega
    have h2 : ((2 * toNat xs + b.toNat) % 2 == 1) = b := by cases b <;> simp <;> omega
    rw [h1, h2, ih]

theorem ofNat_toNat' (bs : Bits) (w : Nat) (h : bs.length = w) : ofNat w (toNat bs) = bs := by
  subst h; exact ofNat_toNat bs

/-- Octets to bits. -/
def ofBytes (bs : Bytes) : Bits := bs.flatMap (ofNat 8)

/-- Exactly `n` octets from the front of a bit string (caller checks the length). -/
def toBytesN : (n : Nat) → Bits → Bytes
  | 0, _ => []
  | n + 1, bits => toNat (bits.take 8) :: toBytesN n (bits.drop 8)

/-- Bits to octets; `none` unless the length is a multiple of 8. -/
def toBytes? (bits : Bits) : Option Bytes :=
  if bits.length % 8 = 0 then some (toBytesN (bits.length / 8) bits) else none

@[simp] theorem ofBytes_nil : ofBytes [] = [] := rfl
@[simp] theorem ofBytes_cons (x : Nat) (xs : Bytes) : ofBytes (x :: xs) = ofNat 8 x ++ ofBytes xs := by
  simp [ofBytes]

@[simp] theorem ofBytes_length (bs : Bytes) : (ofBytes bs).length = 8 * bs.length := by
  induction bs with
  | nil => rfl
  | cons x xs ih => simp [ih]; omega

theorem ofBytes_append (a b : Bytes) : ofBytes (a ++ b) = ofBytes a ++ ofBytes b := by
  simp [ofBytes]

@[simp] theorem toBytesN_length (n : Nat) (bits : Bits) : (toBytesN n bits).length = n := by
  induction n generalizing bits with
  | zero => rfl
  | succ k ih => simp [toBytesN, ih]

theorem toBytesN_ofBytes (bs : Bytes) (h : Bytes.WF bs) (rest : Bits) :
    toBytesN bs.length (ofBytes bs ++ rest) = bs := by
  induction bs with
  | nil => rfl
  | cons x xs ih =>
    have hx : x < 2 ^ 8 := h x (by simp)
    have hxs : Bytes.WF xs := fun y hy => h y (by simp [hy])
    simp only [List.length_cons, toBytesN, ofBytes_cons, List.append_assoc]
    rw [List.take_left' (ofNat_length 8 x), List.drop_left' (ofNat_length 8 x),
      toNat_ofNat 8 x hx, ih hxs]

theorem toBytesN_wf (n : Nat) (bits : Bits) : Bytes.WF (toBytesN n bits) := by
  induction n generalizing bits with
  | zero => intro x hx; simp [toBytesN] at hx
  | succ k ih =>
    intro x hx
    simp only [toBytesN, List.mem_cons] at hx
    rcases hx with h | h
    · subst h
      have := toNat_lt (bits.take 8)
      have h8 : (bits.take 8).length ≤ 8 := by simp; omega
      calc toNat (bits.take 8) < 2 ^ (bits.take 8).length := this
        _ ≤ 2 ^ 8 := Nat.pow_le_pow_right (by omega) h8
    · exact ih _ x h

theorem ofBytes_toBytesN (n : Nat) (bits : Bits) (h : bits.length = 8 * n) :
    ofBytes (toBytesN n bits) = bits := by
  induction n generalizing bits with
  | zero => simp at h; simp [toBytesN, h]
  | succ k ih =>
    simp only [toBytesN, ofBytes_cons]
    have h8 : (bits.take 8).length = 8 := by simp; omega
    rw [ofNat_toNat' _ 8 h8, ih (bits.drop 8) (by simp; omega), List.take_append_drop]

theorem toBytes?_ofBytes (bs : Bytes) (h : Bytes.WF bs) : toBytes? (ofBytes bs) = some bs := by
  unfold toBytes?
  have h1 : (ofBytes bs).length % 8 = 0 := by simp
  have h2 : (ofBytes bs).length / 8 = bs.length := by simp
  rw [if_pos h1, h2]
  have := toBytesN_ofBytes bs h []
  simp only [List.append_nil] at this
  rw [this]

theorem toBytes?_some (bits : Bits) (bs : Bytes) (h : toBytes? bits = some bs) :
    ofBytes bs = bits ∧ Bytes.WF bs ∧ 8 * bs.length = bits.length := by
  unfold toBytes? at h
  split at h
  · rename_i hm
    injection h with h; subst h
    have hl : bits.length = 8 * (bits.length / 8) := by omega
    exact ⟨ofBytes_toBytesN _ _ hl, toBytesN_wf _ _, by simp; omega⟩
  · cases h

end Bits
end XknxVerif
