/-
Shared basics for all models (core Lean only).
-/
deriving instance DecidableEq for Except

namespace XknxVerif

/-- Split a line into tokens. -/
def toks (s : String) : List String := s.splitOn " "

/-- Lower-case hex of a byte list, "-" for empty (tokens must be non-empty). -/
def hexDigit (n : Nat) : Char :=
  if n < 10 then Char.ofNat (48 + n) else Char.ofNat (87 + n)

def hexOfBytes (bs : List Nat) : String :=
  if bs.isEmpty then "-" else
  String.ofList (bs.flatMap fun b => [hexDigit ((b / 16) % 16), hexDigit (b % 16)])

def hexVal? (c : Char) : Option Nat :=
  if '0' ≤ c ∧ c ≤ '9' then some (c.toNat - 48)
  else if 'a' ≤ c ∧ c ≤ 'f' then some (c.toNat - 87)
  else if 'A' ≤ c ∧ c ≤ 'F' then some (c.toNat - 55)
  else none

def bytesOfHexChars : List Char → Option (List Nat)
  | [] => some []
  | [_] => none
  | a :: b :: rest => do
    let x ← hexVal? a
    let y ← hexVal? b
    let r ← bytesOfHexChars rest
    pure ((x * 16 + y) :: r)

/-- Parse a hex token ("-" = empty). -/
def bytesOfHex? (s : String) : Option (List Nat) :=
  if s == "-" then some [] else bytesOfHexChars s.toList

end XknxVerif
