/-
Python `str` as a list of code points (`List Nat`; Lean's `Char` cannot hold
lone surrogates, Python strings can), with the predicates / conversions the
modelled xknx code calls: `str.isdigit`, `re` `\d`, `int(str)` (whitespace,
sign, single underscores between digits, every Unicode decimal digit, the
int-string digit limit), `split(sep)` for a one-character separator,
`strip()`, `str(int)`.

The code-point classes are NOT written here: they come from
`Generated/Unicode.lean`, regenerated from the running interpreter.
Core Lean only (linked into the driver).
-/
import XknxVerif.Py.Basic
import XknxVerif.Generated.Unicode

namespace XknxVerif.Py

/-- A Python string: its code points. -/
abbrev Str := List Nat

namespace Str
open XknxVerif.Generated.Unicode

/-- membership in a list of inclusive ranges -/
def inRanges (rs : List (Nat × Nat)) (c : Nat) : Bool :=
  rs.any fun r => r.1 ≤ c && c ≤ r.2

/-- value lookup in a list of `(lo, hi, value of lo)` ranges -/
def valIn : List (Nat × Nat × Nat) → Nat → Option Nat
  | [], _ => none
  | (lo, hi, v) :: rest, c => if lo ≤ c && c ≤ hi then some (v + (c - lo)) else valIn rest c

/-- `chr(c).isdigit()` -/
def isdigitChar (c : Nat) : Bool := inRanges isdigitRanges c
/-- `s.isdigit()`: non-empty and every character has the digit property -/
def isdigit (s : Str) : Bool := !s.isEmpty && s.all isdigitChar
/-- `re` `\d` on one character; the value is what `int()` makes of it -/
def reDigit? (c : Nat) : Option Nat := valIn reDigitRanges c
/-- digit accepted by `int()` and its value -/
def intDigit? (c : Nat) : Option Nat := valIn intDigitRanges c
/-- whitespace `int()` skips around the literal -/
def isIntSpace (c : Nat) : Bool := inRanges intSpaceRanges c
/-- `chr(c).isspace()` -/
def isSpace (c : Nat) : Bool := inRanges isspaceRanges c

/-- drop from both ends while `p` -/
def stripBy (p : Nat → Bool) (s : Str) : Str :=
  ((s.dropWhile p).reverse.dropWhile p).reverse

/-- `s.strip()` -/
def strip (s : Str) : Str := stripBy isSpace s

/-- `s.split(sep)` for a one-character separator (never returns `[]`). -/
def splitOn (sep : Nat) : Str → List Str
  | [] => [[]]
  | c :: cs =>
    match splitOn sep cs with
    | [] => [[c]]   -- unreachable
    | p :: ps => if c = sep then [] :: p :: ps else (c :: p) :: ps

/-- `sep.join(parts)` for a one-character separator -/
def joinSep (sep : Nat) : List Str → Str
  | [] => []
  | [p] => p
  | p :: q :: rest => p ++ sep :: joinSep sep (q :: rest)

/-- value of a list of digit values, most significant first -/
def digitsVal (ds : List Nat) : Nat := ds.foldl (fun a v => a * 10 + v) 0

/-- The digit part of an `int()` literal: pieces between single underscores, each
non-empty and all digits (⇔ no leading / trailing / doubled underscore). Returns the digit values. -/
def digitsU (s : Str) : Option (List Nat) :=
  let parts := splitOn 95 s
  if parts.all (fun p => !p.isEmpty && p.all (fun c => (intDigit? c).isSome)) then
    some (parts.flatten.filterMap intDigit?)
  else none

/-- optional sign of an `int()` literal: (negative?, rest) -/
def splitSign : Str → Bool × Str
  | 43 :: r => (false, r)
  | 45 :: r => (true, r)
  | t => (false, t)

/-- `int(s)` for a `str` argument, base 10. `none` = `ValueError`. -/
def pyInt (s : Str) : Option Int :=
  let sb := splitSign (stripBy isIntSpace s)
  match digitsU sb.2 with
  | none => none
  | some ds =>
    if intMaxStrDigits != 0 && ds.length > intMaxStrDigits then none   -- limit 0 = unlimited
    else some (if sb.1 then -(digitsVal ds : Int) else (digitsVal ds : Int))

/-- `str(n)` for `n ≥ 0` (fuel-structural so that it evaluates in the kernel). -/
def decAux : Nat → Nat → Str → Str
  | 0, _, acc => acc
  | fuel + 1, n, acc =>
    if n < 10 then (48 + n) :: acc else decAux fuel (n / 10) ((48 + n % 10) :: acc)

def dec (n : Nat) : Str := decAux (n + 1) n []

/-- `str(i)` for an `int` -/
def decInt (i : Int) : Str := if i < 0 then 45 :: dec i.natAbs else dec i.toNat

/-- token encoding used on the driver line protocol: code points in decimal joined by '.', "-" for "" -/
def ofToken (t : String) : Option Str :=
  if t == "-" then some [] else (t.splitOn ".").mapM String.toNat?

def toToken (s : Str) : String :=
  if s.isEmpty then "-" else ".".intercalate (s.map toString)

/-- render an ASCII model string for output lines -/
def toAscii (s : Str) : String := String.ofList (s.map Char.ofNat)

end Str
end XknxVerif.Py
