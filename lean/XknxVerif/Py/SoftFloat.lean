/-
IEEE-754 binary64 (CPython `float`) as exact integer arithmetic.  Core Lean only.

A finite double is `± n · 2^-1074` for a natural number `n` (every double is a
multiple of the smallest subnormal), so sums, products and quotients are exact
rationals and every operation is "compute exactly, then round once to the
nearest representable value, ties to even" — which is what IEEE-754 prescribes
for `+ - * /`, what `float(int)`, `int / int` and `struct.pack('>f', x)` do in
CPython, and what `round(x, n)` does (correctly rounded decimal via dtoa, then
correctly rounded back via strtod).  Only `Nat` operations that the kernel
evaluates with GMP (`+ * / % ^ <<< >>>`, comparisons) are used, so `decide +kernel` can
run these definitions.

Validated bit-for-bit against CPython by the correspondence runs of C08/C09
(`sf …` op lines).  No analytic rounding-error theory is proved here.
-/
import XknxVerif.Py.Basic

namespace XknxVerif.SF

/-- scale exponent: finite values are `n · 2^-1074` -/
abbrev S : Nat := 1074

/-- round-half-even of `a / b` (`b > 0`) -/
def rhe (a b : Nat) : Nat :=
  let d := a / b
  let r := a % b
  if 2 * r < b then d else if b < 2 * r then d + 1 else if d % 2 == 0 then d else d + 1

/-- `⌊log₂ t⌋` for `1 ≤ t < 2^8192` (saturating above) by binary search over comparisons with powers of
two: `Nat.log2` itself is not evaluated natively by the kernel, `^` and `≤` are. -/
def ilog2 (t : Nat) : Nat :=
  [4096, 2048, 1024, 512, 256, 128, 64, 32, 16, 8, 4, 2, 1].foldl
    (fun acc bit => if 2 ^ (acc + bit) ≤ t then acc + bit else acc) 0

/-- nearest natural with at most `prec` significant bits to `a / b`, ties to even -/
def roundPrec (prec a b : Nat) : Nat :=
  let t := a / b
  if t < 2 ^ prec then rhe a b
  else
    let s := ilog2 t + 1 - prec
    rhe a (b * 2 ^ s) * 2 ^ s

inductive F where
  | fin (neg : Bool) (n : Nat)
  | inf (neg : Bool)
  | nan
  deriving DecidableEq, Repr, Inhabited

namespace F

/-- first magnitude (in units of 2^-1074) that is no longer finite: 2^1024 -/
def ovf : Nat := 2 ^ 2098

/-- nearest double to `± a / b` (units of 2^-1074); `none` on overflow -/
def mk? (neg : Bool) (a b : Nat) : Option F :=
  let n := roundPrec 53 a b
  if n < ovf then some (.fin neg n) else none

/-- as `mk?` with IEEE overflow to infinity -/
def mk (neg : Bool) (a b : Nat) : F := (mk? neg a b).getD (.inf neg)

def zero : F := .fin false 0

def isNaN : F → Bool | .nan => true | _ => false
def isInf : F → Bool | .inf _ => true | _ => false
def isZero : F → Bool | .fin _ 0 => true | _ => false

/-- `float(i)` for a Python int; `none` = OverflowError -/
def ofInt? (i : Int) : Option F :=
  match i with
  | .ofNat k => mk? false (k * 2 ^ S) 1
  | .negSucc k => mk? true ((k + 1) * 2 ^ S) 1

/-- `float(i)` for small ints (|i| < 2^53 is exact); overflow to inf is unreachable for those -/
def ofInt (i : Int) : F := (ofInt? i).getD (.inf (i < 0))

/-- nearest double to the rational `± p / q` (real units); `none` = overflow. `int / int` in Python. -/
def ofRat? (neg : Bool) (p q : Nat) : Option F := mk? neg (p * 2 ^ S) q

def neg : F → F
  | .fin s n => .fin (!s) n
  | .inf s => .inf (!s)
  | .nan => .nan

def abs : F → F
  | .fin _ n => .fin false n
  | .inf _ => .inf false
  | .nan => .nan

def mul : F → F → F
  | .nan, _ | _, .nan => .nan
  | .inf s, .inf t => .inf (s != t)
  | .inf s, .fin t n | .fin t n, .inf s => if n == 0 then .nan else .inf (s != t)
  | .fin s a, .fin t b => mk (s != t) (a * b) (2 ^ S)

/-- `x / y`; `none` = ZeroDivisionError -/
def div? : F → F → Option F
  | _, .fin _ 0 => none
  | .nan, _ | _, .nan => some .nan
  | .inf _, .inf _ => some .nan
  | .inf s, .fin t _ => some (.inf (s != t))
  | .fin s _, .inf t => some (.fin (s != t) 0)
  | .fin s a, .fin t b => some (mk (s != t) (a * 2 ^ S) b)

def add : F → F → F
  | .nan, _ | _, .nan => .nan
  | .inf s, .inf t => if s == t then .inf s else .nan
  | .inf s, .fin _ _ | .fin _ _, .inf s => .inf s
  | .fin s a, .fin t b =>
    if s == t then mk s (a + b) 1
    else if a == b then .fin false 0
    else if b < a then mk s (a - b) 1
    else mk t (b - a) 1

def sub (x y : F) : F := add x (neg y)

/-- three-way comparison; `none` if unordered (NaN) -/
def cmp : F → F → Option Ordering
  | .nan, _ | _, .nan => none
  | .inf s, .inf t => some (if s == t then .eq else if s then .lt else .gt)
  | .inf s, .fin _ _ => some (if s then .lt else .gt)
  | .fin _ _, .inf t => some (if t then .gt else .lt)
  | .fin s a, .fin t b =>
    if a == 0 && b == 0 then some .eq
    else if s != t then some (if s then .lt else .gt)
    else if a == b then some .eq
    else some (if (a < b) != s then .lt else .gt)

def le (x y : F) : Bool := match cmp x y with | some .lt | some .eq => true | _ => false
def lt (x y : F) : Bool := match cmp x y with | some .lt => true | _ => false
def eq (x y : F) : Bool := match cmp x y with | some .eq => true | _ => false

/-- exact comparison of a Python int with a float -/
def cmpInt (i : Int) : F → Option Ordering
  | .nan => none
  | .inf t => some (if t then .gt else .lt)
  | .fin t b =>
    let s := decide (i < 0)
    let a := i.natAbs * 2 ^ S
    if a == 0 && b == 0 then some .eq
    else if s != t then some (if s then .lt else .gt)
    else if a == b then some .eq
    else some (if (a < b) != s then .lt else .gt)

inductive IntErr where | overflow | value deriving DecidableEq, Repr

/-- `int(x)`: truncation; inf ⇒ OverflowError, nan ⇒ ValueError -/
def toIntTrunc : F → Except IntErr Int
  | .nan => .error .value
  | .inf _ => .error .overflow
  | .fin s n => let k := n >>> S; .ok (if s then -(k : Int) else (k : Int))

/-- `round(x)`: nearest integer, ties to even -/
def roundInt : F → Except IntErr Int
  | .nan => .error .value
  | .inf _ => .error .overflow
  | .fin s n => let k := rhe n (2 ^ S); .ok (if s then -(k : Int) else (k : Int))

/-- `round(x, nd)` (CPython `float.__round__` with ndigits): `none` = OverflowError -/
def roundN (x : F) (nd : Int) : Option F :=
  match x with
  | .nan => some .nan
  | .inf s => some (.inf s)
  | .fin s n =>
    if n == 0 then some x
    else if nd > 323 then some x
    else if nd < -308 then some (.fin s 0)
    else
      match nd with
      | .ofNat d =>
        let k := rhe (n * 10 ^ d) (2 ^ S)
        mk? s (k * 2 ^ S) (10 ^ d)
      | .negSucc d' =>
        let d := d' + 1
        let k := rhe n (2 ^ S * 10 ^ d)
        mk? s (k * 10 ^ d * 2 ^ S) 1

/-- smallest `d` with `|x| ≤ 10^d` for finite non-zero `x` (= `ceil(log10(abs(x)))`). -/
def ceilLog10 (n : Nat) : Int :=
  -- estimate from the binary exponent, then correct
  let e2 : Int := (ilog2 n : Int) - 1074
  let d0 : Int := e2 * 30103 / 100000
  let leP (d : Int) : Bool :=   -- n·2^-1074 ≤ 10^d
    match d with
    | .ofNat k => n ≤ 10 ^ k * 2 ^ S
    | .negSucc k => n * 10 ^ (k + 1) ≤ 2 ^ S
  let rec up (fuel : Nat) (d : Int) : Int :=
    match fuel with
    | 0 => d
    | f + 1 => if leP d then d else up f (d + 1)
  let rec down (fuel : Nat) (d : Int) : Int :=
    match fuel with
    | 0 => d
    | f + 1 => if leP (d - 1) then down f (d - 1) else d
  down 8 (up 8 (d0 - 1))

/-! ### binary32 -/

/-- first magnitude (units of 2^-149) that overflows binary32: 2^128 -/
def ovf32 : Nat := 2 ^ 277

/-- `struct.pack('>f', x)` then widened back: the binary32 value nearest to `x` as a double; `none` = OverflowError -/
def toF32? : F → Option F
  | .nan => some .nan
  | .inf s => some (.inf s)
  | .fin s n =>
    let m := roundPrec 24 n (2 ^ 925)
    if m < ovf32 then some (.fin s (m * 2 ^ 925)) else none

/-- the 32 bit pattern of a value that is exactly a binary32 -/
def bits32 : F → Nat
  | .nan => 0x7FC00000
  | .inf s => (if s then 0x80000000 else 0) + 0x7F800000
  | .fin s n =>
    let m := n >>> 925
    let sg := if s then 0x80000000 else 0
    if m < 2 ^ 23 then sg + m
    else
      let sh := ilog2 m - 23
      sg + (sh + 1) * 2 ^ 23 + ((m >>> sh) - 2 ^ 23)

/-- `struct.unpack('>f', …)`: exact widening -/
def ofBits32 (b : Nat) : F :=
  let s := decide (b / 2 ^ 31 % 2 = 1)
  let e := b / 2 ^ 23 % 256
  let m := b % 2 ^ 23
  if e == 255 then (if m == 0 then .inf s else .nan)
  else if e == 0 then .fin s (m * 2 ^ 925)
  else .fin s ((2 ^ 23 + m) * 2 ^ (e - 1) * 2 ^ 925)

/-! ### binary64 bit patterns (canonical rendering) -/

def bits64 : F → Option Nat
  | .nan => none
  | .inf s => some ((if s then 2 ^ 63 else 0) + 0x7FF * 2 ^ 52)
  | .fin s n =>
    let sg := if s then 2 ^ 63 else 0
    if n < 2 ^ 52 then some (sg + n)
    else
      let sh := ilog2 n - 52
      some (sg + (sh + 1) * 2 ^ 52 + ((n >>> sh) - 2 ^ 52))

def ofBits64 (b : Nat) : F :=
  let s := decide (b / 2 ^ 63 % 2 = 1)
  let e := b / 2 ^ 52 % 2048
  let m := b % 2 ^ 52
  if e == 2047 then (if m == 0 then .inf s else .nan)
  else if e == 0 then .fin s m
  else .fin s ((2 ^ 52 + m) * 2 ^ (e - 1))

def hex16 (n : Nat) : String :=
  String.ofList ((List.range 16).reverse.map fun i => hexDigit (n / 16 ^ i % 16))

/-- canonical token: `f<16 hex digits>` | `fnan` -/
def render (x : F) : String :=
  match bits64 x with
  | some b => "f" ++ hex16 b
  | none => "fnan"

def hexNat? (s : String) : Option Nat :=
  s.toList.foldlM (fun acc c => (hexVal? c).map fun v => acc * 16 + v) 0

def parse? (s : String) : Option F :=
  if s == "fnan" then some .nan
  else if s.length == 17 && s.front == 'f' then (hexNat? (s.drop 1).toString).map ofBits64
  else none

end F

-- DRIVER: sf => XknxVerif.SF.handle
/-- Line protocol (bit-exact self check against CPython):
  `mul a b` `div a b` `add a b` `sub a b` → `f…` | `zerodiv`;  `cmp a b` → `lt|eq|gt|un`;  `cmpi i a`;
  `ofint i` → `f…|overflow`; `ofrat s p q`; `trunc a` / `round a` → `i…|overflow|value`;
  `roundn a nd` → `f…|overflow`; `f32 a` → `<8 hex>|overflow`; `unf32 <dec>` → `f…`; `clog10 a` → `i…` -/
def handle : List String → String
  | [op, a, b] =>
    match op with
    | "ofint" => "bad-op"
    | "roundn" =>
      match F.parse? a, b.toInt? with
      | some x, some nd => match F.roundN x nd with | some r => r.render | none => "overflow"
      | _, _ => "bad-op"
    | "cmpi" =>
      match a.toInt?, F.parse? b with
      | some i, some y => match F.cmpInt i y with
        | some .lt => "lt" | some .eq => "eq" | some .gt => "gt" | none => "un"
      | _, _ => "bad-op"
    | _ =>
      match F.parse? a, F.parse? b with
      | some x, some y =>
        match op with
        | "mul" => (F.mul x y).render
        | "div" => match F.div? x y with | some r => r.render | none => "zerodiv"
        | "add" => (F.add x y).render
        | "sub" => (F.sub x y).render
        | "cmp" => match F.cmp x y with
          | some .lt => "lt" | some .eq => "eq" | some .gt => "gt" | none => "un"
        | _ => "bad-op"
      | _, _ => "bad-op"
  | [op, a] =>
    match op with
    | "ofint" => match a.toInt? with
      | some i => match F.ofInt? i with | some r => r.render | none => "overflow"
      | none => "bad-op"
    | "unf32" => match a.toNat? with
      | some b => (F.ofBits32 b).render
      | none => "bad-op"
    | _ =>
      match F.parse? a with
      | none => "bad-op"
      | some x =>
        match op with
        | "trunc" => match F.toIntTrunc x with
          | .ok i => s!"i{i}" | .error .overflow => "overflow" | .error .value => "value"
        | "round" => match F.roundInt x with
          | .ok i => s!"i{i}" | .error .overflow => "overflow" | .error .value => "value"
        | "f32" => match F.toF32? x with
          | some y => s!"{F.bits32 y}" | none => "overflow"
        | "clog10" => match x with
          | .fin _ n => if n == 0 then "value" else s!"i{F.ceilLog10 n}"
          | .inf _ => "overflow" | .nan => "value"
        | _ => "bad-op"
  | ["ofrat", s, p, q] =>
    match p.toNat?, q.toNat? with
    | some p, some q => if q == 0 then "zerodiv" else
      match F.ofRat? (s == "1") p q with | some r => r.render | none => "overflow"
    | _, _ => "bad-op"
  | _ => "bad-op"

end XknxVerif.SF
