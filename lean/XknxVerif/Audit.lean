/-
Axiom audit: `#audit_ns Foo.Bar` prints, for every theorem whose name lies in
namespace `Foo.Bar`, one line `AUDIT <name> [axioms...]`.  The checker counts
these lines as proof obligations and requires every axiom to be one of
propext / Classical.choice / Quot.sound.
-/
import Lean
open Lean Elab Command

elab "#audit_ns " ns:ident : command => do
  let env ← getEnv
  let nsName := ns.getId
  let mut names : Array Name := #[]
  for (n, ci) in env.constants.toList do
    if nsName.isPrefixOf n && !n.isInternalDetail && !(env.isProjectionFn n) then
      match ci with
      | .thmInfo _ => names := names.push n
      | _ => pure ()
  let sorted := names.qsort (fun a b => a.toString < b.toString)
  for n in sorted do
    let axs ← collectAxioms n
    let axsS := axs.qsort (fun a b => a.toString < b.toString)
    logInfo m!"AUDIT {n} {axsS.toList}"
