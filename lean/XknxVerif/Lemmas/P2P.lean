/-
Helper lemmas about the P2P monitor (`XknxVerif.Model.P2P`): shape of `tick`, `silent`, `expire`,
generic invariant lifting over `run?`.
-/
import XknxVerif.Model.P2P

namespace XknxVerif.P2P

theorem step?_eq_some {s : St} {o : Obs} {s' : St} (h : step? s o = some s') :
    ∃ s1, tick s o.time = some s1 ∧ core s1 o = some s' := by
  unfold step? at h
  split at h
  · exact ⟨_, ‹_›, h⟩
  · simp at h

/-- What `tick` can do. -/
inductive TickRel (s : St) (t : Nat) : St → Prop
  | same : t = s.now → TickRel s t s
  | noConn : s.now < t → s.owed = [] → s.conn = none → TickRel s t { s with now := t }
  | conn (c : Conn) : s.now < t → s.owed = [] → s.conn = some c →
      (c.silent s.now).quiet s.now = true → (c.silent s.now).within t = true →
      TickRel s t { s with now := t, conn := some ((c.silent s.now).expire t) }

theorem tick_spec {s : St} {t : Nat} {s' : St} (h : tick s t = some s') : TickRel s t s' := by
  unfold tick at h
  split at h
  · simp at h
  · split at h
    · simp at h; subst h; exact .same ‹_›
    · split at h
      · simp at h
      · rename_i h1 h2 h3
        have hlt : s.now < t := by omega
        have howed : s.owed = [] := by
          simpa using h3
        split at h
        · simp at h; subst h; exact .noConn hlt howed ‹_›
        · rename_i c hc
          dsimp only at h
          split at h
          · rename_i hq
            simp at h; subst h
            simp only [Bool.and_eq_true] at hq
            exact .conn c hlt howed hc hq.1 hq.2
          · simp at h

/-- `silent` either does nothing or starts `_receive`. -/
theorem silent_cases (c : Conn) (now : Nat) :
    c.silent now = c ∨
    ∃ t0 k n a e dl, c.stage = .ackWait t0 k n a e dl ∧ c.ackW = .acked false n ∧ c.respW = .pending ∧
      c.silent now = { c with stage := .respWait t0 e (now + CONN), ackW := .none } := by
  unfold Conn.silent
  split
  · rename_i t0 k n a e dl m hs ha hr
    by_cases hm : m = n
    · subst hm
      right
      exact ⟨t0, k, m, a, e, dl, hs, ha, hr, by simp⟩
    · left; simp [hm]
  · left; rfl

theorem expire_stage (c : Conn) (t : Nat) : (c.expire t).stage = c.stage := by
  unfold Conn.expire; split <;> (try split) <;> rfl

theorem expire_fields (c : Conn) (t : Nat) :
    (c.expire t).connected = c.connected ∧ (c.expire t).sendSeq = c.sendSeq ∧ (c.expire t).exp = c.exp ∧
    (c.expire t).lastResp = c.lastResp := by
  unfold Conn.expire; split <;> (try split) <;> simp

theorem expire_respW (c : Conn) (t : Nat) :
    (c.expire t).respW = c.respW ∨ (c.respW = .pending ∧ (c.expire t).respW = .expired) := by
  unfold Conn.expire
  split
  · split <;> simp
  · split
    · rename_i h; right; exact ⟨h.2, rfl⟩
    · left; rfl
  · left; rfl

theorem expire_ackW (c : Conn) (t : Nat) :
    (c.expire t).ackW = c.ackW ∨ (c.ackW = .pending ∧ (c.expire t).ackW = .expired) := by
  unfold Conn.expire
  split
  · split
    · rename_i h; right; exact ⟨h.2, rfl⟩
    · left; rfl
  · split <;> simp
  · left; rfl

/-- Invariant lifting over `run?`. -/
theorem run?_inv (Inv : St → Prop)
    (hstep : ∀ s o s', Inv s → step? s o = some s' → Inv s') :
    ∀ (obs : List Obs) (s s' : St), Inv s → run? s obs = some s' → Inv s' := by
  intro obs
  induction obs with
  | nil => intro s s' hi h; simp [run?] at h; subst h; exact hi
  | cons o os ih =>
    intro s s' hi h
    unfold run? at h
    split at h
    · rename_i s1 h1; exact ih s1 s' (hstep s o s1 hi h1) h
    · simp at h

/-- Invariant over state and the observations so far. -/
theorem run?_hist_inv (Inv : St → List Obs → Prop)
    (hstep : ∀ s hist o s', Inv s hist → step? s o = some s' → Inv s' (hist ++ [o])) :
    ∀ (obs : List Obs) (s : St) (hist : List Obs) (s' : St),
      Inv s hist → run? s obs = some s' → Inv s' (hist ++ obs) := by
  intro obs
  induction obs with
  | nil => intro s hist s' hi h; simp [run?] at h; subst h; simpa using hi
  | cons o os ih =>
    intro s hist s' hi h
    unfold run? at h
    split at h
    · rename_i s1 h1
      have := ih s1 (hist ++ [o]) s' (hstep s hist o s1 hi h1) h
      simpa [List.append_assoc] using this
    · simp at h

theorem run?_append {s : St} {pre post : List Obs} {s' : St} (h : run? s (pre ++ post) = some s') :
    ∃ s1, run? s pre = some s1 ∧ run? s1 post = some s' := by
  induction pre generalizing s with
  | nil => exact ⟨s, rfl, by simpa using h⟩
  | cons o os ih =>
    simp only [List.cons_append] at h
    unfold run? at h
    split at h
    · rename_i s1 h1
      obtain ⟨s2, h2, h3⟩ := ih h
      exact ⟨s2, by simp [run?, h1, h2], h3⟩
    · simp at h


/-! ### Well-formedness / timing invariant -/

def StageOk (now rate : Nat) : Stage → Prop
  | .idle => True
  | .rateWait t0 tSend _ _ => t0 ≤ now ∧ now ≤ tSend ∧ tSend ≤ t0 + rate
  | .ackWait t0 k _ _ _ dl =>
    t0 ≤ now ∧ now ≤ dl ∧ ((k = 1 ∧ dl ≤ t0 + rate + ACK) ∨ (k = 2 ∧ dl ≤ t0 + rate + 2 * ACK))
  | .respWait t0 _ dl => t0 ≤ now ∧ now ≤ dl ∧ dl ≤ t0 + rate + 2 * ACK + CONN

def ConnOk (now rate : Nat) (c : Conn) : Prop :=
  c.exp < 16 ∧ c.sendSeq < 16 ∧ (∀ l, c.lastResp = some l → l ≤ now) ∧ StageOk now rate c.stage

def WF (s : St) : Prop := ∀ c, s.conn = some c → ConnOk s.now s.rate c

theorem WF_init (rate : Nat) : WF (St.init rate) := by
  intro c h; simp [St.init] at h

theorem connOk_silent {now rate : Nat} {c : Conn} (h : ConnOk now rate c) : ConnOk now rate (c.silent now) := by
  rcases silent_cases c now with h1 | ⟨t0, k, n, a, e, dl, hs, _, _, h1⟩
  · rw [h1]; exact h
  · rw [h1]
    obtain ⟨he, hq, hl, hst⟩ := h
    refine ⟨he, hq, hl, ?_⟩
    rw [hs] at hst
    simp only [StageOk] at hst ⊢
    omega

theorem connOk_within {now rate t : Nat} {c : Conn} (h : ConnOk now rate c) (hw : c.within t = true)
    (hle : now ≤ t) : ConnOk t rate c := by
  obtain ⟨he, hq, hl, hst⟩ := h
  refine ⟨he, hq, fun l hl' => Nat.le_trans (hl l hl') hle, ?_⟩
  unfold Conn.within at hw
  cases hs : c.stage <;> rw [hs] at hst hw <;> simp only [StageOk, decide_eq_true_eq] at hst hw ⊢ <;> omega

theorem connOk_expire {now rate : Nat} {c : Conn} (h : ConnOk now rate c) : ConnOk now rate (c.expire now) := by
  obtain ⟨he, hq, hl, hst⟩ := h
  obtain ⟨_, h2, h3, h4⟩ := expire_fields c now
  exact ⟨by rw [h3]; exact he, by rw [h2]; exact hq, by rw [h4]; exact hl, by rw [expire_stage]; exact hst⟩

theorem tick_rate {s : St} {t : Nat} {s' : St} (h : tick s t = some s') : s'.rate = s.rate := by
  cases tick_spec h <;> rfl

theorem tick_now {s : St} {t : Nat} {s' : St} (h : tick s t = some s') : s'.now = t := by
  cases tick_spec h with
  | same h' => exact h'.symm
  | noConn => rfl
  | conn => rfl

theorem tick_owed {s : St} {t : Nat} {s' : St} (h : tick s t = some s') : s'.owed = s.owed := by
  cases tick_spec h <;> rfl

theorem WF_tick {s : St} {t : Nat} {s' : St} (hwf : WF s) (h : tick s t = some s') : WF s' := by
  cases tick_spec h with
  | same => exact hwf
  | noConn _ _ hc => intro c h'; simp only at h'; rw [hc] at h'; simp at h'
  | conn c hlt _ hc hq hw =>
    intro c' h'
    simp only [Option.some.injEq] at h'
    subst h'
    exact connOk_expire (connOk_within (connOk_silent (hwf c hc)) hw (Nat.le_of_lt hlt))

theorem nextSeq_lt (n : Nat) : nextSeq n < 16 := by unfold nextSeq; omega

theorem process_fields {c : Conn} {fid : Nat} {f : Frame} {c' : Conn} (h : c.process fid f = .ok c') :
    c'.stage = c.stage ∧ c'.sendSeq = c.sendSeq ∧ c'.lastResp = c.lastResp ∧ (c'.exp = c.exp ∨ c'.exp = nextSeq c.exp) := by
  cases f <;> simp only [Conn.process] at h
  case disconnect =>
    by_cases h1 : c.ackW = .pending <;> by_cases h2 : c.respW = .pending <;>
      simp [h1, h2, AckW.setException, RespW.setException, Except.map, bind, Except.bind] at h <;>
      subst h <;> simp
  case ack n =>
    by_cases h1 : c.ackW = .pending <;> simp [h1, AckW.setResult, Except.map] at h <;> subst h <;> simp
  case nak n =>
    by_cases h1 : c.ackW = .pending <;> simp [h1, AckW.setResult, Except.map] at h <;> subst h <;> simp
  case data n apdu =>
    by_cases h1 : c.respW = .pending <;> by_cases h2 : n = c.exp <;>
      simp [h1, h2, RespW.setResult, Except.map] at h <;> subst h <;> simp
  all_goals (cases h; simp)

/-- `mgmtProcess` either leaves the connection alone or runs `Conn.process` on it. -/
theorem mgmtProcess_conn {conn : Option Conn} {src fid : Nat} {f : Frame} {r : Option Conn × List Out}
    (h : mgmtProcess conn src fid f = .ok r) :
    r.1 = conn ∨ ∃ c c', src = 0 ∧ conn = some c ∧ c.process fid f = .ok c' ∧ r.1 = some c' := by
  unfold mgmtProcess at h
  by_cases hs : src = 0
  · subst hs
    cases conn with
    | none =>
      left
      cases f <;> simp at h <;> subst h <;> rfl
    | some c =>
      right
      simp only [if_true] at h
      cases hp : c.process fid f with
      | error e => simp [hp, Except.map] at h
      | ok c' =>
        simp [hp, Except.map] at h
        exact ⟨c, c', rfl, rfl, hp, by rw [← h]⟩
  · left
    simp only [hs, if_false] at h
    cases f <;> simp at h <;> subst h <;> rfl

theorem core_rate {s : St} {o : Obs} {s' : St} (h : core s o = some s') : s'.rate = s.rate ∧ s'.now = s.now := by
  cases o <;> simp only [core] at h
  case opened t ok =>
    unfold onOpened at h; split at h <;> simp at h <;> subst h <;> simp
  case closed t r =>
    unfold onClosed at h; split at h <;> split at h <;> simp at h <;> subst h <;> simp
  case req t a e =>
    unfold onReq at h; split at h <;> (try split at h) <;> simp at h; subst h; simp
  case res t o =>
    unfold onRes at h; split at h <;> (try split at h) <;> (try split at h) <;> simp at h; subst h; simp
  case txData t n a =>
    unfold onTxData at h; split at h <;> (try split at h) <;> (try split at h) <;> simp at h <;> subst h <;> simp
  case txAck t d n => unfold onTx at h; split at h <;> simp at h; subst h; simp
  case txDisc t d => unfold onTx at h; split at h <;> simp at h; subst h; simp
  case rx t src fid f hc cn e =>
    unfold onRx at h; split at h <;> (try split at h) <;> simp at h; subst h; simp
  case fin t => unfold onFin at h; split at h <;> simp at h; subst h; simp

theorem step?_rate {s : St} {o : Obs} {s' : St} (h : step? s o = some s') : s'.rate = s.rate := by
  obtain ⟨s1, h1, h2⟩ := step?_eq_some h
  rw [(core_rate h2).1, tick_rate h1]

theorem step?_now {s : St} {o : Obs} {s' : St} (h : step? s o = some s') : s'.now = o.time := by
  obtain ⟨s1, h1, h2⟩ := step?_eq_some h
  rw [(core_rate h2).2, tick_now h1]


/-! ### What a finishing request does -/

def Stage.start : Stage → Option Nat
  | .idle => none
  | .rateWait t0 _ _ _ => some t0
  | .ackWait t0 _ _ _ _ _ => some t0
  | .respWait t0 _ _ => some t0

def Stage.expect : Stage → Option Nat
  | .idle => none
  | .rateWait _ _ _ e => some e
  | .ackWait _ _ _ _ e _ => some e
  | .respWait _ e _ => some e

theorem receiveNow_spec {c : Conn} {t e : Nat} {o : Outcome} {c' : Conn} (h : c.receiveNow t e = some (o, c')) :
    c'.stage = .idle ∧ c'.exp = c.exp ∧ c'.sendSeq = c.sendSeq ∧ c'.connected = c.connected ∧ c'.respW = .pending ∧
    c'.ackW = .none ∧
    (c'.lastResp = c.lastResp ∨ c'.lastResp = some t) ∧
    (∀ fid n a, o = .ok fid n a → c.respW = .got fid n a ∧ typeOk e a = true) := by
  unfold Conn.receiveNow at h
  split at h
  · split at h <;> simp at h <;> obtain ⟨rfl, rfl⟩ := h <;> simp_all
  · simp at h; obtain ⟨rfl, rfl⟩ := h; simp
  · simp at h; obtain ⟨rfl, rfl⟩ := h; simp
  · simp at h

theorem result_spec {c : Conn} {t : Nat} {o : Outcome} {c' : Conn} (h : c.result t = some (o, c')) :
    c'.stage = .idle ∧ c'.exp = c.exp ∧ c'.sendSeq = c.sendSeq ∧ c'.connected = c.connected ∧
    (c'.respW = c.respW ∨ c'.respW = .pending) ∧
    (c'.lastResp = c.lastResp ∨ c'.lastResp = some t) ∧
    (∃ t0 e, c.stage.start = some t0 ∧ c.stage.expect = some e ∧
      (∀ fid n a, o = .ok fid n a → c.respW = .got fid n a ∧ typeOk e a = true ∧ c'.respW = .pending)) := by
  unfold Conn.result at h
  split at h
  · simp at h
  · split at h <;> simp at h
    obtain ⟨rfl, rfl⟩ := h
    simp [Stage.start, Stage.expect, *]
  · rename_i t0 k n a e dl hs
    split at h
    · simp at h; obtain ⟨rfl, rfl⟩ := h; simp [Stage.start, Stage.expect, *]
    · simp at h; obtain ⟨rfl, rfl⟩ := h; simp [Stage.start, Stage.expect, *]
    · split at h
      · obtain ⟨h1, h2, h3, h4, h5, h6, h7, h8⟩ := receiveNow_spec h
        refine ⟨h1, h2, h3, h4, Or.inr h5, h7, t0, e, by simp [Stage.start, hs], by simp [Stage.expect, hs], ?_⟩
        intro fid n a ho
        exact ⟨(h8 fid n a ho).1, (h8 fid n a ho).2, h5⟩
      · simp at h; obtain ⟨rfl, rfl⟩ := h; simp [Stage.start, Stage.expect, *]
    · split at h <;> simp at h
      obtain ⟨rfl, rfl⟩ := h; simp [Stage.start, Stage.expect, *]
    · simp at h
  · rename_i t0 e dl hs
    obtain ⟨h1, h2, h3, h4, h5, h6, h7, h8⟩ := receiveNow_spec h
    refine ⟨h1, h2, h3, h4, Or.inr h5, h7, t0, e, by simp [Stage.start, hs], by simp [Stage.expect, hs], ?_⟩
    intro fid n a ho
    exact ⟨(h8 fid n a ho).1, (h8 fid n a ho).2, h5⟩

theorem sendTime_bounds (c : Conn) (rate now : Nat) (hl : ∀ l, c.lastResp = some l → l ≤ now) :
    now ≤ c.sendTime rate now ∧ c.sendTime rate now ≤ now + rate := by
  unfold Conn.sendTime
  split
  · omega
  · split
    · rename_i l hl'
      have := hl l hl'
      split <;> omega
    · omega

theorem WF_core {s : St} {o : Obs} {s' : St} (hwf : WF s) (h : core s o = some s') : WF s' := by
  cases o <;> simp only [core] at h
  case opened t ok =>
    unfold onOpened at h; split at h <;> simp at h <;> subst h
    · intro c hc; simp at hc; subst hc; simp [ConnOk, Conn.fresh, StageOk]
    · exact hwf
  case closed t r =>
    unfold onClosed at h; split at h <;> split at h <;> simp at h <;> subst h
    · exact hwf
    · intro c hc; simp at hc
  case req t a e =>
    unfold onReq at h; split at h <;> (try split at h) <;> simp at h; subst h
    rename_i c hc hst
    intro c' hc'; simp at hc'; subst hc'
    obtain ⟨h1, h2, h3, _⟩ := hwf c hc
    have := sendTime_bounds c s.rate s.now h3
    exact ⟨h1, h2, h3, by simp only [StageOk]; omega⟩
  case res t o =>
    unfold onRes at h; split at h <;> (try split at h) <;> (try split at h) <;> simp at h; subst h
    rename_i c hc _ o' c' hres _
    intro c'' hc''; simp at hc''; subst hc''
    obtain ⟨h1, h2, h3, _⟩ := hwf c hc
    obtain ⟨r1, r2, r3, _, _, r7, _⟩ := result_spec hres
    refine ⟨by rw [r2]; exact h1, by rw [r3]; exact h2, ?_, by rw [r1]; trivial⟩
    intro l hl
    rcases r7 with r7 | r7
    · exact h3 l (by rw [← r7]; exact hl)
    · rw [r7] at hl; simp only [Option.some.injEq] at hl; subst hl; exact Nat.le_refl _
  case txData t n a =>
    unfold onTxData at h; split at h <;> (try split at h) <;> (try split at h) <;> simp at h <;> subst h
    · rename_i c hc _ t0 tSend a' e hst hcond
      intro c' hc'; simp at hc'; subst hc'
      obtain ⟨h1, h2, h3, h4⟩ := hwf c hc
      rw [hst] at h4; simp only [StageOk] at h4
      obtain ⟨hn, _, _, _⟩ := hcond
      exact ⟨h1, nextSeq_lt _, h3, by
        simp only [StageOk]; exact ⟨by omega, by omega, Or.inl ⟨trivial, by omega⟩⟩⟩
    · rename_i c hc _ t0 k n' a' e dl hst hcond
      intro c' hc'; simp at hc'; subst hc'
      obtain ⟨h1, h2, h3, h4⟩ := hwf c hc
      rw [hst] at h4; simp only [StageOk] at h4
      obtain ⟨hk, _, hn, _, _⟩ := hcond
      subst hk
      have h4' : dl ≤ t0 + s.rate + ACK := by
        rcases h4.2.2 with h | h
        · exact h.2
        · exact absurd h.1 (by decide)
      exact ⟨h1, h2, h3, by
        simp only [StageOk]; exact ⟨by omega, by omega, Or.inr ⟨trivial, by omega⟩⟩⟩
  case txAck t d n => unfold onTx at h; split at h <;> simp at h; subst h; exact hwf
  case txDisc t d => unfold onTx at h; split at h <;> simp at h; subst h; exact hwf
  case rx t src fid f hc cn e =>
    unfold onRx at h; split at h <;> (try split at h) <;> simp at h; subst h
    rename_i _ conn' outs hp
    intro c' hc'
    simp only at hc'
    rcases mgmtProcess_conn hp with h1 | ⟨c, c1, _, hc0, hpr, h1⟩
    · simp only at h1; rw [h1] at hc'; exact hwf c' hc'
    · simp only at h1; rw [h1] at hc'; simp at hc'; subst hc'
      obtain ⟨w1, w2, w3, w4⟩ := hwf c hc0
      obtain ⟨p1, p2, p3, p4⟩ := process_fields hpr
      refine ⟨?_, by rw [p2]; exact w2, by rw [p3]; exact w3, by rw [p1]; exact w4⟩
      rcases p4 with p4 | p4 <;> rw [p4]
      · exact w1
      · exact nextSeq_lt _
  case fin t => unfold onFin at h; split at h <;> simp at h; subst h; exact hwf

theorem WF_step {s : St} {o : Obs} {s' : St} (hwf : WF s) (h : step? s o = some s') : WF s' := by
  obtain ⟨s1, h1, h2⟩ := step?_eq_some h
  exact WF_core (WF_tick hwf h1) h2

theorem WF_run {rate : Nat} {obs : List Obs} {s : St} (h : run? (St.init rate) obs = some s) : WF s :=
  run?_inv WF (fun _ _ _ hw hs => WF_step hw hs) obs _ _ (WF_init rate) h


/-! ### Acknowledgements owed -/

def ackPart : List Out → List (Nat × Nat)
  | [] => []
  | .ack d n :: os => (d, n) :: ackPart os
  | .disc _ :: os => ackPart os

theorem ackPart_append (a b : List Out) : ackPart (a ++ b) = ackPart a ++ ackPart b := by
  induction a with
  | nil => rfl
  | cons x xs ih => cases x <;> simp [ackPart, ih]

theorem ackPart_erase_disc (l : List Out) (d : Nat) : ackPart (l.erase (.disc d)) = ackPart l := by
  induction l with
  | nil => rfl
  | cons x xs ih =>
    rw [List.erase_cons]
    split
    · rename_i h; simp at h; subst h; simp [ackPart]
    · cases x <;> simp [ackPart, ih]

theorem ackPart_erase_ack (l : List Out) (d n : Nat) (h : Out.ack d n ∈ l) :
    ((d, n) :: ackPart (l.erase (.ack d n))).Perm (ackPart l) := by
  induction l with
  | nil => simp at h
  | cons x xs ih =>
    rw [List.erase_cons]
    split
    · rename_i hx; simp at hx; subst hx; simp [ackPart]
    · rename_i hx
      have hmem : Out.ack d n ∈ xs := by
        rcases List.mem_cons.mp h with h | h
        · subst h; simp at hx
        · exact h
      cases x with
      | ack d' n' =>
        simp only [ackPart]
        exact (List.Perm.swap _ _ _).trans (List.Perm.cons _ (ih hmem))
      | disc d' => simpa [ackPart] using ih hmem

theorem mem_ackPart {l : List Out} {d m : Nat} (h : Out.ack d m ∈ l) : (d, m) ∈ ackPart l := by
  induction l with
  | nil => simp at h
  | cons x xs ih =>
    rcases List.mem_cons.mp h with h' | h'
    · subst h'; simp [ackPart]
    · cases x <;> simp [ackPart, ih h']

theorem flatMap_congr' {α β : Type} {f g : α → List β} {l : List α} (h : ∀ o ∈ l, f o = g o) :
    l.flatMap f = l.flatMap g := by
  induction l with
  | nil => rfl
  | cons x xs ih =>
    simp only [List.flatMap_cons]
    rw [h x List.mem_cons_self, ih (fun o ho => h o (List.mem_cons_of_mem _ ho))]

theorem shallAck_iff (c : Conn) (n : Nat) (he : c.exp < 16) (hn : n < 16) :
    c.shallAck n = true ↔ c.connected = true ∧ (n = c.exp ∨ n = (c.exp + 15) % 16) := by
  unfold Conn.shallAck
  simp only [Bool.and_eq_true, Bool.or_eq_true, beq_iff_eq]
  constructor
  · rintro ⟨h1, h2⟩; exact ⟨h1, by omega⟩
  · rintro ⟨h1, h2⟩; exact ⟨h1, by omega⟩

/-- The acknowledgements `Management.process` hands out. -/
def ackFor (conn : Option Conn) (src : Nat) : Frame → List (Nat × Nat)
  | .data n _ =>
    match (if src = 0 then conn else none) with
    | none => [(src, n)]
    | some c => if c.shallAck n then [(src, n)] else []
  | _ => []

theorem mgmtProcess_outs {conn : Option Conn} {src fid : Nat} {f : Frame} {r : Option Conn × List Out}
    (h : mgmtProcess conn src fid f = .ok r) : ackPart r.2 = ackFor conn src f := by
  unfold mgmtProcess at h
  unfold ackFor
  cases hc : (if src = 0 then conn else none) with
  | none =>
    simp only [hc] at h
    cases f <;> simp at h <;> subst h <;> simp [ackPart]
  | some c =>
    simp only [hc] at h
    cases hp : c.process fid f with
    | error e => simp [hp, Except.map] at h
    | ok c' =>
      simp only [hp, Except.map] at h
      cases f <;> simp at h <;> subst h <;> simp [ackPart]
      split <;> simp [ackPart]


/-! ### Outgoing numbering -/

/-- The number that may still be repeated: the first transmission is out and unacknowledged. -/
def Conn.rep (c : Conn) : Option Nat :=
  match c.stage with
  | .ackWait _ k n _ _ _ => if k = 1 then some n else none
  | _ => none

theorem tick_conn_num {s : St} {t : Nat} {s1 : St} {c : Conn} (h : tick s t = some s1) (hc : s.conn = some c) :
    ∃ c1, s1.conn = some c1 ∧ c1.sendSeq = c.sendSeq ∧ (c1.rep = c.rep ∨ c1.rep = none) := by
  cases tick_spec h with
  | same => exact ⟨c, hc, rfl, Or.inl rfl⟩
  | noConn _ _ hn => rw [hn] at hc; simp at hc
  | conn c0 _ _ hc0 _ _ =>
    rw [hc0] at hc; simp only [Option.some.injEq] at hc; subst hc
    refine ⟨_, rfl, ?_, ?_⟩
    · rw [(expire_fields _ t).2.1]
      rcases silent_cases c0 s.now with h1 | ⟨t0, k, n, a, e, dl, _, _, _, h1⟩ <;> rw [h1]
    · unfold Conn.rep
      rw [expire_stage]
      rcases silent_cases c0 s.now with h1 | ⟨t0, k, n, a, e, dl, _, _, _, h1⟩ <;> rw [h1]
      · left; rfl
      · right; rfl

theorem process_rep {c : Conn} {fid : Nat} {f : Frame} {c' : Conn} (h : c.process fid f = .ok c') :
    c'.rep = c.rep := by
  unfold Conn.rep; rw [(process_fields h).1]

/-- What one observation (other than open / close) does to the outgoing numbering. -/
theorem core_conn_num {s1 : St} {o : Obs} {s' : St} {c : Conn} (h : core s1 o = some s') (hc : s1.conn = some c)
    (hno : (∀ t b, o ≠ .opened t b) ∧ (∀ t r, o ≠ .closed t r)) :
    ∃ c', s'.conn = some c' ∧
      match o with
      | .txData _ n _ =>
        (n = c.sendSeq ∧ c'.sendSeq = nextSeq c.sendSeq ∧ c'.rep = some n) ∨
        (c.rep = some n ∧ c'.sendSeq = c.sendSeq ∧ c'.rep = none)
      | _ => c'.sendSeq = c.sendSeq ∧ (c'.rep = c.rep ∨ c'.rep = none) := by
  cases o <;> simp only [core] at h
  case opened t ok => exact absurd rfl (hno.1 t ok)
  case closed t r => exact absurd rfl (hno.2 t r)
  case req t a e =>
    unfold onReq at h; rw [hc] at h; simp only at h
    split at h <;> simp at h; subst h
    exact ⟨_, rfl, rfl, Or.inr rfl⟩
  case res t o =>
    unfold onRes at h; rw [hc] at h; simp only at h
    split at h <;> (try split at h) <;> simp at h; subst h
    rename_i o' c' hres _
    obtain ⟨r1, _, r3, _⟩ := result_spec hres
    exact ⟨c', rfl, r3, Or.inr (by unfold Conn.rep; rw [r1])⟩
  case txData t n a =>
    unfold onTxData at h; rw [hc] at h; simp only at h
    split at h <;> (try split at h) <;> simp at h <;> subst h
    · rename_i t0 tSend a' e hst hcond
      exact ⟨_, rfl, Or.inl ⟨hcond.2.2.1, rfl, by simp [Conn.rep]⟩⟩
    · rename_i t0 k n' a' e dl hst hcond
      obtain ⟨hk, _, _, hn, _⟩ := hcond
      subst hk; subst hn
      exact ⟨_, rfl, Or.inr ⟨by simp [Conn.rep, hst], rfl, by simp [Conn.rep]⟩⟩
  case txAck t d n =>
    unfold onTx at h; split at h <;> simp at h; subst h; exact ⟨c, hc, rfl, Or.inl rfl⟩
  case txDisc t d =>
    unfold onTx at h; split at h <;> simp at h; subst h; exact ⟨c, hc, rfl, Or.inl rfl⟩
  case rx t src fid f hcn cn e =>
    unfold onRx at h; split at h <;> (try split at h) <;> simp at h; subst h
    rename_i _ _ conn' outs hp
    rcases mgmtProcess_conn hp with h1 | ⟨c0, c1, _, hc0, hpr, h1⟩
    · simp only at h1; exact ⟨c, by simp only; rw [h1]; exact hc, rfl, Or.inl rfl⟩
    · simp only at h1
      rw [hc] at hc0; simp only [Option.some.injEq] at hc0; subst hc0
      exact ⟨c1, by simp only; exact h1, (process_fields hpr).2.1, Or.inl (process_rep hpr)⟩
  case fin t =>
    unfold onFin at h; split at h <;> simp at h; subst h; exact ⟨c, hc, rfl, Or.inl rfl⟩


/-! ### How the response waiter and the request stage evolve -/

theorem tick_conn_back {s : St} {t : Nat} {s1 : St} {c1 : Conn} (h : tick s t = some s1) (hc1 : s1.conn = some c1) :
    ∃ c, s.conn = some c ∧ c1.stage.start = c.stage.start ∧ c1.stage.expect = c.stage.expect ∧
      (c1.respW = c.respW ∨ (c.respW = .pending ∧ c1.respW = .expired)) ∧ s.now ≤ s1.now := by
  cases tick_spec h with
  | same => exact ⟨c1, hc1, rfl, rfl, Or.inl rfl, Nat.le_refl _⟩
  | noConn _ _ hn => simp only at hc1; rw [hn] at hc1; simp at hc1
  | conn c0 hlt _ hc0 _ _ =>
    simp only [Option.some.injEq] at hc1; subst hc1
    refine ⟨c0, hc0, ?_, ?_, ?_, Nat.le_of_lt hlt⟩
    · rw [expire_stage]
      rcases silent_cases c0 s.now with h1 | ⟨t0, k, n, a, e, dl, hs, _, _, h1⟩ <;> rw [h1]
      simp [Stage.start, hs]
    · rw [expire_stage]
      rcases silent_cases c0 s.now with h1 | ⟨t0, k, n, a, e, dl, hs, _, _, h1⟩ <;> rw [h1]
      simp [Stage.expect, hs]
    · have hsil : (c0.silent s.now).respW = c0.respW := by
        rcases silent_cases c0 s.now with h1 | ⟨t0, k, n, a, e, dl, hs, _, _, h1⟩ <;> rw [h1]
      rcases expire_respW (c0.silent s.now) t with h2 | ⟨h2, h3⟩
      · left; rw [h2, hsil]
      · right; exact ⟨by rw [← hsil]; exact h2, h3⟩

theorem process_respW {c : Conn} {fid : Nat} {f : Frame} {c' : Conn} (h : c.process fid f = .ok c') :
    c'.respW = c.respW ∨ c'.respW = .refused ∨
    (∃ n a, f = .data n a ∧ n = c.exp ∧ c'.respW = .got fid n a) := by
  cases f <;> simp only [Conn.process] at h
  case disconnect =>
    by_cases h1 : c.ackW = .pending <;> by_cases h2 : c.respW = .pending <;>
      simp [h1, h2, AckW.setException, RespW.setException, Except.map, bind, Except.bind] at h <;>
      subst h <;> simp
  case ack n =>
    by_cases h1 : c.ackW = .pending <;> simp [h1, AckW.setResult, Except.map] at h <;> subst h <;> simp
  case nak n =>
    by_cases h1 : c.ackW = .pending <;> simp [h1, AckW.setResult, Except.map] at h <;> subst h <;> simp
  case data n apdu =>
    by_cases h1 : c.respW = .pending
    · by_cases h2 : n = c.exp
      · simp [h1, h2, RespW.setResult, Except.map] at h; subst h
        right; right; exact ⟨n, apdu, rfl, h2, by simp [h2]⟩
      · simp [h1, h2] at h; subst h; simp
    · simp [h1] at h; subst h; simp
  all_goals (cases h; simp)

/-- One observation, seen from the connection that exists afterwards. -/
inductive RespStep (s : St) (o : Obs) (c' : Conn) : Prop
  | dead : (c'.respW = .pending ∨ c'.respW = .refused ∨ c'.respW = .expired) → RespStep s o c'
  | keep (c : Conn) : s.conn = some c → c'.respW = c.respW → RespStep s o c'
  | got (c : Conn) (t fid n a : Nat) (cn : Bool) : s.conn = some c →
      o = .rx t 0 fid (.data n a) true cn n → c'.respW = .got fid n a → RespStep s o c'

theorem step_respW {s : St} {o : Obs} {s' : St} {c' : Conn} (h : step? s o = some s') (hc' : s'.conn = some c') :
    RespStep s o c' := by
  obtain ⟨s1, h1, h2⟩ := step?_eq_some h
  -- the connection after `tick`, related to the one before
  have back : ∀ c1, s1.conn = some c1 → c'.respW = c1.respW → RespStep s o c' := by
    intro c1 hc1 heq
    obtain ⟨c, hc, _, _, hr, _⟩ := tick_conn_back h1 hc1
    rcases hr with hr | ⟨_, hr⟩
    · exact .keep c hc (by rw [heq, hr])
    · exact .dead (Or.inr (Or.inr (by rw [heq, hr])))
  cases o <;> simp only [core] at h2
  case opened t ok =>
    unfold onOpened at h2; split at h2 <;> simp at h2 <;> subst h2
    · simp at hc'; subst hc'; exact .dead (Or.inl rfl)
    · exact back c' hc' rfl
  case closed t r =>
    unfold onClosed at h2; split at h2 <;> split at h2 <;> simp at h2 <;> subst h2
    · exact back c' hc' rfl
    · simp at hc'
  case req t a e =>
    unfold onReq at h2; split at h2 <;> (try split at h2) <;> simp at h2; subst h2
    rename_i c hc _
    simp at hc'; subst hc'
    exact back c hc rfl
  case res t o =>
    unfold onRes at h2; split at h2 <;> (try split at h2) <;> (try split at h2) <;> simp at h2; subst h2
    rename_i c hc _ o' c1 hres _
    simp at hc'; subst hc'
    obtain ⟨_, _, _, _, r5, _⟩ := result_spec hres
    rcases r5 with r5 | r5
    · exact back c hc r5
    · exact .dead (Or.inl r5)
  case txData t n a =>
    unfold onTxData at h2; split at h2 <;> (try split at h2) <;> (try split at h2) <;> simp at h2 <;> subst h2
    · rename_i c hc _ t0 tSend a' e hst hcond
      simp at hc'; subst hc'; exact back c hc rfl
    · rename_i c hc _ t0 k n' a' e dl hst hcond
      simp at hc'; subst hc'; exact back c hc rfl
  case txAck t d n => unfold onTx at h2; split at h2 <;> simp at h2; subst h2; exact back c' hc' rfl
  case txDisc t d => unfold onTx at h2; split at h2 <;> simp at h2; subst h2; exact back c' hc' rfl
  case rx t src fid f hcn cn e =>
    unfold onRx at h2; split at h2 <;> (try split at h2) <;> simp at h2; subst h2
    rename_i hpre _ conn' outs hp
    simp only at hc'
    rcases mgmtProcess_conn hp with hsame | ⟨c0, c1, hsrc, hc0, hpr, hres⟩
    · simp only at hsame; rw [hsame] at hc'; exact back c' hc' rfl
    · simp only at hres; rw [hres] at hc'; simp only [Option.some.injEq] at hc'; subst hc'
      rcases process_respW hpr with hr | hr | ⟨n, a, hf, hn, hr⟩
      · exact back c0 hc0 hr
      · exact .dead (Or.inr (Or.inl hr))
      · subst hsrc; subst hf
        obtain ⟨c, hc, _, _, _, _⟩ := tick_conn_back h1 hc0
        unfold preOk at hpre
        simp only [if_true, hc0, Bool.and_eq_true, beq_iff_eq] at hpre
        obtain ⟨⟨hh, _⟩, he⟩ := hpre
        subst hh
        refine .got c t fid n a cn hc ?_ hr
        rw [he, hn]
  case fin t => unfold onFin at h2; split at h2 <;> simp at h2; subst h2; exact back c' hc' rfl

/-- Stage of the connection after one observation. -/
theorem step_stage {s : St} {o : Obs} {s' : St} {c' : Conn} (h : step? s o = some s') (hc' : s'.conn = some c') :
    c'.stage = .idle ∨
    (∃ a e, o = .req o.time a e ∧ c'.stage.start = some o.time ∧ c'.stage.expect = some e) ∨
    (∃ c, s.conn = some c ∧ c'.stage.start = c.stage.start ∧ c'.stage.expect = c.stage.expect) := by
  obtain ⟨s1, h1, h2⟩ := step?_eq_some h
  have hnow := tick_now h1
  have back : ∀ c1, s1.conn = some c1 → c'.stage.start = c1.stage.start → c'.stage.expect = c1.stage.expect →
      ∃ c, s.conn = some c ∧ c'.stage.start = c.stage.start ∧ c'.stage.expect = c.stage.expect := by
    intro c1 hc1 hs he
    obtain ⟨c, hc, hs', he', _, _⟩ := tick_conn_back h1 hc1
    exact ⟨c, hc, by rw [hs, hs'], by rw [he, he']⟩
  cases o <;> simp only [core] at h2
  case opened t ok =>
    unfold onOpened at h2; split at h2 <;> simp at h2 <;> subst h2
    · simp at hc'; subst hc'; exact Or.inl rfl
    · exact Or.inr (Or.inr (back c' hc' rfl rfl))
  case closed t r =>
    unfold onClosed at h2; split at h2 <;> split at h2 <;> simp at h2 <;> subst h2
    · exact Or.inr (Or.inr (back c' hc' rfl rfl))
    · simp at hc'
  case req t a e =>
    unfold onReq at h2; split at h2 <;> (try split at h2) <;> simp at h2; subst h2
    simp at hc'; subst hc'
    simp only [Obs.time] at hnow
    exact Or.inr (Or.inl ⟨a, e, rfl, by simp [Stage.start, Obs.time, hnow], by simp [Stage.expect]⟩)
  case res t o =>
    unfold onRes at h2; split at h2 <;> (try split at h2) <;> (try split at h2) <;> simp at h2; subst h2
    rename_i c hc _ o' c1 hres _
    simp at hc'; subst hc'
    exact Or.inl (result_spec hres).1
  case txData t n a =>
    unfold onTxData at h2; split at h2 <;> (try split at h2) <;> (try split at h2) <;> simp at h2 <;> subst h2
    · rename_i c hc _ t0 tSend a' e hst hcond
      simp at hc'; subst hc'
      exact Or.inr (Or.inr (back c hc (by simp [Stage.start, hst]) (by simp [Stage.expect, hst])))
    · rename_i c hc _ t0 k n' a' e dl hst hcond
      simp at hc'; subst hc'
      exact Or.inr (Or.inr (back c hc (by simp [Stage.start, hst]) (by simp [Stage.expect, hst])))
  case txAck t d n =>
    unfold onTx at h2; split at h2 <;> simp at h2; subst h2; exact Or.inr (Or.inr (back c' hc' rfl rfl))
  case txDisc t d =>
    unfold onTx at h2; split at h2 <;> simp at h2; subst h2; exact Or.inr (Or.inr (back c' hc' rfl rfl))
  case rx t src fid f hcn cn e =>
    unfold onRx at h2; split at h2 <;> (try split at h2) <;> simp at h2; subst h2
    rename_i hpre _ conn' outs hp
    simp only at hc'
    rcases mgmtProcess_conn hp with hsame | ⟨c0, c1, hsrc, hc0, hpr, hres⟩
    · simp only at hsame; rw [hsame] at hc'; exact Or.inr (Or.inr (back c' hc' rfl rfl))
    · simp only at hres; rw [hres] at hc'; simp only [Option.some.injEq] at hc'; subst hc'
      have := (process_fields hpr).1
      exact Or.inr (Or.inr (back c0 hc0 (by rw [this]) (by rw [this])))
  case fin t =>
    unfold onFin at h2; split at h2 <;> simp at h2; subst h2; exact Or.inr (Or.inr (back c' hc' rfl rfl))

/-- A result observation: what the connection looked like before it. -/
theorem step_res {s : St} {t : Nat} {o : Outcome} {s' : St} (h : step? s (.res t o) = some s') :
    ∃ c t0 e, s.conn = some c ∧ c.stage.start = some t0 ∧ c.stage.expect = some e ∧
      (∀ fid n a, o = .ok fid n a → c.respW = .got fid n a ∧ typeOk e a = true) := by
  obtain ⟨s1, h1, h2⟩ := step?_eq_some h
  simp only [core] at h2
  unfold onRes at h2; split at h2 <;> (try split at h2) <;> (try split at h2) <;> simp at h2; subst h2
  rename_i c1 hc1 _ o' c2 hres ho
  subst ho
  obtain ⟨_, _, _, _, _, _, t0, e, hs, he, hok⟩ := result_spec hres
  obtain ⟨c, hc, hs', he', hr, _⟩ := tick_conn_back h1 hc1
  refine ⟨c, t0, e, hc, by rw [← hs', hs], by rw [← he', he], ?_⟩
  intro fid n a ho
  obtain ⟨hg, ht, _⟩ := hok fid n a ho
  refine ⟨?_, ht⟩
  rcases hr with hr | ⟨_, hr⟩
  · rw [← hr]; exact hg
  · rw [hr] at hg; simp at hg

theorem connOk_bound {now rate : Nat} {c : Conn} {t0 : Nat} (h : ConnOk now rate c) (hs : c.stage.start = some t0) :
    t0 ≤ now ∧ now ≤ t0 + rate + 2 * ACK + CONN := by
  obtain ⟨_, _, _, hst⟩ := h
  cases hstage : c.stage <;> rw [hstage] at hs hst <;> simp only [Stage.start, Option.some.injEq] at hs <;>
    (try subst hs) <;> simp only [StageOk] at hst
  · simp at hs
  · omega
  · omega
  · omega

end XknxVerif.P2P
