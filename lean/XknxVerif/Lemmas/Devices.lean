/-
Helper lemmas for the device-registry model (dict-as-association-list algebra
and the effect of the two index maintenance loops).
-/
import XknxVerif.Model.Devices

namespace XknxVerif.Devices
set_option linter.unusedSectionVars false
set_option linter.unusedSimpArgs false
variable {Dev GA : Type} [DecidableEq Dev] [DecidableEq GA]

theorem idxGet_idxSet_self (idx : Index Dev GA) (ga : GA) (v : List Dev) :
    idxGet (idxSet idx ga v) ga = some v := by
  induction idx with
  | nil => simp [idxSet, idxGet]
  | cons e r ih =>
    obtain ⟨k, w⟩ := e
    by_cases h : k = ga
    · simp [idxSet, idxGet, h]
    · simp [idxSet, idxGet, h, ih]

theorem idxGet_idxSet_other (idx : Index Dev GA) (ga ga' : GA) (v : List Dev) (hne : ga' ≠ ga) :
    idxGet (idxSet idx ga v) ga' = idxGet idx ga' := by
  induction idx with
  | nil =>
    have : ¬ ga = ga' := fun h => hne h.symm
    simp [idxSet, idxGet, this]
  | cons e r ih =>
    obtain ⟨k, w⟩ := e
    by_cases h : k = ga
    · subst h
      have : ¬ k = ga' := fun h => hne h.symm
      simp [idxSet, idxGet, this]
    · by_cases h' : k = ga'
      · subst h'
        simp [idxSet, idxGet, hne]
      · simp [idxSet, idxGet, h, h', ih]

theorem idxGet_idxDel_self (idx : Index Dev GA) (ga : GA) :
    idxGet (idxDel idx ga) ga = none := by
  induction idx with
  | nil => simp [idxDel, idxGet]
  | cons e r ih =>
    obtain ⟨k, w⟩ := e
    by_cases h : k = ga
    · simpa [idxDel, List.filter_cons, h] using ih
    · have : idxGet (idxDel r ga) ga = none := ih
      simp [idxDel, List.filter_cons, h, idxGet] at this ⊢
      exact this

theorem idxGet_idxDel_other (idx : Index Dev GA) (ga ga' : GA) (hne : ga' ≠ ga) :
    idxGet (idxDel idx ga) ga' = idxGet idx ga' := by
  induction idx with
  | nil => simp [idxDel, idxGet]
  | cons e r ih =>
    obtain ⟨k, w⟩ := e
    have ih' : idxGet (List.filter (fun e => decide (e.1 ≠ ga)) r) ga' = idxGet r ga' := ih
    by_cases h : k = ga
    · subst h
      have : ¬ k = ga' := fun h => hne h.symm
      simp [idxDel, List.filter_cons, idxGet, this] at ih' ⊢
      exact ih'
    · by_cases h' : k = ga'
      · subst h'
        simp [idxDel, List.filter_cons, idxGet, hne]
      · simp [idxDel, List.filter_cons, h, idxGet, h'] at ih' ⊢
        exact ih'

/-- The list `setdefault(ga, [])` yields. -/
def getOrEmpty (idx : Index Dev GA) (ga : GA) : List Dev :=
  match idxGet idx ga with
  | some l => l
  | none => []

/-- Effect of the `async_add` index loop over a duplicate-free address list. -/
theorem idxGet_indexAdd (d : Dev) (gs : List GA) (hnd : gs.Nodup) (idx : Index Dev GA) (ga : GA) :
    idxGet (indexAdd idx d gs) ga =
      if ga ∈ gs then some (getOrEmpty idx ga ++ [d]) else idxGet idx ga := by
  induction gs generalizing idx with
  | nil => simp [indexAdd]
  | cons g gs ih =>
    have hg : g ∉ gs := (List.nodup_cons.mp hnd).1
    have hnd' : gs.Nodup := (List.nodup_cons.mp hnd).2
    rw [indexAdd, ih hnd']
    by_cases h1 : ga = g
    · subst h1
      simp only [hg, if_false, List.mem_cons, true_or, if_true]
      rw [idxGet_idxSet_self]
      rfl
    · by_cases h2 : ga ∈ gs
      · simp only [h2, if_true, List.mem_cons, or_true]
        simp only [getOrEmpty, idxGet_idxSet_other _ _ _ _ h1]
      · simp only [h2, if_false, List.mem_cons, h1, or_self]
        exact idxGet_idxSet_other _ _ _ _ h1

/-- What `list.remove` + `del`-when-empty leaves under a key. -/
def afterErase (l : List Dev) (d : Dev) : Option (List Dev) :=
  if (l.erase d).isEmpty then none else some (l.erase d)

/-- Effect of the `async_remove` index loop, provided every address of the device
is indexed and lists the device (which the registry invariant guarantees):
no exception, and exactly the device's addresses are updated. -/
theorem indexRemove_spec (d : Dev) (gs : List GA) (hnd : gs.Nodup) (idx : Index Dev GA)
    (hpre : ∀ g ∈ gs, ∃ l, idxGet idx g = some l ∧ d ∈ l) :
    (indexRemove idx d gs).2 = none ∧
    ∀ ga, idxGet (indexRemove idx d gs).1 ga =
      if ga ∈ gs then afterErase (getOrEmpty idx ga) d else idxGet idx ga := by
  induction gs generalizing idx with
  | nil => simp [indexRemove]
  | cons g gs ih =>
    have hg : g ∉ gs := (List.nodup_cons.mp hnd).1
    have hnd' : gs.Nodup := (List.nodup_cons.mp hnd).2
    obtain ⟨l, hl, hdl⟩ := hpre g (List.mem_cons_self ..)
    -- the index after handling `g`
    let idx' : Index Dev GA := if (l.erase d).isEmpty then idxDel idx g else idxSet idx g (l.erase d)
    have hstep : indexRemove idx d (g :: gs) = indexRemove idx' d gs := by
      simp [indexRemove, hl, hdl, idx']
    have hother : ∀ ga, ga ≠ g → idxGet idx' ga = idxGet idx ga := by
      intro ga hne
      by_cases he : (l.erase d).isEmpty
      · simp only [idx', he, if_true]; exact idxGet_idxDel_other _ _ _ hne
      · simp only [idx', he]; exact idxGet_idxSet_other _ _ _ _ hne
    have hself : idxGet idx' g = afterErase l d := by
      by_cases he : (l.erase d).isEmpty
      · simp only [idx', he, if_true, afterErase]; exact idxGet_idxDel_self _ _
      · simp only [idx', he, afterErase]; exact idxGet_idxSet_self _ _ _
    have hpre' : ∀ g' ∈ gs, ∃ l, idxGet idx' g' = some l ∧ d ∈ l := by
      intro g' hg'
      have hne : g' ≠ g := fun h => hg (h ▸ hg')
      rw [hother g' hne]
      exact hpre g' (List.mem_cons_of_mem _ hg')
    obtain ⟨h1, h2⟩ := ih hnd' idx' hpre'
    rw [hstep]
    refine ⟨h1, ?_⟩
    intro ga
    rw [h2 ga]
    by_cases e1 : ga = g
    · subst e1
      simp only [hg, if_false, List.mem_cons, true_or, if_true]
      rw [hself]; simp [getOrEmpty, hl]
    · by_cases e2 : ga ∈ gs
      · simp only [e2, if_true, List.mem_cons, or_true]
        simp only [getOrEmpty, hother ga e1]
      · simp only [e2, if_false, List.mem_cons, e1, or_self]
        exact hother ga e1

end XknxVerif.Devices
