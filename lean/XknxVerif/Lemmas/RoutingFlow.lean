/-
Helper lemmas about the routing flow-control monitor (`Model/RoutingFlow.lean`):
what one accepted observation does to the state, and the reachable-state invariants.
-/
import XknxVerif.Model.RoutingFlow

namespace XknxVerif.RoutingFlow
open XknxVerif.Generated.RoutingConsts

/-- What `advance` checks and changes. -/
theorem advance_spec {s s' : State} {t : Nat} (h : advance s t = some s') :
    s.now ≤ t ∧
    (∀ e, s.resumeAt = some e → t ≤ e) ∧
    (∀ hd, s.queue.head? = some hd → s.ready = true → t ≤ max (due s hd.2) s.now) ∧
    s' = { s with now := t, n := (applyDec s.n s.decNext t).1, decNext := (applyDec s.n s.decNext t).2 } := by
  unfold advance at h
  split at h
  · cases h
  rename_i hc
  simp only [not_or, Nat.not_lt, Bool.not_eq_true] at hc
  obtain ⟨h1, h2, h3⟩ := hc
  refine ⟨h1, ?_, ?_, ?_⟩
  · intro e he
    simp only [resumeOverdue, he, decide_eq_false_iff_not, Nat.not_lt] at h2
    exact h2
  · intro hd hq hr
    cases hqq : s.queue with
    | nil => rw [hqq] at hq; cases hq
    | cons x xs =>
      rw [hqq] at hq
      simp only [List.head?_cons, Option.some.injEq] at hq
      subst hq
      obtain ⟨a, rt⟩ := x
      simp only [sendOverdue, hqq, hr, Bool.true_and, decide_eq_false_iff_not, Nat.not_lt] at h3
      exact h3
  · simp only [Option.some.injEq] at h
    exact h.symm

/-- Fields `advance` leaves alone. -/
theorem advance_fields {s s' : State} {t : Nat} (h : advance s t = some s') :
    s'.now = t ∧ s'.ready = s.ready ∧ s'.waitStart = s.waitStart ∧ s'.resumeAt = s.resumeAt ∧
    s'.lastSent = s.lastSent ∧ s'.queue = s.queue ∧ s'.unconf = s.unconf ∧ s'.conf = s.conf ∧
    s'.readySince = s.readySince := by
  obtain ⟨_, _, _, rfl⟩ := advance_spec h
  simp

theorem due_advance {s s' : State} {t : Nat} (h : advance s t = some s') (rt : Nat) :
    due s' rt = due s rt := by
  unfold due; rw [(advance_fields h).2.2.2.2.1]

/-- The step function, observation by observation. -/
theorem step_inv {s s1 : State} {o : Obs} (h : step? s o = some s1) :
    ∃ sa, advance s o.time = some sa ∧
    match o with
    | .busy t w k nObs applied =>
        (applied = true ∧ s1 = startPause sa t w k nObs) ∨
        (applied = false ∧ sa.waitStart.isSome ∧ s1 = { sa with ready := false, lastBusy := t, n := nObs })
    | .ready t => sa.resumeAt = some t ∧ sa.ready = false ∧
        s1 = { sa with ready := true, waitStart := none, resumeAt := none, readySince := t,
                       decNext := if sa.n > 0 then some (t + sa.slow + decUs) else none }
    | .req t id => id ∉ sa.queue.map (·.1) ∧ id ∉ sa.unconf ∧ id ∉ sa.conf ∧
        s1 = { sa with queue := sa.queue ++ [(id, t)] }
    | .send t id => ∃ rt, sa.queue.lookup id = some rt ∧ sa.ready = true ∧ due sa rt ≤ t ∧
        s1 = { sa with lastSent := some t, queue := sa.queue.filter (·.1 != id), unconf := id :: sa.unconf }
    | .con _ id => id ∈ sa.unconf ∧ s1 = { sa with unconf := sa.unconf.erase id, conf := id :: sa.conf }
    | .rx _ => s1 = sa
    | .fin _ u => u = 0 ∧ sa.queue = [] ∧ sa.unconf = [] ∧ sa.resumeAt = none ∧ s1 = sa := by
  unfold step? at h
  split at h
  · cases h
  rename_i sa hadv
  refine ⟨sa, hadv, ?_⟩
  cases o with
  | busy t w k nObs applied =>
    simp only at h ⊢
    split at h
    · split at h
      · rename_i hc
        simp only [Option.some.injEq] at h
        exact Or.inl ⟨hc.2, h.symm⟩
      · cases h
    · rename_i ws hws
      split at h
      · cases applied with
        | true => simp only [↓reduceIte, Option.some.injEq] at h; exact Or.inl ⟨rfl, h.symm⟩
        | false =>
          simp only [Bool.false_eq_true, ↓reduceIte, Option.some.injEq] at h
          exact Or.inr ⟨rfl, by rw [hws]; rfl, h.symm⟩
      · cases h
  | ready t =>
    simp only at h ⊢
    split at h
    · rename_i hc
      simp only [Option.some.injEq] at h
      exact ⟨hc.1, hc.2, h.symm⟩
    · cases h
  | req t id =>
    simp only at h ⊢
    split at h
    · cases h
    · rename_i hc
      simp only [Option.some.injEq] at h
      simp only [not_or] at hc
      exact ⟨hc.1, hc.2.1, hc.2.2, h.symm⟩
  | send t id =>
    simp only at h ⊢
    split at h
    · cases h
    · rename_i rt hl
      split at h
      · rename_i hc
        simp only [Option.some.injEq] at h
        exact ⟨rt, hl, hc.1, hc.2, h.symm⟩
      · cases h
  | con t id =>
    simp only at h ⊢
    split at h
    · rename_i hc
      simp only [Option.some.injEq] at h
      exact ⟨hc, h.symm⟩
    · cases h
  | rx t =>
    simp only [Option.some.injEq] at h ⊢
    exact h.symm
  | fin t u =>
    simp only at h ⊢
    split at h
    · rename_i hc
      simp only [Option.some.injEq] at h
      exact ⟨hc.1, hc.2.1, hc.2.2.1, hc.2.2.2, h.symm⟩
    · cases h

theorem runFrom_cons {s s' : State} {o : Obs} {os : List Obs} (h : runFrom s (o :: os) = some s') :
    ∃ s1, step? s o = some s1 ∧ runFrom s1 os = some s' := by
  unfold runFrom at h
  split at h
  · cases h
  · rename_i s1 h1; exact ⟨s1, h1, h⟩

theorem runFrom_append {s s' : State} {as bs : List Obs} (h : runFrom s (as ++ bs) = some s') :
    ∃ s1, runFrom s as = some s1 ∧ runFrom s1 bs = some s' := by
  induction as generalizing s with
  | nil => exact ⟨s, rfl, h⟩
  | cons a as ih =>
    obtain ⟨s1, h1, h2⟩ := runFrom_cons h
    obtain ⟨s2, h3, h4⟩ := ih h2
    exact ⟨s2, by simp [runFrom, h1, h3], h4⟩

/-- Invariant lifting for the monitor. -/
theorem runFrom_inv (P : State → Prop) (hstep : ∀ s o s1, P s → step? s o = some s1 → P s1)
    {s s' : State} {tr : List Obs} (h : runFrom s tr = some s') (hs : P s) : P s' := by
  induction tr generalizing s with
  | nil => simp only [runFrom, Option.some.injEq] at h; exact h ▸ hs
  | cons o os ih =>
    obtain ⟨s1, h1, h2⟩ := runFrom_cons h
    exact ih h2 (hstep s o s1 hs h1)

/-- Reachable states: `_ready` is clear exactly while a pause timer runs. -/
def Coherent (s : State) : Prop :=
  (s.ready = true ↔ s.waitStart = none) ∧ (s.ready = true ↔ s.resumeAt = none) ∧ s.readySince ≤ s.now

theorem coherent_init : Coherent init := by simp [Coherent, init]

theorem coherent_advance {s sa : State} {t : Nat} (hc : Coherent s) (hadv : advance s t = some sa) :
    Coherent sa := by
  obtain ⟨hnow, hr, hw, hres, -, -, -, -, hrs⟩ := advance_fields hadv
  have hle := (advance_spec hadv).1
  unfold Coherent at hc ⊢
  rw [hr, hw, hres, hrs, hnow]; exact ⟨hc.1, hc.2.1, by omega⟩

theorem coherent_step (s : State) (o : Obs) (s1 : State) (hc : Coherent s) (h : step? s o = some s1) :
    Coherent s1 := by
  obtain ⟨sa, hadv, hm⟩ := step_inv h
  obtain ⟨hnow, hr, hw, hres, -, -, -, -, hrs⟩ := advance_fields hadv
  have hle := (advance_spec hadv).1
  have hca : Coherent sa := by
    unfold Coherent at hc ⊢
    rw [hr, hw, hres, hrs, hnow]; exact ⟨hc.1, hc.2.1, by omega⟩
  cases o with
  | busy t w k nObs applied =>
    rcases hm with ⟨-, rfl⟩ | ⟨-, hws, rfl⟩
    · simp [Coherent, startPause]; exact hca.2.2
    · unfold Coherent at hca ⊢
      simp only [Bool.false_eq_true, false_iff]
      refine ⟨?_, ?_, hca.2.2⟩
      · intro hn; rw [hn] at hws; cases hws
      · intro hn
        have := hca.2.1.mpr hn
        have := hca.1.mp this
        rw [this] at hws; cases hws
  | ready t =>
    obtain ⟨-, -, rfl⟩ := hm
    simp only [Obs.time] at hnow
    simp [Coherent, hnow]
  | req t id => obtain ⟨-, -, -, rfl⟩ := hm; exact hca
  | send t id => obtain ⟨rt, -, -, -, rfl⟩ := hm; exact hca
  | con t id => obtain ⟨-, rfl⟩ := hm; exact hca
  | rx t => subst hm; exact hca
  | fin t u => obtain ⟨-, -, -, -, rfl⟩ := hm; exact hca

theorem coherent_run {s s' : State} {tr : List Obs} (h : runFrom s tr = some s') (hs : Coherent s) :
    Coherent s' :=
  runFrom_inv Coherent coherent_step h hs

end XknxVerif.RoutingFlow
