/-
Helper lemmas about the secure-session monitor (`Model/SecureSession.lean`): specifications of the
individual handlers and a case lemma for one accepted observation.
-/
import XknxVerif.Model.SecureSession

namespace XknxVerif.SecureSession
open XknxVerif.Generated.IPSecure

theorem advance_fields {s sa : State} {t : Nat} (h : advance s t = some sa) :
    sa.now = t ∧ sa.isOpen = s.isOpen ∧ sa.connecting = s.connecting ∧ sa.resp = s.resp ∧ sa.dap = s.dap ∧
    sa.initialized = s.initialized ∧ sa.sessionId = s.sessionId ∧ sa.seqRecv = s.seqRecv ∧
    sa.seqSend = s.seqSend := by
  unfold advance at h
  by_cases h1 : t < s.now
  · simp [h1] at h
  · cases hk : s.keepaliveAt with
    | none => simp [h1, hk] at h; subst h; simp
    | some k =>
      by_cases h2 : k < t
      · by_cases h3 : s.seqSend < seqLimit
        · simp [h1, hk, h2, h3] at h
        · simp [h1, hk, h2, h3] at h; subst h; simp
      · simp [h1, hk, h2] at h; subst h; simp

/-- `advance` leaves the key bookkeeping alone. -/
theorem advance_epoch {s sa : State} {t : Nat} (h : advance s t = some sa) :
    sa.kp = s.kp ∧ sa.nKeys = s.nKeys ∧ sa.keyEp = s.keyEp ∧ sa.requested = s.requested ∧ sa.keyReuse = s.keyReuse := by
  unfold advance at h
  by_cases h1 : t < s.now
  · simp [h1] at h
  · cases hk : s.keepaliveAt with
    | none => simp [h1, hk] at h; subst h; simp
    | some k =>
      by_cases h2 : k < t
      · by_cases h3 : s.seqSend < seqLimit
        · simp [h1, hk, h2, h3] at h
        · simp [h1, hk, h2, h3] at h; subst h; simp
      · simp [h1, hk, h2] at h; subst h; simp

/-- `SecureSession.send`: what is written and how the counters move. -/
theorem send_spec (s : State) (svc : Nat) :
    ((send s svc).1 = .plain → s.initialized = false ∧ svc = sessionRequest) ∧
    (∀ q ek es, (send s svc).1 = .wrapped q ek es →
        q = s.seqSend ∧ q < seqLimit ∧ (send s svc).2.seqSend = q + 1 ∧ s.initialized = true ∧ (ek, es) = s.keyEp) ∧
    ((∀ q ek es, (send s svc).1 ≠ .wrapped q ek es) → (send s svc).2 = s) ∧
    (send s svc).2.seqRecv = s.seqRecv ∧ (send s svc).2.initialized = s.initialized ∧
    (s.initialized = true → seqLimit ≤ s.seqSend → (send s svc).1 = .errIpsec) ∧
    ((send s svc).2.kp = s.kp ∧ (send s svc).2.nKeys = s.nKeys ∧ (send s svc).2.keyEp = s.keyEp ∧
      (send s svc).2.requested = s.requested ∧ (send s svc).2.keyReuse = s.keyReuse) := by
  unfold send
  by_cases h1 : s.initialized = true <;> by_cases h2 : s.seqSend < seqLimit <;>
    by_cases h3 : svc = sessionRequest <;> by_cases h4 : s.isOpen = true <;>
    simp [h1, h2, h3, h4] <;> omega

/-- `SecureSession.stop`. -/
theorem stop_spec (s : State) :
    (stop s).1 ≠ .plain ∧
    (∀ q ek es, (stop s).1 = .wrapped q ek es →
        q = s.seqSend ∧ q < seqLimit ∧ (stop s).2.seqSend = q + 1 ∧ s.initialized = true ∧ (ek, es) = s.keyEp ∧
        (stop s).2.initialized = false ∧ (stop s).2.requested = false) ∧
    ((∀ q ek es, (stop s).1 ≠ .wrapped q ek es) → (stop s).2.seqSend = s.seqSend ∧
        ((stop s).2.initialized = true → (stop s).2 = s) ∧ ((stop s).2.initialized = false → (stop s).2.requested = false)) ∧
    (stop s).2.seqRecv = s.seqRecv ∧ ((stop s).2.initialized = true → s.initialized = true) ∧
    ((stop s).2.kp = s.kp ∧ (stop s).2.nKeys = s.nKeys ∧ (stop s).2.keyEp = s.keyEp ∧ (stop s).2.keyReuse = s.keyReuse) := by
  unfold stop
  by_cases h1 : s.initialized = true <;> by_cases h2 : s.seqSend < seqLimit <;> by_cases h4 : s.isOpen = true <;>
    simp [h1, h2, h4]

/-- `stop()` always tears the session down and never raises. -/
theorem stop_tears_down (s : State) : (stop s).2.initialized = false ∧ (stop s).1 ≠ .errIpsec := by
  unfold stop
  by_cases h1 : s.initialized = true <;> by_cases h2 : s.seqSend < seqLimit <;> by_cases h4 : s.isOpen = true <;>
    simp [h1, h2, h4]

/-- A wrapper written by the session itself. -/
theorem autoWrite_spec {s s' : State} {t seq svc aux sid ek es : Nat} {ok : Bool}
    (h : autoWrite s t seq svc aux ok sid ek es = some s') :
    ok = true ∧ seq = s.seqSend ∧ seq < seqLimit ∧ s'.seqSend = seq + 1 ∧ s'.seqRecv = s.seqRecv ∧
    s'.initialized = true ∧ (ek, es) = s'.keyEp ∧ s'.kp = s.kp ∧ s'.nKeys = s.nKeys ∧ s'.keyReuse = s.keyReuse ∧
    ((svc = sessionAuthenticate ∧ s.initialized = false ∧ s.connecting = true ∧ s.requested = true ∧ s'.sessionId = sid ∧
        ek = s.kp ∧ s'.requested = false ∧
        ∃ rmac, s.resp = some (sid, rmac, es) ∧ (s.dap = true → rmac = true)) ∨
     (svc ≠ sessionAuthenticate ∧ s.initialized = true ∧ sid = s.sessionId ∧ s'.keyEp = s.keyEp ∧
        s'.requested = s.requested)) := by
  unfold autoWrite at h
  by_cases h1 : svc = sessionAuthenticate
  · simp only [h1, ↓reduceIte] at h
    cases hr : s.resp with
    | none => simp [hr] at h
    | some p =>
      obtain ⟨rsid, rmac, res⟩ := p
      simp only [hr] at h
      split at h
      · rename_i hc
        obtain ⟨c1, c1', c2, c3, c4, c5, c6, c7, c8⟩ := hc
        simp only [Option.some.injEq] at h
        subst h
        obtain ⟨e1, e2⟩ := Prod.mk.inj c8
        refine ⟨c4, c5, by omega, by simp [c5], rfl, rfl, c8, rfl, rfl, rfl,
          Or.inl ⟨h1, c2, c1, c1', c6.symm, e1, rfl, rmac, by rw [c6, e2], c3⟩⟩
      · cases h
  · simp only [h1, ↓reduceIte] at h
    split at h
    · split at h
      · rename_i hc
        obtain ⟨c1, c2, c3, c4, c5, c6⟩ := hc
        simp only [Option.some.injEq] at h
        subst h
        exact ⟨c2, c3, by omega, by simp [c3], rfl, c1, c6, rfl, rfl, rfl, Or.inr ⟨h1, c1, c4, rfl, rfl⟩⟩
      · cases h
    · cases h

/-- One accepted observation, case by case. -/
theorem step_cases {s s' : State} {o : Obs} (h : step? s o = some s') :
    ∃ sa, advance s o.time = some sa ∧
    match o with
    | .conn _ dap => sa.connecting = false ∧
        s' = { sa with isOpen := true, connecting := true, resp := none, requested := false, dap := dap, seqSend := 0,
                       seqRecv := -1, keyReuse := sa.keyReuse || sa.initialized }
    | .rxr _ sid m es out => out = (rxResponse sa sid m es).1 ∧ s' = (rxResponse sa sid m es).2
    | .rxp _ svc out => svc ≠ sessionResponse ∧ svc ≠ secureWrapper ∧ out = .drop ∧ s' = sa
    | .rxw _ sid seq m inner ek es out => (m = true → (ek, es) = sa.keyEp) ∧
        out = (rxWrapped sa sid seq m inner).1 ∧ s' = (rxWrapped sa sid seq m inner).2
    | .ap _ svc kp => sa.initialized = false ∧ sa.connecting = true ∧ sa.isOpen = true ∧ svc = sessionRequest ∧
        kp = sa.nKeys ∧ s' = { sa with requested := true, kp := kp, nKeys := sa.nKeys + 1 }
    | .aw t seq svc aux ok sid ek es => autoWrite sa t seq svc aux ok sid ek es = some s'
    | .snd _ svc _ out => out = (send sa svc).1 ∧ s' = (send sa svc).2
    | .stop _ out => out = (stop sa).1 ∧ s' = (stop sa).2
    | .poke _ v => s'.seqSend = v ∧ s'.seqRecv = sa.seqRecv ∧ s'.initialized = sa.initialized
    | .cres _ _ => s' = { sa with connecting := false, resp := none, requested := false }
    | .st _ i r q => i = sa.initialized ∧ r = sa.seqRecv ∧ q = sa.seqSend ∧ s' = sa := by
  unfold step? at h
  cases hadv : advance s o.time with
  | none => simp [hadv] at h
  | some sa =>
    simp only [hadv] at h
    refine ⟨sa, rfl, ?_⟩
    cases o with
    | conn t dap =>
      simp only at h ⊢
      by_cases hc : sa.connecting = true
      · simp [hc] at h
      · simp only [hc, Bool.false_eq_true, ↓reduceIte, Option.some.injEq] at h
        exact ⟨by simpa using hc, h.symm⟩
    | rxr t sid m es out =>
      simp only at h ⊢
      by_cases hc : out = (rxResponse sa sid m es).1
      · simp only [hc, ↓reduceIte, Option.some.injEq] at h; exact ⟨hc, h.symm⟩
      · simp [hc] at h
    | rxp t svc out =>
      simp only at h ⊢
      split at h
      · rename_i hc
        simp only [Option.some.injEq] at h
        exact ⟨hc.1, hc.2.1, hc.2.2, h.symm⟩
      · cases h
    | rxw t sid seq m inner ek es out =>
      simp only at h ⊢
      split at h
      · rename_i hc
        simp only [Option.some.injEq] at h
        exact ⟨hc.1, hc.2, h.symm⟩
      · cases h
    | ap t svc kp =>
      simp only at h ⊢
      split at h
      · rename_i hc
        simp only [Option.some.injEq] at h
        exact ⟨hc.1, hc.2.1, hc.2.2.1, hc.2.2.2.1, hc.2.2.2.2, h.symm⟩
      · cases h
    | aw t seq svc aux ok sid ek es => exact h
    | snd t svc aux out =>
      simp only at h ⊢
      by_cases hc : out = (send sa svc).1
      · simp only [hc, ↓reduceIte, Option.some.injEq] at h; exact ⟨hc, h.symm⟩
      · simp [hc] at h
    | stop t out =>
      simp only at h ⊢
      by_cases hc : out = (stop sa).1
      · simp only [hc, ↓reduceIte, Option.some.injEq] at h; exact ⟨hc, h.symm⟩
      · simp [hc] at h
    | poke t v =>
      simp only [Option.some.injEq] at h ⊢
      subst h; exact ⟨rfl, rfl, rfl⟩
    | cres t ok =>
      simp only [Option.some.injEq] at h ⊢
      exact h.symm
    | st t i r q =>
      simp only at h ⊢
      split at h
      · rename_i hc
        simp only [Option.some.injEq] at h
        exact ⟨hc.1, hc.2.1, hc.2.2, h.symm⟩
      · cases h

theorem runFrom_cons {s s' : State} {o : Obs} {os : List Obs} (h : runFrom s (o :: os) = some s') :
    ∃ s1, step? s o = some s1 ∧ runFrom s1 os = some s' := by
  unfold runFrom at h
  split at h
  · cases h
  · rename_i s1 h1; exact ⟨s1, h1, h⟩

theorem runFrom_append {s s' : State} {as bs : List Obs} (h : runFrom s (as ++ bs) = some s') :
    ∃ s1, runFrom s as = some s1 ∧ runFrom s1 bs = some s' := by
  induction as generalizing s with
  | nil => exact ⟨s, rfl, h⟩
  | cons a as ih =>
    obtain ⟨s1, h1, h2⟩ := runFrom_cons h
    obtain ⟨s2, h3, h4⟩ := ih h2
    exact ⟨s2, by simp [runFrom, h1, h3], h4⟩

end XknxVerif.SecureSession
