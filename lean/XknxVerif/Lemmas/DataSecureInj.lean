/-
The protected fields of a Data Secure frame and the octet string the CBC-MAC
runs over; injectivity of that map (for Props/C16).  Core Lean only.
-/
import XknxVerif.Lemmas.DataSecure

namespace XknxVerif.DataSecure
open XknxVerif.Crypto
open XknxVerif.Generated.DataSecure (algAuth algEnc svcData apciSecHigh apciSecLow sequenceNumberMax)

/-- Everything Data Secure protects: SCF, sequence number, source, destination,
address type, extended frame format, TPCI and the plain APDU. -/
structure Prot where
  scf : Scf
  seq : Nat
  src : Nat
  dst : Nat
  group : Bool
  eff : Nat
  tpci : Nat
  apdu : Bytes
  deriving DecidableEq, Repr

def Prot.ctx (p : Prot) : Ctx :=
  ⟨Bytes.ofNatBE 2 p.src ++ Bytes.ofNatBE 2 p.dst, if p.group then 0x80 else 0, p.eff, p.tpci⟩

/-- What a frame can hold: two-octet addresses, 48-bit sequence number, 4-bit
EFF, TPCI octet of a data TPDU, SCF with a known algorithm and 3-bit service,
APDU of at most 255 octets. -/
structure Prot.WF (p : Prot) : Prop where
  hAlg : p.scf.algorithm = algAuth ∨ p.scf.algorithm = algEnc
  hSvc : p.scf.service < 8
  hSeq : p.seq < 2 ^ 48
  hSrc : p.src < 65536
  hDst : p.dst < 65536
  hEff : p.eff < 16
  hTpci : p.tpci < 256
  hData : p.tpci % 4 = 0
  hLen : p.apdu.length ≤ 255

/-- `block_0` for `p` with payload-length octet `q`. -/
def Prot.b0 (p : Prot) (q : Nat) : Bytes :=
  Bytes.ofNatBE 6 p.seq ++ (Bytes.ofNatBE 2 p.src ++ Bytes.ofNatBE 2 p.dst) ++
    [0, (if p.group then 0x80 else 0) ||| p.eff, p.tpci ||| apciSecHigh, apciSecLow, 0, q]

/-- The zero-padded octet string the CBC-MAC is computed over for `p`. -/
def Prot.macIn (p : Prot) : Bytes :=
  if p.scf.algorithm = algAuth then pad16 (macInput (p.b0 0) (p.scf.toKnx :: p.apdu) [])
  else pad16 (macInput (p.b0 p.apdu.length) [p.scf.toKnx] p.apdu)

/-- The length octet of `block_0` and the two-octet associated-data length. -/
def Prot.q (p : Prot) : Nat := if p.scf.algorithm = algAuth then 0 else p.apdu.length
def Prot.adLen (p : Prot) : Nat := if p.scf.algorithm = algAuth then 1 + p.apdu.length else 1

/-- Both algorithms: `block_0 ‖ len(A) ‖ SCF ‖ APDU`, zero padded. -/
theorem Prot.macIn_eq (p : Prot) :
    p.macIn = pad16 ((p.b0 p.q ++ Bytes.ofNatBE 2 p.adLen ++ [p.scf.toKnx]) ++ p.apdu) := by
  unfold Prot.macIn Prot.q Prot.adLen macInput
  split <;> simp [List.append_assoc, Nat.add_comm]

theorem Prot.b0_length (p : Prot) (q : Nat) : (p.b0 q).length = 16 := by
  simp [Prot.b0, Bytes.ofNatBE_length]

theorem group_ctl_lt' (g : Bool) (eff : Nat) (h : eff < 16) : ((if g then 0x80 else 0) ||| eff) < 256 := by
  cases g
  · exact Nat.or_lt_two_pow (n := 8) (by decide) (by omega)
  · exact Nat.or_lt_two_pow (n := 8) (by decide) (by omega)

theorem Prot.guards (p : Prot) (h : p.WF) : SecureGuards p.scf p.ctx p.apdu :=
  ⟨h.hAlg, group_ctl_lt' p.group p.eff h.hEff,
   Nat.or_lt_two_pow (n := 8) h.hTpci (by decide), h.hLen⟩

/-- The model's `block_0` on a well-formed tuple. -/
theorem Prot.block0_eq (p : Prot) (h : p.WF) (q : Nat) (hq : q < 256) :
    block0 (Bytes.ofNatBE 6 p.seq) p.ctx q = .ok (p.b0 q) := by
  have g := p.guards h
  rw [block0_ok _ _ q g.hCtl g.hTpci hq]
  rfl

/-- The MAC (before truncation) that `secure`/`getPlain` compute for `p` is the CBC-MAC of `p.macIn`. -/
theorem Prot.macCbc_eq (E : BlockFn) (key : Bytes) (p : Prot) (h : p.WF) :
    (if p.scf.algorithm = algAuth then macCbc E key (p.scf.toKnx :: p.apdu) [] (p.b0 0)
     else macCbc E key [p.scf.toKnx] p.apdu (p.b0 p.apdu.length)) = .ok (cbcLast E key p.macIn) := by
  unfold Prot.macIn macCbc
  have := h.hLen
  split
  · rw [if_pos (by simp; omega)]
  · rw [if_pos (by simp)]

/-! ### injectivity -/

theorem ofNatBE_inj (len a b : Nat) (ha : a < 256 ^ len) (hb : b < 256 ^ len)
    (h : Bytes.ofNatBE len a = Bytes.ofNatBE len b) : a = b := by
  rw [← Bytes.toNatBE_ofNatBE len a ha, ← Bytes.toNatBE_ofNatBE len b hb, h]

/-- Total decode of the SCF octet. -/
def scfDecode (raw : Nat) : Bool × Nat × Bool × Nat :=
  (raw &&& 0x80 != 0, (raw >>> 4) &&& 7, raw &&& 8 != 0, raw &&& 7)

theorem scfDecode_toKnx : ∀ (ta sb : Bool) (alg svc : Fin 8),
    scfDecode (Scf.toKnx ⟨ta, alg.val, sb, svc.val⟩) = (ta, alg.val, sb, svc.val) := by decide

theorem Scf.toKnx_inj (a b : Scf) (ha : a.algorithm < 8) (ha' : a.service < 8)
    (hb : b.algorithm < 8) (hb' : b.service < 8) (h : a.toKnx = b.toKnx) : a = b := by
  have h1 := scfDecode_toKnx a.toolAccess a.systemBroadcast ⟨a.algorithm, ha⟩ ⟨a.service, ha'⟩
  have h2 := scfDecode_toKnx b.toolAccess b.systemBroadcast ⟨b.algorithm, hb⟩ ⟨b.service, hb'⟩
  simp only at h1 h2
  have e1 : (⟨a.toolAccess, a.algorithm, a.systemBroadcast, a.service⟩ : Scf) = a := rfl
  have e2 : (⟨b.toolAccess, b.algorithm, b.systemBroadcast, b.service⟩ : Scf) = b := rfl
  rw [e1] at h1
  rw [e2] at h2
  rw [h, h2] at h1
  cases a; cases b
  simp only [Prod.mk.injEq] at h1
  simp only [Scf.mk.injEq]
  exact ⟨h1.1.symm, h1.2.1.symm, h1.2.2.1.symm, h1.2.2.2.symm⟩

theorem ctl_inj : ∀ (g g' : Bool) (e e' : Fin 16),
    ((if g then 0x80 else 0) ||| e.val) = ((if g' then 0x80 else 0) ||| e'.val) → g = g' ∧ e = e' := by
  decide

theorem tpci_inj : ∀ (t t' : Fin 64), (4 * t.val ||| 3) = (4 * t'.val ||| 3) → t = t' := by decide

theorem pad16_inj_of_length (x y : Bytes) (hl : x.length = y.length) (h : pad16 x = pad16 y) : x = y := by
  unfold pad16 at h
  rw [hl] at h
  split at h
  · exact h
  · exact (List.append_inj h hl).1

theorem pad16_take (x : Bytes) (n : Nat) (h : n ≤ x.length) : (pad16 x).take n = x.take n := by
  obtain ⟨z, hz, _⟩ := pad16_prefix x
  rw [hz, List.take_append_of_le_length h]

/-- **(d)** The map from the protected fields to the CBC-MAC input is injective
(on tuples a frame can hold). -/
theorem Prot.macIn_injective (p q : Prot) (hp : p.WF) (hq : q.WF) (h : p.macIn = q.macIn) : p = q := by
  rw [Prot.macIn_eq, Prot.macIn_eq] at h
  -- the first 19 octets
  have hXp : (p.b0 p.q ++ Bytes.ofNatBE 2 p.adLen ++ [p.scf.toKnx]).length = 19 := by
    simp [Prot.b0_length, Bytes.ofNatBE_length]
  have hXq : (q.b0 q.q ++ Bytes.ofNatBE 2 q.adLen ++ [q.scf.toKnx]).length = 19 := by
    simp [Prot.b0_length, Bytes.ofNatBE_length]
  have h19 := congrArg (List.take 19) h
  rw [pad16_take _ 19 (by rw [List.length_append, hXp]; omega), pad16_take _ 19 (by rw [List.length_append, hXq]; omega),
    List.take_left' hXp, List.take_left' hXq] at h19
  have hB := (List.append_inj h19 (by simp [Prot.b0_length, Bytes.ofNatBE_length])).1
  have hS := (List.append_inj h19 (by simp [Prot.b0_length, Bytes.ofNatBE_length])).2
  have hB0 := (List.append_inj hB (by simp [Prot.b0_length])).1
  have hL := (List.append_inj hB (by simp [Prot.b0_length])).2
  -- SCF
  have halgp : p.scf.algorithm < 8 := by rcases hp.hAlg with a | a <;> rw [a] <;> decide
  have halgq : q.scf.algorithm < 8 := by rcases hq.hAlg with a | a <;> rw [a] <;> decide
  have hscf : p.scf = q.scf :=
    Scf.toKnx_inj _ _ halgp hp.hSvc halgq hq.hSvc (by simpa using hS)
  -- block 0
  unfold Prot.b0 at hB0
  have h1 := (List.append_inj hB0 (by simp [Bytes.ofNatBE_length])).1
  have h2 := (List.append_inj hB0 (by simp [Bytes.ofNatBE_length])).2
  have hseqb := (List.append_inj h1 (by simp [Bytes.ofNatBE_length])).1
  have haddr := (List.append_inj h1 (by simp [Bytes.ofNatBE_length])).2
  have hsrcb := (List.append_inj haddr (by simp [Bytes.ofNatBE_length])).1
  have hdstb := (List.append_inj haddr (by simp [Bytes.ofNatBE_length])).2
  have hseq : p.seq = q.seq := ofNatBE_inj 6 _ _ (by have := hp.hSeq; omega) (by have := hq.hSeq; omega) hseqb
  have hsrc : p.src = q.src := ofNatBE_inj 2 _ _ hp.hSrc hq.hSrc hsrcb
  have hdst : p.dst = q.dst := ofNatBE_inj 2 _ _ hp.hDst hq.hDst hdstb
  simp only [List.cons.injEq, and_true, true_and] at h2
  obtain ⟨hctl, htp, hqq⟩ := h2
  have hge := ctl_inj p.group q.group ⟨p.eff, hp.hEff⟩ ⟨q.eff, hq.hEff⟩ hctl
  have hgroup : p.group = q.group := hge.1
  have heff : p.eff = q.eff := by simpa using congrArg Fin.val hge.2
  have htpci : p.tpci = q.tpci := by
    have e1 : 4 * (p.tpci / 4) = p.tpci := by have := hp.hData; omega
    have e2 : 4 * (q.tpci / 4) = q.tpci := by have := hq.hData; omega
    have := tpci_inj ⟨p.tpci / 4, by have := hp.hTpci; omega⟩ ⟨q.tpci / 4, by have := hq.hTpci; omega⟩
      (by simp only [e1, e2]; exact htp)
    have := congrArg Fin.val this
    simp only at this
    omega
  -- APDU length
  have hlen : p.apdu.length = q.apdu.length := by
    have hLn : p.adLen = q.adLen :=
      ofNatBE_inj 2 _ _ (by unfold Prot.adLen; have := hp.hLen; split <;> omega)
        (by unfold Prot.adLen; have := hq.hLen; split <;> omega) hL
    unfold Prot.adLen at hLn
    unfold Prot.q at hqq
    rw [hscf] at hLn hqq
    split at hLn
    · omega
    · rename_i hna
      simpa [hna] using hqq
  -- APDU
  have hlen' : ((p.b0 p.q ++ Bytes.ofNatBE 2 p.adLen ++ [p.scf.toKnx]) ++ p.apdu).length
      = ((q.b0 q.q ++ Bytes.ofNatBE 2 q.adLen ++ [q.scf.toKnx]) ++ q.apdu).length := by
    rw [List.length_append, hXp, List.length_append (bs := q.apdu), hXq, hlen]
  have hx := pad16_inj_of_length _ _ hlen' h
  have hapdu : p.apdu = q.apdu := (List.append_inj hx (by rw [hXp, hXq])).2
  cases p; cases q
  simp only at hscf hseq hsrc hdst hgroup heff htpci hapdu
  simp [hscf, hseq, hsrc, hdst, hgroup, heff, htpci, hapdu]

end XknxVerif.DataSecure
