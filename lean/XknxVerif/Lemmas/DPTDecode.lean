/-
Totality / error classification of the DPT decoders (used by Props/C07):
for every well-formed row, `decode` yields a value, `parse` or `conv` — never
`.other _` — for every payload.  The per-row well-formedness is a decidable
predicate that is checked over the regenerated table by kernel evaluation.
-/
import XknxVerif.Model.DPT.Cores

namespace XknxVerif.DPT
open XknxVerif.SF

/-- outcome is a value or one of the two declared errors -/
def Declared {α} : M α → Prop
  | .ok _ => True
  | .error .parse => True
  | .error .conv => True
  | .error (.other _) => False

def declaredB {α} : M α → Bool
  | .ok _ => true
  | .error .parse => true
  | .error .conv => true
  | .error (.other _) => false

theorem declaredB_iff {α} (m : M α) : declaredB m = true ↔ Declared m := by
  cases m with
  | ok a => simp [declaredB, Declared]
  | error e => cases e <;> simp [declaredB, Declared]

/-- payloads that can arrive in a group telegram: a 6 bit value or octets -/
def Payload.WF : Payload → Prop
  | .binary v => v < 64
  | .array bs => ∀ x ∈ bs, x < 256

def hasValues (t : EnumTable) (n : Nat) : Bool := (List.range n).all fun k => (t.byValue k).isSome

theorem hasValues_spec {t : EnumTable} {n k : Nat} (h : hasValues t n = true) (hk : k < n) :
    ∃ s, t.byValue k = some s := by
  unfold hasValues at h
  rw [List.all_eq_true] at h
  have := h k (List.mem_range.mpr hk)
  exact Option.isSome_iff_exists.mp this

/-- decoder-side well-formedness of a row (decidable; checked over the generated table) -/
def wfDec (ctx : Ctx) (r : Row) : Bool :=
  match r.family with
  | .enum => decide (rawLen r ≥ 1)
  | .binctl => rawLen r == 1 && hasValues (r.enumTable "data") 2
  | .ctldim | .ctlblinds => rawLen r == 1 && hasValues (r.enumTable "control") 2
  | .structint | .s16 | .f32 => true
  | .u16 | .f16 => rawLen r == 2
  | .u8 | .s8 | .scenenum | .scenectl | .hvacstatus => rawLen r == 1
  | .scaling => rawLen r == 1 && (List.range 256).all fun b => declaredB (decScaling r [b])
  | .string => r.fmt == "ascii" || r.fmt == "latin_1"
  | .time => rawLen r == 3 && hasValues (r.enumTable "day") 8
  | .date | .rgb => rawLen r == 3
  | .datetime => rawLen r == 8 && hasValues (r.enumTable "day_of_week") 8
  | .rgbw | .xyy | .cttrans => rawLen r == 6
  | .xyytrans => rawLen r == 8
  | .ctctl | .relrgb => rawLen r == 3 && hasValues (r.enumTable "control") 2
  | .relrgbw => rawLen r == 5 && hasValues (r.enumTable "control") 2
  | .relxyy => rawLen r == 4 && hasValues (r.enumTable "control") 2
  | .tariffenergy =>
    rawLen r == 6 && ctx.activeEnergy.kind == .array && ctx.activeEnergy.length == 4
      && ctx.tariff.kind == .array && ctx.tariff.length == 1
  | .unmodelled => false

/-! ### validate -/

theorem validate_ok {r : Row} {p : Payload} {raw : List Nat} (h : validate r p = .ok raw) (hp : p.WF) :
    raw.length = rawLen r ∧ ∀ x ∈ raw, x < 256 := by
  unfold validate at h
  unfold rawLen
  split at h
  · rename_i bs hk
    split at h
    · rename_i hl
      injection h with h; subst h
      simp only [hk]
      exact ⟨by simpa using (beq_iff_eq.mp hl).symm, hp⟩
    · cases h
  · rename_i v hk
    split at h
    · cases h
    · injection h with h; subst h
      simp only [hk]
      refine ⟨rfl, ?_⟩
      intro x hx
      have hx' : x = v := by simpa using hx
      have : v < 64 := hp
      omega
  · cases h

/-- wrong payload kind or length ⇒ `CouldNotParseTelegram`, nothing else -/
theorem validate_error {r : Row} {p : Payload} {e : Err} (h : validate r p = .error e) : e = .parse := by
  unfold validate at h
  split at h
  · split at h
    · cases h
    · injection h with h; exact h.symm
  · split at h
    · injection h with h; exact h.symm
    · cases h
  · injection h with h; exact h.symm

/-! ### list shapes -/

theorem len1 {l : List Nat} (h : l.length = 1) : ∃ a, l = [a] := by
  match l, h with
  | [a], _ => exact ⟨a, rfl⟩

theorem len2 {l : List Nat} (h : l.length = 2) : ∃ a b, l = [a, b] := by
  match l, h with
  | [a, b], _ => exact ⟨a, b, rfl⟩

theorem len3 {l : List Nat} (h : l.length = 3) : ∃ a b c, l = [a, b, c] := by
  match l, h with
  | [a, b, c], _ => exact ⟨a, b, c, rfl⟩

theorem len4 {l : List Nat} (h : l.length = 4) : ∃ a b c d, l = [a, b, c, d] := by
  match l, h with
  | [a, b, c, d], _ => exact ⟨a, b, c, d, rfl⟩

theorem len5 {l : List Nat} (h : l.length = 5) : ∃ a b c d e, l = [a, b, c, d, e] := by
  match l, h with
  | [a, b, c, d, e], _ => exact ⟨a, b, c, d, e, rfl⟩

theorem len6 {l : List Nat} (h : l.length = 6) : ∃ a b c d e f, l = [a, b, c, d, e, f] := by
  match l, h with
  | [a, b, c, d, e, f], _ => exact ⟨a, b, c, d, e, f, rfl⟩

theorem len8 {l : List Nat} (h : l.length = 8) : ∃ a b c d e f g i, l = [a, b, c, d, e, f, g, i] := by
  match l, h with
  | [a, b, c, d, e, f, g, i], _ => exact ⟨a, b, c, d, e, f, g, i, rfl⟩

/-! ### per family: the decoder never yields `.other` on a raw list of the right shape -/

theorem declared_ite_conv {α} (c : Prop) [Decidable c] (v : α) :
    Declared (if c then (.error .conv : M α) else .ok v) := by
  split <;> simp [Declared]

theorem mapM_ok {α β} (f : α → M β) (l : List α) (h : ∀ x ∈ l, ∃ y, f x = .ok y) :
    ∃ ys, l.mapM f = .ok ys := by
  induction l with
  | nil => exact ⟨[], rfl⟩
  | cons x xs ih =>
    obtain ⟨y, hy⟩ := h x (List.mem_cons_self ..)
    obtain ⟨ys, hys⟩ := ih (fun z hz => h z (List.mem_cons_of_mem _ hz))
    exact ⟨y :: ys, by simp [List.mapM_cons, hy, hys, bind, Except.bind, pure, Except.pure]⟩

theorem decEnum_declared (r : Row) (raw : List Nat) (h : raw.length ≥ 1) : Declared (decEnum r raw) := by
  unfold decEnum
  match raw, h with
  | b :: _, _ =>
    simp only []
    split <;> simp [Declared]

theorem decBinCtl_declared (r : Row) (b : Nat) (h : hasValues (r.enumTable "data") 2 = true) :
    Declared (decBinCtl r [b]) := by
  unfold decBinCtl enumOfValue
  obtain ⟨s, hs⟩ := hasValues_spec h (Nat.mod_lt b (by decide : 2 > 0))
  simp [hs, Declared]

theorem decCtl4_declared (r : Row) (b : Nat) (h : hasValues (r.enumTable "control") 2 = true) :
    Declared (decCtl4 r [b]) := by
  unfold decCtl4 enumOfValue
  obtain ⟨s, hs⟩ := hasValues_spec h (Nat.mod_lt (b >>> 3) (by decide : 2 > 0))
  simp [hs, Declared]

theorem decStructInt_declared (r : Row) (raw : List Nat) : Declared (decStructInt r raw) := by
  unfold decStructInt
  split <;> simp [Declared]

theorem decS16_declared (r : Row) (raw : List Nat) : Declared (decS16 r raw) := by
  unfold decS16
  split <;> simp [Declared]

theorem decF32_declared (r : Row) (raw : List Nat) : Declared (decF32 r raw) := by
  unfold decF32
  split <;> simp [Declared]

theorem decU16_declared (r : Row) (a b : Nat) : Declared (decU16 r [a, b]) := by
  unfold decU16
  cases r.res <;> simp [Declared]

theorem decF16_declared (r : Row) (a b : Nat) : Declared (decF16 r [a, b]) := by
  unfold decF16
  simp only []
  split <;> simp [Declared]

theorem decU8_declared (r : Row) (b : Nat) : Declared (decU8 r [b]) := by
  unfold decU8
  simp only []
  split <;> simp [Declared]

theorem decS8_declared (r : Row) (b : Nat) : Declared (decS8 r [b]) := by
  unfold decS8
  simp only []
  split <;> simp [Declared]

theorem decSceneNum_declared (r : Row) (b : Nat) : Declared (decSceneNum r [b]) := by
  unfold decSceneNum
  simp only []
  split <;> simp [Declared]

theorem decSceneCtl_declared (r : Row) (b : Nat) : Declared (decSceneCtl r [b]) := by
  simp [decSceneCtl, Declared]

theorem decHVACStatus_declared (r : Row) (b : Nat) : Declared (decHVACStatus r [b]) := by
  simp [decHVACStatus, Declared]

theorem decString_declared (r : Row) (raw : List Nat) (h : (r.fmt == "ascii" || r.fmt == "latin_1") = true) :
    Declared (decString r raw) := by
  unfold decString
  simp only []
  split
  · simp [Declared]
  · split
    · simp [Declared]
    · rename_i h1 h2
      simp [h1, h2] at h

theorem decTime_declared (r : Row) (a b c : Nat) (ha : a < 256) (h : hasValues (r.enumTable "day") 8 = true) :
    Declared (decTime r [a, b, c]) := by
  unfold decTime enumOfValue
  obtain ⟨s, hs⟩ := hasValues_spec h (show a / 32 < 8 by omega)
  simp only [hs]
  split <;> simp [Declared]

theorem decDate_declared (r : Row) (a b c : Nat) : Declared (decDate r [a, b, c]) := by
  unfold decDate
  simp only []
  split <;> simp [Declared]

theorem decDateTime_declared (r : Row) (r0 r1 r2 r3 r4 r5 r6 r7 : Nat) (h3 : r3 < 256)
    (h : hasValues (r.enumTable "day_of_week") 8 = true) :
    Declared (decDateTime r [r0, r1, r2, r3, r4, r5, r6, r7]) := by
  unfold decDateTime enumOfValue
  obtain ⟨s, hs⟩ := hasValues_spec h (show r3 / 32 < 8 by omega)
  simp only [hs]
  split
  · rename_i hnone
    split at hnone <;> simp at hnone
  · exact declared_ite_conv _ _

theorem decRGB_declared (r : Row) (a b c : Nat) : Declared (decRGB r [a, b, c]) := by
  simp [decRGB, Declared]

theorem decRGBW_declared (r : Row) (a b c d e f : Nat) : Declared (decRGBW r [a, b, c, d, e, f]) := by
  simp [decRGBW, Declared]

theorem decXYY_declared (r : Row) (a b c d e f : Nat) : Declared (decXYY r [a, b, c, d, e, f]) := by
  simp [decXYY, Declared]

theorem decXYYTrans_declared (r : Row) (a b c d e f g i : Nat) : Declared (decXYYTrans r [a, b, c, d, e, f, g, i]) := by
  simp [decXYYTrans, Declared]

theorem decCTTrans_declared (r : Row) (a b c d e f : Nat) : Declared (decCTTrans r [a, b, c, d, e, f]) := by
  simp [decCTTrans, Declared]

theorem unpackDim_ok (t : EnumTable) (raw : Nat) (h : hasValues t 2 = true) : ∃ a, unpackDim t raw = .ok a := by
  unfold unpackDim enumOfValue
  obtain ⟨s, hs⟩ := hasValues_spec h (Nat.mod_lt (raw >>> 3) (by decide : 2 > 0))
  simp [hs]

theorem decRel_declared (r : Row) (fs : List (String × Nat × Bool)) (h : hasValues (r.enumTable "control") 2 = true) :
    Declared (decRel r fs) := by
  unfold decRel
  have := mapM_ok (fun ((n, raw, valid) : String × Nat × Bool) =>
      (do if valid then let d ← unpackDim (r.enumTable "control") raw; pure (n, d) else pure (n, Atom.none) : M (String × Atom))) fs
    (by
      intro x _
      obtain ⟨n, raw, valid⟩ := x
      obtain ⟨a, ha⟩ := unpackDim_ok (r.enumTable "control") raw h
      cases valid <;> simp [ha, bind, Except.bind, pure, Except.pure])
  obtain ⟨out, ho⟩ := this
  simp only [bind, Except.bind, pure, Except.pure] at ho ⊢
  rw [ho]
  simp [Declared]

theorem decTariffEnergy_declared (ctx : Ctx) (r : Row) (a b c d t f : Nat)
    (h1 : ctx.activeEnergy.kind = .array) (h2 : ctx.activeEnergy.length = 4)
    (h3 : ctx.tariff.kind = .array) (h4 : ctx.tariff.length = 1) :
    Declared (decTariffEnergy ctx r [a, b, c, d, t, f]) := by
  unfold decTariffEnergy
  have hv1 : validate ctx.activeEnergy (.array [a, b, c, d]) = .ok [a, b, c, d] := by simp [validate, h1, h2]
  have hv2 : validate ctx.tariff (.array [t]) = .ok [t] := by simp [validate, h3, h4]
  simp only [hv1, hv2, Except.bind, bind, pure, Except.pure]
  have he : ∀ raw, atomOf (decStructInt ctx.activeEnergy raw) = .error .conv ∨ ∃ x, atomOf (decStructInt ctx.activeEnergy raw) = .ok x := by
    intro raw; unfold decStructInt; split <;> simp [atomOf]
  have ht : atomOf (decU8 ctx.tariff [t]) = .error .conv ∨ ∃ x, atomOf (decU8 ctx.tariff [t]) = .ok x := by
    unfold decU8; simp only []; split <;> simp [atomOf]
  by_cases hf1 : bit f 1 <;> by_cases hf0 : bit f 0 <;> simp only [hf1, hf0] <;>
    (try rcases he [a, b, c, d] with he | ⟨x, he⟩) <;> (try rcases ht with ht | ⟨y, ht⟩) <;>
    simp_all [Declared]

/-- every decoder, on a raw list as `validate_payload` returns it for a well-formed row -/
theorem decodeRaw_declared (ctx : Ctx) (r : Row) (h : wfDec ctx r = true) (raw : List Nat)
    (hl : raw.length = rawLen r) (hb : ∀ x ∈ raw, x < 256) : Declared (decodeRaw ctx r raw) := by
  unfold decodeRaw
  unfold wfDec at h
  cases hf : r.family <;> simp only [hf, Bool.and_eq_true, beq_iff_eq, decide_eq_true_eq] at h ⊢
  case enum => exact decEnum_declared r raw (by omega)
  case binctl => obtain ⟨a, rfl⟩ := len1 (hl.trans h.1); exact decBinCtl_declared r a h.2
  case structint => exact decStructInt_declared r raw
  case u16 => obtain ⟨a, b, rfl⟩ := len2 (hl.trans h); exact decU16_declared r a b
  case s16 => exact decS16_declared r raw
  case f16 => obtain ⟨a, b, rfl⟩ := len2 (hl.trans h); exact decF16_declared r a b
  case f32 => exact decF32_declared r raw
  case u8 => obtain ⟨a, rfl⟩ := len1 (hl.trans h); exact decU8_declared r a
  case scaling =>
    obtain ⟨a, rfl⟩ := len1 (hl.trans h.1)
    have := (List.all_eq_true.mp h.2) a (List.mem_range.mpr (hb a (List.mem_singleton.mpr rfl)))
    exact (declaredB_iff _).mp this
  case s8 => obtain ⟨a, rfl⟩ := len1 (hl.trans h); exact decS8_declared r a
  case string => exact decString_declared r raw (by simpa using h)
  case scenenum => obtain ⟨a, rfl⟩ := len1 (hl.trans h); exact decSceneNum_declared r a
  case scenectl => obtain ⟨a, rfl⟩ := len1 (hl.trans h); exact decSceneCtl_declared r a
  case ctldim => obtain ⟨a, rfl⟩ := len1 (hl.trans h.1); exact decCtl4_declared r a h.2
  case ctlblinds => obtain ⟨a, rfl⟩ := len1 (hl.trans h.1); exact decCtl4_declared r a h.2
  case time =>
    obtain ⟨a, b, c, rfl⟩ := len3 (hl.trans h.1)
    exact decTime_declared r a b c (hb a (by simp)) h.2
  case date => obtain ⟨a, b, c, rfl⟩ := len3 (hl.trans h); exact decDate_declared r a b c
  case datetime =>
    obtain ⟨a, b, c, d, e, f, g, i, rfl⟩ := len8 (hl.trans h.1)
    exact decDateTime_declared r a b c d e f g i (hb d (by simp)) h.2
  case hvacstatus => obtain ⟨a, rfl⟩ := len1 (hl.trans h); exact decHVACStatus_declared r a
  case rgb => obtain ⟨a, b, c, rfl⟩ := len3 (hl.trans h); exact decRGB_declared r a b c
  case rgbw => obtain ⟨a, b, c, d, e, f, rfl⟩ := len6 (hl.trans h); exact decRGBW_declared r a b c d e f
  case xyy => obtain ⟨a, b, c, d, e, f, rfl⟩ := len6 (hl.trans h); exact decXYY_declared r a b c d e f
  case xyytrans => obtain ⟨a, b, c, d, e, f, g, i, rfl⟩ := len8 (hl.trans h); exact decXYYTrans_declared r a b c d e f g i
  case cttrans => obtain ⟨a, b, c, d, e, f, rfl⟩ := len6 (hl.trans h); exact decCTTrans_declared r a b c d e f
  case ctctl => obtain ⟨a, b, c, rfl⟩ := len3 (hl.trans h.1); exact decRel_declared r _ h.2
  case relrgb => obtain ⟨a, b, c, rfl⟩ := len3 (hl.trans h.1); exact decRel_declared r _ h.2
  case relrgbw => obtain ⟨a, b, c, d, e, rfl⟩ := len5 (hl.trans h.1); exact decRel_declared r _ h.2
  case relxyy => obtain ⟨a, b, c, d, rfl⟩ := len4 (hl.trans h.1); exact decRel_declared r _ h.2
  case tariffenergy =>
    obtain ⟨⟨⟨⟨h0, h1⟩, h2⟩, h3⟩, h4⟩ := h
    obtain ⟨a, b, c, d, e, f, rfl⟩ := len6 (hl.trans h0)
    exact decTariffEnergy_declared ctx r a b c d e f h1 h2 h3 h4
  case unmodelled => exact absurd h (by simp)

/-- `T.from_knx(p)` returns a value or raises CouldNotParseTelegram / ConversionError -/
theorem decode_declared (ctx : Ctx) (r : Row) (h : wfDec ctx r = true) (p : Payload) (hp : p.WF) :
    Declared (decode ctx r p) := by
  unfold decode
  cases hv : validate r p with
  | error e => rw [validate_error hv]; simp [Except.bind, Declared]
  | ok raw =>
    obtain ⟨hl, hb⟩ := validate_ok hv hp
    simpa [Except.bind] using decodeRaw_declared ctx r h raw hl hb

end XknxVerif.DPT
