/-
Chunked numeric sweeps (DESIGN §7): the finite domains of the binary64-dependent DPT cores are covered by
256-case `decide +kernel` theorems (XknxVerif/Sweep/*), combined here into the quantified statements.
-/
import XknxVerif.Lemmas.DPTRoundTrip

namespace XknxVerif.DPT
open XknxVerif.SF

theorem oneItem_rt (hA : ∀ k, k < 16 → oneItemChunkA k = true) (hB : ∀ k, k < 4 → oneItemChunkB k = true)
    (r : Row) (hr : r ∈ Generated.table) (hl : rawLen r = 1) (p : Payload) (hp : p.WF) : RT tableCtx r p := by
  have hmem : r ∈ oneItemRows := by
    unfold oneItemRows
    rw [List.mem_filter]
    exact ⟨hr, by simp [hl]⟩
  apply rt1_sound hl _ _ p hp
  · intro k hk
    have := hA k hk
    unfold oneItemChunkA at this
    exact (List.all_eq_true.mp this) r hmem
  · intro k hk
    have := hB k hk
    unfold oneItemChunkB at this
    exact (List.all_eq_true.mp this) r hmem

theorem s16_of_chunks (h : ∀ k, k < 1024 → s16Chunk k = true) (P : PyNum × PyNum × PyNum)
    (hP : P ∈ s16FloatParams) (i : Int) (h1 : -32768 ≤ i) (h2 : i ≤ 32767) : s16Core P i = true := by
  let n : Nat := if i < 0 then (i + 65536).toNat else i.toNat
  have hn : n < 65536 := by simp only [n]; split <;> omega
  have hi : toS16 n = i := by simp only [n, toS16]; split <;> split <;> omega
  have hk := h (n / 64) (by omega)
  unfold s16Chunk at hk
  rw [List.all_eq_true] at hk
  have := hk P hP
  rw [List.all_eq_true] at this
  have := this (n % 64) (List.mem_range.mpr (Nat.mod_lt _ (by decide)))
  have hnn : 64 * (n / 64) + n % 64 = n := Nat.div_add_mod n 64
  rw [hnn, hi] at this
  exact this

theorem s16int_of_chunks (h : ∀ k, k < 1024 → s16IntChunk k = true) (P : PyNum × PyNum × PyNum)
    (hP : P ∈ s16IntParams) (i : Int) (h1 : -32768 ≤ i) (h2 : i ≤ 32767) : s16Core P i = true := by
  let n : Nat := if i < 0 then (i + 65536).toNat else i.toNat
  have hn : n < 65536 := by simp only [n]; split <;> omega
  have hi : toS16 n = i := by simp only [n, toS16]; split <;> split <;> omega
  have hk := h (n / 64) (by omega)
  unfold s16IntChunk at hk
  rw [List.all_eq_true] at hk
  have := hk P hP
  rw [List.all_eq_true] at this
  have := this (n % 64) (List.mem_range.mpr (Nat.mod_lt _ (by decide)))
  have hnn : 64 * (n / 64) + n % 64 = n := Nat.div_add_mod n 64
  rw [hnn, hi] at this
  exact this

theorem f16_of_chunks (h : ∀ k, k < 256 → f16Chunk k = true) (data : Nat) (hd : data < 65536) :
    f16Core data = true := by
  have hk := h (data / 256) (by omega)
  unfold f16Chunk at hk
  rw [List.all_eq_true] at hk
  have := hk (data % 256) (List.mem_range.mpr (Nat.mod_lt _ (by decide)))
  rwa [Nat.div_add_mod data 256] at this

end XknxVerif.DPT
