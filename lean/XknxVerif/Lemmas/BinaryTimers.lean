/-
Helper lemmas for C42: frame conditions of the reactions of the BinaryTimers monitor and the
step invariants lifted to every accepted trace.
-/
import XknxVerif.Model.BinaryTimers

namespace XknxVerif.BinaryTimers
open XknxVerif.TraceRun

/-! ### Frame lemmas -/

@[simp] theorem bump_frame (c : Cfg) (s : St) (v : Bool) (t : Nat) :
    (bump c s v t).resetAt = s.resetAt ∧ (bump c s v t).lastOn = s.lastOn ∧ (bump c s v t).now = s.now ∧
    (bump c s v t).st = s.st ∧ (bump c s v t).rv = s.rv ∧ (bump c s v t).ctxAt = s.ctxAt ∧
    (bump c s v t).expect = s.expect ∧ (bump c s v t).log = s.log ∧ (bump c s v t).lastWrite = s.lastWrite ∧
    (bump c s v t).lastSet = some t ∧ (bump c s v t).hist = (t, v) :: s.hist := by
  unfold bump
  cases s.lastSet <;> cases v <;> simp <;> split <;> simp

theorem setInternal_frame (c : Cfg) (s : St) (v : Bool) (t : Nat) :
    (setInternal c s v t).1.resetAt = s.resetAt ∧ (setInternal c s v t).1.lastOn = s.lastOn ∧
    (setInternal c s v t).1.now = s.now ∧ (setInternal c s v t).1.rv = s.rv ∧
    (setInternal c s v t).1.expect = s.expect ∧ (setInternal c s v t).1.log = s.log ∧
    (setInternal c s v t).1.lastWrite = s.lastWrite := by
  unfold setInternal
  split
  · split
    · simp [bump_frame]
    · simp
  · split <;> simp

/-- After `_set_internal_state(v)` the state is `v` (either it was set, or it already was `v`). -/
theorem setInternal_st (c : Cfg) (s : St) (v : Bool) (t : Nat) :
    (setInternal c s v t).1.st = some v := by
  unfold setInternal
  split
  · split
    · simp [bump_frame]
    · simp
  · rename_i h
    have : s.st = some v := by
      simp only [Bool.or_eq_true, bne_iff_ne, ne_eq, Bool.and_eq_true, not_or, Decidable.not_not] at h
      exact h.1
    split <;> simp [this]

theorem setInternal_outs_time (c : Cfg) (s : St) (v : Bool) (t : Nat) :
    ∀ o ∈ (setInternal c s v t).2, o.time = t := by
  unfold setInternal
  split
  · split <;> simp [Out.time]
  · split <;> simp [Out.time]

theorem armReset_frame (c : Cfg) (s : St) (t : Nat) :
    (armReset c s t).st = s.st ∧ (armReset c s t).rv = s.rv ∧ (armReset c s t).now = s.now ∧
    (armReset c s t).ctxAt = s.ctxAt ∧ (armReset c s t).expect = s.expect ∧ (armReset c s t).log = s.log ∧
    (armReset c s t).hist = s.hist ∧ (armReset c s t).cOn = s.cOn ∧ (armReset c s t).cOff = s.cOff ∧
    (armReset c s t).lastSet = s.lastSet ∧ (armReset c s t).lastWrite = s.lastWrite := by
  unfold armReset
  split
  · split <;> simp
  · simp

/-- What arming does to the timer: with a reset time configured and the device on, the deadline is
`t + reset_after` and `lastOn = t`; otherwise nothing changes. -/
theorem armReset_timer (c : Cfg) (s : St) (t : Nat) :
    (∃ r, c.reset = some r ∧ s.st = some true ∧
        (armReset c s t).resetAt = some (t + r) ∧ (armReset c s t).lastOn = some t) ∨
    ((c.reset = none ∨ s.st ≠ some true) ∧
        (armReset c s t).resetAt = s.resetAt ∧ (armReset c s t).lastOn = s.lastOn) := by
  unfold armReset
  cases hr : c.reset with
  | none => right; simp
  | some r =>
    by_cases hs : s.st = some true
    · left; exact ⟨r, rfl, hs, by simp [hs], by simp [hs]⟩
    · right; simp [hs]


/-! ### Case analysis of one accepted step -/

theorem fireAt_cases {c : Cfg} {s s' : St} {o : Out} {t : Nat} (hf : fireAt c s o t = some s') :
    (s.resetAt = some t ∧ o ∈ (fireReset c s t).2 ∧
      s' = { (fireReset c s t).1 with now := t, expect := (fireReset c s t).2.erase o, log := o :: (fireReset c s t).1.log }) ∨
    (s.ctxAt = some t ∧ o ∈ (fireCtx c s t).2 ∧
      s' = { (fireCtx c s t).1 with now := t, expect := (fireCtx c s t).2.erase o, log := o :: (fireCtx c s t).1.log }) := by
  unfold fireAt at hf
  simp only at hf
  by_cases h1 : (s.resetAt == some t) = true
  · simp only [h1, ↓reduceIte] at hf
    by_cases h2 : (fireReset c s t).2.contains o = true
    · simp only [h2, ↓reduceIte, Option.some.injEq] at hf
      left
      exact ⟨by simpa using h1, by simpa using h2, hf.symm⟩
    · simp only [h2, Bool.false_eq_true, ↓reduceIte] at hf
      by_cases h3 : (s.ctxAt == some t) = true
      · simp only [h3, ↓reduceIte] at hf
        by_cases h4 : (fireCtx c s t).2.contains o = true
        · simp only [h4, ↓reduceIte, Option.some.injEq] at hf
          right
          exact ⟨by simpa using h3, by simpa using h4, hf.symm⟩
        · rw [if_neg h4] at hf; cases hf
      · simp [h3] at hf
  · simp only [h1, Bool.false_eq_true, ↓reduceIte] at hf
    by_cases h3 : (s.ctxAt == some t) = true
    · simp only [h3, ↓reduceIte] at hf
      by_cases h4 : (fireCtx c s t).2.contains o = true
      · simp only [h4, ↓reduceIte, Option.some.injEq] at hf
        right
        exact ⟨by simpa using h3, by simpa using h4, hf.symm⟩
      · rw [if_neg h4] at hf; cases hf
    · simp [h3] at hf

/-- The four ways a step can be accepted. -/
inductive StepCase (c : Cfg) (s : St) (o : Obs) (s' : St) : Prop where
  /-- an expected output of the running reaction is observed -/
  | consume (x : Out) (ho : o = .out x) (hne : s.expect ≠ []) (ht : x.time = s.now) (hmem : x ∈ s.expect)
      (hs : s' = { s with expect := s.expect.erase x, log := x :: s.log })
  /-- an output while nothing is expected: a timer due at exactly that time fires -/
  | fire (x : Out) (s1 : St) (ho : o = .out x) (he : s.expect = [])
      (ha : advance c s x.time false = some s1) (hf : fireAt c s1 x x.time = some s')
  /-- an input -/
  | input (s1 : St) (r : St × List Out) (he : s.expect = []) (ha : advance c s o.time true = some s1)
      (hr : inputReaction c s1 o = some r) (hs : s' = react o.time r)
  /-- a sample / the end marker -/
  | sample (s1 : St) (he : s.expect = []) (ha : advance c s o.time true = some s1)
      (hq : sampleOk c s1 o = some true) (hs : s' = { s1 with now := o.time })

theorem step_cases {c : Cfg} {s s' : St} {o : Obs} (h : step? c s o = some s') :
    s.now ≤ o.time ∧ StepCase c s o s' := by
  unfold step? at h
  by_cases hnow : o.time < s.now
  · simp [hnow] at h
  · simp only [hnow, ↓reduceIte] at h
    refine ⟨Nat.le_of_not_lt hnow, ?_⟩
    have generic : ∀ (o : Obs), (∀ x, o ≠ .out x) →
        (if (!s.expect.isEmpty) = true then none else
          (advance c s o.time true).bind fun s1 =>
            match sampleOk c s1 o with
            | some ok => if ok = true then some { s1 with now := o.time } else none
            | none => (inputReaction c s1 o).map (react o.time)) = some s' → StepCase c s o s' := by
      intro o _ h
      by_cases he : (!s.expect.isEmpty) = true
      · simp [he] at h
      · simp only [he, Bool.false_eq_true, ↓reduceIte] at h
        have he' : s.expect = [] := by simpa using he
        cases ha : advance c s o.time true with
        | none => simp [ha] at h
        | some s1 =>
          simp only [ha, Option.bind_some] at h
          cases hq : sampleOk c s1 o with
          | some ok =>
            simp only [hq] at h
            cases ok
            · simp at h
            · simp only [↓reduceIte, Option.some.injEq] at h
              exact .sample s1 he' ha hq h.symm
          | none =>
            simp only [hq] at h
            cases hr : inputReaction c s1 o with
            | none => simp [hr] at h
            | some r =>
              simp only [hr, Option.map_some, Option.some.injEq] at h
              exact .input s1 r he' ha hr h.symm
    cases o with
    | out x =>
      simp only [Obs.time] at h
      by_cases he : s.expect.isEmpty = true
      · simp only [he, ↓reduceIte] at h
        cases ha : advance c s x.time false with
        | none => simp [ha] at h
        | some s1 =>
          simp only [ha, Option.bind_some] at h
          exact .fire x s1 rfl (by simpa using he) ha h
      · simp only [he, Bool.false_eq_true, ↓reduceIte] at h
        by_cases hc : (x.time == s.now && s.expect.contains x) = true
        · simp only [hc, ↓reduceIte, Option.some.injEq] at h
          simp only [Bool.and_eq_true, beq_iff_eq, List.contains_iff_mem] at hc
          exact .consume x rfl (by simpa using he) hc.1 hc.2 h.symm
        · rw [if_neg hc] at h; cases h
    | tw v t => exact generic _ (by intro x hx; cases hx) h
    | tr v t => exact generic _ (by intro x hx; cases hx) h
    | api v t => exact generic _ (by intro x hx; cases hx) h
    | ig t => exact generic _ (by intro x hx; cases hx) h
    | q st n t => exact generic _ (by intro x hx; cases hx) h
    | fin t => exact generic _ (by intro x hx; cases hx) h

/-- The reactions an input can have. -/
theorem inputReaction_ig {c : Cfg} {s : St} {t : Nat} {r : St × List Out}
    (h : inputReaction c s (.ig t) = some r) : r = (s, []) := by
  simp only [inputReaction, Option.some.injEq] at h
  exact h.symm

theorem inputReaction_cases {c : Cfg} {s : St} {o : Obs} {r : St × List Out}
    (h : inputReaction c s o = some r) (hnig : ∀ t, o ≠ .ig t) :
    ∃ v t, o.time = t ∧
      ((c.switch = true ∧ (o = .tw v t ∨ o = .tr v t) ∧ r = switchProcess c s v t) ∨
       (c.switch = true ∧ o = .api v t ∧ r = ((switchProcess c s v t).1, .bw v t :: (switchProcess c s v t).2)) ∨
       (c.switch = false ∧ o = .tw v t ∧ r = sensorWrite c s v t) ∨
       (c.switch = false ∧ o = .tr v t ∧ r = sensorResponse c s v t)) := by
  cases o with
  | tw v t =>
    refine ⟨v, t, rfl, ?_⟩
    simp only [inputReaction, Option.some.injEq] at h
    cases hsw : c.switch <;> simp [hsw] at h
    · right; right; left; exact ⟨rfl, rfl, h.symm⟩
    · left; exact ⟨rfl, Or.inl rfl, h.symm⟩
  | tr v t =>
    refine ⟨v, t, rfl, ?_⟩
    simp only [inputReaction, Option.some.injEq] at h
    cases hsw : c.switch <;> simp [hsw] at h
    · right; right; right; exact ⟨rfl, rfl, h.symm⟩
    · left; exact ⟨rfl, Or.inr rfl, h.symm⟩
  | api v t =>
    refine ⟨v, t, rfl, ?_⟩
    simp only [inputReaction] at h
    cases hsw : c.switch <;> simp [hsw] at h
    right; left; exact ⟨rfl, rfl, h.symm⟩
  | ig t => exact absurd rfl (hnig t)
  | out x => simp [inputReaction] at h
  | q st n t => simp [inputReaction] at h
  | fin t => simp [inputReaction] at h

/-! ### The reset invariant -/

/-- Invariant of the reset timer, relative to a clock reading `t`. -/
structure RInvAt (c : Cfg) (s : St) (t : Nat) : Prop where
  /-- an armed reset timer is not overdue and points at `lastOn + reset_after` -/
  arm : ∀ d, s.resetAt = some d → t ≤ d ∧ ∃ l r, s.lastOn = some l ∧ c.reset = some r ∧ d = l + r
  lastOnLe : ∀ l, s.lastOn = some l → l ≤ t
  /-- a device that is on (with a reset time configured) has its timer armed -/
  onArmed : ∀ r, c.reset = some r → s.st = some true → s.resetAt.isSome = true
  /-- sensor: after a timed reset (`state` off but the remote value still on) no timer runs -/
  stale : c.switch = false → s.rv = some true → s.st ≠ some true → s.resetAt = none
  /-- sensor: `state` on implies the remote value is on -/
  onRv : c.switch = false → s.st = some true → s.rv = some true

theorem RInvAt.mono {c : Cfg} {s : St} {t t' : Nat} (h : RInvAt c s t) (ht : t ≤ t')
    (hd : ∀ d, s.resetAt = some d → t' ≤ d) : RInvAt c s t' :=
  ⟨fun d hd' => ⟨hd d hd', (h.arm d hd').2⟩, fun l hl => Nat.le_trans (h.lastOnLe l hl) ht, h.onArmed, h.stale, h.onRv⟩

theorem RInvAt.congr {c : Cfg} {s s' : St} {t : Nat} (h : RInvAt c s t)
    (h1 : s'.resetAt = s.resetAt) (h2 : s'.lastOn = s.lastOn) (h3 : s'.st = s.st) (h4 : s'.rv = s.rv) :
    RInvAt c s' t :=
  ⟨fun d hd => by rw [h1] at hd; rw [h2]; exact h.arm d hd,
   fun l hl => by rw [h2] at hl; exact h.lastOnLe l hl,
   fun r hr hs => by rw [h3] at hs; rw [h1]; exact h.onArmed r hr hs,
   fun hsw hrv hst => by rw [h4] at hrv; rw [h3] at hst; rw [h1]; exact h.stale hsw hrv hst,
   fun hsw hs => by rw [h3] at hs; rw [h4]; exact h.onRv hsw hs⟩

/-- Arming re-establishes the invariant from its time-independent parts. -/
theorem armReset_RInvAt (c : Cfg) (s : St) (t : Nat)
    (harm : ∀ d, s.resetAt = some d → t ≤ d ∧ ∃ l r, s.lastOn = some l ∧ c.reset = some r ∧ d = l + r)
    (hl : ∀ l, s.lastOn = some l → l ≤ t)
    (hstale : c.switch = false → s.rv = some true → s.st ≠ some true → s.resetAt = none)
    (honrv : c.switch = false → s.st = some true → s.rv = some true) :
    RInvAt c (armReset c s t) t := by
  have hf := armReset_frame c s t
  rcases armReset_timer c s t with ⟨r, hr, hs, h1, h2⟩ | ⟨hno, h1, h2⟩
  · refine ⟨?_, ?_, ?_, ?_, ?_⟩
    · intro d hd
      rw [h1] at hd
      cases hd
      exact ⟨Nat.le_add_right _ _, t, r, h2, hr, rfl⟩
    · intro l hl'
      rw [h2] at hl'
      cases hl'
      exact Nat.le_refl _
    · intro _ _ _
      simp [h1]
    · intro _ _ hne
      rw [hf.1] at hne
      exact absurd hs hne
    · intro hsw hs'
      rw [hf.1] at hs'; rw [hf.2.1]; exact honrv hsw hs'
  · refine ⟨?_, ?_, ?_, ?_, ?_⟩
    · intro d hd
      rw [h1] at hd
      rw [h2]
      exact harm d hd
    · intro l hl'
      rw [h2] at hl'
      exact hl l hl'
    · intro r hr hs
      rw [hf.1] at hs
      rcases hno with hno | hno
      · rw [hno] at hr; cases hr
      · exact absurd hs hno
    · intro hsw hrv hst
      rw [hf.2.1] at hrv
      rw [hf.1] at hst
      rw [h1]
      exact hstale hsw hrv hst
    · intro hsw hs'
      rw [hf.1] at hs'; rw [hf.2.1]; exact honrv hsw hs'

theorem switchProcess_RInvAt (c : Cfg) (s : St) (v : Bool) (t : Nat) (hsw : c.switch = true)
    (h : RInvAt c s t) : RInvAt c (switchProcess c s v t).1 t := by
  unfold switchProcess
  exact armReset_RInvAt c _ t h.arm h.lastOnLe (fun h' => by simp [hsw] at h') (fun h' => by simp [hsw] at h')

theorem switchProcess_outs_time (c : Cfg) (s : St) (v : Bool) (t : Nat) :
    ∀ o ∈ (switchProcess c s v t).2, o.time = t := by
  unfold switchProcess
  simp only
  split <;> simp [Out.time]

theorem sensorWrite_RInvAt (c : Cfg) (s : St) (v : Bool) (t : Nat) (h : RInvAt c s t) :
    RInvAt c (sensorWrite c s v t).1 t := by
  unfold sensorWrite
  have hf := setInternal_frame c { s with rv := some v, lastWrite := true } v t
  have hst := setInternal_st c { s with rv := some v, lastWrite := true } v t
  simp only at hf hst ⊢
  apply armReset_RInvAt
  · intro d hd; rw [hf.1] at hd; rw [hf.2.1]; exact h.arm d hd
  · intro l hl; rw [hf.2.1] at hl; exact h.lastOnLe l hl
  · intro _ hrv hne
    rw [hf.2.2.2.1] at hrv
    rw [hst] at hne
    exact absurd hrv hne
  · intro _ hs
    rw [hf.2.2.2.1]
    rw [hst] at hs
    exact hs

theorem sensorResponse_RInvAt (c : Cfg) (s : St) (v : Bool) (t : Nat) (h : RInvAt c s t) :
    RInvAt c (sensorResponse c s v t).1 t := by
  unfold sensorResponse
  split
  · have hf := setInternal_frame c { s with rv := some v, lastWrite := false } v t
    have hst := setInternal_st c { s with rv := some v, lastWrite := false } v t
    simp only at hf hst ⊢
    apply armReset_RInvAt
    · intro d hd; rw [hf.1] at hd; rw [hf.2.1]; exact h.arm d hd
    · intro l hl; rw [hf.2.1] at hl; exact h.lastOnLe l hl
    · intro _ hrv hne
      rw [hf.2.2.2.1] at hrv
      rw [hst] at hne
      exact absurd hrv hne
    · intro _ hs
      rw [hf.2.2.2.1]
      rw [hst] at hs
      exact hs
  · exact armReset_RInvAt c s t h.arm h.lastOnLe h.stale h.onRv

theorem sensor_outs_time (c : Cfg) (s : St) (v : Bool) (t : Nat) :
    (∀ o ∈ (sensorWrite c s v t).2, o.time = t) ∧ (∀ o ∈ (sensorResponse c s v t).2, o.time = t) := by
  constructor
  · unfold sensorWrite
    exact setInternal_outs_time c _ v t
  · unfold sensorResponse
    split
    · exact setInternal_outs_time c _ v t
    · simp

/-- Every input reaction keeps the reset invariant and stamps its outputs with the input's time. -/
theorem inputReaction_RInvAt {c : Cfg} {s : St} {o : Obs} {r : St × List Out}
    (hr : inputReaction c s o = some r) (h : RInvAt c s o.time) :
    RInvAt c r.1 o.time ∧ ∀ x ∈ r.2, x.time = o.time := by
  by_cases hig : ∃ t, o = Obs.ig t
  · obtain ⟨t0, rfl⟩ := hig
    have hr' := inputReaction_ig hr
    subst hr'
    exact ⟨h, fun x hx => by cases hx⟩
  have hnig : ∀ t, o ≠ Obs.ig t := fun t h => hig ⟨t, h⟩
  obtain ⟨v, t, ht, hc⟩ := inputReaction_cases hr hnig
  rw [ht] at h ⊢
  rcases hc with ⟨hsw, _, rfl⟩ | ⟨hsw, _, rfl⟩ | ⟨_, _, rfl⟩ | ⟨_, _, rfl⟩
  · exact ⟨switchProcess_RInvAt c s v t hsw h, switchProcess_outs_time c s v t⟩
  · refine ⟨switchProcess_RInvAt c s v t hsw h, ?_⟩
    intro x hx
    simp only [List.mem_cons] at hx
    rcases hx with rfl | hx
    · rfl
    · exact switchProcess_outs_time c s v t x hx
  · exact ⟨sensorWrite_RInvAt c s v t h, (sensor_outs_time c s v t).1⟩
  · exact ⟨sensorResponse_RInvAt c s v t h, (sensor_outs_time c s v t).2⟩

/-- Firing the reset task (at any time `t'`) disarms the timer and leaves the device off. -/
theorem fireReset_props (c : Cfg) (s : St) (t' : Nat) :
    (fireReset c s t').1.resetAt = none ∧ (fireReset c s t').1.st = some false ∧
    (fireReset c s t').1.lastOn = s.lastOn ∧ (fireReset c s t').1.now = s.now ∧
    (fireReset c s t').1.expect = s.expect ∧ (fireReset c s t').1.log = s.log ∧
    (∀ o ∈ (fireReset c s t').2, o.time = t') ∧ (fireReset c s t').1.rv = s.rv := by
  unfold fireReset
  split
  · unfold switchProcess armReset
    simp only
    cases c.reset <;> simp [Out.time] <;> split <;> simp [Out.time]
  · have hf := setInternal_frame c { s with resetAt := none } false t'
    have hst := setInternal_st c { s with resetAt := none } false t'
    exact ⟨hf.1, hst, hf.2.1, hf.2.2.1, hf.2.2.2.2.1, hf.2.2.2.2.2.1, setInternal_outs_time c _ false t', hf.2.2.2.1⟩

theorem fireReset_RInvAt (c : Cfg) (s : St) (t t' : Nat) (h : RInvAt c s t) :
    RInvAt c (fireReset c s t').1 t := by
  have hp := fireReset_props c s t'
  refine ⟨?_, ?_, ?_, ?_, ?_⟩
  · intro d hd; rw [hp.1] at hd; cases hd
  · intro l hl; rw [hp.2.2.1] at hl; exact h.lastOnLe l hl
  · intro r _ hs; rw [hp.2.1] at hs; cases hs
  · intro _ _ _; exact hp.1
  · intro _ hs; rw [hp.2.1] at hs; cases hs

theorem fireCtx_frame (c : Cfg) (s : St) (t : Nat) :
    (fireCtx c s t).1.resetAt = s.resetAt ∧ (fireCtx c s t).1.lastOn = s.lastOn ∧
    (fireCtx c s t).1.st = s.st ∧ (fireCtx c s t).1.rv = s.rv ∧ (fireCtx c s t).1.now = s.now ∧
    (fireCtx c s t).1.expect = s.expect ∧ (fireCtx c s t).1.log = s.log ∧
    (fireCtx c s t).1.ctxAt = none ∧ (∀ o ∈ (fireCtx c s t).2, o.time = t) := by
  simp [fireCtx, Out.time]

theorem fireCtx_RInvAt (c : Cfg) (s : St) (t t' : Nat) (h : RInvAt c s t) :
    RInvAt c (fireCtx c s t').1 t :=
  have hf := fireCtx_frame c s t'
  h.congr hf.1 hf.2.1 hf.2.2.1 hf.2.2.2.1

theorem due_false {t d : Nat} {incl : Bool} (h : due t incl d = false) : t ≤ d ∧ (incl = true → t < d) := by
  unfold due at h
  cases incl <;> simp at h <;> simp <;> omega

/-- What `advance` does: nothing, or one silent firing of the reset task; afterwards no timer is due. -/
theorem advance_spec {c : Cfg} {s s1 : St} {t : Nat} {incl : Bool} (ha : advance c s t incl = some s1) :
    (s1 = s ∨ ∃ r, s.resetAt = some r ∧ due t incl r = true ∧ resetFirst s r = true ∧ s1 = (fireReset c s r).1 ∧
        (fireReset c s r).2 = []) ∧
    (∀ d, s1.resetAt = some d → due t incl d = false) ∧ (∀ d, s1.ctxAt = some d → due t incl d = false) := by
  unfold advance at ha
  cases h1 : advance1 c s t incl with
  | none => simp [h1] at ha
  | some s1' =>
    simp only [h1, Option.bind_some] at ha
    by_cases hnd : (dueOpt t incl s1'.resetAt || dueOpt t incl s1'.ctxAt) = true
    · simp [hnd] at ha
    · simp only [hnd, Bool.false_eq_true, ↓reduceIte, Option.some.injEq] at ha
      subst ha
      simp only [Bool.or_eq_true, not_or, Bool.not_eq_true] at hnd
      refine ⟨?_, ?_, ?_⟩
      · unfold advance1 at h1
        cases hr : s.resetAt with
        | none => simp [hr] at h1; left; exact h1.symm
        | some r =>
          simp only [hr] at h1
          by_cases hdue : (due t incl r && resetFirst s r) = true
          · simp only [hdue, ↓reduceIte] at h1
            by_cases hemp : (fireReset c s r).2.isEmpty = true
            · simp only [hemp, ↓reduceIte, Option.some.injEq] at h1
              right
              simp only [Bool.and_eq_true] at hdue
              exact ⟨r, rfl, hdue.1, hdue.2, h1.symm, by simpa using hemp⟩
            · simp [hemp] at h1
          · simp only [hdue, Bool.false_eq_true, ↓reduceIte, Option.some.injEq] at h1
            left; exact h1.symm
      · intro d hd
        have := hnd.1
        rw [hd] at this
        exact this
      · intro d hd
        have := hnd.2
        rw [hd] at this
        exact this

theorem advance_frame {c : Cfg} {s s1 : St} {t : Nat} {incl : Bool} (ha : advance c s t incl = some s1) :
    s1.now = s.now ∧ s1.expect = s.expect ∧ s1.log = s.log ∧ s1.lastOn = s.lastOn := by
  rcases (advance_spec ha).1 with rfl | ⟨r, _, _, _, rfl, _⟩
  · simp
  · have hp := fireReset_props c s r
    exact ⟨hp.2.2.2.1, hp.2.2.2.2.1, hp.2.2.2.2.2.1, hp.2.2.1⟩

theorem advance_RInvAt {c : Cfg} {s s1 : St} {t : Nat} {incl : Bool} (h : RInvAt c s s.now) (ht : s.now ≤ t)
    (ha : advance c s t incl = some s1) : RInvAt c s1 t := by
  obtain ⟨hcase, hnd, _⟩ := advance_spec ha
  rcases hcase with rfl | ⟨r, _, _, _, rfl, _⟩
  · exact h.mono ht (fun d hd => (due_false (hnd d hd)).1)
  · exact (fireReset_RInvAt c s s.now r h).mono ht (fun d hd => (due_false (hnd d hd)).1)

/-- The step invariant for the reset timer. -/
structure RInv (c : Cfg) (s : St) : Prop where
  at_ : RInvAt c s s.now
  expTime : ∀ o ∈ s.expect, o.time = s.now

theorem RInv_init (c : Cfg) : RInv c init := by
  refine ⟨⟨?_, ?_, ?_, ?_, ?_⟩, ?_⟩ <;> simp [init]

theorem fireAt_RInv {c : Cfg} {s s' : St} {o : Out} {t : Nat} (h : RInvAt c s t)
    (hf : fireAt c s o t = some s') : RInv c s' := by
  rcases fireAt_cases hf with ⟨_, _, rfl⟩ | ⟨_, _, rfl⟩
  · have hp := fireReset_props c s t
    refine ⟨(fireReset_RInvAt c s t t h).congr rfl rfl rfl rfl, ?_⟩
    intro o' ho'
    exact hp.2.2.2.2.2.2.1 o' (List.mem_of_mem_erase ho')
  · have hp := fireCtx_frame c s t
    refine ⟨(fireCtx_RInvAt c s t t h).congr rfl rfl rfl rfl, ?_⟩
    intro o' ho'
    exact hp.2.2.2.2.2.2.2.2 o' (List.mem_of_mem_erase ho')

theorem step_RInv (c : Cfg) (s : St) (o : Obs) (s' : St) (h : RInv c s) (hs : step? c s o = some s') :
    RInv c s' := by
  obtain ⟨hnow, hc⟩ := step_cases hs
  cases hc with
  | consume x ho hne ht hmem hs =>
    subst hs
    exact ⟨h.at_.congr rfl rfl rfl rfl, fun o' ho' => h.expTime o' (List.mem_of_mem_erase ho')⟩
  | fire x s1 ho he ha hf =>
    subst ho
    exact fireAt_RInv (advance_RInvAt h.at_ hnow ha) hf
  | input s1 r he ha hr hs =>
    subst hs
    have h1 := inputReaction_RInvAt hr (advance_RInvAt h.at_ hnow ha)
    exact ⟨h1.1.congr rfl rfl rfl rfl, h1.2⟩
  | sample s1 he ha hq hs =>
    subst hs
    refine ⟨(advance_RInvAt h.at_ hnow ha).congr rfl rfl rfl rfl, ?_⟩
    simp [(advance_frame ha).2.1, he]

/-- The reset invariant holds after every accepted trace. -/
theorem RInv_run (c : Cfg) (tr : List Obs) (s : St) (h : run? (step? c) init tr = some s) : RInv c s :=
  inv_run? (step? c) (RInv c) (step_RInv c) tr init s (RInv_init c) h


/-! ### Relating the ghost fields to the trace -/

theorem lastOnTime_snoc (h : List Obs) (e : Obs) :
    lastOnTime (h ++ [e]) = match onInputTime e with | some t => some t | none => lastOnTime h := by
  unfold lastOnTime
  rw [List.foldl_append]
  rfl

theorem outsOf_snoc (h : List Obs) (e : Obs) :
    outsOf (h ++ [e]) = outsOf h ++ (match e with | .out x => [x] | _ => []) := by
  simp only [outsOf, List.filterMap_append]
  cases e <;> simp

theorem close_on {o : Obs} {v : Bool} {t : Nat} (ho : onInputTime o = if v then some t else none)
    {A : Nat → Prop} {B : Prop} (k1 : v = true → A t) (k2 : v = false → B) :
    (∀ t', onInputTime o = some t' → A t') ∧ (onInputTime o = none → B) := by
  cases v
  · simp only [Bool.false_eq_true, ↓reduceIte] at ho
    exact ⟨fun t' ht' => (by rw [ho] at ht'; cases ht'), fun _ => k2 rfl⟩
  · simp only [↓reduceIte] at ho
    exact ⟨fun t' ht' => (by rw [ho] at ht'; cases ht'; exact k1 rfl), fun hn => (by rw [ho] at hn; cases hn)⟩

/-- How an input reaction moves the reset timer: an 'on' input leaves it either disarmed or pointing at
the input's time; any other input leaves timer and `lastOn` untouched. -/
theorem inputReaction_lastOn {c : Cfg} {s : St} {o : Obs} {r : St × List Out}
    (hr : inputReaction c s o = some r) (h : RInvAt c s o.time) :
    (∀ t, onInputTime o = some t →
      (r.1.resetAt.isSome = true → r.1.lastOn = some t) ∧
      (c.switch = true → c.reset.isSome = true → r.1.lastOn = some t)) ∧
    (onInputTime o = none → r.1.resetAt = s.resetAt ∧ r.1.lastOn = s.lastOn) := by
  by_cases hig : ∃ t, o = Obs.ig t
  · obtain ⟨t0, rfl⟩ := hig
    have hr' := inputReaction_ig hr
    subst hr'
    exact ⟨fun t ht => by simp [onInputTime] at ht, fun _ => ⟨rfl, rfl⟩⟩
  have hnig : ∀ t, o ≠ Obs.ig t := fun t h => hig ⟨t, h⟩
  obtain ⟨v, t, ht, hc⟩ := inputReaction_cases hr hnig
  rw [ht] at h
  -- the ways a reaction ends: `armReset` on a state whose `st` is `v`
  have key : ∀ (s0 : St), s0.resetAt = s.resetAt → s0.lastOn = s.lastOn → s0.st = some v →
      (v = true → ((armReset c s0 t).resetAt.isSome = true → (armReset c s0 t).lastOn = some t) ∧
        (c.reset.isSome = true → (armReset c s0 t).lastOn = some t)) ∧
      (v = false → (armReset c s0 t).resetAt = s.resetAt ∧ (armReset c s0 t).lastOn = s.lastOn) := by
    intro s0 h1 h2 h3
    rcases armReset_timer c s0 t with ⟨r', hr', hs, h4, h5⟩ | ⟨hno, h4, h5⟩
    · refine ⟨fun _ => ⟨fun _ => h5, fun _ => h5⟩, ?_⟩
      intro hv; subst hv; rw [h3] at hs; cases hs
    · refine ⟨?_, fun _ => ⟨h4.trans h1, h5.trans h2⟩⟩
      intro hv; subst hv
      rcases hno with hno | hno
      · refine ⟨?_, fun hsome => by simp [hno] at hsome⟩
        intro hsome
        rw [h4, h1] at hsome
        cases hd : s.resetAt with
        | none => simp [hd] at hsome
        | some d =>
          obtain ⟨_, _, r', _, hr', _⟩ := h.arm d hd
          rw [hno] at hr'; cases hr'
      · exact absurd h3 hno
  rcases hc with ⟨hsw, ho, rfl⟩ | ⟨hsw, ho, rfl⟩ | ⟨hsw, ho, rfl⟩ | ⟨hsw, ho, rfl⟩
  · -- switch, telegram
    have k := key { s with st := some v } rfl rfl rfl
    have hon : onInputTime o = if v then some t else none := by
      rcases ho with rfl | rfl <;> cases v <;> rfl
    unfold switchProcess
    exact close_on hon (fun hv => ⟨(k.1 hv).1, fun _ => (k.1 hv).2⟩) k.2
  · -- switch, API call
    have k := key { s with st := some v } rfl rfl rfl
    have hon : onInputTime o = if v then some t else none := by
      subst ho; cases v <;> rfl
    unfold switchProcess
    exact close_on hon (fun hv => ⟨(k.1 hv).1, fun _ => (k.1 hv).2⟩) k.2
  · -- sensor, write
    have hon : onInputTime o = if v then some t else none := by
      subst ho; cases v <;> rfl
    have hf := setInternal_frame c { s with rv := some v, lastWrite := true } v t
    have hst := setInternal_st c { s with rv := some v, lastWrite := true } v t
    have k := key (setInternal c { s with rv := some v, lastWrite := true } v t).1 hf.1 hf.2.1 hst
    unfold sensorWrite
    exact close_on hon (fun hv => ⟨(k.1 hv).1, fun hs' => by simp [hsw] at hs'⟩) k.2
  · -- sensor, response
    have hon : onInputTime o = if v then some t else none := by
      subst ho; cases v <;> rfl
    unfold sensorResponse
    split
    · have hf := setInternal_frame c { s with rv := some v, lastWrite := false } v t
      have hst := setInternal_st c { s with rv := some v, lastWrite := false } v t
      have k := key (setInternal c { s with rv := some v, lastWrite := false } v t).1 hf.1 hf.2.1 hst
      exact close_on hon (fun hv => ⟨(k.1 hv).1, fun hs' => by simp [hsw] at hs'⟩) k.2
    · -- the response is ignored by the remote value: `rv = some v`
      rename_i hign
      have hrv : s.rv = some v := by
        simp only [Bool.or_eq_true, beq_iff_eq, bne_iff_ne, ne_eq, not_or, Decidable.not_not] at hign
        exact hign.2
      refine close_on hon (fun hv => ⟨?_, fun hs' => by simp [hsw] at hs'⟩) ?_
      · -- an ignored 'on' response: armed only if the device is on
        subst hv
        intro hsome
        rcases armReset_timer c s t with ⟨r', hr', hs, h4, h5⟩ | ⟨hno, h4, h5⟩
        · exact h5
        · simp only at hsome
          rw [h4] at hsome
          rcases hno with hno | hno
          · cases hd : s.resetAt with
            | none => simp [hd] at hsome
            | some d =>
              obtain ⟨_, _, r', _, hr', _⟩ := h.arm d hd
              rw [hno] at hr'; cases hr'
          · rw [h.stale hsw hrv hno] at hsome
            cases hsome
      · -- an ignored 'off' response: the device cannot be on (its remote value is off)
        intro hv
        subst hv
        rcases armReset_timer c s t with ⟨r', hr', hs, h4, h5⟩ | ⟨hno, h4, h5⟩
        · have := h.onRv hsw hs
          rw [hrv] at this
          cases this
        · exact ⟨h4, h5⟩

theorem inputReaction_log {c : Cfg} {s : St} {o : Obs} {r : St × List Out}
    (hr : inputReaction c s o = some r) : r.1.log = s.log := by
  by_cases hig : ∃ t, o = Obs.ig t
  · obtain ⟨t0, rfl⟩ := hig
    have hr' := inputReaction_ig hr
    subst hr'
    rfl
  have hnig : ∀ t, o ≠ Obs.ig t := fun t h => hig ⟨t, h⟩
  obtain ⟨v, t, _, hc⟩ := inputReaction_cases hr hnig
  rcases hc with ⟨_, _, rfl⟩ | ⟨_, _, rfl⟩ | ⟨_, _, rfl⟩ | ⟨_, _, rfl⟩
  · simp [switchProcess, (armReset_frame c _ t).2.2.2.2.2.1]
  · simp [switchProcess, (armReset_frame c _ t).2.2.2.2.2.1]
  · simp [sensorWrite, (armReset_frame c _ t).2.2.2.2.2.1, (setInternal_frame c _ v t).2.2.2.2.2.1]
  · unfold sensorResponse
    split
    · simp [(armReset_frame c _ t).2.2.2.2.2.1, (setInternal_frame c _ v t).2.2.2.2.2.1]
    · simp [(armReset_frame c _ t).2.2.2.2.2.1]

/-- Trace-indexed invariant: the ghost `lastOn` is the time of the last 'on' telegram whenever the timer is
armed (always, for the Switch), and `log` is the list of outputs observed. -/
structure HInv (c : Cfg) (tr : List Obs) (s : St) : Prop where
  rinv : RInv c s
  armed : s.resetAt.isSome = true → s.lastOn = lastOnTime tr
  sw : c.switch = true → c.reset.isSome = true → s.lastOn = lastOnTime tr
  log : s.log = (outsOf tr).reverse

theorem HInv_init (c : Cfg) : HInv c [] init :=
  ⟨RInv_init c, by simp [init], by simp [init, lastOnTime], by simp [init, outsOf]⟩

theorem advance_reset {c : Cfg} {s s1 : St} {t : Nat} {incl : Bool} (ha : advance c s t incl = some s1) :
    s1.resetAt = s.resetAt ∨ s1.resetAt = none := by
  rcases (advance_spec ha).1 with rfl | ⟨r, _, _, _, rfl, _⟩
  · left; rfl
  · right; exact (fireReset_props c s r).1

theorem step_HInv (c : Cfg) (h : List Obs) (s : St) (e : Obs) (s' : St) (hi : HInv c h s)
    (hs : step? c s e = some s') : HInv c (h ++ [e]) s' := by
  have hr' := step_RInv c s e s' hi.rinv hs
  obtain ⟨hnow, hc⟩ := step_cases hs
  cases hc with
  | consume x ho hne ht hmem hs =>
    subst hs; subst ho
    refine ⟨hr', ?_, ?_, ?_⟩
    · simpa [lastOnTime_snoc, onInputTime] using hi.armed
    · simpa [lastOnTime_snoc, onInputTime] using hi.sw
    · simp [outsOf_snoc, hi.log]
  | fire x s1 ho he ha hf =>
    subst ho
    have hfr := advance_frame ha
    have hres := advance_reset ha
    have harm1 : s1.resetAt.isSome = true → s1.lastOn = lastOnTime h := by
      intro hsome
      rcases hres with hres | hres
      · rw [hres] at hsome; rw [hfr.2.2.2]; exact hi.armed hsome
      · rw [hres] at hsome; cases hsome
    rcases fireAt_cases hf with ⟨_, _, rfl⟩ | ⟨_, _, rfl⟩
    · have hp := fireReset_props c s1 x.time
      refine ⟨hr', ?_, ?_, ?_⟩
      · intro hsome; simp only [hp.1] at hsome; cases hsome
      · intro hsw hrs
        simp only [hp.2.2.1, hfr.2.2.2, lastOnTime_snoc, onInputTime]
        exact hi.sw hsw hrs
      · simp [outsOf_snoc, hp.2.2.2.2.2.1, hfr.2.2.1, hi.log]
    · have hp := fireCtx_frame c s1 x.time
      refine ⟨hr', ?_, ?_, ?_⟩
      · intro hsome
        simp only [hp.1] at hsome
        simp only [hp.2.1, lastOnTime_snoc, onInputTime]
        exact harm1 hsome
      · intro hsw hrs
        simp only [hp.2.1, hfr.2.2.2, lastOnTime_snoc, onInputTime]
        exact hi.sw hsw hrs
      · simp [outsOf_snoc, hp.2.2.2.2.2.2.1, hfr.2.2.1, hi.log]
  | input s1 r he ha hr hs =>
    subst hs
    have hfr := advance_frame ha
    have hres := advance_reset ha
    have h1 := advance_RInvAt hi.rinv.at_ hnow ha
    have hl := inputReaction_lastOn hr h1
    have hlog : r.1.log = s1.log := inputReaction_log hr
    have hnotout : (match e with | .out x => [x] | _ => ([] : List Out)) = [] := by
      cases e <;> simp [inputReaction] at hr ⊢
    refine ⟨hr', ?_, ?_, ?_⟩
    · intro hsome
      simp only [react] at hsome ⊢
      rw [lastOnTime_snoc]
      cases hon : onInputTime e with
      | some t => exact (hl.1 t hon).1 hsome
      | none =>
        obtain ⟨h2, h3⟩ := hl.2 hon
        rw [h2] at hsome
        rw [h3, hfr.2.2.2]
        rcases hres with hres | hres
        · rw [hres] at hsome; exact hi.armed hsome
        · rw [hres] at hsome; cases hsome
    · intro hsw hrs
      simp only [react]
      rw [lastOnTime_snoc]
      cases hon : onInputTime e with
      | some t => exact (hl.1 t hon).2 hsw hrs
      | none =>
        obtain ⟨_, h3⟩ := hl.2 hon
        rw [h3, hfr.2.2.2]
        exact hi.sw hsw hrs
    · simp only [react, hlog, hfr.2.2.1, hi.log, outsOf_snoc, hnotout, List.append_nil]
  | sample s1 he ha hq hs =>
    subst hs
    have hfr := advance_frame ha
    have hres := advance_reset ha
    have hon : onInputTime e = none := by cases e <;> simp [sampleOk] at hq <;> rfl
    have hnotout : (match e with | .out x => [x] | _ => ([] : List Out)) = [] := by
      cases e <;> simp [sampleOk] at hq ⊢
    refine ⟨hr', ?_, ?_, ?_⟩
    · intro hsome
      simp only at hsome ⊢
      rw [lastOnTime_snoc, hon, hfr.2.2.2]
      rcases hres with hres | hres
      · rw [hres] at hsome; exact hi.armed hsome
      · rw [hres] at hsome; cases hsome
    · intro hsw hrs
      simp only
      rw [lastOnTime_snoc, hon, hfr.2.2.2]
      exact hi.sw hsw hrs
    · simp only [hfr.2.2.1, hi.log, outsOf_snoc, hnotout, List.append_nil]

theorem HInv_run (c : Cfg) (tr : List Obs) (s : St) (h : run? (step? c) init tr = some s) : HInv c tr s := by
  have := inv_hist_run? (step? c) (HInv c) (step_HInv c) tr [] init s (HInv_init c) h
  simpa using this


/-! ### An 'on' input switches the device on and arms the timer -/

theorem inputReaction_on {c : Cfg} {s : St} {o : Obs} {r : St × List Out} {t rs : Nat}
    (hr : inputReaction c s o = some r) (hon : onInputTime o = some t) (hrs : c.reset = some rs)
    (hst : s.st = some true) : r.1.st = some true ∧ r.1.resetAt = some (o.time + rs) := by
  have hnig : ∀ t, o ≠ Obs.ig t := fun t h => by subst h; simp [onInputTime] at hon
  obtain ⟨v, t', ht, hc⟩ := inputReaction_cases hr hnig
  have hv : v = true := by
    rcases hc with ⟨_, ho, _⟩ | ⟨_, ho, _⟩ | ⟨_, ho, _⟩ | ⟨_, ho, _⟩
    · rcases ho with rfl | rfl <;> cases v <;> simp [onInputTime] at hon ⊢
    all_goals (subst ho; cases v <;> simp [onInputTime] at hon ⊢)
  subst hv
  rw [ht]
  have arm : ∀ s0 : St, s0.st = some true →
      (armReset c s0 t').st = some true ∧ (armReset c s0 t').resetAt = some (t' + rs) := by
    intro s0 h0
    rcases armReset_timer c s0 t' with ⟨r', hr', _, h4, _⟩ | ⟨hno, _, _⟩
    · rw [hrs] at hr'; cases hr'
      exact ⟨(armReset_frame c s0 t').1.trans h0, h4⟩
    · rcases hno with hno | hno
      · rw [hrs] at hno; cases hno
      · exact absurd h0 hno
  rcases hc with ⟨_, _, rfl⟩ | ⟨_, _, rfl⟩ | ⟨_, _, rfl⟩ | ⟨_, _, rfl⟩
  · exact arm _ rfl
  · exact arm _ rfl
  · exact arm _ (setInternal_st c _ true t')
  · unfold sensorResponse
    split
    · exact arm _ (setInternal_st c _ true t')
    · exact arm _ hst

/-! ### The Switch writes 'off' to the bus when its timer fires -/

/-- Once an 'on' input armed the timer, either it is still armed or the 'off' write at the deadline has been
produced (expected or already observed). -/
def KInv (c : Cfg) (s : St) : Prop :=
  c.switch = true → ∀ l r, s.lastOn = some l → c.reset = some r →
    s.resetAt = some (l + r) ∨ Out.bw false (l + r) ∈ s.expect ++ s.log

theorem mem_erase_cons {α} [DecidableEq α] {a x : α} {l m : List α} (h : a ∈ l ++ m) :
    a ∈ l.erase x ++ x :: m := by
  by_cases hx : a = x
  · subst hx; simp
  · rcases List.mem_append.1 h with h | h
    · exact List.mem_append.2 (Or.inl ((List.mem_erase_of_ne hx).2 h))
    · exact List.mem_append.2 (Or.inr (List.mem_cons_of_mem _ h))

theorem fireReset_switch_outs {c : Cfg} (s : St) (t : Nat) (hsw : c.switch = true) :
    Out.bw false t ∈ (fireReset c s t).2 := by
  unfold fireReset
  simp [hsw]

theorem step_KInv (c : Cfg) (s : St) (e : Obs) (s' : St) (hi : RInv c s) (hk : KInv c s)
    (hs : step? c s e = some s') : KInv c s' := by
  obtain ⟨hnow, hc⟩ := step_cases hs
  intro hsw l r hl hr
  cases hc with
  | consume x ho hne ht hmem hs =>
    subst hs
    rcases hk hsw l r hl hr with h | h
    · left; exact h
    · right; exact mem_erase_cons h
  | fire x s1 ho he ha hf =>
    have hfr := advance_frame ha
    have hres := advance_reset ha
    rcases fireAt_cases hf with ⟨h1, _, rfl⟩ | ⟨_, _, rfl⟩
    · have hp := fireReset_props c s1 x.time
      simp only [hp.2.2.1, hfr.2.2.2] at hl
      right
      rcases hk hsw l r hl hr with h | h
      · -- the timer that fires is the one armed at `l`
        have : s1.resetAt = s.resetAt := by
          rcases hres with hres | hres
          · exact hres
          · rw [hres] at h1; cases h1
        rw [this, h] at h1
        have hxt : l + r = x.time := Option.some.inj h1
        rw [hxt]
        exact mem_erase_cons (List.mem_append.2 (Or.inl (fireReset_switch_outs s1 x.time hsw)))
      · simp only [hp.2.2.2.2.2.1, hfr.2.2.1]
        rw [he] at h
        exact List.mem_append.2 (Or.inr (List.mem_cons_of_mem _ (by simpa using h)))
    · have hp := fireCtx_frame c s1 x.time
      simp only [hp.2.1, hfr.2.2.2] at hl
      rcases hk hsw l r hl hr with h | h
      · left
        simp only [hp.1]
        rcases hres with hres | hres
        · rw [hres]; exact h
        · -- a switch never fires silently
          rcases (advance_spec ha).1 with rfl | ⟨r', _, _, _, _, hemp⟩
          · exact h
          · have := fireReset_switch_outs (c := c) s r' hsw
            rw [hemp] at this; cases this
      · right
        simp only [hp.2.2.2.2.2.2.1, hfr.2.2.1]
        rw [he] at h
        exact List.mem_append.2 (Or.inr (List.mem_cons_of_mem _ (by simpa using h)))
  | input s1 r0 he ha hr0 hs =>
    subst hs
    have hfr := advance_frame ha
    have h1 := advance_RInvAt hi.at_ hnow ha
    have hsame : s1 = s := by
      rcases (advance_spec ha).1 with h | ⟨r', _, _, _, _, hemp⟩
      · exact h
      · have := fireReset_switch_outs (c := c) s r' hsw
        rw [hemp] at this; cases this
    have hlo := inputReaction_lastOn hr0 h1
    simp only [react] at hl ⊢
    cases hon : onInputTime e with
    | some t =>
      have := (hlo.1 t hon).2 hsw (by simp [hr])
      rw [hl] at this
      cases this
      -- re-armed by this very input
      left
      have harm := h1.onArmed
      have hnig : ∀ t, e ≠ Obs.ig t := fun t h => by subst h; simp [onInputTime] at hon
      obtain ⟨v, t', ht', hc'⟩ := inputReaction_cases hr0 hnig
      -- the reaction of a switch to an 'on' input arms at `e.time + r`
      have hte : e.time = l := by
        cases e <;> simp [onInputTime] at hon <;> (try cases hon) <;>
          first | (rename_i b _; cases b <;> simp [onInputTime] at hon; simp [Obs.time, hon]) | skip
      rcases hc' with ⟨_, _, rfl⟩ | ⟨_, _, rfl⟩ | ⟨hs0, _, _⟩ | ⟨hs0, _, _⟩
      · have hv : v = true := by
          rename_i ho
          rcases ho with rfl | rfl <;> cases v <;> simp [onInputTime] at hon ⊢
        subst hv
        unfold switchProcess
        rcases armReset_timer c { s1 with st := some true } t' with ⟨r', hr', _, h4, _⟩ | ⟨hno, _, _⟩
        · rw [hr] at hr'; cases hr'
          simp only; rw [h4, ← ht', hte]
        · rcases hno with hno | hno
          · rw [hr] at hno; cases hno
          · exact absurd rfl hno
      · have hv : v = true := by
          rename_i ho
          subst ho; cases v <;> simp [onInputTime] at hon ⊢
        subst hv
        unfold switchProcess
        rcases armReset_timer c { s1 with st := some true } t' with ⟨r', hr', _, h4, _⟩ | ⟨hno, _, _⟩
        · rw [hr] at hr'; cases hr'
          simp only; rw [h4, ← ht', hte]
        · rcases hno with hno | hno
          · rw [hr] at hno; cases hno
          · exact absurd rfl hno
      · rw [hsw] at hs0; cases hs0
      · rw [hsw] at hs0; cases hs0
    | none =>
      obtain ⟨h2, h3⟩ := hlo.2 hon
      rw [h3, hsame] at hl
      rcases hk hsw l r hl hr with h | h
      · left; rw [h2, hsame]; exact h
      · right
        rw [he] at h
        rw [inputReaction_log hr0, hsame]
        exact List.mem_append.2 (Or.inr (by simpa using h))
  | sample s1 he ha hq hs =>
    subst hs
    have hfr := advance_frame ha
    have hsame : s1 = s := by
      rcases (advance_spec ha).1 with h | ⟨r', _, _, _, _, hemp⟩
      · exact h
      · have := fireReset_switch_outs (c := c) s r' hsw
        rw [hemp] at this; cases this
    subst hsame
    exact hk hsw l r hl hr

theorem KInv_run (c : Cfg) (tr : List Obs) (s : St) (h : run? (step? c) init tr = some s) : KInv c s := by
  have := inv_run? (step? c) (fun s => RInv c s ∧ KInv c s)
    (fun s e s' hi hs => ⟨step_RInv c s e s' hi.1 hs, step_KInv c s e s' hi.1 hi.2 hs⟩)
    tr init s ⟨RInv_init c, by intro _ l r hl; simp [init] at hl⟩ h
  exact this.2


/-! ### The press counter -/

/-- Invariant of the context window, relative to a clock reading `t`. -/
structure CInvAt (c : Cfg) (s : St) (t : Nat) : Prop where
  /-- an armed context task is not overdue and is due `context_timeout` after the last counted event -/
  dl : ∀ d, s.ctxAt = some d → t ≤ d ∧ ∃ l, s.lastSet = some l ∧ d = l + c.ctx
  /-- window closed: counters are zero and the last counted event is at least a timeout ago -/
  closed : s.ctxAt = none → s.cOn = 0 ∧ s.cOff = 0 ∧ ∀ l, s.lastSet = some l → l + c.ctx ≤ t
  /-- window open: the counters are the reference burst counts of the counted events -/
  open_ : s.ctxAt.isSome = true →
    s.cOn = burstCount c.ctx true s.hist ∧ s.cOff = burstCount c.ctx false s.hist
  lastSetHist : s.lastSet = s.hist.head?.map Prod.fst

theorem CInvAt.mono {c : Cfg} {s : St} {t t' : Nat} (h : CInvAt c s t) (ht : t ≤ t')
    (hd : ∀ d, s.ctxAt = some d → t' ≤ d) : CInvAt c s t' :=
  ⟨fun d hd' => ⟨hd d hd', (h.dl d hd').2⟩,
   fun hn => ⟨(h.closed hn).1, (h.closed hn).2.1, fun l hl => Nat.le_trans ((h.closed hn).2.2 l hl) ht⟩,
   h.open_, h.lastSetHist⟩

theorem CInvAt.congr {c : Cfg} {s s' : St} {t : Nat} (h : CInvAt c s t)
    (h1 : s'.ctxAt = s.ctxAt) (h2 : s'.lastSet = s.lastSet) (h3 : s'.hist = s.hist)
    (h4 : s'.cOn = s.cOn) (h5 : s'.cOff = s.cOff) : CInvAt c s' t :=
  ⟨fun d hd => by rw [h1] at hd; rw [h2]; exact h.dl d hd,
   fun hn => by rw [h1] at hn; rw [h4, h5, h2]; exact h.closed hn,
   fun hs => by rw [h1] at hs; rw [h4, h5, h3]; exact h.open_ hs,
   by rw [h2, h3]; exact h.lastSetHist⟩

theorem bump_counts (c : Cfg) (s : St) (v : Bool) (t : Nat) (h : CInvAt c s t) :
    (bump c s v t).cOn = burstCount c.ctx true ((t, v) :: s.hist) ∧
    (bump c s v t).cOff = burstCount c.ctx false ((t, v) :: s.hist) := by
  have hls := h.lastSetHist
  cases hh : s.hist with
  | nil =>
    rw [hh] at hls
    simp only [List.head?_nil, Option.map_none] at hls
    unfold bump
    simp only [hls, Bool.false_eq_true, ↓reduceIte]
    cases v <;> simp [burstCount]
  | cons p rest =>
    obtain ⟨l, b⟩ := p
    rw [hh] at hls
    simp only [List.head?_cons, Option.map_some] at hls
    unfold bump
    simp only [hls]
    by_cases hw : t - l < c.ctx
    · -- within the window: it must be open
      have hopen : s.ctxAt.isSome = true := by
        cases hc : s.ctxAt with
        | some d => rfl
        | none =>
          have := (h.closed hc).2.2 l hls
          omega
      obtain ⟨h1, h2⟩ := h.open_ hopen
      rw [hh] at h1 h2
      cases v <;> simp [hw, burstCount, h1, h2] <;> omega
    · cases v <;> simp [hw, burstCount]

theorem setInternal_CInvAt (c : Cfg) (s : St) (v : Bool) (t : Nat) (h : CInvAt c s t) :
    CInvAt c (setInternal c s v t).1 t := by
  unfold setInternal
  split
  · split
    · -- counted event
      have hc : CInvAt c { s with st := some v } t := h.congr rfl rfl rfl rfl rfl
      have hb := bump_counts c { s with st := some v } v t hc
      have hf := bump_frame c { s with st := some v } v t
      refine ⟨?_, ?_, ?_, ?_⟩
      · intro d hd
        simp only [Option.some.injEq] at hd
        subst hd
        exact ⟨Nat.le_add_right _ _, t, hf.2.2.2.2.2.2.2.2.2.1, rfl⟩
      · intro hn; simp at hn
      · intro _
        simp only
        rw [hf.2.2.2.2.2.2.2.2.2.2]
        exact hb
      · simp only
        rw [hf.2.2.2.2.2.2.2.2.2.1, hf.2.2.2.2.2.2.2.2.2.2]
        rfl
    · exact h.congr rfl rfl rfl rfl rfl
  · split <;> exact h

theorem setInternal_ctx_frame_nobump (c : Cfg) (s : St) (v : Bool) (t : Nat) (h0 : c.ctx = 0) :
    (setInternal c s v t).1.hist = s.hist ∧ (setInternal c s v t).1.ctxAt = s.ctxAt := by
  unfold setInternal
  split
  · split
    · rename_i h; simp [h0] at h
    · simp
  · split <;> simp

theorem armReset_CInvAt {c : Cfg} {s : St} {t t' : Nat} (h : CInvAt c s t) : CInvAt c (armReset c s t') t :=
  have hf := armReset_frame c s t'
  h.congr hf.2.2.2.1 hf.2.2.2.2.2.2.2.2.2.1 hf.2.2.2.2.2.2.1 hf.2.2.2.2.2.2.2.1 hf.2.2.2.2.2.2.2.2.1

theorem inputReaction_CInvAt {c : Cfg} {s : St} {o : Obs} {r : St × List Out}
    (hr : inputReaction c s o = some r) (h : CInvAt c s o.time) : CInvAt c r.1 o.time := by
  by_cases hig : ∃ t, o = Obs.ig t
  · obtain ⟨t0, rfl⟩ := hig
    have hr' := inputReaction_ig hr
    subst hr'
    exact h
  have hnig : ∀ t, o ≠ Obs.ig t := fun t h => hig ⟨t, h⟩
  obtain ⟨v, t, ht, hc⟩ := inputReaction_cases hr hnig
  rw [ht] at h ⊢
  rcases hc with ⟨_, _, rfl⟩ | ⟨_, _, rfl⟩ | ⟨_, _, rfl⟩ | ⟨_, _, rfl⟩
  · unfold switchProcess
    exact armReset_CInvAt (h.congr rfl rfl rfl rfl rfl)
  · unfold switchProcess
    exact armReset_CInvAt (h.congr rfl rfl rfl rfl rfl)
  · unfold sensorWrite
    exact armReset_CInvAt (setInternal_CInvAt c _ v t (h.congr rfl rfl rfl rfl rfl))
  · unfold sensorResponse
    split
    · exact armReset_CInvAt (setInternal_CInvAt c _ v t (h.congr rfl rfl rfl rfl rfl))
    · exact armReset_CInvAt h

theorem fireReset_CInvAt (c : Cfg) (s : St) (t : Nat) (h : CInvAt c s t) : CInvAt c (fireReset c s t).1 t := by
  unfold fireReset
  split
  · unfold switchProcess
    exact armReset_CInvAt (h.congr rfl rfl rfl rfl rfl)
  · exact setInternal_CInvAt c _ false t (h.congr rfl rfl rfl rfl rfl)

theorem fireCtx_CInvAt (c : Cfg) (s : St) (t : Nat) (h : CInvAt c s t) (hd : s.ctxAt = some t) :
    CInvAt c (fireCtx c s t).1 t := by
  obtain ⟨_, l, hl, hdl⟩ := h.dl t hd
  refine ⟨?_, ?_, ?_, ?_⟩
  · intro d hd'; simp [fireCtx] at hd'
  · intro _
    refine ⟨rfl, rfl, ?_⟩
    intro l' hl'
    simp only [fireCtx] at hl'
    rw [hl] at hl'
    cases hl'
    omega
  · intro hs; simp [fireCtx] at hs
  · simp only [fireCtx]; exact h.lastSetHist

theorem advance_CInvAt {c : Cfg} {s s1 : St} {t : Nat} {incl : Bool} (hr : RInvAt c s s.now)
    (h : CInvAt c s s.now) (ht : s.now ≤ t) (ha : advance c s t incl = some s1) : CInvAt c s1 t := by
  obtain ⟨hcase, _, hnd⟩ := advance_spec ha
  rcases hcase with rfl | ⟨r, hres, hdue, hrf, rfl, _⟩
  · exact h.mono ht (fun d hd => (due_false (hnd d hd)).1)
  · -- silent reset firing at its deadline `r`: it precedes the context deadline
    have hnow : s.now ≤ r := (hr.arm r hres).1
    have h1 : CInvAt c s r := h.mono hnow (fun d hd => by
      unfold resetFirst at hrf
      rw [hd] at hrf
      simpa using hrf)
    have h2 := fireReset_CInvAt c s r h1
    have hrt : r ≤ t := by
      unfold due at hdue
      cases incl <;> simp at hdue <;> omega
    exact h2.mono hrt (fun d hd => (due_false (hnd d hd)).1)

/-- With a context timeout, a telegram stored as GroupValueWrite is always a counted event. -/
theorem setInternal_counted (c : Cfg) (s : St) (v : Bool) (t : Nat) (hctx : c.ctx ≠ 0)
    (hlw : s.lastWrite = true) :
    (setInternal c s v t).1.hist = (t, v) :: s.hist ∧ (setInternal c s v t).1.resetAt = s.resetAt := by
  unfold setInternal
  have h1 : (s.st != some v || (c.ignEff && s.lastWrite)) = true := by simp [Cfg.ignEff, hctx, hlw]
  have h2 : (c.ignEff && c.ctx != 0) = true := by simp [Cfg.ignEff, hctx]
  rw [if_pos h1, if_pos h2]
  have hf := bump_frame c { s with st := some v } v t
  exact ⟨hf.2.2.2.2.2.2.2.2.2.2, hf.1⟩

/-- Step invariant for the counter. -/
def CInv (c : Cfg) (s : St) : Prop := CInvAt c s s.now

theorem CInv_init (c : Cfg) : CInv c init := by
  refine ⟨?_, ?_, ?_, ?_⟩ <;> simp [init]

theorem step_CInv (c : Cfg) (s : St) (e : Obs) (s' : St) (hr : RInv c s) (h : CInv c s)
    (hs : step? c s e = some s') : CInv c s' := by
  obtain ⟨hnow, hc⟩ := step_cases hs
  cases hc with
  | consume x ho hne ht hmem hs =>
    subst hs
    exact CInvAt.congr h rfl rfl rfl rfl rfl
  | fire x s1 ho he ha hf =>
    subst ho
    have h1 := advance_CInvAt hr.at_ h hnow ha
    rcases fireAt_cases hf with ⟨_, _, rfl⟩ | ⟨hd, _, rfl⟩
    · exact (fireReset_CInvAt c s1 x.time h1).congr rfl rfl rfl rfl rfl
    · exact (fireCtx_CInvAt c s1 x.time h1 hd).congr rfl rfl rfl rfl rfl
  | input s1 r he ha hr0 hs =>
    subst hs
    exact (inputReaction_CInvAt hr0 (advance_CInvAt hr.at_ h hnow ha)).congr rfl rfl rfl rfl rfl
  | sample s1 he ha hq hs =>
    subst hs
    exact (advance_CInvAt hr.at_ h hnow ha).congr rfl rfl rfl rfl rfl

theorem CInv_run (c : Cfg) (tr : List Obs) (s : St) (h : run? (step? c) init tr = some s) : CInv c s := by
  have := inv_run? (step? c) (fun s => RInv c s ∧ CInv c s)
    (fun s e s' hi hs => ⟨step_RInv c s e s' hi.1 hs, step_CInv c s e s' hi.1 hi.2 hs⟩)
    tr init s ⟨RInv_init c, CInv_init c⟩ h
  exact this.2

end XknxVerif.BinaryTimers
