/-
Lemmas for the device loop model (C39): Python's `round()` on an exact rational is a nearest integer,
and the only one strictly inside half a unit.
-/
import XknxVerif.Model.DeviceLoop
import Mathlib.Tactic.Ring
import Mathlib.Tactic.Linarith

namespace XknxVerif.DeviceLoop

set_option linter.unusedSimpArgs false
set_option linter.unusedVariables false

/-- `round(n/d)` is within half a unit of `n/d` (cross-multiplied by `d > 0`). -/
theorem rhe_spec (n : Int) (d : Nat) (hd : 0 < d) :
    -(d : Int) ≤ 2 * (n - (d : Int) * rhe n d) ∧ 2 * (n - (d : Int) * rhe n d) ≤ (d : Int) := by
  have hd' : (0 : Int) < (d : Int) := by exact_mod_cast hd
  have hdiv : (d : Int) * (n / (d : Int)) + n % (d : Int) = n := Int.mul_ediv_add_emod n d
  have hr0 : 0 ≤ n % (d : Int) := Int.emod_nonneg n (by omega)
  have hr1 : n % (d : Int) < (d : Int) := Int.emod_lt_of_pos n hd'
  have hq1 : (d : Int) * (n / (d : Int) + 1) = (d : Int) * (n / (d : Int)) + d := by ring
  unfold rhe
  simp only
  generalize hq : n / (d : Int) = q at *
  generalize hr : n % (d : Int) = r at *
  generalize hp : (d : Int) * q = p at *
  split
  · rw [hp]; omega
  · split
    · rw [hq1]; omega
    · split
      · rw [hp]; omega
      · rw [hq1]; omega

/-- an integer strictly closer than half a unit IS `round(n/d)`. -/
theorem rhe_unique (n : Int) (d : Nat) (hd : 0 < d) (r : Int)
    (h1 : -(d : Int) < 2 * (n - (d : Int) * r)) (h2 : 2 * (n - (d : Int) * r) < (d : Int)) : rhe n d = r := by
  have hd' : (0 : Int) < (d : Int) := by exact_mod_cast hd
  obtain ⟨s1, s2⟩ := rhe_spec n d hd
  generalize rhe n d = k at *
  by_contra hne
  rcases Int.lt_or_gt_of_ne hne with hlt | hgt
  · -- k ≤ r - 1
    have : (d : Int) * k ≤ (d : Int) * (r - 1) := Int.mul_le_mul_of_nonneg_left (by omega) (by omega)
    have e : (d : Int) * (r - 1) = (d : Int) * r - d := by ring
    omega
  · have : (d : Int) * (r + 1) ≤ (d : Int) * k := Int.mul_le_mul_of_nonneg_left (by omega) (by omega)
    have e : (d : Int) * (r + 1) = (d : Int) * r + d := by ring
    omega

/-- `round(n/d)` is a nearest integer: no integer is closer to `n/d`. -/
theorem rhe_nearest (n : Int) (d : Nat) (hd : 0 < d) (k : Int) :
    |n - (d : Int) * rhe n d| ≤ |n - (d : Int) * k| := by
  have hd' : (0 : Int) < (d : Int) := by exact_mod_cast hd
  obtain ⟨s1, s2⟩ := rhe_spec n d hd
  generalize rhe n d = r at *
  by_cases hk : k = r
  · rw [hk]
  · have ha : 2 * |n - (d : Int) * r| ≤ (d : Int) := by
      rcases abs_cases (n - (d : Int) * r) with ⟨h, _⟩ | ⟨h, _⟩ <;> omega
    have hb : (d : Int) ≤ 2 * |n - (d : Int) * k| := by
      rcases Int.lt_or_gt_of_ne hk with hlt | hgt
      · have : (d : Int) * k ≤ (d : Int) * (r - 1) := Int.mul_le_mul_of_nonneg_left (by omega) (by omega)
        have e : (d : Int) * (r - 1) = (d : Int) * r - d := by ring
        have : n - (d : Int) * k ≤ |n - (d : Int) * k| := le_abs_self _
        omega
      · have : (d : Int) * (r + 1) ≤ (d : Int) * k := Int.mul_le_mul_of_nonneg_left (by omega) (by omega)
        have e : (d : Int) * (r + 1) = (d : Int) * r + d := by ring
        have : -(n - (d : Int) * k) ≤ |n - (d : Int) * k| := neg_le_abs _
        omega
    omega

/-- an exact multiple rounds to its factor. -/
theorem rhe_mul (d : Nat) (hd : 0 < d) (k : Int) : rhe ((d : Int) * k) d = k := by
  have hd' : (0 : Int) < (d : Int) := by exact_mod_cast hd
  apply rhe_unique _ _ hd <;> omega

/-! ### RemoteValueScaling: integer requests on ranges of at most 255 units loop back exactly -/

/-- the arithmetic core: a raw within half a step of `255·t/D` is an octet and reads back as `t`. -/
theorem scale_core (D t raw : Int) (hD : 0 < D) (hD255 : D ≤ 255) (ht0 : 0 ≤ t) (ht1 : t ≤ D)
    (h1 : -D ≤ 2 * (255 * t - D * raw)) (h2 : 2 * (255 * t - D * raw) ≤ D) :
    0 ≤ raw ∧ raw ≤ 255 ∧ -255 < 2 * (D * raw - 255 * t) ∧ 2 * (D * raw - 255 * t) < 255 := by
  have hr0 : 0 ≤ raw := by
    by_contra hneg
    have : D * raw ≤ D * (-1) := Int.mul_le_mul_of_nonneg_left (by omega) (by omega)
    omega
  have hr1 : raw ≤ 255 := by
    by_contra hbig
    have : D * 256 ≤ D * raw := Int.mul_le_mul_of_nonneg_left (by omega) (by omega)
    omega
  refine ⟨hr0, hr1, ?_, ?_⟩
  · rcases Int.lt_or_eq_of_le hD255 with h | h
    · omega
    · subst h; omega
  · rcases Int.lt_or_eq_of_le hD255 with h | h
    · omega
    · subst h; omega

theorem scaleLoop_exact_up (rf rt v : Int) (hD : 0 < rt - rf) (hD255 : rt - rf ≤ 255) (hv0 : rf ≤ v) (hv1 : v ≤ rt) :
    ∃ raw, scaleLoop rf rt v 1 = some (raw, v) ∧ 0 ≤ raw ∧ raw ≤ 255 := by
  have hdpos : 0 < (rt - rf).natAbs := by omega
  have hcast : (((rt - rf).natAbs : Nat) : Int) = rt - rf := by omega
  obtain ⟨s1, s2⟩ := rhe_spec ((v - rf) * 255) (rt - rf).natAbs hdpos
  rw [hcast] at s1 s2
  have hc := scale_core (rt - rf) (v - rf) (rhe ((v - rf) * 255) (rt - rf).natAbs) hD hD255 (by omega) (by omega)
    (by omega) (by omega)
  obtain ⟨c0, c1, c2, c3⟩ := hc
  refine ⟨rhe ((v - rf) * 255) (rt - rf).natAbs, ?_, c0, c1⟩
  have hpos : scalePos rf rt v 1 = ((v - rf) * 255, (rt - rf).natAbs) := by
    unfold scalePos
    have : ¬ (rt - rf < 0) := by omega
    simp [this]
  have hto : scaleToKnx rf rt v 1 = some (rhe ((v - rf) * 255) (rt - rf).natAbs) := by
    unfold scaleToKnx
    have hne : ¬ (rt - rf = 0 ∨ (1 : Nat) = 0) := by omega
    simp only [hne, if_false, hpos]
    simp [c0, c1]
  have hfrom : scaleFromKnx rf rt (rhe ((v - rf) * 255) (rt - rf).natAbs) = v := by
    unfold scaleFromKnx
    have := rhe_unique (rhe ((v - rf) * 255) (rt - rf).natAbs * (rt - rf)) 255 (by decide) (v - rf)
      (by push_cast; rw [Int.mul_comm _ (rt - rf)]; omega) (by push_cast; rw [Int.mul_comm _ (rt - rf)]; omega)
    rw [this]; omega
  unfold scaleLoop
  rw [hto]
  simp [hfrom]

theorem scaleLoop_exact_down (rf rt v : Int) (hD : rt - rf < 0) (hD255 : -255 ≤ rt - rf) (hv0 : rt ≤ v) (hv1 : v ≤ rf) :
    ∃ raw, scaleLoop rf rt v 1 = some (raw, v) ∧ 0 ≤ raw ∧ raw ≤ 255 := by
  have hdpos : 0 < (rt - rf).natAbs := by omega
  have hcast : (((rt - rf).natAbs : Nat) : Int) = rf - rt := by omega
  obtain ⟨s1, s2⟩ := rhe_spec ((rf - v) * 255) (rt - rf).natAbs hdpos
  rw [hcast] at s1 s2
  have hc := scale_core (rf - rt) (rf - v) (rhe ((rf - v) * 255) (rt - rf).natAbs) (by omega) (by omega) (by omega) (by omega)
    (by omega) (by omega)
  obtain ⟨c0, c1, c2, c3⟩ := hc
  refine ⟨rhe ((rf - v) * 255) (rt - rf).natAbs, ?_, c0, c1⟩
  have hpos : scalePos rf rt v 1 = ((rf - v) * 255, (rt - rf).natAbs) := by
    unfold scalePos
    simp [hD]
    ring
  have hto : scaleToKnx rf rt v 1 = some (rhe ((rf - v) * 255) (rt - rf).natAbs) := by
    unfold scaleToKnx
    have hne : ¬ (rt - rf = 0 ∨ (1 : Nat) = 0) := by omega
    simp only [hne, if_false, hpos]
    simp [c0, c1]
  have hfrom : scaleFromKnx rf rt (rhe ((rf - v) * 255) (rt - rf).natAbs) = v := by
    unfold scaleFromKnx
    have e : rhe ((rf - v) * 255) (rt - rf).natAbs * (rt - rf) = -((rf - rt) * rhe ((rf - v) * 255) (rt - rf).natAbs) := by ring
    have := rhe_unique (rhe ((rf - v) * 255) (rt - rf).natAbs * (rt - rf)) 255 (by decide) (v - rf)
      (by push_cast; rw [e]; omega) (by push_cast; rw [e]; omega)
    rw [this]; omega
  unfold scaleLoop
  rw [hto]
  simp [hfrom]

end XknxVerif.DeviceLoop
