/-
Helper lemmas for the send model (C11): what each building block of `Model/Send.lean` can return,
and the side conditions under which the property theorems are stated.
-/
import XknxVerif.Model.Send

namespace XknxVerif.Send

/-- A transcoder result that is itself sound: a returned DPTArray is not empty, holds octets and fits one frame.
(`DPTBinary` results are range-checked by the DPTBinary constructor, so nothing is assumed for them.) -/
def TransOK : TransRes → Prop
  | .arr items => items ≠ [] ∧ items.all itemOctet = true ∧ items.length + 1 ≤ Generated.Send.maxNpduLength
  | _ => True

/-- Configuration side conditions: a raw remote value is configured with a length that fits a frame; a
remote value that delegates to a DPT class uses a sound transcoder.  The group-value helpers / MCP write
tool need NO side condition: `_parse_payload` checks items and length itself. -/
def SetterOK : Setter → Prop
  | .raw len => len + 1 ≤ Generated.Send.maxNpduLength
  | .viaDpt tr => TransOK tr
  | _ => True

/-! ### what each building block can return -/

theorem binRange_ok (n : Int) (p : Payload) (h : binRange n = .ok p) : wireValid p = true := by
  unfold binRange at h
  by_cases hr : 0 ≤ n ∧ n ≤ (Generated.Send.apciBitmask : Int)
  · simp only [hr, and_self, if_true, Except.ok.injEq] at h
    subst h
    simp [wireValid, hr.1, hr.2]
  · simp [hr] at h

theorem binRange_err (n : Int) (e : Err) (h : binRange n = .error e) : e = .conversion := by
  unfold binRange at h
  by_cases hr : 0 ≤ n ∧ n ≤ (Generated.Send.apciBitmask : Int)
  · simp [hr] at h
  · simp only [hr, if_false, Except.error.injEq] at h
    exact h.symm

theorem mkBinary_ok (v : PyVal) (p : Payload) (h : mkBinary v = .ok p) : wireValid p = true := by
  cases v with
  | int n => exact binRange_ok n p (by simpa [mkBinary] using h)
  | bool b =>
    simp only [mkBinary, Except.ok.injEq] at h
    subst h
    cases b <;> decide
  | tuple xs =>
    cases xs with
    | nil => simp [mkBinary] at h
    | cons x r =>
      cases x with
      | int n => exact binRange_ok n p (by simpa [mkBinary] using h)
      | other => simp [mkBinary] at h
  | _ => simp [mkBinary] at h

theorem mkBinary_err (v : PyVal) (e : Err) (h : mkBinary v = .error e) :
    e = .conversion ∨ e = .typeError ∨ e = .indexError := by
  cases v with
  | int n => exact Or.inl (binRange_err n e (by simpa [mkBinary] using h))
  | bool b => simp [mkBinary] at h
  | tuple xs =>
    cases xs with
    | nil => simp only [mkBinary, Except.error.injEq] at h; subst h; simp
    | cons x r =>
      cases x with
      | int n => exact Or.inl (binRange_err n e (by simpa [mkBinary] using h))
      | other => simp only [mkBinary, Except.error.injEq] at h; subst h; simp
  | _ => simp only [mkBinary, Except.error.injEq] at h; subst h; simp

theorem mkArray_ok (v : PyVal) (p : Payload) (h : mkArray v = .ok p) : ∃ xs, p = .arr xs := by
  cases v <;> simp only [mkArray, Except.ok.injEq] at h <;> first | exact ⟨_, h.symm⟩ | cases h

theorem mkArray_err (v : PyVal) (e : Err) (h : mkArray v = .error e) : e = .typeError := by
  cases v <;> simp only [mkArray, Except.error.injEq] at h <;> first | exact h.symm | cases h

theorem catchType_ok (r : Except Err Payload) (p : Payload) (h : catchType r = .ok p) : r = .ok p := by
  cases r with
  | ok q => simpa [catchType] using h
  | error e => cases e <;> simp [catchType] at h

theorem catchType_err (r : Except Err Payload) (e : Err) (h : catchType r = .error e) :
    e = .conversion ∨ (r = .error e ∧ e ≠ .typeError) := by
  cases r with
  | ok q => simp [catchType] at h
  | error e' =>
    cases e' <;> simp only [catchType, Except.error.injEq] at h <;> subst h <;> simp

theorem catchTypeIndex_ok (r : Except Err Payload) (p : Payload) (h : catchTypeIndex r = .ok p) : r = .ok p := by
  cases r with
  | ok q => simpa [catchTypeIndex] using h
  | error e => cases e <;> simp [catchTypeIndex] at h

theorem catchTypeIndex_err (r : Except Err Payload) (e : Err) (h : catchTypeIndex r = .error e) :
    e = .conversion ∨ (r = .error e ∧ e ≠ .typeError ∧ e ≠ .indexError) := by
  cases r with
  | ok q => simp [catchTypeIndex] at h
  | error e' =>
    cases e' <;> simp only [catchTypeIndex, Except.error.injEq] at h <;> subst h <;> simp

theorem transcoded_bin_ok (tr : TransRes) (n : Int) (h : transcoded tr = .ok (.bin n)) :
    wireValid (.bin n) = true := by
  cases tr with
  | arr items => simp [transcoded] at h
  | bin v =>
    cases v with
    | int m => exact binRange_ok m _ (by simpa [transcoded] using h)
    | other => simp [transcoded] at h
  | conv => simp [transcoded] at h
  | other => simp [transcoded] at h

theorem finalGuards_ok (p0 p : Payload) (hb : ∀ n, p0 = .bin n → wireValid p0 = true)
    (h : finalGuards p0 = .ok p) : wireValid p = true := by
  cases p0 with
  | bin n =>
    simp only [finalGuards, Except.ok.injEq] at h
    subst h
    exact hb n rfl
  | arr xs =>
    simp only [finalGuards] at h
    by_cases h0 : xs.isEmpty = true
    · simp [h0] at h
    · have h0' : xs.isEmpty = false := by simpa using h0
      by_cases h1 : xs.all itemOctet = true
      · by_cases h2 : xs.length ≥ Generated.Send.maxNpduLength
        · simp [h0', h1, h2] at h
        · simp only [h0', h1, Bool.not_true, Bool.false_eq_true, if_false, h2, Except.ok.injEq] at h
          subst h
          simp only [wireValid, h0', h1, Bool.not_false, Bool.true_and, decide_eq_true_eq]
          omega
      · simp [h0', h1] at h

theorem finalGuards_err (p : Payload) (e : Err) (h : finalGuards p = .error e) : e = .conversion := by
  cases p with
  | bin n => simp [finalGuards] at h
  | arr xs =>
    simp only [finalGuards] at h
    by_cases h0 : xs.isEmpty = true
    · simp only [h0, if_true, Except.error.injEq] at h
      exact h.symm
    · have h0' : xs.isEmpty = false := by simpa using h0
      by_cases h1 : xs.all itemOctet = true
      · by_cases h2 : xs.length ≥ Generated.Send.maxNpduLength
        · simp only [h0', h1, Bool.not_true, Bool.false_eq_true, if_false, h2, if_true, Except.error.injEq] at h
          exact h.symm
        · simp [h0', h1, h2] at h
      · simp only [h0', Bool.false_eq_true, if_false, h1, Bool.not_false, if_true, Except.error.injEq] at h
        exact h.symm

/-- a DPTBinary leaving `parseCore` is either the caller's own object or was range-checked -/
theorem parseCore_bin (tr : Option TransRes) (v : PyVal) (n : Int) (h : parseCore tr v = .ok (.bin n)) :
    v = .bin n ∨ wireValid (.bin n) = true := by
  cases tr with
  | some t =>
    cases v <;> simp only [parseCore] at h <;>
      first
        | exact Or.inr (transcoded_bin_ok t n h)
        | (simp only [Except.ok.injEq, Payload.bin.injEq] at h; subst h; exact Or.inl rfl)
        | cases h
  | none =>
    cases v <;> simp only [parseCore] at h <;>
      first
        | exact Or.inr (mkBinary_ok _ _ h)
        | (simp only [Except.ok.injEq, Payload.bin.injEq] at h; subst h; exact Or.inl rfl)
        | (obtain ⟨xs, hx⟩ := mkArray_ok _ _ (catchType_ok _ _ h); cases hx)
        | cases h

/-- `_parse_payload`: whatever the value, the value type and the transcoder do, an accepted payload is wire-valid. -/
theorem parsePayload_ok (tr : Option TransRes) (v : PyVal) (p : Payload)
    (hv : ∀ n, v = .bin n → wireValid (.bin n) = true)
    (h : parsePayload tr v = .ok p) : wireValid p = true := by
  unfold parsePayload at h
  cases hc : parseCore tr v with
  | error e => simp [hc] at h
  | ok p0 =>
    simp only [hc] at h
    refine finalGuards_ok p0 p ?_ h
    intro n hn
    subst hn
    rcases parseCore_bin tr v n hc with rfl | hw
    · exact hv n rfl
    · exact hw

theorem ofNatBE_items_octet (len n : Nat) :
    ((Bytes.ofNatBE len n).map fun b => Item.int (Int.ofNat b)).all itemOctet = true := by
  have hwf := Bytes.ofNatBE_wf len n
  rw [List.all_eq_true]
  intro x hx
  rw [List.mem_map] at hx
  obtain ⟨b, hb, rfl⟩ := hx
  have hlt : b < 256 := hwf b hb
  have e : Int.ofNat b = (b : Int) := rfl
  show octet (Int.ofNat b) = true
  unfold octet
  rw [e]
  simp only [Bool.and_eq_true, decide_eq_true_eq]
  omega

theorem rawToKnx_ok (len : Nat) (hl : len + 1 ≤ Generated.Send.maxNpduLength) (v : PyVal) (p : Payload)
    (h : rawToKnx len v = .ok p) : wireValid p = true := by
  unfold rawToKnx at h
  by_cases h0 : len = 0
  · simp only [h0, if_true] at h
    exact mkBinary_ok _ _ (catchTypeIndex_ok _ _ h)
  · simp only [h0, if_false] at h
    cases ha : rawArg v with
    | none => simp [ha] at h
    | some n =>
      simp only [ha] at h
      unfold toBytesBE at h
      by_cases hr : 0 ≤ n ∧ n.toNat < 256 ^ len
      · simp only [hr, and_self, if_true, Except.ok.injEq] at h
        subst h
        have hne : ((Bytes.ofNatBE len n.toNat).map fun b => Item.int (Int.ofNat b)).isEmpty = false := by
          cases hm : (Bytes.ofNatBE len n.toNat).map fun b => Item.int (Int.ofNat b) with
          | nil =>
            have := congrArg List.length hm
            simp only [List.length_map, Bytes.ofNatBE_length, List.length_nil] at this
            exact absurd this h0
          | cons _ _ => rfl
        simp only [wireValid, hne, Bool.not_false, ofNatBE_items_octet, List.length_map, Bytes.ofNatBE_length,
          Bool.true_and, decide_eq_true_eq]
        exact hl
      · simp [hr] at h

theorem rawToKnx_err (len : Nat) (v : PyVal) (e : Err) (h : rawToKnx len v = .error e) : e = .conversion := by
  unfold rawToKnx at h
  by_cases h0 : len = 0
  · simp only [h0, if_true] at h
    rcases catchTypeIndex_err _ e h with h' | ⟨h1, h2, h3⟩
    · exact h'
    · rcases mkBinary_err v e h1 with h' | h' | h'
      · exact h'
      · exact absurd h' h2
      · exact absurd h' h3
  · simp only [h0, if_false] at h
    cases ha : rawArg v with
    | none => simp only [ha, Except.error.injEq] at h; exact h.symm
    | some n =>
      simp only [ha] at h
      cases hb : toBytesBE len n with
      | none => simp only [hb, Except.error.injEq] at h; exact h.symm
      | some bs => simp [hb] at h

theorem scaleQ_ok (rf rt num : Int) (den : Nat) (p : Payload) (h : scaleQ rf rt num den = .ok p) :
    wireValid p = true := by
  unfold scaleQ at h
  by_cases h1 : rt - rf = 0 ∨ den = 0
  · simp [h1] at h
  · simp only [h1, if_false] at h
    by_cases ho : octet (roundHalfEven ((num - rf * den) * 255 * (if rt - rf < 0 then -1 else 1)) (den * (rt - rf).natAbs)) = true
    · simp only [ho, if_true, Except.ok.injEq] at h
      subst h
      simp only [wireValid, List.isEmpty_cons, Bool.not_false, List.all_cons, itemOctet, ho, List.all_nil,
        Bool.and_self, List.length_cons, List.length_nil, Bool.true_and, decide_eq_true_eq]
      decide
    · simp [ho] at h

theorem scaleQ_err (rf rt num : Int) (den : Nat) (e : Err) (h : scaleQ rf rt num den = .error e) :
    e = .conversion := by
  unfold scaleQ at h
  by_cases h1 : rt - rf = 0 ∨ den = 0
  · simp only [h1, if_true, Except.error.injEq] at h; exact h.symm
  · simp only [h1, if_false] at h
    by_cases ho : octet (roundHalfEven ((num - rf * den) * 255 * (if rt - rf < 0 then -1 else 1)) (den * (rt - rf).natAbs)) = true
    · simp [ho] at h
    · have ho' : octet (roundHalfEven ((num - rf * den) * 255 * (if rt - rf < 0 then -1 else 1)) (den * (rt - rf).natAbs)) = false := by
        simpa using ho
      simp only [ho', Bool.false_eq_true, if_false, Except.error.injEq] at h; exact h.symm

/-- The transcoder refuses only with ConversionError (what the DPT classes document; checked on the real
code for every DPT class by the harness, after `fix: DPT encoders raise ConversionError …`). -/
def TransDeclared : TransRes → Prop
  | .other => False
  | .bin .other => False
  | _ => True

def SetterDeclared : Setter → Prop
  | .viaDpt tr => TransDeclared tr
  | .parse (some tr) => TransDeclared tr
  | _ => True

theorem transcoded_err (tr : TransRes) (hd : TransDeclared tr) (e : Err) (h : transcoded tr = .error e) :
    e = .conversion := by
  cases tr with
  | arr items => simp [transcoded] at h
  | bin v =>
    cases v with
    | int m => exact binRange_err m e (by simpa [transcoded] using h)
    | other => exact absurd hd (by simp [TransDeclared])
  | conv => simp only [transcoded, Except.error.injEq] at h; exact h.symm
  | other => exact absurd hd (by simp [TransDeclared])

theorem parseCore_err (tr : Option TransRes) (hd : ∀ t, tr = some t → TransDeclared t) (v : PyVal) (e : Err)
    (h : parseCore tr v = .error e) : e = .conversion := by
  cases tr with
  | some t =>
    cases v <;> simp only [parseCore] at h <;>
      first
        | exact transcoded_err t (hd t rfl) e h
        | cases h
  | none =>
    cases v <;> simp only [parseCore] at h <;>
      first
        | (cases h; done)
        | (cases h; rfl)
        | (rcases mkBinary_err _ e h with h' | h' | h'
           · exact h'
           · subst h'; simp [mkBinary, binRange] at h; split at h <;> cases h
           · subst h'; simp [mkBinary, binRange] at h; split at h <;> cases h)
        | (rcases catchType_err _ e h with h' | ⟨h1, h2⟩
           · exact h'
           · exact absurd (mkArray_err _ e h1) h2)

end XknxVerif.Send
