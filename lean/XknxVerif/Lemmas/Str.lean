/-
Lemmas about the Python string model `Py.Str`: `split`, `str(int)`, `int(str)`
and the facts about the generated code-point tables that the address and
filter proofs need (every such fact is re-checked against the regenerated
tables by `decide`).
-/
import XknxVerif.Py.Str

namespace XknxVerif.Py.Str
open XknxVerif.Generated.Unicode

/-! ### range tables -/

theorem valIn_some_mem {rs : List (Nat × Nat × Nat)} {c v : Nat} (h : valIn rs c = some v) :
    ∃ r ∈ rs, r.1 ≤ c ∧ c ≤ r.2.1 := by
  induction rs with
  | nil => simp [valIn] at h
  | cons r rest ih =>
    obtain ⟨lo, hi, v0⟩ := r
    simp only [valIn] at h
    split at h
    · rename_i hc
      simp only [Bool.and_eq_true, decide_eq_true_eq] at hc
      exact ⟨(lo, hi, v0), List.mem_cons_self, hc.1, hc.2⟩
    · obtain ⟨r, hr, h1⟩ := ih h
      exact ⟨r, List.mem_cons_of_mem _ hr, h1⟩

theorem inRanges_true_mem {rs : List (Nat × Nat)} {c : Nat} (h : inRanges rs c = true) :
    ∃ r ∈ rs, r.1 ≤ c ∧ c ≤ r.2 := by
  simp only [inRanges, List.any_eq_true, Bool.and_eq_true, decide_eq_true_eq] at h
  exact h

/-- no valued range overlaps a plain range -/
def disj (as : List (Nat × Nat × Nat)) (bs : List (Nat × Nat)) : Bool :=
  as.all fun a => bs.all fun b => decide (a.2.1 < b.1) || decide (b.2 < a.1)

theorem disj_sound {as : List (Nat × Nat × Nat)} {bs : List (Nat × Nat)} (hd : disj as bs = true)
    {c v : Nat} (h : valIn as c = some v) : inRanges bs c = false := by
  cases hb : inRanges bs c with
  | false => rfl
  | true =>
    obtain ⟨a, ha, ha1, ha2⟩ := valIn_some_mem h
    obtain ⟨b, hb', hb1, hb2⟩ := inRanges_true_mem hb
    simp only [disj, List.all_eq_true, Bool.or_eq_true, decide_eq_true_eq] at hd
    have := hd a ha b hb'
    omega

/-- `int()` digits are neither whitespace, sign nor underscore -/
theorem intDigit_disj : disj intDigitRanges (intSpaceRanges ++ [(43, 43), (45, 45), (95, 95)]) = true := by
  decide +kernel

theorem intDigit_not_special {c v : Nat} (h : intDigit? c = some v) :
    isIntSpace c = false ∧ c ≠ 43 ∧ c ≠ 45 ∧ c ≠ 95 := by
  have := disj_sound intDigit_disj h
  simp only [inRanges, List.any_append, Bool.or_eq_false_iff] at this
  refine ⟨this.1, ?_, ?_, ?_⟩ <;> intro hc <;> subst hc <;> simp at this

/-- the class `re` calls `\d` and the digits `int()` accepts are the same table (so `int(match.group(..))`
cannot raise) -/
theorem reDigit_eq_intDigit : reDigitRanges = intDigitRanges := by decide +kernel

theorem reDigit?_eq (c : Nat) : reDigit? c = intDigit? c := by
  simp [reDigit?, intDigit?, reDigit_eq_intDigit]

theorem ascii_digit_tables : ∀ d : Fin 10,
    intDigit? (48 + d.val) = some d.val ∧ isdigitChar (48 + d.val) = true := by decide +kernel

theorem intDigit_ascii {c : Nat} (h1 : 48 ≤ c) (h2 : c ≤ 57) : intDigit? c = some (c - 48) := by
  have := (ascii_digit_tables ⟨c - 48, by omega⟩).1
  simpa [show 48 + (c - 48) = c by omega] using this

theorem isdigitChar_ascii {c : Nat} (h1 : 48 ≤ c) (h2 : c ≤ 57) : isdigitChar c = true := by
  have := (ascii_digit_tables ⟨c - 48, by omega⟩).2
  simpa [show 48 + (c - 48) = c by omega] using this

theorem sep_not_digit : isdigitChar 47 = false ∧ isdigitChar 46 = false ∧ isdigitChar 45 = false
    ∧ isdigitChar 44 = false ∧ isdigitChar 42 = false := by decide +kernel

/-! ### split -/

theorem splitOn_ne_nil (sep : Nat) (s : Str) : splitOn sep s ≠ [] := by
  induction s with
  | nil => simp [splitOn]
  | cons c cs ih =>
    simp only [splitOn]
    split
    · simp
    · split <;> simp

theorem splitOn_of_not_mem {sep : Nat} {p : Str} (h : sep ∉ p) : splitOn sep p = [p] := by
  induction p with
  | nil => rfl
  | cons c cs ih =>
    simp only [List.mem_cons, not_or] at h
    simp only [splitOn, ih h.2]
    simp [Ne.symm h.1]

theorem splitOn_append_sep {sep : Nat} {p : Str} (rest : Str) (h : sep ∉ p) :
    splitOn sep (p ++ sep :: rest) = p :: splitOn sep rest := by
  induction p with
  | nil =>
    simp only [List.nil_append, splitOn]
    cases hr : splitOn sep rest with
    | nil => exact absurd hr (splitOn_ne_nil _ _)
    | cons a as => simp
  | cons c cs ih =>
    simp only [List.mem_cons, not_or] at h
    simp only [List.cons_append, splitOn, ih h.2]
    simp [Ne.symm h.1]

/-- joining pieces that do not contain the separator and splitting again gives the pieces back -/
theorem splitOn_joinSep {sep : Nat} {ps : List Str} (hne : ps ≠ []) (h : ∀ p ∈ ps, sep ∉ p) :
    splitOn sep (joinSep sep ps) = ps := by
  induction ps with
  | nil => exact absurd rfl hne
  | cons p rest ih =>
    cases rest with
    | nil => simpa [joinSep] using splitOn_of_not_mem (h p List.mem_cons_self)
    | cons q rest' =>
      simp only [joinSep]
      rw [splitOn_append_sep _ (h p List.mem_cons_self), ih (by simp)]
      intro x hx
      exact h x (List.mem_cons_of_mem _ hx)

/-! ### str(int) -/

theorem decAux_acc (fuel n : Nat) (acc : Str) : decAux fuel n acc = decAux fuel n [] ++ acc := by
  induction fuel generalizing n acc with
  | zero => simp [decAux]
  | succ k ih =>
    simp only [decAux]
    split
    · simp
    · rw [ih (n / 10) ((48 + n % 10) :: acc), ih (n / 10) [48 + n % 10]]
      simp

theorem decAux_fuel (f1 f2 n : Nat) (acc : Str) (h1 : n < f1) (h2 : n < f2) :
    decAux f1 n acc = decAux f2 n acc := by
  induction f1 generalizing f2 n acc with
  | zero => omega
  | succ k ih =>
    cases f2 with
    | zero => omega
    | succ m =>
      simp only [decAux]
      split
      · rfl
      · exact ih m (n / 10) _ (by omega) (by omega)

/-- the defining recursion of `str(n)` -/
theorem dec_eq (n : Nat) : dec n = if n < 10 then [48 + n] else dec (n / 10) ++ [48 + n % 10] := by
  show decAux (n + 1) n [] = if n < 10 then [48 + n] else decAux (n / 10 + 1) (n / 10) [] ++ [48 + n % 10]
  rw [decAux]
  split
  · rfl
  · rw [decAux_acc, decAux_fuel n (n / 10 + 1) (n / 10) [] (by omega) (by omega)]

theorem dec_lt10 {n : Nat} (h : n < 10) : dec n = [48 + n] := by rw [dec_eq, if_pos h]

theorem dec_ge10 {n : Nat} (h : 10 ≤ n) : dec n = dec (n / 10) ++ [48 + n % 10] := by
  rw [dec_eq, if_neg (by omega)]

theorem dec_ne_nil (n : Nat) : dec n ≠ [] := by
  rw [dec_eq]; split <;> simp

theorem dec_ascii (n : Nat) : ∀ c ∈ dec n, 48 ≤ c ∧ c ≤ 57 := by
  induction n using Nat.strongRecOn with
  | _ n ih =>
    intro c hc
    rw [dec_eq] at hc
    split at hc
    · simp only [List.mem_singleton] at hc; omega
    · simp only [List.mem_append, List.mem_singleton] at hc
      rcases hc with h | h
      · exact ih (n / 10) (by omega) c h
      · omega

theorem dec_length_le (k n : Nat) (hk : 0 < k) (h : n < 10 ^ k) : (dec n).length ≤ k := by
  induction k generalizing n with
  | zero => omega
  | succ j ih =>
    rw [dec_eq]
    split
    · simp
    · rename_i h10
      cases j with
      | zero => simp at h; omega
      | succ i =>
        have : n / 10 < 10 ^ (i + 1) := by
          rw [Nat.pow_succ] at h
          omega
        have := ih (n / 10) (by omega) this
        simp only [List.length_append, List.length_singleton]
        omega

theorem dec_length_pos (n : Nat) : 0 < (dec n).length :=
  List.length_pos_iff.mpr (dec_ne_nil n)

theorem digitsVal_append_single (ds : List Nat) (v : Nat) : digitsVal (ds ++ [v]) = digitsVal ds * 10 + v := by
  simp [digitsVal, List.foldl_append]

/-- digit values of `str(n)` evaluate back to `n` -/
theorem digitsVal_dec (n : Nat) : digitsVal ((dec n).filterMap intDigit?) = n := by
  induction n using Nat.strongRecOn with
  | _ n ih =>
    rw [dec_eq]
    split
    · rename_i h
      simp [intDigit_ascii (c := 48 + n) (by omega) (by omega), digitsVal]
    · rename_i h
      rw [List.filterMap_append, show [48 + n % 10].filterMap intDigit? = [n % 10] by
        simp [intDigit_ascii (c := 48 + n % 10) (by omega) (by omega)],
        digitsVal_append_single, ih (n / 10) (by omega)]
      omega

/-! ### int(str) on pure digit strings -/

theorem stripBy_of_none (p : Nat → Bool) (s : Str) (h : ∀ c ∈ s, p c = false) : stripBy p s = s := by
  have h1 : ∀ l : Str, (∀ c ∈ l, p c = false) → l.dropWhile p = l := by
    intro l hl
    cases l with
    | nil => rfl
    | cons a as => simp [List.dropWhile, hl a List.mem_cons_self]
  unfold stripBy
  rw [h1 s h, h1 s.reverse (by intro c hc; exact h c (List.mem_reverse.mp hc)), List.reverse_reverse]

theorem pyInt_digits (s : Str) (hne : s ≠ []) (hd : ∀ c ∈ s, (intDigit? c).isSome = true)
    (hl : s.length ≤ intMaxStrDigits) :
    pyInt s = some (digitsVal (s.filterMap intDigit?) : Int) := by
  have hspec : ∀ c ∈ s, isIntSpace c = false ∧ c ≠ 43 ∧ c ≠ 45 ∧ c ≠ 95 := by
    intro c hc
    obtain ⟨v, hv⟩ := Option.isSome_iff_exists.mp (hd c hc)
    exact intDigit_not_special hv
  have hstrip : stripBy isIntSpace s = s := stripBy_of_none _ _ (fun c hc => (hspec c hc).1)
  have hsplit : splitOn 95 s = [s] := splitOn_of_not_mem (fun hm => (hspec 95 hm).2.2.2 rfl)
  have hlen : (s.filterMap intDigit?).length = s.length := by
    clear hne hl hspec hstrip hsplit
    induction s with
    | nil => rfl
    | cons a as ih =>
      obtain ⟨v, hv⟩ := Option.isSome_iff_exists.mp (hd a List.mem_cons_self)
      simp [hv, ih (fun c hc => hd c (List.mem_cons_of_mem _ hc))]
  have hdu : digitsU s = some (s.filterMap intDigit?) := by
    unfold digitsU
    simp only [hsplit, List.all_cons, List.all_nil, Bool.and_true, List.flatten_cons, List.flatten_nil,
      List.append_nil]
    have h1 : s.isEmpty = false := by cases s <;> simp_all
    have h2 : s.all (fun c => (intDigit? c).isSome) = true := List.all_eq_true.mpr hd
    simp [h1, h2]
  have hsign : splitSign s = (false, s) := by
    cases s with
    | nil => exact absurd rfl hne
    | cons a as =>
      have ha := hspec a List.mem_cons_self
      unfold splitSign
      split
      · rename_i heq; injection heq with h1 _; exact absurd h1 ha.2.1
      · rename_i heq; injection heq with h1 _; exact absurd h1 ha.2.2.1
      · rfl
  unfold pyInt
  simp only [hstrip, hsign, hdu]
  rw [if_neg (by rw [hlen]; simp; omega)]
  simp

theorem pyInt_dec (n : Nat) (hl : (dec n).length ≤ intMaxStrDigits) : pyInt (dec n) = some (n : Int) := by
  rw [pyInt_digits (dec n) (dec_ne_nil n) _ hl, digitsVal_dec]
  intro c hc
  have := dec_ascii n c hc
  rw [intDigit_ascii this.1 this.2]; rfl

theorem isdigit_dec (n : Nat) : isdigit (dec n) = true := by
  have h1 : (dec n).isEmpty = false := by
    cases h : dec n with
    | nil => exact absurd h (dec_ne_nil n)
    | cons => rfl
  simp only [isdigit, h1, Bool.not_false, Bool.true_and, List.all_eq_true]
  intro c hc
  have := dec_ascii n c hc
  exact isdigitChar_ascii this.1 this.2

theorem isdigit_false_of_mem {s : Str} {c : Nat} (hc : c ∈ s) (hn : isdigitChar c = false) :
    isdigit s = false := by
  simp only [isdigit, Bool.and_eq_false_iff]
  right
  apply Bool.eq_false_iff.mpr
  intro hall
  have := List.all_eq_true.mp hall c hc
  simp [hn] at this

/-! ### strip -/

theorem dropWhile_idem (p : Nat → Bool) (l : Str) : (l.dropWhile p).dropWhile p = l.dropWhile p := by
  induction l with
  | nil => rfl
  | cons a as ih =>
    by_cases h : p a = true
    · simp [h, ih]
    · simp [h]

theorem dropWhile_eq_self_of_head (p : Nat → Bool) (x : Nat) (l : Str) (h : p x = false) :
    (x :: l).dropWhile p = x :: l := by simp [h]

theorem head_dropWhile_false (p : Nat → Bool) (s : Str) (x : Nat) (l : Str) (h : s.dropWhile p = x :: l) :
    p x = false := by
  induction s with
  | nil => simp at h
  | cons a as ih =>
    by_cases ha : p a = true
    · simp [ha] at h; exact ih h
    · simp [ha] at h
      obtain ⟨h1, _⟩ := h
      subst h1
      simpa using ha

theorem stripBy_idem (p : Nat → Bool) (s : Str) : stripBy p (stripBy p s) = stripBy p s := by
  unfold stripBy
  generalize hu : s.dropWhile p = u
  generalize hw : u.reverse.dropWhile p = w
  have hsuf : w <:+ u.reverse := by rw [← hw]; exact List.dropWhile_suffix p
  obtain ⟨a, ha⟩ := hsuf
  have hu' : u = w.reverse ++ a.reverse := by
    have := congrArg List.reverse ha
    simpa using this.symm
  have h1 : w.reverse.dropWhile p = w.reverse := by
    cases ht : w.reverse with
    | nil => rfl
    | cons x t' =>
      rw [ht] at hu'
      have hx : p x = false := head_dropWhile_false p s x (t' ++ a.reverse) (by rw [hu, hu']; rfl)
      exact dropWhile_eq_self_of_head p x t' hx
  rw [h1, List.reverse_reverse]
  have h2 : w.dropWhile p = w := by rw [← hw]; exact dropWhile_idem p _
  rw [h2]

theorem strip_idem (s : Str) : strip (strip s) = strip s := stripBy_idem _ s

end XknxVerif.Py.Str
