/-
Every KNX/IP parser model raises only `CouldNotParseKNXIP` (`Exc.parse`);
`Header.parse` / `parseFrame` additionally `IncompleteKNXIPFrame`.
The proofs walk the model's control flow: every `raw[i]` is shown to be in
range under the guards that precede it, every enum constructor to sit inside
its `except ValueError`.
-/
import XknxVerif.Lemmas.KNXIPRaises

namespace XknxVerif.KNXIP
open XknxVerif.Generated.KNXIP

/-- only `CouldNotParseKNXIP` -/
abbrev P : Exc → Prop := fun e => e = .parse

macro "raises_step" : tactic => `(tactic| first
  | exact Raises.ok _
  | exact Raises.error _ rfl
  | exact Raises.error _ (Or.inr rfl)
  | exact Raises.enumOf _ _
  | (refine Raises.idx ?_; len_omega)
  | (refine Raises.inetNtoa ?_; simp only [slice_length]; len_omega)
  | refine Raises.ite' (fun _ => ?_) (fun _ => ?_)
  | refine Raises.exceptValue ?_ ?_
  | refine Raises.bind ?_ (fun _ _ => ?_))

macro "raises" : tactic => `(tactic| repeat raises_step)

theorem HPAI.parse_raises (raw : Bytes) : Raises (HPAI.parse raw) P := by
  unfold HPAI.parse
  raises


theorem CRI.parse_raises (raw : Bytes) : Raises (CRI.parse raw) P := by
  unfold CRI.parse
  refine Raises.ite' (fun _ => by raises) (fun _ => ?_)
  refine Raises.bind (by raises) (fun len hlen => ?_)
  refine Raises.ite' (fun _ => by raises) (fun _ => ?_)
  refine Raises.ite' (fun _ => by raises) (fun _ => ?_)
  refine Raises.bind (by raises) (fun ct _ => ?_)
  refine Raises.ite' (fun _ => ?_) (fun _ => by raises)
  refine Raises.bind (by raises) (fun ext hext => ?_)
  have hl : len = Const.criTunnelLength ∨ len = Const.criTunnelExtLength := by
    split at hext
    · exact Or.inl ‹_›
    · split at hext
      · exact Or.inr ‹_›
      · cases hext
  raises

theorem CRD.parse_raises (raw : Bytes) : Raises (CRD.parse raw) P := by
  unfold CRD.parse
  raises

theorem DIB.parseGeneric_raises (raw : Bytes) : Raises (DIB.parseGeneric raw) P := by
  unfold DIB.parseGeneric
  raises

theorem DIB.parseDeviceInfo_raises (raw : Bytes) : Raises (DIB.parseDeviceInfo raw) P := by
  unfold DIB.parseDeviceInfo
  raises

theorem DIB.familyLoop_raises (raw : Bytes) (pos n : Nat) (h : pos + 2 * n ≤ raw.length) :
    Raises (DIB.familyLoop raw pos n) P := by
  induction n generalizing pos with
  | zero => unfold DIB.familyLoop; raises
  | succ k ih =>
    unfold DIB.familyLoop
    refine Raises.bind (by raises) (fun _ _ => ?_)
    refine Raises.bind (by raises) (fun _ _ => ?_)
    refine Raises.bind (ih (pos + 2) (by omega)) (fun _ _ => ?_)
    raises

theorem DIB.parseFamilies_raises (s : Bool) (raw : Bytes) : Raises (DIB.parseFamilies s raw) P := by
  unfold DIB.parseFamilies
  refine Raises.ite' (fun _ => by raises) (fun _ => ?_)
  refine Raises.bind (by raises) (fun len _ => ?_)
  refine Raises.ite' (fun _ => by raises) (fun _ => ?_)
  refine Raises.bind (by raises) (fun _ _ => ?_)
  refine Raises.ite' (fun _ => by raises) (fun _ => ?_)
  refine Raises.bind (DIB.familyLoop_raises raw 2 _ (by len_omega)) (fun _ _ => ?_)
  raises

theorem DIB.slotLoop_raises (raw : Bytes) (pos n : Nat) (acc) (h : pos + 4 * n ≤ raw.length) :
    Raises (DIB.slotLoop raw pos n acc) P := by
  induction n generalizing pos acc with
  | zero => unfold DIB.slotLoop; raises
  | succ k ih =>
    unfold DIB.slotLoop
    refine Raises.bind (by raises) (fun _ _ => ?_)
    exact ih (pos + 4) _ (by omega)

theorem DIB.parseTunnelingInfo_raises (raw : Bytes) : Raises (DIB.parseTunnelingInfo raw) P := by
  unfold DIB.parseTunnelingInfo
  refine Raises.ite' (fun _ => by raises) (fun _ => ?_)
  refine Raises.bind (by raises) (fun len _ => ?_)
  refine Raises.ite' (fun _ => by raises) (fun _ => ?_)
  refine Raises.bind (by raises) (fun _ _ => ?_)
  refine Raises.ite' (fun _ => by raises) (fun _ => ?_)
  refine Raises.bind (DIB.slotLoop_raises raw 4 _ _ (by len_omega)) (fun _ _ => ?_)
  raises

theorem DIB.parse_raises (raw : Bytes) : Raises (DIB.parse raw) P := by
  unfold DIB.parse
  refine Raises.ite' (fun _ => by raises) (fun _ => ?_)
  refine Raises.bind (by raises) (fun t _ => ?_)
  repeat' split
  all_goals first
    | exact DIB.parseGeneric_raises raw
    | exact DIB.parseDeviceInfo_raises raw
    | exact DIB.parseFamilies_raises _ raw
    | exact DIB.parseTunnelingInfo_raises raw

theorem SRP.init_raises (ty : Nat) (m : Bool) (data : Bytes) :
    Raises (SRP.init ty m data) (fun e => e = .conversion) := by
  unfold SRP.init
  repeat' refine Raises.ite' (fun _ => ?_) (fun _ => ?_)
  all_goals first
    | exact Raises.ok _
    | exact Raises.error _ rfl

theorem Raises.exceptValueConversion {α} {S : Exc → Prop} {m h : PyM α}
    (hm : Raises m (fun e => e = .valueError ∨ e = .conversion ∨ S e)) (hh : Raises h S) :
    Raises (exceptValueConversion m h) S := by
  intro e he
  unfold KNXIP.exceptValueConversion at he
  split at he
  · exact hh e he
  · exact hh e he
  · rename_i h1 h2
    rcases hm e he with h | h | h
    · subst h; exact absurd he (h1 ·)
    · subst h; exact absurd he (h2 ·)
    · exact h

theorem SRP.parse_raises (raw : Bytes) : Raises (SRP.parse raw) P := by
  unfold SRP.parse
  refine Raises.ite' (fun _ => by raises) (fun _ => ?_)
  refine Raises.bind (by raises) (fun size _ => ?_)
  refine Raises.ite' (fun _ => by raises) (fun _ => ?_)
  refine Raises.exceptValueConversion ?_ (by raises)
  refine Raises.bind (by raises) (fun b1 _ => ?_)
  refine Raises.bind ((Raises.enumOf (S := fun e => e = .conversion ∨ P e) _ _)) (fun ty _ => ?_)
  exact (SRP.init_raises _ _ _).mono (fun e he => Or.inr (Or.inl he))

theorem parseDibs_raises (raw : Bytes) : Raises (parseDibs raw) P := by
  fun_induction parseDibs raw with
  | case1 raw h => exact Raises.ok _
  | case2 raw h e he => exact Raises.error _ (DIB.parse_raises raw e he)
  | case3 raw h d n he ih => exact Raises.bind ih (fun _ _ => Raises.ok _)

theorem parseSrps_raises (raw : Bytes) : Raises (parseSrps raw) P := by
  fun_induction parseSrps raw with
  | case1 raw h => exact Raises.ok _
  | case2 raw h e he => exact Raises.error _ (SRP.parse_raises raw e he)
  | case3 raw h s he ih => exact Raises.bind ih (fun _ _ => Raises.ok _)


/-! ### bodies -/

theorem Raises.exceptParse {α} {S : Exc → Prop} {m h : PyM α}
    (hm : Raises m (fun e => e = .parse ∨ e = .incomplete ∨ S e)) (hh : Raises h S) :
    Raises (exceptParse m h) S := by
  intro e he
  unfold KNXIP.exceptParse at he
  split at he
  · exact hh e he
  · exact hh e he
  · rename_i h1 h2
    rcases hm e he with h | h | h
    · subst h; exact absurd he (h1 ·)
    · subst h; exact absurd he (h2 ·)
    · exact h

theorem parseSearchRequest_raises (raw : Bytes) : Raises (parseSearchRequest raw) P := by
  unfold parseSearchRequest
  exact Raises.bind (HPAI.parse_raises raw) (fun _ _ => Raises.ok _)

theorem parseSearchRequestExtended_raises (raw : Bytes) : Raises (parseSearchRequestExtended raw) P := by
  unfold parseSearchRequestExtended
  exact Raises.bind (HPAI.parse_raises raw) (fun _ _ => Raises.bind (parseSrps_raises _) (fun _ _ => Raises.ok _))

theorem parseSearchResponse_raises (x : Bool) (raw : Bytes) : Raises (parseSearchResponse x raw) P := by
  unfold parseSearchResponse
  exact Raises.bind (HPAI.parse_raises raw) (fun _ _ => Raises.bind (parseDibs_raises _) (fun _ _ => Raises.ok _))

theorem parseDescriptionRequest_raises (raw : Bytes) : Raises (parseDescriptionRequest raw) P := by
  unfold parseDescriptionRequest
  exact Raises.bind (HPAI.parse_raises raw) (fun _ _ => Raises.ok _)

theorem parseDescriptionResponse_raises (raw : Bytes) : Raises (parseDescriptionResponse raw) P := by
  unfold parseDescriptionResponse
  exact Raises.bind (parseDibs_raises raw) (fun _ _ => Raises.ok _)

theorem parseConnectRequest_raises (raw : Bytes) : Raises (parseConnectRequest raw) P := by
  unfold parseConnectRequest
  exact Raises.bind (HPAI.parse_raises raw) (fun _ _ =>
    Raises.bind (HPAI.parse_raises _) (fun _ _ => Raises.bind (CRI.parse_raises _) (fun _ _ => Raises.ok _)))

theorem parseConnectResponse_raises (raw : Bytes) : Raises (parseConnectResponse raw) P := by
  unfold parseConnectResponse
  refine Raises.ite' (fun _ => by raises) (fun _ => ?_)
  refine Raises.bind (by raises) (fun ch _ => ?_)
  refine Raises.bind (by raises) (fun st _ => ?_)
  have hec : Raises (HPAI.parse (raw.drop 2) >>= fun h =>
      CRD.parse (raw.drop (2 + h.2)) >>= fun c => (.ok (h.1, c.1) : PyM (HPAI × CRD))) P :=
    Raises.bind (HPAI.parse_raises _) (fun _ _ => Raises.bind (CRD.parse_raises _) (fun _ _ => Raises.ok _))
  refine Raises.ite' (fun _ => ?_) (fun _ => ?_)
  · exact Raises.bind hec (fun _ _ => Raises.ok _)
  · exact Raises.bind (Raises.exceptParse (hec.mono (fun e he => Or.inl he)) (Raises.ok _)) (fun _ _ => Raises.ok _)

theorem parseConnRequest_raises (k : ConnKind) (raw : Bytes) : Raises (parseConnRequest k raw) P := by
  unfold parseConnRequest
  refine Raises.ite' (fun _ => by raises) (fun _ => ?_)
  refine Raises.bind (by raises) (fun ch _ => ?_)
  exact Raises.bind (HPAI.parse_raises _) (fun _ _ => Raises.ok _)

theorem parseConnResponse_raises (k : ConnKind) (raw : Bytes) : Raises (parseConnResponse k raw) P := by
  unfold parseConnResponse
  cases k <;> raises

theorem parseCemiRequest_raises (k : ReqKind) (raw : Bytes) : Raises (parseCemiRequest k raw) P := by
  unfold parseCemiRequest
  cases k <;> raises

theorem parseCemiAck_raises (k : ReqKind) (raw : Bytes) : Raises (parseCemiAck k raw) P := by
  unfold parseCemiAck
  cases k <;> raises

theorem parseFeature_raises (k : FeatKind) (raw : Bytes) : Raises (parseFeature k raw) P := by
  unfold parseFeature
  raises

theorem parseFeatureResponse_raises (raw : Bytes) : Raises (parseFeatureResponse raw) P := by
  unfold parseFeatureResponse
  raises

theorem parseRoutingLostMessage_raises (raw : Bytes) : Raises (parseRoutingLostMessage raw) P := by
  unfold parseRoutingLostMessage
  raises

theorem parseRoutingBusy_raises (raw : Bytes) : Raises (parseRoutingBusy raw) P := by
  unfold parseRoutingBusy
  raises

theorem parseSecureWrapper_raises (raw : Bytes) : Raises (parseSecureWrapper raw) P := by
  unfold parseSecureWrapper
  raises

theorem parseSessionRequest_raises (raw : Bytes) : Raises (parseSessionRequest raw) P := by
  unfold parseSessionRequest
  refine Raises.ite' (fun _ => by raises) (fun _ => ?_)
  exact Raises.bind (HPAI.parse_raises _) (fun _ _ => Raises.ok _)

theorem parseSessionResponse_raises (raw : Bytes) : Raises (parseSessionResponse raw) P := by
  unfold parseSessionResponse
  raises

theorem parseSessionAuthenticate_raises (raw : Bytes) : Raises (parseSessionAuthenticate raw) P := by
  unfold parseSessionAuthenticate
  raises

theorem parseSessionStatus_raises (raw : Bytes) : Raises (parseSessionStatus raw) P := by
  unfold parseSessionStatus
  raises

theorem parseTimerNotify_raises (raw : Bytes) : Raises (parseTimerNotify raw) P := by
  unfold parseTimerNotify
  raises

/-- `body.from_knx(raw_body)` raises nothing but `CouldNotParseKNXIP`, for every service type and body. -/
theorem parseBody_raises (st : Nat) (raw : Bytes) : Raises (parseBody st raw) P := by
  unfold parseBody
  refine Raises.ite' (fun _ => parseSearchRequest_raises raw) (fun _ => ?_)
  refine Raises.ite' (fun _ => parseSearchRequestExtended_raises raw) (fun _ => ?_)
  refine Raises.ite' (fun _ => parseSearchResponse_raises _ raw) (fun _ => ?_)
  refine Raises.ite' (fun _ => parseSearchResponse_raises _ raw) (fun _ => ?_)
  refine Raises.ite' (fun _ => parseDescriptionRequest_raises raw) (fun _ => ?_)
  refine Raises.ite' (fun _ => parseDescriptionResponse_raises raw) (fun _ => ?_)
  refine Raises.ite' (fun _ => parseConnectRequest_raises raw) (fun _ => ?_)
  refine Raises.ite' (fun _ => parseConnectResponse_raises raw) (fun _ => ?_)
  refine Raises.ite' (fun _ => parseConnRequest_raises _ raw) (fun _ => ?_)
  refine Raises.ite' (fun _ => parseConnResponse_raises _ raw) (fun _ => ?_)
  refine Raises.ite' (fun _ => parseConnRequest_raises _ raw) (fun _ => ?_)
  refine Raises.ite' (fun _ => parseConnResponse_raises _ raw) (fun _ => ?_)
  refine Raises.ite' (fun _ => parseCemiRequest_raises _ raw) (fun _ => ?_)
  refine Raises.ite' (fun _ => parseCemiAck_raises _ raw) (fun _ => ?_)
  refine Raises.ite' (fun _ => parseCemiRequest_raises _ raw) (fun _ => ?_)
  refine Raises.ite' (fun _ => parseCemiAck_raises _ raw) (fun _ => ?_)
  refine Raises.ite' (fun _ => parseFeature_raises _ raw) (fun _ => ?_)
  refine Raises.ite' (fun _ => parseFeature_raises _ raw) (fun _ => ?_)
  refine Raises.ite' (fun _ => parseFeatureResponse_raises raw) (fun _ => ?_)
  refine Raises.ite' (fun _ => parseFeature_raises _ raw) (fun _ => ?_)
  refine Raises.ite' (fun _ => Raises.ok _) (fun _ => ?_)
  refine Raises.ite' (fun _ => parseRoutingBusy_raises raw) (fun _ => ?_)
  refine Raises.ite' (fun _ => parseRoutingLostMessage_raises raw) (fun _ => ?_)
  refine Raises.ite' (fun _ => parseSecureWrapper_raises raw) (fun _ => ?_)
  refine Raises.ite' (fun _ => parseSessionAuthenticate_raises raw) (fun _ => ?_)
  refine Raises.ite' (fun _ => parseSessionRequest_raises raw) (fun _ => ?_)
  refine Raises.ite' (fun _ => parseSessionResponse_raises raw) (fun _ => ?_)
  refine Raises.ite' (fun _ => parseSessionStatus_raises raw) (fun _ => ?_)
  refine Raises.ite' (fun _ => parseTimerNotify_raises raw) (fun _ => ?_)
  exact Raises.error _ rfl

/-- only `CouldNotParseKNXIP` or `IncompleteKNXIPFrame` -/
abbrev Declared : Exc → Prop := fun e => e = .parse ∨ e = .incomplete

theorem Header.parse_raises (d : Bytes) : Raises (Header.parse d) Declared := by
  unfold Header.parse
  refine Raises.ite' (fun _ => Raises.error _ (Or.inr rfl)) (fun _ => ?_)
  refine Raises.mono (S := P) ?_ (fun e he => Or.inl he)
  raises

/-- with a complete header only `CouldNotParseKNXIP` is possible -/
theorem Header.parse_raises_of_len {d : Bytes} (h : ¬ d.length < Const.headerLength) : Raises (Header.parse d) P := by
  unfold Header.parse
  rw [if_neg h]
  raises

theorem Header.parse_short {d : Bytes} (h : d.length < Const.headerLength) : Header.parse d = .error .incomplete := by
  unfold Header.parse
  rw [if_pos h]

theorem parseFrame_raises (d : Bytes) : Raises (parseFrame d) Declared := by
  unfold parseFrame
  refine Raises.bind (Header.parse_raises d) (fun h _ => ?_)
  refine Raises.ite' (fun _ => Raises.error _ (Or.inr rfl)) (fun _ => ?_)
  exact Raises.bind ((parseBody_raises _ _).mono (fun e he => Or.inl he)) (fun _ _ => Raises.ok _)

end XknxVerif.KNXIP
