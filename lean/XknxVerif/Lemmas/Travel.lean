/-
Helper lemmas for the travel-calculator model: truncating division bounds and
the closed form of `estimate`.
-/
import XknxVerif.Model.Travel
import Mathlib.Tactic.Ring
import Mathlib.Tactic.Linarith

namespace XknxVerif.Travel
open XknxVerif.Generated.Travel

theorem closed_pos : 0 < positionClosed := by decide
theorem closed_ne : positionClosed ≠ 0 := by decide

/-- Travel times are fractions with positive denominators. -/
def Cfg.WF (cfg : Cfg) : Prop := 0 < cfg.down.den ∧ 0 < cfg.up.den

/-- `a ≤ N/D ≤ b` (as rationals) ⇒ `a ≤ int(N/D) ≤ b` — truncation never leaves an integer interval. -/
theorem tdiv_bounds {N D a b : Int} (hD : 0 < D) (h1 : a * D ≤ N) (h2 : N ≤ b * D) :
    a ≤ N.tdiv D ∧ N.tdiv D ≤ b := by
  have hne : D ≠ 0 := Int.ne_of_gt hD
  constructor
  · have := Int.tdiv_le_tdiv hD h1
    rwa [Int.mul_tdiv_cancel _ hne] at this
  · have := Int.tdiv_le_tdiv hD h2
    rwa [Int.mul_tdiv_cancel _ hne] at this

/-- The remaining travel time `calculate_travel_time(l, g)` as a fraction. -/
def remOf (cfg : Cfg) (l g : Int) : Frac :=
  let full := if g - l > 0 then cfg.down else cfg.up
  ⟨full.num * ((g - l).natAbs : Int), full.den * positionClosed⟩

theorem travelTime_eq (cfg : Cfg) (l g : Int) : travelTime cfg l g = .ok (remOf cfg l g) := by
  simp [travelTime, remOf, closed_ne]

theorem remOf_den_pos {cfg : Cfg} (h : cfg.WF) (l g : Int) : 0 < (remOf cfg l g).den := by
  unfold remOf
  by_cases hgl : g - l > 0
  · simp only [hgl, if_true]; exact Int.mul_pos h.1 closed_pos
  · simp only [hgl, if_false]; exact Int.mul_pos h.2 closed_pos

theorem remOf_same (cfg : Cfg) (l : Int) : (remOf cfg l l).num = 0 := by
  simp [remOf]

/-- Has the travel time elapsed at reading `now`? (`now ≥ timestamp + remaining`, cross-multiplied) -/
def elapsed (cfg : Cfg) (s : St) (l g now : Int) : Prop :=
  (remOf cfg l g).num ≤ (now - s.ts) * (remOf cfg l g).den

instance (cfg : Cfg) (s : St) (l g now : Int) : Decidable (elapsed cfg s l g now) := by
  unfold elapsed; infer_instance

/-- The interpolated position before truncation is `interpNum / (remOf …).num`. -/
def interpNum (cfg : Cfg) (s : St) (l g now : Int) : Int :=
  l * (remOf cfg l g).num + (g - l) * ((now - s.ts) * (remOf cfg l g).den)

/-- Closed form of `_calculate_position` when position and target are known: it never raises. -/
theorem estimate_known (cfg : Cfg) (s : St) (now l g : Int) (hl : s.last = some l) (hg : s.target = some g) :
    estimate cfg s now = .ok (some (
      if reached (g - l) s.dir = true ∨ (remOf cfg l g).num ≤ 0 ∨ elapsed cfg s l g now then g
      else (interpNum cfg s l g now).tdiv (remOf cfg l g).num)) := by
  unfold estimate
  simp only [hl, hg, travelTime_eq]
  by_cases hr : reached (g - l) s.dir = true
  · simp [hr]
  · simp only [hr, if_false, Bool.false_eq_true, false_or]
    by_cases h0 : (remOf cfg l g).num ≤ 0
    · simp [h0]
    · by_cases he : elapsed cfg s l g now
      · have he' := he
        unfold elapsed at he'
        simp [he', he]
      · have he' := he
        unfold elapsed at he'
        have hne : (remOf cfg l g).num ≠ 0 := by omega
        simp [h0, he', he, hne, interpNum]

theorem estimate_unknown (cfg : Cfg) (s : St) (now : Int) (h : s.last = none ∨ s.target = none) :
    estimate cfg s now = .ok s.last := by
  unfold estimate
  rcases h with h | h
  · cases ht : s.target <;> simp [h]
  · cases hl : s.last <;> simp [h]

end XknxVerif.Travel
