/-
Lemmas for the ClimateMode loop (C39): processing telegrams that all "carry" the commanded mode keeps it.
-/
import XknxVerif.Model.ClimateModeLoop

namespace XknxVerif.ClimateModeLoop
open XknxVerif.Generated.DeviceLoop

set_option linter.unusedSimpArgs false
set_option linter.unusedVariables false

/-- the telegram cannot move the operation mode away from `m` -/
def CarriesOp (m : Nat) : Tg → Prop
  | .op m' => m' = m
  | .st v => v.mode = m
  | .bin own bit => bit = true → own = m
  | .ct _ => True
  | .hc _ => True

/-- the telegram cannot move the controller mode away from `c` -/
def CarriesCt (c : Nat) : Tg → Prop
  | .ct c' => c' = c
  | .st v => ctOfHeat v.isHeat = c
  | .hc bit => (if bit then heatCoolOwn else (if heatCoolOwn = heat then cool else heat)) = c
  | .op _ => True
  | .bin _ _ => True

theorem process_keeps_op (m : Nat) (t : Tg) (h : CarriesOp m t) (s : St) (hs : s.op = m) : (process s t).op = m := by
  cases t with
  | op m' =>
    simp only [CarriesOp] at h; subst h
    by_cases hc : s.opVal = some m' <;> simp [process, hc, hs]
  | ct c =>
    by_cases hc : s.ctVal = some c <;> simp [process, hc, hs]
  | st v =>
    simp only [CarriesOp] at h
    by_cases hc : s.status = some v <;> simp [process, hc, hs, h]
  | hc b => unfold process; simp_all
  | bin own bit =>
    simp only [CarriesOp] at h
    unfold process
    cases bit with
    | true => simp [h rfl]
    | false => simpa using hs

theorem processAll_keeps_op (m : Nat) (ts : List Tg) (h : ∀ t ∈ ts, CarriesOp m t) :
    ∀ s : St, s.op = m → (processAll s ts).op = m := by
  induction ts with
  | nil => intro s hs; simpa [processAll] using hs
  | cons t rest ih =>
    intro s hs
    have h1 := process_keeps_op m t (h t (by simp)) s hs
    have := ih (fun t' ht' => h t' (by simp [ht'])) (process s t) h1
    simpa [processAll] using this

theorem process_keeps_ct (c : Nat) (t : Tg) (h : CarriesCt c t) (s : St) (hs : s.ct = c) : (process s t).ct = c := by
  cases t with
  | ct c' =>
    simp only [CarriesCt] at h; subst h
    by_cases hc : s.ctVal = some c' <;> simp [process, hc, hs]
  | op m =>
    by_cases hc : s.opVal = some m <;> simp [process, hc, hs]
  | st v =>
    simp only [CarriesCt] at h
    by_cases hc : s.status = some v <;> simp [process, hc, hs, h]
  | hc b =>
    simp only [CarriesCt] at h
    unfold process; simp [h]
  | bin own bit =>
    unfold process
    cases bit <;> simpa using hs

theorem processAll_keeps_ct (c : Nat) (ts : List Tg) (h : ∀ t ∈ ts, CarriesCt c t) :
    ∀ s : St, s.ct = c → (processAll s ts).ct = c := by
  induction ts with
  | nil => intro s hs; simpa [processAll] using hs
  | cons t rest ih =>
    intro s hs
    have h1 := process_keeps_ct c t (h t (by simp)) s hs
    have := ih (fun t' ht' => h t' (by simp [ht'])) (process s t) h1
    simpa [processAll] using this

end XknxVerif.ClimateModeLoop
