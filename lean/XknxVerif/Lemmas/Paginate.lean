/-
Helper lemmas about the pagination model (Nat-indexed view of the Int-indexed Python slicing).
-/
import XknxVerif.Model.MCP

namespace XknxVerif.MCP

theorem sliceIdx_nat (len i : Nat) : sliceIdx len (i : Int) = min i len := by
  unfold sliceIdx
  have : ¬ ((i : Int) < 0) := by omega
  simp [this]

theorem take_drop_min {α} (items : List α) (limit off : Nat) :
    (items.take (min (off+limit) items.length)).drop (min off items.length)
      = (items.drop off).take limit := by
  apply List.ext_getElem?
  intro i
  simp only [List.getElem?_drop, List.getElem?_take]
  by_cases h1 : off ≤ items.length
  · rw [Nat.min_eq_left h1]
    by_cases h2 : i < limit
    · simp only [h2, ↓reduceIte]
      by_cases h3 : off + i < items.length
      · have : off + i < min (off + limit) items.length := by omega
        simp [this]
      · have : ¬ (off + i < min (off + limit) items.length) := by omega
        simp only [this, ↓reduceIte]
        exact (List.getElem?_eq_none (by omega)).symm
    · have : ¬ (off + i < min (off + limit) items.length) := by omega
      simp [this, h2]
  · have h1' : items.length ≤ off := by omega
    rw [Nat.min_eq_right h1']
    have : ¬ (items.length + i < min (off + limit) items.length) := by omega
    simp only [this, ↓reduceIte]
    split
    · exact (List.getElem?_eq_none (by omega)).symm
    · rfl

theorem drop_min {α} (items : List α) (off : Nat) :
    items.drop (min off items.length) = items.drop off := by
  by_cases h : off ≤ items.length
  · rw [Nat.min_eq_left h]
  · have h' : items.length ≤ off := by omega
    rw [Nat.min_eq_right h', List.drop_eq_nil_of_le (Nat.le_refl _), List.drop_eq_nil_of_le h']

theorem paginate_nat {α} (items : List α) (limit off : Nat) :
    paginate items (limit : Int) (off : Int)
      = ((items.drop off).take limit, decide (limit + off < items.length)) := by
  unfold paginate pySlice
  have h0 : (limit : Int) ≥ 0 := by omega
  have e1 : ((off : Int) + (limit : Int)) = ((off + limit : Nat) : Int) := by omega
  simp only [h0, ↓reduceIte, e1, sliceIdx_nat, take_drop_min]
  congr 1
  apply decide_eq_decide.mpr
  simp only [true_and]
  omega

theorem paginate_neg {α} (items : List α) (limit : Int) (off : Nat) (h : limit < 0) :
    paginate items limit (off : Int) = (items.drop off, false) := by
  unfold paginate pySliceFrom
  have h0 : ¬ (limit ≥ 0) := by omega
  simp only [h0, ↓reduceIte, sliceIdx_nat, drop_min, false_and, decide_false]

end XknxVerif.MCP
