/-
Helper lemmas for the keyring model (C31): the parser inverts the encoder,
the event handler computes the encoder, base64 / CBC / padding round trips,
dict lemmas for the Data Secure tables.
-/
import XknxVerif.Model.Keyring

namespace XknxVerif.Keyring

/-! ### side conditions -/

/-- attribute names of 1 or 2 octets are where the format is ambiguous -/
def GoodAttrs (as : Attrs) : Prop := ∀ kv ∈ as, kv.1.length ≠ 1 ∧ kv.1.length ≠ 2

mutual
  /-- no hashed attribute name is 1 or 2 octets long -/
  def GoodT : Tree → Prop
    | .node _ as ks => GoodAttrs (normAttrs as) ∧ GoodF ks
  def GoodF : Forest → Prop
    | .nil => True
    | .cons t ts => GoodT t ∧ GoodF ts
end

mutual
  /-- every hashed string fits one length octet (otherwise `append_string` raises) -/
  def SmallT : Tree → Prop
    | .node n as ks => n.length < 256 ∧ (∀ kv ∈ normAttrs as, kv.1.length < 256 ∧ kv.2.length < 256) ∧ SmallF ks
  def SmallF : Forest → Prop
    | .nil => True
    | .cons t ts => SmallT t ∧ SmallF ts
end

mutual
  def sizeT : Tree → Nat
    | .node _ _ ks => 1 + sizeF ks
  def sizeF : Forest → Nat
    | .nil => 1
    | .cons t ts => 1 + sizeT t + sizeF ts
end

/-! ### parser ∘ encoder -/

theorem takeStr_encStr (s rest : Bytes) : takeStr (encStr s ++ rest) = some (s, rest) := by
  simp [takeStr, encStr]

theorem encAttrs_length_ge (as : Attrs) : as.length ≤ (encAttrs as).length := by
  induction as with
  | nil => simp [encAttrs]
  | cons kv r ih =>
    obtain ⟨k, v⟩ := kv
    simp only [encAttrs, encStr, List.length_cons, List.length_append]
    omega

/-- what may follow an attribute list: nothing, a child (`01`) or the end marker (`02`) -/
def Stop (rest : Bytes) : Prop := rest = [] ∨ ∃ b bs, rest = b :: bs ∧ (b = 1 ∨ b = 2)

theorem decAttrs_encAttrs (as : Attrs) (hg : GoodAttrs as) (rest : Bytes) (hr : Stop rest) :
    ∀ f, as.length + 1 ≤ f → decAttrs f (encAttrs as ++ rest) = some (as, rest) := by
  induction as with
  | nil =>
    intro f hf
    obtain ⟨f, rfl⟩ : ∃ g, f = g + 1 := ⟨f - 1, by omega⟩
    rcases hr with rfl | ⟨b, bs, rfl, hb⟩
    · simp [encAttrs, decAttrs]
    · simp [encAttrs, decAttrs, hb]
  | cons kv r ih =>
    intro f hf
    obtain ⟨k, v⟩ := kv
    obtain ⟨f, rfl⟩ : ∃ g, f = g + 1 := ⟨f - 1, by simp at hf; omega⟩
    have hk := hg (k, v) (by simp)
    have hg' : GoodAttrs r := fun kv h => hg kv (by simp [h])
    have ih' := ih hg' f (by simp at hf; omega)
    have e1 : encAttrs ((k, v) :: r) ++ rest = k.length :: (k ++ (encStr v ++ (encAttrs r ++ rest))) := by
      simp [encAttrs, encStr]
    rw [e1]
    have hne : ¬ (k.length = 1 ∨ k.length = 2) := by
      intro h; rcases h with h | h
      · exact hk.1 h
      · exact hk.2 h
    have t1 : takeStr (k.length :: (k ++ (encStr v ++ (encAttrs r ++ rest))))
        = some (k, encStr v ++ (encAttrs r ++ rest)) := by
      have := takeStr_encStr k (encStr v ++ (encAttrs r ++ rest))
      simpa [encStr] using this
    simp only [decAttrs, hne, if_false, t1, takeStr_encStr, ih']

theorem encT_head (t : Tree) : ∃ bs, encT t = 1 :: bs := by
  cases t with
  | node n as ks => exact ⟨encStr n ++ (encAttrs (normAttrs as) ++ (encF ks ++ [2])), by simp [encT]⟩

theorem stop_encF (ks : Forest) (rest : Bytes) : Stop (encF ks ++ 2 :: rest) := by
  cases ks with
  | nil => exact Or.inr ⟨2, rest, by simp [encF], Or.inr rfl⟩
  | cons t ts =>
    obtain ⟨bs, h⟩ := encT_head t
    exact Or.inr ⟨1, bs ++ (encF ts ++ 2 :: rest), by simp [encF, h], Or.inl rfl⟩

mutual
  theorem decT_encT : ∀ (t : Tree), GoodT t → ∀ f, sizeT t ≤ f → ∀ rest,
      decT f (encT t ++ rest) = some (normT t, rest)
    | .node n as ks, hg, f, hf, rest => by
      obtain ⟨f, rfl⟩ : ∃ g, f = g + 1 := ⟨f - 1, by simp [sizeT] at hf; omega⟩
      have hks := decF_encF ks hg.2 f (by simp [sizeT] at hf; omega) rest
      have e : encT (.node n as ks) ++ rest
          = 1 :: (encStr n ++ (encAttrs (normAttrs as) ++ (encF ks ++ 2 :: rest))) := by
        simp [encT]
      rw [e]
      have ha := decAttrs_encAttrs (normAttrs as) hg.1 (encF ks ++ 2 :: rest) (stop_encF ks rest)
        ((encAttrs (normAttrs as) ++ (encF ks ++ 2 :: rest)).length + 1)
        (by have := encAttrs_length_ge (normAttrs as); simp only [List.length_append]; omega)
      simp only [decT, takeStr_encStr, ha, hks, normT]
  theorem decF_encF : ∀ (ks : Forest), GoodF ks → ∀ f, sizeF ks ≤ f → ∀ rest,
      decF f (encF ks ++ 2 :: rest) = some (normF ks, 2 :: rest)
    | .nil, _, f, hf, rest => by
      obtain ⟨f, rfl⟩ : ∃ g, f = g + 1 := ⟨f - 1, by simp [sizeF] at hf; omega⟩
      simp [encF, decF, normF]
    | .cons t ts, hg, f, hf, rest => by
      obtain ⟨f, rfl⟩ : ∃ g, f = g + 1 := ⟨f - 1, by simp [sizeF] at hf; omega⟩
      have h1 := decT_encT t hg.1 f (by simp [sizeF] at hf; omega) (encF ts ++ 2 :: rest)
      have h2 := decF_encF ts hg.2 f (by simp [sizeF] at hf; omega) rest
      obtain ⟨bs, hb⟩ := encT_head t
      have e : encF (.cons t ts) ++ 2 :: rest = 1 :: (bs ++ (encF ts ++ 2 :: rest)) := by
        simp [encF, hb]
      have e' : encT t ++ (encF ts ++ 2 :: rest) = 1 :: (bs ++ (encF ts ++ 2 :: rest)) := by
        simp [hb]
      rw [e]
      rw [e'] at h1
      simp only [decF, h1, h2, normF]
end

mutual
  theorem sizeT_le : ∀ t : Tree, sizeT t + 1 ≤ (encT t).length
    | .node n as ks => by
      have := sizeF_le ks
      simp only [sizeT, encT, encStr, List.length_cons, List.length_append, List.length_nil]
      omega
  theorem sizeF_le : ∀ ks : Forest, sizeF ks ≤ (encF ks).length + 1
    | .nil => by simp [sizeF, encF]
    | .cons t ts => by
      have := sizeT_le t
      have := sizeF_le ts
      simp only [sizeF, encF, List.length_append]
      omega
end

/-! ### the event handler computes the encoder -/

theorem appendAttrs_eq (as : Attrs) :
    ∀ out, (∀ kv ∈ as.filter (fun kv => !blacklist.contains kv.1), kv.1.length < 256 ∧ kv.2.length < 256) →
      appendAttrs out as = .ok (out ++ encAttrs (as.filter fun kv => !blacklist.contains kv.1)) := by
  induction as with
  | nil => intro out _; simp [appendAttrs, encAttrs]
  | cons kv r ih =>
    intro out h
    obtain ⟨k, v⟩ := kv
    rw [List.filter_cons] at h ⊢
    by_cases hb : blacklist.contains k = true
    · simp only [hb, Bool.not_true, Bool.false_eq_true, if_false] at h ⊢
      simp only [appendAttrs, hb, if_true]
      exact ih out h
    · have hb' : blacklist.contains k = false := by simpa using hb
      simp only [hb', Bool.not_false, if_true] at h ⊢
      have hk := h (k, v) (List.mem_cons_self ..)
      simp only [appendAttrs, hb', Bool.false_eq_true, if_false, appendString, hk.1, hk.2, if_true]
      rw [ih _ (fun kv hkv => h kv (List.mem_cons_of_mem _ hkv))]
      simp [encAttrs, encStr]

mutual
  theorem runEvents_eventsT : ∀ (t : Tree), SmallT t → ∀ out evs,
      runEvents out (eventsT t ++ evs) = runEvents (out ++ encT t) evs
    | .node n as ks, hs, out, evs => by
      have hk := runEvents_eventsF ks hs.2.2
      have ha := appendAttrs_eq (sortAttrs as) (out ++ 1 :: encStr n) hs.2.1
      simp only [eventsT, List.cons_append, runEvents, step, appendString, hs.1, if_true,
        List.append_assoc, List.nil_append, hk]
      rw [ha]
      simp [encT, normAttrs]
  theorem runEvents_eventsF : ∀ (ks : Forest), SmallF ks → ∀ out evs,
      runEvents out (eventsF ks ++ evs) = runEvents (out ++ encF ks) evs
    | .nil, _, out, evs => by simp [eventsF, encF]
    | .cons t ts, hs, out, evs => by
      have h1 := runEvents_eventsT t hs.1
      have h2 := runEvents_eventsF ts hs.2
      simp only [eventsF, List.append_assoc, h1, h2, encF]
end

/-! ### the encoding only depends on the normalised tree -/

mutual
  /-- encoding of an already normalised tree (attributes taken as they are) -/
  def encN : Tree → Bytes
    | .node n as ks => 1 :: (encStr n ++ (encAttrs as ++ (encNF ks ++ [2])))
  def encNF : Forest → Bytes
    | .nil => []
    | .cons t ts => encN t ++ encNF ts
end

mutual
  theorem encT_eq_encN : ∀ t : Tree, encT t = encN (normT t)
    | .node n as ks => by simp only [encT, normT, encN, encF_eq_encNF ks]
  theorem encF_eq_encNF : ∀ ks : Forest, encF ks = encNF (normF ks)
    | .nil => by simp only [encF, normF, encNF]
    | .cons t ts => by simp only [encF, normF, encNF, encT_eq_encN t, encF_eq_encNF ts]
end

/-! ### base64 -/

def b64Idx (c : Nat) : Nat := b64Alphabet.idxOf c

/-- decoder for the padded standard alphabet (inverse of `b64encode` on octets) -/
def b64decode : Bytes → Bytes
  | c0 :: c1 :: c2 :: c3 :: rest =>
    let s0 := b64Idx c0
    let s1 := b64Idx c1
    let s2 := b64Idx c2
    let s3 := b64Idx c3
    if c2 = 61 then [s0 * 4 + s1 / 16]
    else if c3 = 61 then [s0 * 4 + s1 / 16, s1 % 16 * 16 + s2 / 4]
    else (s0 * 4 + s1 / 16) :: (s1 % 16 * 16 + s2 / 4) :: (s2 % 4 * 64 + s3) :: b64decode rest
  | _ => []

theorem b64Idx_char : ∀ i : Fin 64, b64Idx (b64Char i.val) = i.val ∧ b64Char i.val ≠ 61 := by
  decide +kernel

theorem b64Idx_char' (i : Nat) (h : i < 64) : b64Idx (b64Char i) = i := (b64Idx_char ⟨i, h⟩).1
theorem b64Char_ne (i : Nat) (h : i < 64) : b64Char i ≠ 61 := (b64Idx_char ⟨i, h⟩).2

theorem b64decode_encode : ∀ (bs : Bytes), Bytes.WF bs → b64decode (b64encode bs) = bs
  | [], _ => by simp [b64encode, b64decode]
  | [a], h => by
    have ha : a < 256 := h a (by simp)
    simp only [b64encode, b64decode, if_true]
    rw [b64Idx_char' _ (by omega), b64Idx_char' _ (by omega)]
    congr 1; omega
  | [a, b], h => by
    have ha : a < 256 := h a (by simp)
    have hb : b < 256 := h b (by simp)
    have hne := b64Char_ne (b % 16 * 4) (by omega)
    simp only [b64encode, b64decode, hne, if_false, if_true]
    rw [b64Idx_char' _ (by omega), b64Idx_char' _ (by omega), b64Idx_char' _ (by omega)]
    congr 1
    · omega
    · congr 1; omega
  | a :: b :: c :: rest, h => by
    have ha : a < 256 := h a (by simp)
    have hb : b < 256 := h b (by simp)
    have hc : c < 256 := h c (by simp)
    have ih := b64decode_encode rest (fun x hx => h x (by simp [hx]))
    have hne2 := b64Char_ne (b % 16 * 4 + c / 64) (by omega)
    have hne3 := b64Char_ne (c % 64) (by omega)
    simp only [b64encode, b64decode, hne2, hne3, if_false, ih]
    rw [b64Idx_char' _ (by omega), b64Idx_char' _ (by omega), b64Idx_char' _ (by omega),
      b64Idx_char' _ (by omega)]
    congr 1
    · omega
    · congr 1
      · omega
      · congr 1; omega

theorem b64encode_injective (x y : Bytes) (hx : Bytes.WF x) (hy : Bytes.WF y)
    (h : b64encode x = b64encode y) : x = y := by
  rw [← b64decode_encode x hx, ← b64decode_encode y hy, h]

/-! ### padding -/

theorem extractRaw_pad (salt pw : Bytes) (n : Nat) (hs : salt.length = 8) (hn : 1 ≤ n) :
    extractRaw (padPassword salt pw n) = pw := by
  obtain ⟨m, rfl⟩ : ∃ m, n = m + 1 := ⟨n - 1, by omega⟩
  have hl : (padPassword salt pw (m + 1)).getLast? = some (m + 1) := by
    simp [padPassword, List.replicate_succ', List.getLast?_append]
  simp only [extractRaw, hl]
  simp only [padPassword, Bytes.slice, Nat.add_one_ne_zero, if_false, List.length_append,
    List.length_replicate, hs]
  have e : 8 + (pw.length + (m + 1)) - (m + 1) = salt.length + pw.length := by omega
  rw [e, ← List.append_assoc, ← List.length_append, List.take_left']
  · rw [← hs, List.drop_left']
    rfl
  · rfl

/-! ### CBC -/

theorem xorBytes_cancel : ∀ (a b : Bytes), a.length = b.length → xorBytes (xorBytes a b) b = a
  | [], [], _ => rfl
  | x :: a, y :: b, h => by
    have ih := xorBytes_cancel a b (by simpa using h)
    simp only [xorBytes, List.zipWith_cons_cons] at ih ⊢
    rw [ih, Nat.xor_assoc, Nat.xor_self, Nat.xor_zero]
  | [], _ :: _, h => by simp at h
  | _ :: _, [], h => by simp at h

theorem xorBytes_length (a b : Bytes) (h : a.length = b.length) : (xorBytes a b).length = a.length := by
  simp [xorBytes, h]

theorem cbc_blocks_roundtrip (E D : Bytes → Bytes) (L : Nat)
    (hDE : ∀ x, x.length = L → D (E x) = x) (hE : ∀ x, x.length = L → (E x).length = L) :
    ∀ (ps : List Bytes) (iv : Bytes), iv.length = L → (∀ p ∈ ps, p.length = L) →
      cbcDecBlocks D iv (cbcEncBlocks E iv ps) = ps
  | [], _, _, _ => rfl
  | p :: ps, iv, hiv, hp => by
    have hpl : p.length = L := hp p (by simp)
    have hx : (xorBytes p iv).length = L := by rw [xorBytes_length _ _ (by omega)]; exact hpl
    have ih := cbc_blocks_roundtrip E D L hDE hE ps (E (xorBytes p iv)) (hE _ hx)
      (fun q hq => hp q (by simp [hq]))
    simp only [cbcEncBlocks, cbcDecBlocks, hDE _ hx, xorBytes_cancel p iv (by omega), ih]

theorem chunks16_flatten : ∀ (f : Nat) (data : Bytes), data.length ≤ f → (chunks16 f data).flatten = data
  | 0, data, h => by
    have : data = [] := List.eq_nil_of_length_eq_zero (by omega)
    subst this; rfl
  | f + 1, [], _ => rfl
  | f + 1, b :: bs, h => by
    have ih := chunks16_flatten f ((b :: bs).drop 16) (by simp at h ⊢; omega)
    simp only [chunks16, List.flatten_cons, ih, List.take_append_drop]

theorem chunks16_len : ∀ (f : Nat) (data : Bytes), data.length ≤ f → data.length % 16 = 0 →
    ∀ b ∈ chunks16 f data, b.length = 16
  | 0, data, _, _ => by simp [chunks16]
  | f + 1, [], _, _ => by simp [chunks16]
  | f + 1, x :: xs, h, hm => by
    have hl : 16 ≤ (x :: xs).length := by
      simp only [List.length_cons] at hm ⊢; omega
    have ih := chunks16_len f ((x :: xs).drop 16) (by simp at h ⊢; omega)
      (by simp only [List.length_drop]; omega)
    intro b hb
    simp only [chunks16, List.mem_cons] at hb
    rcases hb with rfl | hb
    · simp only [List.length_take]; omega
    · exact ih b hb

theorem flatten_len16 : ∀ (bs : List Bytes), (∀ b ∈ bs, b.length = 16) → bs.flatten.length = 16 * bs.length
  | [], _ => rfl
  | b :: bs, h => by
    have ih := flatten_len16 bs (fun c hc => h c (by simp [hc]))
    have hb := h b (by simp)
    simp only [List.flatten_cons, List.length_append, List.length_cons, ih, hb]; omega

theorem chunks16_of_flatten : ∀ (bs : List Bytes), (∀ b ∈ bs, b.length = 16) →
    ∀ f, bs.flatten.length ≤ f → chunks16 f bs.flatten = bs
  | [], _, f, _ => by cases f <;> rfl
  | b :: bs, h, f, hf => by
    have hb := h b (by simp)
    have ih := chunks16_of_flatten bs (fun c hc => h c (by simp [hc]))
    obtain ⟨x, xs, rfl⟩ : ∃ x xs, b = x :: xs := by
      cases b with
      | nil => simp at hb
      | cons x xs => exact ⟨x, xs, rfl⟩
    obtain ⟨f, rfl⟩ : ∃ g, f = g + 1 := ⟨f - 1, by simp at hf; omega⟩
    have e : (x :: xs ++ bs.flatten) = (x :: xs) ++ bs.flatten := rfl
    simp only [List.flatten_cons, List.cons_append, chunks16]
    rw [← List.cons_append, List.take_left' hb, List.drop_left' hb]
    rw [ih f (by simp only [List.flatten_cons, List.length_append] at hf; omega)]

theorem cbcEncBlocks_len (E : Bytes → Bytes) (hE : ∀ x, x.length = 16 → (E x).length = 16) :
    ∀ (ps : List Bytes) (iv : Bytes), iv.length = 16 → (∀ p ∈ ps, p.length = 16) →
      (∀ c ∈ cbcEncBlocks E iv ps, c.length = 16) ∧ (cbcEncBlocks E iv ps).length = ps.length
  | [], _, _, _ => by simp [cbcEncBlocks]
  | p :: ps, iv, hiv, hp => by
    have hpl : p.length = 16 := hp p (by simp)
    have hx : (xorBytes p iv).length = 16 := by rw [xorBytes_length _ _ (by omega)]; exact hpl
    have ih := cbcEncBlocks_len E hE ps (E (xorBytes p iv)) (hE _ hx) (fun q hq => hp q (by simp [hq]))
    refine ⟨?_, by simp [cbcEncBlocks, ih.2]⟩
    intro c hc
    simp only [cbcEncBlocks, List.mem_cons] at hc
    rcases hc with rfl | hc
    · exact hE _ hx
    · exact ih.1 c hc

/-- byte-level CBC round trip for whole blocks -/
theorem cbcDecrypt_cbcEncrypt (E D : Bytes → Bytes)
    (hDE : ∀ x, x.length = 16 → D (E x) = x) (hE : ∀ x, x.length = 16 → (E x).length = 16)
    (iv data : Bytes) (hiv : iv.length = 16) (hd : data.length % 16 = 0) :
    cbcDecrypt D iv (cbcEncrypt E iv data) = .ok data := by
  have hb : ∀ b ∈ blocks data, b.length = 16 := chunks16_len _ _ (Nat.le_refl _) hd
  have hc := cbcEncBlocks_len E hE (blocks data) iv hiv hb
  have hlen := flatten_len16 _ hc.1
  have hbl : blocks (cbcEncBlocks E iv (blocks data)).flatten = cbcEncBlocks E iv (blocks data) :=
    chunks16_of_flatten _ hc.1 _ (Nat.le_refl _)
  have hm : (cbcEncrypt E iv data).length % 16 = 0 := by
    simp only [cbcEncrypt, hlen]; omega
  simp only [cbcDecrypt, hm, if_true]
  simp only [cbcEncrypt, hbl, cbc_blocks_roundtrip E D 16 hDE hE _ iv hiv hb]
  rw [show (blocks data).flatten = data from chunks16_flatten _ _ (Nat.le_refl _)]

/-! ### sorting keeps the attributes -/

theorem insertAttr_perm (a : Bytes × Bytes) : ∀ l : Attrs, (insertAttr a l).Perm (a :: l)
  | [] => List.Perm.refl _
  | b :: r => by
    simp only [insertAttr]
    split
    · exact List.Perm.refl _
    · exact ((insertAttr_perm a r).cons b).trans (List.Perm.swap a b r)

theorem sortAttrs_perm : ∀ l : Attrs, (sortAttrs l).Perm l
  | [] => List.Perm.refl _
  | a :: r => by
    have ih := sortAttrs_perm r
    simp only [sortAttrs, List.foldr_cons] at ih ⊢
    exact (insertAttr_perm a _).trans (ih.cons a)

/-- the hashed attributes are exactly the non-blacklisted ones (as a multiset) -/
theorem normAttrs_perm (as : Attrs) :
    (normAttrs as).Perm (as.filter fun kv => !blacklist.contains kv.1) :=
  (sortAttrs_perm as).filter _

/-! ### dicts -/

theorem Dict.get?_cons {ν} (p : Nat × ν) (r : Dict ν) (k : Nat) :
    Dict.get? (p :: r) k = if p.1 = k then some p.2 else Dict.get? r k := by
  unfold Dict.get?
  rw [List.find?_cons]
  by_cases h : p.1 = k
  · have : (p.1 == k) = true := by simpa using h
    simp [this, h]
  · have : (p.1 == k) = false := by simpa using h
    simp [this, h]

theorem Dict.get?_set {ν} (d : Dict ν) (k k' : Nat) (v : ν) :
    (d.set k v).get? k' = if k = k' then some v else d.get? k' := by
  induction d with
  | nil =>
    simp only [Dict.set, Dict.get?_cons]
  | cons p r ih =>
    obtain ⟨pk, pv⟩ := p
    by_cases h1 : pk = k
    · subst h1
      simp only [Dict.set, beq_self_eq_true, if_true, Dict.get?_cons]
      by_cases h : pk = k' <;> simp [h]
    · have hb : (pk == k) = false := by simpa using h1
      simp only [Dict.set, hb, Bool.false_eq_true, if_false, Dict.get?_cons, ih]
      by_cases h2 : pk = k'
      · have : ¬ k = k' := fun e => h1 (h2.trans e.symm)
        simp [h2, this]
      · simp [h2]

/-- the value the last entry for `k` in an assignment list carries -/
def lastVal {ν} : List (Nat × ν) → Nat → Option ν
  | [], _ => none
  | p :: r, k => match lastVal r k with
    | some v => some v
    | none => if p.1 = k then some p.2 else none

theorem foldl_set_get? {ν} (l : List (Nat × ν)) :
    ∀ (d : Dict ν) (k : Nat), (l.foldl (fun d p => d.set p.1 p.2) d).get? k
      = match lastVal l k with | some v => some v | none => d.get? k := by
  induction l with
  | nil => intro d k; simp [lastVal]
  | cons p r ih =>
    intro d k
    simp only [List.foldl_cons, ih, lastVal, Dict.get?_set]
    cases lastVal r k with
    | some v => rfl
    | none => by_cases h : p.1 = k <;> simp [h]

theorem lastVal_isSome {ν} (l : List (Nat × ν)) (k : Nat) :
    (lastVal l k).isSome = true ↔ k ∈ l.map (·.1) := by
  induction l with
  | nil => simp [lastVal]
  | cons p r ih =>
    simp only [lastVal, List.map_cons, List.mem_cons]
    cases h : lastVal r k with
    | some v =>
      have : k ∈ r.map (·.1) := ih.mp (by simp [h])
      simp [this]
    | none =>
      have : ¬ k ∈ r.map (·.1) := fun hm => by simpa [h] using ih.mpr hm
      by_cases hp : p.1 = k
      · simp [hp]
      · have hp' : ¬ k = p.1 := fun e => hp e.symm
        simp [hp, hp', this]

theorem foldl_set0_get? (l : List Nat) :
    ∀ (d : Dict Nat) (k : Nat), (l.foldl (fun d s => d.set s 0) d).get? k
      = if k ∈ l then some 0 else d.get? k := by
  induction l with
  | nil => intro d k; simp
  | cons s r ih =>
    intro d k
    simp only [List.foldl_cons, ih, Dict.get?_set, List.mem_cons]
    by_cases h1 : k ∈ r
    · simp [h1]
    · by_cases h2 : s = k
      · simp [h2]
      · have : ¬ k = s := fun e => h2 e.symm
        simp [h1, h2, this]

theorem Dict.get?_filter_key {ν} (q : Nat → Bool) (d : Dict ν) (k : Nat) :
    Dict.get? (d.filter fun kv => q kv.1) k = if q k then d.get? k else none := by
  induction d with
  | nil => simp [Dict.get?]
  | cons p r ih =>
    rw [List.filter_cons]
    by_cases hq : q p.1 = true
    · simp only [hq, if_true, Dict.get?_cons, ih]
      by_cases hp : p.1 = k
      · subst hp; simp [hq]
      · simp [hp]
    · have hq' : q p.1 = false := by simpa using hq
      simp only [hq', Bool.false_eq_true, if_false, Dict.get?_cons, ih]
      by_cases hp : p.1 = k
      · subst hp; simp [hq']
      · simp [hp]

end XknxVerif.Keyring
