/-
`int.from_bytes` / `int.to_bytes` are inverse on octet strings (used by the struct pack/unpack round trips).
-/
import XknxVerif.Py.Bytes

namespace XknxVerif.Bytes

/-- reverse induction on lists (core Lean has no `List.reverseRecOn`) -/
theorem rev_induction {α} {P : List α → Prop} (nil : P []) (snoc : ∀ xs x, P xs → P (xs ++ [x])) :
    ∀ l, P l := by
  intro l
  have : ∀ n, ∀ l : List α, l.length = n → P l := by
    intro n
    induction n with
    | zero => intro l hl; have : l = [] := List.eq_nil_of_length_eq_zero hl; subst this; exact nil
    | succ k ih =>
      intro l hl
      have hne : l ≠ [] := by intro h; subst h; simp at hl
      have := List.dropLast_concat_getLast hne
      rw [← this]
      apply snoc
      apply ih
      simp [List.length_dropLast, hl]
  exact this l.length l rfl

theorem toNatBE_lt (b : Bytes) (h : WF b) : toNatBE b < 256 ^ b.length := by
  induction b using rev_induction with
  | nil => simp [toNatBE]
  | snoc xs x ih =>
    rw [toNatBE_append_single]
    have hx : x < 256 := h x (by simp)
    have := ih (fun y hy => h y (by simp [hy]))
    simp only [List.length_append, List.length_singleton, Nat.pow_succ]
    omega

theorem ofNatBE_toNatBE (b : Bytes) (h : WF b) : ofNatBE b.length (toNatBE b) = b := by
  induction b using rev_induction with
  | nil => rfl
  | snoc xs x ih =>
    have hx : x < 256 := h x (by simp)
    have ih' := ih (fun y hy => h y (by simp [hy]))
    rw [toNatBE_append_single]
    simp only [List.length_append, List.length_singleton, ofNatBE]
    have h1 : (toNatBE xs * 256 + x) / 256 = toNatBE xs := by omega
    have h2 : (toNatBE xs * 256 + x) % 256 = x := by omega
    rw [h1, h2, ih']

end XknxVerif.Bytes
