/-
Telegram-queue monitor: deadlock freedom (some loop can always move while work is pending, under
every send outcome) and a termination measure.  Core Lean only.
-/
import XknxVerif.Lemmas.TelegramQueue

namespace XknxVerif.TelegramQueue
open XknxVerif.Monitor

/-- the observation the consumer loop produces next, if it can move -/
def consNext (s : State) : Option Obs :=
  match s.cons with
  | .idle =>
    match s.mainQ with
    | .tg t :: _ => some (.gm (some t.k))
    | .stop :: _ => some (.gm none)
    | [] => none
  | .inc t (j :: _) _ => some (.cb t.k j)
  | .inc t [] true => some (.proc t.k false)
  | .inc _ [] false => some .dmc
  | .hold t => some (.mv (some t.k))
  | .stopping false => some (.mv none)
  | .stopping true => if s.outUnf = 0 then some .dmc else none
  | .finished => none

/-- the observation the limiter loop produces next, if it can move (for a telegram being sent the
interface decides; `comm` stands for "any outcome", see `send_outcome_total`) -/
def limNext (s : State) : Option Obs :=
  match s.lim with
  | .idle =>
    match s.outQ with
    | t :: _ => some (.go (some t.k))
    | [] => if s.outStop then some (.go none) else none
  | .sending t _ => some (.se t.k .comm)
  | .post t true _ => some (.proc t.k false)
  | .post t false (j :: _) => some (.cb t.k j)
  | .post _ false [] => none
  | .closing _ true _ => some .dol
  | .closing _ false true => some .dml
  | .closing _ false false => none
  | .stopClosing => some .dol
  | .finished => none

theorem consNext_enabled (s : State) (hi : Inv s) (o : Obs) (h : consNext s = some o) :
    (step? s o).isSome = true := by
  have a1 := hi.accMain
  unfold consNext at h
  split at h
  · rename_i hc
    split at h
    · injection h with h; subst h
      rename_i t _ hq
      simp only [step?, hc, hq]
      cases t.kind <;> simp
    · injection h with h; subst h
      rename_i hq
      simp [step?, hc, hq]
    · simp at h
  · injection h with h; subst h
    rename_i hc
    simp [step?, hc]
  · injection h with h; subst h
    rename_i hc
    simp [step?, hc]
  · injection h with h; subst h
    rename_i hc
    rw [hc] at a1
    simp only [step?, hc]
    simp at a1 ⊢; omega
  · injection h with h; subst h
    rename_i hc
    simp [step?, hc]
  · injection h with h; subst h
    rename_i hc
    simp [step?, hc]
  · rename_i hc
    split at h
    · injection h with h; subst h
      rw [hc] at a1
      simp only [step?, hc]
      simp at a1 ⊢
      constructor
      · assumption
      · omega
    · simp at h
  · simp at h

theorem limNext_enabled (s : State) (hi : Inv s) (hc : ∀ t c p, s.cons ≠ .inc t c p) (o : Obs)
    (h : limNext s = some o) : (step? s o).isSome = true := by
  have a1 := hi.accMain
  have a2 := hi.accOut
  unfold limNext at h
  split at h
  · rename_i hl
    split at h
    · injection h with h; subst h
      rename_i t _ hq
      simp only [step?, hl, hq]
      cases t.kind <;> simp
    · rename_i hq
      split at h
      · injection h with h; subst h
        simp [step?, hl, hq, *]
      · simp at h
  · injection h with h; subst h
    rename_i hl
    simp [step?, hl]
  · injection h with h; subst h
    rename_i t cbs hl
    cases hcs : s.cons with
    | inc t0 c0 p0 => exact absurd hcs (hc t0 c0 p0)
    | _ => simp [step?, hl, hcs]
  · injection h with h; subst h
    rename_i t j rest hl
    cases hcs : s.cons with
    | inc t0 c0 p0 => exact absurd hcs (hc t0 c0 p0)
    | _ => simp [step?, hl, hcs]
  · simp at h
  · injection h with h; subst h
    rename_i hl
    rw [hl] at a2
    simp only [step?, hl]
    simp at a2 ⊢; omega
  · injection h with h; subst h
    rename_i hl
    rw [hl] at a1
    simp only [step?, hl]
    simp at a1 ⊢; omega
  · simp at h
  · injection h with h; subst h
    rename_i hl
    rw [hl] at a2
    simp only [step?, hl]
    simp at a2 ⊢; omega
  · simp at h

/-- **No stall.**  In every state satisfying the invariants in which a queued telegram (or the
stop marker) is not yet marked done and the consumer loop has not been stopped, the consumer or the
limiter can make its next move. -/
theorem no_stall_state (s : State) (hi : Inv s) (hw : WF s) (hp : 0 < s.mainUnf) (hf : s.cons ≠ .finished) :
    ∃ o, (consNext s = some o ∨ limNext s = some o) ∧ (step? s o).isSome = true := by
  cases hcn : consNext s with
  | some o => exact ⟨o, Or.inl rfl, consNext_enabled s hi o hcn⟩
  | none =>
    -- the consumer is blocked: it waits for a telegram (idle, empty queue) or for outgoing_queue.join()
    have a1 := hi.accMain
    have a2 := hi.accOut
    have hcons : (s.cons = .idle ∧ s.mainQ = []) ∨ (s.cons = .stopping true ∧ s.outUnf ≠ 0) := by
      unfold consNext at hcn
      split at hcn
      · rename_i hc
        split at hcn <;> simp_all
      all_goals (try (simp at hcn; done))
      · rename_i hc
        split at hcn
        · simp at hcn
        · right; exact ⟨hc, by assumption⟩
      · rename_i hc; exact absurd hc hf
    have hnoinc : ∀ t c p, s.cons ≠ .inc t c p := by
      intro t c p hc; rcases hcons with ⟨h1, _⟩ | ⟨h1, _⟩ <;> rw [h1] at hc <;> simp at hc
    cases hln : limNext s with
    | some o => exact ⟨o, Or.inr rfl, limNext_enabled s hi hnoinc o hln⟩
    | none =>
      exfalso
      -- limiter blocked too: idle with an empty queue, or finished
      have hlim : (s.lim = .idle ∧ s.outQ = [] ∧ s.outStop = false) ∨ s.lim = .finished := by
        unfold limNext at hln
        split at hln
        · rename_i hl
          split at hln
          · simp at hln
          · rename_i hq
            split at hln
            · simp at hln
            · left; exact ⟨hl, hq, by simp_all⟩
        all_goals (try (simp at hln; done))
        · rename_i t hl; exact absurd hl (hw.1 t)
        · rename_i t hl; exact absurd hl (hw.2 t)
        · right; assumption
      rcases hlim with ⟨hl, hq, hs⟩ | hl
      · rcases hcons with ⟨hc, hm⟩ | ⟨hc, hu⟩
        · rw [hc, hm, hq, hl] at a1; simp at a1; omega
        · rw [hq, hs, hl] at a2; simp at a2; exact hu a2
      · obtain ⟨_, hs, hq⟩ := hi.i3 hl
        rcases hcons with ⟨hc, hm⟩ | ⟨hc, hu⟩
        · rw [hc, hm, hq, hl] at a1; simp at a1; omega
        · rw [hq, hs, hl] at a2; simp at a2; exact hu a2

/-- **Every send outcome is handled.**  While a telegram is being sent, the monitor (= the
`try/except/finally` of `_outgoing_rate_limiter`) accepts every outcome class of `send_telegram`;
`ok` presupposes that the interface was reached. -/
theorem send_outcome_total (s : State) (t : Tg) (tx : Bool) (hl : s.lim = .sending t tx) (o : Outcome)
    (hok : o = .ok → tx = true) : (step? s (.se t.k o)).isSome = true := by
  simp only [step?, hl]
  simp
  exact hok

/-- A telegram waiting in the rate limiter can go out at the latest one period after the previous one. -/
theorem tx_enabled_after_period (s : State) (t : Tg) (hl : s.lim = .sending t false)
    (hr : s.rate = 0 ∨ ∀ l, s.lastTx = some l → l ≤ s.now ∧ usPerSec ≤ (s.now - l) * s.rate) :
    (step? s (.tx t.k)).isSome = true := by
  have : spaced s.rate s.lastTx s.now = true := by
    unfold spaced
    cases hlast : s.lastTx with
    | none => rfl
    | some l =>
      rcases hr with h0 | h1
      · simp [h0]
      · have := h1 l hlast
        simp [this.1, this.2]
  simp [step?, hl, this]

/-! ### termination measure -/

def consW (B : Nat) : Cons → Nat
  | .idle => 0
  | .inc _ cbs p => cbs.length + p.toNat + 1
  | .hold _ => B - 1
  | .stopping false => 5
  | .stopping true => 1
  | .finished => 0

def limW (ncb : Nat) : Lim → Nat
  | .idle => 0
  | .sending _ false => ncb + 6
  | .sending _ true => ncb + 5
  | .post _ p cbs => cbs.length + p.toNat + 3
  | .closing _ a b => a.toNat + b.toNat
  | .stopClosing => 1
  | .finished => 0

@[simp] theorem consW_idle (B : Nat) : consW B .idle = 0 := rfl
@[simp] theorem consW_inc (B : Nat) (t : Tg) (c : List Nat) (p : Bool) : consW B (.inc t c p) = c.length + p.toNat + 1 := rfl
@[simp] theorem consW_hold (B : Nat) (t : Tg) : consW B (.hold t) = B - 1 := rfl
@[simp] theorem consW_stopping_f (B : Nat) : consW B (.stopping false) = 5 := rfl
@[simp] theorem consW_stopping_t (B : Nat) : consW B (.stopping true) = 1 := rfl
@[simp] theorem consW_finished (B : Nat) : consW B .finished = 0 := rfl
@[simp] theorem limW_idle (n : Nat) : limW n .idle = 0 := rfl
@[simp] theorem limW_sending_f (n : Nat) (t : Tg) : limW n (.sending t false) = n + 6 := rfl
@[simp] theorem limW_sending_t (n : Nat) (t : Tg) : limW n (.sending t true) = n + 5 := rfl
@[simp] theorem limW_post (n : Nat) (t : Tg) (p : Bool) (c : List Nat) : limW n (.post t p c) = c.length + p.toNat + 3 := rfl
@[simp] theorem limW_closing (n : Nat) (t : Tg) (a b : Bool) : limW n (.closing t a b) = a.toNat + b.toNat := rfl
@[simp] theorem limW_stopClosing (n : Nat) : limW n .stopClosing = 1 := rfl
@[simp] theorem limW_finished (n : Nat) : limW n .finished = 0 := rfl

/-- number of loop moves still possible without new input (an upper bound) -/
def qW (B n : Nat) : Nat := n * B

theorem qW_succ (B n : Nat) : qW B (n + 1) = qW B n + B := by simp [qW, Nat.succ_mul]

def measure (s : State) : Nat :=
  qW (s.ncb + 9) s.mainQ.length + consW (s.ncb + 9) s.cons + qW (s.ncb + 7) s.outQ.length
    + (if s.outStop then 3 else 0) + limW s.ncb s.lim

def isInternal : Obs → Bool
  | .gm _ | .go _ | .mv _ | .tx _ | .se .. | .cb .. | .proc .. | .dmc | .dml | .dol => true
  | _ => false

theorem limW_settlePost_le (ncb : Nat) (t : Tg) (p : Bool) (c : List Nat) :
    limW ncb (settlePost t p c) ≤ c.length + p.toNat + 3 := by
  unfold settlePost
  split
  · simp [limW]
  · simp [limW]

theorem limW_settleClosing (ncb : Nat) (t : Tg) (a b : Bool) :
    limW ncb (settleClosing t a b) = a.toNat + b.toNat := by
  cases a <;> cases b <;> simp [settleClosing, limW]

theorem cbList_length (n : Nat) : (cbList n).length = n := by simp [cbList]

theorem erase_length_lt (l : List Nat) (j : Nat) (h : j ∈ l) : (l.erase j).length + 1 = l.length := by
  have := List.length_erase_of_mem h
  have hpos : 0 < l.length := List.length_pos_of_mem h
  omega

/-- **Termination measure.**  Every move of the consumer or the limiter (everything except new
input, time passing and the `join`/`stopped` notifications) strictly decreases `measure`: without
new input only finitely many moves are possible — at most `measure s`. -/
theorem measure_decreases (s s' : State) (o : Obs) (h : step? s o = some s') (hint : isInternal o = true) :
    measure s' < measure s := by
  cases o with
  | put k kind dev => simp [isInternal] at hint
  | stop => simp [isInternal] at hint
  | adv t => simp [isInternal] at hint
  | join => simp [isInternal] at hint
  | stopped => simp [isInternal] at hint
  | gm x =>
    simp only [step?] at h
    split at h
    · rename_i t rest hc hq
      split at h
      · split at h <;> injection h with h <;> subst h <;>
          simp [measure, hc, hq, qW_succ, cbList_length] <;>
          (try (have := Bool.toNat_le t.dev)) <;> omega
      · simp at h
    · rename_i rest hc hq
      split at h
      · injection h with h; subst h
        simp [measure, hc, hq, qW_succ] <;> omega
      · simp at h
    · simp at h
  | mv x =>
    simp only [step?] at h
    split at h
    · rename_i t hc
      split at h
      · injection h with h; subst h
        simp [measure, hc, qW_succ] <;> omega
      · simp at h
    · rename_i hc
      split at h
      · injection h with h; subst h
        simp only [measure, hc, consW_stopping_f, consW_stopping_t]
        cases s.outStop <;> simp <;> omega
      · simp at h
    · simp at h
  | go x =>
    simp only [step?] at h
    split at h
    · rename_i t rest hl hq
      split at h
      · split at h <;> injection h with h <;> subst h
        · have := limW_settlePost_le s.ncb t t.dev (cbList s.ncb)
          have := Bool.toNat_le t.dev
          simp [measure, hl, hq, qW_succ, cbList_length] at * <;> omega
        · simp [measure, hl, hq, qW_succ] <;> omega
      · simp at h
    · rename_i hl hq
      split at h
      · rename_i hcond
        injection h with h; subst h
        simp [measure, hl, hq, hcond.2]
      · simp at h
    · simp at h
  | tx k =>
    simp only [step?] at h
    split at h
    · rename_i t hl
      split at h
      · injection h with h; subst h
        simp [measure, hl]
      · simp at h
    · simp at h
  | se k o =>
    simp only [step?] at h
    split at h
    · rename_i t tx hl
      split at h
      · injection h with h; subst h
        have := limW_settlePost_le s.ncb t t.dev (cbList s.ncb)
        have := Bool.toNat_le t.dev
        rw [cbList_length] at *
        by_cases ho : o = .ok <;> cases tx <;> simp [measure, hl, ho] <;> omega
      · simp at h
    · simp at h
  | cb k j =>
    simp only [step?] at h
    repeat' split at h
    all_goals (first | (simp at h; done) | skip)
    all_goals (injection h with h; subst h)
    all_goals (rename_i hmem)
    all_goals (first
      | (have := erase_length_lt _ _ hmem
         simp [measure, *] <;> omega)
      | (have := erase_length_lt _ _ hmem.2
         have := limW_settlePost_le s.ncb ‹Tg› ‹Bool› (List.erase ‹List Nat› j)
         simp [measure, *] at * <;> omega))
  | proc k e =>
    simp only [step?] at h
    split at h
    · rename_i t cbs p l hc
      split at h
      · split at h
        · rename_i hp
          injection h with h; subst h
          subst hp
          cases e <;> simp [measure, hc]
        · simp at h
      · split at h
        · rename_i t' p' cbs' hl
          split at h
          · rename_i hcond
            injection h with h; subst h
            have h1 := limW_settlePost_le s.ncb t' false (if e = true then [] else cbs')
            rw [hcond.2] at hl
            cases e <;> simp [measure, hl] at * <;> omega
          · simp at h
        · simp at h
    · rename_i t' p' cbs' hl _
      split at h
      · rename_i hcond
        injection h with h; subst h
        have h1 := limW_settlePost_le s.ncb t' false (if e = true then [] else cbs')
        rw [hcond.2] at hl
        cases e <;> simp [measure, hl] at * <;> omega
      · simp at h
    · simp at h
  | dmc =>
    simp only [step?] at h
    split at h
    · rename_i hc
      split at h
      · injection h with h; subst h; simp [measure, hc]
      · simp at h
    · rename_i hc
      split at h
      · injection h with h; subst h; simp [measure, hc]
      · simp at h
    · simp at h
  | dml =>
    simp only [step?] at h
    split at h
    · rename_i t doP hl
      split at h
      · injection h with h; subst h
        simp [measure, hl, limW_settleClosing]
      · simp at h
    · simp at h
  | dol =>
    simp only [step?] at h
    split at h
    · rename_i t dmP hl
      split at h
      · injection h with h; subst h
        simp [measure, hl, limW_settleClosing]
      · simp at h
    · rename_i hl
      split at h
      · injection h with h; subst h; simp [measure, hl]
      · simp at h
    · simp at h

end XknxVerif.TelegramQueue
