/-
Helper lemmas about the secure-routing timer monitor (`Model/SecureTimer.lean`).
-/
import XknxVerif.Model.SecureTimer

namespace XknxVerif.SecureTimer
open XknxVerif.Generated.IPSecure

theorem advance_fields {s sa : State} {t : Nat} (h : advance s t = some sa) :
    s.now ≤ t ∧ sa = { s with now := t } := by
  unfold advance at h
  split at h
  · cases h
  · rename_i hc
    simp only [not_or, Nat.not_lt] at hc
    simp only [Option.some.injEq] at h
    exact ⟨hc.1, h.symm⟩

theorem applyDraw_fields {s s' : State} {k : Option Sched} {d : Option Draw} (h : applyDraw s k d = some s') :
    ∃ n, s' = { s with notifyAt := n } := by
  unfold applyDraw at h
  split at h
  · simp only [Option.some.injEq] at h; exact ⟨s.notifyAt, h.symm⟩
  · split at h
    · simp only [Option.some.injEq] at h; exact ⟨_, h.symm⟩
    · cases h
  · cases h

/-- a draw is only accepted inside the interval the code must use, and arms the timer for now + d -/
theorem applyDraw_draw {s s' : State} {k : Option Sched} {dr : Draw} (h : applyDraw s k (some dr) = some s') :
    ∃ kk, k = some kk ∧ (dr.lo, dr.hi) = interval s kk ∧ dr.lo ≤ dr.d ∧ dr.d ≤ dr.hi ∧
      s'.notifyAt = some (s.now + dr.d) := by
  cases k with
  | none => simp [applyDraw] at h
  | some kk =>
    simp only [applyDraw] at h
    split at h
    · rename_i hc
      simp only [Option.some.injEq] at h
      subst h
      exact ⟨kk, rfl, hc.1, hc.2.1, hc.2.2, rfl⟩
    · cases h

theorem resched_fields (s : State) (u : Bool) : (resched s u).1 = { s with schedUpdate := u } := rfl

theorem classify_ahead {s : State} {timer : Nat} : classify s timer = .ahead ↔ local_ s < (timer : Int) := by
  unfold classify
  by_cases h1 : local_ s < (timer : Int)
  · simp [h1]
  · simp only [h1, ↓reduceIte, iff_false]
    split
    · simp
    · split <;> simp

theorem classify_tooOld {s : State} {timer : Nat} :
    classify s timer = .tooOld ↔ ¬ (local_ s - (s.latency : Int) < (timer : Int)) ∧ ¬ (local_ s < (timer : Int)) ∧
      ¬ (local_ s - (s.syncTol : Int) < (timer : Int)) := by
  unfold classify
  by_cases h1 : local_ s < (timer : Int)
  · simp [h1]
  · by_cases h2 : local_ s - (s.syncTol : Int) < (timer : Int)
    · simp [h1, h2]
    · by_cases h3 : local_ s - (s.latency : Int) < (timer : Int)
      · simp [h1, h2, h3]
      · simp [h1, h2, h3]

/-- the latency tolerance is at least the sync tolerance in every configuration the constructor produces
(`syncTol` = latency/10 rounded) -/
def CfgOk (s : State) : Prop := s.syncTol ≤ s.latency

/-- `handle_timer_notify`: an invalid MAC changes nothing; otherwise the clock difference can only grow. -/
theorem rxNotify_spec (s : State) (timer : Nat) (own tagm macOk : Bool) :
    (macOk = false → rxNotify s timer own tagm macOk = (s, none)) ∧
    s.clockDiff ≤ (rxNotify s timer own tagm macOk).1.clockDiff ∧
    (rxNotify s timer own tagm macOk).1.now = s.now ∧
    ((rxNotify s timer own tagm macOk).1.expected ≠ s.expected →
        macOk = true ∧ own = true ∧ tagm = true ∧ s.expected = some none ∧
        (rxNotify s timer own tagm macOk).1.expected = some (some timer)) := by
  unfold rxNotify
  cases macOk with
  | false => simp
  | true =>
    simp only [Bool.not_true, Bool.false_eq_true, ↓reduceIte, reduceCtorEq, false_imp_iff, true_and]
    by_cases h1 : (s.expected.isSome && own && tagm) = true
    · simp only [h1, ↓reduceIte]
      simp only [Bool.and_eq_true] at h1
      cases he : s.expected with
      | none => simp [he] at h1
      | some v =>
        cases v with
        | none => simp [h1.1.2, h1.2]
        | some w => simp [he]
    · simp only [h1, Bool.false_eq_true, ↓reduceIte]
      cases hc : classify s timer with
      | ahead =>
        have := classify_ahead.mp hc
        simp only [resched_fields, follow, ne_eq, not_true_eq_false, false_imp_iff, and_true]
        omega
      | inSync => simp [resched_fields]
      | inLatency => simp
      | tooOld => by_cases h5 : s.schedUpdate = true <;> simp [h5, resched_fields]

/-- `validate_secure_wrapper` -/
theorem validate_spec (s : State) (timer : Nat) :
    ((validate s timer).1 = true ↔ classify s timer ≠ .tooOld) ∧
    s.clockDiff ≤ (validate s timer).2.1.clockDiff ∧
    (validate s timer).2.1.now = s.now ∧
    (validate s timer).2.1.expected = s.expected ∧
    ((validate s timer).2.1.clockDiff ≠ s.clockDiff → (validate s timer).1 = true ∧ local_ s < (timer : Int)) := by
  unfold validate
  cases hc : classify s timer with
  | ahead =>
    have := classify_ahead.mp hc
    by_cases h5 : s.schedUpdate = true <;> simp [h5, resched_fields, follow] <;> omega
  | inSync => by_cases h5 : s.schedUpdate = true <;> simp [h5, resched_fields]
  | inLatency => simp
  | tooOld => by_cases h5 : s.schedUpdate = true <;> simp [h5, resched_fields]

theorem wrapperOk_iff (s : State) (sid : Nat) (macOk : Bool) (inner : Inner) :
    wrapperOk s sid macOk inner = true ↔
      s.authenticated = true ∧ sid = 0 ∧ macOk = true ∧ ∃ v, inner = .svc v ∧ v ∉ forbiddenWrapped := by
  unfold wrapperOk
  cases inner with
  | unparsable => simp
  | svc v => simp [and_assoc]

/-- `SecureGroup.handle_knxipframe` for a wrapper. -/
theorem rxWrapped_spec (s : State) (sid timer : Nat) (macOk : Bool) (inner : Inner) :
    ((rxWrapped s sid timer macOk inner).1 = .fwd ↔
        wrapperOk s sid macOk inner = true ∧ classify s timer ≠ .tooOld) ∧
    (rxWrapped s sid timer macOk inner).1 ≠ .exc ∧
    s.clockDiff ≤ (rxWrapped s sid timer macOk inner).2.1.clockDiff ∧
    (rxWrapped s sid timer macOk inner).2.1.now = s.now ∧
    (rxWrapped s sid timer macOk inner).2.1.expected = s.expected ∧
    ((rxWrapped s sid timer macOk inner).2.1.clockDiff ≠ s.clockDiff →
        (rxWrapped s sid timer macOk inner).1 = .fwd ∧ local_ s < (timer : Int)) ∧
    (wrapperOk s sid macOk inner = false → rxWrapped s sid timer macOk inner = (.drop, s, none)) := by
  obtain ⟨v1, v2, v3, v4, v5⟩ := validate_spec s timer
  by_cases hw : wrapperOk s sid macOk inner = true
  · by_cases hv : (validate s timer).1 = true
    · have e : rxWrapped s sid timer macOk inner = (.fwd, (validate s timer).2.1, (validate s timer).2.2) := by
        unfold rxWrapped; simp [hw, hv]
      rw [e]
      exact ⟨⟨fun _ => ⟨hw, v1.mp hv⟩, fun _ => rfl⟩, by simp, v2, v3, v4, fun h => ⟨rfl, (v5 h).2⟩,
        fun h => by rw [hw] at h; cases h⟩
    · have e : rxWrapped s sid timer macOk inner = (.drop, (validate s timer).2.1, (validate s timer).2.2) := by
        unfold rxWrapped; simp [hw, hv]
      rw [e]
      exact ⟨⟨fun h => (by cases h), fun h => absurd (v1.mpr h.2) hv⟩, by simp, v2, v3, v4,
        fun h => absurd (v5 h).1 hv, fun h => by rw [hw] at h; cases h⟩
  · have e : rxWrapped s sid timer macOk inner = (.drop, s, none) := by
      unfold rxWrapped; simp [hw]
    rw [e]
    exact ⟨⟨fun h => (by cases h), fun h => absurd h.1 hw⟩, by simp, Int.le_refl _, rfl, rfl,
      fun h => absurd rfl h, fun _ => rfl⟩

/-- `SecureGroup.send` -/
theorem send_spec (s : State) :
    (send s).2.1.clockDiff = s.clockDiff ∧ (send s).2.1.now = s.now ∧ (send s).2.1.expected = s.expected ∧
    (∀ q, (send s).1 = .wrapped q → (q : Int) = local_ s) := by
  unfold send
  by_cases h5 : s.schedUpdate = true <;> by_cases ho : s.isOpen = true <;>
    by_cases hr : (0 ≤ local_ s ∧ local_ s < (timerLimit : Int)) <;> simp [h5, ho, hr, resched_fields] <;> omega

/-- One accepted observation, case by case. -/
theorem step_cases {s s' : State} {o : Obs} (h : step? s o = some s') :
    ∃ sa, s.now ≤ o.time ∧ sa = { s with now := o.time } ∧
    match o with
    | .new _ latency syncTol => sa.expected = none ∧ sa.authenticated = false ∧
        syncTol * 10 ≤ latency + 5 ∧ latency ≤ syncTol * 10 + 5 ∧
        s' = { sa with latency := latency, syncTol := syncTol }
    | .conn _ timer => sa.expected = none ∧ timer = local_ sa ∧
        s' = { sa with isOpen := true, expected := some none, syncDeadline := sa.now + syncTimeout sa }
    | .rxn _ timer own tagm macOk draw out => out = .drop ∧
        applyDraw (rxNotify sa timer own tagm macOk).1 (rxNotify sa timer own tagm macOk).2 draw = some s'
    | .rxw _ sid timer macOk inner draw out => out = (rxWrapped sa sid timer macOk inner).1 ∧
        applyDraw (rxWrapped sa sid timer macOk inner).2.1 (rxWrapped sa sid timer macOk inner).2.2 draw = some s'
    | .rxp _ svc out => svc ≠ secureWrapper ∧ svc ≠ timerNotify ∧ out = rxPlain sa svc ∧ s' = sa
    | .snd _ draw out => out = (send sa).1 ∧ applyDraw (send sa).2.1 (send sa).2.2 draw = some s'
    | .ntf t timer draw => sa.notifyAt = some t ∧ timer = local_ sa ∧
        applyDraw (resched { sa with timekeeper := true, notifyAt := none } false).1
                  (resched { sa with timekeeper := true, notifyAt := none } false).2 draw = some s'
    | .sres t ok draw =>
        (∃ v, sa.expected = some (some v) ∧ ok = true ∧
          applyDraw (resched { sa with clockDiff := (v : Int) - (t : Int), expected := none, authenticated := true } false).1
            (resched { sa with clockDiff := (v : Int) - (t : Int), expected := none, authenticated := true } false).2 draw = some s') ∨
        (sa.expected = some none ∧ ok = false ∧
          applyDraw (resched { sa with timekeeper := true, expected := none, authenticated := true } false).1
            (resched { sa with timekeeper := true, expected := none, authenticated := true } false).2 draw = some s')
    | .stop _ => s' = { sa with notifyAt := none, expected := none, isOpen := false }
    | .st _ cd tk su au => cd = sa.clockDiff ∧ tk = sa.timekeeper ∧ su = sa.schedUpdate ∧ au = sa.authenticated ∧ s' = sa := by
  unfold step? at h
  cases hadv : advance s o.time with
  | none => simp [hadv] at h
  | some sa =>
    simp only [hadv] at h
    obtain ⟨hle, hsa⟩ := advance_fields hadv
    refine ⟨sa, hle, hsa, ?_⟩
    cases o with
    | new t latency syncTol =>
      simp only at h ⊢
      split at h
      · rename_i hc
        simp only [Option.some.injEq] at h
        exact ⟨hc.1, hc.2.2.1, hc.2.2.2.1, hc.2.2.2.2, h.symm⟩
      · cases h
    | conn t timer =>
      simp only at h ⊢
      split at h
      · rename_i hc
        simp only [Option.some.injEq] at h
        exact ⟨hc.1, hc.2, h.symm⟩
      · cases h
    | rxn t timer own tagm macOk draw out =>
      simp only at h ⊢
      split at h
      · rename_i hc; exact ⟨hc, h⟩
      · cases h
    | rxw t sid timer macOk inner draw out =>
      simp only at h ⊢
      split at h
      · rename_i hc; exact ⟨hc, h⟩
      · cases h
    | rxp t svc out =>
      simp only at h ⊢
      split at h
      · rename_i hc
        simp only [Option.some.injEq] at h
        exact ⟨hc.1, hc.2.1, hc.2.2, h.symm⟩
      · cases h
    | snd t draw out =>
      simp only at h ⊢
      split at h
      · rename_i hc; exact ⟨hc, h⟩
      · cases h
    | ntf t timer draw =>
      simp only at h ⊢
      split at h
      · rename_i hc; exact ⟨hc.1, hc.2, h⟩
      · cases h
    | sres t ok draw =>
      simp only at h ⊢
      split at h
      · rename_i v hv
        split at h
        · rename_i hok; exact Or.inl ⟨v, hv, hok, h⟩
        · cases h
      · rename_i hv
        split at h
        · rename_i hc
          simp only [Bool.not_eq_true', Bool.and_eq_true, decide_eq_true_eq] at hc
          exact Or.inr ⟨hv, by simpa using hc.1, h⟩
        · cases h
      · cases h
    | stop t =>
      simp only [Option.some.injEq] at h ⊢
      exact h.symm
    | st t cd tk su au =>
      simp only at h ⊢
      split at h
      · rename_i hc
        simp only [Option.some.injEq] at h
        exact ⟨hc.1, hc.2.1, hc.2.2.1, hc.2.2.2, h.symm⟩
      · cases h

theorem runFrom_cons {s s' : State} {o : Obs} {os : List Obs} (h : runFrom s (o :: os) = some s') :
    ∃ s1, step? s o = some s1 ∧ runFrom s1 os = some s' := by
  unfold runFrom at h
  split at h
  · cases h
  · rename_i s1 h1; exact ⟨s1, h1, h⟩

end XknxVerif.SecureTimer
