/-
Lifting the generic field-list theorems through the dispatcher and the table
(`Model/APCI/Codec.lean`).  Core Lean only.
-/
import XknxVerif.Lemmas.APCILayout
import XknxVerif.Model.APCI.Codec

namespace XknxVerif.APCI

/-! ### Length rules and variants -/

def LenRule.ge2 : LenRule → Bool
  | .exact n => decide (2 ≤ n)
  | .atLeast n => decide (2 ≤ n)
  | .oneOf l => l.all (fun k => decide (2 ≤ k))

theorem LenRule.ge2_sound {r : LenRule} {n : Nat} (h : r.ge2 = true) (hok : r.ok n = true) : 2 ≤ n := by
  cases r with
  | exact k => simp [LenRule.ge2, LenRule.ok] at h hok; omega
  | atLeast k => simp [LenRule.ge2, LenRule.ok] at h hok; omega
  | oneOf l =>
    simp only [LenRule.ge2, List.all_eq_true, decide_eq_true_eq] at h
    simp only [LenRule.ok, List.contains_iff_mem] at hok
    exact h n hok

/-- No length satisfies both rules. -/
def LenRule.disjoint : LenRule → LenRule → Bool
  | .exact a, r => !r.ok a
  | .atLeast a, .exact b => decide (b < a)
  | .atLeast _, .atLeast _ => false
  | .atLeast a, .oneOf l => l.all (fun k => decide (k < a))
  | .oneOf l, r => l.all (fun k => !r.ok k)

theorem LenRule.disjoint_sound {a b : LenRule} {n : Nat} (h : a.disjoint b = true)
    (ha : a.ok n = true) (hb : b.ok n = true) : False := by
  cases a with
  | exact x =>
    simp only [LenRule.disjoint, Bool.not_eq_true'] at h
    simp only [LenRule.ok, beq_iff_eq] at ha
    subst ha; rw [h] at hb; cases hb
  | atLeast x =>
    cases b with
    | exact y => simp [LenRule.disjoint, LenRule.ok] at h ha hb; omega
    | atLeast y => simp [LenRule.disjoint] at h
    | oneOf l =>
      simp only [LenRule.disjoint, List.all_eq_true, decide_eq_true_eq] at h
      simp only [LenRule.ok, List.contains_iff_mem, decide_eq_true_eq] at ha hb
      have := h n hb; omega
  | oneOf l =>
    simp only [LenRule.disjoint, List.all_eq_true, Bool.not_eq_true'] at h
    simp only [LenRule.ok, List.contains_iff_mem] at ha
    have := h n ha
    rw [this] at hb; cases hb

def pairwiseDisj : List Variant → Bool
  | [] => true
  | v :: vs => vs.all (fun w => v.len.disjoint w.len) && pairwiseDisj vs

theorem pick_some {vs : List Variant} {n j : Nat} {v : Variant} (h : pick vs n = some (j, v)) :
    vs[j]? = some v ∧ v.len.ok n = true := by
  induction vs generalizing j with
  | nil => simp [pick] at h
  | cons a as ih =>
    simp only [pick] at h
    split at h
    · rename_i hok
      simp only [Option.some.injEq, Prod.mk.injEq] at h
      obtain ⟨rfl, rfl⟩ := h
      exact ⟨rfl, hok⟩
    · split at h
      · rename_i k x hp
        simp only [Option.some.injEq, Prod.mk.injEq] at h
        obtain ⟨rfl, rfl⟩ := h
        have := ih hp
        exact ⟨by simpa using this.1, this.2⟩
      · cases h

theorem pick_of_get {vs : List Variant} {n j : Nat} {v : Variant} (hd : pairwiseDisj vs = true)
    (hg : vs[j]? = some v) (hok : v.len.ok n = true) : pick vs n = some (j, v) := by
  induction vs generalizing j with
  | nil => simp at hg
  | cons a as ih =>
    simp only [pairwiseDisj, Bool.and_eq_true, List.all_eq_true] at hd
    cases j with
    | zero =>
      simp only [List.getElem?_cons_zero, Option.some.injEq] at hg
      subst hg
      simp [pick, hok]
    | succ k =>
      simp only [List.getElem?_cons_succ] at hg
      have hmem : v ∈ as := List.mem_of_getElem? hg
      have hna : a.len.ok n = false := by
        cases h : a.len.ok n
        · rfl
        · exact (LenRule.disjoint_sound (hd.1 v hmem) h hok).elim
      simp [pick, hna, ih hd.2 hg]

/-! ### Table well-formedness (closed by kernel evaluation in `Props`) -/

def rowWF (r : Row) : Bool :=
  r.variants.all (fun v => FieldsWF (fullFields r v) && v.len.ge2) && pairwiseDisj r.variants

def TableWF : Prop := table.all rowWF = true

theorem rowWF_of_get (h : TableWF) {i : Nat} {row : Row} (hg : table[i]? = some row) : rowWF row = true := by
  unfold TableWF at h
  rw [List.all_eq_true] at h
  exact h row (List.mem_of_getElem? hg)

/-! ### What a successful decode / encode means -/

theorem decodeAPDU_ok {raw : Bytes} {s : Service} (h : decodeAPDU raw = .ok s) :
    ∃ row v, 2 ≤ raw.length ∧ findRow (codeOfBits (Bits.ofBytes raw)) = some s.row ∧
      table[s.row]? = some row ∧ row.supported = true ∧ row.variants[s.variant]? = some v ∧
      v.len.ok raw.length = true ∧ decodeFields (fullFields row v) (Bits.ofBytes raw) = some s.vals := by
  unfold decodeAPDU at h
  split at h
  · cases h
  · rename_i hlen
    simp only at h
    split at h
    · cases h
    · rename_i i hfind
      split at h
      · cases h
      · rename_i row hrow
        split at h
        · cases h
        · rename_i hsup
          split at h
          · cases h
          · rename_i j v hpick
            split at h
            · rename_i vals hvals
              injection h with h
              subst h
              obtain ⟨hv, hok⟩ := pick_some hpick
              exact ⟨row, v, by omega, hfind, hrow, by simpa using hsup, hv, hok, hvals⟩
            · cases h

theorem encodeAPDU_some {s : Service} {raw : Bytes} (h : encodeAPDU s = some raw) :
    ∃ row v bits, table[s.row]? = some row ∧ row.supported = true ∧ row.variants[s.variant]? = some v ∧
      encodeFields (fullFields row v) s.vals = some bits ∧ Bits.toBytes? bits = some raw ∧
      v.len.ok raw.length = true ∧ findRow (codeOfBits bits) = some s.row := by
  unfold encodeAPDU at h
  split at h
  · cases h
  · rename_i row hrow
    split at h
    · cases h
    · rename_i hsup
      split at h
      · cases h
      · rename_i v hv
        split at h
        · cases h
        · rename_i bits hbits
          split at h
          · cases h
          · rename_i raw0 hraw
            split at h
            · rename_i hg
              injection h with h
              subst h
              simp only [Bool.and_eq_true, beq_iff_eq] at hg
              exact ⟨row, v, bits, hrow, by simpa using hsup, hv, hbits, hraw, hg.1, hg.2⟩
            · cases h

/-- **C06 lifted**: whatever `to_knx` emits, `APCI.from_knx` decodes to the same object. -/
theorem decodeAPDU_encodeAPDU (hT : TableWF) (s : Service) (raw : Bytes) (h : encodeAPDU s = some raw) :
    decodeAPDU raw = .ok s := by
  obtain ⟨row, v, bits, hrow, hsup, hv, hbits, hraw, hok, hfind⟩ := encodeAPDU_some h
  obtain ⟨hob, _, hlen⟩ := Bits.toBytes?_some bits raw hraw
  have hwf := rowWF_of_get hT hrow
  simp only [rowWF, Bool.and_eq_true, List.all_eq_true] at hwf
  have hvwf := hwf.1 v (List.mem_of_getElem? hv)
  have h2 : 2 ≤ raw.length := LenRule.ge2_sound hvwf.2 hok
  have hpick := pick_of_get hwf.2 hv hok
  have hdec := decodeFields_encodeFields _ hvwf.1 _ _ hbits
  unfold decodeAPDU
  rw [if_neg (by omega)]
  simp only [hob, hfind, hrow, hsup, hpick, hdec]
  rfl

/-- **C05 lifted**: a decoded object that can be encoded again gives the received
APDU with exactly the reserved bits zeroed; it has the same length, decodes to
the same object, and `calculated_length` is the encoded length minus one. -/
theorem encodeAPDU_decodeAPDU (hT : TableWF) (raw raw' : Bytes) (s : Service)
    (hd : decodeAPDU raw = .ok s) (he : encodeAPDU s = some raw') :
    Bits.ofBytes raw' = clear (maskBits s raw) (Bits.ofBytes raw) ∧ raw'.length = raw.length ∧
      decodeAPDU raw' = .ok s ∧ calcLength s = some (raw'.length - 1) := by
  obtain ⟨row, v, _, _, hrow, _, hv, _, hvals⟩ := decodeAPDU_ok hd
  obtain ⟨row', v', bits, hrow', _, hv', hbits, hraw, _, _⟩ := encodeAPDU_some he
  rw [hrow] at hrow'; injection hrow' with hrow'; subst hrow'
  rw [hv] at hv'; injection hv' with hv'; subst hv'
  obtain ⟨hob, _, hlen⟩ := Bits.toBytes?_some bits raw' hraw
  have hmain := encodeFields_decodeFields _ _ _ _ hvals hbits
  have hmask : maskBits s raw = maskFields (fullFields row v) (Bits.ofBytes raw) := by
    simp only [maskBits, hrow, hv]
  have hl : bits.length = (Bits.ofBytes raw).length := by
    rw [hmain, clear_length _ _ (maskFields_length _ _)]
  refine ⟨by rw [hob, hmask, hmain], ?_, decodeAPDU_encodeAPDU hT s raw' he, ?_⟩
  · simp only [Bits.ofBytes_length] at hl; omega
  · have hw := widthOf_encodeFields _ _ _ hbits
    simp only [calcLength, hrow, hv, hw]
    congr 1
    omega

end XknxVerif.APCI
