/-
Helper lemmas about the telegram-queue monitor (`Model/TelegramQueue.lean`): accounting invariant,
stop-sentinel structure, termination measure.  Core Lean only.
-/
import XknxVerif.Model.TelegramQueue

namespace XknxVerif.TelegramQueue
open XknxVerif.Monitor

/-- does the consumer hold one unfinished entry of `xknx.telegrams`? -/
def consHolds : Cons → Nat
  | .idle => 0
  | .inc _ _ _ => 1
  | .hold _ => 1
  | .stopping _ => 1
  | .finished => 0

/-- does the limiter hold one unfinished entry of `xknx.telegrams` / of `outgoing_queue`? -/
def limMain : Lim → Nat
  | .idle => 0
  | .sending _ _ => 1
  | .post _ _ _ => 1
  | .closing _ _ dmP => dmP.toNat
  | .stopClosing => 0
  | .finished => 0

def limOut : Lim → Nat
  | .idle => 0
  | .sending _ _ => 1
  | .post _ _ _ => 1
  | .closing _ doP _ => doP.toNat
  | .stopClosing => 1
  | .finished => 0

@[simp] theorem consHolds_idle : consHolds .idle = 0 := rfl
@[simp] theorem consHolds_inc (t : Tg) (c : List Nat) (p : Bool) : consHolds (.inc t c p) = 1 := rfl
@[simp] theorem consHolds_hold (t : Tg) : consHolds (.hold t) = 1 := rfl
@[simp] theorem consHolds_stopping (b : Bool) : consHolds (.stopping b) = 1 := rfl
@[simp] theorem consHolds_finished : consHolds .finished = 0 := rfl
@[simp] theorem limMain_idle : limMain .idle = 0 := rfl
@[simp] theorem limMain_sending (t : Tg) (b : Bool) : limMain (.sending t b) = 1 := rfl
@[simp] theorem limMain_post (t : Tg) (p : Bool) (c : List Nat) : limMain (.post t p c) = 1 := rfl
@[simp] theorem limMain_closing (t : Tg) (a b : Bool) : limMain (.closing t a b) = b.toNat := rfl
@[simp] theorem limMain_stopClosing : limMain .stopClosing = 0 := rfl
@[simp] theorem limMain_finished : limMain .finished = 0 := rfl
@[simp] theorem limOut_idle : limOut .idle = 0 := rfl
@[simp] theorem limOut_sending (t : Tg) (b : Bool) : limOut (.sending t b) = 1 := rfl
@[simp] theorem limOut_post (t : Tg) (p : Bool) (c : List Nat) : limOut (.post t p c) = 1 := rfl
@[simp] theorem limOut_closing (t : Tg) (a b : Bool) : limOut (.closing t a b) = a.toNat := rfl
@[simp] theorem limOut_stopClosing : limOut .stopClosing = 1 := rfl
@[simp] theorem limOut_finished : limOut .finished = 0 := rfl

@[simp] theorem limMain_settlePost (t : Tg) (p : Bool) (c : List Nat) : limMain (settlePost t p c) = 1 := by
  unfold settlePost; split <;> rfl
@[simp] theorem limOut_settlePost (t : Tg) (p : Bool) (c : List Nat) : limOut (settlePost t p c) = 1 := by
  unfold settlePost; split <;> rfl
@[simp] theorem limMain_settleClosing (t : Tg) (a b : Bool) : limMain (settleClosing t a b) = b.toNat := by
  cases a <;> cases b <;> rfl
@[simp] theorem limOut_settleClosing (t : Tg) (a b : Bool) : limOut (settleClosing t a b) = a.toNat := by
  cases a <;> cases b <;> rfl
@[simp] theorem settlePost_ne_stopClosing (t : Tg) (p : Bool) (c : List Nat) : settlePost t p c ≠ .stopClosing := by
  unfold settlePost; split <;> simp
@[simp] theorem settlePost_ne_finished (t : Tg) (p : Bool) (c : List Nat) : settlePost t p c ≠ .finished := by
  unfold settlePost; split <;> simp
@[simp] theorem settleClosing_ne_stopClosing (t : Tg) (a b : Bool) : settleClosing t a b ≠ .stopClosing := by
  cases a <;> cases b <;> simp [settleClosing]
@[simp] theorem settleClosing_ne_finished (t : Tg) (a b : Bool) : settleClosing t a b ≠ .finished := by
  cases a <;> cases b <;> simp [settleClosing]

/-- Accounting and stop-sentinel invariant. -/
structure Inv (s : State) : Prop where
  accMain : s.mainUnf = s.mainQ.length + consHolds s.cons + s.outQ.length + limMain s.lim
  accOut : s.outUnf = s.outQ.length + s.outStop.toNat + limOut s.lim
  i1 : s.outStop = true → s.cons = .stopping true
  i2 : s.lim = .stopClosing → s.cons = .stopping true ∧ s.outStop = false ∧ s.outQ = []
  i3 : s.lim = .finished → (s.cons = .stopping true ∨ s.cons = .finished) ∧ s.outStop = false ∧ s.outQ = []
  i4 : s.cons = .finished → s.lim = .finished
  i5 : s.cons = .stopping true → s.outStop = true ∨ s.lim = .stopClosing ∨ s.lim = .finished

theorem inv_init (rate ncb : Nat) : Inv (init rate ncb) := by
  constructor <;> (unfold init; simp)

theorem inv_step (s : State) (o : Obs) (s' : State) (hi : Inv s) (h : step? s o = some s') : Inv s' := by
  obtain ⟨a1, a2, i1, i2, i3, i4, i5⟩ := hi
  cases o with
  | put k kind dev =>
    simp only [step?] at h; split at h
    · injection h with h; subst h
      constructor <;> simp_all <;> omega
    · simp at h
  | stop =>
    simp only [step?] at h
    injection h with h; subst h
    constructor <;> simp_all <;> omega
  | adv t =>
    simp only [step?] at h; split at h
    · injection h with h; subst h
      constructor <;> simp_all
    · simp at h
  | gm x =>
    simp only [step?] at h
    split at h
    · split at h
      · split at h <;> injection h with h <;> subst h <;>
          constructor <;> simp_all <;> omega
      · simp at h
    · split at h
      · injection h with h; subst h
        constructor <;> simp_all <;> omega
      · simp at h
    · simp at h
  | mv x =>
    simp only [step?] at h
    split at h
    · split at h
      · injection h with h; subst h
        constructor <;> simp_all <;> omega
      · simp at h
    · split at h
      · injection h with h; subst h
        constructor <;> simp_all <;> omega
      · simp at h
    · simp at h
  | go x =>
    simp only [step?] at h
    split at h
    · split at h
      · split at h <;> injection h with h <;> subst h <;>
          constructor <;> simp_all <;> omega
      · simp at h
    · split at h
      · injection h with h; subst h
        constructor <;> simp_all <;> omega
      · simp at h
    · simp at h
  | tx k =>
    simp only [step?] at h
    split at h
    · split at h
      · injection h with h; subst h
        constructor <;> simp_all
      · simp at h
    · simp at h
  | se k o =>
    simp only [step?] at h
    split at h
    · split at h
      · injection h with h; subst h
        by_cases ho : o = .ok <;> simp only [ho, ↓reduceIte] <;> constructor <;> simp_all
      · simp at h
    · simp at h
  | cb k j =>
    simp only [step?] at h
    repeat' split at h
    all_goals (first | (simp at h; done) | (injection h with h; subst h; constructor <;> simp_all))
  | proc k e =>
    simp only [step?] at h
    repeat' split at h
    all_goals (first | (simp at h; done) | (injection h with h; subst h; constructor <;> simp_all))
  | dmc =>
    simp only [step?] at h
    split at h
    · split at h
      · injection h with h; subst h; constructor <;> simp_all <;> omega
      · simp at h
    · rename_i hc
      split at h
      · rename_i hcond
        injection h with h; subst h
        have hl : s.lim = .finished := by
          have h0 := hcond.1
          rw [a2] at h0
          rcases i5 hc with h1 | h1 | h1
          · rw [h1] at h0; simp at h0
          · rw [h1] at h0; simp at h0
          · exact h1
        constructor <;> simp_all <;> omega
      · simp at h
    · simp at h
  | dml =>
    simp only [step?] at h
    repeat' split at h
    all_goals (first | (simp at h; done) | (injection h with h; subst h; constructor <;> simp_all <;> omega))
  | dol =>
    simp only [step?] at h
    repeat' split at h
    all_goals (first | (simp at h; done) | (injection h with h; subst h; constructor <;> simp_all <;> omega))
  | join =>
    simp only [step?] at h; split at h
    · injection h with h; subst h; exact ⟨a1, a2, i1, i2, i3, i4, i5⟩
    · simp at h
  | stopped =>
    simp only [step?] at h; split at h
    · injection h with h; subst h; exact ⟨a1, a2, i1, i2, i3, i4, i5⟩
    · simp at h

/-! ### counting puts and task_done calls -/

def isPutLike : Obs → Bool
  | .put .. | .stop => true
  | _ => false

def isDm : Obs → Bool
  | .dmc | .dml => true
  | _ => false

theorem unf_step {s s' : State} {o : Obs} (h : step? s o = some s') :
    s'.mainUnf + (if isDm o then 1 else 0) = s.mainUnf + (if isPutLike o then 1 else 0) := by
  cases o <;> simp only [step?] at h <;> (repeat' split at h) <;>
    (first | (simp at h; done) | (injection h with h; subst h; simp [isDm, isPutLike]; try omega))

theorem unf_run : ∀ (tr : List Obs) (s s' : State), run? step? s tr = some s' →
    s'.mainUnf + (tr.filter isDm).length = s.mainUnf + (tr.filter isPutLike).length := by
  intro tr
  induction tr with
  | nil => intro s s' h; simp at h; subst h; simp
  | cons o tr ih =>
    intro s s' h
    rw [run?_cons] at h
    cases ho : step? s o with
    | none => simp [ho] at h
    | some s1 =>
      simp only [ho, Option.bind_some] at h
      have h1 := ih s1 s' h
      have h2 := unf_step ho
      simp only [List.filter_cons]
      cases hd : isDm o <;> cases hp : isPutLike o <;> simp_all <;> omega

/-! ### well-formedness of the limiter state -/

def WF (s : State) : Prop :=
  (∀ t, s.lim ≠ .post t false []) ∧ (∀ t, s.lim ≠ .closing t false false)

theorem settlePost_wf (t : Tg) (p : Bool) (c : List Nat) :
    (∀ t', settlePost t p c ≠ .post t' false []) ∧ (∀ t', settlePost t p c ≠ .closing t' false false) := by
  unfold settlePost
  cases p <;> cases c <;> simp

theorem settleClosing_wf (t : Tg) (a b : Bool) :
    (∀ t', settleClosing t a b ≠ .post t' false []) ∧ (∀ t', settleClosing t a b ≠ .closing t' false false) := by
  cases a <;> cases b <;> simp [settleClosing]

@[simp] theorem settlePost_ne_post_nil (t t' : Tg) (p : Bool) (c : List Nat) :
    settlePost t p c ≠ .post t' false [] := (settlePost_wf t p c).1 t'
@[simp] theorem settlePost_ne_closing_ff (t t' : Tg) (p : Bool) (c : List Nat) :
    settlePost t p c ≠ .closing t' false false := (settlePost_wf t p c).2 t'
@[simp] theorem settleClosing_ne_post_nil (t t' : Tg) (a b : Bool) :
    settleClosing t a b ≠ .post t' false [] := (settleClosing_wf t a b).1 t'
@[simp] theorem settleClosing_ne_closing_ff (t t' : Tg) (a b : Bool) :
    settleClosing t a b ≠ .closing t' false false := (settleClosing_wf t a b).2 t'

theorem wf_init (rate ncb : Nat) : WF (init rate ncb) := by
  constructor <;> (unfold init; simp)

theorem wf_step (s : State) (o : Obs) (s' : State) (hw : WF s) (h : step? s o = some s') : WF s' := by
  obtain ⟨w1, w2⟩ := hw
  cases o <;> simp only [step?] at h <;> (repeat' split at h) <;>
    (first | (simp at h; done) |
      (injection h with h; subst h
       first
        | exact ⟨w1, w2⟩
        | (constructor <;> intro t' <;> simp_all)))

end XknxVerif.TelegramQueue
