/-
Lemmas for the re-serialisation clause of C13: exact TPCI re-encoding and the control-field
reconstruction for every accepted 16-bit control field (from the 2 × 4096-case kernel checks).
-/
import XknxVerif.Lemmas.CEMIRoundtrip
import XknxVerif.Lemmas.CtlBack.Ft0
import XknxVerif.Lemmas.CtlBack.Ft1

namespace XknxVerif.CEMI
open XknxVerif.Generated

/-- exact re-encoding of a resolved TPCI octet: control PDUs reproduce the octet, data PDUs its six transport bits -/
def tpciExactOk (o : Fin 256) (g z : Bool) : Bool :=
  match TPCI.resolve o.val g z with
  | .error _ => true
  | .ok t => TPCI.encode t == (if t.isControl then o.val else o.val &&& 0xFC)

theorem tpciExactOk_all : ∀ o g z, tpciExactOk o g z = true := by decide +kernel

theorem tpci_exact (o : Nat) (ho : o < 256) (g z : Bool) (t : TPCI.T) (h : TPCI.resolve o g z = .ok t) :
    TPCI.encode t = if t.isControl then o else o &&& 0xFC := by
  have := tpciExactOk_all ⟨o, ho⟩ g z
  simp only [tpciExactOk, h, beq_iff_eq] at this
  exact this

/-- the finite control-field check, for any accepted 16-bit control field -/
theorem ctl_back (c : Nat) (hc : c < 65536) (f : Flags) (hf : Flags.fromKnx c = .ok f)
    (hs : f.frameFormat = 0) (ft : Nat) (hft : ft < 2) :
    ∃ fl, f.toKnx = .ok fl ∧
      let ctl := fl ||| (ft <<< 15) ||| ((if (c >>> 7) &&& 1 == 1 then 1 else 0) <<< 7)
      ctl < 65536 ∧ ctl % 256 = c % 256 ∧ (ctl / 256 % 256) % 64 = (c / 256 % 256) % 64 ∧ (ctl / 256 % 256) >>> 7 = ft := by
  -- EFF = 0 ⇒ c is a multiple of 16
  have h16 : c % 16 = 0 := by
    unfold Flags.fromKnx at hf
    have hm : c &&& Cemi.extendedFrameFormatMask = c % 16 := Nat.and_two_pow_sub_one_eq_mod c 4
    rw [hm] at hf
    have hlt : c % 16 < 16 := Nat.mod_lt _ (by decide)
    generalize c % 16 = r at hf hlt ⊢
    split at hf
    · rename_i ff heq
      cases hf
      simp only at hs
      subst hs
      -- effTable[r]? = some (some 0) only for r = 0
      have : ∀ r : Fin 16, Cemi.effTable[r.val]? = some (some 0) → r.val = 0 := by decide
      exact this ⟨r, hlt⟩ heq
    · cases hf
  have hq : c = (c / 16 / 64 * 64 + c / 16 % 64) * 16 := by omega
  have ha : c / 16 / 64 < 64 := by omega
  have hb : c / 16 % 64 < 64 := by omega
  have hk : ctlBackOk (c / 16 / 64 * 64 + c / 16 % 64) ft = true := by
    have : ft = 0 ∨ ft = 1 := by omega
    rcases this with rfl | rfl
    · exact ctlBackOk_ft0 ⟨_, ha⟩ ⟨_, hb⟩
    · exact ctlBackOk_ft1 ⟨_, ha⟩ ⟨_, hb⟩
  unfold ctlBackOk at hk
  simp only [← hq, hf, Bool.and_eq_true, beq_iff_eq] at hk
  obtain ⟨_, hk⟩ := hk
  split at hk
  · cases hk
  · rename_i fl hfl
    simp only [Bool.and_eq_true, decide_eq_true_eq, beq_iff_eq] at hk
    obtain ⟨⟨⟨h1, h2⟩, h3⟩, h4⟩ := hk
    refine ⟨fl, hfl, ?_⟩
    simp only [beq_iff_eq]
    exact ⟨h1, h2, h3, h4⟩

theorem pair_split (x1 x2 : Nat) (h1 : x1 < 256) (h2 : x2 < 256) :
    Bytes.toNatBE [x1, x2] = x1 * 256 + x2 ∧ (x1 * 256 + x2) / 256 % 256 = x1 ∧ (x1 * 256 + x2) % 256 = x2
      ∧ x1 * 256 + x2 < 65536 := by
  simp only [Bytes.toNatBE, List.foldl_cons, List.foldl_nil]
  omega


end XknxVerif.CEMI

