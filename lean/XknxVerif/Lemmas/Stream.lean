/-
Lemmas about the TCP stream loop: the frame parser only looks at the announced
prefix of its input, hence one loop iteration is stable under appending more
data; unfolding equations of `drain`; `drain` over a concatenation.
-/
import XknxVerif.Lemmas.KNXIPDeclared
import XknxVerif.Model.Stream

namespace XknxVerif.Stream
open XknxVerif.KNXIP
open XknxVerif.Generated.KNXIP

theorem idx_append {b : Bytes} (c : Bytes) {i : Nat} (h : i < b.length) : idx (b ++ c) i = idx b i := by
  unfold idx
  rw [List.getElem?_append_left h]

/-- The header parser reads the first six octets only. -/
theorem Header.parse_append {b : Bytes} (c : Bytes) (h : Const.headerLength ≤ b.length) :
    Header.parse (b ++ c) = Header.parse b := by
  have h6 : 6 ≤ b.length := h
  unfold Header.parse
  have h1 : ¬ (b ++ c).length < Const.headerLength := by
    simp only [List.length_append, Const.headerLength] at *; omega
  have h2 : ¬ b.length < Const.headerLength := by simp only [Const.headerLength] at *; omega
  rw [if_neg h1, if_neg h2]
  rw [idx_append c (by omega : 0 < b.length), idx_append c (by omega : 1 < b.length),
    idx_append c (by omega : 2 < b.length), idx_append c (by omega : 3 < b.length),
    idx_append c (by omega : 4 < b.length), idx_append c (by omega : 5 < b.length)]

theorem Header.lengthAfter_append {b : Bytes} (c : Bytes) (h : Const.headerLength ≤ b.length) :
    Header.lengthAfter (b ++ c) = Header.lengthAfter b := by
  have h6 : 6 ≤ b.length := h
  unfold Header.lengthAfter
  have h1 : ¬ (b ++ c).length < Const.headerLength := by
    simp only [List.length_append, Const.headerLength] at *; omega
  have h2 : ¬ b.length < Const.headerLength := by simp only [Const.headerLength] at *; omega
  rw [if_neg h1, if_neg h2]
  rw [List.getElem?_append_left (by omega : 0 < b.length), List.getElem?_append_left (by omega : 4 < b.length),
    List.getElem?_append_left (by omega : 5 < b.length)]

theorem slice_append {b : Bytes} (c : Bytes) {lo hi : Nat} (h : hi ≤ b.length) :
    Bytes.slice (b ++ c) lo hi = Bytes.slice b lo hi := by
  unfold Bytes.slice
  rw [List.take_append_of_le_length h]

/-- A header error is the same whatever follows the six header octets. -/
theorem parseFrame_append_header_error {b : Bytes} (c : Bytes) {e : Exc} (h6 : Const.headerLength ≤ b.length)
    (h : Header.parse b = .error e) : parseFrame (b ++ c) = .error e ∧ parseFrame b = .error e := by
  unfold parseFrame
  rw [Header.parse_append c h6, h]
  exact ⟨rfl, rfl⟩

/-- When the announced length is available, the verdict depends on the announced prefix only and the
rest is handed back untouched. -/
theorem parseFrame_append {b : Bytes} (c : Bytes) {h : Header} (hh : Header.parse b = .ok h)
    (hl : h.totalLength ≤ b.length) :
    parseFrame (b ++ c) = (parseFrame b).map (fun r => (r.1, r.2 ++ c)) := by
  have h6 := (Header.parse_ok hh).2.1
  unfold parseFrame
  rw [Header.parse_append c h6, hh]
  simp only [bind, Except.bind]
  have h1 : ¬ (b ++ c).length < h.totalLength := by simp only [List.length_append]; omega
  have h2 : ¬ b.length < h.totalLength := by omega
  rw [if_neg h1, if_neg h2, slice_append c hl]
  cases parseBody h.serviceType (b.slice Const.headerLength h.totalLength) with
  | error e => rfl
  | ok body =>
    simp only [Except.map]
    rw [List.drop_append_of_le_length hl]

theorem parseFrame_error_len {b : Bytes} (h : parseFrame b = .error .parse) : Const.headerLength ≤ b.length := by
  by_cases hlen : b.length < Const.headerLength
  · unfold parseFrame at h
    rw [Header.parse_short hlen] at h
    cases h
  · omega

/-- No iteration lets an exception escape. -/
theorem step_no_crash (b : Bytes) (e : Exc) : step b ≠ .crash e := by
  intro h
  unfold step at h
  split at h
  · cases h
  · cases h
  · split at h
    · cases h
    · split at h <;> cases h
  · rename_i e' hne1 hne2 hp
    rcases parseFrame_raises b _ hp with rfl | rfl
    · exact hne2 rfl
    · exact hne1 rfl

/-- One iteration that delivers or skips does the same when more data is already there. -/
theorem step_append_deliver {b : Bytes} (c : Bytes) {f : Frame} {r : Bytes} (h : step b = .deliver f r) :
    step (b ++ c) = .deliver f (r ++ c) := by
  unfold step at h
  split at h
  · rename_i f' r' hp
    simp only [Step.deliver.injEq] at h
    obtain ⟨rfl, rfl⟩ := h
    obtain ⟨_, hle, _, hh⟩ := parseFrame_ok hp
    have := parseFrame_append c hh hle
    rw [hp] at this
    unfold step
    rw [this]
    rfl
  · cases h
  · split at h
    · cases h
    · split at h <;> cases h
  · cases h

theorem step_append_skip {b : Bytes} (c : Bytes) {r : Bytes} (h : step b = .skip r) :
    step (b ++ c) = .skip (r ++ c) := by
  unfold step at h
  split at h
  · cases h
  · cases h
  · rename_i hp
    have h6 := parseFrame_error_len hp
    have h6' : 6 ≤ b.length := h6
    -- the verdict on b ++ c is the same parse error
    have hpc : parseFrame (b ++ c) = .error .parse ∨
        (¬ Header.lengthAfter b < Const.headerLength ∧ b.length < Header.lengthAfter b) := by
      cases hh : Header.parse b with
      | error e =>
        have := parseFrame_append_header_error c h6 hh
        rw [this.2] at hp
        cases hp
        exact Or.inl this.1
      | ok hd =>
        have hpo := Header.parse_ok hh
        by_cases hl : hd.totalLength ≤ b.length
        · have := parseFrame_append c hh hl
          rw [hp] at this
          exact Or.inl this
        · right
          rw [← hpo.2.2]
          exact ⟨by have := hpo.1; omega, by omega⟩
    split at h
    · rename_i hlt
      simp only [Step.skip.injEq] at h
      subst h
      rcases hpc with hpc | ⟨hc, _⟩
      · unfold step
        rw [hpc]
        simp only
        rw [Header.lengthAfter_append c h6, if_pos hlt, List.drop_append_of_le_length (by omega)]
      · exact absurd hlt hc
    · rename_i hge
      split at h
      · cases h
      · rename_i hle
        simp only [Step.skip.injEq] at h
        subst h
        rcases hpc with hpc | ⟨_, hc⟩
        · unfold step
          rw [hpc]
          simp only
          rw [Header.lengthAfter_append c h6, if_neg hge]
          have : ¬ (b ++ c).length < Header.lengthAfter b := by simp only [List.length_append]; omega
          rw [if_neg this, List.drop_append_of_le_length (by omega)]
        · exact absurd hc hle
  · cases h

/-! ### unfolding `drain` -/

theorem drain_nil : drain [] = ([], []) := by
  rw [drain]; rfl

theorem drain_wait {b : Bytes} (h : step b = .wait) : drain b = (b, []) := by
  rw [drain]
  split
  · rename_i hb
    have : b = [] := by simpa using hb
    subst this; rfl
  · split
    · rfl
    · rename_i h'; rw [h] at h'; cases h'
    · rename_i h'; rw [h] at h'; cases h'
    · rename_i h'; rw [h] at h'; cases h'

theorem drain_skip {b r : Bytes} (hb : b.isEmpty = false) (h : step b = .skip r) : drain b = drain r := by
  rw [drain]
  simp only [hb, Bool.false_eq_true, ↓reduceDIte]
  split
  · rename_i h'; rw [h] at h'; cases h'
  · rename_i h'; rw [h] at h'; cases h'
  · rename_i h'; rw [h] at h'; cases h'; rfl
  · rename_i h'; rw [h] at h'; cases h'

theorem drain_deliver {b r : Bytes} {f : Frame} (hb : b.isEmpty = false) (h : step b = .deliver f r) :
    drain b = ((drain r).1, .frame f :: (drain r).2) := by
  rw [drain]
  simp only [hb, Bool.false_eq_true, ↓reduceDIte]
  split
  · rename_i h'; rw [h] at h'; cases h'
  · rename_i h'; rw [h] at h'; cases h'
  · rename_i h'; rw [h] at h'; cases h'
  · rename_i h'; rw [h] at h'; cases h'; rfl

theorem isEmpty_append_false {b : Bytes} (c : Bytes) (hb : b.isEmpty = false) : (b ++ c).isEmpty = false := by
  cases b with
  | nil => simp at hb
  | cons x xs => rfl

/-- Processing `b ++ c` in one go is processing `b`, then the residue of `b` followed by `c`. -/
theorem drain_append (b c : Bytes) :
    drain (b ++ c) = ((drain ((drain b).1 ++ c)).1, (drain b).2 ++ (drain ((drain b).1 ++ c)).2) := by
  fun_induction drain b with
  | case1 b hb =>
    have : b = [] := by simpa using hb
    subst this
    simp
  | case2 b hb hs => simp
  | case3 b hb e hs => exact absurd hs (step_no_crash b e)
  | case4 b hb r hs ih =>
    have hb' : b.isEmpty = false := by simpa using hb
    rw [drain_skip (isEmpty_append_false c hb') (step_append_skip c hs)]
    exact ih
  | case5 b hb f r hs ih =>
    have hb' : b.isEmpty = false := by simpa using hb
    rw [drain_deliver (isEmpty_append_false c hb') (step_append_deliver c hs), ih]
    simp

/-- What `drain` leaves in the buffer is a state in which the loop waits. -/
theorem drain_residue (b : Bytes) : drain (drain b).1 = ((drain b).1, []) := by
  fun_induction drain b with
  | case1 b hb => simp [drain_nil]
  | case2 b hb hs => exact drain_wait hs
  | case3 b hb e hs => simp [drain_nil]
  | case4 b hb r hs ih => exact ih
  | case5 b hb f r hs ih => exact ih

/-- No event of the loop is an escaped exception. -/
theorem drain_no_escape (b : Bytes) : ∀ ev ∈ (drain b).2, ∃ f, ev = .frame f := by
  fun_induction drain b with
  | case1 b hb => simp
  | case2 b hb hs => simp
  | case3 b hb e hs => exact absurd hs (step_no_crash b e)
  | case4 b hb r hs ih => exact ih
  | case5 b hb f r hs ih =>
    intro ev hev
    rcases List.mem_cons.mp hev with rfl | h
    · exact ⟨f, rfl⟩
    · exact ih ev h

end XknxVerif.Stream
