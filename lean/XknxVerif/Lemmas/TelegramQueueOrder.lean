/-
Telegram-queue monitor: one send at a time, kinds of telegrams on the send path, put order of
interface sends, rate-limit spacing.  Core Lean only.
-/
import XknxVerif.Lemmas.TelegramQueue

namespace XknxVerif.TelegramQueue
open XknxVerif.Monitor

/-! ### one send at a time -/

/-- telegram `k` has reached the interface and `send_telegram` has not ended yet -/
def Sending (k : Nat) (s : State) : Prop := ∃ t, s.lim = .sending t true ∧ t.k = k

theorem sending_step (k : Nat) (s : State) (o : Obs) (s' : State) (hw : Sending k s)
    (hne : ∀ oc, o ≠ .se k oc) (h : step? s o = some s') : Sending k s' := by
  obtain ⟨t, hl, hk⟩ := hw
  cases o <;> simp only [step?] at h <;> (repeat' split at h) <;>
    (first
      | (simp at h; done)
      | (injection h with h; subst h; exact ⟨t, hl, hk⟩)
      | (simp_all; done)
      | (rename_i hcond; exfalso; simp_all))

/-! ### kinds and provenance of telegrams in the pipeline -/

structure KP (s : State) : Prop where
  outQ_kind : ∀ t ∈ s.outQ, t.kind ≠ .inc
  hold_kind : ∀ t, s.cons = .hold t → t.kind ≠ .inc
  sending_kind : ∀ t b, s.lim = .sending t b → t.kind = .out
  mainQ_put : ∀ t, Item.tg t ∈ s.mainQ → t ∈ s.puts
  outQ_put : ∀ t ∈ s.outQ, t ∈ s.puts
  hold_put : ∀ t, s.cons = .hold t → t ∈ s.puts
  sending_put : ∀ t b, s.lim = .sending t b → t ∈ s.puts

theorem kp_init (rate ncb : Nat) : KP (init rate ncb) := by
  constructor <;> (unfold init; simp)

@[simp] theorem settlePost_ne_sending (t t' : Tg) (p b : Bool) (c : List Nat) : settlePost t p c ≠ .sending t' b := by
  unfold settlePost; split <;> simp

@[simp] theorem settleClosing_ne_sending (t t' : Tg) (a b c : Bool) : settleClosing t a b ≠ .sending t' c := by
  cases a <;> cases b <;> simp [settleClosing]

theorem kp_step (s : State) (o : Obs) (s' : State) (hk : KP s) (h : step? s o = some s') : KP s' := by
  obtain ⟨k1, k2, k3, k4, k5, k6, k7⟩ := hk
  cases o with
  | put k kind dev =>
    simp only [step?] at h; split at h
    · injection h with h; subst h
      constructor <;> simp_all
      intro t ht
      rcases ht with ht | ht
      · exact Or.inl (k4 t ht)
      · exact Or.inr ht
    · simp at h
  | stop =>
    simp only [step?] at h
    injection h with h; subst h
    constructor <;> simp_all
  | adv t =>
    simp only [step?] at h; split at h
    · injection h with h; subst h; exact ⟨k1, k2, k3, k4, k5, k6, k7⟩
    · simp at h
  | gm x =>
    simp only [step?] at h
    split at h
    · rename_i t rest hc hq
      split at h
      · split at h <;> injection h with h <;> subst h <;> constructor <;> simp_all
      · simp at h
    · split at h
      · injection h with h; subst h; constructor <;> simp_all
      · simp at h
    · simp at h
  | mv x =>
    simp only [step?] at h
    split at h
    · split at h
      · injection h with h; subst h
        constructor <;> simp_all
        · intro t ht; rcases ht with ht | ht
          · exact k1 t ht
          · subst ht; assumption
        · intro t ht; rcases ht with ht | ht
          · exact k5 t ht
          · subst ht; assumption
      · simp at h
    · split at h
      · injection h with h; subst h; constructor <;> simp_all
      · simp at h
    · simp at h
  | go x =>
    simp only [step?] at h
    split at h
    · rename_i t rest hl hq
      split at h
      · split at h
        · injection h with h; subst h
          constructor <;> simp_all
        · rename_i hkind
          injection h with h; subst h
          have hti : t.kind ≠ .inc := k1 t (by simp [hq])
          constructor <;> simp_all
          · cases hk' : t.kind <;> simp_all
      · simp at h
    · split at h
      · injection h with h; subst h; constructor <;> simp_all
      · simp at h
    · simp at h
  | tx k =>
    simp only [step?] at h
    split at h
    · rename_i t hl
      split at h
      · injection h with h; subst h
        constructor <;> simp_all
      · simp at h
    · simp at h
  | se k o =>
    simp only [step?] at h
    split at h
    · split at h
      · injection h with h; subst h
        by_cases ho : o = .ok <;> simp only [ho, ↓reduceIte] <;> constructor <;> simp_all
      · simp at h
    · simp at h
  | cb k j =>
    simp only [step?] at h
    repeat' split at h
    all_goals (first | (simp at h; done) | skip)
    all_goals (injection h with h; subst h; constructor <;> simp_all)
  | proc k e =>
    simp only [step?] at h
    repeat' split at h
    all_goals (first | (simp at h; done) | skip)
    all_goals (injection h with h; subst h; constructor <;> simp_all)
  | dmc =>
    simp only [step?] at h
    repeat' split at h
    all_goals (first | (simp at h; done) | skip)
    all_goals (injection h with h; subst h; constructor <;> simp_all)
  | dml =>
    simp only [step?] at h
    repeat' split at h
    all_goals (first | (simp at h; done) | skip)
    all_goals (injection h with h; subst h; constructor <;> simp_all)
  | dol =>
    simp only [step?] at h
    repeat' split at h
    all_goals (first | (simp at h; done) | skip)
    all_goals (injection h with h; subst h; constructor <;> simp_all)
  | join =>
    simp only [step?] at h; split at h
    · injection h with h; subst h; exact ⟨k1, k2, k3, k4, k5, k6, k7⟩
    · simp at h
  | stopped =>
    simp only [step?] at h; split at h
    · injection h with h; subst h; exact ⟨k1, k2, k3, k4, k5, k6, k7⟩
    · simp at h

end XknxVerif.TelegramQueue
