/-
Helper lemmas for the send/confirm monitor of C14: invariant lifting over accepted traces, and the
invariant that ties sender phases to what the trace so far says.
-/
import XknxVerif.Model.CEMIHandler

namespace XknxVerif.CEMIHandler

theorem run?_snoc (s : S) (a : List Tok) (o : Tok) :
    run? s (a ++ [o]) = (run? s a).bind fun s' => step? s' o := by
  induction a generalizing s with
  | nil => simp only [List.nil_append, run?, Option.bind_some]; cases step? s o <;> rfl
  | cons x xs ih =>
    simp only [List.cons_append, run?]
    cases step? s x with
    | none => rfl
    | some s' => exact ih s'

/-- Invariant relating the state to a fold over the trace seen so far. -/
theorem inv_run?_fold {α : Type} (f : α → Tok → α) (Inv : S → α → Prop)
    (hstep : ∀ s a o s', Inv s a → step? s o = some s' → Inv s' (f a o)) :
    ∀ (tr : List Tok) (s s' : S) (a : α), Inv s a → run? s tr = some s' → Inv s' (tr.foldl f a) := by
  intro tr
  induction tr with
  | nil => intro s s' a h hr; simp only [run?, Option.some.injEq] at hr; simpa using hr ▸ h
  | cons o os ih =>
    intro s s' a h hr
    simp only [run?] at hr
    cases hs : step? s o with
    | none => simp [hs] at hr
    | some s1 => rw [hs] at hr; exact ih s1 s' (f a o) (hstep s a o s1 h hs) hr

/-- what the trace says about sender `n`: (a confirmation arrived since its hand-over, time its hand-over
finished successfully, time of its last `sent` token) -/
structure Seen where
  con : Bool := false
  sentOk : Option Nat := none
  sent : Option Nat := none
  deriving DecidableEq, Repr

def seenStep (n : Nat) (a : Seen) : Tok → Seen
  | .hand m => if m == n then { a with con := false } else a
  | .sent m ok t => if m == n then { a with sent := some t, sentOk := if ok then some t else a.sentOk } else a
  | .rx code grp zero own tpdu0 pay _ => if isCon code grp zero own tpdu0 pay then { a with con := true } else a
  | _ => a

def seen (n : Nat) (tr : List Tok) : Seen := tr.foldl (seenStep n) {}

theorem mem_of_phaseOf (s : S) (n : Nat) (p : Phase) (h : phaseOf s n = some p) : (n, p) ∈ s.senders := by
  unfold phaseOf at h
  cases hf : s.senders.find? (·.1 == n) with
  | none => simp [hf] at h
  | some e =>
    simp only [hf, Option.map_some, Option.some.injEq] at h
    have hm := List.mem_of_find?_eq_some hf
    have hp := List.find?_some hf
    simp only [beq_iff_eq] at hp
    obtain ⟨a, b⟩ := e
    simp only at hp h
    subst hp; subst h
    exact hm

theorem mem_setPhase (s : S) (n : Nat) (p : Phase) (e : Nat × Phase) (h : e ∈ (setPhase s n p).senders) :
    (e.1 = n ∧ e.2 = p) ∨ (e.1 ≠ n ∧ e ∈ s.senders) := by
  simp only [setPhase, List.mem_map] at h
  obtain ⟨x, hx, rfl⟩ := h
  by_cases hn : x.1 = n
  · left; simp [hn]
  · right; simp [hn, hx]

structure Inv (s : S) (pre : List Tok) : Prop where
  lt : ∀ e ∈ s.senders, e.1 < s.next
  flagCon : s.flag = true → ∀ e ∈ s.senders, (seen e.1 pre).con = true
  relCon : ∀ e ∈ s.senders, ((∃ si, e.2 = .ready si) ∨ ∃ si w, e.2 = .waiting si (some w)) → (seen e.1 pre).con = true
  since : ∀ e ∈ s.senders, ∀ si, (e.2 = .ready si ∨ ∃ w, e.2 = .waiting si w) → (seen e.1 pre).sentOk = some si
  pendRes : ∀ n r t, Tok.res n r t ∈ s.pend → (seen n pre).sent = some t ∧ (r = .ok → (seen n pre).sentOk = some t)
  pendLen : s.pend.length ≤ 1

theorem seen_snoc (n : Nat) (pre : List Tok) (o : Tok) : seen n (pre ++ [o]) = seenStep n (seen n pre) o := by
  simp [seen, List.foldl_append]

theorem inv_act (s : S) (pre : List Tok) (o : Tok) (s' : S) (hp : s.pend = []) (hi : Inv s pre)
    (h : act s o = some s') : Inv s' (pre ++ [o]) := by
  cases o with
  | hand n =>
    simp only [act] at h
    split at h
    · rename_i hn
      simp only [beq_iff_eq] at hn
      simp only [Option.some.injEq] at h
      subst h
      have hne : ∀ e ∈ s.senders, (n == e.1) = false := fun e he => by
        have := hi.lt e he; simp; omega
      refine ⟨?_, ?_, ?_, ?_, ?_, ?_⟩
      · intro e he
        rcases List.mem_append.mp he with he | he
        · have := hi.lt e he; simp only; omega
        · simp only [List.mem_singleton] at he; subst he; simp
      · intro hf; simp at hf
      · intro e he hph
        rcases List.mem_append.mp he with he | he
        · rw [seen_snoc]; simp only [seenStep, hne e he]; exact hi.relCon e he hph
        · simp only [List.mem_singleton] at he; subst he; simp at hph
      · intro e he si hph
        rcases List.mem_append.mp he with he | he
        · rw [seen_snoc]; simp only [seenStep, hne e he]; exact hi.since e he si hph
        · simp only [List.mem_singleton] at he; subst he; simp at hph
      · intro n' r t hm; simp [hp] at hm
      · simp [hp]
    · simp at h
  | sent n ok t =>
    simp only [act] at h
    split at h
    · rename_i hph
      have hmem := mem_of_phaseOf s n _ hph
      have hstep : ∀ m, (seen m (pre ++ [Tok.sent n ok t])).con = (seen m pre).con := by
        intro m; rw [seen_snoc]; simp only [seenStep]; split <;> rfl
      have hso : ∀ m, m ≠ n → (seen m (pre ++ [Tok.sent n ok t])).sentOk = (seen m pre).sentOk := by
        intro m hm; rw [seen_snoc]; simp only [seenStep]
        have : (n == m) = false := by simp; exact fun e => hm e.symm
        simp [this]
      split at h
      · -- failed
        rename_i hok
        simp only [Option.some.injEq] at h; subst h
        refine ⟨?_, ?_, ?_, ?_, ?_, ?_⟩
        · intro e he
          rcases mem_setPhase _ _ _ e he with ⟨h1, _⟩ | ⟨_, h2⟩
          · rw [h1]; exact hi.lt _ hmem
          · exact hi.lt e h2
        · intro hf e he
          rw [hstep]
          rcases mem_setPhase _ _ _ e he with ⟨h1, _⟩ | ⟨_, h2⟩
          · rw [h1]; exact hi.flagCon hf _ hmem
          · exact hi.flagCon hf e h2
        · intro e he hq
          rw [hstep]
          rcases mem_setPhase _ _ _ e he with ⟨_, h1⟩ | ⟨_, h2⟩
          · rw [h1] at hq; simp at hq
          · exact hi.relCon e h2 hq
        · intro e he si hq
          rcases mem_setPhase _ _ _ e he with ⟨_, h1⟩ | ⟨h1, h2⟩
          · rw [h1] at hq; simp at hq
          · rw [hso _ h1]; exact hi.since e h2 si hq
        · intro n' r t' hm
          simp only [List.mem_singleton, Tok.res.injEq] at hm
          obtain ⟨rfl, rfl, rfl⟩ := hm
          rw [seen_snoc]; simp [seenStep]
        · simp
      · split at h
        · -- ready
          rename_i hok hfl
          simp only [Option.some.injEq] at h; subst h
          have hokt : ok = true := by simpa using hok
          refine ⟨?_, ?_, ?_, ?_, ?_, ?_⟩
          · intro e he
            rcases mem_setPhase _ _ _ e he with ⟨h1, _⟩ | ⟨_, h2⟩
            · rw [h1]; exact hi.lt _ hmem
            · exact hi.lt e h2
          · intro hf e he
            rw [hstep]
            rcases mem_setPhase _ _ _ e he with ⟨h1, _⟩ | ⟨_, h2⟩
            · rw [h1]; exact hi.flagCon hf _ hmem
            · exact hi.flagCon hf e h2
          · intro e he hq
            rw [hstep]
            rcases mem_setPhase _ _ _ e he with ⟨h1, _⟩ | ⟨_, h2⟩
            · rw [h1]; exact hi.flagCon hfl _ hmem
            · exact hi.relCon e h2 hq
          · intro e he si hq
            rcases mem_setPhase _ _ _ e he with ⟨h0, h1⟩ | ⟨h1, h2⟩
            · rw [h1] at hq
              have hsi : t = si := by
                rcases hq with hq | ⟨w, hq⟩
                · simpa using hq
                · simp at hq
              rw [h0, seen_snoc, ← hsi]; simp [seenStep, hokt]
            · rw [hso _ h1]; exact hi.since e h2 si hq
          · intro n' r t' hm
            simp only [List.mem_singleton, Tok.res.injEq] at hm
            obtain ⟨rfl, rfl, rfl⟩ := hm
            rw [seen_snoc]; simp [seenStep, hokt]
          · simp
        · -- waiting
          rename_i hok hfl
          simp only [Option.some.injEq] at h; subst h
          have hokt : ok = true := by simpa using hok
          refine ⟨?_, ?_, ?_, ?_, ?_, ?_⟩
          · intro e he
            rcases mem_setPhase _ _ _ e he with ⟨h1, _⟩ | ⟨_, h2⟩
            · rw [h1]; exact hi.lt _ hmem
            · exact hi.lt e h2
          · intro hf; exact absurd hf (by simpa [setPhase] using hfl)
          · intro e he hq
            rw [hstep]
            rcases mem_setPhase _ _ _ e he with ⟨_, h1⟩ | ⟨_, h2⟩
            · rw [h1] at hq; simp at hq
            · exact hi.relCon e h2 hq
          · intro e he si hq
            rcases mem_setPhase _ _ _ e he with ⟨h0, h1⟩ | ⟨h1, h2⟩
            · rw [h1] at hq
              have hsi : t = si := by
                rcases hq with hq | ⟨w, hq⟩
                · simp at hq
                · simp only [Phase.waiting.injEq] at hq; exact hq.1
              rw [h0, seen_snoc, ← hsi]; simp [seenStep, hokt]
            · rw [hso _ h1]; exact hi.since e h2 si hq
          · intro n' r t' hm; simp [setPhase, hp] at hm
          · simp [setPhase, hp]
    · simp at h
  | res n r t =>
    have hs : ∀ m, seen m (pre ++ [Tok.res n r t]) = seen m pre := by
      intro m; rw [seen_snoc]; rfl
    have key : s' = setPhase s n .done := by
      simp only [act] at h
      split at h <;> (try split at h) <;> simp at h <;> exact h.symm
    subst key
    refine ⟨?_, ?_, ?_, ?_, ?_, ?_⟩
    · intro e he
      rcases mem_setPhase _ _ _ e he with ⟨h1, _⟩ | ⟨_, h2⟩
      · -- n is a sender
        have : ∃ p, phaseOf s n = some p := by
          simp only [act] at h
          split at h <;> simp_all
        obtain ⟨p, hp'⟩ := this
        rw [h1]; exact hi.lt _ (mem_of_phaseOf s n p hp')
      · exact hi.lt e h2
    · intro hf e he
      rw [hs]
      rcases mem_setPhase _ _ _ e he with ⟨h1, _⟩ | ⟨_, h2⟩
      · have : ∃ p, phaseOf s n = some p := by
          simp only [act] at h
          split at h <;> simp_all
        obtain ⟨p, hp'⟩ := this
        rw [h1]; exact hi.flagCon hf _ (mem_of_phaseOf s n p hp')
      · exact hi.flagCon hf e h2
    · intro e he hq
      rw [hs]
      rcases mem_setPhase _ _ _ e he with ⟨_, h1⟩ | ⟨_, h2⟩
      · rw [h1] at hq; simp at hq
      · exact hi.relCon e h2 hq
    · intro e he si hq
      rw [hs]
      rcases mem_setPhase _ _ _ e he with ⟨_, h1⟩ | ⟨_, h2⟩
      · rw [h1] at hq; simp at hq
      · exact hi.since e h2 si hq
    · intro n' r' t' hm; simp [setPhase, hp] at hm
    · simp [setPhase, hp]
  | rx code grp zero own tpdu0 pay t =>
    simp only [act] at h
    split at h
    · rename_i hc
      simp only [Option.some.injEq] at h; subst h
      have hcon : ∀ m, (seen m (pre ++ [Tok.rx code grp zero own tpdu0 pay t])).con = true := by
        intro m; rw [seen_snoc]; simp [seenStep, isCon, hc]
      have hso : ∀ m, (seen m (pre ++ [Tok.rx code grp zero own tpdu0 pay t])).sentOk = (seen m pre).sentOk := by
        intro m; rw [seen_snoc]; simp only [seenStep]; split <;> rfl
      refine ⟨?_, fun _ e _ => hcon _, fun e _ _ => hcon _, ?_, ?_, ?_⟩
      · intro e he
        simp only [List.mem_map] at he
        obtain ⟨x, hx, rfl⟩ := he
        have : (wake t x).1 = x.1 := by unfold wake; split <;> rfl
        rw [this]; exact hi.lt x hx
      · intro e he si hq
        simp only [List.mem_map] at he
        obtain ⟨x, hx, rfl⟩ := he
        rw [hso]
        have hk : (wake t x).1 = x.1 := by unfold wake; split <;> rfl
        rw [hk]
        apply hi.since x hx si
        unfold wake at hq
        split at hq
        · rename_i si' hx2
          rcases hq with hq | ⟨w, hq⟩
          · simp at hq
          · simp only [Phase.waiting.injEq] at hq
            exact .inr ⟨none, by rw [hx2, hq.1]⟩
        · exact hq
      · intro n' r t' hm; simp [hp] at hm
      · simp [hp]
    · rename_i hc
      simp only [Option.some.injEq] at h; subst h
      have hs : ∀ m, seen m (pre ++ [Tok.rx code grp zero own tpdu0 pay t]) = seen m pre := by
        intro m; rw [seen_snoc]; simp only [seenStep, isCon]
        have : (route code grp zero own tpdu0 pay == Route.con) = false := by simpa using hc
        simp [this]
      refine ⟨hi.lt, ?_, ?_, ?_, ?_, ?_⟩
      · intro hf e he; rw [hs]; exact hi.flagCon hf e he
      · intro e he hq; rw [hs]; exact hi.relCon e he hq
      · intro e he si hq; rw [hs]; exact hi.since e he si hq
      · intro n' r t' hm
        simp only at hm
        cases hr : route code grp zero own tpdu0 pay <;> simp [hr, routeOuts] at hm
      · simp only
        cases route code grp zero own tpdu0 pay <;> simp [routeOuts]
  | out o => simp [act] at h
  | fin p =>
    simp only [act] at h
    split at h
    · simp only [Option.some.injEq] at h; subst h
      have hs : ∀ m, seen m (pre ++ [Tok.fin p]) = seen m pre := by
        intro m; rw [seen_snoc]; rfl
      exact ⟨hi.lt, fun hf e he => by rw [hs]; exact hi.flagCon hf e he,
        fun e he hq => by rw [hs]; exact hi.relCon e he hq,
        fun e he si hq => by rw [hs]; exact hi.since e he si hq,
        fun n r t hm => by simp [hp] at hm, by simp [hp]⟩
    · simp at h

theorem inv_step (s : S) (pre : List Tok) (o : Tok) (s' : S) (hi : Inv s pre) (h : step? s o = some s') :
    Inv s' (pre ++ [o]) := by
  unfold step? at h
  split at h
  · rename_i p ps hpe
    have hps : ps = [] := by
      have := hi.pendLen; rw [hpe] at this
      cases ps with
      | nil => rfl
      | cons a b => simp at this
    subst hps
    split at h
    · have h0 : Inv { s with pend := [] } pre :=
        ⟨hi.lt, hi.flagCon, hi.relCon, hi.since, fun n r t hm => by simp at hm, by simp⟩
      split at h
      · simp only [Option.some.injEq] at h; subst h
        rename_i x _
        have hs : ∀ m, seen m (pre ++ [Tok.out x]) = seen m pre := by
          intro m; rw [seen_snoc]; rfl
        exact ⟨hi.lt, fun hf e he => by rw [hs]; exact hi.flagCon hf e he,
          fun e he hq => by rw [hs]; exact hi.relCon e he hq,
          fun e he si hq => by rw [hs]; exact hi.since e he si hq,
          fun n r t hm => by simp at hm, by simp⟩
      · exact inv_act _ pre o s' rfl h0 h
    · simp at h
  · rename_i hpe
    exact inv_act s pre o s' hpe hi h

theorem inv_init (T : Nat) : Inv { timeout := T } [] :=
  ⟨fun e he => by simp at he, fun hf => by simp at hf, fun e he => by simp at he, fun e he => by simp at he,
   fun n r t hm => by simp at hm, by simp⟩

/-- The invariant holds after every accepted trace. -/
theorem inv_run (T : Nat) (tr : List Tok) (s : S) (h : run? { timeout := T } tr = some s) : Inv s tr := by
  have := inv_run?_fold (fun (a : List Tok) o => a ++ [o]) Inv
    (fun s a o s' hi hs => inv_step s a o s' hi hs) tr { timeout := T } s [] (inv_init T) h
  have hf : ∀ (l a : List Tok), l.foldl (fun (a : List Tok) o => a ++ [o]) a = a ++ l := by
    intro l
    induction l with
    | nil => intro a; simp
    | cons x xs ih => intro a; simp [ih]
  rw [hf] at this
  simpa using this

theorem act_timeout (s : S) (o : Tok) (s' : S) (h : act s o = some s') : s'.timeout = s.timeout := by
  cases o <;> simp only [act] at h <;> (repeat' split at h) <;>
    simp only [Option.some.injEq, reduceCtorEq] at h <;> (try subst h) <;> simp_all [setPhase]

theorem step?_timeout (s : S) (o : Tok) (s' : S) (h : step? s o = some s') : s'.timeout = s.timeout := by
  unfold step? at h
  split at h
  · rename_i p ps _
    split at h
    · split at h
      · simp only [Option.some.injEq] at h; subst h; rfl
      · exact act_timeout { s with pend := ps } o s' h
    · simp at h
  · exact act_timeout s o s' h

theorem timeout_run (T : Nat) (tr : List Tok) (s : S) (h : run? { timeout := T } tr = some s) : s.timeout = T :=
  inv_run?_fold (fun (_ : Unit) _ => ()) (fun s _ => s.timeout = T)
    (fun s _ o s' hi hs => (step?_timeout s o s' hs).trans hi) tr { timeout := T } s () rfl h

/-- A result token is always processed by `act` (on the state with the prediction popped). -/
theorem step?_res (s : S) (n : Nat) (r : Res) (t : Nat) (s' : S) (h : step? s (.res n r t) = some s') :
    ∃ ps, act { s with pend := ps } (.res n r t) = some s' := by
  unfold step? at h
  split at h
  · rename_i p ps _
    split at h
    · exact ⟨ps, h⟩
    · simp at h
  · rename_i hpe
    refine ⟨[], ?_⟩
    have : { s with pend := [] } = s := by cases s; simp_all
    rw [this]; exact h

theorem res_ok_phase (s : S) (n t : Nat) (s' : S) (h : step? s (.res n .ok t) = some s') :
    (n, Phase.ready t) ∈ s.senders ∨
    ∃ si w, (n, Phase.waiting si (some w)) ∈ s.senders ∧ w ≤ t ∧ t ≤ si + s.timeout := by
  obtain ⟨ps, ha⟩ := step?_res s n .ok t s' h
  simp only [act] at ha
  split at ha
  · rename_i tm hph _
    split at ha
    · rename_i htt
      have : t = tm := by simpa using htt
      subst this
      exact .inl (mem_of_phaseOf _ n _ hph)
    · simp at ha
  · rename_i heq; simp at heq
  · rename_i si w hph _
    split at ha
    · rename_i hb
      simp only [Bool.and_eq_true, decide_eq_true_eq] at hb
      exact .inr ⟨si, w, mem_of_phaseOf _ n _ hph, hb.1, hb.2⟩
    · simp at ha
  · rename_i heq; simp at heq
  · simp at ha

theorem res_conf_phase (s : S) (n t : Nat) (s' : S) (h : step? s (.res n .conf t) = some s') :
    ∃ si w, (n, Phase.waiting si w) ∈ s.senders ∧ t = si + s.timeout := by
  obtain ⟨ps, ha⟩ := step?_res s n .conf t s' h
  simp only [act] at ha
  split at ha
  · rename_i heq; simp at heq
  · rename_i heq; simp at heq
  · rename_i heq; simp at heq
  · rename_i si w hph _
    split at ha
    · rename_i hb
      simp only [Bool.and_eq_true, beq_iff_eq] at hb
      exact ⟨si, w, mem_of_phaseOf _ n _ hph, hb.1⟩
    · simp at ha
  · simp at ha

end XknxVerif.CEMIHandler
