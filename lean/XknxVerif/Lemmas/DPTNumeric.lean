/-
C09 for the integer families: every in-range value is accepted, encodes to a payload of the declared kind and
length and decodes to within one resolution step; every out-of-range value is refused with a conversion error.
Exact integer arithmetic (omega); floats enter these encoders only through `int(value)`.
-/
import XknxVerif.Lemmas.DPTRoundTrip

namespace XknxVerif.DPT
open XknxVerif.SF

theorem toBE_props (sz n : Nat) (hn : n < 256 ^ sz) :
    (toBE sz n).length = sz ∧ fromBE (toBE sz n) = n ∧ Bytes.WF (toBE sz n) :=
  ⟨Bytes.ofNatBE_length sz n, Bytes.toNatBE_ofNatBE sz n hn, Bytes.ofNatBE_wf sz n⟩

/-- unsigned formats -/
theorem unpack_pack_u (sz : Nat) (N : Nat) (hN : 256 ^ sz = N) (i : Int) (h0 : 0 ≤ i) (h1 : i < (N : Int)) :
    (toBE sz i.toNat).length = sz ∧ Bytes.WF (toBE sz i.toNat) ∧ ((fromBE (toBE sz i.toNat) : Nat) : Int) = i := by
  obtain ⟨a, b, c⟩ := toBE_props sz i.toNat (by rw [hN]; omega)
  exact ⟨a, c, by rw [b]; omega⟩

/-- signed formats: `N = 2^(8 sz)`, `H = N / 2` -/
theorem unpack_pack_s (sz : Nat) (N H : Nat) (hN : 256 ^ sz = N) (hH : N = 2 * H) (i : Int)
    (h0 : -(H : Int) ≤ i) (h1 : i < (H : Int)) :
    let n := if i < 0 then (i + (N : Int)).toNat else i.toNat
    (toBE sz n).length = sz ∧ Bytes.WF (toBE sz n) ∧
      (if fromBE (toBE sz n) ≥ H then ((fromBE (toBE sz n) : Nat) : Int) - (N : Int) else ((fromBE (toBE sz n) : Nat) : Int)) = i := by
  intro n
  have hn : n < 256 ^ sz := by rw [hN]; simp only [n]; split <;> omega
  obtain ⟨a, b, c⟩ := toBE_props sz n hn
  refine ⟨a, c, ?_⟩
  rw [b]
  simp only [n]
  split <;> split <;> omega

theorem structUnpack_pack {fmt : String} {raw : List Nat} {i : Int} {sz : Nat} {sg : Bool}
    (hf : fmtInfo fmt = some (sz, sg)) (h : structPack fmt i = some raw) :
    structUnpack fmt raw = some i ∧ raw.length = sz ∧ Bytes.WF raw := by
  unfold structPack at h
  unfold structUnpack
  simp only [hf] at h ⊢
  have hsz := fmtInfo_sizes hf
  rcases hsz with rfl | rfl | rfl | rfl <;> cases sg <;>
    simp only [Bool.false_eq_true, if_false, if_true, Bool.false_and, Bool.true_and, Nat.reducePow, Nat.reduceMul,
      Nat.reduceSub] at h ⊢
  all_goals
    first
    | (by_cases hr : 0 ≤ i ∧ i < ((256 : Nat) : Int)
       · rw [if_pos hr] at h; injection h with h; subst h
         obtain ⟨a, c, d⟩ := unpack_pack_u 1 256 (by decide) i hr.1 hr.2
         simp only [a, bne_self_eq_false, Bool.false_eq_true, if_false]
         exact ⟨by rw [d], trivial, c⟩
       · rw [if_neg hr] at h; cases h)
    | (by_cases hr : -((128 : Nat) : Int) ≤ i ∧ i < ((128 : Nat) : Int)
       · rw [if_pos hr] at h; injection h with h; subst h
         obtain ⟨a, c, d⟩ := unpack_pack_s 1 256 128 (by decide) (by decide) i hr.1 hr.2
         simp only [a, bne_self_eq_false, Bool.false_eq_true, if_false, decide_eq_true_eq]
         refine ⟨?_, trivial, c⟩
         split at d <;> rename_i hge <;> simp only [hge, if_true, if_false] <;> split at d <;> rename_i h2 <;> simp only [h2, if_true, if_false] <;> rw [d]
       · rw [if_neg hr] at h; cases h)
    | (by_cases hr : 0 ≤ i ∧ i < ((65536 : Nat) : Int)
       · rw [if_pos hr] at h; injection h with h; subst h
         obtain ⟨a, c, d⟩ := unpack_pack_u 2 65536 (by decide) i hr.1 hr.2
         simp only [a, bne_self_eq_false, Bool.false_eq_true, if_false]
         exact ⟨by rw [d], trivial, c⟩
       · rw [if_neg hr] at h; cases h)
    | (by_cases hr : -((32768 : Nat) : Int) ≤ i ∧ i < ((32768 : Nat) : Int)
       · rw [if_pos hr] at h; injection h with h; subst h
         obtain ⟨a, c, d⟩ := unpack_pack_s 2 65536 32768 (by decide) (by decide) i hr.1 hr.2
         simp only [a, bne_self_eq_false, Bool.false_eq_true, if_false, decide_eq_true_eq]
         refine ⟨?_, trivial, c⟩
         split at d <;> rename_i hge <;> simp only [hge, if_true, if_false] <;> split at d <;> rename_i h2 <;> simp only [h2, if_true, if_false] <;> rw [d]
       · rw [if_neg hr] at h; cases h)
    | (by_cases hr : 0 ≤ i ∧ i < ((4294967296 : Nat) : Int)
       · rw [if_pos hr] at h; injection h with h; subst h
         obtain ⟨a, c, d⟩ := unpack_pack_u 4 4294967296 (by decide) i hr.1 hr.2
         simp only [a, bne_self_eq_false, Bool.false_eq_true, if_false]
         exact ⟨by rw [d], trivial, c⟩
       · rw [if_neg hr] at h; cases h)
    | (by_cases hr : -((2147483648 : Nat) : Int) ≤ i ∧ i < ((2147483648 : Nat) : Int)
       · rw [if_pos hr] at h; injection h with h; subst h
         obtain ⟨a, c, d⟩ := unpack_pack_s 4 4294967296 2147483648 (by decide) (by decide) i hr.1 hr.2
         simp only [a, bne_self_eq_false, Bool.false_eq_true, if_false, decide_eq_true_eq]
         refine ⟨?_, trivial, c⟩
         split at d <;> rename_i hge <;> simp only [hge, if_true, if_false] <;> split at d <;> rename_i h2 <;> simp only [h2, if_true, if_false] <;> rw [d]
       · rw [if_neg hr] at h; cases h)
    | (by_cases hr : 0 ≤ i ∧ i < ((18446744073709551616 : Nat) : Int)
       · rw [if_pos hr] at h; injection h with h; subst h
         obtain ⟨a, c, d⟩ := unpack_pack_u 8 18446744073709551616 (by decide) i hr.1 hr.2
         simp only [a, bne_self_eq_false, Bool.false_eq_true, if_false]
         exact ⟨by rw [d], trivial, c⟩
       · rw [if_neg hr] at h; cases h)
    | (by_cases hr : -((9223372036854775808 : Nat) : Int) ≤ i ∧ i < ((9223372036854775808 : Nat) : Int)
       · rw [if_pos hr] at h; injection h with h; subst h
         obtain ⟨a, c, d⟩ := unpack_pack_s 8 18446744073709551616 9223372036854775808 (by decide) (by decide) i hr.1 hr.2
         simp only [a, bne_self_eq_false, Bool.false_eq_true, if_false, decide_eq_true_eq]
         refine ⟨?_, trivial, c⟩
         split at d <;> rename_i hge <;> simp only [hge, if_true, if_false] <;> split at d <;> rename_i h2 <;> simp only [h2, if_true, if_false] <;> rw [d]
       · rw [if_neg hr] at h; cases h)

/-! ### DPTStructIntMixin -/

/-- declared range = range of the struct format -/
def wfStructIntEq (r : Row) : Bool :=
  r.kind == .array &&
  match fmtInfo r.fmt, r.vmin, r.vmax with
  | some (sz, sg), .int lo, .int hi =>
    r.length == sz
      && lo == (if sg then -((2 ^ (8 * sz - 1) : Nat) : Int) else 0)
      && hi == (if sg then ((2 ^ (8 * sz - 1) : Nat) : Int) - 1 else ((2 ^ (8 * sz) : Nat) : Int) - 1)
  | _, _, _ => false

/-- C09 for one int `v` and one row: in range ⇒ accepted, right shape, decodes to `v` exactly;
out of range ⇒ ConversionError. -/
def EncSpecInt (ctx : Ctx) (r : Row) (lo hi : Int) (v : Int) (dec : Int → Int) : Prop :=
  (lo ≤ v ∧ v ≤ hi →
    ∃ raw, encodeNum r (.int v) = .ok (.array raw) ∧ raw.length = r.length ∧ Bytes.WF raw ∧
      decode ctx r (.array raw) = .ok (.atom (.int (dec v)))) ∧
  (¬(lo ≤ v ∧ v ≤ hi) → encodeNum r (.int v) = .error .conv)

theorem structint_enc (ctx : Ctx) (r : Row) (hf : r.family = .structint) (hwf : wfStructIntEq r = true) (v : Int) :
    ∃ lo hi, r.vmin = .int lo ∧ r.vmax = .int hi ∧ EncSpecInt ctx r lo hi v id := by
  unfold wfStructIntEq at hwf
  simp only [Bool.and_eq_true, beq_iff_eq] at hwf
  obtain ⟨hk, hrest⟩ := hwf
  cases hfi : fmtInfo r.fmt with
  | none => simp [hfi] at hrest
  | some pr =>
    obtain ⟨sz, sg⟩ := pr
    cases hlo : r.vmin with
    | flt _ => simp [hfi, hlo] at hrest
    | int lo =>
      cases hhi : r.vmax with
      | flt _ => simp [hfi, hlo, hhi] at hrest
      | int hi =>
        simp only [hfi, hlo, hhi, Bool.and_eq_true, beq_iff_eq] at hrest
        obtain ⟨⟨hlen, h1⟩, h2⟩ := hrest
        refine ⟨lo, hi, rfl, rfl, ?_, ?_⟩
        · intro hin
          have hpk : ∃ raw, structPack r.fmt v = some raw := by
            unfold structPack
            simp only [hfi]
            cases sg <;> simp only [Bool.false_eq_true, if_false, if_true] at h1 h2 ⊢
            · rw [if_pos (by omega)]; exact ⟨_, rfl⟩
            · rw [if_pos (by omega)]; exact ⟨_, rfl⟩
          obtain ⟨raw, hraw⟩ := hpk
          obtain ⟨hu, hl, hw⟩ := structUnpack_pack hfi hraw
          refine ⟨raw, ?_, by omega, hw, ?_⟩
          · simp only [encodeNum, hf, encStructInt, pyInt, bind, Except.bind, pure, Except.pure,
              inRange, inRange', hlo, hhi, PyNum.le]
            have : (decide (lo ≤ v) && decide (v ≤ hi)) = true := by
              simp only [Bool.and_eq_true, decide_eq_true_eq]; exact hin
            simp [this, hraw]
          · rw [decode_array_of_raw hk (by omega)]
            simp [decodeRaw, hf, decStructInt, hu]
        · intro hout
          simp only [encodeNum, hf, encStructInt, pyInt, bind, Except.bind, pure, Except.pure,
            inRange, inRange', hlo, hhi, PyNum.le]
          have : (decide (lo ≤ v) && decide (v ≤ hi)) = false := by
            simp only [Bool.and_eq_false_iff, decide_eq_false_iff_not]; omega
          simp [this]

/-! ### floats reach the integer encoders through `int(value)` -/

theorem encodeNum_flt_int (r : Row) (f : F)
    (hf : r.family = .structint ∨ r.family = .u8 ∨ r.family = .s8 ∨ r.family = .u16 ∨ r.family = .scenenum) :
    encodeNum r (.flt f) =
      match f.toIntTrunc with
      | .ok k => encodeNum r (.int k)
      | .error _ => .error .conv := by
  rcases hf with h | h | h | h | h <;>
    simp only [encodeNum, h, encStructInt, encU8, encS8, encU16, encSceneNum, pyInt, bind, Except.bind] <;>
    cases f.toIntTrunc <;> rfl

/-! ### DPT 7 -/

theorem u16_enc (ctx : Ctx) (r : Row) (hf : r.family = .u16) (hwf : wfU16 r = true) (v : Int) :
    ∃ k, r.res = .int k ∧ 0 < k ∧ r.vmin = .int 0 ∧ r.vmax = .int (65535 * k) ∧
      EncSpecInt ctx r 0 (65535 * k) v (fun v => v.fdiv k * k) ∧
      (0 ≤ v → 0 ≤ v - v.fdiv k * k ∧ v - v.fdiv k * k < k) := by
  unfold wfU16 at hwf
  simp only [Bool.and_eq_true, beq_iff_eq] at hwf
  obtain ⟨⟨hk, hlen⟩, hrest⟩ := hwf
  cases hres : r.res with
  | flt _ => simp [hres] at hrest
  | int k =>
    cases hlo : r.vmin with
    | flt _ => simp [hres, hlo] at hrest
    | int lo =>
      cases hhi : r.vmax with
      | flt _ => simp [hres, hlo, hhi] at hrest
      | int hi =>
        simp only [hres, hlo, hhi, Bool.and_eq_true, beq_iff_eq, decide_eq_true_eq] at hrest
        obtain ⟨⟨hk0, hlo0⟩, hhi0⟩ := hrest
        subst hlo0 hhi0
        have hfd : ∀ v : Int, v.fdiv k = v / k := fun v => Int.fdiv_eq_ediv_of_nonneg v (by omega)
        refine ⟨k, rfl, hk0, rfl, rfl, ⟨?_, ?_⟩, ?_⟩
        · intro hin
          have hq0 : 0 ≤ v / k := Int.ediv_nonneg hin.1 (by omega)
          have hq1 : v / k ≤ 65535 := by
            have : v / k < 65536 := Int.ediv_lt_of_lt_mul hk0 (by omega)
            omega
          let q := (v / k).toNat
          have hq : ((q : Nat) : Int) = v / k := by simp only [q]; omega
          have hqn : q ≤ 65535 := by omega
          refine ⟨[q >>> 8, q % 256], ?_, by simp [hlen], ?_, ?_⟩
          · simp only [encodeNum, hf, encU16, pyInt, bind, Except.bind, pure, Except.pure,
              inRange, inRange', hlo, hhi, hres, PyNum.le]
            have : (decide ((0 : Int) ≤ v) && decide (v ≤ 65535 * k)) = true := by
              simp only [Bool.and_eq_true, decide_eq_true_eq]; exact hin
            have hk' : (k == 0) = false := by simp; omega
            simp only [this, hk', hfd v, Bool.not_true, Bool.false_eq_true, if_false]
            have h3 : ¬ (v / k < 0) := by omega
            simp only [h3, if_false]
            rfl
          · intro x hx
            simp only [List.mem_cons, List.mem_singleton, List.not_mem_nil, or_false] at hx
            rcases hx with rfl | rfl
            · rw [Nat.shiftRight_eq_div_pow]; omega
            · omega
          · rw [decode_array_of_raw hk (by simp [hlen])]
            simp only [decodeRaw, hf, decU16, hres]
            have h4 : (q >>> 8) * 256 + q % 256 = q := by rw [Nat.shiftRight_eq_div_pow]; omega
            rw [h4, hq, hfd v]
        · intro hout
          simp only [encodeNum, hf, encU16, pyInt, bind, Except.bind, pure, Except.pure,
            inRange, inRange', hlo, hhi, hres, PyNum.le]
          have : (decide ((0 : Int) ≤ v) && decide (v ≤ 65535 * k)) = false := by
            simp only [Bool.and_eq_false_iff, decide_eq_false_iff_not]; omega
          simp [this]
        · intro hv
          rw [hfd v]
          have := Int.emod_nonneg v (show k ≠ 0 by omega)
          have h5 := Int.emod_lt_of_pos v hk0
          have h6 := Int.emod_add_mul_ediv v k
          have h7 : v / k * k = k * (v / k) := Int.mul_comm _ _
          constructor <;> omega

/-! ### one-octet integer types: DPT 5 (unsigned), DPT 6 (signed), DPT 17 (scene number) -/

def wfOctet (r : Row) (lo0 hi0 : Int) : Bool :=
  r.kind == .array && r.length == 1 &&
  match r.vmin, r.vmax with
  | .int lo, .int hi => decide (lo0 ≤ lo) && decide (hi ≤ hi0)
  | _, _ => false

theorem wfOctet_spec {r : Row} {lo0 hi0 : Int} (h : wfOctet r lo0 hi0 = true) :
    r.kind = .array ∧ r.length = 1 ∧ ∃ lo hi, r.vmin = .int lo ∧ r.vmax = .int hi ∧ lo0 ≤ lo ∧ hi ≤ hi0 := by
  unfold wfOctet at h
  simp only [Bool.and_eq_true, beq_iff_eq] at h
  obtain ⟨⟨hk, hl⟩, hr⟩ := h
  cases hlo : r.vmin with
  | flt _ => simp [hlo] at hr
  | int lo =>
    cases hhi : r.vmax with
    | flt _ => simp [hlo, hhi] at hr
    | int hi =>
      simp only [hlo, hhi, Bool.and_eq_true, decide_eq_true_eq] at hr
      exact ⟨hk, hl, lo, hi, rfl, rfl, hr.1, hr.2⟩

theorem inRange_int {r : Row} {lo hi : Int} (hlo : r.vmin = .int lo) (hhi : r.vmax = .int hi) (v : Int) :
    inRange r (.int v) = (decide (lo ≤ v) && decide (v ≤ hi)) := by
  simp [inRange, inRange', hlo, hhi, PyNum.le]

theorem u8_enc (ctx : Ctx) (r : Row) (hf : r.family = .u8) (hwf : wfOctet r 0 255 = true) (v : Int) :
    ∃ lo hi, r.vmin = .int lo ∧ r.vmax = .int hi ∧ EncSpecInt ctx r lo hi v id := by
  obtain ⟨hk, hl, lo, hi, hlo, hhi, h0, h1⟩ := wfOctet_spec hwf
  refine ⟨lo, hi, hlo, hhi, ?_, ?_⟩
  · intro hin
    have hir : inRange r (.int v) = true := by rw [inRange_int hlo hhi]; simp; exact hin
    refine ⟨[v.toNat], ?_, by simp [hl], ?_, ?_⟩
    · simp [encodeNum, hf, encU8, pyInt, bind, Except.bind, pure, Except.pure, hir]
    · intro x hx; simp at hx; omega
    · rw [decode_array_of_raw hk (by simp [hl])]
      have hv : ((v.toNat : Nat) : Int) = v := by omega
      simp only [decodeRaw, hf, decU8, hv, hir, if_true, id]
  · intro hout
    have hir : inRange r (.int v) = false := by
      rw [inRange_int hlo hhi]; simp only [Bool.and_eq_false_iff, decide_eq_false_iff_not]; omega
    simp [encodeNum, hf, encU8, pyInt, bind, Except.bind, hir]

theorem scenenum_enc (ctx : Ctx) (r : Row) (hf : r.family = .scenenum) (hwf : wfOctet r 1 256 = true) (v : Int) :
    ∃ lo hi, r.vmin = .int lo ∧ r.vmax = .int hi ∧ EncSpecInt ctx r lo hi v id := by
  obtain ⟨hk, hl, lo, hi, hlo, hhi, h0, h1⟩ := wfOctet_spec hwf
  refine ⟨lo, hi, hlo, hhi, ?_, ?_⟩
  · intro hin
    have hir : inRange r (.int v) = true := by rw [inRange_int hlo hhi]; simp; exact hin
    refine ⟨[(v - 1).toNat], ?_, by simp [hl], ?_, ?_⟩
    · have : ¬ (v - 1 < 0) := by omega
      simp [encodeNum, hf, encSceneNum, pyInt, bind, Except.bind, pure, Except.pure, hir, this]
    · intro x hx; simp at hx; omega
    · rw [decode_array_of_raw hk (by simp [hl])]
      have hv : (((v - 1).toNat : Nat) : Int) + 1 = v := by omega
      simp only [decodeRaw, hf, decSceneNum, Int.natCast_add, Int.cast_ofNat_Int, Int.natCast_one, hv, hir, if_true, id]
  · intro hout
    have hir : inRange r (.int v) = false := by
      rw [inRange_int hlo hhi]; simp only [Bool.and_eq_false_iff, decide_eq_false_iff_not]; omega
    simp [encodeNum, hf, encSceneNum, pyInt, bind, Except.bind, hir]

/-- DPT 6: declared range is exactly the two's complement range -/
def wfS8 (r : Row) : Bool :=
  r.kind == .array && r.length == 1 && r.vmin == .int (-128) && r.vmax == .int 127

theorem s8_enc (ctx : Ctx) (r : Row) (hf : r.family = .s8) (hwf : wfS8 r = true) (v : Int) :
    EncSpecInt ctx r (-128) 127 v id := by
  unfold wfS8 at hwf
  simp only [Bool.and_eq_true, beq_iff_eq] at hwf
  obtain ⟨⟨⟨hk, hl⟩, hlo⟩, hhi⟩ := hwf
  refine ⟨?_, ?_⟩
  · intro hin
    have hir : inRange r (.int v) = true := by rw [inRange_int hlo hhi]; simp; exact hin
    refine ⟨[((if v < 0 then v + 256 else v) % 256).toNat], ?_, by simp [hl], ?_, ?_⟩
    · simp [encodeNum, hf, encS8, pyInt, bind, Except.bind, pure, Except.pure, hir]
    · intro x hx; simp at hx; subst hx; split <;> omega
    · rw [decode_array_of_raw hk (by simp [hl])]
      simp only [decodeRaw, hf, decS8, hhi, PyNum.le]
      by_cases hneg : v < 0
      · have h1 : (((v + 256) % 256).toNat : Int) = v + 256 := by omega
        simp only [hneg, if_true, h1, id]
        rw [if_pos (by simp; omega)]
        congr 3; omega
      · have h1 : ((v % 256).toNat : Int) = v := by omega
        simp only [hneg, if_false, h1, id]
        rw [if_neg (by simp; omega)]
  · intro hout
    have hir : inRange r (.int v) = false := by
      rw [inRange_int hlo hhi]; simp only [Bool.and_eq_false_iff, decide_eq_false_iff_not]; omega
    simp [encodeNum, hf, encS8, pyInt, bind, Except.bind, hir]

end XknxVerif.DPT
