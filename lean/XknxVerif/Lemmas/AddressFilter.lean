/-
Helper lemmas for C02: the filter parser on rendered grammar patterns, level by
level, and the glob matcher against its inductive specification.
-/
import XknxVerif.Model.AddressFilter
import XknxVerif.Lemmas.Address

namespace XknxVerif.AddressFilter
open XknxVerif.Py XknxVerif.Py.Str XknxVerif.Address
open XknxVerif.Generated.AddressConst XknxVerif.Generated.Unicode

theorem maxValue_eq : maxValue = 65535 := rfl

/-! ### mapE -/

theorem mapE_map_ok {α β γ ε : Type} (f : α → Except ε β) (g : γ → α) (h : γ → β) (l : List γ)
    (hl : ∀ x ∈ l, f (g x) = .ok (h x)) : mapE f (l.map g) = .ok (l.map h) := by
  induction l with
  | nil => rfl
  | cons a as ih =>
    simp only [List.map_cons, mapE, hl a List.mem_cons_self,
      ih (fun x hx => hl x (List.mem_cons_of_mem _ hx))]

/-! ### one value -/

/-- the interval of a value as the code stores it -/
def boundsInt (r : RangeP) : Int × Int := ((r.bounds.1 : Nat), (r.bounds.2 : Nat))

theorem intOrValue_dec (n : Nat) (h : n ≤ 65535) : intOrValue (dec n) = .ok (n : Int) := by
  unfold intOrValue
  rw [pyInt_dec n (Nat.le_trans (dec_length_le 5 n (by omega) (by omega)) limit_ok)]

theorem dec_isEmpty (n : Nat) : (dec n).isEmpty = false := by
  cases h : dec n with
  | nil => exact absurd h (dec_ne_nil n)
  | cons => rfl

theorem adjust_nat (n : Nat) (h : n ≤ 65535) : adjust (n : Int) = (n : Int) := by
  unfold adjust gaMaxFree
  rw [if_neg (by omega), if_neg (by omega)]

theorem normalize_nat (a b : Nat) (ha : a ≤ 65535) (hb : b ≤ 65535) :
    normalize ((a : Int), (b : Int)) = (((min a b : Nat) : Int), ((max a b : Nat) : Int)) := by
  unfold normalize
  simp only [adjust_nat a ha, adjust_nat b hb]
  split
  · rename_i h
    have : b < a := by omega
    rw [Nat.min_eq_right (by omega), Nat.max_eq_left (by omega)]
  · rename_i h
    have : a ≤ b := by omega
    rw [Nat.min_eq_left this, Nat.max_eq_right this]

theorem ne_star_of_mem {p : Str} {c : Nat} (hc : c ∈ p) (h42 : c ≠ 42) : (p == [42]) = false := by
  apply beq_eq_false_iff_ne.mpr
  intro h
  subst h
  simp at hc
  exact h42 hc

theorem dec_ne_star (n : Nat) : (dec n == [42]) = false := by
  cases h : dec n with
  | nil => exact absurd h (dec_ne_nil n)
  | cons c cs =>
    have := dec_ascii n c (by rw [h]; exact List.mem_cons_self)
    exact ne_star_of_mem (c := c) List.mem_cons_self (by omega)

theorem not_mem_dec_of_lt (c n : Nat) (h : c < 48) : c ∉ dec n := sep_not_mem_dec c n h

/-- the code reads a grammar value as exactly the interval it denotes -/
theorem parseRange_render (r : RangeP) (h : r.WF) : parseRange r.render = .ok (boundsInt r) := by
  have hmax : (gaMaxFree : Int) = 65535 := rfl
  cases r with
  | star =>
    simp only [parseRange, rawRange, RangeP.render, boundsInt, RangeP.bounds, maxValue_eq]
    have : normalize (0, (gaMaxFree : Int)) = (((0 : Nat) : Int), ((65535 : Nat) : Int)) := by
      have := normalize_nat 0 65535 (by omega) (by omega)
      simpa [hmax] using this
    simp [this]
  | single n =>
    have hn : n ≤ 65535 := h
    simp only [parseRange, rawRange, RangeP.render, dec_ne_star, isdigit_dec, intOrValue_dec n hn,
      boundsInt, RangeP.bounds]
    have := normalize_nat n n hn hn
    simp [this]
  | between a b =>
    obtain ⟨ha, hb⟩ : a ≤ 65535 ∧ b ≤ 65535 := h
    have hmem : (45 : Nat) ∈ dec a ++ 45 :: dec b := by simp
    have h1 : (dec a ++ 45 :: dec b == [42]) = false := ne_star_of_mem hmem (by omega)
    have h2 : isdigit (dec a ++ 45 :: dec b) = false := isdigit_false_of_mem hmem sep_not_digit.2.2.1
    have h3 : (dec a ++ 45 :: dec b).contains 45 = true := by simp
    have h4 : splitOn 45 (dec a ++ 45 :: dec b) = [dec a, dec b] := by
      rw [splitOn_append_sep _ (not_mem_dec_of_lt 45 a (by omega)), splitOn_of_not_mem (not_mem_dec_of_lt 45 b (by omega))]
    simp only [parseRange, rawRange, RangeP.render, h1, h2, h3, h4, dec_isEmpty, intOrValue_dec a ha,
      intOrValue_dec b hb, boundsInt, RangeP.bounds]
    exact congrArg _ (normalize_nat a b ha hb)
  | upTo b =>
    have hb : b ≤ 65535 := h
    have hmem : (45 : Nat) ∈ 45 :: dec b := by simp
    have h1 : ((45 :: dec b : Str) == [42]) = false := ne_star_of_mem hmem (by omega)
    have h2 : isdigit (45 :: dec b) = false := isdigit_false_of_mem hmem sep_not_digit.2.2.1
    have h3 : (45 :: dec b : Str).contains 45 = true := by simp
    have h4 : splitOn 45 (45 :: dec b) = [[], dec b] := by
      have := splitOn_append_sep (sep := 45) (p := []) (dec b) (by simp)
      rw [splitOn_of_not_mem (not_mem_dec_of_lt 45 b (by omega))] at this
      simpa using this
    simp only [parseRange, rawRange, RangeP.render, h1, h2, h3, h4, dec_isEmpty, intOrValue_dec b hb,
      boundsInt, RangeP.bounds]
    have := normalize_nat 0 b (by omega) hb
    rw [Nat.min_eq_left (Nat.zero_le b), Nat.max_eq_right (Nat.zero_le b)] at this
    exact congrArg _ this
  | from_ a =>
    have ha : a ≤ 65535 := h
    have hmem : (45 : Nat) ∈ dec a ++ [45] := by simp
    have h1 : (dec a ++ [45] == [42]) = false := ne_star_of_mem hmem (by omega)
    have h2 : isdigit (dec a ++ [45]) = false := isdigit_false_of_mem hmem sep_not_digit.2.2.1
    have h3 : (dec a ++ [45]).contains 45 = true := by simp
    have h4 : splitOn 45 (dec a ++ [45]) = [dec a, []] := by
      rw [splitOn_append_sep _ (not_mem_dec_of_lt 45 a (by omega))]; rfl
    simp only [parseRange, rawRange, RangeP.render, h1, h2, h3, h4, dec_isEmpty, intOrValue_dec a ha,
      boundsInt, RangeP.bounds, maxValue_eq]
    have := normalize_nat a 65535 ha (by omega)
    rw [Nat.min_eq_left ha, Nat.max_eq_right ha] at this
    exact congrArg _ this

/-- characters of rendered grammar text: digits, `*`, `-` (values); also `,` (levels); also `/` (patterns) -/
theorem range_render_chars (r : RangeP) : ∀ c ∈ r.render, c = 42 ∨ c = 45 ∨ (48 ≤ c ∧ c ≤ 57) := by
  intro c hc
  cases r with
  | star => simp [RangeP.render] at hc; omega
  | single n => have := dec_ascii n c hc; omega
  | between a b =>
    simp only [RangeP.render, List.mem_append, List.mem_cons] at hc
    rcases hc with h | h | h
    · have := dec_ascii a c h; omega
    · omega
    · have := dec_ascii b c h; omega
  | upTo b =>
    simp only [RangeP.render, List.mem_cons] at hc
    rcases hc with h | h
    · omega
    · have := dec_ascii b c h; omega
  | from_ a =>
    simp only [RangeP.render, List.mem_append, List.mem_cons, List.not_mem_nil, or_false] at hc
    rcases hc with h | h
    · have := dec_ascii a c h; omega
    · omega

theorem range_render_ne_nil (r : RangeP) : r.render ≠ [] := by
  cases r <;> simp [RangeP.render, dec_ne_nil]

theorem mem_joinSep {sep : Nat} {ps : List Str} {c : Nat} (h : c ∈ joinSep sep ps) :
    c = sep ∨ ∃ p ∈ ps, c ∈ p := by
  induction ps with
  | nil => simp [joinSep] at h
  | cons p rest ih =>
    cases rest with
    | nil => simp only [joinSep] at h; exact .inr ⟨p, List.mem_cons_self, h⟩
    | cons q rest' =>
      simp only [joinSep, List.mem_append, List.mem_cons] at h
      rcases h with h | h | h
      · exact .inr ⟨p, List.mem_cons_self, h⟩
      · exact .inl h
      · rcases ih h with h' | ⟨x, hx, hc⟩
        · exact .inl h'
        · exact .inr ⟨x, List.mem_cons_of_mem _ hx, hc⟩

theorem level_render_chars (l : LevelP) : ∀ c ∈ LevelP.render l, c = 42 ∨ c = 44 ∨ c = 45 ∨ (48 ≤ c ∧ c ≤ 57) := by
  intro c hc
  rcases mem_joinSep hc with h | ⟨p, hp, hcp⟩
  · omega
  · obtain ⟨r, _, rfl⟩ := List.mem_map.mp hp
    have := range_render_chars r c hcp
    omega

theorem joinSep_head_ne_nil {sep : Nat} {p : Str} {ps : List Str} (h : p ≠ []) : joinSep sep (p :: ps) ≠ [] := by
  cases ps with
  | nil => simpa [joinSep] using h
  | cons q rest => simp [joinSep, h]

/-! ### one level -/

theorem parseLevel_render (l : LevelP) (hne : l ≠ []) (hwf : ∀ r ∈ l, r.WF) :
    parseLevel (LevelP.render l) = .ok (l.map boundsInt) := by
  unfold parseLevel LevelP.render
  rw [splitOn_joinSep (by simpa using hne)]
  · exact mapE_map_ok parseRange RangeP.render boundsInt l (fun r hr => parseRange_render r (hwf r hr))
  · intro p hp
    obtain ⟨r, _, rfl⟩ := List.mem_map.mp hp
    intro h44
    have := range_render_chars r 44 h44
    omega

/-! ### whole pattern -/

theorem parseFilter_render (p : PatternP) (hp : p.WF) :
    parseFilter (PatternP.render p) = .ok (.levels (p.map fun l => l.map boundsInt)) := by
  obtain ⟨h1, h3, hl⟩ := hp
  have hchars : ∀ c ∈ PatternP.render p, c ≠ 105 := by
    intro c hc
    rcases mem_joinSep hc with h | ⟨s, hs, hcs⟩
    · omega
    · obtain ⟨l, _, rfl⟩ := List.mem_map.mp hs
      have := level_render_chars l c hcs
      omega
  have hhead : (((PatternP.render p).head?) == some 105) = false := by
    cases hh : (PatternP.render p) with
    | nil => rfl
    | cons c cs =>
      have := hchars c (by rw [hh]; exact List.mem_cons_self)
      simp [this]
  have hsplit : splitOn 47 (PatternP.render p) = p.map LevelP.render := by
    unfold PatternP.render
    apply splitOn_joinSep
    · intro h
      have : p = [] := List.map_eq_nil_iff.mp h
      subst this
      simp at h1
    · intro s hs
      obtain ⟨l, _, rfl⟩ := List.mem_map.mp hs
      intro h47
      have := level_render_chars l 47 h47
      omega
  have hmap : mapE parseLevel (p.map LevelP.render) = .ok (p.map fun l => l.map boundsInt) :=
    mapE_map_ok parseLevel LevelP.render (fun l => l.map boundsInt) p
      (fun l hlp => parseLevel_render l (hl l hlp).1 (hl l hlp).2)
  unfold parseFilter
  rw [hhead]
  simp only [Bool.false_eq_true, if_false, hsplit, hmap, List.length_map]
  rw [if_neg (by omega)]

/-! ### matching -/

theorem rangeMatch_boundsInt (r : RangeP) (v : Nat) : rangeMatch (boundsInt r) v = r.contains v := by
  unfold rangeMatch boundsInt RangeP.contains
  simp only [Int.ofNat_le]

theorem levelMatch_boundsInt (l : LevelP) (v : Nat) : levelMatch (l.map boundsInt) v = LevelP.contains l v := by
  unfold levelMatch LevelP.contains
  induction l with
  | nil => rfl
  | cons r rest ih => simp only [List.map_cons, List.any_cons, rangeMatch_boundsInt, ih]

/-! ### glob matcher against its specification -/

/-- textbook meaning of a token list: `*` matches any (possibly empty) run of characters, every other token one
character it `matches`; the whole string must be consumed -/
inductive Matches : List Tok → Str → Prop where
  | nil : Matches [] []
  | starEmpty {ts s} : Matches ts s → Matches (.star :: ts) s
  | starEat {ts c s} : Matches (.star :: ts) s → Matches (.star :: ts) (c :: s)
  | one {t ts c s} : t.matches c = true → Matches ts s → Matches (t :: ts) (c :: s)

theorem star_matches_false (c : Nat) : Tok.star.matches c = false := rfl

theorem globMatch_iff (ts : List Tok) (s : Str) : globMatch ts s = true ↔ Matches ts s := by
  fun_induction globMatch ts s with
  | case1 => exact ⟨fun _ => .nil, fun _ => rfl⟩
  | case2 c s => exact ⟨fun h => (by cases h), fun h => (by cases h)⟩
  | case3 ts ih =>
    constructor
    · intro h; exact .starEmpty (ih.mp h)
    · intro h
      cases h with
      | starEmpty h' => exact ih.mpr h'
  | case4 ts c s ih1 ih2 =>
    simp only [Bool.or_eq_true]
    constructor
    · rintro (h | h)
      · exact .starEmpty (ih1.mp h)
      · exact .starEat (ih2.mp h)
    · intro h
      cases h with
      | starEmpty h' => exact .inl (ih1.mpr h')
      | starEat h' => exact .inr (ih2.mpr h')
      | one hm _ => simp [star_matches_false] at hm
  | case5 t ts hns =>
    constructor
    · intro h; cases h
    · intro h
      cases h with
      | starEmpty h' => exact (hns rfl).elim
  | case6 t ts c s hns ih =>
    simp only [Bool.and_eq_true]
    constructor
    · rintro ⟨h1, h2⟩
      exact .one h1 (ih.mp h2)
    · intro h
      cases h with
      | starEmpty h' => exact (hns rfl).elim
      | starEat h' => exact (hns rfl).elim
      | one hm h' => exact ⟨hm, ih.mpr h'⟩

/-! ### glob: textbook characterisations, `translate` outside brackets, simple classes -/


/-- `*` takes any (possibly empty) prefix of the remaining text -/
theorem matches_star_iff (ts : List Tok) (s : Str) :
    Matches (.star :: ts) s ↔ ∃ s1 s2, s = s1 ++ s2 ∧ Matches ts s2 := by
  constructor
  · induction s with
    | nil =>
      intro hm
      cases hm with
      | starEmpty h' => exact ⟨[], [], rfl, h'⟩
    | cons c s ih =>
      intro hm
      cases hm with
      | starEmpty h' => exact ⟨[], c :: s, rfl, h'⟩
      | starEat h' =>
        obtain ⟨s1, s2, rfl, h2⟩ := ih h'
        exact ⟨c :: s1, s2, rfl, h2⟩
      | one hc _ => simp [star_matches_false] at hc
  · rintro ⟨s1, s2, rfl, h2⟩
    induction s1 with
    | nil => exact .starEmpty h2
    | cons c s1 ih => exact .starEat ih

/-- every other token takes exactly one character it matches -/
theorem matches_one_iff (t : Tok) (ht : t ≠ .star) (ts : List Tok) (s : Str) :
    Matches (t :: ts) s ↔ ∃ c s', s = c :: s' ∧ t.matches c = true ∧ Matches ts s' := by
  constructor
  · intro hm
    cases hm with
    | starEmpty _ => exact absurd rfl ht
    | starEat _ => exact absurd rfl ht
    | one hc h' => exact ⟨_, _, rfl, hc, h'⟩
  · rintro ⟨c, s', rfl, hc, h'⟩
    exact .one hc h'



/-- the token a pattern character stands for outside brackets -/
def tokOfChar (c : Nat) : Tok := if c == 42 then .star else if c == 63 then .any else .lit c

/-- a bracket-free pattern read character by character (no `*` compression) -/
def plainToks (pat : Str) : List Tok := pat.map tokOfChar

theorem matches_cons_congr (t : Tok) (A B : List Tok) (h : ∀ s, Matches A s ↔ Matches B s) :
    ∀ s, Matches (t :: A) s ↔ Matches (t :: B) s := by
  have key : ∀ (A B : List Tok), (∀ s, Matches A s → Matches B s) → ∀ s, Matches (t :: A) s → Matches (t :: B) s := by
    intro A B hAB s
    induction s with
    | nil =>
      intro hm
      cases hm with
      | starEmpty h' => exact .starEmpty (hAB _ h')
    | cons c s ih =>
      intro hm
      cases hm with
      | starEmpty h' => exact .starEmpty (hAB _ h')
      | starEat h' => exact .starEat (ih h')
      | one hc h' => exact .one hc (hAB _ h')
  intro s
  exact ⟨key A B (fun s => (h s).mp) s, key B A (fun s => (h s).mpr) s⟩

theorem matches_star_star (ts : List Tok) : ∀ s, Matches (.star :: .star :: ts) s ↔ Matches (.star :: ts) s := by
  intro s
  constructor
  · induction s with
    | nil =>
      intro hm
      cases hm with
      | starEmpty h' => exact h'
    | cons c s ih =>
      intro hm
      cases hm with
      | starEmpty h' => exact h'
      | starEat h' => exact .starEat (ih h')
      | one hc _ => simp [star_matches_false] at hc
  · exact .starEmpty

/-- Outside brackets `fnmatch.translate` is the character-by-character reading: compressing runs of `*` does not
change what is matched. -/
theorem translate_plain (pat : Str) (h : 91 ∉ pat) (fuel : Nat) (hf : pat.length < fuel) :
    ∀ name, Matches (translate fuel pat) name ↔ Matches (plainToks pat) name := by
  induction pat generalizing fuel with
  | nil =>
    intro name
    cases fuel with
    | zero => omega
    | succ f => simp [translate, plainToks]
  | cons c rest ih =>
    cases fuel with
    | zero => omega
    | succ f =>
      simp only [List.mem_cons, not_or] at h
      have ih' := ih h.2 f (by simp at hf; omega)
      have hc91 : (c == 91) = false := by simpa using Ne.symm h.1
      simp only [translate, plainToks, List.map_cons, tokOfChar]
      by_cases h42 : (c == 42) = true
      · simp only [h42, if_true]
        intro name
        have hcong := matches_cons_congr .star _ _ ih' name
        rw [← show plainToks rest = rest.map tokOfChar from rfl] at *
        rw [← hcong]
        split
        · rename_i ts heq
          rw [heq]
          exact (matches_star_star ts name).symm
        · exact Iff.rfl
      · have h42' : (c == 42) = false := by simpa using h42
        by_cases h63 : (c == 63) = true
        · simp only [h42', h63, if_true, Bool.false_eq_true, if_false]
          exact matches_cons_congr .any _ _ ih'
        · have h63' : (c == 63) = false := by simpa using h63
          simp only [h42', h63', hc91, Bool.false_eq_true, if_false]
          exact matches_cons_congr (.lit c) _ _ ih'



/-- `[seq]` without `-`: the listed characters -/
theorem classOf_plain (stuff : Str) (h45 : 45 ∉ stuff) (h33 : stuff.head? ≠ some 33) :
    classOf stuff = .cls false stuff [] := by
  simp [classOf, h45, chunkRanges, h33]

/-- `[!seq]` without `-`: every character except the listed ones -/
theorem classOf_negated (rest : Str) (h45 : 45 ∉ rest) :
    classOf (33 :: rest) = .cls true rest [] := by
  simp [classOf, h45, chunkRanges]

theorem cls_matches (neg : Bool) (singles : List Nat) (ranges : List (Nat × Nat)) (x : Nat) :
    (Tok.cls neg singles ranges).matches x = true ↔
      ((x ∈ singles ∨ ∃ r ∈ ranges, r.1 ≤ x ∧ x ≤ r.2) ↔ neg = false) := by
  cases neg <;> simp [Tok.matches]


end XknxVerif.AddressFilter
