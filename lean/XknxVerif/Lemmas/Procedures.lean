/-
Helper lemmas about the procedure model (`XknxVerif.Model.Procedures`): normal forms of `addrWrite`,
what the sessions send, counting lemmas.
-/
import XknxVerif.Model.Procedures

namespace XknxVerif.Procedures

theorem countAt_zero {bus : Bus} {x : Nat} {b : Beh} (h : ¬ 0 < countAt bus x b) :
    ∀ d ∈ bus, d.addr = x → d.beh ≠ b := by
  intro d hd hx hb
  apply h
  unfold countAt
  apply List.length_pos_of_mem (a := d)
  simp [List.mem_filter, hd, hx, hb]

theorem filter_map_le {α : Type} (l : List α) (f : α → α) (p q : α → Bool)
    (h : ∀ d ∈ l, p (f d) = true → q d = true) :
    ((l.map f).filter p).length ≤ (l.filter q).length := by
  induction l with
  | nil => simp
  | cons x xs ih =>
    have ih' := ih (fun d hd => h d (List.mem_cons_of_mem _ hd))
    rw [List.map_cons, List.filter_cons, List.filter_cons]
    by_cases hp : p (f x) = true
    · have hq := h x List.mem_cons_self hp
      rw [if_pos hp, if_pos hq]; simp only [List.length_cons]; omega
    · rw [if_neg hp]
      by_cases hq : q x = true
      · rw [if_pos hq]; simp only [List.length_cons]; omega
      · rw [if_neg hq]; exact ih'

theorem filter_map_le2 {α : Type} (l : List α) (f : α → α) (p q r : α → Bool)
    (h : ∀ d ∈ l, p (f d) = true → q d = true ∨ r d = true) :
    ((l.map f).filter p).length ≤ (l.filter q).length + (l.filter r).length := by
  induction l with
  | nil => simp
  | cons x xs ih =>
    have ih' := ih (fun d hd => h d (List.mem_cons_of_mem _ hd))
    have hq : (List.filter q xs).length ≤ (List.filter q (x :: xs)).length := by
      rw [List.filter_cons]; split <;> simp
    have hr : (List.filter r xs).length ≤ (List.filter r (x :: xs)).length := by
      rw [List.filter_cons]; split <;> simp
    rw [List.map_cons, List.filter_cons]
    by_cases hp : p (f x) = true
    · rw [if_pos hp]
      simp only [List.length_cons]
      rcases h x List.mem_cons_self hp with h1 | h1
      · have : (List.filter q (x :: xs)).length = (List.filter q xs).length + 1 := by
          rw [List.filter_cons, if_pos h1]; rfl
        omega
      · have : (List.filter r (x :: xs)).length = (List.filter r xs).length + 1 := by
          rw [List.filter_cons, if_pos h1]; rfl
        omega
    · rw [if_neg hp]; omega

/-- The address check finds nothing exactly when no device at `x` answers or refuses. -/
theorem checkAddress_found (sync : Bool) (bus : Bus) (x : Nat) :
    (checkAddress sync bus x).1 = (decide (0 < countAt bus x .refuses) || decide (0 < countAt bus x .answers)) := by
  unfold checkAddress
  by_cases hR : 0 < countAt bus x .refuses <;> by_cases hA : 0 < countAt bus x .answers <;> simp [hR, hA]

theorem checkAddress_tels (sync : Bool) (bus : Bus) (x : Nat) (t : Tel) (h : t ∈ (checkAddress sync bus x).2.1) :
    t = .conn x ∨ t = .data x 0 .ddr ∨ t = .disc x := by
  unfold checkAddress at h
  by_cases hR : 0 < countAt bus x .refuses <;> by_cases hA : 0 < countAt bus x .answers <;>
    cases sync <;> simp [hR, hA, refusedTels] at h <;>
    first
    | (rcases h with h | h | h | h <;> simp [h])
    | (rcases h with h | h | h <;> simp [h])
    | (rcases h with h | h <;> simp [h])
    | (simp [h])

theorem restartSession_tels (sync : Bool) (bus : Bus) (x : Nat) (t : Tel) (h : t ∈ (restartSession sync bus x).tels) :
    t = .conn x ∨ t = .data x 0 .ddr ∨ t = .data x 1 .restart ∨ t = .disc x := by
  unfold restartSession at h
  by_cases hR : 0 < countAt bus x .refuses <;> by_cases hA : 0 < countAt bus x .answers <;>
    cases sync <;> simp [hR, hA, refusedTels] at h <;>
    first
    | (rcases h with h | h | h | h <;> simp [h])
    | (rcases h with h | h | h <;> simp [h])
    | (rcases h with h | h <;> simp [h])
    | (simp [h])

theorem restartSession_bus (sync : Bool) (bus : Bus) (x : Nat) :
    (restartSession sync bus x).bus = bus ∨ (restartSession sync bus x).bus = restartAt bus x := by
  unfold restartSession
  by_cases hR : 0 < countAt bus x .refuses <;> by_cases hA : 0 < countAt bus x .answers <;> simp [hR, hA]

/-- The five ways `nm_individual_address_write` can go. -/
inductive WriteCase (sync : Bool) (bus : Bus) : Out → Prop
  | fail : (progAddrs bus = [] ∨ 2 ≤ (progAddrs bus).length ∨
        (∃ p, progAddrs bus = [p] ∧ p ≠ target ∧ (checkAddress sync bus target).1 = true)) →
      WriteCase sync bus
        { res := .err, tels := (checkAddress sync bus target).2.1 ++ [.bRead],
          acks := (checkAddress sync bus target).2.2, bus := bus }
  | held : progAddrs bus = [target] → (checkAddress sync bus target).1 = true →
      WriteCase sync bus
        { res := (restartSession sync bus target).res,
          tels := (checkAddress sync bus target).2.1 ++ [.bRead] ++ (restartSession sync bus target).tels,
          acks := (checkAddress sync bus target).2.2 ++ (restartSession sync bus target).acks,
          bus := (restartSession sync bus target).bus }
  | write (p : Nat) : progAddrs bus = [p] → (checkAddress sync bus target).1 = false →
      WriteCase sync bus
        { res := (restartSession sync (writeAddr bus target) target).res,
          tels := (checkAddress sync bus target).2.1 ++ [.bRead, .bWrite target] ++
            (restartSession sync (writeAddr bus target) target).tels,
          acks := (checkAddress sync bus target).2.2 ++ (restartSession sync (writeAddr bus target) target).acks,
          bus := (restartSession sync (writeAddr bus target) target).bus }

theorem addrWrite_cases (sync : Bool) (bus : Bus) : WriteCase sync bus (addrWrite sync bus) := by
  unfold addrWrite
  cases hp : progAddrs bus with
  | nil => simp only; exact .fail (Or.inl hp)
  | cons p ps =>
    cases ps with
    | cons q qs => simp only; exact .fail (Or.inr (Or.inl (by rw [hp]; simp)))
    | nil =>
      simp only
      by_cases hf : (checkAddress sync bus target).1 = true
      · rw [if_pos hf]
        by_cases hne : p ≠ target
        · rw [if_pos hne]; exact .fail (Or.inr (Or.inr ⟨p, hp, hne, hf⟩))
        · rw [if_neg hne]
          have : p = target := by simpa using hne
          subst this
          exact .held hp hf
      · rw [if_neg hf]
        exact .write p hp (by simpa using hf)

end XknxVerif.Procedures
