/-
Helper lemmas for C41: case analysis of one accepted step of the Expose monitor, induction over the
silent timer firings in `advance`, and a generic scheme that lifts a predicate preserved by the
elementary reactions to every accepted trace.
-/
import XknxVerif.Model.Expose

namespace XknxVerif.Expose
open XknxVerif.TraceRun

/-! ### Case analysis of one accepted step -/

theorem fireAt_cases {c : Cfg} {s s' : St} {o : Out} {t : Nat} (hf : fireAt c s o t = some s') :
    ∃ tm, nextTimer s = some tm ∧ tm.at = t ∧ o ∈ (fire c s tm).2 ∧
      s' = { (fire c s tm).1 with expect := (fire c s tm).2.erase o, log := o :: (fire c s tm).1.log,
                                   opt := tieOpt s tm } := by
  unfold fireAt at hf
  cases hn : nextTimer s with
  | none => simp [hn] at hf
  | some tm =>
    simp only [hn] at hf
    by_cases h1 : (tm.at == t) = true
    · simp only [h1, ↓reduceIte] at hf
      by_cases h2 : (fire c s tm).2.contains o = true
      · simp only [h2, ↓reduceIte, Option.some.injEq] at hf
        exact ⟨tm, rfl, by simpa using h1, by simpa using h2, hf.symm⟩
      · rw [if_neg h2] at hf; cases hf
    · rw [if_neg h1] at hf; cases hf

/-- The ways a step can be accepted. -/
inductive StepCase (c : Cfg) (s : St) (o : Obs) (s' : St) : Prop where
  | consume (x : Out) (ho : o = .out x) (hne : s.expect ≠ []) (ht : x.time = s.now) (hmem : x ∈ s.expect)
      (hs : s' = { s with expect := s.expect.erase x, log := x :: s.log })
  /-- the optional second write of a cooldown/periodic tie -/
  | consumeOpt (x : Out) (ho : o = .out x) (he : s.expect = []) (ht : x.time = s.now) (hmem : x ∈ s.opt)
      (hs : s' = { s with opt := [], uw := s.now :: s.uw, log := x :: s.log })
  | fire (x : Out) (s1 : St) (ho : o = .out x) (he : s.expect = [])
      (ha : advance c x.time false (fuelFor c s x.time) s = some s1) (hf : fireAt c s1 x x.time = some s')
  | input (s1 : St) (r : St × List Out) (he : s.expect = [])
      (ha : advance c o.time true (fuelFor c s o.time) s = some s1)
      (hr : inputReaction c (tick s1 o.time) o = some r) (hs : s' = react r)
  | sample (s1 : St) (he : s.expect = []) (ha : advance c o.time true (fuelFor c s o.time) s = some s1)
      (hq : sampleOk s1 o = some true) (hs : s' = { tick s1 o.time with opt := [] })

theorem step_cases {c : Cfg} {s s' : St} {o : Obs} (h : step? c s o = some s') :
    s.now ≤ o.time ∧ StepCase c s o s' := by
  unfold step? at h
  by_cases hnow : o.time < s.now
  · simp [hnow] at h
  · simp only [hnow, ↓reduceIte] at h
    refine ⟨Nat.le_of_not_lt hnow, ?_⟩
    have generic : ∀ (o : Obs), (∀ x, o ≠ .out x) →
        (if (!s.expect.isEmpty) = true then none else
          (advance c o.time true (fuelFor c s o.time) s).bind fun s1 =>
            match sampleOk s1 o with
            | some ok => if ok = true then some { tick s1 o.time with opt := [] } else none
            | none => (inputReaction c (tick s1 o.time) o).map react) = some s' → StepCase c s o s' := by
      intro o _ h
      by_cases he : (!s.expect.isEmpty) = true
      · simp [he] at h
      · simp only [he, Bool.false_eq_true, ↓reduceIte] at h
        have he' : s.expect = [] := by simpa using he
        cases ha : advance c o.time true (fuelFor c s o.time) s with
        | none => simp [ha] at h
        | some s1 =>
          simp only [ha, Option.bind_some] at h
          cases hq : sampleOk s1 o with
          | some ok =>
            simp only [hq] at h
            cases ok
            · simp at h
            · simp only [↓reduceIte, Option.some.injEq] at h
              exact .sample s1 he' ha hq h.symm
          | none =>
            simp only [hq] at h
            cases hr : inputReaction c (tick s1 o.time) o with
            | none => simp [hr] at h
            | some r =>
              simp only [hr, Option.map_some, Option.some.injEq] at h
              exact .input s1 r he' ha hr h.symm
    cases o with
    | out x =>
      simp only [Obs.time] at h
      by_cases he : (!s.expect.isEmpty) = true
      · rw [if_pos he] at h
        have hne : s.expect ≠ [] := by simpa using he
        by_cases hc : (x.time == s.now && s.expect.contains x) = true
        · rw [if_pos hc] at h
          simp only [Option.some.injEq] at h
          simp only [Bool.and_eq_true, beq_iff_eq, List.contains_iff_mem] at hc
          exact .consume x rfl hne hc.1 hc.2 h.symm
        · rw [if_neg hc] at h; cases h
      · rw [if_neg he] at h
        have he' : s.expect = [] := by simpa using he
        by_cases hc : (x.time == s.now && s.opt.contains x) = true
        · rw [if_pos hc] at h
          simp only [Option.some.injEq] at h
          simp only [Bool.and_eq_true, beq_iff_eq, List.contains_iff_mem] at hc
          exact .consumeOpt x rfl he' hc.1 hc.2 h.symm
        · rw [if_neg hc] at h
          cases ha : advance c x.time false (fuelFor c s x.time) s with
          | none => simp [ha] at h
          | some s1 =>
            simp only [ha, Option.bind_some] at h
            exact .fire x s1 rfl he' ha h
    | set p k t => exact generic _ (by intro x hx; cases hx) h
    | init p t => exact generic _ (by intro x hx; cases hx) h
    | read t => exact generic _ (by intro x hx; cases hx) h
    | bus p t => exact generic _ (by intro x hx; cases hx) h
    | conn u t => exact generic _ (by intro x hx; cases hx) h
    | q p t => exact generic _ (by intro x hx; cases hx) h
    | fin t => exact generic _ (by intro x hx; cases hx) h

/-! ### Silent firings -/

theorem due_false {t d : Nat} {incl : Bool} (h : due t incl d = false) : t ≤ d ∧ (incl = true → t < d) := by
  unfold due at h
  cases incl <;> simp at h <;> simp <;> omega

theorem due_true {t d : Nat} {incl : Bool} (h : due t incl d = true) : d ≤ t := by
  unfold due at h
  cases incl <;> simp at h <;> omega

/-- Induction over the silent firings of `advance`: a predicate preserved by every silent firing of the
next due timer holds afterwards, and then no timer is due any more. -/
theorem advance_ind {c : Cfg} {t : Nat} {incl : Bool} (P : St → Prop)
    (hfire : ∀ s tm, P s → nextTimer s = some tm → due t incl tm.at = true → (fire c s tm).2 = [] →
      P (fire c s tm).1) :
    ∀ (fuel : Nat) (s s1 : St), P s → advance c t incl fuel s = some s1 →
      P s1 ∧ ∀ tm, nextTimer s1 = some tm → due t incl tm.at = false := by
  intro fuel
  induction fuel with
  | zero => intro s s1 _ h; simp [advance] at h
  | succ n ih =>
    intro s s1 hp h
    unfold advance at h
    cases hn : nextTimer s with
    | none =>
      simp only [hn, Option.some.injEq] at h
      subst h
      exact ⟨hp, fun tm htm => by rw [hn] at htm; cases htm⟩
    | some tm =>
      simp only [hn] at h
      by_cases hd : due t incl tm.at = true
      · simp only [hd, ↓reduceIte] at h
        by_cases he : (fire c s tm).2.isEmpty = true
        · simp only [he, ↓reduceIte] at h
          exact ih _ s1 (hfire s tm hp hn hd (by simpa using he)) h
        · rw [if_neg he] at h; cases h
      · simp only [hd, Bool.false_eq_true, ↓reduceIte, Option.some.injEq] at h
        subst h
        refine ⟨hp, fun tm' htm' => ?_⟩
        rw [hn] at htm'
        cases htm'
        simpa using hd

/-! ### The next timer -/

theorem nextTimer_cd {s : St} {d : Nat} (h : nextTimer s = some (.cd d)) : s.cd = some d := by
  unfold nextTimer at h
  cases hc : s.cd <;> cases hp : s.per <;> simp only [hc, hp] at h
  · cases h
  · cases h
  · cases h; rfl
  · split at h <;> cases h
    rfl

theorem nextTimer_per {s : St} {d : Nat} (h : nextTimer s = some (.per d)) : s.per = some d := by
  unfold nextTimer at h
  cases hc : s.cd <;> cases hp : s.per <;> simp only [hc, hp] at h
  · cases h
  · cases h; rfl
  · cases h
  · split at h <;> cases h
    rfl

theorem none_ne_some_due {t : Nat} {incl : Bool} (d : Nat) (hd : (none : Option Nat) = some d) :
    due t incl d = false := by cases hd

/-- If the next timer is not due, no timer is. -/
theorem nextTimer_min {s : St} {t : Nat} {incl : Bool}
    (h : ∀ tm, nextTimer s = some tm → due t incl tm.at = false) :
    (∀ d, s.cd = some d → due t incl d = false) ∧ (∀ d, s.per = some d → due t incl d = false) := by
  unfold nextTimer at h
  cases hc : s.cd <;> cases hp : s.per <;> simp only [hc, hp] at h
  · exact ⟨none_ne_some_due, none_ne_some_due⟩
  · rename_i b
    refine ⟨none_ne_some_due, fun d hd => ?_⟩
    cases hd; exact h _ rfl
  · rename_i a
    refine ⟨fun d hd => ?_, none_ne_some_due⟩
    cases hd; exact h _ rfl
  · rename_i a b
    by_cases hab : a < b
    · simp only [hab, ↓reduceIte] at h
      have ha := h _ rfl
      simp only [Timer.at] at ha
      refine ⟨fun d hd => ?_, fun d hd => ?_⟩
      · cases hd; exact ha
      · cases hd
        unfold due at ha ⊢
        cases incl <;> simp at ha ⊢ <;> omega
    · simp only [hab, ↓reduceIte] at h
      have hb := h _ rfl
      simp only [Timer.at] at hb
      refine ⟨fun d hd => ?_, fun d hd => ?_⟩
      · cases hd
        unfold due at hb ⊢
        cases incl <;> simp at hb ⊢ <;> omega
      · cases hd; exact hb

/-! ### The invariant -/

/-- Core invariant of the monitor state `s` together with the outputs `exp` produced but not yet observed. -/
structure Inv1 (c : Cfg) (s : St) (exp : List Out) : Prop where
  cdNow : ∀ d, s.cd = some d → s.now ≤ d
  /-- a sleeping cooldown task is due within one cooldown from now -/
  cdSoon : ∀ d, s.cd = some d → d ≤ s.now + c.cool
  perNow : ∀ d, s.per = some d → s.now ≤ d
  waitConn : s.cdWait = true → s.conn = false ∧ s.cd = none
  noCool : c.cool = 0 → s.cd = none ∧ s.cdWait = false
  expTime : ∀ o ∈ exp, o.time = s.now
  /-- update-caused writes are pairwise at least the cooldown apart -/
  uwPair : s.uw.Pairwise (fun a b => b + c.cool ≤ a)
  uwHead : ∀ u, s.uw.head? = some u →
    u ≤ s.now ∧ (∀ d, s.cd = some d → u + c.cool ≤ d) ∧ (s.cd = none → u + c.cool ≤ s.now)
  uwOut : ∀ t ∈ s.uw, ∃ p, Out.w p t ∈ exp ++ s.log
  okConn : s.connOk = true → s.conn = true
  tSetPac : ∀ ts, s.tSet = some ts → s.pac.isSome = true ∧ ts ≤ s.now
  onBusT : ∀ τ w, s.onBus = some (τ, w) →
    ∃ ts, s.tSet = some ts ∧ ts ≤ τ ∧ τ ≤ s.now ∧ (s.connOk = true → τ ≤ ts + c.cool)
  onBusSent : ∀ τ, s.onBus = some (τ, .sent) →
    ∃ p, s.pac = some p ∧ (Out.w p τ ∈ exp ++ s.log ∨ Out.r p τ ∈ exp ++ s.log)

/-- The first moment the value set is on the bus has been noted. -/
def Noted (s : St) : Prop := s.onBus = none → s.tSet.isSome = true → s.last ≠ s.pac

/-- A value set that has not been on the bus yet (connection intact since) waits for a cooldown task that
is due within one cooldown of the update. -/
def Pend (c : Cfg) (s : St) : Prop :=
  ∀ ts, s.tSet = some ts → s.connOk = true → s.onBus = none →
    c.cool ≠ 0 ∧ ∃ d, s.cd = some d ∧ d ≤ ts + c.cool

structure Inv (c : Cfg) (s : St) (exp : List Out) : Prop extends Inv1 c s exp where
  noted : Noted s
  pending : Pend c s

theorem Inv_init (c : Cfg) (k : Bool) : Inv c (init c k) [] := by
  refine ⟨⟨?_, ?_, ?_, ?_, ?_, ?_, ?_, ?_, ?_, ?_, ?_, ?_, ?_⟩, ?_, ?_⟩ <;> simp [init, Pend, Noted]

theorem doInit_Inv {c : Cfg} {s : St} (p : Option Nat) (h : Inv c s []) : Inv c (doInit s p) [] := by
  obtain ⟨⟨h1, h1', h2, h3, h4, h5, h6, h7, h8, h9, h10, h13, h14⟩, h11, h12⟩ := h
  refine ⟨⟨h1, h1', h2, h3, h4, h5, h6, h7, h8, ?_, ?_, ?_, ?_⟩, ?_, ?_⟩ <;> simp [doInit, Pend, Noted]

/-- Noting the first moment on the bus keeps the core invariant (provided that moment lies within the window)
and establishes `Noted`. -/
theorem noteOnBus_spec {c : Cfg} {s : St} {exp : List Out} (why : Why) (h : Inv1 c s exp)
    (hwin : ∀ ts, s.tSet = some ts → s.connOk = true → s.onBus = none → s.now ≤ ts + c.cool)
    (hsent : why = .sent → s.last = s.pac →
      ∃ p, s.pac = some p ∧ (Out.w p s.now ∈ exp ++ s.log ∨ Out.r p s.now ∈ exp ++ s.log)) :
    Inv1 c (noteOnBus s s.now why) exp ∧ Noted (noteOnBus s s.now why) := by
  obtain ⟨h1, h1', h2, h3, h4, h5, h6, h7, h8, h9, h10, h13, h14⟩ := h
  unfold noteOnBus Noted
  by_cases hc : (s.onBus.isNone && s.tSet.isSome && (s.last == s.pac)) = true
  · simp only [hc, ↓reduceIte]
    simp only [Bool.and_eq_true, Option.isNone_iff_eq_none, beq_iff_eq] at hc
    obtain ⟨⟨hob, hts⟩, hpac⟩ := hc
    refine ⟨⟨h1, h1', h2, h3, h4, h5, h6, h7, h8, h9, h10, ?_, ?_⟩, ?_⟩
    · intro τ w hτ
      simp only [Option.some.injEq, Prod.mk.injEq] at hτ
      obtain ⟨rfl, rfl⟩ := hτ
      cases hts' : s.tSet with
      | none => simp [hts'] at hts
      | some ts => exact ⟨ts, rfl, (h10 ts hts').2, Nat.le_refl _, fun hok => hwin ts hts' hok hob⟩
    · intro τ hτ
      simp only [Option.some.injEq, Prod.mk.injEq] at hτ
      obtain ⟨rfl, rfl⟩ := hτ
      exact hsent rfl hpac
    · intro hn; cases hn
  · simp only [hc, Bool.false_eq_true, ↓reduceIte]
    simp only [Bool.and_eq_true, Option.isNone_iff_eq_none, beq_iff_eq, not_and] at hc
    exact ⟨⟨h1, h1', h2, h3, h4, h5, h6, h7, h8, h9, h10, h13, h14⟩, fun hob hts heq => hc ⟨hob, hts⟩ heq⟩

theorem noteOnBus_frame (s : St) (t : Nat) (why : Why) :
    (noteOnBus s t why).cd = s.cd ∧ (noteOnBus s t why).tSet = s.tSet ∧ (noteOnBus s t why).connOk = s.connOk ∧
    (noteOnBus s t why).pac = s.pac ∧ (noteOnBus s t why).last = s.last ∧ (noteOnBus s t why).conn = s.conn ∧
    (noteOnBus s t why).cdWait = s.cdWait ∧ (noteOnBus s t why).per = s.per ∧ (noteOnBus s t why).now = s.now ∧
    (noteOnBus s t why).uw = s.uw ∧ (noteOnBus s t why).log = s.log ∧ (noteOnBus s t why).expect = s.expect ∧
    ((noteOnBus s t why).onBus = none → s.onBus = none) := by
  unfold noteOnBus
  split <;> simp

theorem noteOnBus_Pend {c : Cfg} {s : St} (t : Nat) (why : Why) (h : Pend c s) : Pend c (noteOnBus s t why) := by
  have hf := noteOnBus_frame s t why
  intro ts hts hok hob
  rw [hf.2.1] at hts
  rw [hf.2.2.1] at hok
  rw [hf.1]
  exact h ts hts hok (hf.2.2.2.2.2.2.2.2.2.2.2.2 hob)

/-- The window condition needed when something is noted: follows from the pending cooldown task. -/
theorem window_of_pend {c : Cfg} {s : St} (h1 : ∀ d, s.cd = some d → s.now ≤ d) (hp : Pend c s) :
    ∀ ts, s.tSet = some ts → s.connOk = true → s.onBus = none → s.now ≤ ts + c.cool := by
  intro ts hts hok hob
  obtain ⟨_, d, hd, hdl⟩ := hp ts hts hok hob
  have := h1 d hd
  omega

theorem doBus_Inv {c : Cfg} {s : St} (p : Nat) (h : Inv c s []) : Inv c (doBus s p s.now) [] := by
  have hw := window_of_pend h.cdNow h.pending
  have h0 : Inv1 c { s with last := some p } [] := by
    obtain ⟨⟨h1, h1', h2, h3, h4, h5, h6, h7, h8, h9, h10, h13, h14⟩, h11, h12⟩ := h
    exact ⟨h1, h1', h2, h3, h4, h5, h6, h7, h8, h9, h10, h13, h14⟩
  have hn := noteOnBus_spec (c := c) (s := { s with last := some p }) (exp := []) .other h0 hw
    (fun hx => by cases hx)
  unfold doBus
  exact ⟨hn.1, hn.2, noteOnBus_Pend _ _ (fun ts hts hok hob => h.pending ts hts hok hob)⟩


theorem noteOnBus_some {s : St} {t : Nat} {why : Why} (h1 : s.onBus = none) (h2 : s.tSet.isSome = true)
    (h3 : s.last = s.pac) : (noteOnBus s t why).onBus = some (t, why) := by
  unfold noteOnBus
  simp [h1, h2, h3]

theorem mem_append_mid {α} {a : α} {l m k : List α} (h : a ∈ l ++ k) : a ∈ (l ++ m) ++ k := by
  rcases List.mem_append.1 h with h | h
  · exact List.mem_append.2 (Or.inl (List.mem_append.2 (Or.inl h)))
  · exact List.mem_append.2 (Or.inr h)

/-- Nothing is pending: no value set (with the connection intact since) is still missing on the bus. -/
def NoPend (s : St) : Prop := ∀ ts, s.tSet = some ts → s.connOk = true → s.onBus = none → False

theorem NoPend.pend {c : Cfg} {s : St} (h : NoPend s) : Pend c s :=
  fun ts hts hok hob => (h ts hts hok hob).elim

/-- The state after an outgoing telegram was processed, before noting. -/
def sent1 (c : Cfg) (s : St) (p : Nat) (upd : Bool) : St :=
  { s with last := some p,
           per := if c.per != 0 then some (s.now + c.per) else s.per,
           uw := if upd then s.now :: s.uw else s.uw }

def outOf (p : Nat) (resp : Bool) (t : Nat) : Out := if resp then .r p t else .w p t

theorem send_conn {c : Cfg} {s : St} (p : Nat) (resp upd : Bool) (h : s.conn = true) :
    send c s p resp upd s.now = (noteOnBus (sent1 c s p upd) s.now .sent, [outOf p resp s.now]) := by
  unfold send
  rw [if_pos h]
  rfl

theorem send_noconn {c : Cfg} {s : St} (p : Nat) (resp upd : Bool) (t : Nat) (h : s.conn = false) :
    send c s p resp upd t = (s, []) := by
  unfold send
  simp [h]

/-- `send_raw` + processing of the outgoing telegram. -/
theorem send_spec {c : Cfg} {s : St} {exp : List Out} (p : Nat) (resp upd : Bool) (h : Inv1 c s exp)
    (hnoted : Noted s)
    (hupd : upd = true → resp = false ∧ (∀ u, s.uw.head? = some u → u + c.cool ≤ s.now) ∧
      (∀ d, s.cd = some d → s.now + c.cool ≤ d) ∧ (s.cd = none → c.cool = 0))
    (hpac : s.tSet.isSome = true → s.onBus = none → s.pac = some p)
    (hwin : ∀ ts, s.tSet = some ts → s.connOk = true → s.onBus = none → s.now ≤ ts + c.cool) :
    Inv1 c (send c s p resp upd s.now).1 (exp ++ (send c s p resp upd s.now).2) ∧
    Noted (send c s p resp upd s.now).1 ∧ NoPend (send c s p resp upd s.now).1 := by
  by_cases hconn : s.conn = true
  · rw [send_conn p resp upd hconn]
    have h1 : Inv1 c (sent1 c s p upd) (exp ++ [outOf p resp s.now]) := by
      obtain ⟨g1, g1', g2, g3, g4, g5, g6, g7, g8, g9, g10, g13, g14⟩ := h
      refine ⟨g1, g1', ?_, g3, g4, ?_, ?_, ?_, ?_, g9, g10, g13, ?_⟩
      · intro d hd
        simp only [sent1] at hd
        split at hd
        · cases hd; exact Nat.le_add_right _ _
        · exact g2 d hd
      · intro o ho
        rcases List.mem_append.1 ho with ho | ho
        · exact g5 o ho
        · simp only [List.mem_singleton] at ho
          subst ho
          unfold outOf
          cases resp <;> rfl
      · simp only [sent1]
        by_cases hu : upd = true
        · simp only [hu, ↓reduceIte]
          obtain ⟨_, hhead, _, _⟩ := hupd hu
          refine List.pairwise_cons.2 ⟨?_, g6⟩
          intro b hb
          cases huw : s.uw with
          | nil => simp [huw] at hb
          | cons u tl =>
            have hu' := hhead u (by simp [huw])
            rw [huw] at hb g6
            rcases List.mem_cons.1 hb with rfl | hb
            · exact hu'
            · have := (List.pairwise_cons.1 g6).1 b hb
              omega
        · simp only [hu, Bool.false_eq_true, ↓reduceIte]; exact g6
      · simp only [sent1]
        by_cases hu : upd = true
        · simp only [hu, ↓reduceIte, List.head?_cons, Option.some.injEq]
          obtain ⟨_, _, hcd, hnone⟩ := hupd hu
          intro u hu'
          subst hu'
          refine ⟨Nat.le_refl _, hcd, ?_⟩
          intro hn
          have := hnone hn
          omega
        · simp only [hu, Bool.false_eq_true, ↓reduceIte]; exact g7
      · simp only [sent1]
        intro t ht
        by_cases hu : upd = true
        · simp only [hu, ↓reduceIte, List.mem_cons] at ht
          rcases ht with rfl | ht
          · refine ⟨p, ?_⟩
            have := (hupd hu).1
            subst this
            simp [outOf]
          · obtain ⟨q, hq⟩ := g8 t ht
            exact ⟨q, mem_append_mid hq⟩
        · simp only [hu, Bool.false_eq_true, ↓reduceIte] at ht
          obtain ⟨q, hq⟩ := g8 t ht
          exact ⟨q, mem_append_mid hq⟩
      · intro τ hτ
        obtain ⟨q, hq, hm⟩ := g14 τ hτ
        exact ⟨q, hq, hm.imp mem_append_mid mem_append_mid⟩
    have hn := noteOnBus_spec (c := c) (s := sent1 c s p upd) .sent h1 hwin (by
      intro _ heq
      simp only [sent1] at heq
      refine ⟨p, heq.symm, ?_⟩
      show Out.w p s.now ∈ _ ∨ Out.r p s.now ∈ _
      unfold outOf
      cases resp
      · left; simp
      · right; simp)
    refine ⟨hn.1, hn.2, ?_⟩
    -- nothing is pending after a successful send of the value set
    intro ts hts hok hob
    have hf := noteOnBus_frame (sent1 c s p upd) s.now .sent
    have hob0 : s.onBus = none := hf.2.2.2.2.2.2.2.2.2.2.2.2 hob
    have hts0 : s.tSet = some ts := by rw [hf.2.1] at hts; exact hts
    have hp := hpac (by simp [hts0]) hob0
    have := noteOnBus_some (s := sent1 c s p upd) (t := s.now) (why := .sent)
      hob0 (by simp [sent1, hts0]) (by simp [sent1, hp])
    rw [this] at hob
    cases hob
  · have hconn' : s.conn = false := by simpa using hconn
    rw [send_noconn p resp upd s.now hconn']
    simp only [List.append_nil]
    refine ⟨h, hnoted, ?_⟩
    intro ts _ hok _
    exact absurd (h.okConn hok) hconn


theorem send_frame_t (c : Cfg) (s : St) (p : Nat) (resp upd : Bool) (t : Nat) :
    (send c s p resp upd t).1.cd = s.cd ∧ (send c s p resp upd t).1.cdWait = s.cdWait ∧
    (send c s p resp upd t).1.now = s.now ∧ (send c s p resp upd t).1.conn = s.conn ∧
    (send c s p resp upd t).1.pac = s.pac ∧ (send c s p resp upd t).1.tSet = s.tSet ∧
    (send c s p resp upd t).1.connOk = s.connOk ∧ (send c s p resp upd t).1.log = s.log := by
  unfold send
  split
  · simp only [noteOnBus]
    split <;> simp
  · simp

theorem send_frame (c : Cfg) (s : St) (p : Nat) (resp upd : Bool) :
    (send c s p resp upd s.now).1.cd = s.cd ∧ (send c s p resp upd s.now).1.cdWait = s.cdWait ∧
    (send c s p resp upd s.now).1.now = s.now ∧ (send c s p resp upd s.now).1.conn = s.conn ∧
    (send c s p resp upd s.now).1.pac = s.pac ∧ (send c s p resp upd s.now).1.tSet = s.tSet ∧
    (send c s p resp upd s.now).1.connOk = s.connOk ∧ (send c s p resp upd s.now).1.log = s.log :=
  send_frame_t c s p resp upd s.now

/-- `start_task(cooldown)` when nothing is pending. -/
theorem restartCd_spec {c : Cfg} {s : St} {exp : List Out} (h : Inv1 c s exp) (hn : Noted s) (hp : NoPend s) :
    Inv1 c (restartCd c s s.now) exp ∧ Noted (restartCd c s s.now) ∧ NoPend (restartCd c s s.now) := by
  unfold restartCd
  by_cases hc : (c.cool != 0) = true
  · simp only [hc, ↓reduceIte]
    obtain ⟨g1, g1', g2, g3, g4, g5, g6, g7, g8, g9, g10, g13, g14⟩ := h
    refine ⟨⟨?_, ?_, g2, ?_, ?_, g5, g6, ?_, g8, g9, g10, g13, g14⟩, hn, hp⟩
    · intro d hd; cases hd; exact Nat.le_add_right _ _
    · intro d hd; cases hd; exact Nat.le_refl _
    · intro hw; cases hw
    · intro h0; simp [h0] at hc
    · intro u hu
      obtain ⟨a, _, _⟩ := g7 u hu
      refine ⟨a, ?_, fun hnone => by cases hnone⟩
      intro d hd; cases hd; omega
  · simp only [hc, Bool.false_eq_true, ↓reduceIte]
    exact ⟨h, hn, hp⟩

theorem Inv1.append_nil {c : Cfg} {s : St} {exp : List Out} (h : Inv1 c s (exp ++ [])) : Inv1 c s exp := by
  simpa using h

theorem doRead_Inv {c : Cfg} {s : St} (h : Inv c s []) : Inv c (doRead c s s.now).1 (doRead c s s.now).2 := by
  unfold doRead
  by_cases hr : (!c.respond) = true
  · simp only [hr, ↓reduceIte]; exact h
  · simp only [hr, Bool.false_eq_true, ↓reduceIte]
    cases hpac : s.pac with
    | some p =>
      simp only
      have hs := send_spec (c := c) (exp := []) p true false h.toInv1 h.noted (fun hx => by cases hx)
        (fun _ _ => hpac) (window_of_pend h.cdNow h.pending)
      have hf := send_frame c s p true false
      have hr := restartCd_spec (c := c) hs.1 hs.2.1 hs.2.2
      rw [hf.2.2.1] at hr
      simp only [List.nil_append] at hr
      exact ⟨hr.1, hr.2.1, hr.2.2.pend⟩
    | none =>
      simp only
      cases hl : s.last with
      | some l =>
        simp only
        have hs := send_spec (c := c) (exp := []) l true false h.toInv1 h.noted (fun hx => by cases hx)
          (fun hts _ => by
            cases hts' : s.tSet with
            | none => simp [hts'] at hts
            | some ts => have := (h.tSetPac ts hts').1; simp [hpac] at this)
          (window_of_pend h.cdNow h.pending)
        simp only [List.nil_append] at hs
        exact ⟨hs.1, hs.2.1, hs.2.2.pend⟩
      | none => exact h

/-- `_cooldown_send` running at `s.now` while connected (`clearCd s` = the state with the task's timer cleared). -/
theorem cooldownTarget_spec {c : Cfg} {s : St} {exp : List Out} (hcool : c.cool ≠ 0)
    (h : Inv1 c (clearCd s) exp) (hn : Noted s)
    (hwin : ∀ ts, s.tSet = some ts → s.connOk = true → s.onBus = none → s.now ≤ ts + c.cool) :
    Inv1 c (cooldownTarget c s s.now).1 (exp ++ (cooldownTarget c s s.now).2) ∧
    Noted (cooldownTarget c s s.now).1 ∧ NoPend (cooldownTarget c s s.now).1 := by
  unfold cooldownTarget
  cases hpac : s.pac with
  | none =>
    simp only [List.append_nil]
    refine ⟨h, hn, ?_⟩
    intro ts hts _ _
    have := (h.tSetPac ts hts).1
    simp [clearCd, hpac] at this
  | some p =>
    simp only
    by_cases heq : (s.last == some p) = true
    · simp only [heq, ↓reduceIte, List.append_nil]
      refine ⟨h, hn, ?_⟩
      intro ts hts _ hob
      have := hn hob (by simpa [clearCd] using congrArg Option.isSome hts)
      simp only [beq_iff_eq] at heq
      rw [heq, hpac] at this
      exact this rfl
    · simp only [heq, Bool.false_eq_true, ↓reduceIte]
      -- the task goes on: next firing one cooldown from now
      have h3 : Inv1 c (armCd c s s.now) exp := by
        obtain ⟨g1, g1', g2, g3, g4, g5, g6, g7, g8, g9, g10, g13, g14⟩ := h
        refine ⟨?_, ?_, g2, ?_, ?_, g5, g6, ?_, g8, g9, g10, g13, g14⟩
        · intro d hd; simp only [armCd] at hd; cases hd; exact Nat.le_add_right _ _
        · intro d hd; simp only [armCd] at hd; cases hd; exact Nat.le_refl _
        · intro hw; simp [armCd] at hw
        · intro h0; exact absurd h0 hcool
        · intro u hu
          obtain ⟨a, _, _⟩ := g7 u hu
          refine ⟨a, ?_, fun hnone => by simp [armCd] at hnone⟩
          intro d hd; simp only [armCd] at hd; cases hd
          have a' : u ≤ s.now := a
          show u + c.cool ≤ s.now + c.cool
          omega
      have hs := send_spec (c := c) (s := armCd c s s.now) (exp := exp) p false true h3 hn
        (fun _ => ⟨rfl, fun u hu => (h.uwHead u hu).2.2 rfl, fun d hd => by
            simp only [armCd] at hd; cases hd; exact Nat.le_refl _,
          fun hnone => by simp [armCd] at hnone⟩)
        (fun _ _ => hpac) hwin
      exact hs

theorem doSet_Inv {c : Cfg} {s : St} (p : Nat) (skip : Bool) (h : Inv c s []) :
    Inv c (doSet c s p skip s.now).1 (doSet c s p skip s.now).2 := by
  unfold doSet
  by_cases hsk : (skip && s.pac == some p) = true
  · simp only [hsk, ↓reduceIte]; exact h
  · simp only [hsk, Bool.false_eq_true, ↓reduceIte]
    -- the update is taken
    have h1 : Inv1 c (takeUpdate s p s.now) [] := by
      obtain ⟨⟨g1, g1', g2, g3, g4, g5, g6, g7, g8, g9, g10, g13, g14⟩, _, _⟩ := h
      refine ⟨g1, g1', g2, g3, g4, g5, g6, g7, g8, fun hk => hk, ?_, ?_, ?_⟩
      · intro ts hts; simp only [takeUpdate] at hts; cases hts; exact ⟨rfl, Nat.le_refl _⟩
      · intro τ w hτ; simp [takeUpdate] at hτ
      · intro τ hτ; simp [takeUpdate] at hτ
    have hnb : Inv1 c (noteOnBus (takeUpdate s p s.now) s.now .already) [] ∧
        Noted (noteOnBus (takeUpdate s p s.now) s.now .already) :=
      noteOnBus_spec (c := c) .already h1
        (fun ts hts _ _ => by simp only [takeUpdate] at hts; cases hts; exact Nat.le_add_right _ _)
        (fun hx => by cases hx)
    have hf := noteOnBus_frame (takeUpdate s p s.now) s.now .already
    have hnow : (noteOnBus (takeUpdate s p s.now) s.now .already).now = s.now := hf.2.2.2.2.2.2.2.2.1
    have hts : (noteOnBus (takeUpdate s p s.now) s.now .already).tSet = some s.now := hf.2.1
    have hpac : (noteOnBus (takeUpdate s p s.now) s.now .already).pac = some p := hf.2.2.2.1
    have hcd : (noteOnBus (takeUpdate s p s.now) s.now .already).cd = s.cd := hf.1
    have hwt : (noteOnBus (takeUpdate s p s.now) s.now .already).cdWait = s.cdWait := hf.2.2.2.2.2.2.1
    have hok : (noteOnBus (takeUpdate s p s.now) s.now .already).connOk = s.conn := hf.2.2.1
    generalize noteOnBus (takeUpdate s p s.now) s.now .already = s2 at *
    by_cases hcool : (c.cool != 0) = true
    · simp only [hcool, ↓reduceIte]
      have hcool' : c.cool ≠ 0 := by simpa using hcool
      by_cases hrun : s2.cdRunning = true
      · simp only [hrun, ↓reduceIte]
        refine ⟨hnb.1, hnb.2, ?_⟩
        -- pending behind the running cooldown task
        intro ts hts' hok' _
        rw [hts] at hts'; cases hts'
        rw [hok] at hok'
        simp only [St.cdRunning, Bool.or_eq_true, hcd, hwt] at hrun
        refine ⟨hcool', ?_⟩
        rcases hrun with hcd' | hw
        · cases hd : s.cd with
          | none => simp [hd] at hcd'
          | some d => exact ⟨d, by rw [hcd, hd], h.cdSoon d hd⟩
        · have := (h.waitConn hw).1
          rw [this] at hok'; cases hok'
      · simp only [hrun, Bool.false_eq_true, ↓reduceIte]
        simp only [St.cdRunning, Bool.or_eq_true, not_or, Bool.not_eq_true, Option.isSome_eq_false_iff,
          Option.isNone_iff_eq_none] at hrun
        obtain ⟨hcdn, hwn⟩ := hrun
        have h3 : Inv1 c (startCd c s2 s.now) [] := by
          obtain ⟨g1, g1', g2, g3, g4, g5, g6, g7, g8, g9, g10, g13, g14⟩ := hnb.1
          refine ⟨?_, ?_, g2, ?_, ?_, g5, g6, ?_, g8, g9, g10, g13, g14⟩
          · intro d hd; simp only [startCd] at hd; cases hd; simp only [startCd, hnow]; exact Nat.le_add_right _ _
          · intro d hd; simp only [startCd] at hd; cases hd; simp only [startCd, hnow]; exact Nat.le_refl _
          · intro hw; simp only [startCd] at hw; rw [hwn] at hw; cases hw
          · intro h0; exact absurd h0 hcool'
          · intro u hu
            simp only [startCd] at hu ⊢
            obtain ⟨a, _, b⟩ := g7 u hu
            refine ⟨a, ?_, fun hnone => by cases hnone⟩
            intro d hd; cases hd
            have := b hcdn
            omega
        have hnow3 : (startCd c s2 s.now).now = s.now := hnow
        have hs := send_spec (c := c) (exp := []) p false true h3 hnb.2
          (fun _ => ⟨rfl, fun u hu => by
              rw [hnow3]
              have := (hnb.1.uwHead u hu).2.2 hcdn
              omega,
            fun d hd => by simp only [startCd] at hd; cases hd; rw [hnow3]; exact Nat.le_refl _,
            fun hnone => by simp [startCd] at hnone⟩)
          (fun _ _ => hpac)
          (fun ts hts' _ _ => by
            simp only [startCd] at hts'; rw [hts] at hts'; cases hts'
            rw [hnow3]; exact Nat.le_add_right _ _)
        rw [hnow3] at hs
        simp only [List.nil_append] at hs
        exact ⟨hs.1, hs.2.1, hs.2.2.pend⟩
    · simp only [hcool, Bool.false_eq_true, ↓reduceIte]
      have hcool0 : c.cool = 0 := by simpa using hcool
      have hcdn := (hnb.1.noCool hcool0).1
      have hs := send_spec (c := c) (exp := []) p false true hnb.1 hnb.2
        (fun _ => ⟨rfl, fun u hu => by
            have := (hnb.1.uwHead u hu).2.2 hcdn
            omega,
          fun d hd => (by rw [hcdn] at hd; cases hd), fun _ => hcool0⟩)
        (fun _ _ => hpac)
        (fun ts hts' _ _ => by
          rw [hts] at hts'; cases hts'
          rw [hnow]; exact Nat.le_add_right _ _)
      rw [hnow] at hs
      simp only [List.nil_append] at hs
      exact ⟨hs.1, hs.2.1, hs.2.2.pend⟩


theorem clearCd_Inv1 {c : Cfg} {s : St} {exp : List Out} (h : Inv1 c s exp)
    (hu : ∀ u, s.uw.head? = some u → u + c.cool ≤ s.now) : Inv1 c (clearCd s) exp := by
  obtain ⟨g1, g1', g2, g3, g4, g5, g6, g7, g8, g9, g10, g13, g14⟩ := h
  refine ⟨?_, ?_, g2, ?_, ?_, g5, g6, ?_, g8, g9, g10, g13, g14⟩
  · intro d hd; simp [clearCd] at hd
  · intro d hd; simp [clearCd] at hd
  · intro hw; simp [clearCd] at hw
  · intro _; exact ⟨rfl, rfl⟩
  · intro u hu'
    refine ⟨(g7 u hu').1, fun d hd => by simp [clearCd] at hd, fun _ => hu u hu'⟩

theorem doConn_Inv {c : Cfg} {s : St} (up : Bool) (h : Inv c s []) :
    Inv c (doConn c s up s.now).1 (doConn c s up s.now).2 := by
  unfold doConn
  by_cases hsame : (s.conn == up) = true
  · simp only [hsame, ↓reduceIte]; exact h
  · simp only [hsame, Bool.false_eq_true, ↓reduceIte]
    cases up with
    | true =>
      simp only [↓reduceIte]
      have hconn : s.conn = false := by
        cases hc : s.conn <;> simp [hc] at hsame ⊢
      have hok : s.connOk = false := by
        cases hk : s.connOk with
        | false => rfl
        | true => have := h.okConn hk; rw [hconn] at this; cases this
      by_cases hw : s.cdWait = true
      · have hw' : (connUp c s s.now).cdWait = true := hw
        first | rw [if_pos hw'] | rw [if_pos hw]
        have hcool : c.cool ≠ 0 := fun h0 => by have := (h.noCool h0).2; rw [hw] at this; cases this
        have hcdn : s.cd = none := (h.waitConn hw).2
        have h1 : Inv1 c (clearCd (connUp c s s.now)) [] := by
          obtain ⟨⟨g1, g1', g2, g3, g4, g5, g6, g7, g8, g9, g10, g13, g14⟩, _, _⟩ := h
          refine ⟨?_, ?_, ?_, ?_, ?_, g5, g6, ?_, g8, ?_, g10, ?_, g14⟩
          · intro d hd; simp [clearCd] at hd
          · intro d hd; simp [clearCd] at hd
          · intro d hd
            simp only [clearCd, connUp] at hd
            split at hd
            · cases hd; exact Nat.le_add_right _ _
            · cases hd
          · intro hw; simp [clearCd] at hw
          · intro _; exact ⟨rfl, rfl⟩
          · intro u hu'
            refine ⟨(g7 u hu').1, fun d hd => by simp [clearCd] at hd, fun _ => (g7 u hu').2.2 hcdn⟩
          · intro _; rfl
          · intro τ w hτ
            obtain ⟨ts, a, b, d, _⟩ := g13 τ w hτ
            exact ⟨ts, a, b, d, fun hk => by simp only [clearCd, connUp] at hk; rw [hok] at hk; cases hk⟩
        have hs := cooldownTarget_spec (c := c) (s := connUp c s s.now) (exp := []) hcool h1 h.noted
          (fun ts _ hk _ => by simp only [connUp] at hk; rw [hok] at hk; cases hk)
        simp only [List.nil_append] at hs
        exact ⟨hs.1, hs.2.1, hs.2.2.pend⟩
      · have hw' : (connUp c s s.now).cdWait = false := by
          show s.cdWait = false
          simpa using hw
        have hw'' : ¬ (connUp c s s.now).cdWait = true := by rw [hw']; simp
        first | rw [if_neg hw''] | rw [if_neg hw]
        obtain ⟨⟨g1, g1', g2, g3, g4, g5, g6, g7, g8, g9, g10, g13, g14⟩, gn, gp⟩ := h
        refine ⟨⟨g1, g1', ?_, ?_, g4, g5, g6, g7, g8, fun _ => rfl, g10, g13, g14⟩, gn, ?_⟩
        · intro d hd
          simp only [connUp] at hd
          split at hd
          · cases hd; exact Nat.le_add_right _ _
          · cases hd
        · intro hw2; rw [hw'] at hw2; cases hw2
        · intro ts _ hk _
          simp only [connUp] at hk; rw [hok] at hk; cases hk
    | false =>
      simp only [Bool.false_eq_true, ↓reduceIte]
      obtain ⟨⟨g1, g1', g2, g3, g4, g5, g6, g7, g8, g9, g10, g13, g14⟩, gn, gp⟩ := h
      refine ⟨⟨g1, g1', ?_, ?_, g4, g5, g6, g7, g8, ?_, g10, ?_, g14⟩, gn, ?_⟩
      · intro d hd; simp [connDown] at hd
      · intro hw; exact ⟨rfl, (g3 hw).2⟩
      · intro hk; simp [connDown] at hk
      · intro τ w hτ
        obtain ⟨ts, a, b, d, _⟩ := g13 τ w hτ
        exact ⟨ts, a, b, d, fun hk => by simp [connDown] at hk⟩
      · intro ts _ hk _; simp [connDown] at hk

/-- The cooldown task's sleep ends now. -/
theorem fireCd_Inv {c : Cfg} {s : St} (h : Inv c s []) (hcd : s.cd = some s.now) :
    Inv c (fireCd c s s.now).1 (fireCd c s s.now).2 := by
  have hcool : c.cool ≠ 0 := fun h0 => by have := (h.noCool h0).1; rw [hcd] at this; cases this
  have hu : ∀ u, s.uw.head? = some u → u + c.cool ≤ s.now := fun u hu => (h.uwHead u hu).2.1 _ hcd
  unfold fireCd
  by_cases hconn : s.conn = true
  · simp only [hconn, ↓reduceIte]
    have hs := cooldownTarget_spec (c := c) (s := s) (exp := []) hcool (clearCd_Inv1 h.toInv1 hu) h.noted
      (window_of_pend h.cdNow h.pending)
    simp only [List.nil_append] at hs
    exact ⟨hs.1, hs.2.1, hs.2.2.pend⟩
  · simp only [hconn, Bool.false_eq_true, ↓reduceIte]
    have hconn' : s.conn = false := by simpa using hconn
    obtain ⟨⟨g1, g1', g2, g3, g4, g5, g6, g7, g8, g9, g10, g13, g14⟩, gn, gp⟩ := h
    refine ⟨⟨?_, ?_, g2, ?_, ?_, g5, g6, ?_, g8, g9, g10, g13, g14⟩, gn, ?_⟩
    · intro d hd; simp [waitCd] at hd
    · intro d hd; simp [waitCd] at hd
    · intro _; exact ⟨hconn', rfl⟩
    · intro h0; exact absurd h0 hcool
    · intro u hu'
      refine ⟨(g7 u hu').1, fun d hd => by simp [waitCd] at hd, fun _ => hu u hu'⟩
    · intro ts _ hk _
      have := g9 hk
      rw [hconn'] at this; cases this

/-- The periodic task's sleep ends now. -/
theorem firePer_Inv {c : Cfg} {s : St} (h : Inv c s []) :
    Inv c (firePer c s s.now).1 (firePer c s s.now).2 := by
  have h1 : Inv1 c (perLoop c s s.now) [] := by
    obtain ⟨⟨g1, g1', g2, g3, g4, g5, g6, g7, g8, g9, g10, g13, g14⟩, _, _⟩ := h
    refine ⟨g1, g1', ?_, g3, g4, g5, g6, g7, g8, g9, g10, g13, g14⟩
    intro d hd; simp only [perLoop] at hd; cases hd; exact Nat.le_add_right _ _
  unfold firePer
  cases hpac : s.pac with
  | none => exact ⟨h1, h.noted, h.pending⟩
  | some p =>
    simp only
    have hs := send_spec (c := c) (s := perLoop c s s.now) (exp := []) p false false h1 h.noted
      (fun hx => by cases hx) (fun _ _ => hpac) (window_of_pend h.cdNow h.pending)
    have hf := send_frame c (perLoop c s s.now) p false false
    have hr := restartCd_spec (c := c) hs.1 hs.2.1 hs.2.2
    rw [hf.2.2.1] at hr
    simp only [List.nil_append] at hr
    exact ⟨hr.1, hr.2.1, hr.2.2.pend⟩

theorem tick_Inv {c : Cfg} {s : St} {t : Nat} (h : Inv c s []) (ht : s.now ≤ t)
    (hcd : ∀ d, s.cd = some d → t ≤ d) (hper : ∀ d, s.per = some d → t ≤ d) : Inv c (tick s t) [] := by
  obtain ⟨⟨g1, g1', g2, g3, g4, g5, g6, g7, g8, g9, g10, g13, g14⟩, gn, gp⟩ := h
  refine ⟨⟨hcd, ?_, hper, g3, g4, ?_, g6, ?_, g8, g9, ?_, ?_, g14⟩, gn, gp⟩
  · intro d hd
    have := g1' d hd
    simp only [tick]; omega
  · intro o ho; cases ho
  · intro u hu
    obtain ⟨a, b, d⟩ := g7 u hu
    refine ⟨by simp only [tick]; omega, b, fun hn => ?_⟩
    have := d hn
    simp only [tick]; omega
  · intro ts hts
    obtain ⟨a, b⟩ := g10 ts hts
    exact ⟨a, by simp only [tick]; omega⟩
  · intro τ w hτ
    obtain ⟨ts, a, b, d, e⟩ := g13 τ w hτ
    exact ⟨ts, a, b, by simp only [tick]; omega, e⟩

theorem mem_erase_cons {α} [DecidableEq α] {a x : α} {l m : List α} (h : a ∈ l ++ m) :
    a ∈ l.erase x ++ x :: m := by
  by_cases hx : a = x
  · subst hx; simp
  · rcases List.mem_append.1 h with h | h
    · exact List.mem_append.2 (Or.inl ((List.mem_erase_of_ne hx).2 h))
    · exact List.mem_append.2 (Or.inr (List.mem_cons_of_mem _ h))

/-- Observing one of the expected outputs. -/
theorem consume_Inv {c : Cfg} {s : St} {exp : List Out} (x : Out) (h : Inv c s exp) :
    Inv c { s with expect := exp.erase x, log := x :: s.log } (exp.erase x) := by
  obtain ⟨⟨g1, g1', g2, g3, g4, g5, g6, g7, g8, g9, g10, g13, g14⟩, gn, gp⟩ := h
  refine ⟨⟨g1, g1', g2, g3, g4, ?_, g6, g7, ?_, g9, g10, g13, ?_⟩, gn, gp⟩
  · intro o ho; exact g5 o (List.mem_of_mem_erase ho)
  · intro t ht
    obtain ⟨q, hq⟩ := g8 t ht
    exact ⟨q, mem_erase_cons hq⟩
  · intro τ hτ
    obtain ⟨q, hq, hm⟩ := g14 τ hτ
    exact ⟨q, hq, hm.imp mem_erase_cons mem_erase_cons⟩

/-- The `expect` field itself is not read by the invariant. -/
theorem Inv.setExpect {c : Cfg} {s : St} {exp : List Out} (e : List Out) (h : Inv c s exp) :
    Inv c { s with expect := e } exp := by
  obtain ⟨⟨g1, g1', g2, g3, g4, g5, g6, g7, g8, g9, g10, g13, g14⟩, gn, gp⟩ := h
  exact ⟨⟨g1, g1', g2, g3, g4, g5, g6, g7, g8, g9, g10, g13, g14⟩, gn, gp⟩


/-! ### Lifting to every accepted trace -/

theorem send_expect (c : Cfg) (s : St) (p : Nat) (resp upd : Bool) (t : Nat) :
    (send c s p resp upd t).1.expect = s.expect := by
  unfold send
  split
  · exact (noteOnBus_frame _ t .sent).2.2.2.2.2.2.2.2.2.2.2.1
  · rfl

theorem restartCd_expect (c : Cfg) (s : St) (t : Nat) : (restartCd c s t).expect = s.expect := by
  unfold restartCd; split <;> rfl

theorem nextTimer_le {s : St} {tm : Timer} (h : nextTimer s = some tm) :
    (∀ a, s.cd = some a → tm.at ≤ a) ∧ (∀ b, s.per = some b → tm.at ≤ b) := by
  unfold nextTimer at h
  cases hc : s.cd <;> cases hp : s.per <;> simp only [hc, hp] at h
  · cases h
  · cases h
    refine ⟨fun a ha => ?_, fun b hb => ?_⟩
    · cases ha
    · cases hb; exact Nat.le_refl _
  · cases h
    refine ⟨fun a ha => ?_, fun b hb => ?_⟩
    · cases ha; exact Nat.le_refl _
    · cases hb
  · rename_i a b
    by_cases hab : a < b
    · simp only [hab, ↓reduceIte, Option.some.injEq] at h
      subst h
      refine ⟨fun a' ha => ?_, fun b' hb => ?_⟩
      · cases ha; exact Nat.le_refl _
      · cases hb; simp only [Timer.at]; omega
    · simp only [hab, ↓reduceIte, Option.some.injEq] at h
      subst h
      refine ⟨fun a' ha => ?_, fun b' hb => ?_⟩
      · cases ha; simp only [Timer.at]; omega
      · cases hb; exact Nat.le_refl _

/-- A timer firing (from a state with nothing pending to observe) keeps the invariant. -/
theorem fire_Inv {c : Cfg} {s : St} {tm : Timer} (h : Inv c s []) (hn : nextTimer s = some tm) :
    Inv c (fire c s tm).1 (fire c s tm).2 := by
  obtain ⟨hle1, hle2⟩ := nextTimer_le hn
  cases tm with
  | cd d =>
    have hcd := nextTimer_cd hn
    have ht := tick_Inv (t := d) h (h.cdNow d hcd) hle1 hle2
    exact fireCd_Inv (s := tick s d) ht hcd
  | per d =>
    have hper := nextTimer_per hn
    have ht := tick_Inv (t := d) h (h.perNow d hper) hle1 hle2
    exact firePer_Inv (s := tick s d) ht

theorem cooldownTarget_now (c : Cfg) (s : St) : (cooldownTarget c s s.now).1.now = s.now := by
  unfold cooldownTarget
  split
  · rfl
  · split
    · rfl
    · exact (send_frame c (armCd c s s.now) _ false true).2.2.1

theorem restartCd_now (c : Cfg) (s : St) (t : Nat) : (restartCd c s t).now = s.now := by
  unfold restartCd; split <;> rfl

theorem fire_now (c : Cfg) (s : St) (tm : Timer) : (fire c s tm).1.now = tm.at := by
  cases tm with
  | cd d =>
    show (fireCd c (tick s d) (tick s d).now).1.now = d
    unfold fireCd
    split
    · exact cooldownTarget_now c (tick s d)
    · rfl
  | per d =>
    show (firePer c (tick s d) (tick s d).now).1.now = d
    unfold firePer
    split
    · simp only
      rw [restartCd_now]
      exact (send_frame c (perLoop c (tick s d) (tick s d).now) _ false false).2.2.1
    · rfl

/-- Silent firings leave nothing to observe. -/
theorem advance_expect {c : Cfg} {s s1 : St} {t : Nat} {incl : Bool} {fuel : Nat} (he : s.expect = [])
    (ha : advance c t incl fuel s = some s1) : (tick s1 t).expect = [] := by
  have := advance_ind (c := c) (t := t) (incl := incl) (fun s => s.expect = [])
    (fun s tm hp hn _ he => by
      cases tm with
      | cd d =>
        show (fireCd c (tick s d) d).1.expect = []
        unfold fireCd
        split
        · unfold cooldownTarget
          split
          · exact hp
          · split
            · exact hp
            · exact (send_expect c (armCd c (tick s d) d) _ false true d).trans hp
        · exact hp
      | per d =>
        show (firePer c (tick s d) d).1.expect = []
        unfold firePer
        split
        · simp only
          rw [restartCd_expect]
          exact (send_expect c (perLoop c (tick s d) d) _ false false d).trans hp
        · exact hp) _ s s1 he ha
  exact this.1

theorem advance_Inv {c : Cfg} {s s1 : St} {t : Nat} {incl : Bool} {fuel : Nat} (h : Inv c s []) (hnow : s.now ≤ t)
    (ha : advance c t incl fuel s = some s1) :
    Inv c s1 [] ∧ s1.now ≤ t ∧
      (∀ d, s1.cd = some d → due t incl d = false) ∧ (∀ d, s1.per = some d → due t incl d = false) := by
  have := advance_ind (c := c) (t := t) (incl := incl) (fun s => Inv c s [] ∧ s.now ≤ t)
    (fun s tm hp hn hd he => by
      refine ⟨?_, ?_⟩
      · have := fire_Inv hp.1 hn; rw [he] at this; exact this
      · rw [fire_now]; exact due_true hd) fuel s s1 ⟨h, hnow⟩ ha
  exact ⟨this.1.1, this.1.2, nextTimer_min this.2⟩

theorem inputReaction_Inv {c : Cfg} {s : St} {o : Obs} {r : St × List Out} (h : Inv c s [])
    (hnow : s.now = o.time) (hr : inputReaction c s o = some r) : Inv c r.1 r.2 := by
  cases o with
  | set p k t =>
    simp only [inputReaction, Option.some.injEq] at hr
    simp only [Obs.time] at hnow
    subst hr; rw [← hnow]; exact doSet_Inv p k h
  | init p t =>
    simp only [inputReaction, Option.some.injEq] at hr
    subst hr; exact doInit_Inv p h
  | read t =>
    simp only [inputReaction, Option.some.injEq] at hr
    simp only [Obs.time] at hnow
    subst hr; rw [← hnow]; exact doRead_Inv h
  | bus p t =>
    simp only [inputReaction, Option.some.injEq] at hr
    simp only [Obs.time] at hnow
    subst hr; rw [← hnow]; exact doBus_Inv p h
  | conn u t =>
    simp only [inputReaction, Option.some.injEq] at hr
    simp only [Obs.time] at hnow
    subst hr; rw [← hnow]; exact doConn_Inv u h
  | out x => simp [inputReaction] at hr
  | q p t => simp [inputReaction] at hr
  | fin t => simp [inputReaction] at hr

theorem Inv.congrExp {c : Cfg} {s : St} {exp exp' : List Out} (he : exp = exp') (h : Inv c s exp) : Inv c s exp' :=
  he ▸ h

/-- The `opt` field is not read by the invariant. -/
theorem Inv.setOpt {c : Cfg} {s : St} {exp : List Out} (e : List Out) (h : Inv c s exp) :
    Inv c { s with opt := e } exp := by
  obtain ⟨⟨g1, g1', g2, g3, g4, g5, g6, g7, g8, g9, g10, g13, g14⟩, gn, gp⟩ := h
  exact ⟨⟨g1, g1', g2, g3, g4, g5, g6, g7, g8, g9, g10, g13, g14⟩, gn, gp⟩

/-- What is known while an optional second write of a cooldown/periodic tie may still appear: it is a write at
the current instant, the cooldown task has just been restarted, and the previous update-caused write is at least
one cooldown ago. -/
def OptOk (c : Cfg) (s : St) : Prop :=
  ∀ o ∈ s.opt, ∃ p, o = Out.w p s.now ∧ c.cool ≠ 0 ∧ s.cd = some (s.now + c.cool) ∧
    ∀ u, s.uw.head? = some u → u + c.cool ≤ s.now

/-- The global invariant: `Inv` with the state's own expectation list, and `OptOk`. -/
def GInv (c : Cfg) (s : St) : Prop := Inv c s s.expect ∧ OptOk c s

theorem advance_tick_Inv {c : Cfg} {s s1 : St} {t : Nat} {fuel : Nat} (h : Inv c s []) (hnow : s.now ≤ t)
    (ha : advance c t true fuel s = some s1) : Inv c (tick s1 t) [] := by
  obtain ⟨h1, hle, hcd, hper⟩ := advance_Inv h hnow ha
  exact tick_Inv h1 hle (fun d hd => (due_false (hcd d hd)).1) (fun d hd => (due_false (hper d hd)).1)

theorem send_uw_noupd (c : Cfg) (s : St) (p : Nat) (resp : Bool) (t : Nat) :
    (send c s p resp false t).1.uw = s.uw := by
  unfold send
  split
  · simp only [noteOnBus]
    split <;> simp
  · rfl

theorem restartCd_uw (c : Cfg) (s : St) (t : Nat) : (restartCd c s t).uw = s.uw := by
  unfold restartCd; split <;> rfl

/-- The periodic task firing at `d` with something to send: the cooldown task is restarted, `uw` untouched. -/
theorem firePer_tie {c : Cfg} {s : St} {d p : Nat} (hpac : s.pac = some p) (hcool : c.cool ≠ 0) :
    (firePer c (tick s d) d).1.cd = some (d + c.cool) ∧ (firePer c (tick s d) d).1.uw = s.uw := by
  unfold firePer
  have hp : (tick s d).pac = some p := hpac
  rw [hp]
  simp only
  refine ⟨?_, ?_⟩
  · unfold restartCd
    have : (c.cool != 0) = true := by simpa using hcool
    rw [if_pos this]
  · rw [restartCd_uw, send_uw_noupd]
    rfl

theorem tieOpt_mem {s : St} {tm : Timer} {o : Out} (h : o ∈ tieOpt s tm) :
    ∃ d p, tm = .per d ∧ s.cd = some d ∧ s.pac = some p ∧ o = .w p d := by
  cases tm with
  | cd d => simp [tieOpt] at h
  | per d =>
    simp only [tieOpt] at h
    split at h
    · rename_i hc
      simp only [Bool.and_eq_true, beq_iff_eq] at hc
      cases hpac : s.pac with
      | none => simp [hpac] at h
      | some p =>
        simp only [hpac] at h
        split at h
        · cases h
        · simp only [List.mem_singleton] at h
          exact ⟨d, p, rfl, hc.1, rfl, h⟩
    · cases h

/-- Observing the optional second write: it is booked as an update-caused write. -/
theorem consumeOpt_Inv {c : Cfg} {s : St} {x : Out} (h : Inv c s []) (ho : OptOk c s) (hx : x ∈ s.opt) :
    Inv c { s with opt := [], uw := s.now :: s.uw, log := x :: s.log } [] := by
  obtain ⟨p, rfl, hcool, hcd, hu⟩ := ho x hx
  obtain ⟨⟨g1, g1', g2, g3, g4, g5, g6, g7, g8, g9, g10, g13, g14⟩, gn, gp⟩ := h
  refine ⟨⟨g1, g1', g2, g3, g4, g5, ?_, ?_, ?_, g9, g10, g13, ?_⟩, gn, gp⟩
  · refine List.pairwise_cons.2 ⟨?_, g6⟩
    intro b hb
    cases huw : s.uw with
    | nil => simp [huw] at hb
    | cons u tl =>
      have hu' := hu u (by simp [huw])
      rw [huw] at hb g6
      rcases List.mem_cons.1 hb with rfl | hb
      · exact hu'
      · have := (List.pairwise_cons.1 g6).1 b hb
        omega
  · intro u hu'
    simp only [List.head?_cons, Option.some.injEq] at hu'
    subst hu'
    refine ⟨Nat.le_refl _, ?_, ?_⟩
    · intro d hd
      simp only at hd
      rw [hcd] at hd; cases hd; exact Nat.le_refl _
    · intro hn
      simp only at hn
      rw [hcd] at hn; cases hn
  · intro t ht
    simp only [List.mem_cons] at ht
    rcases ht with rfl | ht
    · exact ⟨p, by simp⟩
    · obtain ⟨q, hq⟩ := g8 t ht
      exact ⟨q, by simp only [List.nil_append] at hq ⊢; exact List.mem_cons_of_mem _ hq⟩
  · intro τ hτ
    obtain ⟨q, hq, hm⟩ := g14 τ hτ
    refine ⟨q, hq, hm.imp ?_ ?_⟩ <;>
      (intro hm'; simp only [List.nil_append] at hm' ⊢; exact List.mem_cons_of_mem _ hm')

theorem step_GInv (c : Cfg) (s : St) (o : Obs) (s' : St) (h : GInv c s) (hs : step? c s o = some s') :
    GInv c s' := by
  obtain ⟨hnow, hc⟩ := step_cases hs
  obtain ⟨h, hopt⟩ := h
  unfold GInv
  cases hc with
  | consume x ho hne ht hmem hs =>
    subst hs
    exact ⟨consume_Inv x h, hopt⟩
  | consumeOpt x ho he ht hmem hs =>
    subst hs
    rw [he] at h
    refine ⟨?_, fun o ho => by cases ho⟩
    have := consumeOpt_Inv h hopt hmem
    rw [he]
    exact this.setExpect []
  | fire x s1 ho he ha hf =>
    rw [he] at h
    subst ho
    obtain ⟨h1, _, _, _⟩ := advance_Inv h hnow ha
    obtain ⟨tm, hn, _, _, rfl⟩ := fireAt_cases hf
    refine ⟨(consume_Inv x (fire_Inv h1 hn)).setOpt _, ?_⟩
    intro o ho
    simp only at ho
    obtain ⟨d, p, rfl, hcd, hpac, rfl⟩ := tieOpt_mem ho
    have hcool : c.cool ≠ 0 := fun h0 => by have := (h1.noCool h0).1; rw [hcd] at this; cases this
    have hf := firePer_tie (c := c) (s := s1) (d := d) hpac hcool
    have hnow' : (fire c s1 (.per d)).1.now = d := fire_now c s1 (.per d)
    refine ⟨p, ?_, hcool, ?_, ?_⟩
    · show Out.w p d = Out.w p (fire c s1 (.per d)).1.now
      rw [hnow']
    · show (fire c s1 (.per d)).1.cd = some ((fire c s1 (.per d)).1.now + c.cool)
      rw [hnow']; exact hf.1
    · intro u hu
      show u + c.cool ≤ (fire c s1 (.per d)).1.now
      rw [hnow']
      have hu' : s1.uw.head? = some u := by
        have : (fire c s1 (.per d)).1.uw = s1.uw := hf.2
        simp only at hu
        rw [this] at hu; exact hu
      exact (h1.uwHead u hu').2.1 d hcd
  | input s1 r he ha hr hs =>
    rw [he] at h
    subst hs
    have ht := advance_tick_Inv h hnow ha
    exact ⟨((inputReaction_Inv ht rfl hr).setExpect r.2).setOpt [], fun o ho => by cases ho⟩
  | sample s1 he ha hq hs =>
    rw [he] at h
    subst hs
    have ht := advance_tick_Inv h hnow ha
    have hexp : (tick s1 o.time).expect = [] := advance_expect he ha
    refine ⟨?_, fun o ho => by cases ho⟩
    exact Inv.congrExp hexp.symm (ht.setOpt [])

theorem GInv_run (c : Cfg) (k : Bool) (tr : List Obs) (s : St) (h : run? (step? c) (init c k) tr = some s) :
    GInv c s :=
  inv_run? (step? c) (GInv c) (step_GInv c) tr (init c k) s ⟨Inv_init c k, fun o ho => by cases ho⟩ h


/-! ### Relating the ghost fields to the trace -/

/-- The part of the state that is a function of the inputs alone. -/
def toTrack (s : St) : Track := ⟨s.pac, s.tSet, s.conn, s.connOk⟩

/-- The fields that only inputs change. -/
def SameIn (s s' : St) : Prop := toTrack s' = toTrack s ∧ s'.log = s.log

theorem SameIn.refl (s : St) : SameIn s s := ⟨rfl, rfl⟩

theorem SameIn.trans {a b d : St} (h1 : SameIn a b) (h2 : SameIn b d) : SameIn a d :=
  ⟨h2.1.trans h1.1, h2.2.trans h1.2⟩

theorem SameIn.of_fields {s s' : St} (h1 : s'.pac = s.pac) (h2 : s'.tSet = s.tSet) (h3 : s'.conn = s.conn)
    (h4 : s'.connOk = s.connOk) (h5 : s'.log = s.log) : SameIn s s' := by
  refine ⟨?_, h5⟩
  simp only [toTrack, h1, h2, h3, h4]

theorem send_SameIn (c : Cfg) (s : St) (p : Nat) (resp upd : Bool) (t : Nat) : SameIn s (send c s p resp upd t).1 :=
  have hf := send_frame_t c s p resp upd t
  SameIn.of_fields hf.2.2.2.2.1 hf.2.2.2.2.2.1 hf.2.2.2.1 hf.2.2.2.2.2.2.1 hf.2.2.2.2.2.2.2

theorem restartCd_SameIn (c : Cfg) (s : St) (t : Nat) : SameIn s (restartCd c s t) := by
  unfold restartCd; split <;> exact ⟨rfl, rfl⟩

theorem noteOnBus_SameIn (s : St) (t : Nat) (why : Why) : SameIn s (noteOnBus s t why) :=
  have hf := noteOnBus_frame s t why
  SameIn.of_fields hf.2.2.2.1 hf.2.1 hf.2.2.2.2.2.1 hf.2.2.1 hf.2.2.2.2.2.2.2.2.2.2.1

theorem cooldownTarget_SameIn (c : Cfg) (s : St) (t : Nat) : SameIn s (cooldownTarget c s t).1 := by
  unfold cooldownTarget
  split
  · exact ⟨rfl, rfl⟩
  · split
    · exact ⟨rfl, rfl⟩
    · exact SameIn.trans (b := armCd c s t) ⟨rfl, rfl⟩ (send_SameIn c (armCd c s t) _ false true t)

theorem fire_SameIn (c : Cfg) (s : St) (tm : Timer) : SameIn s (fire c s tm).1 := by
  cases tm with
  | cd d =>
    show SameIn s (fireCd c (tick s d) d).1
    unfold fireCd
    split
    · exact SameIn.trans (b := tick s d) ⟨rfl, rfl⟩ (cooldownTarget_SameIn c (tick s d) d)
    · exact ⟨rfl, rfl⟩
  | per d =>
    show SameIn s (firePer c (tick s d) d).1
    unfold firePer
    split
    · simp only
      refine SameIn.trans (b := perLoop c (tick s d) d) ⟨rfl, rfl⟩ ?_
      exact SameIn.trans (send_SameIn c (perLoop c (tick s d) d) _ false false d) (restartCd_SameIn c _ _)
    · exact ⟨rfl, rfl⟩

theorem advance_SameIn {c : Cfg} {s s1 : St} {t : Nat} {incl : Bool} {fuel : Nat}
    (ha : advance c t incl fuel s = some s1) : SameIn s s1 :=
  (advance_ind (c := c) (t := t) (incl := incl) (fun s' => SameIn s s')
    (fun s' tm hp _ _ _ => hp.trans (fire_SameIn c s' tm)) fuel s s1 (SameIn.refl s) ha).1

/-- An input changes the input-determined part of the state exactly as `track1` says, and not the log. -/
theorem inputReaction_track {c : Cfg} {s : St} {o : Obs} {r : St × List Out}
    (hr : inputReaction c s o = some r) : toTrack r.1 = track1 (toTrack s) o ∧ r.1.log = s.log := by
  cases o with
  | set p sk t =>
    simp only [inputReaction, Option.some.injEq] at hr
    subst hr
    unfold doSet
    simp only [track1]
    by_cases hsk : (sk && s.pac == some p) = true
    · have hsk' : (sk && (toTrack s).lastSet == some p) = true := hsk
      rw [if_pos hsk, if_pos hsk']
      exact ⟨rfl, rfl⟩
    · have hsk' : ¬ (sk && (toTrack s).lastSet == some p) = true := hsk
      rw [if_neg hsk, if_neg hsk']
      have hn := noteOnBus_SameIn (takeUpdate s p t) t .already
      have base : toTrack (takeUpdate s p t) =
          { toTrack s with lastSet := some p, tSet := some t, connOk := (toTrack s).conn } := rfl
      have fin : ∀ s3 : St, SameIn (noteOnBus (takeUpdate s p t) t .already) s3 →
          toTrack s3 = { toTrack s with lastSet := some p, tSet := some t, connOk := (toTrack s).conn } ∧
            s3.log = s.log :=
        fun s3 h3 => ⟨(h3.1.trans hn.1).trans base, (h3.2.trans hn.2)⟩
      show toTrack (if (c.cool != 0) = true then
          (if (noteOnBus (takeUpdate s p t) t .already).cdRunning = true then (noteOnBus (takeUpdate s p t) t .already, [])
           else send c (startCd c (noteOnBus (takeUpdate s p t) t .already) t) p false true t)
          else send c (noteOnBus (takeUpdate s p t) t .already) p false true t).1 = _ ∧ _
      split
      · split
        · exact fin _ (SameIn.refl _)
        · exact fin _ (SameIn.trans (b := startCd c (noteOnBus (takeUpdate s p t) t .already) t) ⟨rfl, rfl⟩
            (send_SameIn c _ p false true t))
      · exact fin _ (send_SameIn c _ p false true t)
  | init p t =>
    simp only [inputReaction, Option.some.injEq] at hr
    subst hr
    exact ⟨rfl, rfl⟩
  | read t =>
    simp only [inputReaction, Option.some.injEq] at hr
    subst hr
    have : SameIn s (doRead c s t).1 := by
      unfold doRead
      split
      · exact ⟨rfl, rfl⟩
      · split
        · simp only
          exact SameIn.trans (send_SameIn c s _ true false t) (restartCd_SameIn c _ _)
        · split
          · exact send_SameIn c s _ true false t
          · exact ⟨rfl, rfl⟩
    exact ⟨this.1, this.2⟩
  | bus p t =>
    simp only [inputReaction, Option.some.injEq] at hr
    subst hr
    have : SameIn s (doBus s p t) := by
      unfold doBus
      exact SameIn.trans (b := { s with last := some p }) ⟨rfl, rfl⟩ (noteOnBus_SameIn _ t .other)
    exact ⟨this.1, this.2⟩
  | conn u t =>
    simp only [inputReaction, Option.some.injEq] at hr
    subst hr
    unfold doConn
    simp only [track1]
    by_cases hsame : (s.conn == u) = true
    · have hsame' : ((toTrack s).conn == u) = true := hsame
      rw [if_pos hsame, if_pos hsame']
      exact ⟨rfl, rfl⟩
    · have hsame' : ¬ ((toTrack s).conn == u) = true := hsame
      rw [if_neg hsame, if_neg hsame']
      cases u with
      | true =>
        simp only [↓reduceIte]
        split
        · have := cooldownTarget_SameIn c (connUp c s t) t
          exact ⟨this.1, this.2⟩
        · exact ⟨rfl, rfl⟩
      | false =>
        simp only [Bool.false_eq_true, ↓reduceIte]
        exact ⟨rfl, rfl⟩
  | out x => simp [inputReaction] at hr
  | q p t => simp [inputReaction] at hr
  | fin t => simp [inputReaction] at hr

theorem track_snoc (k : Bool) (h : List Obs) (e : Obs) : track k (h ++ [e]) = track1 (track k h) e := by
  simp [track, List.foldl_append]

theorem outsOf_snoc (h : List Obs) (e : Obs) :
    outsOf (h ++ [e]) = outsOf h ++ (match e with | .out x => [x] | _ => []) := by
  simp only [outsOf, List.filterMap_append]
  cases e <;> simp

/-- Trace-indexed invariant: the value set last, the time of the last update taken, the connection state
and the outputs observed are the corresponding functions of the trace. -/
structure HInv (k : Bool) (tr : List Obs) (s : St) : Prop where
  trk : toTrack s = track k tr
  log : s.log = (outsOf tr).reverse

theorem HInv_init (c : Cfg) (k : Bool) : HInv k [] (init c k) := ⟨rfl, rfl⟩

theorem HInv.same {k : Bool} {tr : List Obs} {s s' : St} (h : HInv k tr s) (hs : SameIn s s') : HInv k tr s' :=
  ⟨hs.1.trans h.trk, hs.2.trans h.log⟩

theorem step_HInv (c : Cfg) (k : Bool) (h : List Obs) (s : St) (e : Obs) (s' : St) (hi : HInv k h s)
    (hs : step? c s e = some s') : HInv k (h ++ [e]) s' := by
  obtain ⟨_, hc⟩ := step_cases hs
  cases hc with
  | consume x ho hne ht hmem hs =>
    subst hs; subst ho
    refine ⟨?_, ?_⟩
    · rw [track_snoc]; exact hi.trk
    · simp [outsOf_snoc, hi.log]
  | consumeOpt x ho he ht hmem hs =>
    subst hs; subst ho
    refine ⟨?_, ?_⟩
    · rw [track_snoc]; exact hi.trk
    · simp [outsOf_snoc, hi.log]
  | fire x s1 ho he ha hf =>
    subst ho
    obtain ⟨tm, _, _, _, rfl⟩ := fireAt_cases hf
    have h1 := (hi.same (advance_SameIn ha)).same (fire_SameIn c s1 tm)
    refine ⟨?_, ?_⟩
    · rw [track_snoc]; exact h1.trk
    · simp [outsOf_snoc, h1.log]
  | input s1 r he ha hr hs =>
    subst hs
    have h1 : HInv k h (tick s1 e.time) := (hi.same (advance_SameIn ha)).same ⟨rfl, rfl⟩
    obtain ⟨ht, hl⟩ := inputReaction_track hr
    have hnotout : (match e with | .out x => [x] | _ => ([] : List Out)) = [] := by
      cases e <;> simp [inputReaction] at hr ⊢
    refine ⟨?_, ?_⟩
    · rw [track_snoc, ← h1.trk]; exact ht
    · rw [outsOf_snoc, hnotout, List.append_nil]
      exact hl.trans h1.log
  | sample s1 he ha hq hs =>
    subst hs
    have h1 : HInv k h (tick s1 e.time) := (hi.same (advance_SameIn ha)).same ⟨rfl, rfl⟩
    have hnotout : (match e with | .out x => [x] | _ => ([] : List Out)) = [] := by
      cases e <;> simp [sampleOk] at hq ⊢
    have htr : track1 (track k h) e = track k h := by
      cases e <;> simp [sampleOk] at hq <;> rfl
    refine ⟨?_, ?_⟩
    · rw [track_snoc, htr]; exact h1.trk
    · rw [outsOf_snoc, hnotout, List.append_nil]; exact h1.log

theorem HInv_run (c : Cfg) (k : Bool) (tr : List Obs) (s : St) (h : run? (step? c) (init c k) tr = some s) :
    HInv k tr s := by
  have := inv_hist_run? (step? c) (HInv k) (step_HInv c k) tr [] (init c k) s (HInv_init c k) h
  simpa using this

end XknxVerif.Expose
