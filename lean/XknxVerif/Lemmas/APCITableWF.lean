/-
Kernel-evaluated facts about the concrete layout table (re-checked whenever the
table or the generated enum tables change).
-/
import XknxVerif.Lemmas.APCICodec

namespace XknxVerif.APCI

/-- Every variant of every row is a well-formed layout, admits only lengths ≥ 2,
and the variants of a row have pairwise disjoint length rules. -/
theorem table_wf : TableWF := by
  unfold TableWF
  decide +kernel

end XknxVerif.APCI
